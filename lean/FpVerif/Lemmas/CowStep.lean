import FpVerif.Lemmas.CowBasic
/-!
Summary of one atomic block of the repaired CopyOnWriteMap (`Variant.recheck`): every step
appends events of the moving thread only, extends that thread's expected history by exactly
those events, passes at most one linearization point — at which the atomic map makes exactly the
transition the concrete snapshot makes — and respects the lock discipline.
-/
namespace FpVerif.Cow
open FpVerif.Sched

def Local.isStore (l : Local) : Bool :=
  match l.phase with
  | .running _ (.store ..) => true
  | _ => false

/-- per-thread invariant: a thread about to publish has computed exactly what the atomic map
    would do now; the re-read states of ComputeIf-as-written are never entered -/
def TInv (sh : Shared) (l : Local) : Prop :=
  match l.phase with
  | .running op (.store nm out) => op.apply sh.map = (nm, out)
  | .running _ .load2 => False
  | .running _ .load2Lock => False
  | _ => True

/-- the program of a thread: completed, current and future operations -/
def Local.ops (l : Local) : List Op :=
  l.done.map (·.1) ++ (match l.phase with | .running op _ => [op] | .finished => []) ++ l.todo

structure StepSum (sh : Shared) (l : Local) (sh' : Shared) (l' : Local) : Prop where
  tid : l'.tid = l.tid
  ops : l'.ops = l.ops
  calls : ∃ cs, sh'.calls = sh.calls ++ cs
  noPanic : Ret.panic ∉ l.rets → Ret.panic ∉ l'.rets
  tinv : TInv sh' l'
  fin : l'.phase = .finished → l'.todo = []
  hist : ∃ evs, sh'.hist = sh.hist ++ evs ∧ (∀ e ∈ evs, e.tid = l.tid) ∧
      expected l' = expected l ++ evs ∧
      ((linsOf evs = [] ∧ sh'.map = sh.map) ∨
       (∃ op r, linsOf evs = [(op, r)] ∧ op.apply sh.map = (sh'.map, r)))
  lock : (l.isStore = false ∧ l'.isStore = false ∧ sh'.lock = sh.lock ∧ sh'.map = sh.map) ∨
         (l.isStore = false ∧ l'.isStore = true ∧ sh.lock = false ∧ sh'.lock = true ∧ sh'.map = sh.map) ∨
         (l.isStore = true ∧ l'.isStore = false ∧ sh'.lock = false)

theorem complete_eq (sh : Shared) (l : Local) (op : Op) (r : Ret) (hr : r ≠ .panic) :
    complete sh l op r =
      startNext { sh with hist := sh.hist ++ [.ret l.tid l.done.length r] }
        { l with done := l.done ++ [(op, r)] } := by
  cases r <;> simp_all [complete]

theorem ops_startNext (sh : Shared) (l : Local) (hf : l.phase = .finished) :
    (startNext sh l).2.ops = l.ops := by
  rw [startNext_eq]
  cases ht : l.todo with
  | nil => simp [Local.ops, hf, ht]
  | cons op rest => simp [Local.ops, hf, ht]

/-- Completing the current operation with a (non-panic) result `r`, after events `pre` that
    together with the thread's current events make up `call; lin r`. -/
theorem complete_sum (sh : Shared) (l : Local) (op : Op) (pc : Pc) (r : Ret) (pre : List HEv)
    (hp : l.phase = .running op pc) (hr : r ≠ .panic)
    (hpre : curEvents l ++ pre = [.call l.tid l.done.length op, .lin l.tid l.done.length op r])
    (shm : Shared) (hshm : shm.hist = sh.hist ++ pre) :
    let res := complete shm l op r
    res.2.tid = l.tid ∧ res.2.ops = l.ops ∧ res.1.calls = shm.calls ∧
    res.1.snap = shm.snap ∧ res.1.lock = shm.lock ∧
    (Ret.panic ∉ l.rets → Ret.panic ∉ res.2.rets) ∧ TInv res.1 res.2 ∧ res.2.isStore = false ∧
    (res.2.phase = .finished → res.2.todo = []) ∧
    ∃ evs, res.1.hist = sh.hist ++ evs ∧ (∀ e ∈ evs, e.tid = l.tid) ∧
      expected res.2 = expected l ++ evs ∧
      linsOf evs = linsOf pre ∧
      evs = pre ++ .ret l.tid l.done.length r :: curEvents res.2 := by
  intro res
  have hres : res = startNext { shm with hist := shm.hist ++ [.ret l.tid l.done.length r] }
      { l with done := l.done ++ [(op, r)] } := complete_eq shm l op r hr
  obtain ⟨h1, h2, h3, h4, h5, h6, h7, h8, h9, h10⟩ :=
    startNext_spec { shm with hist := shm.hist ++ [.ret l.tid l.done.length r] }
      { l with done := l.done ++ [(op, r)] }
  rw [← hres] at h1 h2 h3 h4 h5 h6 h7 h8 h9 h10
  simp only at h1 h2 h3 h4 h5 h6
  have hstore : res.2.isStore = false := by
    unfold Local.isStore
    cases hph : res.2.phase with
    | finished => rfl
    | running o p =>
      cases p <;> simp
      rename_i nm out
      exact h7 nm out o hph
  have htinv : TInv res.1 res.2 := by
    unfold TInv
    cases hph : res.2.phase with
    | finished => trivial
    | running o p =>
      cases p with
      | store nm out => exact absurd hph (h7 nm out o)
      | load2 => exact absurd hph (h8 o)
      | load2Lock => exact absurd hph (h9 o)
      | _ => trivial
  have hops : res.2.ops = l.ops := by
    rw [hres]
    -- the thread with the operation moved to `done` has the same program
    have hx := ops_startNext { shm with hist := shm.hist ++ [.ret l.tid l.done.length r] }
      { l with done := l.done ++ [(op, r)], phase := .finished } rfl
    have hsame : startNext { shm with hist := shm.hist ++ [.ret l.tid l.done.length r] }
        { l with done := l.done ++ [(op, r)] } =
        startNext { shm with hist := shm.hist ++ [.ret l.tid l.done.length r] }
        { l with done := l.done ++ [(op, r)], phase := .finished } := by
      rw [startNext_eq, startNext_eq]
    rw [hsame, hx]
    simp [Local.ops, hp]
  refine ⟨h4, hops, h3, h1, h2, ?_, htinv, hstore, h10, ?_⟩
  · intro hnp
    simp only [Local.rets, h5, List.map_append, List.mem_append, not_or]
    exact ⟨hnp, by simpa using hr.symm⟩
  · refine ⟨pre ++ .ret l.tid l.done.length r :: curEvents res.2, ?_, ?_, ?_, ?_, rfl⟩
    · rw [h6, hshm]; simp
    · intro e he
      have hpre' : ∀ e ∈ pre, e.tid = l.tid := by
        intro e he
        have : e ∈ curEvents l ++ pre := List.mem_append_right _ he
        rw [hpre] at this
        simp at this
        rcases this with rfl | rfl <;> rfl
      simp only [List.mem_append, List.mem_cons] at he
      rcases he with he | rfl | he
      · exact hpre' e he
      · rfl
      · unfold curEvents at he
        rw [h4, h5] at he
        cases hph : res.2.phase with
        | finished => simp [hph] at he
        | running o p =>
          simp only [hph, List.mem_cons] at he
          rcases he with rfl | he
          · rfl
          · cases p <;> simp at he
            subst he; rfl
    · unfold expected
      rw [h4, h5, doneEvents_snoc]
      have : doneEvents l.tid 0 l.done ++ curEvents l ++ (pre ++ .ret l.tid l.done.length r :: curEvents res.2)
          = doneEvents l.tid 0 l.done ++ (curEvents l ++ pre) ++ .ret l.tid l.done.length r :: curEvents res.2 := by
        simp
      rw [this, hpre]
      simp
    · simp only [linsOf_append, linsOf]
      have : linsOf (curEvents res.2) = [] := by
        unfold curEvents
        cases hph : res.2.phase with
        | finished => rfl
        | running o p =>
          cases p <;> simp [linsOf]
          rename_i m
          -- a freshly started operation is never at `hold`
          rw [hres, startNext_eq] at hph
          cases ht : l.todo with
          | nil => simp [ht] at hph
          | cons o' rest =>
            simp [ht] at hph
            cases o' <;> simp [entryPc] at hph
      simp [this]


theorem apply_ne_panic (op : Op) (m : AMap) : (op.apply m).2 ≠ .panic := by
  cases op <;> simp [Op.apply]

theorem writeBody_apply {op : Op} {m nm : AMap} {out : Ret} {cs : List Call}
    (h : writeBody .recheck op m = some (nm, out, cs)) : op.apply m = (nm, out) := by
  cases op with
  | updated k x => simp [writeBody] at h; simp [Op.apply, h]
  | removed ks => simp [writeBody] at h; simp [Op.apply, h]
  | updatedWith k rid remap => simp [writeBody] at h; simp [Op.apply, h]
  | computeIf k pid pred fid nv =>
    simp only [writeBody] at h
    simp only [Op.apply, computeIfMap]
    cases hg : AMap.get m k with
    | none => simp [hg] at h; simp [h]
    | some x =>
      simp only [hg] at h
      by_cases hp : pred x = true
      · simp [hp] at h; simp [hp, h]
      · simp [hp] at h; simp [hp, h]
  | get k => simp [writeBody] at h
  | size => simp [writeBody] at h
  | iter => simp [writeBody] at h

theorem isAsIs_recheck (op : Op) : isAsIsComputeIf .recheck op = false := by
  cases op <;> simp [isAsIsComputeIf]

theorem curEvents_not_hold {l : Local} {op : Op} {pc : Pc} (hp : l.phase = .running op pc)
    (hh : ∀ m, pc ≠ .hold m) : curEvents l = [.call l.tid l.done.length op] := by
  unfold curEvents
  rw [hp]
  cases pc <;> simp
  rename_i m; exact absurd rfl (hh m)

theorem isStore_of_phase {l : Local} {op : Op} {pc : Pc} (hp : l.phase = .running op pc)
    (hh : ∀ nm out, pc ≠ .store nm out) : l.isStore = false := by
  unfold Local.isStore
  rw [hp]
  cases pc <;> simp
  rename_i nm out; exact absurd rfl (hh nm out)

/-- a step that only moves the thread's program counter (no event, no shared change except
    callback invocations) -/
theorem quiet_sum {sh : Shared} {l : Local} {op : Op} {pc pc' : Pc} (cs : List Call)
    (hp : l.phase = .running op pc)
    (h1 : ∀ m, pc ≠ .hold m) (h2 : ∀ m, pc' ≠ .hold m)
    (h3 : ∀ nm out, pc ≠ .store nm out) (h4 : ∀ nm out, pc' ≠ .store nm out)
    (h5 : pc' ≠ .load2) (h6 : pc' ≠ .load2Lock) :
    StepSum sh l { sh with calls := sh.calls ++ cs } { l with phase := .running op pc' } := by
  refine ⟨rfl, ?_, ⟨cs, rfl⟩, fun h => h, ?_, by simp, ⟨[], by simp, by simp, ?_, Or.inl ⟨rfl, rfl⟩⟩, ?_⟩
  · simp [Local.ops, hp]
  · unfold TInv; cases pc' <;> simp_all
  · simp only [List.append_nil, expected]
    rw [curEvents_not_hold hp h1, curEvents_not_hold (l := { l with phase := .running op pc' }) rfl h2]
  · exact Or.inl ⟨isStore_of_phase hp h3, isStore_of_phase (l := { l with phase := .running op pc' }) rfl h4, rfl, rfl⟩

/-- the part of a step after `load()` has produced the map `m` -/
theorem afterLoad_sum {sh shm sh' : Shared} {l l' : Local} {op : Op} {pc : Pc} {m : AMap}
    (hp : l.phase = .running op pc) (hpc : pc = .load ∨ pc = .loadLock)
    (hm1 : shm.map = m) (hm2 : sh.map = m) (hlk : shm.lock = sh.lock) (hh : shm.hist = sh.hist)
    (hc : shm.calls = sh.calls)
    (h : afterLoad shm l op m = some (sh', l')) : StepSum sh l sh' l' := by
  have hnh : ∀ m, pc ≠ .hold m := by rcases hpc with rfl | rfl <;> simp
  have hns : ∀ nm out, pc ≠ .store nm out := by rcases hpc with rfl | rfl <;> simp
  have hcur := curEvents_not_hold hp hnh
  have hst := isStore_of_phase hp hns
  -- a read that is linearized now and returns
  have readCase : ∀ (shx : Shared) (r : Ret), shx.map = m → shx.lock = sh.lock → shx.hist = sh.hist →
      (∃ cs, shx.calls = sh.calls ++ cs) → op.apply m = (m, r) →
      (sh', l') = complete (linEv shx l op r) l op r → StepSum sh l sh' l' := by
    intro shx r hx1 hx2 hx3 hx4 hap heq
    have hr : r ≠ .panic := by have := apply_ne_panic op m; rw [hap] at this; exact this
    have := complete_sum sh l op pc r [.lin l.tid l.done.length op r] hp hr (by rw [hcur]; rfl)
      (linEv shx l op r) (by simp [linEv, hx3])
    simp only at this
    rw [← heq] at this
    obtain ⟨t1, t2, t3, t4, t5, t6, t7, t8, t9, evs, e1, e2, e3, e4, _⟩ := this
    obtain ⟨cs, hcs⟩ := hx4
    have hmap : sh'.map = m := by
      unfold Shared.map at hx1 ⊢
      rw [t4]; exact hx1
    refine ⟨t1, t2, ⟨cs, by rw [t3]; exact hcs⟩, t6, t7, t9, ⟨evs, e1, e2, e3, Or.inr ⟨op, r, ?_, ?_⟩⟩, ?_⟩
    · rw [e4]; rfl
    · rw [hm2, hmap]; exact hap
    · exact Or.inl ⟨hst, t8, by rw [t5]; exact hx2, by rw [hmap, hm2]⟩
  cases op with
  | get k =>
    simp only [afterLoad, Option.some.injEq] at h
    exact readCase shm _ hm1 hlk hh ⟨[], by simp [hc]⟩ rfl h.symm
  | size =>
    simp only [afterLoad, Option.some.injEq] at h
    exact readCase shm _ hm1 hlk hh ⟨[], by simp [hc]⟩ rfl h.symm
  | iter =>
    simp only [afterLoad, Option.some.injEq, Prod.mk.injEq] at h
    obtain ⟨rfl, rfl⟩ := h
    refine ⟨rfl, ?_, ⟨[], by simp [linEv, hc]⟩, fun h => h, ?_, by simp,
      ⟨[.lin l.tid l.done.length .iter (.kvs m)], by simp [linEv, hh], by simp [HEv.tid], ?_,
        Or.inr ⟨.iter, .kvs m, rfl, ?_⟩⟩, ?_⟩
    · simp [Local.ops, hp]
    · simp [TInv]
    · simp only [expected]
      rw [hcur]
      simp [curEvents]
    · have : (linEv shm l Op.iter (Ret.kvs m)).map = m := by simpa [linEv, Shared.map] using hm1
      rw [this, hm2]; rfl
    · refine Or.inl ⟨hst, rfl, by simpa [linEv] using hlk, ?_⟩
      have : (linEv shm l Op.iter (Ret.kvs m)).map = m := by simpa [linEv, Shared.map] using hm1
      rw [this, hm2]
  | computeIf k pid pred fid nv =>
    simp only [afterLoad] at h
    have miss : ∀ cs : List Call,
        (sh', l') = ({ shm with calls := shm.calls ++ cs }, { l with phase := .running (.computeIf k pid pred fid nv) .enter }) →
        StepSum sh l sh' l' := by
      intro cs heq
      have hq := quiet_sum (sh := sh) (l := l) (pc := pc) (pc' := .enter) cs hp hnh (by simp) hns (by simp) (by simp) (by simp)
      obtain ⟨rfl, rfl⟩ := Prod.mk.inj heq
      refine ⟨hq.tid, hq.ops, ⟨cs, by simp [hc]⟩, hq.noPanic, ?_, by simp, ?_, ?_⟩
      · simp [TInv]
      · refine ⟨[], by simp [hh], by simp, ?_, Or.inl ⟨rfl, ?_⟩⟩
        · simp only [expected]
          rw [hcur]
          simp [curEvents]
        · simpa [Shared.map] using (hm1.trans hm2.symm)
      · refine Or.inl ⟨hst, rfl, by simpa using hlk, ?_⟩
        simpa [Shared.map] using (hm1.trans hm2.symm)
    cases hg : AMap.get m k with
    | none =>
      simp only [hg, Option.some.injEq] at h
      exact miss _ h.symm
    | some x =>
      simp only [hg] at h
      cases hpx : pred x with
      | true =>
        simp only [hpx, if_true, Option.some.injEq] at h
        have h' := h.symm
        rw [List.append_assoc] at h'
        exact miss _ h'
      | false =>
        simp only [hpx, Bool.false_eq_true, if_false, Option.some.injEq] at h
        refine readCase { shm with calls := shm.calls ++ _ } (.val x) (by simpa [Shared.map] using hm1)
          (by simpa using hlk) (by simpa using hh) ⟨_, by rw [hc]⟩ ?_ h.symm
        simp [Op.apply, computeIfMap, hg, hpx]
  | updated k x => simp [afterLoad] at h
  | removed ks => simp [afterLoad] at h
  | updatedWith k rid remap => simp [afterLoad] at h

/-- Summary of every atomic block of the repaired algorithm. -/
theorem stepT_sum {sh sh' : Shared} {l l' : Local} (hT : TInv sh l)
    (h : stepT .recheck sh l = some (sh', l')) : StepSum sh l sh' l' := by
  unfold stepT at h
  cases hp : l.phase with
  | finished => simp [hp] at h
  | running op pc =>
    simp only [hp] at h
    cases pc with
    | load =>
      simp only at h
      cases hs : sh.snap with
      | none =>
        simp only [hs, Option.some.injEq, Prod.mk.injEq] at h
        obtain ⟨rfl, rfl⟩ := h
        have := quiet_sum (sh := sh) (l := l) (pc := .load) (pc' := .loadLock) [] hp
          (by simp) (by simp) (by simp) (by simp) (by simp) (by simp)
        simpa using this
      | some m =>
        simp only [hs] at h
        exact afterLoad_sum hp (Or.inl rfl) (by simp [Shared.map, hs]) (by simp [Shared.map, hs]) rfl rfl rfl h
    | loadLock =>
      simp only at h
      by_cases hl : sh.lock = true
      · simp [hl] at h
      · simp only [hl, Bool.false_eq_true, if_false] at h
        have hlf : sh.lock = false := Bool.eq_false_iff.mpr hl
        exact afterLoad_sum (shm := { snap := some sh.map, lock := false, calls := sh.calls, hist := sh.hist })
          hp (Or.inr rfl) (by simp [Shared.map]) rfl hlf.symm rfl rfl h
    | hold m =>
      simp only [Option.some.injEq] at h
      have := complete_sum sh l op (.hold m) (.kvs m) [] hp (by simp)
        (by simp [curEvents, hp]) sh (by simp)
      simp only at this
      rw [h] at this
      obtain ⟨t1, t2, t3, t4, t5, t6, t7, t8, t9, evs, e1, e2, e3, e4, _⟩ := this
      have hmap : sh'.map = sh.map := by unfold Shared.map; rw [t4]
      refine ⟨t1, t2, ⟨[], by simpa using t3⟩, t6, t7, t9, ⟨evs, e1, e2, e3, Or.inl ⟨by simpa [linsOf] using e4, hmap⟩⟩, ?_⟩
      exact Or.inl ⟨isStore_of_phase hp (by simp), t8, t5, hmap⟩
    | enter =>
      simp only at h
      by_cases hl : sh.lock = true
      · simp [hl] at h
      · simp only [hl] at h
        cases hw : writeBody .recheck op sh.map with
        | none => simp [hw] at h
        | some res =>
          obtain ⟨nm, out, cs⟩ := res
          simp only [hw, Option.some.injEq, Prod.mk.injEq] at h
          obtain ⟨rfl, rfl⟩ := h
          have hap := writeBody_apply hw
          refine ⟨rfl, ?_, ⟨cs, rfl⟩, fun h => h, ?_, by simp, ⟨[], by simp, by simp, ?_, Or.inl ⟨rfl, rfl⟩⟩, ?_⟩
          · simp [Local.ops, hp]
          · simpa [TInv, Shared.map] using hap
          · simp [expected, curEvents, hp]
          · exact Or.inr (Or.inl ⟨isStore_of_phase hp (by simp), by simp [Local.isStore],
              by simpa using hl, rfl, rfl⟩)
    | store nm out =>
      simp only [isAsIs_recheck, Bool.false_eq_true, if_false, Option.some.injEq] at h
      have hap : op.apply sh.map = (nm, out) := by simpa [TInv, hp] using hT
      have hr : out ≠ .panic := by have := apply_ne_panic op sh.map; rw [hap] at this; exact this
      have := complete_sum sh l op (.store nm out) out [.lin l.tid l.done.length op out] hp hr
        (by simp [curEvents, hp])
        (linEv { sh with snap := some nm, lock := false } l op out) (by simp [linEv])
      simp only at this
      rw [h] at this
      obtain ⟨t1, t2, t3, t4, t5, t6, t7, t8, t9, evs, e1, e2, e3, e4, _⟩ := this
      have hmap : sh'.map = nm := by unfold Shared.map; rw [t4]; rfl
      refine ⟨t1, t2, ⟨[], by simpa [linEv] using t3⟩, t6, t7, t9,
        ⟨evs, e1, e2, e3, Or.inr ⟨op, out, by rw [e4]; rfl, by rw [hmap]; exact hap⟩⟩, ?_⟩
      exact Or.inr (Or.inr ⟨by simp [Local.isStore, hp], t8, by rw [t5]; rfl⟩)
    | load2 => simp [TInv, hp] at hT
    | load2Lock => simp [TInv, hp] at hT

end FpVerif.Cow
