import FpVerif.Lemmas.TCLaws
/-! Helper lemmas about the association-list model of Go maps. -/
namespace FpVerif.TC

variable {κ ν : Type} [DecidableEq κ]

theorem lookup_eq_none_of_not_mem {k : κ} {l : List (κ × ν)} (h : k ∉ l.map Prod.fst) :
    lookup k l = none := by
  induction l with
  | nil => rfl
  | cons p rest ih =>
    obtain ⟨k', v⟩ := p
    simp only [List.map_cons, List.mem_cons, not_or] at h
    simp [lookup, h.1, ih h.2]

theorem lookup_isSome_iff_mem {k : κ} {l : List (κ × ν)} :
    (lookup k l).isSome = true ↔ k ∈ l.map Prod.fst := by
  induction l with
  | nil => simp [lookup]
  | cons p rest ih =>
    obtain ⟨k', v⟩ := p
    simp only [lookup, List.map_cons, List.mem_cons]
    by_cases h : k = k'
    · simp [h]
    · simp [h, ih]

theorem lookup_eraseKey_ne {k k' : κ} (h : k' ≠ k) (l : List (κ × ν)) :
    lookup k' (GoMap.eraseKey k l) = lookup k' l := by
  induction l with
  | nil => rfl
  | cons p rest ih =>
    obtain ⟨k2, v⟩ := p
    simp only [GoMap.eraseKey]
    by_cases h2 : k = k2
    · subst h2; simp [lookup, h]
    · simp only [h2, ↓reduceIte, lookup, ih]

theorem GoMap.get_insert (m : GoMap κ ν) (k k' : κ) (v : ν) :
    (m.insert k v).get k' = if k' = k then some v else m.get k' := by
  simp only [GoMap.get, GoMap.insert, lookup]
  by_cases h : k' = k
  · simp [h]
  · simp [h, lookup_eraseKey_ne h]

theorem GoMap.get_empty (k : κ) : (GoMap.empty : GoMap κ ν).get k = none := rfl

/-- the loop `for k, v := range l { ret[k] = v }` -/
theorem get_foldl_insert (l : List (κ × ν)) (hl : (l.map Prod.fst).Nodup) (ret : GoMap κ ν) (k : κ) :
    (l.foldl (fun m kv => m.insert kv.1 kv.2) ret).get k = (lookup k l).or (ret.get k) := by
  induction l generalizing ret with
  | nil => simp [lookup]
  | cons p rest ih =>
    obtain ⟨k', v⟩ := p
    simp only [List.map_cons, List.nodup_cons] at hl
    simp only [List.foldl_cons, ih hl.2, GoMap.get_insert, lookup]
    by_cases h : k = k'
    · subst h
      simp [lookup_eq_none_of_not_mem hl.1]
    · simp [h]

theorem get_putAll (ret a : GoMap κ ν) (k : κ) :
    (MonoidD.putAll ret a).get k = (a.get k).or (ret.get k) :=
  get_foldl_insert a.entries a.nodup ret k

end FpVerif.TC
