import FpVerif.Lemmas.ListDen
/-!
# Lazy list: memoisation end to end — after a traversal every cell it read is done, and a second
# traversal reads the stored values only: it changes neither the heap nor the log
-/
namespace FpVerif.LL
open FpVerif.It IM

/-- forcing a pending tail cell whose closure returns stores the value -/
theorem forceT_stores (fuel c : Nat) (hp hp' : Heap) (lg lg' : Log) (v : LV)
    (h : forceT (fuel + 1) c hp lg = (.ok v, hp', lg')) (hc : c < hp'.ts.size) :
    ∃ n, hp'.ts[c]? = some (.done v, n) := by
  simp only [forceT, bind_apply, get_apply] at h
  rcases hcell : hp.ts[c]? with _ | ⟨cell, n⟩
  · simp [hcell] at h
  · rcases cell with t | _ | w
    · simp only [hcell, bind_apply, modify_apply] at h
      split at h
      · rename_i x hp2 lg2 hr
        simp only [pure_apply, Prod.mk.injEq, Except.ok.injEq] at h
        obtain ⟨rfl, rfl, rfl⟩ := h
        refine ⟨n + 1, ?_⟩
        simp only [Array.set!_eq_setIfInBounds, Array.size_setIfInBounds] at hc ⊢
        simp [Array.getElem?_setIfInBounds, hc]
      · simp at h
    · simp [hcell] at h
    · simp only [hcell, pure_apply, Prod.mk.injEq, Except.ok.injEq] at h
      obtain ⟨rfl, rfl, rfl⟩ := h
      exact ⟨n, hcell⟩

/-- every memo cell that a traversal of `xs` through `l` reads is done -/
def Forced (hp : Heap) : List Val → LV → Prop
  | [], l => match l with
    | .nil => True
    | .seq ys => ys = []
    | .adaptor hc _ => ∃ n, hp.hs[hc]? = some (.done none, n)
    | .cons _ _ => False
    | .nilIface => False
  | x :: xs, l => match l with
    | .nil => False
    | .seq ys => ys = x :: xs
    | .cons h t => h = x ∧ Forced hp xs t
    | .adaptor hc tc => ∃ n m t, hp.hs[hc]? = some (.done (some x), n) ∧
        hp.ts[tc]? = some (.done t, m) ∧ Forced hp xs t
    | .nilIface => False

theorem Forced.seq (hp : Heap) (xs : List Val) : Forced hp xs (.seq xs) := by
  cases xs <;> simp [Forced]

theorem Forced.mono {hp hp' : Heap} (hD : DoneSub hp hp') : ∀ (xs : List Val) (l : LV), Forced hp xs l → Forced hp' xs l := by
  intro xs
  induction xs with
  | nil =>
    intro l h
    cases l with
    | adaptor hc tc => obtain ⟨n, h⟩ := h; exact ⟨n, hD.hs _ _ _ h⟩
    | _ => exact h
  | cons x xs ih =>
    intro l h
    cases l with
    | cons a t => exact ⟨h.1, ih t h.2⟩
    | adaptor hc tc =>
      obtain ⟨n, m, t, h1, h2, h3⟩ := h
      exact ⟨n, m, t, hD.hs _ _ _ h1, hD.ts _ _ _ h2, ih t h3⟩
    | _ => exact h

attribute [local irreducible] LL.isEmpty LL.head LL.tail LL.headOpt LL.forceH LL.forceT LL.forceL LL.applyK LL.runH LL.runT
  LL.flatMap LL.combine LL.eval

theorem isEmpty_adaptor (f hc tc : Nat) :
    LL.isEmpty (f + 1) (.adaptor hc tc) = (do let o ← forceH f hc; pure o.isNone) := by
  rw [LL.isEmpty]

theorem tail_adaptor (f hc tc : Nat) : LL.tail (f + 1) (.adaptor hc tc) = forceT f tc := by
  rw [LL.tail]

theorem head_adaptor_some (f hc tc : Nat) (hp hp' : Heap) (lg lg' : Log) (x : Val)
    (h : forceH f hc hp lg = (.ok (some x), hp', lg')) :
    LL.head (f + 1) (.adaptor hc tc) hp lg = (.ok x, hp', lg') := by
  rw [LL.head, bind_ok h]; rfl

/-- the three interface operations on plain values -/
theorem isEmpty_seq (f : Nat) (ys : List Val) (hp : Heap) (lg : Log) :
    LL.isEmpty (f + 1) (.seq ys) hp lg = (.ok ys.isEmpty, hp, lg) := by
  rw [LL.isEmpty]; rfl; exact fun h => absurd h (Nat.succ_ne_zero _)

theorem isEmpty_cons (f : Nat) (a : Val) (t : LV) (hp : Heap) (lg : Log) :
    LL.isEmpty (f + 1) (.cons a t) hp lg = (.ok false, hp, lg) := by
  rw [LL.isEmpty]; rfl; exact fun h => absurd h (Nat.succ_ne_zero _)

theorem isEmpty_nil (f : Nat) (hp : Heap) (lg : Log) : LL.isEmpty (f + 1) .nil hp lg = (.ok true, hp, lg) := by
  rw [LL.isEmpty]; rfl; exact fun h => absurd h (Nat.succ_ne_zero _)

theorem head_cons (f : Nat) (a : Val) (t : LV) (hp : Heap) (lg : Log) :
    LL.head (f + 1) (.cons a t) hp lg = (.ok a, hp, lg) := by
  rw [LL.head]; rfl; exact fun h => absurd h (Nat.succ_ne_zero _)

theorem tail_cons (f : Nat) (a : Val) (t : LV) (hp : Heap) (lg : Log) :
    LL.tail (f + 1) (.cons a t) hp lg = (.ok t, hp, lg) := by
  rw [LL.tail]; rfl; exact fun h => absurd h (Nat.succ_ne_zero _)

theorem head_seq (f : Nat) (y : Val) (ys : List Val) (hp : Heap) (lg : Log) :
    LL.head (f + 1) (.seq (y :: ys)) hp lg = (.ok y, hp, lg) := by
  rw [LL.head]; rfl; exact fun h => absurd h (Nat.succ_ne_zero _)

theorem tail_seq (f : Nat) (y : Val) (ys : List Val) (hp : Heap) (lg : Log) :
    LL.tail (f + 1) (.seq (y :: ys)) hp lg = (.ok (.seq ys), hp, lg) := by
  rw [LL.tail]; rfl; exact fun h => absurd h (Nat.succ_ne_zero _)

theorem toSeq_step_nil {F : Nat} {l : LV} {acc : List Val} {hp hp1 : Heap} {lg lg1 : Log}
    (e1 : LL.isEmpty F l hp lg = (.ok true, hp1, lg1)) : LL.toSeq (F + 1) l acc hp lg = (.ok acc, hp1, lg1) := by
  simp [LL.toSeq, bind_ok e1]

theorem toSeq_step_cons {F : Nat} {l t : LV} {acc : List Val} {x : Val} {hp hp1 hp2 hp3 : Heap} {lg lg1 lg2 lg3 : Log}
    (e1 : LL.isEmpty F l hp lg = (.ok false, hp1, lg1)) (e2 : LL.head F l hp1 lg1 = (.ok x, hp2, lg2))
    (e3 : LL.tail F l hp2 lg2 = (.ok t, hp3, lg3)) :
    LL.toSeq (F + 1) l acc hp lg = LL.toSeq F t (acc ++ [x]) hp3 lg3 := by
  simp [LL.toSeq, bind_ok e1, bind_ok e2, bind_ok e3]

/-- a traversal that only reads done cells: the result, and NOTHING else happens — the heap and
    the log are unchanged (no closure, no callback runs) -/
theorem toSeq_forced : ∀ (xs : List Val) (l : LV) (acc : List Val) (fuel : Nat) (hp : Heap) (lg : Log),
    Forced hp xs l → xs.length + 3 ≤ fuel → LL.toSeq fuel l acc hp lg = (.ok (acc ++ xs), hp, lg) := by
  intro xs
  induction xs with
  | nil =>
    intro l acc fuel hp lg hF hfu
    obtain ⟨f, rfl⟩ : ∃ f, fuel = f + 3 := ⟨fuel - 3, by simp at hfu; omega⟩
    cases l with
    | nil => rw [toSeq_step_nil (isEmpty_nil (f + 1) hp lg)]; simp
    | cons a t => exact absurd hF id
    | seq ys =>
      simp only [Forced] at hF; subst hF
      rw [toSeq_step_nil (isEmpty_seq (f + 1) [] hp lg)]; simp
    | nilIface => exact absurd hF id
    | adaptor hc tc =>
      obtain ⟨n, hcell⟩ := hF
      have e : LL.isEmpty (f + 2) (.adaptor hc tc) hp lg = (.ok true, hp, lg) := by
        rw [isEmpty_adaptor, bind_ok (forceH_done f hc hp lg none n hcell)]; rfl
      rw [toSeq_step_nil e]; simp
  | cons x xs ih =>
    intro l acc fuel hp lg hF hfu
    obtain ⟨f, rfl⟩ : ∃ f, fuel = f + 3 := ⟨fuel - 3, by simp at hfu; omega⟩
    have hfu' : xs.length + 3 ≤ f + 2 := by simp at hfu; omega
    cases l with
    | nil => exact absurd hF id
    | cons a t =>
      obtain ⟨rfl, hF⟩ := hF
      rw [toSeq_step_cons (isEmpty_cons (f + 1) a t hp lg) (head_cons (f + 1) a t hp lg) (tail_cons (f + 1) a t hp lg),
        ih t (acc ++ [a]) (f + 2) hp lg hF hfu']
      simp
    | seq ys =>
      simp only [Forced] at hF; subst hF
      rw [toSeq_step_cons (isEmpty_seq (f + 1) (x :: xs) hp lg) (head_seq (f + 1) x xs hp lg)
        (tail_seq (f + 1) x xs hp lg), ih (.seq xs) (acc ++ [x]) (f + 2) hp lg (Forced.seq hp xs) hfu']
      simp
    | nilIface => exact absurd hF id
    | adaptor hc tc =>
      obtain ⟨n, m, t, h1, h2, hF⟩ := hF
      have e1 : LL.isEmpty (f + 2) (.adaptor hc tc) hp lg = (.ok false, hp, lg) := by
        rw [isEmpty_adaptor, bind_ok (forceH_done f hc hp lg _ n h1)]; rfl
      have e2 : LL.head (f + 2) (.adaptor hc tc) hp lg = (.ok x, hp, lg) :=
        head_adaptor_some (f + 1) hc tc hp hp lg lg x (forceH_done f hc hp lg _ n h1)
      have e3 : LL.tail (f + 2) (.adaptor hc tc) hp lg = (.ok t, hp, lg) := by
        rw [tail_adaptor]; exact forceT_done f tc hp lg t m h2
      rw [toSeq_step_cons e1 e2 e3, ih t (acc ++ [x]) (f + 2) hp lg hF hfu']
      simp

theorem Cons.need_hs {S : Sty} {hp : Heap} (hC : Cons S hp) {c : Nat} (hc : c < S.nh) : 2 ≤ (S.hs c).need := by
  obtain ⟨⟨cell, m⟩, hcell⟩ := cell_of_lt hp.hs c (by rw [← hC.nh]; exact hc)
  exact (hC.hs c cell m hcell).1

theorem Cons.need_ts {S : Sty} {hp : Heap} (hC : Cons S hp) {c : Nat} (hc : c < S.nt) : 2 ≤ (S.ts c).need := by
  obtain ⟨⟨cell, m⟩, hcell⟩ := cell_of_lt hp.ts c (by rw [← hC.nt]; exact hc)
  exact (hC.ts c cell m hcell).1

/-- a traversal of a typed value returns the denoted list and leaves every cell it read done -/
theorem toSeq_forces : ∀ (xs : List Val) (S : Sty) (hp : Heap) (l : LV) (acc : List Val) (k fuel : Nat) (lg : Log),
    WellTyped S hp → VDen S l (.fin xs) k → k + xs.length < fuel →
    ∃ S' hp' lg', LL.toSeq fuel l acc hp lg = (.ok (acc ++ xs), hp', lg') ∧ WellTyped S' hp' ∧ Ext S S' ∧
      DoneSub hp hp' ∧ Forced hp' xs l := by
  intro xs
  induction xs with
  | nil =>
    intro S hp l acc k fuel lg hW hV hfu
    have hk := hV.pos
    obtain ⟨f, rfl⟩ : ∃ f, fuel = f + 2 := ⟨fuel - 2, by simp at hfu; omega⟩
    cases l with
    | nil =>
      exact ⟨S, hp, lg, by rw [toSeq_step_nil (isEmpty_nil f hp lg)]; simp, hW, Ext.refl S, DoneSub.refl hp, trivial⟩
    | cons a t => obtain ⟨xs', h, _⟩ := hV; cases h
    | seq ys =>
      have hys : ys = [] := by have := hV.1; cases this; rfl
      subst hys
      exact ⟨S, hp, lg, by rw [toSeq_step_nil (isEmpty_seq f [] hp lg)]; simp, hW, Ext.refl S, DoneSub.refl hp, rfl⟩
    | nilIface => exact hV.elim
    | adaptor hc tc =>
      obtain ⟨h1, h2, h3, _⟩ := hV
      have hn2 := Cons.need_hs hW.cons h1
      obtain ⟨f', rfl⟩ : ∃ f', f = f' + 1 := ⟨f - 1, by simp at hfu; omega⟩
      obtain ⟨o, S', hp', lg', e, hP, ho⟩ := (totAll (f' + 1)).forceH S hp hc hW.cons h1 (by simp at hfu; omega) (hW.quiet _) lg
      rw [h2] at ho
      have ho' : o = none := ho
      subst ho'
      have hlt : hc < hp'.hs.size := by rw [← hP.cons.nh]; exact Nat.lt_of_lt_of_le h1 hP.ext.nh
      obtain ⟨n, hst⟩ := forceH_stores f' hc hp hp' lg lg' none e hlt
      have e1 : LL.isEmpty (f' + 2) (.adaptor hc tc) hp lg = (.ok true, hp', lg') := by
        rw [isEmpty_adaptor, bind_ok e]; rfl
      exact ⟨S', hp', lg', by rw [toSeq_step_nil e1]; simp, hW.post hP, hP.ext, hP.done, n, hst⟩
  | cons x xs ih =>
    intro S hp l acc k fuel lg hW hV hfu
    have hk := hV.pos
    obtain ⟨f, rfl⟩ : ∃ f, fuel = f + 2 := ⟨fuel - 2, by simp at hfu; omega⟩
    have hfu' : k + xs.length < f + 1 := by simp at hfu; omega
    cases l with
    | nil => have := hV.1; cases this
    | cons a t =>
      obtain ⟨xs', h, hVt⟩ := hV
      cases h
      obtain ⟨S', hp', lg', e, hW', hE, hD, hF⟩ := ih S hp t (acc ++ [x]) k (f + 1) lg hW hVt hfu'
      refine ⟨S', hp', lg', ?_, hW', hE, hD, rfl, hF⟩
      rw [toSeq_step_cons (isEmpty_cons f x t hp lg) (head_cons f x t hp lg) (tail_cons f x t hp lg), e]
      simp
    | seq ys =>
      have hys : ys = x :: xs := by have := hV.1; cases this; rfl
      subst hys
      obtain ⟨S', hp', lg', e, hW', hE, hD, hF⟩ :=
        ih S hp (.seq xs) (acc ++ [x]) k (f + 1) lg hW ⟨rfl, hV.2⟩ hfu'
      refine ⟨S', hp', lg', ?_, hW', hE, hD, rfl⟩
      rw [toSeq_step_cons (isEmpty_seq f (x :: xs) hp lg) (head_seq f x xs hp lg) (tail_seq f x xs hp lg), e]
      simp
    | nilIface => exact hV.elim
    | adaptor hc tc =>
      obtain ⟨h1, h2, h3, h4⟩ := hV
      obtain ⟨t1, t2, t3, t4⟩ := h4 rfl
      have hn2 := Cons.need_hs hW.cons h1
      obtain ⟨f', rfl⟩ : ∃ f', f = f' + 1 := ⟨f - 1, by simp at hfu; omega⟩
      -- IsEmpty: forces the head cell
      obtain ⟨o, S1, hp1, lg1, e1, hP1, ho⟩ :=
        (totAll (f' + 1)).forceH S hp hc hW.cons h1 (by simp at hfu; omega) (hW.quiet _) lg
      rw [h2] at ho
      have ho' : o = some x := ho
      subst ho'
      have hlt1 : hc < hp1.hs.size := by rw [← hP1.cons.nh]; exact Nat.lt_of_lt_of_le h1 hP1.ext.nh
      obtain ⟨n, hst1⟩ := forceH_stores f' hc hp hp1 lg lg1 _ e1 hlt1
      have eI : LL.isEmpty (f' + 2) (.adaptor hc tc) hp lg = (.ok false, hp1, lg1) := by
        rw [isEmpty_adaptor, bind_ok e1]; rfl
      -- Head: the cell is done now
      have eH : LL.head (f' + 2) (.adaptor hc tc) hp1 lg1 = (.ok x, hp1, lg1) :=
        head_adaptor_some (f' + 1) hc tc hp1 hp1 lg1 lg1 x (forceH_done f' hc hp1 lg1 _ n hst1)
      -- Tail: forces the tail cell
      have hW1 := hW.post hP1
      have t1' : tc < S1.nt := Nat.lt_of_lt_of_le t1 hP1.ext.nt
      have hts : S1.ts tc = S.ts tc := hP1.ext.ts tc t1
      obtain ⟨t, S2, hp2, lg2, e2, hP2, hVt⟩ :=
        (totAll (f' + 1)).forceT S1 hp1 tc (DenV.fin xs) hW1.cons t1' (by rw [hts]; exact t2)
          (by rw [hts]; simp at hfu; omega) (hW1.quiet _) lg1
      rw [hts] at hVt
      have hlt2 : tc < hp2.ts.size := by rw [← hP2.cons.nt]; exact Nat.lt_of_lt_of_le t1' hP2.ext.nt
      obtain ⟨m, hst2⟩ := forceT_stores f' tc hp1 hp2 lg1 lg2 t e2 hlt2
      have eT : LL.tail (f' + 2) (.adaptor hc tc) hp1 lg1 = (.ok t, hp2, lg2) := by
        rw [tail_adaptor]; exact e2
      have hW2 := hW1.post hP2
      obtain ⟨S', hp', lg', e, hW', hE, hD, hF⟩ :=
        ih S2 hp2 t (acc ++ [x]) k (f' + 2) lg2 hW2 (hVt.monoK t4) hfu'
      refine ⟨S', hp', lg', ?_, hW', (hP1.ext.trans hP2.ext).trans hE, (hP1.done.trans hP2.done).trans hD, ?_⟩
      · rw [toSeq_step_cons eI eH eT, e]; simp
      · exact ⟨n, m, t, hD.hs _ _ _ (hP2.done.hs _ _ _ hst1), hD.ts _ _ _ hst2, hF⟩

end FpVerif.LL
