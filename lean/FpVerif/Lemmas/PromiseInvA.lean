import FpVerif.Lemmas.PromiseTrans
/-!
Invariant A of the promise protocol — independent of how `append` treats the backing array, so it
holds for future.go as written and for the repaired algorithm alike:
captured pointer identities are never from the future, a thread whose captured identity is still
current knows the cell's content, there is exactly one winner once the cell is done, and every
logged invocation carries the cell's result.
-/
namespace FpVerif.Promise
open FpVerif FpVerif.Sched

variable {R : Type}

def TInvA (sh : Shared R) : Local R → Prop
  | .cGet _ => True
  | .cCas _ ap c => ap ≤ sh.ver ∧ (ap = sh.ver → sh.cell.isDone = false ∧ captOf sh.cell = c)
  | .cRun r _ _ _ => sh.cell = .done r
  | .cRet r true => sh.cell = .done r
  | .cRet _ false => sh.cell.isDone = true
  | .rGet _ => True
  | .rAppend _ ap s => ap ≤ sh.ver ∧ (ap = sh.ver → sh.cell = .cbs s)
  | .rCas _ ap new => ap ≤ sh.ver ∧ (ap = sh.ver → sh.cell.isDone = false ∧ new.len ≤ sh.cell.len + 1)
  | .rCall _ r => sh.cell = .done r
  | .rRet _ => True
  | .oLoad1 => True
  | .oLoad2 => sh.cell.isDone = true
  | .oRet (some r) => sh.cell = .done r
  | .oRet none => True
  | .panicked (.complete r) => sh.cell = .done r
  | .panicked _ => False

/-- the thread whose `Complete` won the race (returns / will return true) -/
def Local.isWinner : Local R → Bool
  | .cRun .. => true
  | .cRet _ true => true
  | .panicked (.complete _) => true
  | _ => false

def winners (ts : List (Local R)) : Nat := sumBy (fun l => if l.isWinner then 1 else 0) ts

structure InvA (s : PSys R) : Prop where
  threads : ∀ l ∈ s.threads, TInvA s.shared l
  winner : winners s.threads = if s.shared.cell.isDone then 1 else 0
  log : ∀ p ∈ s.shared.log, s.shared.cell = .done p.2

theorem forall_set {L : Type} {P Q : L → Prop} {ts : List L} {t : Nat} {l' : L}
    (hall : ∀ x ∈ ts, P x) (hstab : ∀ x, P x → Q x) (hnew : Q l') :
    ∀ x ∈ ts.set t l', Q x := by
  intro x hx
  rcases List.mem_or_eq_of_mem_set hx with h | h
  · exact hstab x (hall x h)
  · exact h ▸ hnew

theorem TInvA_pushLog (sh : Shared R) (cb : Cb) (r : R) (x : Local R) :
    TInvA sh x → TInvA (pushLog sh cb r) x := by
  intro h
  cases x with
  | cRet r b => cases b <;> exact h
  | oRet v => cases v <;> exact h
  | panicked p => cases p <;> exact h
  | _ => exact h

theorem TInvA_setHeap (sh : Shared R) (hp : Heap) (x : Local R) :
    TInvA sh x → TInvA (setHeap sh hp) x := by
  intro h
  cases x with
  | cRet r b => cases b <;> exact h
  | oRet v => cases v <;> exact h
  | panicked p => cases p <;> exact h
  | _ => exact h

theorem TInvA_bump (sh : Shared R) (c : Cell R) (hnd : sh.cell.isDone = false) (x : Local R) :
    TInvA sh x → TInvA (bump sh c) x := by
  intro h
  cases x with
  | cGet r => trivial
  | cCas r ap cp => simp only [TInvA, bump] at h ⊢; exact ⟨by omega, by omega⟩
  | cRun r s i cb => simp [TInvA] at h; simp [h, Cell.isDone] at hnd
  | cRet r b => cases b <;> simp [TInvA] at h <;> simp_all [Cell.isDone]
  | rGet cb => trivial
  | rAppend cb ap s => simp only [TInvA, bump] at h ⊢; exact ⟨by omega, by omega⟩
  | rCas cb ap new => simp only [TInvA, bump] at h ⊢; exact ⟨by omega, by omega⟩
  | rCall cb r => simp [TInvA] at h; simp [h, Cell.isDone] at hnd
  | rRet cb => trivial
  | oLoad1 => trivial
  | oLoad2 => simp [TInvA] at h; simp [h] at hnd
  | oRet v => cases v <;> simp [TInvA] at h ⊢; simp [h, Cell.isDone] at hnd
  | panicked p => cases p <;> simp [TInvA] at h ⊢; simp [h, Cell.isDone] at hnd

theorem resolve_length_le (h : Heap) (s : Slice) : (resolve h s).length ≤ s.len := by
  simp [resolve]; omega

theorem goAppend_len_le (v : Variant) (h : Heap) (s : Slice) (cb : Cb) :
    (goAppend v h s cb).2.len ≤ s.len + 1 := by
  have := resolve_length_le h s
  cases v <;> simp only [goAppend, allocCopy]
  · split <;> simp <;> omega
  · simp; omega

theorem log_empty_of_not_done {s : PSys R} (h : InvA s) (hnd : s.shared.cell.isDone = false) :
    s.shared.log = [] := by
  cases hl : s.shared.log with
  | nil => rfl
  | cons p ps =>
    have := h.log p (by simp [hl])
    simp [this, Cell.isDone] at hnd

theorem winners_set {ts : List (Local R)} {t : Nat} {l l' : Local R} (hl : ts[t]? = some l) :
    winners (ts.set t l') + (if l.isWinner then 1 else 0) =
      winners ts + (if l'.isWinner then 1 else 0) :=
  sumBy_set _ hl

theorem enterRun_isWinner (h : Heap) (r : R) (s : Slice) (i : Nat) :
    (enterRun h r s i).isWinner = true := by
  unfold enterRun
  split
  · split <;> rfl
  · rfl

theorem afterWin_isWinner (h : Heap) (r : R) (c : Capt) : (afterWin h r c).isWinner = true := by
  cases c with
  | nil => rfl
  | cbs s => exact enterRun_isWinner h r s 0

theorem TInvA_enterRun (sh : Shared R) (hp : Heap) (r : R) (s : Slice) (i : Nat)
    (h : sh.cell = .done r) : TInvA sh (enterRun hp r s i) := by
  unfold enterRun
  split
  · split <;> simpa [TInvA] using h
  · simpa [TInvA] using h

theorem TInvA_afterWin (sh : Shared R) (hp : Heap) (r : R) (c : Capt) (h : sh.cell = .done r) :
    TInvA sh (afterWin hp r c) := by
  cases c with
  | nil => simpa [afterWin, TInvA] using h
  | cbs s => exact TInvA_enterRun sh hp r s 0 h

theorem winners_set_same {ts : List (Local R)} {t : Nat} {l l' : Local R} (hl : ts[t]? = some l)
    (h : l.isWinner = l'.isWinner) : winners (ts.set t l') = winners ts := by
  have := winners_set (l' := l') hl
  rw [h] at this
  omega

theorem winners_set_win {ts : List (Local R)} {t : Nat} {l l' : Local R} (hl : ts[t]? = some l)
    (h : l.isWinner = false) (h' : l'.isWinner = true) : winners (ts.set t l') = winners ts + 1 := by
  have := winners_set (l' := l') hl
  rw [h, h'] at this
  simpa using this

/-- Invariant A is preserved by every atomic block, for both variants. -/
theorem InvA_step (v : Variant) (s : PSys R) (t : Tid) (s' : PSys R)
    (hinv : InvA s) (hstep : step (stepT v) s t = some s') : InvA s' := by
  obtain ⟨l, sh', l', hl, htr, rfl⟩ := step_trans hstep
  have hTl := hinv.threads l (List.mem_of_getElem? hl)
  have hth := hinv.threads
  have hwin := hinv.winner
  have hlog := hinv.log
  cases htr with
  | cGetPend hnd =>
    refine ⟨forall_set hth (fun _ h => h) ?_, (winners_set_same hl (by rfl)).trans hwin, hlog⟩
    exact ⟨Nat.le_refl _, fun _ => ⟨hnd, rfl⟩⟩
  | cGetDone hc =>
    refine ⟨forall_set hth (fun _ h => h) ?_, (winners_set_same hl (by rfl)).trans hwin, hlog⟩
    simp [TInvA, hc, Cell.isDone]
  | @cCasOk r ap c hap =>
    obtain ⟨_, hfresh⟩ := hTl
    obtain ⟨hnd, _⟩ := hfresh hap
    refine ⟨forall_set hth (TInvA_bump _ _ hnd) ?_, ?_, ?_⟩
    · exact TInvA_afterWin _ _ r c rfl
    · rw [winners_set_win hl (by rfl) (afterWin_isWinner _ r c), hwin, hnd]
      simp [bump, Cell.isDone]
    · have := log_empty_of_not_done hinv hnd
      intro p hp
      simp [bump, this] at hp
  | cCasFail hap =>
    exact ⟨forall_set hth (fun _ h => h) trivial, (winners_set_same hl (by rfl)).trans hwin, hlog⟩
  | @cRun r sl i cb =>
    have hc : s.shared.cell = .done r := hTl
    refine ⟨forall_set hth (TInvA_pushLog _ cb r) ?_,
      (winners_set_same hl (enterRun_isWinner _ r sl (i + 1)).symm).trans hwin, ?_⟩
    · exact TInvA_enterRun _ _ r sl (i + 1) hc
    · intro p hp
      simp only [pushLog, List.mem_append, List.mem_singleton] at hp
      rcases hp with hp | hp
      · exact hlog p hp
      · subst hp; exact hc
  | @rGetNil cb hc =>
    refine ⟨forall_set hth (TInvA_setHeap _ _) ?_, (winners_set_same hl (by rfl)).trans hwin, hlog⟩
    simp [TInvA, setHeap, hc, Cell.isDone, allocCopy, Cell.len]
  | rGetCbs hc =>
    refine ⟨forall_set hth (fun _ h => h) ?_, (winners_set_same hl (by rfl)).trans hwin, hlog⟩
    simp [TInvA, hc]
  | rGetDone hc =>
    refine ⟨forall_set hth (fun _ h => h) ?_, (winners_set_same hl (by rfl)).trans hwin, hlog⟩
    simpa [TInvA] using hc
  | @rAppend cb ap sl =>
    obtain ⟨hle, hfresh⟩ := hTl
    refine ⟨forall_set hth (TInvA_setHeap _ _) ?_, (winners_set_same hl (by rfl)).trans hwin, hlog⟩
    refine ⟨hle, fun hap => ?_⟩
    have hc := hfresh hap
    have := goAppend_len_le v s.shared.heap sl cb
    simp only [setHeap, hc, Cell.isDone, Cell.len]
    exact ⟨trivial, this⟩
  | @rCasOk cb ap new hap =>
    obtain ⟨_, hfresh⟩ := hTl
    obtain ⟨hnd, _⟩ := hfresh hap
    refine ⟨forall_set hth (TInvA_bump _ _ hnd) trivial, ?_, ?_⟩
    · rw [winners_set_same hl (by rfl), hwin, hnd]
      simp [bump, Cell.isDone]
    · have := log_empty_of_not_done hinv hnd
      intro p hp
      simp [bump, this] at hp
  | rCasFail hap =>
    exact ⟨forall_set hth (fun _ h => h) trivial, (winners_set_same hl (by rfl)).trans hwin, hlog⟩
  | @rCall cb r =>
    have hc : s.shared.cell = .done r := hTl
    refine ⟨forall_set hth (TInvA_pushLog _ cb r) trivial, (winners_set_same hl (by rfl)).trans hwin, ?_⟩
    intro p hp
    simp only [pushLog, List.mem_append, List.mem_singleton] at hp
    rcases hp with hp | hp
    · exact hlog p hp
    · subst hp; exact hc
  | oLoad1Done hd =>
    refine ⟨forall_set hth (fun _ h => h) ?_, (winners_set_same hl (by rfl)).trans hwin, hlog⟩
    simpa [TInvA] using hd
  | oLoad1Pend hd =>
    exact ⟨forall_set hth (fun _ h => h) trivial, (winners_set_same hl (by rfl)).trans hwin, hlog⟩
  | oLoad2Done hc =>
    refine ⟨forall_set hth (fun _ h => h) ?_, (winners_set_same hl (by rfl)).trans hwin, hlog⟩
    simpa [TInvA] using hc
  | oLoad2Pend hd =>
    have : s.shared.cell.isDone = true := hTl
    simp [this] at hd

theorem winners_cons (a : Local R) (as : List (Local R)) :
    winners (a :: as) = (if a.isWinner then 1 else 0) + winners as := rfl

theorem winners_start (progs : List (Prog R)) :
    winners (progs.map (Prog.start false)) = 0 := by
  induction progs with
  | nil => rfl
  | cons p ps ih =>
    rw [List.map_cons, winners_cons, ih]
    cases p <;> simp [Prog.start, Local.isWinner]

/-- a fresh (`NewPromise`) promise with all threads at their first yield point -/
theorem InvA_init (progs : List (Prog R)) : InvA (init false progs) := by
  refine ⟨?_, ?_, ?_⟩
  · intro l hl
    simp only [init, List.mem_map] at hl
    obtain ⟨p, _, rfl⟩ := hl
    cases p <;> simp [Prog.start, TInvA]
  · simp [init, winners_start, emptyShared, Cell.isDone]
  · simp [init, emptyShared]

theorem InvA_run (v : Variant) {s : PSys R} (h : InvA s) (sched : List Tid) :
    InvA (prun v s sched) :=
  inv_run (InvA_step v) h sched

end FpVerif.Promise
