import FpVerif.Lemmas.TCMap
/-! Helper lemmas for C09/C10: element-wise relation on lists, the `eq.Seq` loop, map equality. -/
namespace FpVerif.TC

variable {α β κ ν : Type}

/-- same length and related element by element -/
inductive Pointwise (R : α → β → Prop) : List α → List β → Prop where
  | nil : Pointwise R [] []
  | cons {a b as bs} : R a b → Pointwise R as bs → Pointwise R (a :: as) (b :: bs)

theorem Pointwise.length_eq {R : α → β → Prop} {a : List α} {b : List β} (h : Pointwise R a b) :
    a.length = b.length := by
  induction h with
  | nil => rfl
  | cons _ _ ih => simp [ih]

theorem Pointwise.refl {R : α → α → Prop} (hr : ∀ a, R a a) : ∀ l, Pointwise R l l
  | [] => .nil
  | a :: as => .cons (hr a) (Pointwise.refl hr as)

theorem Pointwise.symm {R : α → α → Prop} (hs : ∀ a b, R a b → R b a) {a b : List α}
    (h : Pointwise R a b) : Pointwise R b a := by
  induction h with
  | nil => exact .nil
  | cons h1 _ ih => exact .cons (hs _ _ h1) ih

theorem Pointwise.trans {R : α → α → Prop} (ht : ∀ a b c, R a b → R b c → R a c) {a b c : List α}
    (h1 : Pointwise R a b) (h2 : Pointwise R b c) : Pointwise R a c := by
  induction h1 generalizing c with
  | nil => cases h2; exact .nil
  | cons hab _ ih =>
    cases h2 with
    | cons hbc h2' => exact .cons (ht _ _ _ hab hbc) (ih h2')

/-- `Pointwise` says: equal length and related at every index. -/
theorem pointwise_iff_getElem {R : α → β → Prop} {a : List α} {b : List β} :
    Pointwise R a b ↔ ∃ h : a.length = b.length, ∀ (i : Nat) (hi : i < a.length), R (a[i]) (b[i]'(h ▸ hi)) := by
  constructor
  · intro h
    induction h with
    | nil => exact ⟨rfl, fun i hi => absurd hi (by simp)⟩
    | cons h1 _ ih =>
      obtain ⟨hl, hall⟩ := ih
      refine ⟨by simp [hl], fun i hi => ?_⟩
      cases i with
      | zero => exact h1
      | succ j => exact hall j (by simpa using hi)
  · intro ⟨hl, hall⟩
    induction a generalizing b with
    | nil =>
      cases b with
      | nil => exact .nil
      | cons _ _ => simp at hl
    | cons x xs ih =>
      cases b with
      | nil => simp at hl
      | cons y ys =>
        refine .cons (hall 0 (by simp)) (ih (by simpa using hl) (fun i hi => ?_))
        exact hall (i + 1) (by simpa using hi)

theorem seqLoop_iff (e : EqD α) {a b : List α} (hl : a.length = b.length) :
    EqD.seqLoop e a b = true ↔ Pointwise (fun x y => e.eqv x y = true) a b := by
  induction a generalizing b with
  | nil =>
    cases b with
    | nil => simp [EqD.seqLoop, Pointwise.nil]
    | cons _ _ => simp at hl
  | cons x xs ih =>
    cases b with
    | nil => simp at hl
    | cons y ys =>
      have hl' : xs.length = ys.length := by simpa using hl
      simp only [EqD.seqLoop]
      cases hxy : e.eqv x y
      · simp only [Bool.not_false, ↓reduceIte, Bool.false_eq_true, false_iff]
        intro h; cases h with
        | cons h1 _ => simp [hxy] at h1
      · simp only [Bool.not_true, Bool.false_eq_true, ↓reduceIte, ih hl']
        exact ⟨fun h => .cons hxy h, fun h => by cases h with | cons _ h2 => exact h2⟩

/-- `eq.Seq` holds exactly when the sizes agree and the elements are pairwise equivalent. -/
theorem seq_eqv_iff (e : EqD α) (a b : List α) :
    (EqD.seq e).eqv a b = true ↔ Pointwise (fun x y => e.eqv x y = true) a b := by
  simp only [EqD.seq, EqD.new]
  by_cases hl : a.length = b.length
  · simp [hl, seqLoop_iff e hl]
  · simp only [bne_iff_ne, ne_eq, hl, not_false_eq_true, ↓reduceIte, Bool.false_eq_true, false_iff]
    exact fun h => hl h.length_eq

-- ---------------------------------------------------------------------------- pigeonhole

theorem subset_of_nodup_length_le [DecidableEq α] : ∀ {l1 l2 : List α}, l1.Nodup → l1 ⊆ l2 →
    l1.length ≤ l2.length ∧ (l2.Nodup → l2.length ≤ l1.length → l2 ⊆ l1)
  | [], l2, _, _ => by
    refine ⟨Nat.zero_le _, fun _ hlen => ?_⟩
    have : l2 = [] := List.eq_nil_of_length_eq_zero (Nat.le_zero.mp hlen)
    simp [this]
  | x :: t, l2, hnd, hsub => by
    have hx : x ∈ l2 := hsub (List.mem_cons_self)
    have hnd' := List.nodup_cons.mp hnd
    have hsub' : t ⊆ l2.erase x := by
      intro y hy
      have hne : y ≠ x := fun h => hnd'.1 (h ▸ hy)
      exact (List.mem_erase_of_ne hne).mpr (hsub (List.mem_cons_of_mem _ hy))
    have hlen : (l2.erase x).length = l2.length - 1 := List.length_erase_of_mem hx
    have hpos : 0 < l2.length := List.length_pos_of_mem hx
    obtain ⟨ih1, ih2⟩ := subset_of_nodup_length_le hnd'.2 hsub'
    refine ⟨by simp only [List.length_cons]; omega, fun hnd2 hle => ?_⟩
    have := ih2 (hnd2.erase x) (by simp only [List.length_cons] at hle; omega)
    intro z hz
    by_cases hzx : z = x
    · subst hzx; exact List.mem_cons_self
    · exact List.mem_cons_of_mem _ (this ((List.mem_erase_of_ne hzx).mpr hz))

-- ---------------------------------------------------------------------------- map equality

/-- two optional values are both absent, or both present and related -/
def OptRel (R : ν → ν → Prop) : Option ν → Option ν → Prop
  | none, none => True
  | some x, some y => R x y
  | _, _ => False

variable [DecidableEq κ]

theorem lookup_of_mem {k : κ} {v : ν} {l : List (κ × ν)} (hnd : (l.map Prod.fst).Nodup) (h : (k, v) ∈ l) :
    lookup k l = some v := by
  induction l with
  | nil => cases h
  | cons p rest ih =>
    obtain ⟨k', v'⟩ := p
    simp only [List.map_cons, List.nodup_cons] at hnd
    simp only [List.mem_cons, Prod.mk.injEq] at h
    rcases h with ⟨rfl, rfl⟩ | h
    · simp [lookup]
    · have : k ≠ k' := fun heq => hnd.1 (heq ▸ List.mem_map_of_mem (f := Prod.fst) h)
      simp [lookup, this, ih hnd.2 h]

theorem mem_of_lookup {k : κ} {v : ν} {l : List (κ × ν)} (h : lookup k l = some v) : (k, v) ∈ l := by
  induction l with
  | nil => cases h
  | cons p rest ih =>
    obtain ⟨k', v'⟩ := p
    simp only [lookup] at h
    split at h
    · rename_i heq; cases h; subst heq; exact List.mem_cons_self
    · exact List.mem_cons_of_mem _ (ih h)

theorem goMap_eqv_iff (e : EqD ν) (a b : GoMap κ ν) :
    (EqD.goMap e).eqv a b = true ↔ ∀ k, OptRel (fun x y => e.eqv x y = true) (a.get k) (b.get k) := by
  simp only [EqD.goMap, EqD.new]
  constructor
  · intro h
    split at h
    · cases h
    · rename_i hsz
      have hsz : a.entries.length = b.entries.length := by simpa [GoMap.size] using hsz
      rw [List.all_eq_true] at h
      -- every key of a is a key of b
      have hsub : a.entries.map Prod.fst ⊆ b.entries.map Prod.fst := by
        intro k hk
        obtain ⟨⟨k', v⟩, hmem, rfl⟩ := List.mem_map.mp hk
        have := h (k', v) hmem
        simp only at this
        cases hb : b.get k' with
        | none => simp [hb] at this
        | some bv => exact lookup_isSome_iff_mem.mp (by simp [GoMap.get] at hb; simp [hb])
      have hback := (subset_of_nodup_length_le a.nodup hsub).2 b.nodup (by simp [hsz])
      intro k
      cases ha : a.get k with
      | some av =>
        have := h (k, av) (mem_of_lookup ha)
        simp only at this
        cases hb : b.get k with
        | none => simp [hb] at this
        | some bv => simpa [OptRel, hb] using this
      | none =>
        cases hb : b.get k with
        | none => trivial
        | some bv =>
          exfalso
          have hk : k ∈ b.entries.map Prod.fst := lookup_isSome_iff_mem.mp (by simp [GoMap.get] at hb; simp [hb])
          have := lookup_isSome_iff_mem.mpr (hback hk)
          simp [GoMap.get] at ha
          simp [ha] at this
  · intro h
    have keys_sub : ∀ (x y : GoMap κ ν), (∀ k, OptRel (fun x y => e.eqv x y = true) (x.get k) (y.get k)) →
        x.entries.map Prod.fst ⊆ y.entries.map Prod.fst := by
      intro x y hxy k hk
      have h1 := lookup_isSome_iff_mem.mpr hk
      have := hxy k
      simp only [GoMap.get] at this
      cases hx : lookup k x.entries with
      | none => simp [hx] at h1
      | some xv =>
        cases hy : lookup k y.entries with
        | none => simp [hx, hy, OptRel] at this
        | some yv => exact lookup_isSome_iff_mem.mp (by simp [hy])
    have h1 := (subset_of_nodup_length_le a.nodup (keys_sub a b h)).1
    have h2 := (subset_of_nodup_length_le (l2 := a.entries.map Prod.fst) b.nodup (by
      intro k hk
      have h1 := lookup_isSome_iff_mem.mpr hk
      have := h k
      simp only [GoMap.get] at this
      cases hy : lookup k b.entries with
      | none => simp [hy] at h1
      | some yv =>
        cases hx : lookup k a.entries with
        | none => simp [hx, hy, OptRel] at this
        | some xv => exact lookup_isSome_iff_mem.mp (by simp [hx]))).1
    have hsz : a.size = b.size := by
      simp only [List.length_map] at h1 h2
      simp only [GoMap.size]; omega
    simp only [hsz, bne_self_eq_false, Bool.false_eq_true, ↓reduceIte, List.all_eq_true]
    intro ⟨k, av⟩ hmem
    have ha : a.get k = some av := lookup_of_mem a.nodup hmem
    have := h k
    rw [ha] at this
    cases hb : b.get k with
    | none => simp [hb, OptRel] at this
    | some bv => simpa [hb, OptRel] using this

end FpVerif.TC
