import FpVerif.Lemmas.CowStep
/-!
The global invariant of the repaired CopyOnWriteMap and its preservation: the forward simulation
to the atomic map, with the linearization points recorded in the ghost history.
-/
namespace FpVerif.Cow
open FpVerif.Sched

def storers (ts : List Local) : Nat := sumBy (fun l => if l.isStore then 1 else 0) ts

structure Inv (progs : List (List Op)) (s : CSys) : Prop where
  tids : ∀ (i : Nat) (l : Local), s.threads[i]? = some l → l.tid = i
  tinv : ∀ l ∈ s.threads, TInv s.shared l
  lock : storers s.threads = if s.shared.lock then 1 else 0
  lins : seqRun [] ((linsOf s.shared.hist).map (·.1)) =
    (s.shared.map, (linsOf s.shared.hist).map (·.2))
  views : ∀ l ∈ s.threads, proj l.tid s.shared.hist = expected l
  noPanic : ∀ l ∈ s.threads, Ret.panic ∉ l.rets
  ops : s.threads.map Local.ops = progs
  evtid : ∀ e ∈ s.shared.hist, e.tid < s.threads.length
  fin : ∀ l ∈ s.threads, l.phase = .finished → l.todo = []

theorem forall_set_idx {L : Type} {P : L → Prop} {ts : List L} {t : Nat} {l' : L}
    (hnew : P l') (hold : ∀ i x, i ≠ t → ts[i]? = some x → P x) : ∀ x ∈ ts.set t l', P x := by
  intro x hx
  obtain ⟨i, hi⟩ := List.mem_iff_getElem?.mp hx
  rw [List.getElem?_set] at hi
  by_cases hit : t = i
  · subst hit
    simp only [if_true] at hi
    split at hi
    · injection hi with hi; exact hi ▸ hnew
    · simp at hi
  · simp only [hit, if_false] at hi
    exact hold i x (Ne.symm hit) hi

theorem sumBy_ind_pos {L : Type} {p : L → Bool} {ts : List L} {i : Nat} {a : L}
    (hi : ts[i]? = some a) (ha : p a = true) : 1 ≤ sumBy (fun l => if p l then 1 else 0) ts := by
  induction ts generalizing i with
  | nil => simp at hi
  | cons x xs ih =>
    cases i with
    | zero => simp at hi; subst hi; simp [sumBy, ha]
    | succ n => simp at hi; have := ih hi; simp only [sumBy]; omega

theorem sumBy_ind_two {L : Type} {p : L → Bool} {ts : List L} {i j : Nat} {a b : L}
    (hi : ts[i]? = some a) (hj : ts[j]? = some b) (ha : p a = true) (hb : p b = true)
    (hne : i ≠ j) : 2 ≤ sumBy (fun l => if p l then 1 else 0) ts := by
  induction ts generalizing i j with
  | nil => simp at hi
  | cons x xs ih =>
    cases i with
    | zero =>
      cases j with
      | zero => exact absurd rfl hne
      | succ j' =>
        simp at hi hj; subst hi
        have := sumBy_ind_pos (p := p) hj hb
        simp only [sumBy, ha, if_true]; omega
    | succ i' =>
      cases j with
      | zero =>
        simp at hi hj; subst hj
        have := sumBy_ind_pos (p := p) hi ha
        simp only [sumBy, hb, if_true]; omega
      | succ j' =>
        simp at hi hj
        have := ih hi hj (by omega)
        simp only [sumBy]; omega

theorem TInv_of_map {sh sh' : Shared} {x : Local} (hm : sh'.map = sh.map) (h : TInv sh x) :
    TInv sh' x := by
  unfold TInv at *
  split <;> simp_all

theorem TInv_of_not_store {sh sh' : Shared} {x : Local} (hs : x.isStore = false) (h : TInv sh x) :
    TInv sh' x := by
  unfold TInv at *
  unfold Local.isStore at hs
  split <;> simp_all

/-- The invariant is preserved by every atomic block of the repaired algorithm. -/
theorem Inv_step {progs : List (List Op)} (s : CSys) (t : Tid) (s' : CSys) (hinv : Inv progs s)
    (hstep : step (stepT .recheck) s t = some s') : Inv progs s' := by
  obtain ⟨l, sh', l', hl, hs, rfl⟩ := step_eq_some hstep
  have hlm := List.mem_of_getElem? hl
  have sum := stepT_sum (hinv.tinv l hlm) hs
  have htid : l.tid = t := hinv.tids t l hl
  obtain ⟨evs, hhist, hevs, hexp, hlin⟩ := sum.hist
  have hst := sumBy_set (fun l => if l.isStore then 1 else 0) (l' := l') hl
  refine ⟨?_, ?_, ?_, ?_, ?_, ?_, ?_, ?_, ?_⟩
  · -- tids
    intro i x hx
    simp only at hx
    rw [List.getElem?_set] at hx
    by_cases hit : t = i
    · subst hit
      simp only [if_true] at hx
      split at hx
      · injection hx with hx; rw [← hx, sum.tid, htid]
      · simp at hx
    · simp only [hit, if_false] at hx
      exact hinv.tids i x hx
  · -- per-thread invariant
    refine forall_set_idx sum.tinv ?_
    intro i x hit hx
    have hTx := hinv.tinv x (List.mem_of_getElem? hx)
    rcases sum.lock with ⟨_, _, _, hm⟩ | ⟨_, _, _, _, hm⟩ | ⟨hls, _, _⟩
    · exact TInv_of_map hm hTx
    · exact TInv_of_map hm hTx
    · -- the mover was the (only) thread holding the lock
      cases hxs : x.isStore with
      | false => exact TInv_of_not_store hxs hTx
      | true =>
        have h2 := sumBy_ind_two (p := Local.isStore) hl hx hls hxs (Ne.symm hit)
        have := hinv.lock
        unfold storers at this
        split at this <;> omega
  · -- lock discipline
    show storers (s.threads.set t l') = _
    have := hinv.lock
    unfold storers at this ⊢
    rcases sum.lock with ⟨a, b, c, _⟩ | ⟨a, b, c, d, _⟩ | ⟨a, b, c⟩
    · simp only [a, b] at hst; rw [c]; simp at hst; omega
    · simp only [a, b] at hst; rw [c] at this; rw [d]; simp at hst this ⊢; omega
    · simp only [a, b] at hst; rw [c]; simp at hst ⊢
      split at this <;> omega
  · -- linearization order is a legal run of the atomic map
    show seqRun [] ((linsOf sh'.hist).map (·.1)) = (sh'.map, (linsOf sh'.hist).map (·.2))
    rw [hhist, linsOf_append]
    rcases hlin with ⟨h0, hm⟩ | ⟨op, r, h1, hap⟩
    · rw [h0, hm]; simpa using hinv.lins
    · rw [h1]
      simp only [List.map_append, List.map_cons, List.map_nil]
      rw [seqRun_snoc, hinv.lins]
      simp [hap]
  · -- every thread's view of the history
    refine forall_set_idx ?_ ?_
    · rw [sum.tid, hhist, proj_append, hinv.views l hlm, proj_all hevs, hexp]
    · intro i x hit hx
      have hxt : x.tid = i := hinv.tids i x hx
      rw [hhist, proj_append, proj_none hevs (by rw [htid, hxt]; exact Ne.symm hit), List.append_nil]
      exact hinv.views x (List.mem_of_getElem? hx)
  · -- nobody panics
    refine forall_set_idx (sum.noPanic (hinv.noPanic l hlm)) ?_
    intro i x _ hx
    exact hinv.noPanic x (List.mem_of_getElem? hx)
  · -- programs
    show (s.threads.set t l').map Local.ops = progs
    rw [← hinv.ops]
    exact map_set_of_eq hl sum.ops
  · -- events belong to existing threads
    intro e he
    simp only [List.length_set]
    rw [hhist] at he
    rcases List.mem_append.mp he with he | he
    · exact hinv.evtid e he
    · rw [hevs e he, htid]
      rcases Nat.lt_or_ge t s.threads.length with h | h
      · exact h
      · simp [List.getElem?_eq_none h] at hl
  · refine forall_set_idx sum.fin ?_
    intro i x _ hx
    exact hinv.fin x (List.mem_of_getElem? hx)


theorem curEvents_tid (l : Local) : ∀ e ∈ curEvents l, e.tid = l.tid := by
  intro e he
  unfold curEvents at he
  cases hp : l.phase with
  | finished => simp [hp] at he
  | running op pc =>
    simp only [hp, List.mem_cons] at he
    rcases he with rfl | he
    · rfl
    · cases pc <;> simp at he
      subst he; rfl

theorem initFrom_spec (progs : List (List Op)) : ∀ (sh : Shared) (t : Nat),
    (initFrom sh t progs).1.snap = sh.snap ∧ (initFrom sh t progs).1.lock = sh.lock ∧
    (initFrom sh t progs).2.map Local.ops = progs ∧
    ∃ evs, (initFrom sh t progs).1.hist = sh.hist ++ evs ∧ linsOf evs = [] ∧
      (∀ e ∈ evs, t ≤ e.tid ∧ e.tid < t + progs.length) ∧
      ∀ (j : Nat) (l : Local), (initFrom sh t progs).2[j]? = some l →
        l.tid = t + j ∧ l.done = [] ∧ l.isStore = false ∧ (∀ shx, TInv shx l) ∧
        proj l.tid evs = curEvents l ∧ (l.phase = .finished → l.todo = []) := by
  induction progs with
  | nil => intro sh t; simp [initFrom, linsOf]
  | cons p ps ih =>
    intro sh t
    simp only [initFrom]
    obtain ⟨h1, h2, h3, h4, h5, h6, h7, h8, h9, h10⟩ := startNext_spec sh ⟨t, [], .finished, p⟩
    obtain ⟨i1, i2, i3, evs2, i4, i5, i6, i7⟩ := ih (startNext sh ⟨t, [], .finished, p⟩).1 (t + 1)
    generalize hl0 : (startNext sh ⟨t, [], .finished, p⟩).2 = l0 at *
    generalize hs0 : (startNext sh ⟨t, [], .finished, p⟩).1 = sh0 at *
    simp only at h4 h5
    have hops0 : l0.ops = p := by
      rw [← hl0, ops_startNext _ _ rfl]; simp [Local.ops]
    have hst0 : l0.isStore = false := by
      unfold Local.isStore
      cases hph : l0.phase with
      | finished => rfl
      | running o pc => cases pc <;> simp; rename_i nm out; exact h7 nm out o hph
    have hT0 : ∀ shx, TInv shx l0 := by
      intro shx
      unfold TInv
      cases hph : l0.phase with
      | finished => trivial
      | running o pc =>
        cases pc with
        | store nm out => exact absurd hph (h7 nm out o)
        | load2 => exact absurd hph (h8 o)
        | load2Lock => exact absurd hph (h9 o)
        | _ => trivial
    have hlin0 : linsOf (curEvents l0) = [] := by
      unfold curEvents
      cases hph : l0.phase with
      | finished => rfl
      | running o pc =>
        cases pc <;> simp [linsOf]
        rename_i m
        rw [← hl0, startNext_eq] at hph
        cases p with
        | nil => simp at hph
        | cons o' rest => simp at hph; cases o' <;> simp [entryPc] at hph
    refine ⟨by rw [i1, h1], by rw [i2, h2], by simp [i3, hops0], curEvents l0 ++ evs2, ?_, ?_, ?_, ?_⟩
    · rw [i4, h6]; simp
    · rw [linsOf_append, hlin0, i5]; rfl
    · intro e he
      rcases List.mem_append.mp he with he | he
      · have := curEvents_tid l0 e he; simp only [List.length_cons]; omega
      · have := i6 e he; simp only [List.length_cons]; omega
    · intro j l hj
      cases j with
      | zero =>
        simp at hj; subst hj
        refine ⟨by simpa using h4, h5, hst0, hT0, ?_, h10⟩
        rw [proj_append, proj_all (curEvents_tid l0)]
        have : proj l0.tid evs2 = [] := by
          simp only [proj, List.filter_eq_nil_iff]
          intro e he
          have := (i6 e he).1
          simp; omega
        rw [this]; simp
      | succ j' =>
        simp at hj
        obtain ⟨a, b, c, d, e, f⟩ := i7 j' l hj
        refine ⟨by omega, b, c, d, ?_, f⟩
        rw [proj_append, e]
        have : proj l.tid (curEvents l0) = [] := proj_none (curEvents_tid l0) (by omega)
        rw [this]; rfl

theorem Inv_init (progs : List (List Op)) : Inv progs (init progs) := by
  obtain ⟨h1, h2, h3, evs, h4, h5, h6, h7⟩ := initFrom_spec progs emptyShared 0
  have hmem : ∀ l ∈ (init progs).threads, ∃ j : Nat, (initFrom emptyShared 0 progs).2[j]? = some l := by
    intro l hl; exact List.mem_iff_getElem?.mp hl
  refine ⟨?_, ?_, ?_, ?_, ?_, ?_, h3, ?_, ?_⟩
  · intro i l hl; have := (h7 i l hl).1; omega
  · intro l hl
    obtain ⟨j, hj⟩ := hmem l hl
    exact (h7 j l hj).2.2.2.1 _
  · show storers (initFrom emptyShared 0 progs).2 = _
    rw [show (init progs).shared.lock = false from h2]
    apply sumBy_eq_zero
    intro l hl
    obtain ⟨j, hj⟩ := List.mem_iff_getElem?.mp hl
    simp [(h7 j l hj).2.2.1]
  · show seqRun [] ((linsOf (initFrom emptyShared 0 progs).1.hist).map (·.1)) = _
    have hl0 : linsOf (initFrom emptyShared 0 progs).1.hist = [] := by
      rw [h4, linsOf_append, h5]; rfl
    have hm0 : (init progs).shared.map = [] := by
      show (initFrom emptyShared 0 progs).1.snap.getD [] = []
      rw [h1]; rfl
    have hl1 : linsOf (init progs).shared.hist = [] := hl0
    rw [hl0, hm0, hl1]; rfl
  · intro l hl
    obtain ⟨j, hj⟩ := hmem l hl
    obtain ⟨_, b, _, _, e, _⟩ := h7 j l hj
    show proj l.tid (initFrom emptyShared 0 progs).1.hist = expected l
    rw [h4]
    simp [emptyShared, expected, b, doneEvents, e]
  · intro l hl
    obtain ⟨j, hj⟩ := hmem l hl
    simp [Local.rets, (h7 j l hj).2.1]
  · intro e he
    have hlen : (init progs).threads.length = progs.length := by
      have := congrArg List.length h3
      simp only [List.length_map] at this
      exact this
    have he' : e ∈ (initFrom emptyShared 0 progs).1.hist := he
    rw [h4] at he'
    simp only [emptyShared, List.nil_append] at he'
    have := (h6 e he').2
    omega
  · intro l hl
    obtain ⟨j, hj⟩ := hmem l hl
    exact (h7 j l hj).2.2.2.2.2

theorem Inv_run {progs : List (List Op)} {s : CSys} (h : Inv progs s) (sched : List Tid) :
    Inv progs (crun .recheck s sched) :=
  inv_run (stepT := stepT .recheck) Inv_step h sched

end FpVerif.Cow
