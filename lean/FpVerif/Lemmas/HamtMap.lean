import FpVerif.Lemmas.HamtDelete
/-! The map level: `Hamt.get`, `Hamt.delete`, `Hamt.removed`, builders. -/
set_option linter.unusedSimpArgs false
set_option linter.unusedVariables false
namespace FpVerif.Hamt
variable {K V : Type} {h : Hasher K}

theorem Hamt.Inv_empty : Hamt.Inv h (Hamt.empty : Hamt K V) := by
  unfold Hamt.Inv Hamt.empty; simp

theorem Hamt.toList_empty : (Hamt.empty : Hamt K V).toList = [] := rfl

theorem Hamt.get_spec (hl : LawfulHash h) {m : Hamt K V} (hwf : Hamt.Inv h m) (k : K) :
    m.get h k = .ok (lookup h k m.toList) := by
  unfold Hamt.get Hamt.toList
  cases hr : m.root with
  | none => rfl
  | some root =>
    have hw : FpVerif.Hamt.WF h 0 root ∧ m.size = root.toList.length := by
      unfold Hamt.Inv at hwf; simpa [hr] using hwf
    exact Node.get_eq_lookup hl hw.1 k

theorem Hamt.Inv.distinct (hl : LawfulHash h) {m : Hamt K V} (hwf : Hamt.Inv h m) : DistinctKeys h m.toList := by
  unfold Hamt.toList
  cases hr : m.root with
  | none => unfold DistinctKeys; simp
  | some root =>
    have hw : FpVerif.Hamt.WF h 0 root ∧ m.size = root.toList.length := by
      unfold Hamt.Inv at hwf; simpa [hr] using hwf
    exact hw.1.distinct hl

theorem Hamt.delete_spec (hl : LawfulHash h) {m : Hamt K V} (hwf : Hamt.Inv h m) (k : K) (mu : Bool) :
    ∃ m', m.delete h k mu = .ok m' ∧ Hamt.Inv h m' ∧
      (∀ k', lookup h k' m'.toList = if h.eqv k k' then none else lookup h k' m.toList) ∧
      m'.size + (if (lookup h k m.toList).isSome then 1 else 0) = m.size ∧
      (∀ e ∈ m'.toList, e ∈ m.toList) := by
  unfold Hamt.delete
  cases hr : m.root with
  | none =>
    refine ⟨m, rfl, hwf, ?_, ?_, fun e he => he⟩
    · intro k'; simp [Hamt.toList, hr, lookup_nil]
    · simp [Hamt.toList, hr, lookup_nil]
  | some root =>
    have hw : FpVerif.Hamt.WF h 0 root ∧ m.size = root.toList.length := by
      unfold Hamt.Inv at hwf; simpa [hr] using hwf
    obtain ⟨⟨nr, rz⟩, hdel, hpost⟩ := Node.delete_spec hl hw.1 k mu
    have htl : m.toList = root.toList := by simp [Hamt.toList, hr]
    cases hrz : rz with
    | false =>
      have hnone : lookup h k root.toList = none := by
        have := hpost.resized; simp only [hrz] at this
        cases hlk : lookup h k root.toList with
        | none => rfl
        | some x => rw [hlk] at this; cases this
      refine ⟨m, by simp [hdel, hrz, bind, Except.bind, pure, Except.pure], hwf, ?_, ?_, fun e he => he⟩
      · intro k'; rw [htl]; exact lookup_absent hl hnone k'
      · rw [htl, hnone]; simp
    | true =>
      have hsome : (lookup h k root.toList).isSome = true := by
        have := hpost.resized; simp only [hrz] at this; exact this.symm
      have hlen := hpost.len
      rw [hsome] at hlen
      simp only [if_true] at hlen
      refine ⟨{ size := m.size - 1, root := nr }, by simp [hdel, hrz, bind, Except.bind, pure, Except.pure], ?_, ?_, ?_, ?_⟩
      · unfold Hamt.Inv
        cases nr with
        | none => simp at hlen ⊢; omega
        | some n' =>
          simp at hlen ⊢
          exact ⟨hpost.wf n' rfl, by omega⟩
      · intro k'
        rw [htl]
        have := hpost.look k'
        cases nr <;> simpa [Hamt.toList] using this
      · rw [htl, hsome]
        cases nr <;> simp [Hamt.toList] at hlen ⊢ <;> omega
      · intro e he
        rw [htl]
        apply hpost.keys
        cases nr <;> simpa [Hamt.toList] using he

/-- abstract effect of `Removed(key...)` on the entries -/
def lookupRemoved (h : Hasher K) (ks : List K) (k' : K) (base : Option V) : Option V :=
  if ks.any (fun k => h.eqv k k') then none else base

theorem Hamt.removed_spec (hl : LawfulHash h) (ks : List K) : ∀ {m : Hamt K V}, Hamt.Inv h m →
    ∃ m', m.removed h ks = .ok m' ∧ Hamt.Inv h m' ∧
      (∀ k', lookup h k' m'.toList = lookupRemoved h ks k' (lookup h k' m.toList)) ∧
      (∀ e ∈ m'.toList, e ∈ m.toList) := by
  induction ks with
  | nil =>
    intro m hwf
    exact ⟨m, rfl, hwf, by intro k'; simp [lookupRemoved], fun e he => he⟩
  | cons k ks ih =>
    intro m hwf
    obtain ⟨m1, h1, hwf1, hlook1, _, hk1⟩ := Hamt.delete_spec hl hwf k false
    obtain ⟨m2, h2, hwf2, hlook2, hk2⟩ := ih hwf1
    refine ⟨m2, ?_, hwf2, ?_, fun e he => hk1 e (hk2 e he)⟩
    · unfold Hamt.removed at h2 ⊢
      rw [List.foldlM_cons, h1]; exact h2
    · intro k'
      rw [hlook2, hlook1]
      unfold lookupRemoved
      cases hkk : h.eqv k k' <;> simp [hkk]

end FpVerif.Hamt
