import FpVerif.Lemmas.IterComb
/-!
# Scripts of HasNext/Next calls and terminal operations (loops) over a simulated iterator
-/
namespace FpVerif.It
open IM
variable {σ σ₂ τ γ γ₂ X Y α β α₁ α₂ : Type}

/-! ## scripts -/

theorem runScript_sim {m : Machine σ α} {R : σ → List α → List α → Prop} (hS : Sim m R) :
    ∀ (cs : List Call) (s : σ) (d r : List α) (lg : Log), R s d r →
      ∃ s' lg' d', runScript m cs s lg = ((runScript m cs s lg).1, s', lg') ∧
        (runScript m cs s lg).1.map Obs.erase = specScript cs r ∧ R s' d' (specRest cs r) ∧
        d' ++ specRest cs r = d ++ r := by
  intro cs
  induction cs with
  | nil => intro s d r lg hR; exact ⟨s, lg, d, rfl, rfl, hR, rfl⟩
  | cons c cs ih =>
    intro s d r lg hR
    cases c with
    | H =>
      obtain ⟨s1, lg1, h1, hR1⟩ := hS.hasNext s d r lg hR
      obtain ⟨s', lg', d', e, hobs, hR', hd⟩ := ih s1 d r lg1 hR1
      refine ⟨s', lg', d', ?_, ?_, hR', hd⟩
      · simp only [runScript, runCall, h1]; rw [e]
      · simp only [runScript, runCall, h1, specScript, List.map_cons, Obs.erase]; rw [← hobs]
    | N =>
      cases r with
      | nil =>
        obtain ⟨p, s1, lg1, h1, hR1⟩ := hS.next_nil s d lg hR
        obtain ⟨s', lg', d', e, hobs, hR', hd⟩ := ih s1 d [] lg1 hR1
        refine ⟨s', lg', d', ?_, ?_, hR', hd⟩
        · simp only [runScript, runCall, h1]; rw [e]
        · simp only [runScript, runCall, h1, specScript, List.map_cons, Obs.erase]; rw [← hobs]
      | cons a r =>
        obtain ⟨s1, lg1, h1, hR1⟩ := hS.next_cons s d a r lg hR
        obtain ⟨s', lg', d', e, hobs, hR', hd⟩ := ih s1 (d ++ [a]) r lg1 hR1
        refine ⟨s', lg', d', ?_, ?_, hR', by simpa [specRest] using hd⟩
        · simp only [runScript, runCall, h1]; rw [e]
        · simp only [runScript, runCall, h1, specScript, List.map_cons, Obs.erase]; rw [← hobs]

theorem runScript2_sim {mL : Machine σ α} {mR : Machine σ β}
    {R2 : σ → List α → List α → List β → List β → Prop} (h2 : Sim2 mL mR R2) :
    ∀ (cs : List Call2) (s : σ) (dL rL : List α) (dR rR : List β) (lg : Log), R2 s dL rL dR rR →
      ∃ s' lg' dL' dR', runScript2 mL mR cs s lg = ((runScript2 mL mR cs s lg).1, s', lg') ∧
        (obsLeft (runScript2 mL mR cs s lg).1).map Obs.erase = specScript (Call2.leftPart cs) rL ∧
        (obsRight (runScript2 mL mR cs s lg).1).map Obs.erase = specScript (Call2.rightPart cs) rR ∧
        R2 s' dL' (specRest (Call2.leftPart cs) rL) dR' (specRest (Call2.rightPart cs) rR) ∧
        dL' ++ specRest (Call2.leftPart cs) rL = dL ++ rL ∧
        dR' ++ specRest (Call2.rightPart cs) rR = dR ++ rR := by
  intro cs
  induction cs with
  | nil => intro s dL rL dR rR lg hR; exact ⟨s, lg, dL, dR, rfl, rfl, rfl, hR, rfl, rfl⟩
  | cons c cs ih =>
    intro s dL rL dR rR lg hR
    cases c with
    | LH =>
      obtain ⟨s1, lg1, h1, hR1⟩ := (h2.left dR rR).hasNext s dL rL lg hR
      obtain ⟨s', lg', dL', dR', e, hoL, hoR, hR', hdL, hdR⟩ := ih s1 dL rL dR rR lg1 hR1
      refine ⟨s', lg', dL', dR', ?_, ?_, ?_, hR', hdL, hdR⟩
      · simp only [runScript2, runCall, if_true, h1]; rw [e]
      · simp only [runScript2, runCall, if_true, h1, obsLeft, Call2.leftPart, specScript, List.map_cons, Obs.erase]; rw [← hoL]
      · simp only [runScript2, runCall, if_true, h1, obsRight, Call2.rightPart]; rw [← hoR]
    | LN =>
      cases rL with
      | nil =>
        obtain ⟨p, s1, lg1, h1, hR1⟩ := (h2.left dR rR).next_nil s dL lg hR
        obtain ⟨s', lg', dL', dR', e, hoL, hoR, hR', hdL, hdR⟩ := ih s1 dL [] dR rR lg1 hR1
        refine ⟨s', lg', dL', dR', ?_, ?_, ?_, hR', hdL, hdR⟩
        · simp only [runScript2, runCall, reduceCtorEq, if_false, h1]; rw [e]
        · simp only [runScript2, runCall, reduceCtorEq, if_false, h1, obsLeft, Call2.leftPart, specScript, List.map_cons, Obs.erase]; rw [← hoL]
        · simp only [runScript2, runCall, reduceCtorEq, if_false, h1, obsRight, Call2.rightPart]; rw [← hoR]
      | cons a rL =>
        obtain ⟨s1, lg1, h1, hR1⟩ := (h2.left dR rR).next_cons s dL a rL lg hR
        obtain ⟨s', lg', dL', dR', e, hoL, hoR, hR', hdL, hdR⟩ := ih s1 (dL ++ [a]) rL dR rR lg1 hR1
        refine ⟨s', lg', dL', dR', ?_, ?_, ?_, hR', by simpa [specRest, Call2.leftPart] using hdL, hdR⟩
        · simp only [runScript2, runCall, reduceCtorEq, if_false, h1]; rw [e]
        · simp only [runScript2, runCall, reduceCtorEq, if_false, h1, obsLeft, Call2.leftPart, specScript, List.map_cons, Obs.erase]; rw [← hoL]
        · simp only [runScript2, runCall, reduceCtorEq, if_false, h1, obsRight, Call2.rightPart]; rw [← hoR]
    | RH =>
      obtain ⟨s1, lg1, h1, hR1⟩ := (h2.right dL rL).hasNext s dR rR lg hR
      obtain ⟨s', lg', dL', dR', e, hoL, hoR, hR', hdL, hdR⟩ := ih s1 dL rL dR rR lg1 hR1
      refine ⟨s', lg', dL', dR', ?_, ?_, ?_, hR', hdL, hdR⟩
      · simp only [runScript2, runCall, if_true, h1]; rw [e]
      · simp only [runScript2, runCall, if_true, h1, obsLeft, Call2.leftPart]; rw [← hoL]
      · simp only [runScript2, runCall, if_true, h1, obsRight, Call2.rightPart, specScript, List.map_cons, Obs.erase]; rw [← hoR]
    | RN =>
      cases rR with
      | nil =>
        obtain ⟨p, s1, lg1, h1, hR1⟩ := (h2.right dL rL).next_nil s dR lg hR
        obtain ⟨s', lg', dL', dR', e, hoL, hoR, hR', hdL, hdR⟩ := ih s1 dL rL dR [] lg1 hR1
        refine ⟨s', lg', dL', dR', ?_, ?_, ?_, hR', hdL, hdR⟩
        · simp only [runScript2, runCall, reduceCtorEq, if_false, h1]; rw [e]
        · simp only [runScript2, runCall, reduceCtorEq, if_false, h1, obsLeft, Call2.leftPart]; rw [← hoL]
        · simp only [runScript2, runCall, reduceCtorEq, if_false, h1, obsRight, Call2.rightPart, specScript, List.map_cons, Obs.erase]; rw [← hoR]
      | cons a rR =>
        obtain ⟨s1, lg1, h1, hR1⟩ := (h2.right dL rL).next_cons s dR a rR lg hR
        obtain ⟨s', lg', dL', dR', e, hoL, hoR, hR', hdL, hdR⟩ := ih s1 dL rL (dR ++ [a]) rR lg1 hR1
        refine ⟨s', lg', dL', dR', ?_, ?_, ?_, hR', hdL, by simpa [specRest, Call2.rightPart] using hdR⟩
        · simp only [runScript2, runCall, reduceCtorEq, if_false, h1]; rw [e]
        · simp only [runScript2, runCall, reduceCtorEq, if_false, h1, obsLeft, Call2.leftPart]; rw [← hoL]
        · simp only [runScript2, runCall, reduceCtorEq, if_false, h1, obsRight, Call2.rightPart, specScript, List.map_cons, Obs.erase]; rw [← hoR]

/-! ## terminal operations -/

theorem dropLoop_spec {m : Machine σ α} {R : σ → List α → List α → Prop} (hS : Sim m R) :
    ∀ (k : Nat) (s : σ) (d r : List α) (lg : Log), R s d r →
      ∃ s' lg', dropLoop m k s lg = (.ok (), s', lg') ∧ R s' (d ++ r.take k) (r.drop k) := by
  intro k
  induction k with
  | zero => intro s d r lg hR; exact ⟨s, lg, rfl, by simpa using hR⟩
  | succ k ih =>
    intro s d r lg hR
    obtain ⟨s1, lg1, h1, hR1⟩ := hS.hasNext s d r lg hR
    cases r with
    | nil =>
      simp only [List.isEmpty_nil, Bool.not_true] at h1
      exact ⟨s1, lg1, by simp [dropLoop, bind_ok h1], by simpa using hR1⟩
    | cons a r =>
      simp only [List.isEmpty_cons, Bool.not_false] at h1
      obtain ⟨s2, lg2, h2, hR2⟩ := hS.next_cons s1 d a r lg1 hR1
      obtain ⟨s', lg', h3, hR3⟩ := ih s2 (d ++ [a]) r lg2 hR2
      exact ⟨s', lg', by simp [dropLoop, bind_ok h1, bind_ok h2, h3], by simpa using hR3⟩

theorem toSeq_spec {m : Machine σ α} {R : σ → List α → List α → Prop} (hS : Sim m R) :
    ∀ (r : List α) (fuel : Nat) (s : σ) (d acc : List α) (lg : Log), r.length < fuel → R s d r →
      ∃ s' lg', toSeq m fuel acc s lg = (.ok (acc ++ r), s', lg') ∧ R s' (d ++ r) [] := by
  intro r
  induction r with
  | nil =>
    intro fuel s d acc lg hf hR
    obtain ⟨k, rfl⟩ := Nat.exists_eq_succ_of_ne_zero (by omega : fuel ≠ 0)
    obtain ⟨s1, lg1, h1, hR1⟩ := hS.hasNext s d [] lg hR
    simp only [List.isEmpty_nil, Bool.not_true] at h1
    exact ⟨s1, lg1, by simp [toSeq, bind_ok h1], by simpa using hR1⟩
  | cons a r ih =>
    intro fuel s d acc lg hf hR
    obtain ⟨k, rfl⟩ := Nat.exists_eq_succ_of_ne_zero (by omega : fuel ≠ 0)
    obtain ⟨s1, lg1, h1, hR1⟩ := hS.hasNext s d (a :: r) lg hR
    simp only [List.isEmpty_cons, Bool.not_false] at h1
    obtain ⟨s2, lg2, h2, hR2⟩ := hS.next_cons s1 d a r lg1 hR1
    obtain ⟨s', lg', h3, hR3⟩ := ih k s2 (d ++ [a]) (acc ++ [a]) lg2 (by simpa using hf) hR2
    exact ⟨s', lg', by simp [toSeq, bind_ok h1, bind_ok h2, h3], by simpa using hR3⟩

theorem count_spec {m : Machine σ α} {R : σ → List α → List α → Prop} (hS : Sim m R) :
    ∀ (r : List α) (fuel : Nat) (s : σ) (d : List α) (acc : Nat) (lg : Log), r.length < fuel → R s d r →
      ∃ s' lg', count m fuel acc s lg = (.ok (acc + r.length), s', lg') ∧ R s' (d ++ r) [] := by
  intro r
  induction r with
  | nil =>
    intro fuel s d acc lg hf hR
    obtain ⟨k, rfl⟩ := Nat.exists_eq_succ_of_ne_zero (by omega : fuel ≠ 0)
    obtain ⟨s1, lg1, h1, hR1⟩ := hS.hasNext s d [] lg hR
    simp only [List.isEmpty_nil, Bool.not_true] at h1
    exact ⟨s1, lg1, by simp [count, bind_ok h1], by simpa using hR1⟩
  | cons a r ih =>
    intro fuel s d acc lg hf hR
    obtain ⟨k, rfl⟩ := Nat.exists_eq_succ_of_ne_zero (by omega : fuel ≠ 0)
    obtain ⟨s1, lg1, h1, hR1⟩ := hS.hasNext s d (a :: r) lg hR
    simp only [List.isEmpty_cons, Bool.not_false] at h1
    obtain ⟨s2, lg2, h2, hR2⟩ := hS.next_cons s1 d a r lg1 hR1
    obtain ⟨s', lg', h3, hR3⟩ := ih k s2 (d ++ [a]) (acc + 1) lg2 (by simpa using hf) hR2
    refine ⟨s', lg', ?_, by simpa using hR3⟩
    simp [count, bind_ok h1, bind_ok h2, h3]; omega

theorem fold_spec {f : β → α → GoM β} {g : β → α → β} (hf : Total2 f g) {m : Machine σ α}
    {R : σ → List α → List α → Prop} (hS : Sim m R) :
    ∀ (r : List α) (fuel : Nat) (s : σ) (d : List α) (z : β) (lg : Log), r.length < fuel → R s d r →
      ∃ s' lg', fold f m fuel z s lg = (.ok (r.foldl g z), s', lg') ∧ R s' (d ++ r) [] := by
  intro r
  induction r with
  | nil =>
    intro fuel s d z lg hfu hR
    obtain ⟨k, rfl⟩ := Nat.exists_eq_succ_of_ne_zero (by omega : fuel ≠ 0)
    obtain ⟨s1, lg1, h1, hR1⟩ := hS.hasNext s d [] lg hR
    simp only [List.isEmpty_nil, Bool.not_true] at h1
    exact ⟨s1, lg1, by simp [fold, bind_ok h1], by simpa using hR1⟩
  | cons a r ih =>
    intro fuel s d z lg hfu hR
    obtain ⟨k, rfl⟩ := Nat.exists_eq_succ_of_ne_zero (by omega : fuel ≠ 0)
    obtain ⟨s1, lg1, h1, hR1⟩ := hS.hasNext s d (a :: r) lg hR
    simp only [List.isEmpty_cons, Bool.not_false] at h1
    obtain ⟨s2, lg2, h2, hR2⟩ := hS.next_cons s1 d a r lg1 hR1
    obtain ⟨lg3, h3⟩ := liftG_total2 hf z a s2 lg2
    obtain ⟨s', lg', h4, hR4⟩ := ih k s2 (d ++ [a]) (g z a) lg3 (by simpa using hfu) hR2
    exact ⟨s', lg', by simp [fold, bind_ok h1, bind_ok h2, bind_ok h3, h4], by simpa using hR4⟩

/-- reference for `FoldTry`: result and the elements that are NOT consumed -/
def foldTryL (g : β → α → Try β) : β → List α → Try β × List α
  | z, [] => (.success z, [])
  | z, a :: as => match g z a with
    | .success z' => foldTryL g z' as
    | .failure e => (.failure e, as)

def foldOptionL (g : β → α → Option β) : β → List α → Option β × List α
  | z, [] => (some z, [])
  | z, a :: as => match g z a with
    | some z' => foldOptionL g z' as
    | none => (none, as)

def foldErrorL (g : α → Option Err) : List α → Option Err × List α
  | [] => (none, [])
  | a :: as => match g a with
    | some e => (some e, as)
    | none => foldErrorL g as

theorem foldTryL_suffix (g : β → α → Try β) (z : β) (r : List α) :
    ∃ pre, pre ++ (foldTryL g z r).2 = r := by
  induction r generalizing z with
  | nil => exact ⟨[], rfl⟩
  | cons a r ih =>
    simp only [foldTryL]
    cases g z a with
    | success z' => obtain ⟨pre, h⟩ := ih z'; exact ⟨a :: pre, by simp [h]⟩
    | failure e => exact ⟨[a], rfl⟩

theorem foldTry_spec {f : β → α → GoM (Try β)} {g : β → α → Try β} (hf : Total2 f g) {m : Machine σ α}
    {R : σ → List α → List α → Prop} (hS : Sim m R) :
    ∀ (r : List α) (fuel : Nat) (s : σ) (d : List α) (z : β) (lg : Log), r.length < fuel → R s d r →
      ∃ s' lg' d', foldTry f m fuel z s lg = (.ok (foldTryL g z r).1, s', lg') ∧
        R s' d' (foldTryL g z r).2 ∧ d' ++ (foldTryL g z r).2 = d ++ r := by
  intro r
  induction r with
  | nil =>
    intro fuel s d z lg hfu hR
    obtain ⟨k, rfl⟩ := Nat.exists_eq_succ_of_ne_zero (by omega : fuel ≠ 0)
    obtain ⟨s1, lg1, h1, hR1⟩ := hS.hasNext s d [] lg hR
    simp only [List.isEmpty_nil, Bool.not_true] at h1
    exact ⟨s1, lg1, d, by simp [foldTry, bind_ok h1, foldTryL], by simpa [foldTryL] using hR1, by simp [foldTryL]⟩
  | cons a r ih =>
    intro fuel s d z lg hfu hR
    obtain ⟨k, rfl⟩ := Nat.exists_eq_succ_of_ne_zero (by omega : fuel ≠ 0)
    obtain ⟨s1, lg1, h1, hR1⟩ := hS.hasNext s d (a :: r) lg hR
    simp only [List.isEmpty_cons, Bool.not_false] at h1
    obtain ⟨s2, lg2, h2, hR2⟩ := hS.next_cons s1 d a r lg1 hR1
    obtain ⟨lg3, h3⟩ := liftG_total2 hf z a s2 lg2
    cases hg : g z a with
    | success z' =>
      obtain ⟨s', lg', d', h4, hR4, hd⟩ := ih k s2 (d ++ [a]) z' lg3 (by simpa using hfu) hR2
      refine ⟨s', lg', d', ?_, by simpa [foldTryL, hg] using hR4, by simpa [foldTryL, hg] using hd⟩
      simp [foldTry, bind_ok h1, bind_ok h2, bind_ok h3, hg, h4, foldTryL]
    | failure e =>
      refine ⟨s2, lg3, d ++ [a], ?_, by simpa [foldTryL, hg] using hR2, by simp [foldTryL, hg]⟩
      simp [foldTry, bind_ok h1, bind_ok h2, bind_ok h3, hg, foldTryL]

theorem foldOption_spec {f : β → α → GoM (Option β)} {g : β → α → Option β} (hf : Total2 f g) {m : Machine σ α}
    {R : σ → List α → List α → Prop} (hS : Sim m R) :
    ∀ (r : List α) (fuel : Nat) (s : σ) (d : List α) (z : β) (lg : Log), r.length < fuel → R s d r →
      ∃ s' lg' d', foldOption f m fuel z s lg = (.ok (foldOptionL g z r).1, s', lg') ∧
        R s' d' (foldOptionL g z r).2 ∧ d' ++ (foldOptionL g z r).2 = d ++ r := by
  intro r
  induction r with
  | nil =>
    intro fuel s d z lg hfu hR
    obtain ⟨k, rfl⟩ := Nat.exists_eq_succ_of_ne_zero (by omega : fuel ≠ 0)
    obtain ⟨s1, lg1, h1, hR1⟩ := hS.hasNext s d [] lg hR
    simp only [List.isEmpty_nil, Bool.not_true] at h1
    exact ⟨s1, lg1, d, by simp [foldOption, bind_ok h1, foldOptionL], by simpa [foldOptionL] using hR1, by simp [foldOptionL]⟩
  | cons a r ih =>
    intro fuel s d z lg hfu hR
    obtain ⟨k, rfl⟩ := Nat.exists_eq_succ_of_ne_zero (by omega : fuel ≠ 0)
    obtain ⟨s1, lg1, h1, hR1⟩ := hS.hasNext s d (a :: r) lg hR
    simp only [List.isEmpty_cons, Bool.not_false] at h1
    obtain ⟨s2, lg2, h2, hR2⟩ := hS.next_cons s1 d a r lg1 hR1
    obtain ⟨lg3, h3⟩ := liftG_total2 hf z a s2 lg2
    cases hg : g z a with
    | some z' =>
      obtain ⟨s', lg', d', h4, hR4, hd⟩ := ih k s2 (d ++ [a]) z' lg3 (by simpa using hfu) hR2
      refine ⟨s', lg', d', ?_, by simpa [foldOptionL, hg] using hR4, by simpa [foldOptionL, hg] using hd⟩
      simp [foldOption, bind_ok h1, bind_ok h2, bind_ok h3, hg, h4, foldOptionL]
    | none =>
      refine ⟨s2, lg3, d ++ [a], ?_, by simpa [foldOptionL, hg] using hR2, by simp [foldOptionL, hg]⟩
      simp [foldOption, bind_ok h1, bind_ok h2, bind_ok h3, hg, foldOptionL]

theorem foldError_spec {f : α → GoM (Option Err)} {g : α → Option Err} (hf : Total f g) {m : Machine σ α}
    {R : σ → List α → List α → Prop} (hS : Sim m R) :
    ∀ (r : List α) (fuel : Nat) (s : σ) (d : List α) (lg : Log), r.length < fuel → R s d r →
      ∃ s' lg' d', foldError f m fuel s lg = (.ok (foldErrorL g r).1, s', lg') ∧
        R s' d' (foldErrorL g r).2 ∧ d' ++ (foldErrorL g r).2 = d ++ r := by
  intro r
  induction r with
  | nil =>
    intro fuel s d lg hfu hR
    obtain ⟨k, rfl⟩ := Nat.exists_eq_succ_of_ne_zero (by omega : fuel ≠ 0)
    obtain ⟨s1, lg1, h1, hR1⟩ := hS.hasNext s d [] lg hR
    simp only [List.isEmpty_nil, Bool.not_true] at h1
    exact ⟨s1, lg1, d, by simp [foldError, bind_ok h1, foldErrorL], by simpa [foldErrorL] using hR1, by simp [foldErrorL]⟩
  | cons a r ih =>
    intro fuel s d lg hfu hR
    obtain ⟨k, rfl⟩ := Nat.exists_eq_succ_of_ne_zero (by omega : fuel ≠ 0)
    obtain ⟨s1, lg1, h1, hR1⟩ := hS.hasNext s d (a :: r) lg hR
    simp only [List.isEmpty_cons, Bool.not_false] at h1
    obtain ⟨s2, lg2, h2, hR2⟩ := hS.next_cons s1 d a r lg1 hR1
    obtain ⟨lg3, h3⟩ := liftG_total hf a s2 lg2
    cases hg : g a with
    | none =>
      obtain ⟨s', lg', d', h4, hR4, hd⟩ := ih k s2 (d ++ [a]) lg3 (by simpa using hfu) hR2
      refine ⟨s', lg', d', ?_, by simpa [foldErrorL, hg] using hR4, by simpa [foldErrorL, hg] using hd⟩
      simp [foldError, bind_ok h1, bind_ok h2, bind_ok h3, hg, h4, foldErrorL]
    | some e =>
      refine ⟨s2, lg3, d ++ [a], ?_, by simpa [foldErrorL, hg] using hR2, by simp [foldErrorL, hg]⟩
      simp [foldError, bind_ok h1, bind_ok h2, bind_ok h3, hg, foldErrorL]

theorem foreach_spec {p : α → GoM Unit} (hp : Total p (fun _ => ())) {m : Machine σ α}
    {R : σ → List α → List α → Prop} (hS : Sim m R) :
    ∀ (r : List α) (fuel : Nat) (s : σ) (d : List α) (lg : Log), r.length < fuel → R s d r →
      ∃ s' lg', foreach p m fuel s lg = (.ok (), s', lg') ∧ R s' (d ++ r) [] := by
  intro r
  induction r with
  | nil =>
    intro fuel s d lg hfu hR
    obtain ⟨k, rfl⟩ := Nat.exists_eq_succ_of_ne_zero (by omega : fuel ≠ 0)
    obtain ⟨s1, lg1, h1, hR1⟩ := hS.hasNext s d [] lg hR
    simp only [List.isEmpty_nil, Bool.not_true] at h1
    exact ⟨s1, lg1, by simp [foreach, bind_ok h1], by simpa using hR1⟩
  | cons a r ih =>
    intro fuel s d lg hfu hR
    obtain ⟨k, rfl⟩ := Nat.exists_eq_succ_of_ne_zero (by omega : fuel ≠ 0)
    obtain ⟨s1, lg1, h1, hR1⟩ := hS.hasNext s d (a :: r) lg hR
    simp only [List.isEmpty_cons, Bool.not_false] at h1
    obtain ⟨s2, lg2, h2, hR2⟩ := hS.next_cons s1 d a r lg1 hR1
    obtain ⟨lg3, h3⟩ := liftG_total hp a s2 lg2
    obtain ⟨s', lg', h4, hR4⟩ := ih k s2 (d ++ [a]) lg3 (by simpa using hfu) hR2
    exact ⟨s', lg', by simp [foreach, bind_ok h1, bind_ok h2, bind_ok h3, h4], by simpa using hR4⟩

/-- `Exists`, `ForAll`, `All` stop at the first hit of `g` (resp. `!g`) -/
theorem exists_spec {p : α → GoM Bool} {g : α → Bool} (hp : Total p g) {m : Machine σ α}
    {R : σ → List α → List α → Prop} (hS : Sim m R) :
    ∀ (r : List α) (fuel : Nat) (s : σ) (d : List α) (lg : Log), r.length < fuel → R s d r →
      ∃ s' lg' d', «exists» p m fuel s lg = (.ok (r.any g), s', lg') ∧ R s' d' (afterHit g r) ∧
        d' ++ afterHit g r = d ++ r := by
  intro r
  induction r with
  | nil =>
    intro fuel s d lg hfu hR
    obtain ⟨k, rfl⟩ := Nat.exists_eq_succ_of_ne_zero (by omega : fuel ≠ 0)
    obtain ⟨s1, lg1, h1, hR1⟩ := hS.hasNext s d [] lg hR
    simp only [List.isEmpty_nil, Bool.not_true] at h1
    exact ⟨s1, lg1, d, by simp [«exists», bind_ok h1], by simpa [afterHit] using hR1, by simp [afterHit]⟩
  | cons a r ih =>
    intro fuel s d lg hfu hR
    obtain ⟨k, rfl⟩ := Nat.exists_eq_succ_of_ne_zero (by omega : fuel ≠ 0)
    obtain ⟨s1, lg1, h1, hR1⟩ := hS.hasNext s d (a :: r) lg hR
    simp only [List.isEmpty_cons, Bool.not_false] at h1
    obtain ⟨s2, lg2, h2, hR2⟩ := hS.next_cons s1 d a r lg1 hR1
    obtain ⟨lg3, h3⟩ := liftG_total hp a s2 lg2
    cases hg : g a
    · obtain ⟨s', lg', d', h4, hR4, hd⟩ := ih k s2 (d ++ [a]) lg3 (by simpa using hfu) hR2
      refine ⟨s', lg', d', ?_, by simpa [afterHit, hg] using hR4, by simpa [afterHit, hg] using hd⟩
      simp [«exists», bind_ok h1, bind_ok h2, bind_ok h3, hg, h4]
    · refine ⟨s2, lg3, d ++ [a], ?_, by simpa [afterHit, hg] using hR2, by simp [afterHit, hg]⟩
      simp [«exists», bind_ok h1, bind_ok h2, bind_ok h3, hg]

theorem forAll_spec {p : α → GoM Bool} {g : α → Bool} (hp : Total p g) {m : Machine σ α}
    {R : σ → List α → List α → Prop} (hS : Sim m R) :
    ∀ (r : List α) (fuel : Nat) (s : σ) (d : List α) (lg : Log), r.length < fuel → R s d r →
      ∃ s' lg' d', forAll p m fuel s lg = (.ok (r.all g), s', lg') ∧ R s' d' (afterHit (fun x => !g x) r) ∧
        d' ++ afterHit (fun x => !g x) r = d ++ r := by
  intro r
  induction r with
  | nil =>
    intro fuel s d lg hfu hR
    obtain ⟨k, rfl⟩ := Nat.exists_eq_succ_of_ne_zero (by omega : fuel ≠ 0)
    obtain ⟨s1, lg1, h1, hR1⟩ := hS.hasNext s d [] lg hR
    simp only [List.isEmpty_nil, Bool.not_true] at h1
    exact ⟨s1, lg1, d, by simp [forAll, bind_ok h1], by simpa [afterHit] using hR1, by simp [afterHit]⟩
  | cons a r ih =>
    intro fuel s d lg hfu hR
    obtain ⟨k, rfl⟩ := Nat.exists_eq_succ_of_ne_zero (by omega : fuel ≠ 0)
    obtain ⟨s1, lg1, h1, hR1⟩ := hS.hasNext s d (a :: r) lg hR
    simp only [List.isEmpty_cons, Bool.not_false] at h1
    obtain ⟨s2, lg2, h2, hR2⟩ := hS.next_cons s1 d a r lg1 hR1
    obtain ⟨lg3, h3⟩ := liftG_total hp a s2 lg2
    cases hg : g a
    · refine ⟨s2, lg3, d ++ [a], ?_, by simpa [afterHit, hg] using hR2, by simp [afterHit, hg]⟩
      simp [forAll, bind_ok h1, bind_ok h2, bind_ok h3, hg]
    · obtain ⟨s', lg', d', h4, hR4, hd⟩ := ih k s2 (d ++ [a]) lg3 (by simpa using hfu) hR2
      refine ⟨s', lg', d', ?_, by simpa [afterHit, hg] using hR4, by simpa [afterHit, hg] using hd⟩
      simp [forAll, bind_ok h1, bind_ok h2, bind_ok h3, hg, h4]

/-- `All()(yield)`: pulls up to and including the first element on which `yield` returns false -/
theorem all_spec {p : α → GoM Bool} {g : α → Bool} (hp : Total p g) {m : Machine σ α}
    {R : σ → List α → List α → Prop} (hS : Sim m R) :
    ∀ (r : List α) (fuel : Nat) (s : σ) (d : List α) (lg : Log), r.length < fuel → R s d r →
      ∃ s' lg' d', all p m fuel s lg = (.ok (), s', lg') ∧ R s' d' (afterHit (fun x => !g x) r) ∧
        d' ++ afterHit (fun x => !g x) r = d ++ r := by
  intro r
  induction r with
  | nil =>
    intro fuel s d lg hfu hR
    obtain ⟨k, rfl⟩ := Nat.exists_eq_succ_of_ne_zero (by omega : fuel ≠ 0)
    obtain ⟨s1, lg1, h1, hR1⟩ := hS.hasNext s d [] lg hR
    simp only [List.isEmpty_nil, Bool.not_true] at h1
    exact ⟨s1, lg1, d, by simp [all, bind_ok h1], by simpa [afterHit] using hR1, by simp [afterHit]⟩
  | cons a r ih =>
    intro fuel s d lg hfu hR
    obtain ⟨k, rfl⟩ := Nat.exists_eq_succ_of_ne_zero (by omega : fuel ≠ 0)
    obtain ⟨s1, lg1, h1, hR1⟩ := hS.hasNext s d (a :: r) lg hR
    simp only [List.isEmpty_cons, Bool.not_false] at h1
    obtain ⟨s2, lg2, h2, hR2⟩ := hS.next_cons s1 d a r lg1 hR1
    obtain ⟨lg3, h3⟩ := liftG_total hp a s2 lg2
    cases hg : g a
    · refine ⟨s2, lg3, d ++ [a], ?_, by simpa [afterHit, hg] using hR2, by simp [afterHit, hg]⟩
      simp [all, bind_ok h1, bind_ok h2, bind_ok h3, hg]
    · obtain ⟨s', lg', d', h4, hR4, hd⟩ := ih k s2 (d ++ [a]) lg3 (by simpa using hfu) hR2
      refine ⟨s', lg', d', ?_, by simpa [afterHit, hg] using hR4, by simpa [afterHit, hg] using hd⟩
      simp [all, bind_ok h1, bind_ok h2, bind_ok h3, hg, h4]

theorem nextOption_spec {m : Machine σ α} {R : σ → List α → List α → Prop} (hS : Sim m R)
    (s : σ) (d r : List α) (lg : Log) (hR : R s d r) :
    ∃ s' lg', nextOption m s lg = (.ok r.head?, s', lg') ∧ R s' (d ++ r.head?.toList) r.tail :=
  pullNextFn_spec hS s d r lg hR

theorem isEmpty_spec {m : Machine σ α} {R : σ → List α → List α → Prop} (hS : Sim m R)
    (s : σ) (d r : List α) (lg : Log) (hR : R s d r) :
    ∃ s' lg', isEmpty m s lg = (.ok r.isEmpty, s', lg') ∧ R s' d r := by
  obtain ⟨s1, lg1, h1, hR1⟩ := hS.hasNext s d r lg hR
  exact ⟨s1, lg1, by simp [isEmpty, bind_ok h1], hR1⟩

/-- FoldRight with a step that forces its lazy argument first and then combines:
    the classical right fold. -/
theorem foldRight_strict_spec {f : α → β → GoM β} {g : α → β → β} (hf : Total2 f g) {m : Machine σ α}
    {R : σ → List α → List α → Prop} (hS : Sim m R) (zero : β) :
    ∀ (r : List α) (fuel : Nat) (s : σ) (d : List α) (lg : Log), r.length < fuel → R s d r →
      ∃ s' lg', foldRight zero (fun a th => do let b ← th; IM.liftG (f a b)) m fuel s lg =
        (.ok (r.foldr g zero), s', lg') ∧ R s' (d ++ r) [] := by
  intro r
  induction r with
  | nil =>
    intro fuel s d lg hfu hR
    obtain ⟨k, rfl⟩ := Nat.exists_eq_succ_of_ne_zero (by omega : fuel ≠ 0)
    obtain ⟨s1, lg1, h1, hR1⟩ := isEmpty_spec hS s d [] lg hR
    simp only [List.isEmpty_nil] at h1
    exact ⟨s1, lg1, by simp [foldRight, bind_ok h1], by simpa using hR1⟩
  | cons a r ih =>
    intro fuel s d lg hfu hR
    obtain ⟨k, rfl⟩ := Nat.exists_eq_succ_of_ne_zero (by omega : fuel ≠ 0)
    obtain ⟨s1, lg1, h1, hR1⟩ := isEmpty_spec hS s d (a :: r) lg hR
    simp only [List.isEmpty_cons] at h1
    obtain ⟨s2, lg2, h2, hR2⟩ := hS.next_cons s1 d a r lg1 hR1
    obtain ⟨s3, lg3, h3, hR3⟩ := ih k s2 (d ++ [a]) lg2 (by simpa using hfu) hR2
    obtain ⟨lg4, h4⟩ := liftG_total2 hf a (r.foldr g zero) s3 lg3
    exact ⟨s3, lg4, by simp [foldRight, bind_ok h1, bind_ok h2, bind_ok h3, h4], by simpa using hR3⟩

/-- FoldRight with a short-circuiting step (`if p a then Done(h a) else tail`): elements after the
    first hit are never pulled. -/
theorem foldRight_shortcut_spec {p : α → GoM Bool} {g : α → Bool} (hp : Total p g) (h : α → β)
    {m : Machine σ α} {R : σ → List α → List α → Prop} (hS : Sim m R) (zero : β) :
    ∀ (r : List α) (fuel : Nat) (s : σ) (d : List α) (lg : Log), r.length < fuel → R s d r →
      ∃ s' lg' d', foldRight zero (fun a th => do if ← IM.liftG (p a) then pure (h a) else th) m fuel s lg =
        (.ok (((r.find? g).map h).getD zero), s', lg') ∧ R s' d' (afterHit g r) ∧
        d' ++ afterHit g r = d ++ r := by
  intro r
  induction r with
  | nil =>
    intro fuel s d lg hfu hR
    obtain ⟨k, rfl⟩ := Nat.exists_eq_succ_of_ne_zero (by omega : fuel ≠ 0)
    obtain ⟨s1, lg1, h1, hR1⟩ := isEmpty_spec hS s d [] lg hR
    simp only [List.isEmpty_nil] at h1
    exact ⟨s1, lg1, d, by simp [foldRight, bind_ok h1], by simpa [afterHit] using hR1, by simp [afterHit]⟩
  | cons a r ih =>
    intro fuel s d lg hfu hR
    obtain ⟨k, rfl⟩ := Nat.exists_eq_succ_of_ne_zero (by omega : fuel ≠ 0)
    obtain ⟨s1, lg1, h1, hR1⟩ := isEmpty_spec hS s d (a :: r) lg hR
    simp only [List.isEmpty_cons] at h1
    obtain ⟨s2, lg2, h2, hR2⟩ := hS.next_cons s1 d a r lg1 hR1
    obtain ⟨lg3, h3⟩ := liftG_total hp a s2 lg2
    cases hg : g a
    · obtain ⟨s', lg', d', h4, hR4, hd⟩ := ih k s2 (d ++ [a]) lg3 (by simpa using hfu) hR2
      refine ⟨s', lg', d', ?_, by simpa [afterHit, hg] using hR4, by simpa [afterHit, hg] using hd⟩
      simp [foldRight, bind_ok h1, bind_ok h2, bind_ok h3, hg, h4]
    · refine ⟨s2, lg3, d ++ [a], ?_, by simpa [afterHit, hg] using hR2, by simp [afterHit, hg]⟩
      simp [foldRight, bind_ok h1, bind_ok h2, bind_ok h3, hg]

end FpVerif.It
