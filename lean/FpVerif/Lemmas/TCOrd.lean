import FpVerif.Lemmas.TCEq
/-!
Helper lemmas for C10: strict weak orders on `Bool`-valued less functions, lexicographic
combination, the sequence order, and the bridge to `StrictTotal` on the `fp.Ord` interface.
-/
namespace FpVerif.TC

variable {α β τ : Type}

/-- a strict weak order: irreflexive, transitive, incomparability is transitive -/
structure StrictWeak (less : α → α → Bool) : Prop where
  irrefl : ∀ a, less a a = false
  trans : ∀ a b c, less a b = true → less b c = true → less a c = true
  incomp_trans : ∀ a b c, less a b = false → less b a = false → less b c = false → less c b = false →
    less a c = false ∧ less c a = false

theorem StrictWeak.asymm {less : α → α → Bool} (h : StrictWeak less) (a b : α) (hab : less a b = true) :
    less b a = false := by
  cases hba : less b a with
  | false => rfl
  | true => have := h.trans a b a hab hba; simp [h.irrefl a] at this

/-- `a < b`, `a ~ b` or `b < a`, with `~` compatible: less is preserved when an argument is replaced by
    an incomparable one -/
theorem StrictWeak.less_of_incomp_left {less : α → α → Bool} (h : StrictWeak less) (a b c : α)
    (h1 : less a b = false) (h2 : less b a = false) (hbc : less b c = true) : less a c = true := by
  cases hac : less a c with
  | true => rfl
  | false =>
    cases hca : less c a with
    | true => have := h.trans b c a hbc hca; simp [h2] at this
    | false =>
      have := h.incomp_trans b a c h2 h1 hac hca
      simp [hbc] at this

theorem StrictWeak.less_of_incomp_right {less : α → α → Bool} (h : StrictWeak less) (a b c : α)
    (hab : less a b = true) (h1 : less b c = false) (h2 : less c b = false) : less a c = true := by
  cases hac : less a c with
  | true => rfl
  | false =>
    cases hca : less c a with
    | true => have := h.trans c a b hca hab; simp [h2] at this
    | false =>
      have := h.incomp_trans a c b hac hca h2 h1
      simp [hab] at this

theorem StrictWeak.neg_trans {less : α → α → Bool} (h : StrictWeak less) (a b c : α)
    (h1 : less a b = false) (h2 : less b c = false) : less a c = false := by
  cases hac : less a c with
  | false => rfl
  | true =>
    cases hba : less b a with
    | true => have := h.trans b a c hba hac; simp [h2] at this
    | false => have := h.less_of_incomp_left b a c hba h1 hac; simp [h2] at this

theorem StrictWeak.comap {less : β → β → Bool} (h : StrictWeak less) (f : α → β) :
    StrictWeak fun a b => less (f a) (f b) :=
  ⟨fun _ => h.irrefl _, fun _ _ _ => h.trans _ _ _, fun _ _ _ => h.incomp_trans _ _ _⟩

theorem StrictWeak.flip {less : α → α → Bool} (h : StrictWeak less) : StrictWeak fun a b => less b a where
  irrefl a := h.irrefl a
  trans a b c h1 h2 := h.trans c b a h2 h1
  incomp_trans a b c h1 h2 h3 h4 := by
    exact h.incomp_trans c b a h3 h4 h1 h2

/-- lexicographic combination of two less functions -/
def lexLess (l1 : α → α → Bool) (l2 : τ → τ → Bool) (a b : α × τ) : Bool :=
  if l1 a.1 b.1 then true else if l1 b.1 a.1 then false else l2 a.2 b.2

theorem StrictWeak.lex {l1 : α → α → Bool} {l2 : τ → τ → Bool} (h1 : StrictWeak l1) (h2 : StrictWeak l2) :
    StrictWeak (lexLess l1 l2) where
  irrefl a := by simp [lexLess, h1.irrefl, h2.irrefl]
  trans a b c hab hbc := by
    simp only [lexLess] at hab hbc ⊢
    have t1 := h1.trans; have a1 := h1.asymm; have i1 := h1.incomp_trans; have t2 := h2.trans
    have il := h1.less_of_incomp_left; have ir := h1.less_of_incomp_right
    grind
  incomp_trans a b c hab hba hbc hcb := by
    simp only [lexLess] at hab hba hbc hcb ⊢
    have t1 := h1.trans; have a1 := h1.asymm; have i1 := h1.incomp_trans; have i2 := h2.incomp_trans
    have il := h1.less_of_incomp_left; have ir := h1.less_of_incomp_right
    grind

/-- the order of `Option`/pointers: absent first, then by content -/
def optLess (l : α → α → Bool) : Option α → Option α → Bool
  | some a, some b => l a b
  | none, some _ => true
  | _, _ => false

theorem StrictWeak.opt {l : α → α → Bool} (h : StrictWeak l) : StrictWeak (optLess l) where
  irrefl a := by cases a <;> simp [optLess, h.irrefl]
  trans a b c := by
    cases a <;> cases b <;> cases c <;> simp [optLess]
    exact h.trans _ _ _
  incomp_trans a b c := by
    cases a <;> cases b <;> cases c <;> simp [optLess]
    exact h.incomp_trans _ _ _

-- ---------------------------------------------------------------------------------- sequences

theorem seqLess_nil_left (ord : OrdD α) (bs : List α) : OrdD.seqLess ord [] bs = decide (0 < bs.length) := by
  cases bs <;> simp [OrdD.seqLess]

theorem seqLess_nil_right (ord : OrdD α) (as : List α) : OrdD.seqLess ord as [] = false := by
  cases as <;> simp [OrdD.seqLess]

theorem seqLess_cons (ord : OrdD α) (a b : α) (as bs : List α) :
    OrdD.seqLess ord (a :: as) (b :: bs) =
      if ord.less a b then true else if ord.less b a then false else OrdD.seqLess ord as bs := by
  simp [OrdD.seqLess]

theorem StrictWeak.seq {ord : OrdD α} (h : StrictWeak ord.less) : StrictWeak (OrdD.seqLess ord) where
  irrefl a := by
    induction a with
    | nil => simp [seqLess_nil_right]
    | cons x xs ih => simp [seqLess_cons, h.irrefl, ih]
  trans a := by
    induction a with
    | nil =>
      intro b c hab hbc
      cases c with
      | nil => simp [seqLess_nil_right] at hbc
      | cons _ _ => simp [seqLess_nil_left]
    | cons x xs ih =>
      intro b c hab hbc
      cases b with
      | nil => simp [seqLess_nil_right] at hab
      | cons y ys =>
        cases c with
        | nil => simp [seqLess_nil_right] at hbc
        | cons z zs =>
          simp only [seqLess_cons] at hab hbc ⊢
          have t1 := h.trans; have a1 := h.asymm; have i1 := h.incomp_trans
          have il := h.less_of_incomp_left; have ir := h.less_of_incomp_right
          have ih' := ih ys zs
          grind
  incomp_trans a := by
    induction a with
    | nil =>
      intro b c hab hba hbc hcb
      cases b with
      | nil => exact ⟨hbc, hcb⟩
      | cons _ _ => simp [seqLess_nil_left] at hab
    | cons x xs ih =>
      intro b c hab hba hbc hcb
      cases b with
      | nil => simp [seqLess_nil_left] at hba
      | cons y ys =>
        cases c with
        | nil => simp [seqLess_nil_left] at hcb
        | cons z zs =>
          simp only [seqLess_cons] at hab hba hbc hcb ⊢
          have t1 := h.trans; have a1 := h.asymm; have i1 := h.incomp_trans
          have il := h.less_of_incomp_left; have ir := h.less_of_incomp_right
          have ih' := ih ys zs
          grind

/-- two sequences are incomparable exactly when they have the same length and are incomparable
    element by element -/
theorem seqLess_incomp_iff {ord : OrdD α} (h : StrictWeak ord.less) (a b : List α) :
    (OrdD.seqLess ord a b = false ∧ OrdD.seqLess ord b a = false) ↔
      Pointwise (fun x y => ord.less x y = false ∧ ord.less y x = false) a b := by
  induction a generalizing b with
  | nil =>
    cases b with
    | nil => simp [seqLess_nil_right, Pointwise.nil]
    | cons y ys =>
      simp only [seqLess_nil_left, seqLess_nil_right, List.length_cons]
      constructor
      · intro ⟨h1, _⟩; simp at h1
      · intro hp; cases hp
  | cons x xs ih =>
    cases b with
    | nil =>
      simp only [seqLess_nil_left, seqLess_nil_right, List.length_cons]
      constructor
      · intro ⟨_, h1⟩; simp at h1
      · intro hp; cases hp
    | cons y ys =>
      simp only [seqLess_cons]
      constructor
      · intro ⟨h1, h2⟩
        cases e1 : ord.less x y <;> cases e2 : ord.less y x <;> simp [e1, e2] at h1 h2
        exact .cons ⟨e1, e2⟩ ((ih ys).mp ⟨h1, h2⟩)
      · intro hp
        cases hp with
        | cons hxy hrest =>
          have := (ih ys).mpr hrest
          simp [hxy.1, hxy.2, this.1, this.2]

-- ---------------------------------------------------------------------------------- the interface

theorem OrdD.min_eq (o : OrdD α) (a b : α) : o.min a b = if o.less a b then a else b := by
  cases o with
  | compareFunc r => simp [OrdD.min, OrdD.less]
  | lessFunc r => rfl

theorem OrdD.max_eq (o : OrdD α) (a b : α) : o.max a b = if o.less a b then b else a := by
  cases o with
  | compareFunc r => simp [OrdD.max, OrdD.less]
  | lessFunc r => rfl

theorem OrdD.compare_neg_iff (o : OrdD α) (a b : α) : o.compare a b < 0 ↔ o.less a b = true := by
  cases o with
  | compareFunc r => simp [OrdD.compare, OrdD.less]
  | lessFunc r =>
    simp only [OrdD.compare, OrdD.less]
    cases r a b <;> cases r b a <;> simp

/-- `StrictTotal` on the whole interface follows from: `Less` is a strict weak order, and `Compare`
    is positive exactly when the arguments are in the other order. -/
theorem strictTotal_of {o : OrdD α} (hsw : StrictWeak o.less)
    (hcp : ∀ a b, 0 < o.compare a b ↔ o.less b a = true) : StrictTotal o := by
  have hcn := o.compare_neg_iff
  have heq : ∀ a b, o.eqv a b = true ↔ (o.less a b = false ∧ o.less b a = false) := by
    intro a b
    simp only [OrdD.eqv, beq_iff_eq]
    constructor
    · intro h0
      constructor
      · cases hl : o.less a b with
        | false => rfl
        | true => have := (hcn a b).mpr hl; omega
      · cases hl : o.less b a with
        | false => rfl
        | true => have := (hcp a b).mpr hl; omega
    · intro ⟨h1, h2⟩
      have n1 : ¬ o.compare a b < 0 := fun h => by simp [(hcn a b).mp h] at h1
      have n2 : ¬ 0 < o.compare a b := fun h => by simp [(hcp a b).mp h] at h2
      omega
  refine
    { tri := ?_, trans := hsw.trans, eqv_trans := ?_, compare_neg := hcn, compare_zero := ?_,
      compare_pos := hcp, lessEq_iff := ?_, min_spec := ?_, max_spec := ?_ }
  · intro a b
    unfold ExactlyOne
    cases hab : o.less a b with
    | true =>
      have hba := hsw.asymm a b hab
      have : ¬ o.eqv a b = true := fun he => by simp [((heq a b).mp he).1] at hab
      simp [hba, this]
    | false =>
      cases hba : o.less b a with
      | true =>
        have : ¬ o.eqv a b = true := fun he => by simp [((heq a b).mp he).2] at hba
        simp [this]
      | false => simp [(heq a b).mpr ⟨hab, hba⟩]
  · intro a b c h1 h2
    have x := (heq a b).mp h1
    have y := (heq b c).mp h2
    exact (heq a c).mpr (hsw.incomp_trans a b c x.1 x.2 y.1 y.2)
  · intro a b
    simp [OrdD.eqv]
  · intro a b
    simp only [OrdD.lessEq, decide_eq_true_eq]
    constructor
    · intro hle
      by_cases hlt : o.compare a b < 0
      · exact Or.inl ((hcn a b).mp hlt)
      · right; simp only [OrdD.eqv, beq_iff_eq]; omega
    · intro h
      rcases h with h | h
      · have := (hcn a b).mpr h; omega
      · simp only [OrdD.eqv, beq_iff_eq] at h; omega
  · intro a b
    rw [o.min_eq]
    cases hab : o.less a b with
    | true => simp [hsw.irrefl, hsw.asymm a b hab]
    | false => simp [hsw.irrefl, hab]
  · intro a b
    rw [o.max_eq]
    cases hab : o.less a b with
    | true => simp [hsw.irrefl, hsw.asymm a b hab]
    | false => simp [hsw.irrefl, hab]

theorem StrictTotal.irrefl {o : OrdD α} (h : StrictTotal o) (a : α) : o.less a a = false := by
  have := h.tri a a
  unfold ExactlyOne at this
  cases hl : o.less a a with
  | false => rfl
  | true => simp [hl] at this

theorem StrictTotal.eqv_iff {o : OrdD α} (h : StrictTotal o) (a b : α) :
    o.eqv a b = true ↔ (o.less a b = false ∧ o.less b a = false) := by
  have := h.tri a b
  unfold ExactlyOne at this
  cases h1 : o.less a b <;> cases h2 : o.less b a <;> cases h3 : o.eqv a b <;> simp [h1, h2, h3] at this ⊢

theorem StrictTotal.strictWeak {o : OrdD α} (h : StrictTotal o) : StrictWeak o.less where
  irrefl := h.irrefl
  trans := h.trans
  incomp_trans a b c h1 h2 h3 h4 :=
    (h.eqv_iff a c).mp (h.eqv_trans a b c ((h.eqv_iff a b).mpr ⟨h1, h2⟩) ((h.eqv_iff b c).mpr ⟨h3, h4⟩))

theorem StrictTotal.eqv_refl {o : OrdD α} (h : StrictTotal o) (a : α) : o.eqv a a = true :=
  (h.eqv_iff a a).mpr ⟨h.irrefl a, h.irrefl a⟩

theorem StrictTotal.eqv_symm {o : OrdD α} (h : StrictTotal o) (a b : α) (hab : o.eqv a b = true) :
    o.eqv b a = true :=
  (h.eqv_iff b a).mpr ((h.eqv_iff a b).mp hab).symm

/-- `ord.New(eqv, less)` when `eqv` is the incomparability of the strict weak order `less` -/
theorem new_less {eqv : EqD α} {less : α → α → Bool}
    (heq : ∀ a b, eqv.eqv a b = true → less a b = false) (a b : α) :
    (OrdD.new eqv less).less a b = less a b := by
  simp only [OrdD.new, OrdD.less, OrdD.compare]
  by_cases he : eqv.eqv a b = true
  · simp [he, heq a b he]
  · simp only [he, ↓reduceIte]
    cases less a b <;> cases less b a <;> simp

theorem new_strictTotal {eqv : EqD α} {less : α → α → Bool} (hsw : StrictWeak less)
    (heq : ∀ a b, eqv.eqv a b = true ↔ (less a b = false ∧ less b a = false)) :
    StrictTotal (OrdD.new eqv less) := by
  have hl : (OrdD.new eqv less).less = less := by
    funext a b
    exact new_less (fun a b he => ((heq a b).mp he).1) a b
  apply strictTotal_of
  · rw [hl]; exact hsw
  · intro a b
    rw [hl]
    simp only [OrdD.new, OrdD.compare]
    by_cases he : eqv.eqv a b = true
    · simp [he, ((heq a b).mp he).2]
    · simp only [he, ↓reduceIte]
      cases h1 : less a b <;> cases h2 : less b a <;> simp
      have := hsw.asymm a b h1
      simp [h2] at this

theorem new_eqv {eqv : EqD α} {less : α → α → Bool} (hsw : StrictWeak less)
    (heq : ∀ a b, eqv.eqv a b = true ↔ (less a b = false ∧ less b a = false)) (a b : α) :
    (OrdD.new eqv less).eqv a b = eqv.eqv a b := by
  simp only [OrdD.new, OrdD.eqv, OrdD.compare]
  by_cases he : eqv.eqv a b = true
  · simp [he]
  · simp only [he, ↓reduceIte]
    cases h1 : less a b <;> cases h2 : less b a <;> simp
    exact he ((heq a b).mpr ⟨h1, h2⟩)

theorem lessFunc_strictTotal {less : α → α → Bool} (hsw : StrictWeak less) : StrictTotal (OrdD.lessFunc less) := by
  apply strictTotal_of
  · exact hsw
  · intro a b
    simp only [OrdD.compare, OrdD.less]
    cases h1 : less a b <;> cases h2 : less b a <;> simp
    have := hsw.asymm a b h1
    simp [h2] at this

end FpVerif.TC
