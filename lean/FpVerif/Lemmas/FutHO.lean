import FpVerif.Spec.C06Live
/-!
# Futures of futures (`Flatten`, `LiftM*`) — typed syntax, Try-level denotation (helper layer for `Spec/C06HO.lean`)

The executable model (`Model/Future.lean`) carries a future handle as a *value* (`handle q`): `Flatten`'s
continuation is `v ↦ ref (unhandle v)`, and `Successful(h)` is `successfulOf e`.  The first-order theorems
(`Spec/C06Sound.lean` …) exclude both.  Here:

* `Ty`      — `val` (a future of a plain value) / `fut τ` (a future whose success value is a future of type `τ`);
* `TExpr τ` — the construction programs of type `τ`: every `FExpr` primitive, `successfulOf`, and `flatten` as a
              primitive of the *typed* syntax (its continuation is the only one that may look at a handle);
* `erase`   — the `FExpr` the program actually is (what `build` runs): `erase (flatten e) = Fut.flatten (erase e)`;
* `Sem τ`   — what a completed future of type `τ` holds, Try-level: a `Val`, or the three-valued status of the
              inner future (`Option (Try (Sem τ))`) — no handles;
* `den ρ`   — the denotation: `flatten` is the monadic join, `successfulOf e` is `success (den e)`;
* `absS σ τ p` — the `Sem`-level reading of the status of promise `p` (follows handles `τ`-deep).
-/
namespace FpVerif.Spec.C06.HO
open FpVerif FpVerif.Fut FpVerif.Spec.C06

inductive Ty where
  | val
  | fut (t : Ty)
  deriving DecidableEq, Repr

/-- Try-level content of a successfully completed future of type `τ` -/
@[reducible] def Sem : Ty → Type
  | .val => Val
  | .fut t => Option (Try (Sem t))

/-- three-valued status of a future of type `τ` -/
abbrev St (τ : Ty) : Type := Option (Try (Sem τ))

/-- typed construction programs -/
inductive TExpr : Ty → Type where
  | ref (τ : Ty) (p : Nat) : TExpr τ
  | successful (v : Val) : TExpr .val
  | failed (τ : Ty) (e : Err) : TExpr τ
  | successfulOf {τ : Ty} (e : TExpr τ) : TExpr (.fut τ)
  | logged {τ : Ty} (evs : List Event) (e : TExpr τ) : TExpr τ
  | flatMap {τ : Ty} (e : TExpr .val) (k : Val → TExpr τ) : TExpr τ
  | flatten {τ : Ty} (e : TExpr (.fut τ)) : TExpr τ
  | transform (e : TExpr .val) (f : Try Val → W (Try Val)) : TExpr .val
  | transformWith {τ : Ty} (e : TExpr .val) (k : Try Val → TExpr τ) : TExpr τ
  | recoverWith {τ : Ty} (e : TExpr τ) (d : Err → Bool) (k : Err → TExpr τ) : TExpr τ
  | orFuture {τ : Ty} (e alt : TExpr τ) : TExpr τ
  | apply (f : Unit → W (Try Val)) : TExpr .val

/-- the untyped program that is actually run -/
def erase : {τ : Ty} → TExpr τ → FExpr
  | _, .ref _ p => .ref p
  | _, .successful v => .successful v
  | _, .failed _ e => .failed e
  | _, .successfulOf e => .successfulOf (erase e)
  | _, .logged evs e => .logged evs (erase e)
  | _, .flatMap e k => .flatMap (erase e) (fun v => erase (k v))
  | _, .flatten e => Fut.flatten (erase e)
  | _, .transform e f => .transform (erase e) f
  | _, .transformWith e k => .transformWith (erase e) (fun t => erase (k t))
  | _, .recoverWith e d k => .recoverWith (erase e) d (fun x => erase (k x))
  | _, .orFuture e alt => .orFuture (erase e) (erase alt)
  | _, .apply f => .apply f

-- generic three-valued binds ----------------------------------------------------------------------------------

def bindOkS {α β : Type} (o : Option (Try α)) (f : α → Option (Try β)) : Option (Try β) :=
  match o with
  | some (.success v) => f v
  | some (.failure err) => some (.failure err)
  | none => none

def bindTryS {α β : Type} (o : Option (Try α)) (f : Try α → Option (Try β)) : Option (Try β) :=
  match o with
  | some t => f t
  | none => none

/-- the monadic join of the three-valued Try: what `Flatten` means -/
def joinS {τ : Ty} (o : St (.fut τ)) : St τ :=
  bindOkS o (fun inner => inner)

theorem bindOkS_eq_bindOk (o : Option (Try Val)) (f : Val → Option (Try Val)) : bindOkS o f = bindOk o f := by
  cases o with
  | none => rfl
  | some t => cases t <;> rfl

theorem bindTryS_eq_bindTry (o : Option (Try Val)) (f : Try Val → Option (Try Val)) : bindTryS o f = bindTry o f := by
  cases o <;> rfl

theorem bindOkS_some {α β : Type} {o : Option (Try α)} {f : α → Option (Try β)} {r : Try β}
    (h : bindOkS o f = some r) :
    (∃ v, o = some (.success v) ∧ f v = some r) ∨ (∃ e, o = some (.failure e) ∧ r = .failure e) := by
  unfold bindOkS at h
  split at h
  · exact .inl ⟨_, rfl, h⟩
  · simp at h; exact .inr ⟨_, rfl, h.symm⟩
  · simp at h

theorem bindTryS_some {α β : Type} {o : Option (Try α)} {f : Try α → Option (Try β)} {r : Try β}
    (h : bindTryS o f = some r) : ∃ t, o = some t ∧ f t = some r := by
  unfold bindTryS at h
  split at h
  · exact ⟨_, rfl, h⟩
  · simp at h

/-- a success stays what it is, a failure is handed to `F` (`RecoverWith`, `OrFuture`) -/
def recS {α : Type} (F : Err → Option (Try α)) : Try α → Option (Try α)
  | .success v => some (.success v)
  | .failure err => F err

/-- environment: the `Sem`-level status of every handle, at every type it may be used at -/
abbrev Env : Type := (τ : Ty) → Nat → St τ

/-- **The denotation** of a typed construction program, over the statuses `ρ` of the handles it refers to. -/
def den (ρ : Env) : {τ : Ty} → TExpr τ → St τ
  | _, .ref τ p => ρ τ p
  | _, .successful v => some (.success v)
  | _, .failed _ e => some (.failure e)
  | _, .successfulOf e => some (.success (den ρ e))
  | _, .logged _ e => den ρ e
  | _, .flatMap e k => bindOkS (den ρ e) (fun v => den ρ (k v))
  | _, .flatten e => joinS (den ρ e)
  | _, .transform e f => (den ρ e).map (fun t => (f t).1)
  | _, .transformWith e k => bindTryS (den ρ e) (fun t => den ρ (k t))
  | _, .recoverWith e d k =>
    bindTryS (den ρ e) (recS (fun err => if d err then den ρ (k err) else some (.failure err)))
  | _, .orFuture e alt => bindTryS (den ρ e) (recS (fun _ => den ρ alt))
  | _, .apply f => some (f ()).1

-- reading the handle-level statuses at the Try level --------------------------------------------------------------

/-- the `Sem`-level reading of a handle-level result of type `τ` -/
def absT (σ : Nat → Option (Try Val)) : (τ : Ty) → Try Val → Try (Sem τ)
  | .val, t => t
  | .fut _, .failure e => .failure e
  | .fut τ, .success v => .success ((σ (unhandle v)).map (absT σ τ))

/-- the `Sem`-level status of promise `p` read at type `τ` -/
def absS (σ : Nat → Option (Try Val)) (τ : Ty) (p : Nat) : St τ := (σ p).map (absT σ τ)

/-- the environment induced by the statuses of a network -/
def absE (σ : Nat → Option (Try Val)) : Env := fun τ p => absS σ τ p

theorem unhandle_handle (q : Nat) : unhandle (handle q) = q := by
  simp [unhandle, handle]

theorem absT_failure (σ : Nat → Option (Try Val)) (τ : Ty) (e : Err) : absT σ τ (.failure e) = .failure e := by
  cases τ <;> rfl

theorem absT_val (σ : Nat → Option (Try Val)) (t : Try Val) : absT σ .val t = t := rfl

theorem absT_handle (σ : Nat → Option (Try Val)) (τ : Ty) (q : Nat) :
    absT σ (.fut τ) (.success (handle q)) = .success (absS σ τ q) := by
  simp [absT, absS, unhandle_handle]

theorem absT_success (σ : Nat → Option (Try Val)) (τ : Ty) (v : Val) :
    ∃ x, absT σ τ (.success v) = .success x := by
  cases τ with
  | val => exact ⟨v, rfl⟩
  | fut τ => exact ⟨_, rfl⟩

theorem absS_val (σ : Nat → Option (Try Val)) (p : Nat) : absS σ .val p = σ p := by
  unfold absS
  cases σ p <;> rfl

theorem absS_none {σ : Nat → Option (Try Val)} {p : Nat} (τ : Ty) (h : σ p = none) : absS σ τ p = none := by
  simp [absS, h]

theorem absS_some {σ : Nat → Option (Try Val)} {p : Nat} {t : Try Val} (τ : Ty) (h : σ p = some t) :
    absS σ τ p = some (absT σ τ t) := by
  simp [absS, h]

theorem absS_isSome {σ : Nat → Option (Try Val)} {p : Nat} {τ : Ty} {x : Try (Sem τ)} (h : absS σ τ p = some x) :
    ∃ t, σ p = some t ∧ x = absT σ τ t := by
  unfold absS at h
  cases hp : σ p with
  | none => simp [hp] at h
  | some t => simp [hp] at h; exact ⟨t, rfl, h.symm⟩

/-- reading a future of futures: the outer future succeeded with the handle `unhandle v` -/
theorem absS_fut_success {σ : Nat → Option (Try Val)} {p : Nat} {v : Val} (τ : Ty) (h : σ p = some (.success v)) :
    absS σ (.fut τ) p = some (.success (absS σ τ (unhandle v))) := by
  simp [absS, h, absT]

end FpVerif.Spec.C06.HO
