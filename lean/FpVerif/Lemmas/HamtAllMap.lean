import FpVerif.Lemmas.HamtWrap
/-!
`fp.Map` over EVERY base (`Base == nil` of the zero value, `*hamt`, the `UnsafeGoMap` fallback):
one invariant (`FMap.Inv`), one abstract view (`FMap.entries`) and one specification per wrapper
operation, for `Spec/C03All.lean`.

The Go-map fallback compares keys with Go's `==` (`[BEq K]` of the model), not with the `Hashable`.
`Agree h` ("`==` is `Eqv`") is exactly what the refinement needs there; it is part of `FMap.Inv` for
the two bases that can reach the fallback (`none`, `.goMap`) and is NOT needed for a hamt base.
-/
set_option linter.unusedSimpArgs false
set_option linter.unusedVariables false
namespace FpVerif.Hamt
variable {K V : Type} {h : Hasher K}

-- association lists: sizes are determined by the lookups ---------------------------------------------

/-- Two association lists with pairwise non-`Eqv` keys that define the same key set have the same
    length ("Size = number of distinct keys" needs no separate bookkeeping). -/
theorem length_eq_of_isSome_eq (hl : LawfulHash h) {W : Type} : ∀ {l : List (K × V)} {r : List (K × W)},
    DistinctKeys h l → DistinctKeys h r →
    (∀ k, (lookup h k l).isSome = (lookup h k r).isSome) → l.length = r.length := by
  intro l
  induction l with
  | nil =>
    intro r _ _ hlook
    cases r with
    | nil => rfl
    | cons e r =>
      have := hlook e.1
      rw [lookup_cons, hl.refl] at this
      simp [lookup_nil] at this
  | cons a l ih =>
    intro r hdl hdr hlook
    have hdl' := hdl
    unfold DistinctKeys at hdl'
    rw [List.pairwise_cons] at hdl'
    have hlen := length_filter_ne hl hdr a.1
    have hsome : (lookup h a.1 r).isSome = true := by
      rw [← hlook a.1, lookup_cons, hl.refl]; rfl
    rw [hsome] at hlen
    simp only [if_true] at hlen
    have hrec : l.length = (r.filter (fun e => !h.eqv e.1 a.1)).length := by
      apply ih hdl'.2 (distinct_filter hdr _)
      intro k
      rw [lookup_filter_ne hl]
      cases hak : h.eqv a.1 k with
      | true =>
        have : lookup h k l = none := by
          apply lookup_eq_none
          intro b hb
          rw [← hl.eqv_congr_right hak, hl.eqv_comm]
          exact hdl'.1 b hb
        simp [this]
      | false =>
        have := hlook k
        rw [lookup_cons, hak] at this
        simpa using this
    simp only [List.length_cons]
    omega

theorem length_eq_of_lookup_eq (hl : LawfulHash h) {l r : List (K × V)}
    (hdl : DistinctKeys h l) (hdr : DistinctKeys h r) (hlook : ∀ k, lookup h k l = lookup h k r) :
    l.length = r.length :=
  length_eq_of_isSome_eq hl hdl hdr (fun k => by rw [hlook k])

/-- with `Eqv` = equality, same lookups means same entries up to order -/
theorem perm_of_lookup_eq (hl : LawfulHash h) (heq : ∀ a b, h.eqv a b = true ↔ a = b) {l r : List (K × V)}
    (hd1 : DistinctKeys h l) (hd2 : DistinctKeys h r) (hlook : ∀ k, lookup h k l = lookup h k r) :
    l.Perm r := by
  have nodup_of : ∀ {x : List (K × V)}, DistinctKeys h x → x.Nodup := by
    intro x hx
    apply List.Pairwise.imp _ hx
    intro a b hab hab'
    subst hab'
    rw [hl.refl] at hab; cases hab
  have mem_iff : ∀ {x : List (K × V)}, DistinctKeys h x → ∀ e, e ∈ x ↔ lookup h e.1 x = some e.2 := by
    intro x hx e
    constructor
    · intro he; exact lookup_of_mem hl hx he (hl.refl _)
    · intro hlk
      unfold lookup at hlk
      simp only [Option.map_eq_some_iff] at hlk
      obtain ⟨e', he', hv⟩ := hlk
      have hk : e'.1 = e.1 := (heq _ _).mp (by simpa using List.find?_some he')
      have : e' = e := Prod.ext hk hv
      rw [← this]; exact List.mem_of_find?_eq_some he'
  rw [List.perm_ext_iff_of_nodup (nodup_of hd1) (nodup_of hd2)]
  intro e
  rw [mem_iff hd1, mem_iff hd2, hlook]

-- the reference operations on association lists -------------------------------------------------------

/-- reference `Updated`: drop every entry with an `Eqv` key, append the new one -/
def upd (h : Hasher K) (r : List (K × V)) (k : K) (v : V) : List (K × V) :=
  r.filter (fun e => !h.eqv e.1 k) ++ [(k, v)]

/-- reference `Removed(k...)` -/
def remAll (h : Hasher K) (r : List (K × V)) (ks : List K) : List (K × V) :=
  r.filter (fun e => !ks.any (fun k => h.eqv k e.1))

theorem lookup_upd (hl : LawfulHash h) (r : List (K × V)) (k : K) (v : V) (k' : K) :
    lookup h k' (upd h r k v) = if h.eqv k k' then some v else lookup h k' r := by
  have hno : ∀ e ∈ r.filter (fun e => !h.eqv e.1 k), h.eqv e.1 k = false := by
    intro e he; simpa using (List.mem_filter.mp he).2
  unfold upd
  rw [lookup_insert_new hl hno (Or.inl rfl), lookup_filter_ne hl]
  cases h.eqv k k' <;> simp

theorem distinct_upd (hl : LawfulHash h) {r : List (K × V)} (hd : DistinctKeys h r) (k : K) (v : V) :
    DistinctKeys h (upd h r k v) := by
  have hno : ∀ e ∈ r.filter (fun e => !h.eqv e.1 k), h.eqv e.1 k = false := by
    intro e he; simpa using (List.mem_filter.mp he).2
  exact (distinct_insert_new hl (distinct_filter hd _) hno).1

theorem lookup_remAll (hl : LawfulHash h) (r : List (K × V)) (ks : List K) (k' : K) :
    lookup h k' (remAll h r ks) = lookupRemoved h ks k' (lookup h k' r) := by
  unfold remAll lookupRemoved
  induction r with
  | nil => simp [lookup_nil]
  | cons a r ih =>
    rw [List.filter_cons, lookup_cons]
    cases hak : h.eqv a.1 k' with
    | true =>
      have hany : (ks.any fun k => h.eqv k a.1) = (ks.any fun k => h.eqv k k') := by
        congr 1; funext k; exact hl.eqv_congr_right hak k
      cases hk : (ks.any fun k => h.eqv k k') with
      | true => rw [hany, hk]; simp only [Bool.not_true, Bool.false_eq_true, if_false, if_true]; rw [ih, hk]; simp
      | false => rw [hany, hk]; simp only [Bool.not_false, if_true, Bool.false_eq_true, if_false]; rw [lookup_cons, hak]; simp
    | false =>
      cases hk : (ks.any fun k => h.eqv k a.1) with
      | true => simp only [Bool.not_true, Bool.false_eq_true, if_false]; rw [ih]
      | false => simp only [Bool.not_false, if_true]; rw [lookup_cons, hak]; simp only [Bool.false_eq_true, if_false]; rw [ih]

theorem distinct_remAll {r : List (K × V)} (hd : DistinctKeys h r) (ks : List K) :
    DistinctKeys h (remAll h r ks) := distinct_filter hd _

theorem lookup_foldl_upd (hl : LawfulHash h) (t : List (K × V)) : ∀ (r : List (K × V)) (k' : K),
    lookup h k' (t.foldl (fun r e => upd h r e.1 e.2) r) = concatLookup h t k' (lookup h k' r) := by
  induction t with
  | nil => intro r k'; rfl
  | cons e t ih =>
    intro r k'
    rw [List.foldl_cons, ih, lookup_upd hl]
    rfl

theorem distinct_foldl_upd (hl : LawfulHash h) (t : List (K × V)) : ∀ {r : List (K × V)}, DistinctKeys h r →
    DistinctKeys h (t.foldl (fun r e => upd h r e.1 e.2) r) := by
  induction t with
  | nil => intro r hd; exact hd
  | cons e t ih => intro r hd; exact ih (distinct_upd hl hd _ _)

-- the Go-map fallback ----------------------------------------------------------------------------------

variable [BEq K]

/-- Go's `==` on the dynamic key values IS the `Eqv` of the hasher.  (This presupposes that `==` is
    defined: for a non-comparable dynamic key type such as `fp.Seq[int]` the Go-map operations panic
    with "hash of unhashable type".) -/
def Agree (h : Hasher K) : Prop := ∀ a b : K, (a == b) = h.eqv a b

theorem GoMap.get_eq (hag : Agree h) (g : GoMap K V) (k : K) : GoMap.get g k = lookup h k g := by
  unfold GoMap.get lookup
  congr 2
  funext e
  exact hag e.1 k

omit [BEq K] in
theorem lookup_map_replace (hl : LawfulHash h) (g : List (K × V)) (k : K) (v : V) (k' : K) :
    lookup h k' (g.map (fun e => if h.eqv e.1 k then (e.1, v) else e)) =
      (lookup h k' g).map (fun x => if h.eqv k k' then v else x) := by
  induction g with
  | nil => rfl
  | cons a g ih =>
    rw [List.map_cons, lookup_cons, lookup_cons]
    have h1 : (if h.eqv a.1 k = true then (a.1, v) else a).1 = a.1 := by
      cases h.eqv a.1 k <;> rfl
    rw [h1]
    cases hak : h.eqv a.1 k' with
    | false => simpa using ih
    | true =>
      have : h.eqv a.1 k = h.eqv k k' := by
        rw [hl.eqv_congr_left hak, hl.eqv_comm]
      rw [this]
      cases h.eqv k k' <;> simp

theorem GoMap.updated_spec (hl : LawfulHash h) (hag : Agree h) {g : GoMap K V} (hd : DistinctKeys h g)
    (k : K) (v : V) :
    DistinctKeys h (GoMap.updated g k v) ∧
      ∀ k', lookup h k' (GoMap.updated g k v) = if h.eqv k k' then some v else lookup h k' g := by
  unfold GoMap.updated
  have hfun : (fun (e : K × V) => e.1 == k) = (fun e => h.eqv e.1 k) := by funext e; exact hag e.1 k
  have hfun2 : (fun (e : K × V) => if (e.1 == k) = true then (e.1, v) else e) =
      (fun e => if h.eqv e.1 k = true then (e.1, v) else e) := by funext e; rw [hag e.1 k]
  rw [hfun, hfun2]
  cases hany : g.any (fun e => h.eqv e.1 k) with
  | false =>
    have hno : ∀ e ∈ g, h.eqv e.1 k = false := by
      intro e he
      cases hek : h.eqv e.1 k with
      | false => rfl
      | true =>
        have : g.any (fun e => h.eqv e.1 k) = true := List.any_eq_true.mpr ⟨e, he, hek⟩
        rw [hany] at this; cases this
    simp only [Bool.false_eq_true, if_false]
    exact ⟨(distinct_insert_new hl hd hno).1, fun k' => lookup_insert_new hl hno (Or.inl rfl) k'⟩
  | true =>
    simp only [if_true]
    obtain ⟨e, he, hek⟩ := List.any_eq_true.mp hany
    constructor
    · unfold DistinctKeys
      rw [List.pairwise_map]
      apply List.Pairwise.imp _ hd
      intro a b hab
      have h1 : (if h.eqv a.1 k = true then (a.1, v) else a).1 = a.1 := by cases h.eqv a.1 k <;> rfl
      have h2 : (if h.eqv b.1 k = true then (b.1, v) else b).1 = b.1 := by cases h.eqv b.1 k <;> rfl
      rw [h1, h2]; exact hab
    · intro k'
      rw [lookup_map_replace hl]
      cases hkk : h.eqv k k' with
      | false => simp
      | true =>
        have hs : (lookup h k' g).isSome = true :=
          lookup_isSome_iff.mpr ⟨e, he, hl.trans _ _ _ hek hkk⟩
        cases hlk : lookup h k' g with
        | none => rw [hlk] at hs; cases hs
        | some x => simp

theorem GoMap.removed_spec (hl : LawfulHash h) (hag : Agree h) (ks : List K) : ∀ {g : GoMap K V},
    DistinctKeys h g →
    DistinctKeys h (GoMap.removed g ks) ∧
      ∀ k', lookup h k' (GoMap.removed g ks) = lookupRemoved h ks k' (lookup h k' g) := by
  induction ks with
  | nil => intro g hd; exact ⟨hd, fun k' => by simp [GoMap.removed, lookupRemoved]⟩
  | cons k ks ih =>
    intro g hd
    have hfun : (fun (e : K × V) => !(e.1 == k)) = (fun e => !h.eqv e.1 k) := by
      funext e; rw [hag e.1 k]
    have hstep : GoMap.removed g (k :: ks) = GoMap.removed (g.filter (fun e => !h.eqv e.1 k)) ks := by
      unfold GoMap.removed
      rw [List.foldl_cons, hfun]
    rw [hstep]
    obtain ⟨h1, h2⟩ := ih (distinct_filter hd (fun e => !h.eqv e.1 k))
    refine ⟨h1, fun k' => ?_⟩
    rw [h2, lookup_filter_ne hl]
    unfold lookupRemoved
    cases hkk : h.eqv k k' <;> simp [hkk]

-- fp.Map over every base --------------------------------------------------------------------------------

/-- what the map contains, as an association list (`Iterator()` order; unspecified for a Go map) -/
def FMap.entries (m : FMap K V) : List (K × V) :=
  match m.base with
  | none => []
  | some (.hamt m) => m.toList
  | some (.goMap g) => g

/-- invariant of an `fp.Map` value: the trie invariant for a hamt base; for the Go-map fallback
    (and for the zero value, whose `Updated` creates one) "`==` is `Eqv`", plus what a Go map
    guarantees by construction (keys pairwise not `==`). -/
def FMap.Inv (h : Hasher K) (m : FMap K V) : Prop :=
  match m.base with
  | none => Agree h
  | some (.hamt m) => Hamt.Inv h m
  | some (.goMap g) => Agree h ∧ DistinctKeys h g

theorem FMap.Inv.distinct (hl : LawfulHash h) {m : FMap K V} (hi : FMap.Inv h m) :
    DistinctKeys h m.entries := by
  obtain ⟨b⟩ := m
  cases b with
  | none => unfold FMap.entries DistinctKeys; simp
  | some b =>
    cases b with
    | hamt m => exact Hamt.Inv.distinct hl hi
    | goMap g => exact hi.2

theorem FMap.get_spec (hl : LawfulHash h) {m : FMap K V} (hi : FMap.Inv h m) (k : K) :
    m.get h k = .ok (lookup h k m.entries) := by
  obtain ⟨b⟩ := m
  cases b with
  | none => rfl
  | some b =>
    cases b with
    | hamt m => exact Hamt.get_spec hl hi k
    | goMap g =>
      show Except.ok (GoMap.get g k) = _
      rw [GoMap.get_eq hi.1]; rfl

theorem FMap.size_spec {m : FMap K V} (hi : FMap.Inv h m) : m.size = m.entries.length := by
  obtain ⟨b⟩ := m
  cases b with
  | none => rfl
  | some b =>
    cases b with
    | hamt m => exact Hamt.Inv.size_eq hi
    | goMap g => rfl

theorem FMap.iterList_spec {m : FMap K V} (hi : FMap.Inv h m) : m.iterList = .ok m.entries := by
  obtain ⟨b⟩ := m
  cases b with
  | none => rfl
  | some b =>
    cases b with
    | hamt m => exact Hamt.iterList_spec hi
    | goMap g => rfl

theorem FMap.updated_spec (hl : LawfulHash h) {m : FMap K V} (hi : FMap.Inv h m) (k : K) (v : V) :
    ∃ m', m.updated h k v = .ok m' ∧ FMap.Inv h m' ∧
      ∀ k', lookup h k' m'.entries = if h.eqv k k' then some v else lookup h k' m.entries := by
  obtain ⟨b⟩ := m
  cases b with
  | none =>
    refine ⟨⟨some (.goMap [(k, v)])⟩, rfl, ⟨hi, by unfold DistinctKeys; simp⟩, fun k' => ?_⟩
    show lookup h k' [(k, v)] = _
    rw [lookup_cons]; rfl
  | some b =>
    cases b with
    | hamt m =>
      obtain ⟨m', h1, h2, h3⟩ := FMap.updated_hmap hl hi k v
      exact ⟨hmap m', h1, h2, h3⟩
    | goMap g =>
      obtain ⟨h1, h2⟩ := GoMap.updated_spec hl hi.1 hi.2 k v
      exact ⟨⟨some (.goMap (GoMap.updated g k v))⟩, rfl, ⟨hi.1, h1⟩, h2⟩

theorem FMap.removed_spec (hl : LawfulHash h) {m : FMap K V} (hi : FMap.Inv h m) (ks : List K) :
    ∃ m', m.removed h ks = .ok m' ∧ FMap.Inv h m' ∧
      ∀ k', lookup h k' m'.entries = lookupRemoved h ks k' (lookup h k' m.entries) := by
  obtain ⟨b⟩ := m
  cases b with
  | none =>
    refine ⟨⟨none⟩, rfl, hi, fun k' => ?_⟩
    show lookup h k' [] = lookupRemoved h ks k' (lookup h k' [])
    unfold lookupRemoved; simp [lookup_nil]
  | some b =>
    cases b with
    | hamt m =>
      obtain ⟨m', h1, h2, h3⟩ := FMap.removed_hmap hl hi ks
      exact ⟨hmap m', h1, h2, h3⟩
    | goMap g =>
      obtain ⟨h1, h2⟩ := GoMap.removed_spec hl hi.1 ks hi.2
      exact ⟨⟨some (.goMap (GoMap.removed g ks))⟩, rfl, ⟨hi.1, h1⟩, h2⟩

theorem FMap.updatedWith_spec (hl : LawfulHash h) {m : FMap K V} (hi : FMap.Inv h m) (k : K)
    (f : Option V → Option V) :
    ∃ m', m.updatedWith h k f = .ok m' ∧ FMap.Inv h m' ∧
      ∀ k', lookup h k' m'.entries =
        if h.eqv k k' then f (lookup h k m.entries) else lookup h k' m.entries := by
  unfold FMap.updatedWith
  rw [FMap.get_spec hl hi]
  simp only [bind, Except.bind]
  cases hf : f (lookup h k m.entries) with
  | some x => exact FMap.updated_spec hl hi k x
  | none =>
    cases hlk : lookup h k m.entries with
    | none =>
      refine ⟨m, by simp [pure, Except.pure], hi, ?_⟩
      intro k'; exact lookup_absent hl hlk k'
    | some v0 =>
      obtain ⟨m', h1, h2, h3⟩ := FMap.removed_spec hl hi [k]
      refine ⟨m', by simpa using h1, h2, ?_⟩
      intro k'; rw [h3]; simp [lookupRemoved]

theorem FMap.concat_spec (hl : LawfulHash h) (l : List (K × V)) : ∀ {m : FMap K V}, FMap.Inv h m →
    ∃ m', m.concat h l = .ok m' ∧ FMap.Inv h m' ∧
      ∀ k', lookup h k' m'.entries = concatLookup h l k' (lookup h k' m.entries) := by
  induction l with
  | nil => intro m hi; exact ⟨m, rfl, hi, fun _ => rfl⟩
  | cons e l ih =>
    intro m hi
    obtain ⟨m1, h1, hi1, hl1⟩ := FMap.updated_spec hl hi e.1 e.2
    obtain ⟨m2, h2, hi2, hl2⟩ := ih hi1
    refine ⟨m2, ?_, hi2, ?_⟩
    · unfold FMap.concat at h2 ⊢
      rw [List.foldlM_cons, h1]; exact h2
    · intro k'; rw [hl2, hl1]; rfl

end FpVerif.Hamt
