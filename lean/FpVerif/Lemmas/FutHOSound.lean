import FpVerif.Lemmas.FutHOOrd
/-!
# The invariant of the future network for futures of futures (helper lemmas for `Spec/C06HO.lean`)

Ghost state: a *typed* spec `T p : Σ τ, TExpr τ` for every promise (what it was created for, children replaced by
the handles they were built as) — the typed counterpart of `Net.spec`.

`Good d T σ p`: the `Sem`-level reading of promise `p`'s status is below (`d = le`: soundness) / above (`d = ge`:
completeness) the denotation of its spec, both over the statuses `σ`.  A future of futures completes *before* its
inner future does, so in a non-quiescent state only `le` holds, and `le`-goodness of a completed promise is not
stable by itself (both sides still grow).  What IS stable, and is established once and for all when a promise is
completed, is `Just`: in every later state the promise is good as soon as all YOUNGER promises are — the promises a
user function's future allocates are younger than the promise waiting for it.  Goodness of everything then follows
in every single state by induction on the creation order, downwards (`all_good_le`).
-/
namespace FpVerif.Spec.C06.HO
open FpVerif FpVerif.Fut FpVerif.Spec.C06

abbrev TSpec : Type := Nat → (Σ τ : Ty, TExpr τ)

def upd (T : TSpec) (i : Nat) (x : Σ τ : Ty, TExpr τ) : TSpec := fun q => if q = i then x else T q

theorem upd_self (T : TSpec) (i : Nat) (x : Σ τ : Ty, TExpr τ) : upd T i x i = x := by simp [upd]

theorem upd_ne (T : TSpec) {i q : Nat} (x : Σ τ : Ty, TExpr τ) (h : q ≠ i) : upd T i x q = T q := by simp [upd, h]

def Good (d : Dir) (T : TSpec) (σ : Nat → Option (Try Val)) (p : Nat) : Prop :=
  rel d (T p).1 (absS σ (T p).1 p) (den (absE σ) (T p).2)

theorem good_iff {d : Dir} {T : TSpec} {σ : Nat → Option (Try Val)} {p : Nat} {τ : Ty} {X : TExpr τ}
    (h : T p = ⟨τ, X⟩) : Good d T σ p ↔ rel d τ (absS σ τ p) (den (absE σ) X) := by
  unfold Good; rw [h]

theorem good_congr {d : Dir} {T T' : TSpec} {σ : Nat → Option (Try Val)} {p : Nat} (h : T' p = T p) :
    Good d T' σ p ↔ Good d T σ p := by
  unfold Good; rw [h]

/-- `p` is good, in both directions, in every later state in which all younger promises (allocated so far) are -/
def Just (T : TSpec) (n : Net) (p : Nat) : Prop :=
  ∀ d σ', Ext n.status σ' → (∀ p', p < p' → p' < n.next → Good d T σ' p') → Good d T σ' p

/-- `q` is the handle that building `e` yielded, as recorded in the typed ghost specs; every promise the construction
    allocated has an index in `[lo, n.next)` -/
def RootOf (T : TSpec) (n : Net) (lo : Nat) : {τ : Ty} → Nat → TExpr τ → Prop
  | _, q, .ref _ p => q = p
  | _, q, .successful v => lo ≤ q ∧ q < n.next ∧ T q = ⟨.val, .successful v⟩
  | τ, q, .failed _ e => lo ≤ q ∧ q < n.next ∧ T q = ⟨τ, .failed τ e⟩
  | _, q, .successfulOf (τ := τ) e =>
    ∃ p, RootOf T n lo p e ∧ lo ≤ q ∧ q < n.next ∧ T q = ⟨.fut τ, .successfulOf (.ref τ p)⟩
  | _, q, .logged _ e => RootOf T n lo q e
  | τ, q, .flatMap e k => ∃ p, RootOf T n lo p e ∧ lo ≤ q ∧ q < n.next ∧ T q = ⟨τ, .flatMap (.ref .val p) k⟩
  | τ, q, .flatten e => ∃ p, RootOf T n lo p e ∧ lo ≤ q ∧ q < n.next ∧ T q = ⟨τ, .flatten (.ref (.fut τ) p)⟩
  | _, q, .transform e f => ∃ p, RootOf T n lo p e ∧ lo ≤ q ∧ q < n.next ∧ T q = ⟨.val, .transform (.ref .val p) f⟩
  | τ, q, .transformWith e k =>
    ∃ p, RootOf T n lo p e ∧ lo ≤ q ∧ q < n.next ∧ T q = ⟨τ, .transformWith (.ref .val p) k⟩
  | τ, q, .recoverWith e d k =>
    ∃ p, RootOf T n lo p e ∧ lo ≤ q ∧ q < n.next ∧ T q = ⟨τ, .recoverWith (.ref τ p) d k⟩
  | τ, q, .orFuture e alt =>
    ∃ p a, RootOf T n lo p e ∧ RootOf T n lo a alt ∧ lo ≤ q ∧ q < n.next ∧ T q = ⟨τ, .orFuture (.ref τ p) (.ref τ a)⟩
  | _, q, .apply f => lo ≤ q ∧ q < n.next ∧ T q = ⟨.val, .apply f⟩

/-- The root handle of `e` relates to the denotation of `e` like the promises the construction allocated relate to
    the denotations of their specs — whatever has or has not completed. -/
theorem root_rel (d : Dir) (T : TSpec) (n : Net) (σ' : Nat → Option (Try Val)) (lo : Nat) {τ : Ty} (e : TExpr τ) (q : Nat)
    (hG : ∀ p', lo ≤ p' → p' < n.next → Good d T σ' p')
    (hr : RootOf T n lo q e) : rel d τ (absS σ' τ q) (den (absE σ') e) := by
  induction e generalizing q with
  | ref τ p => simp only [RootOf] at hr; subst hr; exact rel_refl d _ _
  | successful v => exact (good_iff hr.2.2).1 (hG q hr.1 hr.2.1)
  | failed τ x => exact (good_iff hr.2.2).1 (hG q hr.1 hr.2.1)
  | successfulOf e ih =>
    obtain ⟨p, hp, hlo, hlt, hsp⟩ := hr
    have hg := (good_iff hsp).1 (hG q hlo hlt)
    simp only [den] at hg ⊢
    exact rel_trans d hg (rel_successOf d (ih p hp))
  | logged evs e ih => exact ih q hr
  | flatMap e k ihe _ =>
    obtain ⟨p, hp, hlo, hlt, hsp⟩ := hr
    have hg := (good_iff hsp).1 (hG q hlo hlt)
    simp only [den] at hg ⊢
    exact rel_trans d hg (rel_bindOkS d _ (ihe p hp))
  | flatten e ih =>
    obtain ⟨p, hp, hlo, hlt, hsp⟩ := hr
    have hg := (good_iff hsp).1 (hG q hlo hlt)
    simp only [den] at hg ⊢
    exact rel_trans d hg (rel_joinS d (ih p hp))
  | transform e f ih =>
    obtain ⟨p, hp, hlo, hlt, hsp⟩ := hr
    have hg := (good_iff hsp).1 (hG q hlo hlt)
    simp only [den] at hg ⊢
    exact rel_trans d hg (rel_map d _ (ih p hp))
  | transformWith e k ihe _ =>
    obtain ⟨p, hp, hlo, hlt, hsp⟩ := hr
    have hg := (good_iff hsp).1 (hG q hlo hlt)
    simp only [den] at hg ⊢
    exact rel_trans d hg (rel_bindTryS d _ (ihe p hp))
  | recoverWith e dd k ihe _ =>
    obtain ⟨p, hp, hlo, hlt, hsp⟩ := hr
    have hg := (good_iff hsp).1 (hG q hlo hlt)
    simp only [den] at hg ⊢
    exact rel_trans d hg (rel_recS d (ihe p hp) (fun _ => rel_refl d _ _))
  | orFuture e alt ihe iha =>
    obtain ⟨p, a, hp, ha, hlo, hlt, hsp⟩ := hr
    have hg := (good_iff hsp).1 (hG q hlo hlt)
    simp only [den] at hg ⊢
    exact rel_trans d hg (rel_recS d (ihe p hp) (fun _ => iha a ha))
  | apply f => exact (good_iff hr.2.2).1 (hG q hr.1 hr.2.1)

/-- a smaller lower bound is a weaker statement -/
theorem rootOf_lo_mono (T : TSpec) (n : Net) {lo lo' : Nat} (hl : lo' ≤ lo) {τ : Ty} (e : TExpr τ) (q : Nat)
    (hr : RootOf T n lo q e) : RootOf T n lo' q e := by
  induction e generalizing q with
  | ref τ p => exact hr
  | successful v => exact ⟨Nat.le_trans hl hr.1, hr.2⟩
  | failed τ x => exact ⟨Nat.le_trans hl hr.1, hr.2⟩
  | successfulOf e ih =>
    obtain ⟨p, hp, hlo, hrest⟩ := hr
    exact ⟨p, ih p hp, Nat.le_trans hl hlo, hrest⟩
  | logged evs e ih => exact ih q hr
  | flatMap e k ihe _ =>
    obtain ⟨p, hp, hlo, hrest⟩ := hr
    exact ⟨p, ihe p hp, Nat.le_trans hl hlo, hrest⟩
  | flatten e ih =>
    obtain ⟨p, hp, hlo, hrest⟩ := hr
    exact ⟨p, ih p hp, Nat.le_trans hl hlo, hrest⟩
  | transform e f ih =>
    obtain ⟨p, hp, hlo, hrest⟩ := hr
    exact ⟨p, ih p hp, Nat.le_trans hl hlo, hrest⟩
  | transformWith e k ihe _ =>
    obtain ⟨p, hp, hlo, hrest⟩ := hr
    exact ⟨p, ihe p hp, Nat.le_trans hl hlo, hrest⟩
  | recoverWith e d k ihe _ =>
    obtain ⟨p, hp, hlo, hrest⟩ := hr
    exact ⟨p, ihe p hp, Nat.le_trans hl hlo, hrest⟩
  | orFuture e alt ihe iha =>
    obtain ⟨p, a, hp, ha, hlo, hrest⟩ := hr
    exact ⟨p, a, ihe p hp, iha a ha, Nat.le_trans hl hlo, hrest⟩
  | apply f => exact ⟨Nat.le_trans hl hr.1, hr.2⟩

-- the invariant -------------------------------------------------------------------------------------------

/-- `(T', n')` is a later state of `(T, n)` -/
structure Le (T T' : TSpec) (n n' : Net) : Prop where
  next : n.next ≤ n'.next
  spec : ∀ p, p < n.next → T' p = T p
  status : Ext n.status n'.status

theorem Le.refl (T : TSpec) (n : Net) : Le T T n n := ⟨Nat.le_refl _, fun _ _ => rfl, fun _ _ h => h⟩

theorem Le.trans {T1 T2 T3 : TSpec} {a b c : Net} (h1 : Le T1 T2 a b) (h2 : Le T2 T3 b c) : Le T1 T3 a c :=
  ⟨Nat.le_trans h1.next h2.next,
   fun p hp => by rw [h2.spec p (Nat.lt_of_lt_of_le hp h1.next), h1.spec p hp],
   fun p v h => h2.status p v (h1.status p v h)⟩

/-- what a callback registered on (or a task carrying the result of) promise `q` is entitled to do -/
def CbOK (T : TSpec) (n : Net) (q : Nat) : CB → Prop
  | .flatMapA k np => np < n.next ∧
      ((∃ (τ : Ty) (k' : Val → TExpr τ), T np = ⟨τ, .flatMap (.ref .val q) k'⟩ ∧ k = fun v => erase (k' v)) ∨
       (∃ τ : Ty, T np = ⟨τ, .flatten (.ref (.fut τ) q)⟩ ∧ k = fun v => .ref (unhandle v)))
  | .completeWith np => np < n.next ∧
      ∃ (τ : Ty) (sp e : TExpr τ) (lo : Nat), T np = ⟨τ, sp⟩ ∧ np < lo ∧ RootOf T n lo q e ∧
        ∀ σ', Ext n.status σ' → den (absE σ') sp = den (absE σ') e
  | .transformA f np => np < n.next ∧ T np = ⟨.val, .transform (.ref .val q) f⟩
  | .transformWithA k np => np < n.next ∧
      ∃ (τ : Ty) (k' : Try Val → TExpr τ), T np = ⟨τ, .transformWith (.ref .val q) k'⟩ ∧ k = fun t => erase (k' t)
  | .recoverWithA d k np => np < n.next ∧
      ∃ (τ : Ty) (k' : Err → TExpr τ), T np = ⟨τ, .recoverWith (.ref τ q) d k'⟩ ∧ k = fun x => erase (k' x)
  | .orFutureA alt np => np < n.next ∧ ∃ τ : Ty, T np = ⟨τ, .orFuture (.ref τ q) (.ref τ alt)⟩
  | .observe _ => True

def TaskOK (T : TSpec) (n : Net) : Task → Prop
  | .cb c t => ∃ q, n.status q = some t ∧ CbOK T n q c
  | .applyT f np => np < n.next ∧ T np = ⟨.val, .apply f⟩

structure Inv (nsrc : Nat) (T : TSpec) (n : Net) : Prop where
  just : ∀ p v, n.status p = some v → Just T n p
  tasks : ∀ tk ∈ n.pool, TaskOK T n tk
  cbs : ∀ q c, c ∈ n.cbs q → CbOK T n q c
  fresh : ∀ p, n.next ≤ p → n.status p = none
  srcs : nsrc ≤ n.next ∧ ∀ p, p < nsrc → T p = ⟨.val, .ref .val p⟩
  /-- the typed specs are typed readings of the model's own ghost specs -/
  spec : ∀ p, p < n.next → n.spec p = erase (T p).2

theorem Inv.lt {nsrc : Nat} {T : TSpec} {n : Net} (h : Inv nsrc T n) {p : Nat} {v : Try Val}
    (hp : n.status p = some v) : p < n.next := by
  rcases Nat.lt_or_ge p n.next with h1 | h1
  · exact h1
  · rw [h.fresh p h1] at hp; cases hp

theorem rootOf_le {T T' : TSpec} {n n' : Net} (h : Le T T' n n') {lo : Nat} {τ : Ty} (e : TExpr τ) (q : Nat)
    (hr : RootOf T n lo q e) : RootOf T' n' lo q e := by
  induction e generalizing q with
  | ref τ p => exact hr
  | successful v => exact ⟨hr.1, Nat.lt_of_lt_of_le hr.2.1 h.next, by rw [h.spec q hr.2.1]; exact hr.2.2⟩
  | failed τ x => exact ⟨hr.1, Nat.lt_of_lt_of_le hr.2.1 h.next, by rw [h.spec q hr.2.1]; exact hr.2.2⟩
  | successfulOf e ih =>
    obtain ⟨p, hp, hlo, hq, hsp⟩ := hr
    exact ⟨p, ih p hp, hlo, Nat.lt_of_lt_of_le hq h.next, by rw [h.spec q hq]; exact hsp⟩
  | logged evs e ih => exact ih q hr
  | flatMap e k ihe _ =>
    obtain ⟨p, hp, hlo, hq, hsp⟩ := hr
    exact ⟨p, ihe p hp, hlo, Nat.lt_of_lt_of_le hq h.next, by rw [h.spec q hq]; exact hsp⟩
  | flatten e ih =>
    obtain ⟨p, hp, hlo, hq, hsp⟩ := hr
    exact ⟨p, ih p hp, hlo, Nat.lt_of_lt_of_le hq h.next, by rw [h.spec q hq]; exact hsp⟩
  | transform e f ih =>
    obtain ⟨p, hp, hlo, hq, hsp⟩ := hr
    exact ⟨p, ih p hp, hlo, Nat.lt_of_lt_of_le hq h.next, by rw [h.spec q hq]; exact hsp⟩
  | transformWith e k ihe _ =>
    obtain ⟨p, hp, hlo, hq, hsp⟩ := hr
    exact ⟨p, ihe p hp, hlo, Nat.lt_of_lt_of_le hq h.next, by rw [h.spec q hq]; exact hsp⟩
  | recoverWith e d k ihe _ =>
    obtain ⟨p, hp, hlo, hq, hsp⟩ := hr
    exact ⟨p, ihe p hp, hlo, Nat.lt_of_lt_of_le hq h.next, by rw [h.spec q hq]; exact hsp⟩
  | orFuture e alt ihe iha =>
    obtain ⟨p, a, hp, ha, hlo, hq, hsp⟩ := hr
    exact ⟨p, a, ihe p hp, iha a ha, hlo, Nat.lt_of_lt_of_le hq h.next, by rw [h.spec q hq]; exact hsp⟩
  | apply f => exact ⟨hr.1, Nat.lt_of_lt_of_le hr.2.1 h.next, by rw [h.spec q hr.2.1]; exact hr.2.2⟩

theorem just_le {T T' : TSpec} {n n' : Net} (h : Le T T' n n') {p : Nat} (hp : p < n.next) (hj : Just T n p) :
    Just T' n' p := by
  intro d σ' hx hy
  rw [good_congr (h.spec p hp)]
  refine hj d σ' (fun q v hq => hx q v (h.status q v hq)) (fun p' h1 h2 => ?_)
  rw [← good_congr (h.spec p' h2)]
  exact hy p' h1 (Nat.lt_of_lt_of_le h2 h.next)

theorem cbOK_le {T T' : TSpec} {n n' : Net} (h : Le T T' n n') (q : Nat) (c : CB) (hc : CbOK T n q c) :
    CbOK T' n' q c := by
  cases c with
  | flatMapA k np =>
    obtain ⟨h1, h2⟩ := hc
    refine ⟨Nat.lt_of_lt_of_le h1 h.next, ?_⟩
    rw [h.spec np h1]; exact h2
  | completeWith np =>
    obtain ⟨h1, τ, sp, e, lo, hsp, hlo, hr, hj⟩ := hc
    exact ⟨Nat.lt_of_lt_of_le h1 h.next, τ, sp, e, lo, by rw [h.spec np h1]; exact hsp, hlo, rootOf_le h e q hr,
      fun σ' hx => hj σ' (fun p v hp => hx p v (h.status p v hp))⟩
  | transformA f np =>
    obtain ⟨h1, h2⟩ := hc
    exact ⟨Nat.lt_of_lt_of_le h1 h.next, by rw [h.spec np h1]; exact h2⟩
  | transformWithA k np =>
    obtain ⟨h1, h2⟩ := hc
    exact ⟨Nat.lt_of_lt_of_le h1 h.next, by rw [h.spec np h1]; exact h2⟩
  | recoverWithA d k np =>
    obtain ⟨h1, h2⟩ := hc
    exact ⟨Nat.lt_of_lt_of_le h1 h.next, by rw [h.spec np h1]; exact h2⟩
  | orFutureA alt np =>
    obtain ⟨h1, h2⟩ := hc
    exact ⟨Nat.lt_of_lt_of_le h1 h.next, by rw [h.spec np h1]; exact h2⟩
  | observe id => trivial

theorem taskOK_le {T T' : TSpec} {n n' : Net} (h : Le T T' n n') (tk : Task) (ht : TaskOK T n tk) : TaskOK T' n' tk := by
  cases tk with
  | cb c t =>
    obtain ⟨q, hq, hc⟩ := ht
    exact ⟨q, h.status q t hq, cbOK_le h q c hc⟩
  | applyT f np =>
    exact ⟨Nat.lt_of_lt_of_le ht.1 h.next, by rw [h.spec np ht.1]; exact ht.2⟩

-- preservation ----------------------------------------------------------------------------------------------

theorem le_of_eq (T : TSpec) {n n' : Net} (h1 : n'.status = n.status) (h5 : n'.next = n.next) : Le T T n n' :=
  ⟨by rw [h5]; exact Nat.le_refl _, fun p _ => rfl, fun p v hq => by rw [h1]; exact hq⟩

/-- the invariant only looks at status, pool, cbs and next -/
theorem inv_congr {nsrc : Nat} {T : TSpec} {n n' : Net} (h : Inv nsrc T n)
    (h1 : n'.status = n.status) (h2 : n'.spec = n.spec) (h3 : n'.pool = n.pool) (h4 : n'.cbs = n.cbs)
    (h5 : n'.next = n.next) : Inv nsrc T n' := by
  have hle : Le T T n n' := le_of_eq T h1 h5
  refine ⟨?_, ?_, ?_, ?_, ?_, by rw [h5, h2]; exact h.spec⟩
  · intro p v hp
    rw [h1] at hp
    exact just_le hle (h.lt hp) (h.just p v hp)
  · intro tk htk; rw [h3] at htk; exact taskOK_le hle tk (h.tasks tk htk)
  · intro q c hc; rw [h4] at hc; exact cbOK_le hle q c (h.cbs q c hc)
  · intro p hp; rw [h5] at hp; rw [h1]; exact h.fresh p hp
  · rw [h5]; exact h.srcs

theorem inv_complete {nsrc : Nat} {T : TSpec} {n : Net} (h : Inv nsrc T n) (p : Nat) (t : Try Val) (hp : p < n.next)
    (hdet : n.status p = none → ∀ d σ', Ext (fun q => if q = p then some t else n.status q) σ' →
      (∀ p', p < p' → p' < n.next → Good d T σ' p') → Good d T σ' p) :
    Inv nsrc T (complete p t n) ∧ Le T T n (complete p t n) := by
  unfold complete
  cases hst : n.status p with
  | some v =>
    simp only
    exact ⟨inv_congr h rfl rfl rfl rfl rfl, le_of_eq T rfl rfl⟩
  | none =>
    simp only
    have hext : Ext n.status (fun q => if q = p then some t else n.status q) := by
      intro q v hq
      by_cases hqp : q = p
      · subst hqp; rw [hst] at hq; cases hq
      · simp [hqp, hq]
    have hle : Le T T n { n with
        status := fun q => if q = p then some t else n.status q
        pool := n.pool ++ (n.cbs p).map (fun c => Task.cb c t)
        cbs := fun q => if q = p then [] else n.cbs q
        completes := n.completes ++ [(p, true)] } := ⟨Nat.le_refl _, fun _ _ => rfl, hext⟩
    refine ⟨⟨?_, ?_, ?_, ?_, ?_, h.spec⟩, hle⟩
    rotate_right
    · exact h.srcs
    · intro q v hq
      by_cases hqp : q = p
      · subst hqp
        exact hdet hst
      · simp [hqp] at hq
        exact just_le hle (h.lt hq) (h.just q v hq)
    · intro tk htk
      simp only [List.mem_append, List.mem_map] at htk
      rcases htk with hold | ⟨c, hc, rfl⟩
      · exact taskOK_le hle tk (h.tasks tk hold)
      · exact ⟨p, by simp, cbOK_le hle p c (h.cbs p c hc)⟩
    · intro q c hc
      by_cases hqp : q = p
      · subst hqp; simp at hc
      · simp [hqp] at hc
        exact cbOK_le hle q c (h.cbs q c hc)
    · intro q hq
      have hq' : n.next ≤ q := hq
      have : q ≠ p := fun heq => by subst heq; exact absurd hp (Nat.not_lt.mpr hq')
      simp [this, h.fresh q hq']

theorem inv_onComplete {nsrc : Nat} {T : TSpec} {n : Net} (h : Inv nsrc T n) (p : Nat) (c : CB) (hc : CbOK T n p c) :
    Inv nsrc T (onComplete p c n) ∧ Le T T n (onComplete p c n) := by
  unfold onComplete
  cases hst : n.status p with
  | some t =>
    simp only
    have hle : Le T T n { n with pool := n.pool ++ [Task.cb c t] } := le_of_eq T rfl rfl
    refine ⟨⟨fun q v hq => just_le hle (h.lt hq) (h.just q v hq), ?_,
      fun q c' hc' => cbOK_le hle q c' (h.cbs q c' hc'), h.fresh, h.srcs, h.spec⟩, hle⟩
    intro tk htk
    simp only [List.mem_append, List.mem_singleton] at htk
    rcases htk with hold | rfl
    · exact taskOK_le hle tk (h.tasks tk hold)
    · exact ⟨p, hst, cbOK_le hle p c hc⟩
  | none =>
    simp only
    have hle : Le T T n { n with cbs := fun q => if q = p then n.cbs p ++ [c] else n.cbs q } := le_of_eq T rfl rfl
    refine ⟨⟨fun q v hq => just_le hle (h.lt hq) (h.just q v hq),
      fun tk htk => taskOK_le hle tk (h.tasks tk htk), ?_, h.fresh, h.srcs, h.spec⟩, hle⟩
    intro q c' hc'
    by_cases hqp : q = p
    · subst hqp
      simp at hc'
      rcases hc' with hold | rfl
      · exact cbOK_le hle q c' (h.cbs q c' hold)
      · exact cbOK_le hle q c' hc
    · simp [hqp] at hc'
      exact cbOK_le hle q c' (h.cbs q c' hc')

theorem inv_fresh {nsrc : Nat} {T : TSpec} {n : Net} (h : Inv nsrc T n) (sp : FExpr) (x : Σ τ : Ty, TExpr τ)
    (hsp : sp = erase x.2) :
    Inv nsrc (upd T n.next x) (fresh sp n).2 ∧ Le T (upd T n.next x) n (fresh sp n).2 ∧
    (fresh sp n).2.next = n.next + 1 ∧ (fresh sp n).2.status = n.status := by
  have hle : Le T (upd T n.next x) n (fresh sp n).2 :=
    ⟨Nat.le_succ _, fun p hp => upd_ne T x (Nat.ne_of_lt hp), fun _ _ hq => hq⟩
  refine ⟨⟨?_, ?_, ?_, ?_, ?_, ?_⟩, hle, rfl, rfl⟩
  rotate_right
  · intro q hq
    have hq' : q < n.next + 1 := hq
    by_cases hqn : q = n.next
    · subst hqn; rw [upd_self]; simp only [fresh, if_true]; exact hsp
    · rw [upd_ne T x hqn]; simp only [fresh, hqn, if_false]
      exact h.spec q (by omega)
  · intro q v hq
    have hq' : n.status q = some v := hq
    exact just_le hle (h.lt hq') (h.just q v hq')
  · intro tk htk; exact taskOK_le hle tk (h.tasks tk htk)
  · intro q c hc; exact cbOK_le hle q c (h.cbs q c hc)
  · intro q hq
    have hq' : n.next + 1 ≤ q := hq
    exact h.fresh q (Nat.le_of_succ_le hq')
  · refine ⟨Nat.le_succ_of_le h.srcs.1, fun p hp => ?_⟩
    have : p ≠ n.next := by have := h.srcs.1; omega
    rw [upd_ne T x this]; exact h.srcs.2 p hp

-- the typed ghost specs `build` produces ---------------------------------------------------------------------------

/-- the typed specs after `build (erase e) n`: one entry per promise `build` allocates, in the same order -/
def tbuild : {τ : Ty} → TExpr τ → Net → TSpec → TSpec
  | _, .ref _ _, _, T => T
  | _, .successful v, n, T => upd T n.next ⟨.val, .successful v⟩
  | τ, .failed _ e, n, T => upd T n.next ⟨τ, .failed τ e⟩
  | _, .successfulOf (τ := τ) e, n, T =>
    upd (tbuild e n T) (build (erase e) n).2.next ⟨.fut τ, .successfulOf (.ref τ (build (erase e) n).1)⟩
  | _, .logged evs e, n, T => tbuild e { n with log := n.log ++ evs } T
  | τ, .flatMap e k, n, T =>
    upd (tbuild e n T) (build (erase e) n).2.next ⟨τ, .flatMap (.ref .val (build (erase e) n).1) k⟩
  | τ, .flatten e, n, T =>
    upd (tbuild e n T) (build (erase e) n).2.next ⟨τ, .flatten (.ref (.fut τ) (build (erase e) n).1)⟩
  | _, .transform e f, n, T =>
    upd (tbuild e n T) (build (erase e) n).2.next ⟨.val, .transform (.ref .val (build (erase e) n).1) f⟩
  | τ, .transformWith e k, n, T =>
    upd (tbuild e n T) (build (erase e) n).2.next ⟨τ, .transformWith (.ref .val (build (erase e) n).1) k⟩
  | τ, .recoverWith e d k, n, T =>
    upd (tbuild e n T) (build (erase e) n).2.next ⟨τ, .recoverWith (.ref τ (build (erase e) n).1) d k⟩
  | τ, .orFuture e alt, n, T =>
    upd (tbuild alt (build (erase e) n).2 (tbuild e n T)) (build (erase alt) (build (erase e) n).2).2.next
      ⟨τ, .orFuture (.ref τ (build (erase e) n).1) (.ref τ (build (erase alt) (build (erase e) n).2).1)⟩
  | _, .apply f, n, T => upd T n.next ⟨.val, .apply f⟩

/-- what `build` guarantees -/
structure BuildOK (nsrc : Nat) (T : TSpec) (n : Net) {τ : Ty} (e : TExpr τ) (q : Nat) (n' : Net) (T' : TSpec) : Prop where
  inv : Inv nsrc T' n'
  le : Le T T' n n'
  root : RootOf T' n' n.next q e

/-- one new promise whose completion callback `c` is registered on `p` -/
theorem node_ok {nsrc : Nat} {T : TSpec} {n : Net} (h : Inv nsrc T n) (sp : FExpr) (x : Σ τ : Ty, TExpr τ) (p : Nat) (c : CB)
    (hsp : sp = erase x.2)
    (hc : ∀ (T2 : TSpec) (n2 : Net), Le T T2 n n2 → n2.next = n.next + 1 → T2 n.next = x → CbOK T2 n2 p c) :
    let n3 := onComplete p c (fresh sp n).2
    Inv nsrc (upd T n.next x) n3 ∧ Le T (upd T n.next x) n n3 ∧ n.next < n3.next := by
  obtain ⟨hi, hle, hnx, _⟩ := inv_fresh h sp x hsp
  have hc2 := hc _ (fresh sp n).2 hle hnx (upd_self T _ x)
  obtain ⟨hi3, hle3⟩ := inv_onComplete hi p c hc2
  refine ⟨hi3, hle.trans hle3, ?_⟩
  have := hle3.next; rw [hnx] at this; omega

/-- one new promise completed at once with a result that its spec denotes whatever else happens -/
theorem const_ok {nsrc : Nat} {T : TSpec} {n : Net} (h : Inv nsrc T n) (sp : FExpr) (τ : Ty) (X : TExpr τ) (t : Try Val)
    (hsp : sp = erase X)
    (hX : ∀ σ' : Nat → Option (Try Val), σ' n.next = some t → den (absE σ') X = absS σ' τ n.next) :
    let n3 := complete n.next t (fresh sp n).2
    Inv nsrc (upd T n.next ⟨τ, X⟩) n3 ∧ Le T (upd T n.next ⟨τ, X⟩) n n3 ∧ n.next < n3.next := by
  obtain ⟨hi, hle, hnx, hst⟩ := inv_fresh h sp ⟨τ, X⟩ hsp
  obtain ⟨hi2, hle2⟩ := inv_complete hi n.next t (by rw [hnx]; omega) (by
    intro _ d σ' hx _
    rw [good_iff (upd_self T _ _)]
    exact rel_of_eq d (hX σ' (hx n.next t (by simp))).symm)
  refine ⟨hi2, hle.trans hle2, ?_⟩
  have := hle2.next; rw [hnx] at this; omega

theorem inv_build {nsrc : Nat} {τ : Ty} (e : TExpr τ) : ∀ (T : TSpec) (n : Net), Inv nsrc T n →
    BuildOK nsrc T n e (build (erase e) n).1 (build (erase e) n).2 (tbuild e n T) := by
  induction e with
  | ref τ p => intro T n h; exact ⟨h, Le.refl T n, rfl⟩
  | successful v =>
    intro T n h
    obtain ⟨hi, hle, hlt⟩ := const_ok h (.successful v) .val (.successful v) (.success v) rfl
      (fun σ' hs => by rw [absS_val, hs]; rfl)
    exact ⟨hi, hle, Nat.le_refl _, hlt, upd_self T _ _⟩
  | failed τ x =>
    intro T n h
    obtain ⟨hi, hle, hlt⟩ := const_ok h (.failed x) τ (.failed τ x) (.failure x) rfl
      (fun σ' hs => by simp [den, absS_some τ hs, absT_failure])
    exact ⟨hi, hle, Nat.le_refl _, hlt, upd_self T _ _⟩
  | @successfulOf τ e ih =>
    intro T n h
    obtain ⟨hi1, hle1, hr1⟩ := ih T n h
    simp only [erase, build, tbuild]
    generalize tbuild e n T = T1 at hi1 hle1 hr1
    generalize build (erase e) n = r at hi1 hle1 hr1
    obtain ⟨p, n1⟩ := r
    simp only at hi1 hle1 hr1 ⊢
    obtain ⟨hi, hle, hlt⟩ := const_ok hi1 (.successfulOf (.ref p)) (.fut τ) (.successfulOf (.ref τ p)) (.success (handle p)) rfl
      (fun σ' hs => by simp [den, absE, absS_some _ hs, absT_handle])
    exact ⟨hi, hle1.trans hle, p, rootOf_le hle e p hr1, hle1.next, hlt, upd_self T1 _ _⟩
  | logged evs e ih =>
    intro T n h
    have h' : Inv nsrc T { n with log := n.log ++ evs } := inv_congr h rfl rfl rfl rfl rfl
    obtain ⟨hi, hle, hr⟩ := ih T { n with log := n.log ++ evs } h'
    exact ⟨hi, (le_of_eq T rfl rfl : Le T T n { n with log := n.log ++ evs }).trans hle, hr⟩
  | @flatMap τ e k ihe _ =>
    intro T n h
    obtain ⟨hi1, hle1, hr1⟩ := ihe T n h
    simp only [erase, build, tbuild]
    generalize tbuild e n T = T1 at hi1 hle1 hr1
    generalize build (erase e) n = r at hi1 hle1 hr1
    obtain ⟨p, n1⟩ := r
    simp only at hi1 hle1 hr1 ⊢
    obtain ⟨hi3, hle3, hlt⟩ := node_ok hi1 (.flatMap (.ref p) (fun v => erase (k v))) ⟨τ, .flatMap (.ref .val p) k⟩ p
      (.flatMapA (fun v => erase (k v)) n1.next) rfl
      (fun T2 n2 _ hnx hs => ⟨by rw [hnx]; omega, .inl ⟨τ, k, hs, rfl⟩⟩)
    exact ⟨hi3, hle1.trans hle3, p, rootOf_le hle3 e p hr1, hle1.next, hlt, upd_self T1 _ _⟩
  | @flatten τ e ih =>
    intro T n h
    obtain ⟨hi1, hle1, hr1⟩ := ih T n h
    simp only [erase, Fut.flatten, build, tbuild]
    generalize tbuild e n T = T1 at hi1 hle1 hr1
    generalize build (erase e) n = r at hi1 hle1 hr1
    obtain ⟨p, n1⟩ := r
    simp only at hi1 hle1 hr1 ⊢
    obtain ⟨hi3, hle3, hlt⟩ := node_ok hi1 (.flatMap (.ref p) (fun v => .ref (unhandle v))) ⟨τ, .flatten (.ref (.fut τ) p)⟩ p
      (.flatMapA (fun v => .ref (unhandle v)) n1.next) rfl
      (fun T2 n2 _ hnx hs => ⟨by rw [hnx]; omega, .inr ⟨τ, hs, rfl⟩⟩)
    exact ⟨hi3, hle1.trans hle3, p, rootOf_le hle3 e p hr1, hle1.next, hlt, upd_self T1 _ _⟩
  | transform e f ih =>
    intro T n h
    obtain ⟨hi1, hle1, hr1⟩ := ih T n h
    simp only [erase, build, tbuild]
    generalize tbuild e n T = T1 at hi1 hle1 hr1
    generalize build (erase e) n = r at hi1 hle1 hr1
    obtain ⟨p, n1⟩ := r
    simp only at hi1 hle1 hr1 ⊢
    obtain ⟨hi3, hle3, hlt⟩ := node_ok hi1 (.transform (.ref p) f) ⟨.val, .transform (.ref .val p) f⟩ p
      (.transformA f n1.next) rfl
      (fun T2 n2 _ hnx hs => ⟨by rw [hnx]; omega, hs⟩)
    exact ⟨hi3, hle1.trans hle3, p, rootOf_le hle3 e p hr1, hle1.next, hlt, upd_self T1 _ _⟩
  | @transformWith τ e k ihe _ =>
    intro T n h
    obtain ⟨hi1, hle1, hr1⟩ := ihe T n h
    simp only [erase, build, tbuild]
    generalize tbuild e n T = T1 at hi1 hle1 hr1
    generalize build (erase e) n = r at hi1 hle1 hr1
    obtain ⟨p, n1⟩ := r
    simp only at hi1 hle1 hr1 ⊢
    obtain ⟨hi3, hle3, hlt⟩ := node_ok hi1 (.transformWith (.ref p) (fun t => erase (k t))) ⟨τ, .transformWith (.ref .val p) k⟩ p
      (.transformWithA (fun t => erase (k t)) n1.next) rfl
      (fun T2 n2 _ hnx hs => ⟨by rw [hnx]; omega, τ, k, hs, rfl⟩)
    exact ⟨hi3, hle1.trans hle3, p, rootOf_le hle3 e p hr1, hle1.next, hlt, upd_self T1 _ _⟩
  | @recoverWith τ e d k ihe _ =>
    intro T n h
    obtain ⟨hi1, hle1, hr1⟩ := ihe T n h
    simp only [erase, build, tbuild]
    generalize tbuild e n T = T1 at hi1 hle1 hr1
    generalize build (erase e) n = r at hi1 hle1 hr1
    obtain ⟨p, n1⟩ := r
    simp only at hi1 hle1 hr1 ⊢
    obtain ⟨hi3, hle3, hlt⟩ := node_ok hi1 (.recoverWith (.ref p) d (fun x => erase (k x))) ⟨τ, .recoverWith (.ref τ p) d k⟩ p
      (.recoverWithA d (fun x => erase (k x)) n1.next) rfl
      (fun T2 n2 _ hnx hs => ⟨by rw [hnx]; omega, τ, k, hs, rfl⟩)
    exact ⟨hi3, hle1.trans hle3, p, rootOf_le hle3 e p hr1, hle1.next, hlt, upd_self T1 _ _⟩
  | @orFuture τ e alt ihe iha =>
    intro T n h
    obtain ⟨hi1, hle1, hr1⟩ := ihe T n h
    simp only [erase, build, tbuild]
    generalize tbuild e n T = T1 at hi1 hle1 hr1
    generalize build (erase e) n = r at hi1 hle1 hr1
    obtain ⟨p, n1⟩ := r
    simp only at hi1 hle1 hr1 ⊢
    obtain ⟨hi2, hle2, hr2⟩ := iha T1 n1 hi1
    generalize tbuild alt n1 T1 = T2 at hi2 hle2 hr2
    generalize build (erase alt) n1 = r2 at hi2 hle2 hr2
    obtain ⟨a, n2⟩ := r2
    simp only at hi2 hle2 hr2 ⊢
    obtain ⟨hi3, hle3, hlt⟩ := node_ok hi2 (.orFuture (.ref p) (.ref a)) ⟨τ, .orFuture (.ref τ p) (.ref τ a)⟩ p
      (.orFutureA a n2.next) rfl
      (fun T3 n3 _ hnx hs => ⟨by rw [hnx]; omega, τ, hs⟩)
    exact ⟨hi3, (hle1.trans hle2).trans hle3,
      p, a, rootOf_le (hle2.trans hle3) e p hr1,
      rootOf_lo_mono _ _ hle1.next alt a (rootOf_le hle3 alt a hr2),
      Nat.le_trans hle1.next hle2.next, hlt, upd_self T2 _ _⟩
  | apply f =>
    intro T n h
    obtain ⟨hi, hle, hnx, hst⟩ := inv_fresh h (.apply f) ⟨.val, .apply f⟩ rfl
    show BuildOK nsrc T n _ n.next
      { (fresh (.apply f) n).2 with pool := (fresh (.apply f) n).2.pool ++ [Task.applyT f n.next] } _
    have hle2 : Le (upd T n.next ⟨.val, .apply f⟩) (upd T n.next ⟨.val, .apply f⟩) (fresh (.apply f) n).2
        { (fresh (.apply f) n).2 with pool := (fresh (.apply f) n).2.pool ++ [Task.applyT f n.next] } :=
      le_of_eq _ rfl rfl
    have hlt : n.next < (fresh (.apply f) n).2.next := by rw [hnx]; omega
    refine ⟨⟨fun q v hq => just_le hle2 (hi.lt hq) (hi.just q v hq), ?_,
      fun q c hc => cbOK_le hle2 q c (hi.cbs q c hc), hi.fresh, hi.srcs, hi.spec⟩,
      hle.trans hle2, ⟨Nat.le_refl _, hlt, upd_self T _ _⟩⟩
    intro tk htk
    simp only [List.mem_append, List.mem_singleton] at htk
    rcases htk with hold | rfl
    · exact taskOK_le hle2 tk (hi.tasks tk hold)
    · exact ⟨hlt, upd_self T _ _⟩

end FpVerif.Spec.C06.HO
