import FpVerif.Model.GoSem
/-!
# Index loops of the Go fragment (`GoSem.forRange`, `GoSem.forAcc`) as structural recursions over lists

Used by `Spec/C09Gen`, `C10Gen`: the translated `eq.Seq`, `ord.Seq`, `hash.String`, `seq.Fold` are index loops
(`a[i]`), the models are structural recursions / folds over `List`.
-/
namespace FpVerif.GoSem
open FpVerif.TC

variable {α β ρ : Type}

@[simp] theorem idx_cons_zero [GoZero α] (x : α) (xs : List α) : idx (x :: xs) 0 = x := rfl
@[simp] theorem idx_cons_succ [GoZero α] (x : α) (xs : List α) (j : Nat) : idx (x :: xs) (j + 1) = idx xs j := by
  simp [idx]

theorem idx_lt [GoZero α] (a : List α) (i : Nat) (h : i < a.length) : idx a i = a[i] := by
  simp [idx, h]

theorem loopFrom_shift (body : Nat → Option ρ) (rest : ρ) (fuel i : Nat) :
    loopFrom body rest fuel (i + 1) = loopFrom (fun j => body (j + 1)) rest fuel i := by
  induction fuel generalizing i with
  | zero => rfl
  | succ n ih => simp only [loopFrom]; rw [ih]

/-- one unrolling of a `forRange` loop -/
theorem forRange_succ (n : Nat) (body : Nat → Option ρ) (rest : ρ) :
    forRange (n + 1) body rest =
      match body 0 with
      | some r => r
      | none => forRange n (fun j => body (j + 1)) rest := by
  unfold forRange
  rw [loopFrom]
  cases body 0 with
  | some r => rfl
  | none => simp only []; rw [loopFrom_shift]

@[simp] theorem forRange_zero (body : Nat → Option ρ) (rest : ρ) : forRange 0 body rest = rest := rfl

theorem accFrom_shift (step : β → Nat → β) (fuel i : Nat) (acc : β) :
    accFrom step fuel (i + 1) acc = accFrom (fun a j => step a (j + 1)) fuel i acc := by
  induction fuel generalizing i acc with
  | zero => rfl
  | succ n ih => simp only [accFrom]; rw [ih]

theorem forAcc_succ (n : Nat) (init : β) (step : β → Nat → β) :
    forAcc (n + 1) init step = forAcc n (step init 0) (fun a j => step a (j + 1)) := by
  simp only [forAcc, accFrom]; rw [accFrom_shift]

@[simp] theorem forAcc_zero (init : β) (step : β → Nat → β) : forAcc 0 init step = init := rfl

/-- schema L3 over a slice: `for i := 0; i < len(l); i++ { acc = f(acc, l[i]) }` is `foldl` -/
theorem forAcc_idx_eq_foldl [GoZero α] (f : β → α → β) (l : List α) (init : β) :
    forAcc l.length init (fun acc i => f acc (idx l i)) = l.foldl f init := by
  induction l generalizing init with
  | nil => rfl
  | cons x xs ih =>
    simp only [List.length_cons, forAcc_succ, idx_cons_zero, idx_cons_succ, List.foldl_cons]
    exact ih _

/-- the loop of `eq.Seq` (sizes known to be equal) is the model's `seqLoop` -/
theorem forRange_eq_seqLoop [GoZero α] (eq : EqD α) (a b : List α) (h : a.length = b.length) :
    forRange a.length (fun i => if (!(eq.eqv (idx a i) (idx b i))) = true then some false else none) true
      = EqD.seqLoop eq a b := by
  induction a generalizing b with
  | nil => cases b <;> simp [EqD.seqLoop]
  | cons x xs ih =>
    cases b with
    | nil => simp at h
    | cons y ys =>
      simp only [List.length_cons, forRange_succ, idx_cons_zero, idx_cons_succ, EqD.seqLoop]
      by_cases hxy : eq.eqv x y = true
      · simp only [hxy, Bool.not_true, Bool.false_eq_true, ↓reduceIte]
        exact ih ys (by simpa using h)
      · simp [hxy]

/-- the loop of `ord.Seq` followed by the size comparison is the model's `seqLess` -/
theorem forRange_eq_seqLess [GoZero α] (ord : OrdD α) (a b : List α) :
    forRange (min a.length b.length)
        (fun i => if ord.less (idx a i) (idx b i) = true then some true
                  else if ord.less (idx b i) (idx a i) = true then some false else none)
        (decide (a.length < b.length))
      = OrdD.seqLess ord a b := by
  induction a generalizing b with
  | nil => cases b <;> simp [OrdD.seqLess]
  | cons x xs ih =>
    cases b with
    | nil => simp [OrdD.seqLess]
    | cons y ys =>
      simp only [List.length_cons, Nat.succ_min_succ, forRange_succ, idx_cons_zero, idx_cons_succ, OrdD.seqLess,
        Nat.add_lt_add_iff_right]
      by_cases hxy : ord.less x y = true
      · simp [hxy]
      · by_cases hyx : ord.less y x = true
        · simp [hxy, hyx]
        · simp only [hxy, hyx]; exact ih ys

end FpVerif.GoSem
