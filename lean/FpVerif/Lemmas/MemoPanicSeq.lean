import FpVerif.Model.MemoPanic
/-!
# Sequential behaviour of the memo cell (`Model/MemoPanic.lean`, part 1): helper lemmas
-/
namespace FpVerif.MemoPanic
open FpVerif FpVerif.It

variable {T A σ X Y : Type}

theorem im_bind_apply (m : IM σ X) (k : X → IM σ Y) (s : σ) (lg : Log) :
    (m >>= k) s lg = match m s lg with
      | (.ok x, s', lg') => k x s' lg'
      | (.error p, s', lg') => (.error p, s', lg') := rfl

theorem im_pure_apply (x : X) (s : σ) (lg : Log) : (pure x : IM σ X) s lg = (.ok x, s, lg) := rfl

theorem attempt_apply (m : IM σ X) (s : σ) (lg : Log) :
    attempt m s lg = (.ok (m s lg).1, (m s lg).2.1, (m s lg).2.2) := rfl

/-- once the `Once` has fired, a call returns `ret`, runs nothing, changes nothing -/
theorem get_of_done (f : Nat → GoM T) (c : Cell T) (lg : Log) (h : c.done = true) :
    get f c lg = (.ok c.ret, c, lg) := by
  simp [get, h]

theorem getN_of_done (f : Nat → GoM T) (n : Nat) (c : Cell T) (lg : Log) (h : c.done = true) :
    getN f n c lg = (.ok (List.replicate n (.ok c.ret)), c, lg) := by
  induction n with
  | zero => rfl
  | succ n ih =>
    simp only [getN, im_bind_apply, attempt_apply, get_of_done f c lg h, ih, im_pure_apply,
      List.replicate_succ]

theorem getArgs_of_done (f : A → Nat → GoM T) (as : List A) (c : Cell T) (lg : Log) (h : c.done = true) :
    getArgs f as c lg = (.ok (as.map (fun _ => .ok c.ret)), c, lg) := by
  induction as with
  | nil => rfl
  | cons a as ih =>
    simp only [getArgs, im_bind_apply, attempt_apply, get_of_done (f a) c lg h, ih, im_pure_apply,
      List.map_cons]

/-- the first call on a fresh cell: `f`'s first execution, its outcome to the caller, `done` set either way -/
theorem get_fresh (zero : T) (f : Nat → GoM T) (lg : Log) :
    get f (Cell.fresh zero) lg
      = (((f 0).run.run lg).1, { done := true, ret := memoOf zero ((f 0).run.run lg).1, runs := 1 },
         ((f 0).run.run lg).2) := by
  simp only [get, Cell.fresh]
  rcases h : (f 0).run.run lg with ⟨r, lg'⟩
  cases r <;> simp [memoOf]

end FpVerif.MemoPanic
