import FpVerif.Lemmas.FutHOStep
import FpVerif.Model.FutureChain
/-!
# The higher-order fragment: membership, denotation of `Flatten` / `LiftM` / `LiftMN`, the first-order fragment inside it

(helper lemmas for `Spec/C06HO.lean`)
-/
namespace FpVerif.Spec.C06.HO
open FpVerif FpVerif.Fut FpVerif.Spec.C06

-- closure of `HO` under every combinator -------------------------------------------------------------------------------

theorem ho_ref (τ : Ty) (p : Nat) : HO τ (.ref p) := ⟨.ref τ p, rfl⟩
theorem ho_successful (v : Val) : HO .val (.successful v) := ⟨.successful v, rfl⟩
theorem ho_failed (τ : Ty) (x : Err) : HO τ (.failed x) := ⟨.failed τ x, rfl⟩
theorem ho_apply (f : Unit → W (Try Val)) : HO .val (.apply f) := ⟨.apply f, rfl⟩

/-- `Successful(h)` of a future handle: a future of a future -/
theorem ho_successfulOf {τ : Ty} {e : FExpr} (h : HO τ e) : HO (.fut τ) (.successfulOf e) := by
  obtain ⟨t, rfl⟩ := h; exact ⟨.successfulOf t, rfl⟩

theorem ho_logged {τ : Ty} (evs : List Event) {e : FExpr} (h : HO τ e) : HO τ (.logged evs e) := by
  obtain ⟨t, rfl⟩ := h; exact ⟨.logged evs t, rfl⟩

theorem ho_flatMap {τ : Ty} {e : FExpr} {k : Val → FExpr} (he : HO .val e) (hk : ∀ v, HO τ (k v)) : HO τ (.flatMap e k) := by
  obtain ⟨t, rfl⟩ := he
  exact ⟨.flatMap t (fun v => Classical.choose (hk v)), by
    simp only [erase]; congr 1; funext v; exact Classical.choose_spec (hk v)⟩

/-- `Flatten` of a future of a future -/
theorem ho_flatten {τ : Ty} {e : FExpr} (h : HO (.fut τ) e) : HO τ (Fut.flatten e) := by
  obtain ⟨t, rfl⟩ := h; exact ⟨.flatten t, rfl⟩

theorem ho_transform {e : FExpr} (f : Try Val → W (Try Val)) (h : HO .val e) : HO .val (.transform e f) := by
  obtain ⟨t, rfl⟩ := h; exact ⟨.transform t f, rfl⟩

theorem ho_transformWith {τ : Ty} {e : FExpr} {k : Try Val → FExpr} (he : HO .val e) (hk : ∀ t, HO τ (k t)) :
    HO τ (.transformWith e k) := by
  obtain ⟨t, rfl⟩ := he
  exact ⟨.transformWith t (fun v => Classical.choose (hk v)), by
    simp only [erase]; congr 1; funext v; exact Classical.choose_spec (hk v)⟩

theorem ho_recoverWith {τ : Ty} {e : FExpr} (d : Err → Bool) {k : Err → FExpr} (he : HO τ e) (hk : ∀ x, HO τ (k x)) :
    HO τ (.recoverWith e d k) := by
  obtain ⟨t, rfl⟩ := he
  exact ⟨.recoverWith t d (fun v => Classical.choose (hk v)), by
    simp only [erase]; congr 1; funext v; exact Classical.choose_spec (hk v)⟩

theorem ho_orFuture {τ : Ty} {e alt : FExpr} (he : HO τ e) (ha : HO τ alt) : HO τ (.orFuture e alt) := by
  obtain ⟨t, rfl⟩ := he
  obtain ⟨a, rfl⟩ := ha
  exact ⟨.orFuture t a, rfl⟩

theorem ho_map {e : FExpr} (f : Val → W Val) (h : HO .val e) : HO .val (Fut.map e f) :=
  ho_flatMap h (fun _ => ho_logged _ (ho_successful _))

/-- `LiftM(fa)(ta) = Flatten(Map(ta, fa))`, for every user function returning a future of the fragment (of any type) -/
theorem ho_liftM {τ : Ty} {fa : Val → FExpr} (ta : Nat) (h : ∀ v, HO τ (fa v)) : HO τ (Fut.liftM fa ta) :=
  ho_flatten (ho_flatMap (ho_ref .val ta) (fun v => ho_successfulOf (h v)))

/-- `FlatMethod1(ta, fab)(b) = Flatten(Map(ta, a => fab(a, b)))` -/
theorem ho_flatMethod1 {τ : Ty} (ta : Nat) (f : Ex → List Val → FExpr) (c : Ex) (rest : List Val)
    (h : ∀ vs, HO τ (f c vs)) : HO τ (flatMethodN 1 ta f c rest) :=
  ho_liftM ta (fun x => h (x :: rest))

-- the typed combinators and what they denote ------------------------------------------------------------------------------

/-- `LiftM(fa)(ta)` in the typed syntax -/
def tLiftM {τ : Ty} (fa : Val → TExpr τ) (ta : Nat) : TExpr τ :=
  .flatten (.flatMap (.ref .val ta) (fun v => .successfulOf (fa v)))

theorem erase_tLiftM {τ : Ty} (fa : Val → TExpr τ) (ta : Nat) :
    erase (tLiftM fa ta) = Fut.liftM (fun v => erase (fa v)) ta := rfl

/-- `Flatten(Successful(e))` denotes what `e` denotes -/
theorem den_flatten_successfulOf (ρ : Env) {τ : Ty} (e : TExpr τ) : den ρ (.flatten (.successfulOf e)) = den ρ e := rfl

/-- `Flatten` is the join of the three-valued Try -/
theorem den_flatten (ρ : Env) {τ : Ty} (e : TExpr (.fut τ)) : den ρ (.flatten e) = joinS (den ρ e) := rfl

/-- `LiftM(fa)(ta)` denotes `ta.flatMap(fa)` over fp.Try: pending while `ta` is, `ta`'s failure, else what `fa v` denotes -/
theorem den_tLiftM (ρ : Env) {τ : Ty} (fa : Val → TExpr τ) (ta : Nat) :
    den ρ (tLiftM fa ta) = bindOkS (ρ .val ta) (fun v => den ρ (fa v)) := by
  simp only [tLiftM, den, joinS]
  cases ρ .val ta with
  | none => rfl
  | some t => cases t <;> rfl

/-- … at value type, over the statuses of a network, with the first-order `bindOk` -/
theorem den_tLiftM_val (σ : Nat → Option (Try Val)) (fa : Val → TExpr .val) (ta : Nat) :
    den (absE σ) (tLiftM fa ta) = bindOk (σ ta) (fun v => den (absE σ) (fa v)) := by
  rw [den_tLiftM, bindOkS_eq_bindOk]
  show bindOk (absS σ .val ta) _ = _
  rw [absS_val]

/-- `LiftMN(f)(ins1, …, insN)` in the typed syntax (`Model/FutureChain.lean: liftMFrom`) -/
def tLiftMFrom {τ : Ty} (f : List Val → TExpr τ) : List Nat → List Val → TExpr τ
  | [], vs => f vs
  | [a], vs => .flatten (.flatMap (.ref .val a) (fun v => .successfulOf (f (vs ++ [v]))))
  | [a, b], vs =>
    .flatten (.flatMap (.ref .val a) (fun v1 => .flatMap (.ref .val b) (fun v2 => .successfulOf (f (vs ++ [v1, v2])))))
  | p :: q :: r :: ps, vs => .flatMap (.ref .val p) (fun v => tLiftMFrom f (q :: r :: ps) (vs ++ [v]))

theorem erase_tLiftMFrom {τ : Ty} (f : List Val → TExpr τ) : ∀ (ins : List Nat) (vs : List Val),
    erase (tLiftMFrom f ins vs) = liftMFrom (fun vs => erase (f vs)) ins vs
  | [], _ => rfl
  | [_], _ => rfl
  | [_, _], _ => rfl
  | p :: q :: r :: ps, vs => by
    simp only [tLiftMFrom, erase, liftMFrom]
    congr 1; funext v; exact erase_tLiftMFrom f (q :: r :: ps) (vs ++ [v])

/-- the Try-level reading of `LiftMN`: bind the operands left to right, then what `f` returns -/
def liftMDen (ρ : Env) {τ : Ty} (f : List Val → TExpr τ) : List Nat → List Val → St τ
  | [], vs => den ρ (f vs)
  | p :: ps, vs => bindOkS (ρ .val p) (fun v => liftMDen ρ f ps (vs ++ [v]))

/-- **`LiftMN` denotes its do-notation reading at EVERY arity**, the `Flatten ∘ Map2` node included -/
theorem den_tLiftMFrom (ρ : Env) {τ : Ty} (f : List Val → TExpr τ) : ∀ (ins : List Nat) (vs : List Val),
    den ρ (tLiftMFrom f ins vs) = liftMDen ρ f ins vs
  | [], _ => rfl
  | [a], vs => by
    simp only [tLiftMFrom, den, joinS, liftMDen]
    cases ρ .val a with
    | none => rfl
    | some t => cases t <;> rfl
  | [a, b], vs => by
    simp only [tLiftMFrom, den, joinS, liftMDen]
    cases ρ .val a with
    | none => rfl
    | some t =>
      cases t with
      | failure e => rfl
      | success v1 =>
        simp only [bindOkS, List.append_assoc, List.cons_append, List.nil_append]
        cases ρ .val b with
        | none => rfl
        | some t2 => cases t2 <;> rfl
  | p :: q :: r :: ps, vs => by
    simp only [tLiftMFrom, den, liftMDen]
    congr 1; funext v
    exact den_tLiftMFrom ρ f (q :: r :: ps) (vs ++ [v])

theorem ho_liftMFrom {τ : Ty} {f : List Val → FExpr} (h : ∀ vs, HO τ (f vs)) (ins : List Nat) (vs : List Val) :
    HO τ (liftMFrom f ins vs) := by
  refine ⟨tLiftMFrom (fun vs => Classical.choose (h vs)) ins vs, ?_⟩
  rw [erase_tLiftMFrom]
  congr 1; funext vs; exact Classical.choose_spec (h vs)

-- the first-order fragment ---------------------------------------------------------------------------------------------

/-- a first-order program as a typed program of value type (`successfulOf` — not first-order — is mapped to junk) -/
def embed : FExpr → TExpr .val
  | .ref p => .ref .val p
  | .successful v => .successful v
  | .failed e => .failed .val e
  | .successfulOf _ => .failed .val (.code 0)
  | .logged evs e => .logged evs (embed e)
  | .flatMap e k => .flatMap (embed e) (fun v => embed (k v))
  | .transform e f => .transform (embed e) f
  | .transformWith e k => .transformWith (embed e) (fun t => embed (k t))
  | .recoverWith e d k => .recoverWith (embed e) d (fun x => embed (k x))
  | .orFuture e alt => .orFuture (embed e) (embed alt)
  | .apply f => .apply f

theorem erase_embed {b : Nat} {e : FExpr} (h : FO b e) : erase (embed e) = e := by
  induction h with
  | ref p _ => rfl
  | successful v => rfl
  | failed x => rfl
  | logged evs e _ ih => simp only [embed, erase, ih]
  | flatMap e k _ _ ihe ihk => simp only [embed, erase, ihe]; congr 1; funext v; exact ihk v
  | transform e f _ ih => simp only [embed, erase, ih]
  | transformWith e k _ _ ihe ihk => simp only [embed, erase, ihe]; congr 1; funext v; exact ihk v
  | recoverWith e d k _ _ ihe ihk => simp only [embed, erase, ihe]; congr 1; funext v; exact ihk v
  | orFuture e alt _ _ ihe iha => simp only [embed, erase, ihe, iha]
  | apply f => rfl

/-- **every first-order program is in the higher-order fragment** (at value type) -/
theorem fo_ho {b : Nat} {e : FExpr} (h : FO b e) : HO .val e := ⟨embed e, erase_embed h⟩

/-- on first-order programs the denotation over the statuses of a network is the first-order `evalS` -/
theorem den_embed (σ : Nat → Option (Try Val)) {b : Nat} {e : FExpr} (h : FO b e) : den (absE σ) (embed e) = evalS σ e := by
  induction h with
  | ref p _ => simp only [embed, den, evalS]; exact absS_val σ p
  | successful v => rfl
  | failed x => rfl
  | logged evs e _ ih => simp only [embed, den, evalS, ih]
  | flatMap e k _ _ ihe ihk =>
    simp only [embed, den, evalS, ihe]
    rw [bindOkS_eq_bindOk]
    congr 1; funext v; exact ihk v
  | transform e f _ ih => simp only [embed, den, evalS, ih]
  | transformWith e k _ _ ihe ihk =>
    simp only [embed, den, evalS, ihe]
    rw [bindTryS_eq_bindTry]
    congr 1; funext v; exact ihk v
  | recoverWith e d k _ _ ihe ihk =>
    simp only [embed, den, evalS, ihe]
    rw [bindTryS_eq_bindTry]
    congr 1; funext t
    cases t with
    | success v => rfl
    | failure err => simp only [recS, ihk err]
  | orFuture e alt _ _ ihe iha =>
    simp only [embed, den, evalS, ihe]
    rw [bindTryS_eq_bindTry]
    congr 1; funext t
    cases t with
    | success v => rfl
    | failure err => simp only [recS, iha]
  | apply f => rfl

-- handles do not leak ------------------------------------------------------------------------------------------------------

/-- every handle the program refers to is a future of a plain value (hereditarily through user functions) -/
inductive ValRefs : {τ : Ty} → TExpr τ → Prop where
  | ref (p : Nat) : ValRefs (.ref .val p)
  | successful (v : Val) : ValRefs (.successful v)
  | failed (τ : Ty) (e : Err) : ValRefs (.failed τ e)
  | successfulOf {τ : Ty} (e : TExpr τ) : ValRefs e → ValRefs (.successfulOf e)
  | logged {τ : Ty} (evs : List Event) (e : TExpr τ) : ValRefs e → ValRefs (.logged evs e)
  | flatMap {τ : Ty} (e : TExpr .val) (k : Val → TExpr τ) : ValRefs e → (∀ v, ValRefs (k v)) → ValRefs (.flatMap e k)
  | flatten {τ : Ty} (e : TExpr (.fut τ)) : ValRefs e → ValRefs (.flatten e)
  | transform (e : TExpr .val) (f : Try Val → W (Try Val)) : ValRefs e → ValRefs (.transform e f)
  | transformWith {τ : Ty} (e : TExpr .val) (k : Try Val → TExpr τ) : ValRefs e → (∀ t, ValRefs (k t)) →
      ValRefs (.transformWith e k)
  | recoverWith {τ : Ty} (e : TExpr τ) (d : Err → Bool) (k : Err → TExpr τ) : ValRefs e → (∀ x, ValRefs (k x)) →
      ValRefs (.recoverWith e d k)
  | orFuture {τ : Ty} (e alt : TExpr τ) : ValRefs e → ValRefs alt → ValRefs (.orFuture e alt)
  | apply (f : Unit → W (Try Val)) : ValRefs (.apply f)

/-- the environment that knows the Try results of value futures only — no handle is ever looked at -/
def srcE (σ : Nat → Option (Try Val)) : Env
  | .val, p => σ p
  | .fut _, _ => none

/-- the denotation of a program over value futures mentions their Try results only -/
theorem den_valRefs (σ : Nat → Option (Try Val)) {τ : Ty} {t : TExpr τ} (h : ValRefs t) :
    den (absE σ) t = den (srcE σ) t := by
  induction h with
  | ref p => simp only [den]; exact absS_val σ p
  | successful v => rfl
  | failed τ e => rfl
  | successfulOf e _ ih => simp only [den, ih]
  | logged evs e _ ih => simp only [den, ih]
  | flatMap e k _ _ ihe ihk => simp only [den, ihe]; congr 1; funext v; exact ihk v
  | flatten e _ ih => simp only [den, ih]
  | transform e f _ ih => simp only [den, ih]
  | transformWith e k _ _ ihe ihk => simp only [den, ihe]; congr 1; funext v; exact ihk v
  | recoverWith e d k _ _ ihe ihk => simp only [den, ihe]; congr 2; funext x; rw [ihk x]
  | orFuture e alt _ _ ihe iha => simp only [den, ihe, iha]
  | apply f => rfl

theorem valRefs_tLiftM {τ : Ty} (fa : Val → TExpr τ) (ta : Nat) (h : ∀ v, ValRefs (fa v)) : ValRefs (tLiftM fa ta) :=
  .flatten _ (.flatMap _ _ (.ref ta) (fun v => .successfulOf _ (h v)))

theorem valRefs_embed {b : Nat} {e : FExpr} (h : FO b e) : ValRefs (embed e) := by
  induction h with
  | ref p _ => exact .ref p
  | successful v => exact .successful v
  | failed x => exact .failed _ x
  | logged evs e _ ih => exact .logged _ _ ih
  | flatMap e k _ _ ihe ihk => exact .flatMap _ _ ihe ihk
  | transform e f _ ih => exact .transform _ _ ih
  | transformWith e k _ _ ihe ihk => exact .transformWith _ _ ihe ihk
  | recoverWith e d k _ _ ihe ihk => exact .recoverWith _ _ _ ihe ihk
  | orFuture e alt _ _ ihe iha => exact .orFuture _ _ ihe iha
  | apply f => exact .apply f

end FpVerif.Spec.C06.HO
