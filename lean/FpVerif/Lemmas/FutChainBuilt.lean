import FpVerif.Lemmas.FutChain
/-!
# The nodes a builder consists of, and what they denote (helpers for Spec/C14Fut.lean, Spec/C06Chain.lean)

`Built` / `ABuilt`: the net contains the futures of a `MonadChainN` / `ApplicativeFunctorN` builder after some method
calls — a relation on the recorded construction expressions, stable under every later event.  `chain_rel`,
`applicative_rel`, `flapRun_rel`: what the final future denotes, generically in a relation `R` respected by `bindOk`
(soundness / completeness / fixpoint).  `*_built`: the model's builder functions establish `Built` / `ABuilt`, keep the
existing specs and log nothing.
-/
namespace FpVerif.Spec.C14Fut
open FpVerif FpVerif.Fut FpVerif.Spec.C06

-- evalS of the Go helper functions -------------------------------------------------------------------------------

theorem evalS_ap (σ : Nat → TV) (app : Ex → Val → Val → W Val) (t a : Nat) (c : Ex) :
    evalS σ (Fut.ap app t a c)
      = bindOk (σ t) (fun f => bindOk (σ a) (fun x => some (.success (app c f x).1))) := by
  simp only [Fut.ap, evalS, Fut.map]

theorem evalS_apFunc (σ : Nat → TV) (app : Ex → Val → Val → W Val) (t : Nat) (a : Ex → FExpr) (c : Ex) :
    evalS σ (Fut.apFunc app t a c)
      = bindOk (σ t) (fun f => bindOk (evalS σ (a c)) (fun x => some (.success (app c f x).1))) := by
  simp only [Fut.apFunc, evalS, Fut.map]

theorem evalS_fromTry (σ : Nat → TV) (t : Try Val) : evalS σ (fromTry t) = some t := by
  cases t <;> rfl

theorem evalS_fromOption (σ : Nat → TV) (o : Option Val) : evalS σ (fromOption o) = some (tryOfOption o) := by
  cases o <;> rfl

/-- the curried function: a partial application while arguments are missing, `fn` on the last one -/
theorem applyC_partial (n : Nat) (fn : NFn) (c : Ex) (vs : List Val) (x : Val) (h : vs.length + 1 < n) :
    applyC n fn c (pa vs) x = (pa (vs ++ [x]), []) := by
  simp [applyC, paArgs, pa, h]

theorem applyC_last (n : Nat) (fn : NFn) (c : Ex) (vs : List Val) (x : Val) (h : n ≤ vs.length + 1) :
    applyC n fn c (pa vs) x = fn c (vs ++ [x]) := by
  have : ¬ (vs.length + 1 < n) := by omega
  simp [applyC, paArgs, pa, this]

-- MonadChainN: the nodes a chain consists of -----------------------------------------------------------------------

/-- the net contains the futures of a `MonadChain` builder on which the methods `done` have been called:
    `st` is the builder's `{h, fn}`.  (A relation on the recorded construction expressions only: it survives every
    later event — `Built.mono` — so builders may be held and continued at any later time.) -/
inductive Built (app : Ex → Val → Val → W Val) (n : Net) : List (Ex × Step) → ChainSt → Prop where
  | new (st : ChainSt) : st.h < n.next → st.fn < n.next →
      n.spec st.h = .successful (hl []) → n.spec st.fn = .successful (pa []) → Built app n [] st
  | step (done : List (Ex × Step)) (st st' : ChainSt) (c : Ex) (s : Step) (av : Nat) :
      Built app n done st → av < n.next → ShallowRoot n av (chainOperand st.h c s) →
      st'.h < n.next → st'.fn < n.next →
      n.spec st'.h = map2 av st.h hconsW → n.spec st'.fn = Fut.ap app st.fn av .d →
      Built app n (done ++ [(c, s)]) st'

/-- `q` is the future the last method call (on `MonadChain1`) returned -/
def BuiltLast (app : Ex → Val → Val → W Val) (n : Net) (steps : List (Ex × Step)) (q : Nat) : Prop :=
  ∃ done st c s av, steps = done ++ [(c, s)] ∧ Built app n done st ∧ av < n.next ∧
    ShallowRoot n av (chainOperand st.h c s) ∧ q < n.next ∧ n.spec q = Fut.ap app st.fn av .d

theorem Built.lt {app : Ex → Val → Val → W Val} {n : Net} {done : List (Ex × Step)} {st : ChainSt}
    (h : Built app n done st) : st.h < n.next ∧ st.fn < n.next := by
  cases h with
  | new _ h1 h2 _ _ => exact ⟨h1, h2⟩
  | step _ _ _ _ _ _ _ _ _ h1 h2 _ _ => exact ⟨h1, h2⟩

theorem Built.mono {app : Ex → Val → Val → W Val} {n n' : Net} (hle : SpecLe n n') {done : List (Ex × Step)}
    {st : ChainSt} (h : Built app n done st) : Built app n' done st := by
  induction h with
  | new st h1 h2 h3 h4 =>
    exact .new st (Nat.lt_of_lt_of_le h1 hle.next) (Nat.lt_of_lt_of_le h2 hle.next)
      (by rw [hle.spec _ h1]; exact h3) (by rw [hle.spec _ h2]; exact h4)
  | step done st st' c s av _ hav hroot h1 h2 h3 h4 ih =>
    exact .step done st st' c s av ih (Nat.lt_of_lt_of_le hav hle.next) (hroot.mono hle hav)
      (Nat.lt_of_lt_of_le h1 hle.next) (Nat.lt_of_lt_of_le h2 hle.next)
      (by rw [hle.spec _ h1]; exact h3) (by rw [hle.spec _ h2]; exact h4)

theorem BuiltLast.mono {app : Ex → Val → Val → W Val} {n n' : Net} (hle : SpecLe n n') {steps : List (Ex × Step)}
    {q : Nat} (h : BuiltLast app n steps q) : BuiltLast app n' steps q := by
  obtain ⟨done, st, c, s, av, hs, hb, hav, hroot, hq, hsp⟩ := h
  exact ⟨done, st, c, s, av, hs, hb.mono hle, Nat.lt_of_lt_of_le hav hle.next, hroot.mono hle hav,
    Nat.lt_of_lt_of_le hq hle.next, by rw [hle.spec _ hq]; exact hsp⟩

-- (a) denotation ------------------------------------------------------------------------------------------------------

/-- the operand a method computes denotes `operandS`, once the hlist future holds the values so far -/
theorem operand_rel {R : TV → TV → Prop} (hR : BRel R) (σ : Nat → TV) (h : Nat) (c : Ex) (s : Step) (vs : List Val)
    (hh : R (σ h) (some (.success (hl vs)))) : R (evalS σ (chainOperand h c s)) (operandS σ c vs s) := by
  have key : ∀ K : Val → FExpr, R (evalS σ (.flatMap (.ref h) K)) (evalS σ (K (hl vs))) := by
    intro K
    have := hR.bind (f := fun hv => evalS σ (K hv)) (f' := fun hv => evalS σ (K hv)) hh (fun _ => hR.refl _)
    simpa [evalS, bindOk] using this
  cases s with
  | a s =>
    cases s with
    | apFuture a => exact hR.refl _
    | ap v => exact hR.refl _
    | apTry t => simp only [chainOperand, operandS, aOperandS, evalS_fromTry]; exact hR.refl _
    | apOption o => simp only [chainOperand, operandS, aOperandS, evalS_fromOption]; exact hR.refl _
    | apFutureFunc s => exact key _
    | apTryFunc s =>
      have := key (fun _ => let (t, evs) := s c; .logged evs (fromTry t))
      simpa [chainOperand, operandS, aOperandS, evalS, evalS_fromTry] using this
    | apOptionFunc s =>
      have := key (fun _ => let (o, evs) := s c; .logged evs (fromOption o))
      simpa [chainOperand, operandS, aOperandS, evalS, evalS_fromOption] using this
    | apFunc s =>
      have := key (fun _ => let (r, evs) := s c; .logged evs (.successful r))
      simpa [chainOperand, operandS, aOperandS, evalS, Fut.map] using this
  | flatMap k => exact key _
  | map k =>
    have := key (fun v => let (r, evs) := k c (hhead v); .logged evs (.successful r))
    simpa [chainOperand, operandS, evalS] using this
  | hlistFlatMap k => exact key _
  | hlistMap k =>
    have := key (fun v => let (r, evs) := k c v; .logged evs (.successful r))
    simpa [chainOperand, operandS, evalS] using this

/-- what the two futures of a builder denote after the calls whose values are `D` -/
def StRel (R : TV → TV → Prop) (σ : Nat → TV) (st : ChainSt) (D : Option (Try (List Val))) : Prop :=
  R (σ st.fn) (mapP D pa) ∧ ∀ vs, D = some (.success vs) → R (σ st.h) (some (.success (hl vs)))

theorem built_rel {R : TV → TV → Prop} (hR : BRel R) {σ : Nat → TV} {n : Net} (hc : Consistent R σ n)
    (N : Nat) (fn : NFn) {done : List (Ex × Step)} {st : ChainSt}
    (hb : Built (applyC N fn) n done st) (hlen : done.length < N) : StRel R σ st (argsSpec σ done) := by
  induction hb with
  | new st _ _ h3 h4 =>
    refine ⟨?_, ?_⟩
    · have := hc st.fn; rw [h4] at this; exact this
    · intro vs hvs
      simp [argsSpec] at hvs; subst hvs
      have := hc st.h; rw [h3] at this; exact this
  | step done st st' c s av _ hav hroot _ _ h3 h4 ih =>
    have hlen' : done.length < N := by simp at hlen; omega
    obtain ⟨ihfn, ihh⟩ := ih hlen'
    have hcfn := hc st'.fn; rw [h4, evalS_ap] at hcfn
    have hch := hc st'.h; rw [h3, evalS_map2] at hch
    rw [argsSpec_snoc]
    cases hD : argsSpec σ done with
    | none =>
      rw [hD] at ihfn
      refine ⟨?_, fun vs hvs => by simp [argsStep, bindP] at hvs⟩
      have := hR.trans hcfn (hR.bind ihfn (fun _ => hR.refl _))
      simpa [mapP, bindP, bindOk, argsStep] using this
    | some t =>
      cases t with
      | failure e =>
        rw [hD] at ihfn
        refine ⟨?_, fun vs hvs => by simp [argsStep, bindP] at hvs⟩
        have := hR.trans hcfn (hR.bind ihfn (fun _ => hR.refl _))
        simpa [mapP, bindP, bindOk, argsStep] using this
      | success vs =>
        rw [hD] at ihfn
        have hvl : vs.length = done.length := argsSpec_length σ done vs hD
        have hav' : R (σ av) (operandS σ c vs s) :=
          hR.trans (shallowRoot_consistent hR hc hroot) (operand_rel hR σ st.h c s vs (ihh vs hD))
        refine ⟨?_, ?_⟩
        · have := hR.trans hcfn (hR.bind ihfn (fun f => hR.bind hav' (fun _ => hR.refl _)))
          simp only [mapP, bindP, bindOk, argsStep] at this ⊢
          cases ho : operandS σ c vs s with
          | none => simpa [ho] using this
          | some t2 =>
            cases t2 with
            | failure e => simpa [ho] using this
            | success y =>
              have hp := applyC_partial N fn .d vs y (by simp at hlen; omega)
              simpa [ho, hp] using this
        · intro ws hws
          simp only [argsStep, bindP] at hws
          cases ho : operandS σ c vs s with
          | none => simp [ho] at hws
          | some t2 =>
            cases t2 with
            | failure e => simp [ho] at hws
            | success y =>
              simp [ho] at hws; subst hws
              rw [ho] at hav'
              have := hR.trans hch (hR.bind hav' (fun _ => hR.bind (ihh vs hD) (fun _ => hR.refl _)))
              simpa [bindOk, hconsW, hcons, hl] using this

/-- **Denotation of a chain, generic in the relation.**  Whenever `σ` is `R`-consistent with the net (sound, complete or
    a fixpoint), the future the last method call returned is `R`-related to the do-notation reading. -/
theorem chain_rel {R : TV → TV → Prop} (hR : BRel R) {σ : Nat → TV} {n : Net} (hc : Consistent R σ n)
    (fn : NFn) {steps : List (Ex × Step)} {q : Nat} (hb : BuiltLast (applyC steps.length fn) n steps q) :
    R (σ q) (chainSpec σ fn steps []) := by
  obtain ⟨done, st, c, s, av, hs, hbd, hav, hroot, _, hsp⟩ := hb
  have hlen : done.length < steps.length := by rw [hs]; simp
  obtain ⟨ihfn, ihh⟩ := built_rel hR hc steps.length fn hbd hlen
  have hcq := hc q; rw [hsp, evalS_ap] at hcq
  rw [chainSpec_eq_args, hs, argsSpec_snoc]
  rw [hs] at hcq
  cases hD : argsSpec σ done with
  | none =>
    rw [hD] at ihfn
    have := hR.trans hcq (hR.bind ihfn (fun _ => hR.refl _))
    simpa [mapP, bindP, bindOk, argsStep] using this
  | some t =>
    cases t with
    | failure e =>
      rw [hD] at ihfn
      have := hR.trans hcq (hR.bind ihfn (fun _ => hR.refl _))
      simpa [mapP, bindP, bindOk, argsStep] using this
    | success vs =>
      rw [hD] at ihfn
      have hvl : vs.length = done.length := argsSpec_length σ done vs hD
      have hav' : R (σ av) (operandS σ c vs s) :=
        hR.trans (shallowRoot_consistent hR hc hroot) (operand_rel hR σ st.h c s vs (ihh vs hD))
      have := hR.trans hcq (hR.bind ihfn (fun f => hR.bind hav' (fun _ => hR.refl _)))
      simp only [mapP, bindP, bindOk, argsStep] at this ⊢
      cases ho : operandS σ c vs s with
      | none => simpa [ho] using this
      | some t2 =>
        cases t2 with
        | failure e => simpa [ho] using this
        | success y =>
          have hp := applyC_last (done.length + 1) fn .d vs y (by omega)
          simpa [ho, hp] using this

-- building establishes `Built` -----------------------------------------------------------------------------------------

/-- the only handles a step mentions directly are those of `ApFuture` -/
def StepWF (b : Nat) : Step → Prop
  | .a (.apFuture a) => a < b
  | _ => True

theorem chainOperand_ros {b h : Nat} (c : Ex) {s : Step} (hh : h < b) (hs : StepWF b s) :
    RefOrShallow b (chainOperand h c s) := by
  cases s with
  | a s =>
    cases s with
    | apFuture a => exact .inl ⟨a, rfl, hs⟩
    | ap v => exact .inr (.successful v)
    | apTry t => cases t <;> exact .inr (by constructor)
    | apOption o => cases o <;> exact .inr (by constructor)
    | apFutureFunc s => exact .inr (.flatMap _ _)
    | apTryFunc s => exact .inr (.flatMap _ _)
    | apOptionFunc s => exact .inr (.flatMap _ _)
    | apFunc s => exact .inr (.flatMap _ _)
  | flatMap k => exact .inr (.flatMap _ _)
  | map k => exact .inr (.flatMap _ _)
  | hlistFlatMap k => exact .inr (.flatMap _ _)
  | hlistMap k => exact .inr (.flatMap _ _)

theorem chainNew_built (app : Ex → Val → Val → W Val) (n : Net) :
    Built app (chainNew n).2 [] (chainNew n).1 ∧ SpecLe n (chainNew n).2 ∧ (chainNew n).2.log = n.log := by
  simp only [chainNew]
  have b1 := build_shallow (.successful (hl [])) n
  generalize build (.successful (hl [])) n = r1 at b1
  obtain ⟨h, n1⟩ := r1
  have b2 := build_shallow (.successful (pa [])) n1
  generalize build (.successful (pa [])) n1 = r2 at b2
  obtain ⟨f, n2⟩ := r2
  simp only at b1 b2 ⊢
  refine ⟨.new _ ?_ b2.lt ?_ b2.spec_root, b1.specLe.trans b2.specLe, by rw [b2.log, b1.log]⟩
  · exact Nat.lt_of_lt_of_le b1.lt b2.specLe.next
  · show n2.spec h = _
    rw [b2.specLe.spec h b1.lt]; exact b1.spec_root

/-- one method call of the generated `MonadChainN` (N ≥ 2) -/
theorem chainStep_built {app : Ex → Val → Val → W Val} {n : Net} {done : List (Ex × Step)} {st : ChainSt}
    (hb : Built app n done st) (c : Ex) {s : Step} (hs : StepWF n.next s) :
    Built app (chainStep app st c s n).2 (done ++ [(c, s)]) (chainStep app st c s n).1 ∧
    SpecLe n (chainStep app st c s n).2 ∧ (chainStep app st c s n).2.log = n.log := by
  simp only [chainStep]
  obtain ⟨hlh, hlf⟩ := hb.lt
  have b1 := build_refOrShallow (chainOperand_ros c hlh hs)
  generalize build (chainOperand st.h c s) n = r1 at b1
  obtain ⟨av, n1⟩ := r1
  obtain ⟨le1, root1, lt1, log1⟩ := b1
  simp only at le1 root1 lt1 log1 ⊢
  have b2 : Alloc1 n1 (map2 av st.h hconsW) (build (map2 av st.h hconsW) n1).1 (build (map2 av st.h hconsW) n1).2 :=
    build_shallow (.flatMap av _) n1
  generalize build (map2 av st.h hconsW) n1 = r2 at b2
  obtain ⟨nh, n2⟩ := r2
  have b3 : Alloc1 n2 (Fut.ap app st.fn av .d) (build (Fut.ap app st.fn av .d) n2).1 (build (Fut.ap app st.fn av .d) n2).2 :=
    build_shallow (.flatMap st.fn _) n2
  generalize build (Fut.ap app st.fn av .d) n2 = r3 at b3
  obtain ⟨nf, n3⟩ := r3
  simp only at le1 root1 lt1 log1 b2 b3 ⊢
  have le13 : SpecLe n1 n3 := b2.specLe.trans b3.specLe
  refine ⟨.step done st _ c s av (hb.mono (le1.trans le13)) (Nat.lt_of_lt_of_le lt1 le13.next)
      (root1.mono le13 lt1) ?_ b3.lt ?_ b3.spec_root, le1.trans le13, by rw [b3.log, b2.log, log1]⟩
  · exact Nat.lt_of_lt_of_le b2.lt b3.specLe.next
  · show n3.spec nh = _
    rw [b3.specLe.spec nh b2.lt]; exact b2.spec_root

/-- one method call of the hand-written `MonadChain1` -/
theorem chainLast_built {app : Ex → Val → Val → W Val} {n : Net} {done : List (Ex × Step)} {st : ChainSt}
    (hb : Built app n done st) (c : Ex) {s : Step} (hs : StepWF n.next s) :
    BuiltLast app (chainLast app st c s n).2 (done ++ [(c, s)]) (chainLast app st c s n).1 ∧
    SpecLe n (chainLast app st c s n).2 ∧ (chainLast app st c s n).2.log = n.log := by
  simp only [chainLast]
  obtain ⟨hlh, hlf⟩ := hb.lt
  have b1 := build_refOrShallow (chainOperand_ros c hlh hs)
  generalize build (chainOperand st.h c s) n = r1 at b1
  obtain ⟨av, n1⟩ := r1
  obtain ⟨le1, root1, lt1, log1⟩ := b1
  simp only at le1 root1 lt1 log1 ⊢
  have b3 : Alloc1 n1 (Fut.ap app st.fn av .d) (build (Fut.ap app st.fn av .d) n1).1 (build (Fut.ap app st.fn av .d) n1).2 :=
    build_shallow (.flatMap st.fn _) n1
  generalize build (Fut.ap app st.fn av .d) n1 = r3 at b3
  obtain ⟨q, n3⟩ := r3
  simp only at le1 root1 lt1 log1 b3 ⊢
  exact ⟨⟨done, st, c, s, av, rfl, hb.mono (le1.trans b3.specLe), Nat.lt_of_lt_of_le lt1 b3.specLe.next,
    root1.mono b3.specLe lt1, b3.lt, b3.spec_root⟩, le1.trans b3.specLe, by rw [b3.log, log1]⟩

theorem StepWF.mono {b b' : Nat} (h : b ≤ b') {s : Step} (hs : StepWF b s) : StepWF b' s := by
  cases s with
  | a s => cases s <;> first | exact Nat.lt_of_lt_of_le hs h | trivial
  | _ => trivial

theorem chainRun_built {app : Ex → Val → Val → W Val} (steps : List (Ex × Step)) :
    ∀ {n : Net} {done : List (Ex × Step)} {st : ChainSt}, Built app n done st → steps ≠ [] →
    (∀ cs ∈ steps, StepWF n.next cs.2) →
    BuiltLast app (chainRun app st steps n).2 (done ++ steps) (chainRun app st steps n).1 ∧
    SpecLe n (chainRun app st steps n).2 ∧ (chainRun app st steps n).2.log = n.log := by
  induction steps with
  | nil => intro _ _ _ _ h; exact absurd rfl h
  | cons cs rest ih =>
    intro n done st hb _ hwf
    obtain ⟨c, s⟩ := cs
    cases rest with
    | nil => exact chainLast_built hb c (hwf (c, s) (by simp))
    | cons cs2 rest2 =>
      simp only [chainRun]
      obtain ⟨hb1, le1, log1⟩ := chainStep_built hb c (hwf (c, s) (by simp))
      generalize chainStep app st c s n = r1 at hb1 le1 log1
      obtain ⟨st1, n1⟩ := r1
      simp only at hb1 le1 log1 ⊢
      obtain ⟨hb2, le2, log2⟩ := ih hb1 (by simp)
        (fun x hx => (hwf x (by simp [hx])).mono le1.next)
      refine ⟨?_, le1.trans le2, by rw [log2, log1]⟩
      simpa [List.append_assoc] using hb2

/-- **`ChainN(fn).m1(…)…mN(…)` on any net**: the returned handle is the last future of a chain with exactly these
    method calls; existing futures keep their meaning; nothing is logged. -/
theorem runChain_built (fn : NFn) (steps : List (Ex × Step)) (n : Net) (hne : steps ≠ [])
    (hwf : ∀ cs ∈ steps, StepWF n.next cs.2) :
    BuiltLast (applyC steps.length fn) (runChain fn steps n).2 steps (runChain fn steps n).1 ∧
    SpecLe n (runChain fn steps n).2 ∧ (runChain fn steps n).2.log = n.log := by
  simp only [runChain]
  obtain ⟨hb0, le0, log0⟩ := chainNew_built (applyC steps.length fn) n
  generalize chainNew n = r0 at hb0 le0 log0
  obtain ⟨st0, n0⟩ := r0
  simp only at hb0 le0 log0 ⊢
  obtain ⟨hb1, le1, log1⟩ := chainRun_built steps hb0 hne (fun x hx => (hwf x hx).mono le0.next)
  exact ⟨by simpa using hb1, le0.trans le1, by rw [log1, log0]⟩

-- ApplicativeFunctorN ------------------------------------------------------------------------------------------------------

/-- the net contains the futures of an `ApplicativeFunctor` builder on which the method calls `done` have been made
    (recorded with the executor that really reached `ApFunc`); `f` is the builder's `fn` — after the last call, the result -/
inductive ABuilt (app : Ex → Val → Val → W Val) (n : Net) : List (Ex × Step) → Nat → Prop where
  | new (f : Nat) : f < n.next → n.spec f = .successful (pa []) → ABuilt app n [] f
  | value (done : List (Ex × Step)) (f f' : Nat) (c : Ex) (s : AStep) (a : Nat) :
      ABuilt app n done f → s.supplier = none → a < n.next → ShallowRoot n a s.valueExpr →
      f' < n.next → n.spec f' = Fut.ap app f a .d → ABuilt app n (done ++ [(c, .a s)]) f'
  | supplier (done : List (Ex × Step)) (f f' : Nat) (c : Ex) (s : AStep) (sup : Ex → FExpr) :
      ABuilt app n done f → s.supplier = some sup →
      f' < n.next → n.spec f' = Fut.apFunc app f sup c → ABuilt app n (done ++ [(c, .a s)]) f'

theorem ABuilt.lt {app : Ex → Val → Val → W Val} {n : Net} {done : List (Ex × Step)} {f : Nat}
    (h : ABuilt app n done f) : f < n.next := by
  cases h with
  | new _ h1 _ => exact h1
  | value _ _ _ _ _ _ _ _ _ _ h1 _ => exact h1
  | supplier _ _ _ _ _ _ _ _ h1 _ => exact h1

theorem ABuilt.mono {app : Ex → Val → Val → W Val} {n n' : Net} (hle : SpecLe n n') {done : List (Ex × Step)}
    {f : Nat} (h : ABuilt app n done f) : ABuilt app n' done f := by
  induction h with
  | new f h1 h2 => exact .new f (Nat.lt_of_lt_of_le h1 hle.next) (by rw [hle.spec _ h1]; exact h2)
  | value done f f' c s a _ hs ha hroot h1 h2 ih =>
    exact .value done f f' c s a ih hs (Nat.lt_of_lt_of_le ha hle.next) (hroot.mono hle ha)
      (Nat.lt_of_lt_of_le h1 hle.next) (by rw [hle.spec _ h1]; exact h2)
  | supplier done f f' c s sup _ hs h1 h2 ih =>
    exact .supplier done f f' c s sup ih hs (Nat.lt_of_lt_of_le h1 hle.next) (by rw [hle.spec _ h1]; exact h2)

/-- what a curried `fn` of arity `N` has produced after the arguments `ws` -/
def appRes (N : Nat) (fn : NFn) (cx : Ex) (ws : List Val) : Val := if ws.length < N then pa ws else (fn cx ws).1

theorem applyC_appRes (N : Nat) (fn : NFn) (c : Ex) (vs : List Val) (x : Val) :
    (applyC N fn c (pa vs) x).1 = appRes N fn c (vs ++ [x]) := by
  simp only [applyC, paArgs, pa, appRes]
  split <;> rfl

/-- the executor handed to the curried function by the most recent call -/
def lastCx (l : List (Ex × Step)) : Ex :=
  match l.getLast? with
  | some (c, .a s) => if s.supplier.isSome then c else .d
  | _ => .d

theorem supplier_evalS (σ : Nat → TV) (c : Ex) {s : AStep} {sup : Ex → FExpr} (h : s.supplier = some sup) :
    evalS σ (sup c) = aOperandS σ c s := by
  cases s <;> simp [AStep.supplier] at h <;> subst h <;>
    simp [aOperandS, evalS, evalS_fromTry, evalS_fromOption]

theorem value_evalS (σ : Nat → TV) (c : Ex) {s : AStep} (h : s.supplier = none) :
    evalS σ s.valueExpr = aOperandS σ c s := by
  cases s <;> simp [AStep.supplier] at h <;>
    simp [aOperandS, AStep.valueExpr, evalS, evalS_fromTry, evalS_fromOption]

theorem bindP_congr {α : Type} (D : Option (Try α)) (K K' : α → TV) (h : ∀ ws, D = some (.success ws) → K ws = K' ws) :
    bindP D K = bindP D K' := by
  rcases D with _ | (ws | e)
  · rfl
  · exact h ws rfl
  · rfl

theorem abuilt_rel {R : TV → TV → Prop} (hR : BRel R) {σ : Nat → TV} {n : Net} (hc : Consistent R σ n)
    (N : Nat) (fn : NFn) {done : List (Ex × Step)} {f : Nat}
    (hb : ABuilt (applyC N fn) n done f) (hlen : done.length ≤ N) (hN : 0 < N) :
    R (σ f) (bindP (argsSpec σ done) (fun ws => some (.success (appRes N fn (lastCx done) ws)))) := by
  induction hb with
  | new f _ h2 =>
    have := hc f; rw [h2] at this
    simpa [argsSpec, bindP, appRes, evalS, hN] using this
  | value done f f' c s a _ hs ha hroot _ h2 ih =>
    have hlen' : done.length < N := by simp at hlen; omega
    have ih := ih (Nat.le_of_lt hlen')
    have hcf := hc f'; rw [h2, evalS_ap] at hcf
    have hav : R (σ a) (aOperandS σ c s) := by
      have := shallowRoot_consistent hR hc hroot; rwa [value_evalS σ c hs] at this
    rw [argsSpec_snoc]
    have hl : lastCx (done ++ [(c, Step.a s)]) = .d := by simp [lastCx, hs]
    rw [hl]
    cases hD : argsSpec σ done with
    | none =>
      rw [hD] at ih
      have := hR.trans hcf (hR.bind ih (fun _ => hR.refl _))
      simpa [bindP, bindOk, argsStep] using this
    | some t =>
      cases t with
      | failure e =>
        rw [hD] at ih
        have := hR.trans hcf (hR.bind ih (fun _ => hR.refl _))
        simpa [bindP, bindOk, argsStep] using this
      | success vs =>
        rw [hD] at ih
        have hvl : vs.length = done.length := argsSpec_length σ done vs hD
        have hpa : appRes N fn (lastCx done) vs = pa vs := by simp [appRes, hvl, hlen']
        have := hR.trans hcf (hR.bind ih (fun _ => hR.bind hav (fun _ => hR.refl _)))
        simp only [bindP, bindOk, argsStep, operandS, hpa, applyC_appRes] at this ⊢
        cases ho : aOperandS σ c s with
        | none => simpa [ho] using this
        | some t2 => cases t2 <;> simpa [ho] using this
  | supplier done f f' c s sup _ hs _ h2 ih =>
    have hlen' : done.length < N := by simp at hlen; omega
    have ih := ih (Nat.le_of_lt hlen')
    have hcf := hc f'; rw [h2, evalS_apFunc, supplier_evalS σ c hs] at hcf
    rw [argsSpec_snoc]
    have hl : lastCx (done ++ [(c, Step.a s)]) = c := by simp [lastCx, hs]
    rw [hl]
    cases hD : argsSpec σ done with
    | none =>
      rw [hD] at ih
      have := hR.trans hcf (hR.bind ih (fun _ => hR.refl _))
      simpa [bindP, bindOk, argsStep] using this
    | some t =>
      cases t with
      | failure e =>
        rw [hD] at ih
        have := hR.trans hcf (hR.bind ih (fun _ => hR.refl _))
        simpa [bindP, bindOk, argsStep] using this
      | success vs =>
        rw [hD] at ih
        have hvl : vs.length = done.length := argsSpec_length σ done vs hD
        have hpa : appRes N fn (lastCx done) vs = pa vs := by simp [appRes, hvl, hlen']
        have := hR.trans hcf (hR.bind ih (fun _ => hR.refl _))
        simp only [bindP, bindOk, argsStep, operandS, hpa, applyC_appRes] at this ⊢
        cases ho : aOperandS σ c s with
        | none => simpa [ho] using this
        | some t2 => cases t2 <;> simpa [ho] using this

theorem lastCx_effA (steps : List (Ex × AStep)) : lastCx (effA steps) = finalEx steps := by
  induction steps with
  | nil => rfl
  | cons cs ss ih =>
    obtain ⟨c, s⟩ := cs
    cases ss with
    | nil => simp [effA, lastCx, finalEx]
    | cons cs2 ss2 =>
      have hne : effA (cs2 :: ss2) ≠ [] := by
        intro h; have := congrArg List.length h; rw [effA_length] at this; simp at this
      simp only [effA, finalEx] at ih ⊢
      rw [← ih]
      simp only [lastCx, List.getLast?_cons_of_ne_nil hne]

/-- **Denotation of an applicative builder, generic in the relation** -/
theorem applicative_rel {R : TV → TV → Prop} (hR : BRel R) {σ : Nat → TV} {n : Net} (hc : Consistent R σ n)
    (fn : NFn) {steps : List (Ex × AStep)} (hne : steps ≠ []) {q : Nat}
    (hb : ABuilt (applyC steps.length fn) n (effA steps) q) :
    R (σ q) (applicativeSpec σ fn steps []) := by
  have h := abuilt_rel hR hc steps.length fn hb (by rw [effA_length]; exact Nat.le_refl _)
    (by cases steps with | nil => exact absurd rfl hne | cons _ _ => simp)
  rw [applicativeSpec_eq_fold, lastCx_effA] at *
  have hcg := bindP_congr (argsSpec σ (effA steps))
    (fun ws => some (.success (appRes steps.length fn (finalEx steps) ws)))
    (fun ws => some (.success (fn (finalEx steps) ws).1))
    (fun ws hws => by
      have := argsSpec_length σ _ ws hws
      rw [effA_length] at this
      simp [appRes, this])
  rw [hcg] at h
  exact h

def AStepWF (b : Nat) : AStep → Prop
  | .apFuture a => a < b
  | _ => True

theorem AStepWF.mono {b b' : Nat} (h : b ≤ b') {s : AStep} (hs : AStepWF b s) : AStepWF b' s := by
  cases s <;> first | exact Nat.lt_of_lt_of_le hs h | trivial

theorem valueExpr_ros {b : Nat} {s : AStep} (hs : AStepWF b s) (hn : s.supplier = none) :
    RefOrShallow b s.valueExpr := by
  cases s with
  | apFuture a => exact .inl ⟨a, rfl, hs⟩
  | ap v => exact .inr (.successful v)
  | apTry t => cases t <;> exact .inr (by constructor)
  | apOption o => cases o <;> exact .inr (by constructor)
  | _ => simp [AStep.supplier] at hn

theorem applicativeNew_built (app : Ex → Val → Val → W Val) (n : Net) :
    ABuilt app (applicativeNew n).2 [] (applicativeNew n).1 ∧ SpecLe n (applicativeNew n).2 ∧
    (applicativeNew n).2.log = n.log := by
  have b := build_shallow (.successful (pa [])) n
  exact ⟨.new _ b.lt b.spec_root, b.specLe, b.log⟩

theorem applicativeStep_built {app : Ex → Val → Val → W Val} {n : Net} {done : List (Ex × Step)} {f : Nat}
    (hb : ABuilt app n done f) (last : Bool) (c : Ex) {s : AStep} (hs : AStepWF n.next s) :
    ABuilt app (applicativeStep app f last c s n).2 (done ++ [(if last then c else .d, .a s)])
      (applicativeStep app f last c s n).1 ∧
    SpecLe n (applicativeStep app f last c s n).2 ∧ (applicativeStep app f last c s n).2.log = n.log := by
  unfold applicativeStep
  cases hsup : s.supplier with
  | some sup =>
    simp only
    have b : Alloc1 n (Fut.apFunc app f sup (if last then c else .d))
        (build (Fut.apFunc app f sup (if last then c else .d)) n).1
        (build (Fut.apFunc app f sup (if last then c else .d)) n).2 := build_shallow (.flatMap f _) n
    exact ⟨.supplier done f _ _ s sup (hb.mono b.specLe) hsup b.lt b.spec_root, b.specLe, b.log⟩
  | none =>
    simp only
    have b1 := build_refOrShallow (valueExpr_ros hs hsup)
    generalize build s.valueExpr n = r1 at b1
    obtain ⟨a, n1⟩ := r1
    obtain ⟨le1, root1, lt1, log1⟩ := b1
    simp only at le1 root1 lt1 log1 ⊢
    have b3 : Alloc1 n1 (Fut.ap app f a .d) (build (Fut.ap app f a .d) n1).1 (build (Fut.ap app f a .d) n1).2 :=
      build_shallow (.flatMap f _) n1
    exact ⟨.value done f _ _ s a (hb.mono (le1.trans b3.specLe)) hsup (Nat.lt_of_lt_of_le lt1 b3.specLe.next)
      (root1.mono b3.specLe lt1) b3.lt b3.spec_root, le1.trans b3.specLe, by rw [b3.log, log1]⟩

theorem applicativeRun_built {app : Ex → Val → Val → W Val} (steps : List (Ex × AStep)) :
    ∀ {n : Net} {done : List (Ex × Step)} {f : Nat}, ABuilt app n done f →
    (∀ cs ∈ steps, AStepWF n.next cs.2) →
    ABuilt app (applicativeRun app f steps n).2 (done ++ effA steps) (applicativeRun app f steps n).1 ∧
    SpecLe n (applicativeRun app f steps n).2 ∧ (applicativeRun app f steps n).2.log = n.log := by
  induction steps with
  | nil => intro n done f hb _; exact ⟨by simpa [effA, applicativeRun] using hb, SpecLe.refl n, rfl⟩
  | cons cs rest ih =>
    intro n done f hb hwf
    obtain ⟨c, s⟩ := cs
    cases rest with
    | nil => simpa [applicativeRun, effA] using applicativeStep_built hb true c (hwf (c, s) (by simp))
    | cons cs2 rest2 =>
      simp only [applicativeRun]
      obtain ⟨hb1, le1, log1⟩ := applicativeStep_built hb false c (hwf (c, s) (by simp))
      generalize applicativeStep app f false c s n = r1 at hb1 le1 log1
      obtain ⟨f1, n1⟩ := r1
      simp only at hb1 le1 log1 ⊢
      obtain ⟨hb2, le2, log2⟩ := ih hb1 (fun x hx => (hwf x (by simp [hx])).mono le1.next)
      refine ⟨?_, le1.trans le2, by rw [log2, log1]⟩
      simpa [effA, List.append_assoc] using hb2

theorem runApplicative_built (fn : NFn) (steps : List (Ex × AStep)) (n : Net)
    (hwf : ∀ cs ∈ steps, AStepWF n.next cs.2) :
    ABuilt (applyC steps.length fn) (runApplicative fn steps n).2 (effA steps) (runApplicative fn steps n).1 ∧
    SpecLe n (runApplicative fn steps n).2 ∧ (runApplicative fn steps n).2.log = n.log := by
  simp only [runApplicative]
  obtain ⟨hb0, le0, log0⟩ := applicativeNew_built (applyC steps.length fn) n
  generalize applicativeNew n = r0 at hb0 le0 log0
  obtain ⟨f0, n0⟩ := r0
  simp only at hb0 le0 log0 ⊢
  obtain ⟨hb1, le1, log1⟩ := applicativeRun_built steps hb0 (fun x hx => (hwf x hx).mono le0.next)
  exact ⟨by simpa using hb1, le0.trans le1, by rw [log1, log0]⟩

-- FlapN -------------------------------------------------------------------------------------------------------------------

/-- the function value `FlapN(tf)(x1)…(xN)` ends with: every application but the last on the default executor -/
def flapVal (app : Ex → Val → Val → W Val) (c : Ex) : Val → List Val → Val
  | f, [] => f
  | f, [x] => (app c f x).1
  | f, x :: xs => flapVal app c (app .d f x).1 xs

/-- (d) applying a `FlapN` keeps the existing futures and logs nothing -/
theorem flapRun_frame (app : Ex → Val → Val → W Val) (c : Ex) (xs : List Val) : ∀ (tf : Nat) (n : Net), tf < n.next →
    SpecLe n (flapRun app c tf xs n).2 ∧ (flapRun app c tf xs n).2.log = n.log ∧
    (flapRun app c tf xs n).1 < (flapRun app c tf xs n).2.next := by
  induction xs with
  | nil => intro tf n htf; exact ⟨SpecLe.refl n, rfl, htf⟩
  | cons x xs ih =>
    intro tf n htf
    cases xs with
    | nil =>
      simp only [flapRun]
      have b1 := build_shallow (.successful x) n
      generalize build (.successful x) n = r1 at b1 ⊢
      obtain ⟨a, n1⟩ := r1
      simp only at b1 ⊢
      have b2 : Alloc1 n1 (Fut.ap app tf a c) (build (Fut.ap app tf a c) n1).1 (build (Fut.ap app tf a c) n1).2 :=
        build_shallow (.flatMap tf _) n1
      exact ⟨b1.specLe.trans b2.specLe, by rw [b2.log, b1.log], b2.lt⟩
    | cons y ys =>
      simp only [flapRun]
      have b1 := build_shallow (.successful x) n
      generalize build (.successful x) n = r1 at b1 ⊢
      obtain ⟨a, n1⟩ := r1
      simp only at b1 ⊢
      have b2 : Alloc1 n1 (Fut.ap app tf a .d) (build (Fut.ap app tf a .d) n1).1 (build (Fut.ap app tf a .d) n1).2 :=
        build_shallow (.flatMap tf _) n1
      generalize build (Fut.ap app tf a .d) n1 = r2 at b2 ⊢
      obtain ⟨t', n2⟩ := r2
      simp only at b2 ⊢
      obtain ⟨ih2, ih3, ih4⟩ := ih t' n2 b2.lt
      exact ⟨(b1.specLe.trans b2.specLe).trans ih2, by rw [ih3, b2.log, b1.log], ih4⟩
/-- **FlapN at every arity**, generic in the relation: the result denotes the function future's value applied to the
    arguments one after the other (a failed or undetermined function future stays so) -/
theorem flapRun_rel {R : TV → TV → Prop} (hR : BRel R) {σ : Nat → TV} (app : Ex → Val → Val → W Val) (c : Ex)
    (xs : List Val) : ∀ (tf : Nat) (n : Net), tf < n.next → ∀ (n' : Net), SpecLe (flapRun app c tf xs n).2 n' →
    Consistent R σ n' →
    R (σ (flapRun app c tf xs n).1) (bindOk (σ tf) (fun f => some (.success (flapVal app c f xs)))) := by
  induction xs with
  | nil =>
    intro tf n htf n' _ _
    have : bindOk (σ tf) (fun f => some (.success (flapVal app c f []))) = σ tf := by
      unfold bindOk flapVal; rcases σ tf with _ | (_ | _) <;> rfl
    show R (σ tf) _
    rw [this]; exact hR.refl _
  | cons x xs ih =>
    intro tf n htf n' hle hc
    cases xs with
    | nil =>
      simp only [flapRun] at hle ⊢
      have b1 := build_shallow (.successful x) n
      generalize build (.successful x) n = r1 at b1 hle ⊢
      obtain ⟨a, n1⟩ := r1
      simp only at b1 hle ⊢
      have b2 : Alloc1 n1 (Fut.ap app tf a c) (build (Fut.ap app tf a c) n1).1 (build (Fut.ap app tf a c) n1).2 :=
        build_shallow (.flatMap tf _) n1
      generalize build (Fut.ap app tf a c) n1 = r2 at b2 hle ⊢
      obtain ⟨q, n2⟩ := r2
      simp only at b2 hle ⊢
      have hcq := hc q
      rw [hle.spec q b2.lt, b2.spec_root, evalS_ap] at hcq
      have hca := hc a
      rw [hle.spec a (Nat.lt_of_lt_of_le b1.lt b2.specLe.next), b2.specLe.spec a b1.lt, b1.spec_root] at hca
      have := hR.trans hcq (hR.bind (hR.refl (σ tf)) (fun f => hR.bind hca (fun _ => hR.refl _)))
      simpa [bindOk, flapVal, evalS] using this
    | cons y ys =>
      simp only [flapRun] at hle ⊢
      have b1 := build_shallow (.successful x) n
      generalize build (.successful x) n = r1 at b1 hle ⊢
      obtain ⟨a, n1⟩ := r1
      simp only at b1 hle ⊢
      have b2 : Alloc1 n1 (Fut.ap app tf a .d) (build (Fut.ap app tf a .d) n1).1 (build (Fut.ap app tf a .d) n1).2 :=
        build_shallow (.flatMap tf _) n1
      generalize build (Fut.ap app tf a .d) n1 = r2 at b2 hle ⊢
      obtain ⟨t', n2⟩ := r2
      simp only at b2 hle ⊢
      have ih1 := ih t' n2 b2.lt n' hle hc
      have hle2 : SpecLe n2 n' := (flapRun_frame app c (y :: ys) t' n2 b2.lt).1.trans hle
      have hct := hc t'
      rw [hle2.spec t' b2.lt, b2.spec_root, evalS_ap] at hct
      have hca := hc a
      rw [hle2.spec a (Nat.lt_of_lt_of_le b1.lt b2.specLe.next), b2.specLe.spec a b1.lt, b1.spec_root] at hca
      have h1 := hR.trans hct (hR.bind (hR.refl (σ tf)) (fun f => hR.bind hca (fun _ => hR.refl _)))
      have h2 := hR.trans ih1 (hR.bind h1 (fun _ => hR.refl _))
      have heq : bindOk (bindOk (σ tf) fun f => bindOk (evalS σ (FExpr.successful x)) fun x_1 =>
            some (Try.success (app Ex.d f x_1).fst)) (fun f => some (Try.success (flapVal app c f (y :: ys))))
          = bindOk (σ tf) (fun f => some (.success (flapVal app c f (x :: y :: ys)))) := by
        rcases σ tf with _ | (_ | _) <;> simp [bindOk, evalS, flapVal]
      rw [heq] at h2
      exact h2

-- Ap / ApFunc / With called directly ---------------------------------------------------------------------------------------------

theorem apRun_rel {R : TV → TV → Prop} (hR : BRel R) {σ : Nat → TV} (fn : NFn) (c : Ex) (h1 a : Nat) (n : Net)
    (ha : a < n.next) (n' : Net) (hle : SpecLe (apRun fn c h1 a n).2 n') (hc : Consistent R σ n') :
    R (σ (apRun fn c h1 a n).1) (bindOk (σ h1) (fun x => bindOk (σ a) (fun y => some (.success (fn c [x, y]).1)))) ∧
    (apRun fn c h1 a n).2.log = n.log := by
  simp only [apRun] at hle ⊢
  have b1 : Alloc1 n (map (.ref h1) (fun x => (pa [x], []))) (build (map (.ref h1) (fun x => (pa [x], []))) n).1
      (build (map (.ref h1) (fun x => (pa [x], []))) n).2 := build_shallow (.flatMap h1 _) n
  generalize build (map (.ref h1) (fun x => (pa [x], []))) n = r1 at b1 hle ⊢
  obtain ⟨t, n1⟩ := r1
  simp only at b1 hle ⊢
  have b2 : Alloc1 n1 (Fut.ap (applyC 2 fn) t a c) (build (Fut.ap (applyC 2 fn) t a c) n1).1
      (build (Fut.ap (applyC 2 fn) t a c) n1).2 := build_shallow (.flatMap t _) n1
  generalize build (Fut.ap (applyC 2 fn) t a c) n1 = r2 at b2 hle ⊢
  obtain ⟨q, n2⟩ := r2
  simp only at b2 hle ⊢
  refine ⟨?_, by rw [b2.log, b1.log]⟩
  have hcq := hc q
  rw [hle.spec q b2.lt, b2.spec_root, evalS_ap] at hcq
  have hct := hc t
  rw [hle.spec t (Nat.lt_of_lt_of_le b1.lt b2.specLe.next), b2.specLe.spec t b1.lt, b1.spec_root, evalS_map] at hct
  have := hR.trans hcq (hR.bind hct (fun _ => hR.refl _))
  have heq : (bindOk (bindOk (evalS σ (FExpr.ref h1)) fun v => some (Try.success (pa [v], ([] : List Event)).fst)) fun f =>
        bindOk (σ a) fun x => some (Try.success (applyC 2 fn c f x).fst))
      = bindOk (σ h1) (fun x => bindOk (σ a) (fun y => some (.success (fn c [x, y]).1))) := by
    simp only [evalS]
    rcases σ h1 with _ | (x | e)
    · rfl
    · simp only [bindOk]
      congr 1
    · rfl
  rw [heq] at this
  exact this

theorem apFuncRun_rel {R : TV → TV → Prop} (hR : BRel R) {σ : Nat → TV} (fn : NFn) (c : Ex) (h1 : Nat) (a : Ex → FExpr)
    (n : Net) (n' : Net) (hle : SpecLe (apFuncRun fn c h1 a n).2 n') (hc : Consistent R σ n') :
    R (σ (apFuncRun fn c h1 a n).1)
      (bindOk (σ h1) (fun x => bindOk (evalS σ (a c)) (fun y => some (.success (fn c [x, y]).1)))) ∧
    (apFuncRun fn c h1 a n).2.log = n.log := by
  simp only [apFuncRun] at hle ⊢
  have b1 : Alloc1 n (map (.ref h1) (fun x => (pa [x], []))) (build (map (.ref h1) (fun x => (pa [x], []))) n).1
      (build (map (.ref h1) (fun x => (pa [x], []))) n).2 := build_shallow (.flatMap h1 _) n
  generalize build (map (.ref h1) (fun x => (pa [x], []))) n = r1 at b1 hle ⊢
  obtain ⟨t, n1⟩ := r1
  simp only at b1 hle ⊢
  have b2 : Alloc1 n1 (Fut.apFunc (applyC 2 fn) t a c) (build (Fut.apFunc (applyC 2 fn) t a c) n1).1
      (build (Fut.apFunc (applyC 2 fn) t a c) n1).2 := build_shallow (.flatMap t _) n1
  generalize build (Fut.apFunc (applyC 2 fn) t a c) n1 = r2 at b2 hle ⊢
  obtain ⟨q, n2⟩ := r2
  simp only at b2 hle ⊢
  refine ⟨?_, by rw [b2.log, b1.log]⟩
  have hcq := hc q
  rw [hle.spec q b2.lt, b2.spec_root, evalS_apFunc] at hcq
  have hct := hc t
  rw [hle.spec t (Nat.lt_of_lt_of_le b1.lt b2.specLe.next), b2.specLe.spec t b1.lt, b1.spec_root, evalS_map] at hct
  have := hR.trans hcq (hR.bind hct (fun _ => hR.refl _))
  have heq : (bindOk (bindOk (evalS σ (FExpr.ref h1)) fun v => some (Try.success (pa [v], ([] : List Event)).fst)) fun f =>
        bindOk (evalS σ (a c)) fun x => some (Try.success (applyC 2 fn c f x).fst))
      = bindOk (σ h1) (fun x => bindOk (evalS σ (a c)) (fun y => some (.success (fn c [x, y]).1))) := by
    simp only [evalS]
    rcases σ h1 with _ | (x | e)
    · rfl
    · simp only [bindOk]
      congr 1
    · rfl
  rw [heq] at this
  exact this

theorem withRun_rel {R : TV → TV → Prop} (hR : BRel R) {σ : Nat → TV} (fn : NFn) (c : Ex) (v : Nat) (a : Val) (n : Net)
    (n' : Net) (hle : SpecLe (withRun fn c v a n).2 n') (hc : Consistent R σ n') :
    R (σ (withRun fn c v a n).1) (bindOk (σ v) (fun b => some (.success (fn c [a, b]).1))) ∧
    (withRun fn c v a n).2.log = n.log := by
  simp only [withRun] at hle ⊢
  have b1 : Alloc1 n (map (.ref v) (fun b => (pa [b], []))) (build (map (.ref v) (fun b => (pa [b], []))) n).1
      (build (map (.ref v) (fun b => (pa [b], []))) n).2 := build_shallow (.flatMap v _) n
  generalize build (map (.ref v) (fun b => (pa [b], []))) n = r1 at b1 hle ⊢
  obtain ⟨t, n1⟩ := r1
  simp only at b1 hle ⊢
  have b2 := build_shallow (.successful a) n1
  generalize build (.successful a) n1 = r2 at b2 hle ⊢
  obtain ⟨x, n2⟩ := r2
  simp only at b2 hle ⊢
  have b3 : Alloc1 n2 (Fut.ap (fun c f x => fn c (x :: paArgs f)) t x c)
      (build (Fut.ap (fun c f x => fn c (x :: paArgs f)) t x c) n2).1
      (build (Fut.ap (fun c f x => fn c (x :: paArgs f)) t x c) n2).2 := build_shallow (.flatMap t _) n2
  generalize build (Fut.ap (fun c f x => fn c (x :: paArgs f)) t x c) n2 = r3 at b3 hle ⊢
  obtain ⟨q, n3⟩ := r3
  simp only at b3 hle ⊢
  refine ⟨?_, by rw [b3.log, b2.log, b1.log]⟩
  have le23 : SpecLe n2 n' := b3.specLe.trans hle
  have le13 : SpecLe n1 n' := b2.specLe.trans le23
  have hcq := hc q
  rw [hle.spec q b3.lt, b3.spec_root, evalS_ap] at hcq
  have hct := hc t
  rw [le13.spec t b1.lt, b1.spec_root, evalS_map] at hct
  have hcx := hc x
  rw [le23.spec x b2.lt, b2.spec_root] at hcx
  have := hR.trans hcq (hR.bind hct (fun _ => hR.bind hcx (fun _ => hR.refl _)))
  have heq : (bindOk (bindOk (evalS σ (FExpr.ref v)) fun v => some (Try.success (pa [v], ([] : List Event)).fst)) fun f =>
        bindOk (evalS σ (FExpr.successful a)) fun x => some (Try.success (fn c (x :: paArgs f)).fst))
      = bindOk (σ v) (fun b => some (.success (fn c [a, b]).1)) := by
    simp only [evalS]
    rcases σ v with _ | (x | e) <;> simp [bindOk, paArgs, pa]
  rw [heq] at this
  exact this

end FpVerif.Spec.C14Fut
