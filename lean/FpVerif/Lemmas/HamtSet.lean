import FpVerif.Lemmas.HamtConv
/-!
`set`: every node kind's case as a separate lemma, then the induction over a well-formed trie.
-/
set_option linter.unusedSimpArgs false
set_option linter.unusedVariables false
namespace FpVerif.Hamt
variable {K V : Type} {h : Hasher K}

-- lawful hashers ---------------------------------------------------------------------------------

theorem LawfulHash.eqv_congr_left (hl : LawfulHash h) {a b : K} (hab : h.eqv a b = true) (c : K) :
    h.eqv a c = h.eqv b c := by
  cases hbc : h.eqv b c with
  | true => exact hl.trans _ _ _ hab hbc
  | false =>
    cases hac : h.eqv a c with
    | false => rfl
    | true =>
      have := hl.trans _ _ _ (hl.symm _ _ hab) hac
      rw [hbc] at this; cases this

theorem LawfulHash.eqv_congr_right (hl : LawfulHash h) {a b : K} (hab : h.eqv a b = true) (c : K) :
    h.eqv c a = h.eqv c b := by
  cases hcb : h.eqv c b with
  | true => exact hl.trans _ _ _ hcb (hl.symm _ _ hab)
  | false =>
    cases hca : h.eqv c a with
    | false => rfl
    | true =>
      have := hl.trans _ _ _ hca hab
      rw [hcb] at this; cases this

theorem LawfulHash.eqv_comm (hl : LawfulHash h) (a b : K) : h.eqv a b = h.eqv b a := by
  cases hab : h.eqv a b with
  | true => exact (hl.symm _ _ hab).symm
  | false =>
    cases hba : h.eqv b a with
    | false => rfl
    | true => have := hl.symm _ _ hba; rw [hab] at this; cases this

theorem LawfulHash.ne_of_hash_ne (hl : LawfulHash h) {a b : K} (hne : h.hash a ≠ h.hash b) :
    h.eqv a b = false := by
  cases hab : h.eqv a b with
  | false => rfl
  | true => exact absurd (hl.hash_eq _ _ hab) hne

theorem LawfulHash.ne_of_frag_ne (hl : LawfulHash h) {a b : K} {s : Nat}
    (hne : frag (h.hash a) s ≠ frag (h.hash b) s) : h.eqv a b = false :=
  hl.ne_of_hash_ne (fun heq => hne (by rw [heq]))

-- association lists: insert a new key / replace an existing one -------------------------------------

theorem lookup_insert_new (hl : LawfulHash h) {l l' : List (K × V)} {k : K} {v : V}
    (hno : ∀ e ∈ l, h.eqv e.1 k = false) (hl' : l' = l ++ [(k, v)] ∨ l' = (k, v) :: l) (k' : K) :
    lookup h k' l' = if h.eqv k k' then some v else lookup h k' l := by
  rcases hl' with rfl | rfl
  · rw [lookup_append, lookup_cons, lookup_nil]
    cases hkk : h.eqv k k' with
    | true =>
      have : lookup h k' l = none := by
        apply lookup_eq_none
        intro e he
        rw [← hl.eqv_congr_right hkk]; exact hno e he
      simp [this]
    | false => simp
  · rw [lookup_cons]

theorem lookup_none_of_new {l : List (K × V)} {k : K}
    (hno : ∀ e ∈ l, h.eqv e.1 k = false) : lookup h k l = none := lookup_eq_none hno

theorem distinct_insert_new (hl : LawfulHash h) {l : List (K × V)} {k : K} {v : V}
    (hd : DistinctKeys h l) (hno : ∀ e ∈ l, h.eqv e.1 k = false) :
    DistinctKeys h (l ++ [(k, v)]) ∧ DistinctKeys h ((k, v) :: l) := by
  unfold DistinctKeys at *
  constructor
  · rw [List.pairwise_append]
    refine ⟨hd, by simp, ?_⟩
    intro a ha b hb
    simp at hb; subst hb; exact hno a ha
  · rw [List.pairwise_cons]
    refine ⟨?_, hd⟩
    intro a ha
    rw [hl.eqv_comm]; exact hno a ha

/-- replacing the entry at the position found by `indexOf` -/
theorem replace_spec (hl : LawfulHash h) {es : List (K × V)} {k : K} {v : V} {i : Nat}
    (hd : DistinctKeys h es) (hi : indexOf h es k = some i) :
    (∀ k', lookup h k' (es.set i (k, v)) = if h.eqv k k' then some v else lookup h k' es) ∧
    (es.set i (k, v)).length = es.length ∧ DistinctKeys h (es.set i (k, v)) ∧
    (lookup h k es).isSome = true ∧
    (∀ e ∈ es.set i (k, v), (∃ e0 ∈ es, e0.1 = e.1) ∨ e.1 = k) ∧
    (∀ e ∈ es.set i (k, v), e = (k, v) ∨ e ∈ es) := by
  obtain ⟨e, hei, hek, hsplit, hbefore⟩ := indexOf_some hi
  have hilt : i < es.length := by
    rcases Nat.lt_or_ge i es.length with h1 | h1
    · exact h1
    · rw [List.getElem?_eq_none h1] at hei; cases hei
  have hset : es.set i (k, v) = es.take i ++ (k, v) :: es.drop (i + 1) := by
    rw [List.set_eq_take_append_cons_drop]; simp [hilt]
  have hd' := hd
  unfold DistinctKeys at hd'
  rw [hsplit, List.pairwise_append, List.pairwise_cons] at hd'
  obtain ⟨hdT, ⟨heD, hdD⟩, hTD⟩ := hd'
  refine ⟨?_, by simp, ?_, ?_, ?_, ?_⟩
  · intro k'
    rw [hset]
    conv => rhs; rw [hsplit]
    rw [lookup_append, lookup_append, lookup_cons, lookup_cons]
    cases hkk : h.eqv k k' with
    | true =>
      have : lookup h k' (es.take i) = none := by
        apply lookup_eq_none
        intro x hx
        rw [← hl.eqv_congr_right hkk]; exact hbefore x hx
      simp [this]
    | false =>
      have : h.eqv e.1 k' = false := by rw [hl.eqv_congr_left hek]; exact hkk
      simp [this]
  · unfold DistinctKeys
    rw [hset, List.pairwise_append, List.pairwise_cons]
    refine ⟨hdT, ⟨?_, hdD⟩, ?_⟩
    · intro a ha
      have := heD a ha
      rw [← hl.eqv_congr_left hek]; exact this
    · intro a ha b hb
      rcases List.mem_cons.mp hb with rfl | hb'
      · have := hTD a ha e (by simp)
        rw [← hl.eqv_congr_right hek]; exact this
      · exact hTD a ha b (by simp [hb'])
  · rw [lookup_isSome_iff]
    exact ⟨e, List.mem_of_getElem? hei, hek⟩
  · intro x hx
    rw [hset] at hx
    simp only [List.mem_append, List.mem_cons] at hx
    rcases hx with hx | rfl | hx
    · exact Or.inl ⟨x, List.mem_of_mem_take hx, rfl⟩
    · exact Or.inr rfl
    · exact Or.inl ⟨x, List.mem_of_mem_drop hx, rfl⟩
  · intro x hx
    rw [hset] at hx
    simp only [List.mem_append, List.mem_cons] at hx
    rcases hx with hx | rfl | hx
    · exact Or.inr (List.mem_of_mem_take hx)
    · exact Or.inl rfl
    · exact Or.inr (List.mem_of_mem_drop hx)

-- branch nodes: the effect of changing the segment of one slot ------------------------------------

theorem noMatch_of_frag_ne (hl : LawfulHash h) {s j : Nat} {k : K} (hk : frag (h.hash k) s = j)
    {A : List (K × V)} (hA : ∀ e ∈ A, frag (h.hash e.1) s ≠ j) : ∀ e ∈ A, h.eqv e.1 k = false := by
  intro e he
  apply hl.ne_of_frag_ne
  rw [hk]; exact hA e he

theorem branch_lookup (hl : LawfulHash h) {s j : Nat} {k : K} (hk : frag (h.hash k) s = j)
    {A B C C' : List (K × V)} {w : Option V}
    (hA : ∀ e ∈ A, frag (h.hash e.1) s ≠ j) (hB : ∀ e ∈ B, frag (h.hash e.1) s ≠ j)
    (hC : ∀ e ∈ C, frag (h.hash e.1) s = j) (hC' : ∀ e ∈ C', frag (h.hash e.1) s = j)
    (hupd : ∀ k', lookup h k' C' = if h.eqv k k' then w else lookup h k' C) (k' : K) :
    lookup h k' (A ++ C' ++ B) = if h.eqv k k' then w else lookup h k' (A ++ C ++ B) := by
  by_cases hj : frag (h.hash k') s = j
  · rw [lookup_mid (noMatch_of_frag_ne hl hj hA) (noMatch_of_frag_ne hl hj hB),
      lookup_mid (noMatch_of_frag_ne hl hj hA) (noMatch_of_frag_ne hl hj hB)]
    exact hupd k'
  · have hkk : h.eqv k k' = false := hl.ne_of_frag_ne (by rw [hk]; exact fun h' => hj h'.symm)
    have h1 : lookup h k' C = none := lookup_eq_none (fun e he => hl.ne_of_frag_ne (by rw [hC e he]; exact fun h' => hj h'.symm))
    have h2 : lookup h k' C' = none := lookup_eq_none (fun e he => hl.ne_of_frag_ne (by rw [hC' e he]; exact fun h' => hj h'.symm))
    simp [lookup_append, h1, h2, hkk]

-- bit lists of one and two bits -------------------------------------------------------------------

theorem bitsOf_zero : bitsOf 0 = [] := by
  unfold bitsOf
  rw [List.filter_eq_nil_iff]; simp

theorem bitsOf_bit {i : Nat} (hi : i < 32) : bitsOf (1 <<< i) = [i] := by
  have h0 : (0 : Nat) < 2 ^ i := Nat.pow_pos (by decide)
  obtain ⟨hlo, hhi⟩ := bits_below h0 hi
  have := bitsOf_or_bit (bm := 0) hi
  rw [Nat.zero_or, hlo, hhi, bitsOf_zero] at this
  simpa using this

theorem bitsOf_two {i1 i2 : Nat} (h12 : i1 < i2) (h2 : i2 < 32) :
    bitsOf ((1 <<< i1) ||| (1 <<< i2)) = [i1, i2] := by
  have hb : (1 <<< i1) < 2 ^ i2 := by
    rw [Nat.one_shiftLeft]; exact Nat.pow_lt_pow_right (by decide) h12
  obtain ⟨hlo, hhi⟩ := bits_below hb h2
  rw [bitsOf_or_bit h2, hlo, hhi, bitsOf_bit (by omega)]
  rfl

-- mergeIntoNode ---------------------------------------------------------------------------------------

/-- `mergeIntoNode` on a leaf whose hash differs from the new key's hash but agrees with it on the
    bits consumed so far: terminates, and yields a well-formed chain of bitmap nodes. -/
theorem mergeIntoNode_spec (hl : LawfulHash h) {leaf : Node K V} {kh : UInt32} (k : K) (v : V)
    (hk : kh = h.hash k) (hwf : ∀ s, WF h s leaf) (hna : ∀ es, leaf ≠ .array es)
    (hkeys : ∀ e ∈ leaf.toList, h.hash e.1 = leaf.keyHashValue) (hne : leaf.keyHashValue ≠ kh) :
    ∀ d s, 32 - s = d → pfxEq s leaf.keyHashValue kh →
      ∃ m, mergeIntoNode leaf s kh k v = .ok m ∧ WF h s m ∧
        (m.toList = leaf.toList ++ [(k, v)] ∨ m.toList = (k, v) :: leaf.toList) ∧
        (∀ es, m ≠ .array es) := by
  intro d
  induction d using Nat.strongRecOn with
  | _ d ih =>
    intro s hd hp
    have hs32 : s < 32 := by
      rcases Nat.lt_or_ge s 32 with h1 | h1
      · exact h1
      · exact absurd (pfxEq_eq h1 hp) hne
    have hi1 := frag_lt leaf.keyHashValue s
    have hi2 := frag_lt kh s
    rw [mergeIntoNode]
    by_cases heq : frag leaf.keyHashValue s = frag kh s
    · -- same fragment: one more level
      have hp' : pfxEq (s + 5) leaf.keyHashValue kh := pfxEq_succ.mpr ⟨hp, heq⟩
      obtain ⟨m', hm', hwf', hl', hna'⟩ := ih (32 - (s + 5)) (by omega) (s + 5) rfl hp'
      have hns : ¬ s ≥ 32 := by omega
      simp only [heq, beq_self_eq_true, if_true, hns, if_false, mapNodeBits, hm', bind, Except.bind,
        pure, Except.pure, Nat.or_self]
      refine ⟨_, rfl, ?_, ?_, by intro es; simp⟩
      · have hbits : bitsOf (1 <<< frag kh s) = [frag kh s] := bitsOf_bit hi2
        have hkids : kidsB (1 <<< frag kh s) [m'] = [(frag kh s, m')] := by
          unfold kidsB; rw [hbits]; rfl
        apply WF.bitmap hs32
        · rw [Nat.one_shiftLeft]; exact Nat.pow_lt_pow_right (by decide) hi2
        · unfold popCount; rw [hbits]; rfl
        · simp
        · simp [maxBitmapIndexedSize]
        · rw [hkids]; intro p hp; simp at hp; subst hp; exact hwf'
        · rw [hkids]; intro p hp e he
          simp at hp; subst hp
          simp only at he ⊢
          rcases hl' with hl' | hl' <;> rw [hl'] at he <;> simp at he
          · rcases he with he | rfl
            · rw [hkeys e he, heq]
            · rw [← hk]
          · rcases he with rfl | he
            · rw [← hk]
            · rw [hkeys e he, heq]
      · rw [toList_bitmap]; simpa using hl'
    · -- fragments differ: a two-way bitmap node
      have hvalue : WF h (s + 5) (Node.value kh k v) := WF.value hk
      simp only [beq_iff_eq, heq, if_false]
      by_cases hlt : frag leaf.keyHashValue s < frag kh s
      · simp only [hlt, if_true, pure, Except.pure]
        refine ⟨_, rfl, ?_, Or.inl (by rw [toList_bitmap]; simp), by intro es; simp⟩
        have hbits := bitsOf_two hlt hi2
        have hkids : kidsB ((1 <<< frag leaf.keyHashValue s) ||| (1 <<< frag kh s)) [leaf, Node.value kh k v] =
            [(frag leaf.keyHashValue s, leaf), (frag kh s, Node.value kh k v)] := by
          unfold kidsB; rw [hbits]; rfl
        apply WF.bitmap hs32
        · exact or_bit_lt (by rw [Nat.one_shiftLeft]; exact Nat.pow_lt_pow_right (by decide) hi1) hi2
        · unfold popCount; rw [hbits]; rfl
        · simp
        · simp [maxBitmapIndexedSize]
        · rw [hkids]; intro p hp; simp at hp
          rcases hp with rfl | rfl
          · exact hwf _
          · exact hvalue
        · rw [hkids]; intro p hp e he; simp at hp
          rcases hp with rfl | rfl
          · simp only at he ⊢; rw [hkeys e he]
          · simp at he; subst he; simp [← hk]
      · have hgt : frag kh s < frag leaf.keyHashValue s := by omega
        simp only [hlt, if_false, pure, Except.pure]
        refine ⟨_, rfl, ?_, Or.inr (by rw [toList_bitmap]; simp), by intro es; simp⟩
        have hbits := bitsOf_two hgt hi1
        rw [Nat.or_comm] at hbits
        have hkids : kidsB ((1 <<< frag leaf.keyHashValue s) ||| (1 <<< frag kh s)) [Node.value kh k v, leaf] =
            [(frag kh s, Node.value kh k v), (frag leaf.keyHashValue s, leaf)] := by
          unfold kidsB; rw [hbits]; rfl
        apply WF.bitmap hs32
        · exact or_bit_lt (by rw [Nat.one_shiftLeft]; exact Nat.pow_lt_pow_right (by decide) hi1) hi2
        · unfold popCount; rw [hbits]; rfl
        · simp
        · simp [maxBitmapIndexedSize]
        · rw [hkids]; intro p hp; simp at hp
          rcases hp with rfl | rfl
          · exact hvalue
          · exact hwf _
        · rw [hkids]; intro p hp e he; simp at hp
          rcases hp with rfl | rfl
          · simp at he; subst he; simp [← hk]
          · simp only at he ⊢; rw [hkeys e he]

end FpVerif.Hamt
