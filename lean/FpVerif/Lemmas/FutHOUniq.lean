import FpVerif.Lemmas.FutUniq
import FpVerif.Lemmas.FutHOStep
/-!
# Exactly one completer per derived promise, for runs that construct futures of futures

`Lemmas/FutUniq.lean` proves the target-multiset invariant `Uniq` for every `build`, every task, every event, using the
validity of an event only for "the environment completes source promises only".  So it holds verbatim for the
higher-order runs of `Spec/C06HO.lean` (helper lemmas for that file).
-/
namespace FpVerif.Fut.Drain
open FpVerif FpVerif.Fut FpVerif.Spec.C06 Multiset

theorem uniq_step_ho {nsrc : Nat} {n : Net} (h : ∃ B, Uniq nsrc n B) (ev : Ev) (hev : HO.EvOK nsrc ev) :
    ∃ B, Uniq nsrc (step n ev) B := by
  obtain ⟨B, h⟩ := h
  match ev with
  | .run i =>
    cases hi : n.pool[i]? with
    | none => exact ⟨B, by simpa only [step, hi] using h⟩
    | some tk =>
      obtain ⟨h0, hh⟩ := uniq_erase h i tk hi
      obtain ⟨B', h'⟩ := uniq_runTask tk h0 hh
      exact ⟨B', by simpa only [step, hi] using h'⟩
  | .src p t =>
    have hp : p < nsrc := hev.1
    have hnot : some p ∉ TM n B := fun hm => by have := (h.pend p hm).1; omega
    exact ⟨B, (uniq_complete h p t hnot (.inr hp) (Nat.lt_of_lt_of_le hp h.le)).1⟩
  | .mk e =>
    obtain ⟨B', _, h', _⟩ := uniq_build (nsrc := nsrc) e n B h
    exact ⟨B', h'⟩
  | .obs p id =>
    obtain ⟨B', _, h', _⟩ := uniq_onComplete h p (.observe id) (by intro x hx; simp [cbTarget] at hx)
    exact ⟨B', h'⟩

theorem uniq_runEvs_ho {nsrc : Nat} (evs : List Ev) : ∀ (n : Net), (∃ B, Uniq nsrc n B) → HO.Valid nsrc evs →
    ∃ B, Uniq nsrc (runEvs n evs) B := by
  induction evs with
  | nil => intro n h _; exact h
  | cons ev evs ih =>
    intro n h hv
    exact ih (step n ev) (uniq_step_ho h ev (hv ev (by simp))) (fun ev' hm => hv ev' (by simp [hm]))

end FpVerif.Fut.Drain
