import Lean
import FpVerif.Gen.SeqGen
/-!
# `#seq_ties` — every translated `Seq` function has its tie theorem

`#seq_ties NS` (used at the end of `Spec/C12SeqGen.lean`) fails the build unless for every entry of
`FpVerif.Gen.SeqGen.translated` — `seq.Name` or `fp.Seq.Name` — there is a THEOREM `NS.seq_Name_eq` resp.
`NS.Seq_Name_eq` (the translated definition equals its reference).
(This file is build infrastructure, not a model: it may import `Lean`; nothing an oracle links imports it.)
-/
open Lean Elab Command

syntax (name := seqTies) "#seq_ties " ident : command

@[command_elab seqTies] def elabSeqTies : CommandElab := fun stx => do
  let ns := stx[1].getId
  let env ← getEnv
  let mut missing : List String := []
  let mut count : Nat := 0
  for key in FpVerif.Gen.SeqGen.translated do
    count := count + 1
    let base := if key.startsWith "fp." then (key.drop 3).replace "." "_" else key.replace "." "_"
    let thm := Name.str ns (base ++ "_eq")
    match env.find? thm with
    | some (.thmInfo _) => pure ()
    | _ => missing := key :: missing
  if count == 0 then
    throwError "#seq_ties: nothing was translated"
  unless missing.isEmpty do
    throwError "#seq_ties: translated functions without a tie theorem `…_eq` in {ns}: {missing.reverse}"
  logInfo m!"#seq_ties {ns}: {count} translated functions, each with its tie theorem"
