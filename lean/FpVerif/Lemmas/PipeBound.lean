import FpVerif.Lemmas.PipeSim
/-!
# A syntactic fuel bound for pipelines

`Pipe.need p x` (Lemmas/PipeSim.lean) is the exact amount of fuel the unbounded Go loops of a pipeline
consume; it mentions the intermediate lists (`Pipe.denote`).  `Pipe.needB p` is an upper bound that is
computed from the AST alone — from the lengths of the source slices and the nesting of the
combinators, without evaluating a single callback and independent of the `FlatMap` argument:
`lenB` bounds the number of elements a pipeline can deliver, `needB` the longest list that can reach
a `DropWhile`/`Filter`/`FilterNot`/`FlatMap`/`FilterMap` loop.
-/
namespace FpVerif.It
namespace Pipe

/-- syntactic upper bound on the number of elements the pipeline delivers (for every argument) -/
def lenB : Pipe → Nat
  | src _ xs => xs.length
  | seq xs => xs.length
  | arg n => n
  | gen _ _ _ => 0
  | range closed a b => rangeCount closed b a
  | opt _ => 1
  | empty => 0
  | zero => 0
  | rev xs => xs.length
  | pullseq _ xs => xs.length
  | map p _ => p.lenB
  | tap p _ => p.lenB
  | take p _ => p.lenB
  | drop p _ => p.lenB
  | takew p _ => p.lenB
  | dropw p _ => p.lenB
  | filter p _ => p.lenB
  | filternot p _ => p.lenB
  | concat p q => p.lenB + q.lenB
  | flatmap p _ k => p.lenB * k.lenB
  | filtermap p _ => p.lenB
  | scan p _ _ => p.lenB + 1
  | zip p _ => p.lenB
  | zip3 p _ _ => p.lenB
  | zipidx p => p.lenB

/-- syntactic upper bound on `Pipe.need` -/
def needB : Pipe → Nat
  | src _ _ => 0
  | seq _ => 0
  | arg _ => 0
  | gen _ _ _ => 0
  | range _ _ _ => 0
  | opt _ => 0
  | empty => 0
  | zero => 0
  | rev _ => 0
  | pullseq _ _ => 0
  | map p _ => p.needB
  | tap p _ => p.needB
  | take p _ => p.needB
  | drop p _ => p.needB
  | takew p _ => p.needB
  | dropw p _ => Max.max p.needB p.lenB
  | filter p _ => Max.max p.needB p.lenB
  | filternot p _ => Max.max p.needB p.lenB
  | concat p q => Max.max p.needB q.needB
  | flatmap p _ k => Max.max p.needB (Max.max p.lenB k.needB)
  | filtermap p _ => Max.max p.needB p.lenB
  | scan p _ _ => p.needB
  | zip p q => Max.max p.needB q.needB
  | zip3 p q r => Max.max p.needB (Max.max q.needB r.needB)
  | zipidx p => p.needB

theorem intRange_length (i : Int) (k : Nat) : (intRange i k).length = k := by
  induction k generalizing i with
  | zero => rfl
  | succ k ih => simp [intRange, ih]

theorem scanl_length {α β : Type} (g : β → α → β) (z : β) (l : List α) : (scanl g z l).length = l.length + 1 := by
  induction l generalizing z with
  | nil => rfl
  | cons a l ih => simp [scanl, ih]

theorem zipIdx_length {α : Type} (n : Nat) (l : List α) : (zipIdx n l).length = l.length := by
  induction l generalizing n with
  | nil => rfl
  | cons a l ih => simp [zipIdx, ih]

theorem flatMap_length_le {α β : Type} (f : α → List β) (B : Nat) (l : List α) (h : ∀ a, a ∈ l → (f a).length ≤ B) :
    (l.flatMap f).length ≤ l.length * B := by
  induction l with
  | nil => simp
  | cons a l ih =>
    have h1 := h a (List.mem_cons_self ..)
    have h2 := ih (fun b hb => h b (List.mem_cons_of_mem _ hb))
    simp only [List.flatMap_cons, List.length_append, List.length_cons, Nat.succ_mul]
    omega

theorem takeWhile_length_le {α : Type} (g : α → Bool) (l : List α) : (l.takeWhile g).length ≤ l.length := by
  have := congrArg List.length (List.takeWhile_append_dropWhile (p := g) (l := l))
  rw [List.length_append] at this
  omega

/-- a pipeline never delivers more than `lenB` elements -/
theorem denote_length_le (p : Pipe) : ∀ x, (p.denote x).length ≤ p.lenB := by
  induction p with
  | src _ xs | seq xs | pullseq _ xs => intro x; simp [denote, lenB]
  | rev xs => intro x; simp [denote, lenB]
  | arg n => intro x; simp [denote, lenB]
  | gen _ _ _ => intro x; simp [denote, lenB]
  | range closed a b => intro x; simp [denote, lenB, intRange_length]
  | opt o => intro x; cases o <;> simp [denote, lenB]
  | empty | zero => intro x; simp [denote, lenB]
  | map p f ih => intro x; simpa [denote, lenB] using ih x
  | tap p f ih => intro x; simpa [denote, lenB] using ih x
  | take p n ih =>
    intro x
    have := ih x
    simp only [denote, lenB, List.length_take]
    omega
  | drop p n ih =>
    intro x
    have := ih x
    simp only [denote, lenB, List.length_drop]
    omega
  | takew p f ih => intro x; exact Nat.le_trans (takeWhile_length_le _ _) (ih x)
  | dropw p f ih => intro x; exact Nat.le_trans (List.dropWhile_sublist _).length_le (ih x)
  | filter p f ih => intro x; exact Nat.le_trans (List.length_filter_le _ _) (ih x)
  | filternot p f ih => intro x; exact Nat.le_trans (List.length_filter_le _ _) (ih x)
  | concat p q ihp ihq =>
    intro x
    have := ihp x; have := ihq x
    simp only [denote, lenB, List.length_append]
    omega
  | flatmap p pre k ihp ihk =>
    intro x
    simp only [denote, lenB]
    exact Nat.le_trans (flatMap_length_le _ k.lenB _ (fun a _ => ihk a)) (Nat.mul_le_mul_right _ (ihp x))
  | filtermap p f ih => intro x; exact Nat.le_trans (List.length_filterMap_le _ _) (ih x)
  | scan p z f ih =>
    intro x
    have := ih x
    simp only [denote, lenB, scanl_length]
    omega
  | zip p q ihp ihq =>
    intro x
    have := ihp x
    simp only [denote, lenB, List.length_map, List.length_zip]
    omega
  | zip3 p q r ihp ihq ihr =>
    intro x
    have := ihp x
    simp only [denote, lenB, List.length_map, List.length_zip]
    omega
  | zipidx p ih =>
    intro x
    have := ih x
    simp only [denote, lenB, List.length_map, zipIdx_length]
    omega

/-- the syntactic bound dominates the exact need -/
theorem need_le_needB (p : Pipe) : ∀ x, p.need x ≤ p.needB := by
  induction p with
  | src _ _ | seq _ | arg _ | gen _ _ _ | range _ _ _ | opt _ | empty | zero | rev _ | pullseq _ _ =>
    intro x; exact Nat.le_refl _
  | map p f ih | tap p f ih | takew p f ih | scan p z f ih | take p n ih | drop p n ih | zipidx p ih =>
    intro x; exact ih x
  | dropw p f ih | filter p f ih | filternot p f ih | filtermap p f ih =>
    intro x
    have := ih x; have := denote_length_le p x
    simp only [need, needB]
    omega
  | concat p q ihp ihq | zip p q ihp ihq =>
    intro x
    have := ihp x; have := ihq x
    simp only [need, needB]
    omega
  | zip3 p q r ihp ihq ihr =>
    intro x
    have := ihp x; have := ihq x; have := ihr x
    simp only [need, needB]
    omega
  | flatmap p pre k ihp ihk =>
    intro x
    have h1 := ihp x; have h2 := denote_length_le p x
    have h3 : listMax ((p.denote x).map (fun a => k.need a)) ≤ k.needB := by
      generalize p.denote x = l
      induction l with
      | nil => exact Nat.zero_le _
      | cons a l ihl => exact Nat.max_le.mpr ⟨ihk a, ihl⟩
    simp only [need, needB]
    omega

end Pipe
end FpVerif.It
