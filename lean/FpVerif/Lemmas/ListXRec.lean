import FpVerif.Lemmas.ListXLoops
/-!
# LISTX: `list.Recurrence1 / Recurrence2` — every memo cell is started at most once; the first traversal
# computes the unfolded recurrence and calls the relation once per step
-/
namespace FpVerif.LX.Rec
open FpVerif FpVerif.It FpVerif.LL IM

/-! ## at most once -/

structure RHeap.WF (hp : RHeap) : Prop where
  hs : ∀ (i : Nat) c, hp.hs[i]? = some c → cellOk c
  ts : ∀ (i : Nat) c, hp.ts[i]? = some c → cellOk c

theorem RHeap.WF.empty : ({} : RHeap).WF := ⟨by simp, by simp⟩

def RPres {X : Type} (m : RM X) : Prop := ∀ hp lg, hp.WF → (m hp lg).2.1.WF

theorem RPres.pure {X : Type} (x : X) : RPres (pure x : RM X) := fun _ _ h => h
theorem RPres.panic {X : Type} (p : PanicVal) : RPres (IM.panic p : RM X) := fun _ _ h => h
theorem RPres.liftG {X : Type} (g : GoM X) : RPres (IM.liftG g : RM X) := fun _ _ h => h

theorem RPres.bind {X Y : Type} {m : RM X} {f : X → RM Y} (hm : RPres m) (hf : ∀ x, RPres (f x)) :
    RPres (m >>= f) := by
  intro hp lg wf
  have h1 := hm hp lg wf
  simp only [bind_apply]
  rcases hr : m hp lg with ⟨_ | x, hp1, lg1⟩
  · simpa [hr] using h1
  · simp only [hr] at h1 ⊢
    exact hf x hp1 lg1 h1

theorem pres_mk (a1 a2 : Val) : RPres (mk a1 a2) := by
  intro hp lg wf
  exact ⟨arr_push_ok wf.hs rfl, arr_push_ok wf.ts rfl⟩

theorem pres_forceH (c : Nat) : RPres (forceH c) := by
  intro hp lg wf
  show (forceH c hp lg).2.1.WF
  unfold forceH
  simp only [bind_apply, get_apply]
  rcases hcell : hp.hs[c]? with _ | ⟨cell, n⟩
  · simpa using wf
  · rcases cell with t | _ | w
    · have hn : n = 0 := wf.hs c _ hcell
      subst hn
      exact ⟨arr_set_ok c wf.hs rfl, wf.ts⟩
    · simpa using wf
    · simpa using wf

theorem pres_runT (rel : Rel) (t : RThunk) : RPres (runT rel t) := by
  cases rel with
  | r1 f => exact RPres.bind (RPres.liftG _) (fun _ => pres_mk _ _)
  | r2 f => exact RPres.bind (RPres.liftG _) (fun _ => pres_mk _ _)

theorem pres_forceT (rel : Rel) (c : Nat) : RPres (forceT rel c) := by
  intro hp lg wf
  show (forceT rel c hp lg).2.1.WF
  unfold forceT
  rcases hcell : hp.ts[c]? with _ | ⟨cell, n⟩
  · simpa using wf
  · rcases cell with t | _ | w
    · have hn : n = 0 := wf.ts c _ hcell
      subst hn
      have wf1 : ({ hp with ts := hp.ts.set! c (.running, 0 + 1) } : RHeap).WF := ⟨wf.hs, arr_set_ok c wf.ts rfl⟩
      have h2 := pres_runT rel t _ lg wf1
      simp only []
      rcases hr : runT rel t { hp with ts := hp.ts.set! c (.running, 0 + 1) } lg with ⟨_ | v, hp', lg'⟩
      · rw [hr] at h2; exact ⟨h2.hs, arr_set_ok c h2.ts rfl⟩
      · rw [hr] at h2; exact ⟨h2.hs, arr_set_ok c h2.ts rfl⟩
    · simpa using wf
    · simpa using wf

theorem pres_isEmpty (l : RV) : RPres (isEmpty l) := by
  cases l with
  | nilIface => exact RPres.panic _
  | adaptor hc tc => exact RPres.bind (pres_forceH hc) (fun _ => RPres.pure _)

theorem pres_head (l : RV) : RPres (head l) := by
  cases l with
  | nilIface => exact RPres.panic _
  | adaptor hc tc =>
    refine RPres.bind (pres_forceH hc) (fun o => ?_)
    cases o
    · exact RPres.panic _
    · exact RPres.pure _

theorem pres_tail (rel : Rel) (l : RV) : RPres (tail rel l) := by
  cases l with
  | nilIface => exact RPres.panic _
  | adaptor hc tc => exact pres_forceT rel tc

theorem pres_recurrence (rel : Rel) (a1 a2 : Val) : RPres (recurrence rel a1 a2) := by
  cases rel <;> exact pres_mk _ _

theorem pres_take (rel : Rel) : ∀ n cur out, RPres (take rel n cur out) := by
  intro n
  induction n with
  | zero => intro cur out; exact RPres.pure _
  | succ n ih => intro cur out; exact RPres.bind (pres_head cur) (fun _ => RPres.bind (pres_tail rel cur) (fun t => ih t _))

theorem pres_nth (rel : Rel) : ∀ k cur, RPres (nth rel k cur) := by
  intro k
  induction k with
  | zero => intro cur; exact pres_head cur
  | succ k ih => intro cur; exact RPres.bind (pres_tail rel cur) (fun t => ih t)

theorem WF.maxEvals_le (hp : RHeap) (wf : hp.WF) : hp.maxEvals ≤ 1 := by
  unfold RHeap.maxEvals
  apply foldl_max_le _ _ _ (fun i c hc => cellOk_le c (wf.ts i c hc))
  apply foldl_max_le _ _ _ (fun i c hc => cellOk_le c (wf.hs i c hc))
  omega

/-! ## memoisation -/

theorem forceT_done (rel : Rel) (c : Nat) (hp : RHeap) (lg : Log) (v : RV) (n : Nat)
    (h : hp.ts[c]? = some (.done v, n)) : forceT rel c hp lg = (.ok v, hp, lg) := by
  unfold forceT; simp [h]

theorem forceH_done (c : Nat) (hp : RHeap) (lg : Log) (v : Option Val) (n : Nat)
    (h : hp.hs[c]? = some (.done v, n)) : forceH c hp lg = (.ok v, hp, lg) := by
  unfold forceH; simp [bind_apply, get_apply, h]

/-! ## the first traversal -/

/-- the relation as a function -/
inductive RelP where
  | r1 (g : Val → Val)
  | r2 (g : Val → Val → Val)

/-- the captured pair of the next `getTail` closure -/
def RelP.next : RelP → Val × Val → Val × Val
  | .r1 g, (a1, _) => (g a1, .unit)
  | .r2 g, (a1, a2) => (a2, g a1 a2)

/-- the unfolded recurrence: `a1, a2, rel(a1,a2), …` -/
def RelP.unfold (r : RelP) : Nat → Val × Val → List Val
  | 0, _ => []
  | n + 1, s => s.1 :: r.unfold n (r.next s)

def RelP.iter (r : RelP) : Nat → Val × Val → Val × Val
  | 0, s => s
  | n + 1, s => r.iter n (r.next s)

/-- the pair captured by the first `getTail` closure: `Recurrence1(a1, rel)` has no second seed -/
def RelP.start : RelP → Val → Val → Val × Val
  | .r1 _, a1, _ => (a1, .unit)
  | .r2 _, a1, a2 => (a1, a2)

/-- `rel` returns normally and computes `relp` (it may log) -/
def RelTotal : Rel → RelP → Prop
  | .r1 f, .r1 g => Total f g
  | .r2 f, .r2 g => Total2 f g
  | _, _ => False

/-- both cells of the list are still pending and have captured `s` -/
def Fresh (hp : RHeap) (l : RV) (s : Val × Val) : Prop :=
  ∃ hc tc, l = .adaptor hc tc ∧ hp.hs[hc]? = some (.pending s.1, 0) ∧ hp.ts[tc]? = some (.pending ⟨s.1, s.2⟩, 0)

theorem fresh_recurrence {rel : Rel} {relp : RelP} (hr : RelTotal rel relp) (a1 a2 : Val) (lg : Log) :
    ∃ l hp, recurrence rel a1 a2 {} lg = (.ok l, hp, lg) ∧
      Fresh hp l (relp.start a1 a2) := by
  cases rel <;> cases relp <;> simp only [RelTotal] at hr
  · exact ⟨_, _, rfl, 0, 0, rfl, by simp [RelP.start], by simp [RelP.start]⟩
  · exact ⟨_, _, rfl, 0, 0, rfl, by simp [RelP.start], by simp [RelP.start]⟩

theorem head_fresh {hp : RHeap} {l : RV} {s : Val × Val} (h : Fresh hp l s) (lg : Log) :
    ∃ hp', head l hp lg = (.ok s.1, hp', lg) ∧ hp'.ts = hp.ts ∧ hp'.hs.size = hp.hs.size := by
  obtain ⟨hc, tc, rfl, hh, _⟩ := h
  refine ⟨{ hp with hs := hp.hs.set! hc (.done (some s.1), 0 + 1) }, ?_, rfl, by simp⟩
  simp [head, forceH, bind_apply, get_apply, hh, IM.modify]

/-- the heap after forcing the pending `getTail` cell `tc` whose closure produced the pair `(b1, b2)` -/
def afterTail (hp : RHeap) (tc : Nat) (b1 b2 : Val) : RHeap :=
  { hs := hp.hs.push (.pending b1, 0),
    ts := ((hp.ts.set! tc (.running, 0 + 1)).push (.pending ⟨b1, b2⟩, 0)).set! tc
      (.done (.adaptor hp.hs.size (hp.ts.set! tc (.running, 0 + 1)).size), 0 + 1) }

theorem tail_pending {rel : Rel} {relp : RelP} (hr : RelTotal rel relp) {hp : RHeap} {hc tc : Nat} {s : Val × Val}
    (ht : hp.ts[tc]? = some (.pending ⟨s.1, s.2⟩, 0)) (lg : Log) :
    ∃ l' hp' lg', tail rel (.adaptor hc tc) hp lg = (.ok l', hp', lg') ∧ Fresh hp' l' (relp.next s) := by
  have htc : tc < hp.ts.size := by
    rcases Nat.lt_or_ge tc hp.ts.size with h | h
    · exact h
    · rw [Array.getElem?_eq_none h] at ht
      cases ht
  obtain ⟨a1, a2⟩ := s
  cases rel <;> cases relp <;> simp only [RelTotal] at hr
  case r1.r1 f g =>
    obtain ⟨lg1, h1⟩ := hr a1 lg
    refine ⟨.adaptor hp.hs.size hp.ts.size, afterTail hp tc (g a1) .unit, lg1, ?_, hp.hs.size, hp.ts.size, rfl, ?_, ?_⟩
    · simp [tail, forceT, ht, runT, bind_apply, IM.liftG, h1, mk, afterTail]
    · simp [RelP.next, afterTail]
    · have hne : tc ≠ hp.ts.size := by omega
      simp [RelP.next, afterTail, Array.set!_eq_setIfInBounds, Array.getElem_setIfInBounds, Array.getElem_push, hne]
  case r2.r2 f g =>
    obtain ⟨lg1, h1⟩ := hr a1 a2 lg
    refine ⟨.adaptor hp.hs.size hp.ts.size, afterTail hp tc a2 (g a1 a2), lg1, ?_, hp.hs.size, hp.ts.size, rfl, ?_, ?_⟩
    · simp [tail, forceT, ht, runT, bind_apply, IM.liftG, h1, mk, afterTail]
    · simp [RelP.next, afterTail]
    · have hne : tc ≠ hp.ts.size := by omega
      simp [RelP.next, afterTail, Array.set!_eq_setIfInBounds, Array.getElem_setIfInBounds, Array.getElem_push, hne]

/-- the client loop on a fresh list: the unfolded recurrence -/
theorem take_fresh {rel : Rel} {relp : RelP} (hr : RelTotal rel relp) :
    ∀ (n : Nat) (cur : RV) (s : Val × Val) (out : List Val) (hp : RHeap) (lg : Log), Fresh hp cur s →
      ∃ hp' lg', take rel n cur out hp lg = (.ok (out ++ relp.unfold n s), hp', lg') := by
  intro n
  induction n with
  | zero => intro cur s out hp lg _; exact ⟨hp, lg, by simp [take, RelP.unfold]⟩
  | succ n ih =>
    intro cur s out hp lg hF
    obtain ⟨hp1, h1, hts, _⟩ := head_fresh hF lg
    obtain ⟨hc, tc, rfl, _, ht⟩ := hF
    obtain ⟨l', hp2, lg2, h2, hF2⟩ := tail_pending (hc := hc) hr (hp := hp1) (by rw [hts]; exact ht) lg
    obtain ⟨hp', lg', h3⟩ := ih l' _ (out ++ [s.1]) hp2 lg2 hF2
    exact ⟨hp', lg', by simp [take, bind_ok h1, bind_ok h2, h3, RelP.unfold, List.append_assoc]⟩

theorem nth_fresh {rel : Rel} {relp : RelP} (hr : RelTotal rel relp) :
    ∀ (k : Nat) (cur : RV) (s : Val × Val) (hp : RHeap) (lg : Log), Fresh hp cur s →
      ∃ hp' lg', nth rel k cur hp lg = (.ok (relp.iter k s).1, hp', lg') := by
  intro k
  induction k with
  | zero =>
    intro cur s hp lg hF
    obtain ⟨hp1, h1, _, _⟩ := head_fresh hF lg
    exact ⟨hp1, lg, by simpa [nth, RelP.iter] using h1⟩
  | succ k ih =>
    intro cur s hp lg hF
    obtain ⟨hc, tc, rfl, _, ht⟩ := hF
    obtain ⟨l', hp2, lg2, h2, hF2⟩ := tail_pending (hc := hc) hr ht lg
    obtain ⟨hp', lg', h3⟩ := ih l' _ hp2 lg2 hF2
    exact ⟨hp', lg', by simp [nth, bind_ok h2, h3, RelP.iter]⟩

end FpVerif.LX.Rec
