import FpVerif.Lemmas.HeapSim3
/-!
Simulation, part 4: `set` on hash-array nodes.
-/
set_option linter.unusedSimpArgs false
set_option linter.unusedVariables false
namespace FpVerif.HamtHeap
open FpVerif.Hamt
variable {K V : Type} {α β : Type}

theorem getElem?_map_fst {γ δ : Type} {rs : List (γ × δ)} {i : Nat} {x : γ} (h : (rs.map (·.1))[i]? = some x) :
    ∃ y, rs[i]? = some (x, y) := by
  rw [List.getElem?_map] at h
  cases hr : rs[i]? with
  | none => rw [hr] at h; cases h
  | some r => rw [hr] at h; simp at h; exact ⟨r.2, by rw [← h]⟩

theorem getElem?_map_snd {γ δ : Type} {rs : List (γ × δ)} {i : Nat} {r : γ × δ} (h : rs[i]? = some r) :
    (rs.map (·.2))[i]? = some r.2 := by
  rw [List.getElem?_map, h]; rfl

/-- copying path: `other = n.clone(); other.nodes[idx] = newNode` -/
theorem hashArray_finish_copy {F s : Nat} {H H1 : Heap K V} {p : Addr} {cnt : Nat} {slots : List (Option Addr)}
    {rs : List (Option (Node K V) × List Addr)} {idx : Nat} {node : Option (Node K V)} {fpo fpn : List Addr}
    {c' : Addr} {nn : Node K V}
    (hc : H[p]? = some (.hashArray cnt slots)) (hs : s < 32)
    (hk : mapOpt (absSlot F (s + mapNodeBits) H) slots = some rs)
    (hnd : (p :: (rs.map (·.2)).flatten).Nodup) (hri : rs[idx]? = some (node, fpo))
    (hc' : absF F (s + mapNodeBits) H1 c' = some (nn, fpn)) (hndn : fpn.Nodup) (heff : Eff H H1 [])
    (hsub : ∀ a ∈ fpn, a ∈ fpo ∨ H.size ≤ a) (cnt' : Nat) :
    SimRes false (F + 1) s H (p :: (rs.map (·.2)).flatten)
      (H1.push (.hashArray cnt' (slots.set idx (some c')))) H1.size
      (.hashArray cnt' ((rs.map (·.1)).set idx (some nn))) := by
  have hparent : absF (F + 1) s H p = some (Node.hashArray cnt (rs.map (·.1)), p :: (rs.map (·.2)).flatten) := by
    rw [absF_hashArray hc hs, hk]; rfl
  have hB : ∀ a ∈ (rs.map (·.2)).flatten, a < H.size := fun a ha => absF_lt hparent (by simp [ha])
  have hle1 : Heap.le H H1 := heff.to_le
  have hk1 : mapOpt (absSlot F (s + mapNodeBits) H1) (slots.set idx (some c')) = some (rs.set idx (some nn, fpn)) :=
    slots_set heff hk (by simp [absSlot, hc']) (fun _ _ _ _ _ _ => by simp)
  have habs := mkHashArray_abs hk1 hs cnt'
  have hnd' : ((rs.map (·.2)).set idx fpn).flatten.Nodup :=
    nodup_flatten_set (List.nodup_cons.mp hnd).2 (getElem?_map_snd hri) hndn hsub hB
  apply SimRes.of_fresh (fp' := H1.size :: ((rs.map (·.2)).set idx fpn).flatten)
  · rw [habs]; simp [List.map_set]
  · apply nodup_fresh1 hnd'
    intro x hx
    rcases mem_flatten_set hx with h | h
    · exact absF_lt hc' h
    · have := hB x h; have := hle1.1; omega
  · exact Heap.le_trans hle1 (Heap.le_push _ _)
  · intro a ha
    simp only [List.mem_cons] at ha
    rcases ha with rfl | ha
    · right; exact hle1.1
    · rcases mem_flatten_set ha with h | h
      · rcases hsub a h with h' | h'
        · left; simp only [List.mem_cons]; right
          exact mem_flatten_of_getElem? (getElem?_map_snd hri) h'
        · right; exact h'
      · left; simp [h]

/-- in place: `other := n; other.nodes[idx] = newNode` -/
theorem hashArray_finish_mut {F s : Nat} {H H1 : Heap K V} {p : Addr} {cnt : Nat} {slots : List (Option Addr)}
    {rs : List (Option (Node K V) × List Addr)} {idx : Nat} {node : Option (Node K V)} {fpo fpn : List Addr}
    {c' : Addr} {nn : Node K V}
    (hc : H[p]? = some (.hashArray cnt slots)) (hs : s < 32)
    (hk : mapOpt (absSlot F (s + mapNodeBits) H) slots = some rs)
    (hnd : (p :: (rs.map (·.2)).flatten).Nodup) (hri : rs[idx]? = some (node, fpo))
    (hc' : absF F (s + mapNodeBits) H1 c' = some (nn, fpn)) (hndn : fpn.Nodup) (heff : Eff H H1 fpo)
    (hsub : ∀ a ∈ fpn, a ∈ fpo ∨ H.size ≤ a) (cnt' : Nat) :
    p < H1.size ∧
    SimRes true (F + 1) s H (p :: (rs.map (·.2)).flatten)
      (H1.setIfInBounds p (.hashArray cnt' (slots.set idx (some c')))) p
      (.hashArray cnt' ((rs.map (·.1)).set idx (some nn))) := by
  have hparent : absF (F + 1) s H p = some (Node.hashArray cnt (rs.map (·.1)), p :: (rs.map (·.2)).flatten) := by
    rw [absF_hashArray hc hs, hk]; rfl
  have hB : ∀ a ∈ (rs.map (·.2)).flatten, a < H.size := fun a ha => absF_lt hparent (by simp [ha])
  have hp := lt_size_of_get hc
  have hp1 : p < H1.size := Nat.lt_of_lt_of_le hp heff.1
  obtain ⟨hpn, hndL⟩ := List.nodup_cons.mp hnd
  have hfpoL : ∀ a ∈ fpo, a ∈ (rs.map (·.2)).flatten :=
    fun a ha => mem_flatten_of_getElem? (getElem?_map_snd hri) ha
  have hpfpo : p ∉ fpo := fun h => hpn (hfpoL p h)
  have hpfpn : p ∉ fpn := by
    intro h
    rcases hsub p h with h' | h'
    · exact hpfpo h'
    · omega
  let H2 := H1.setIfInBounds p (.hashArray cnt' (slots.set idx (some c')))
  have heff2 : Eff H H2 (p :: fpo) :=
    Eff.trans (heff.mono (fun a ha _ => by simp [ha])) (Eff.set _ _ _ (by simp))
  have hc2 : absF F (s + mapNodeBits) H2 c' = some (nn, fpn) :=
    (Eff.set H1 p _ (W := [p]) (by simp)).absF hc' (fun a ha => by
      simp only [List.mem_singleton]; intro h; exact hpfpn (h ▸ ha))
  have hk2 : mapOpt (absSlot F (s + mapNodeBits) H2) (slots.set idx (some c')) = some (rs.set idx (some nn, fpn)) := by
    apply slots_set heff2 hk (by simp [absSlot, hc2])
    intro j r hj hr a ha
    simp only [List.mem_cons, not_or]
    have haL : a ∈ (rs.map (·.2)).flatten := mem_flatten_of_getElem? (getElem?_map_snd hr) ha
    refine ⟨fun h => hpn (h ▸ haL), ?_⟩
    exact disjoint_of_nodup_flatten hndL (getElem?_map_snd hr) (getElem?_map_snd hri) hj ha
  have hnd' : ((rs.map (·.2)).set idx fpn).flatten.Nodup :=
    nodup_flatten_set hndL (getElem?_map_snd hri) hndn hsub hB
  refine ⟨hp1, p :: ((rs.map (·.2)).set idx fpn).flatten, ?_, ?_, ?_, ?_⟩
  · show absF (F + 1) s H2 p = _
    rw [absF_hashArray (get_set_eq _ hp1) hs, hk2]; simp [List.map_set]
  · rw [List.nodup_cons]
    refine ⟨?_, hnd'⟩
    intro h
    rcases mem_flatten_set h with h' | h'
    · exact hpfpn h'
    · exact hpn h'
  · simp only [if_true]
    exact heff2.mono (fun a ha _ => by
      simp only [List.mem_cons] at ha ⊢
      rcases ha with rfl | ha
      · left; rfl
      · right; exact hfpoL a ha)
  · intro a ha
    simp only [List.mem_cons] at ha
    rcases ha with rfl | ha
    · left; simp
    · rcases mem_flatten_set ha with h | h
      · rcases hsub a h with h' | h'
        · left; simp [hfpoL a h']
        · right; exact h'
      · left; simp [h]

theorem setSim_hashArray (h : Hasher K) {ex : List (K × V) → K → V → Bool → GoE (Node K V × Bool)}
    {hex : List (K × V) → K → V → Bool → HM K V (Addr × Bool)} {F : Nat} (ih : SetSim h ex hex F)
    {p : Addr} {s : Nat} {H : Heap K V} {cnt : Nat} {slots : List (Option Addr)}
    {rs : List (Option (Node K V) × List Addr)}
    (hc : H[p]? = some (.hashArray cnt slots)) (hs : s < 32)
    (hk : mapOpt (absSlot F (s + mapNodeBits) H) slots = some rs)
    (hnd : (p :: (rs.map (·.2)).flatten).Nodup)
    (k : K) (v : V) (kh : UInt32) (mu r : Bool) (n' : Node K V) (r' : Bool)
    (hfuel : 16 ≤ s / 5 + (F + 1)) (hwf : mu = true → WF h s (Node.hashArray cnt (rs.map (·.1))))
    (hv : (Node.hashArray cnt (rs.map (·.1))).setCore h ex k v s kh mu r = .ok (n', r')) :
    ∃ p' H', hsetCoreN h hex (F + 1) p k v s kh mu r H = .ok ((p', r'), H') ∧
      SimRes mu (F + 1) s H (p :: (rs.map (·.2)).flatten) H' p' n' := by
  have hp := lt_size_of_get hc
  rw [Node.setCore] at hv
  unfold hsetCoreN
  rw [bind_ok (load_apply hc)]
  dsimp only
  split at hv
  · cases hv
  · rename_i node hnode
    obtain ⟨fpo, hri⟩ := getElem?_map_fst hnode
    obtain ⟨o, hso, hoabs⟩ := mapOpt_getElem?' hk hri
    obtain ⟨F0, rfl⟩ : ∃ F0, F = F0 + 1 := ⟨F - 1, by omega⟩
    rw [hso]
    cases o with
    | none =>
      simp only [absSlot, Option.some.injEq, Prod.mk.injEq] at hoabs
      obtain ⟨hn1, hn2⟩ := hoabs
      subst hn1; subst hn2
      simp only [pure, Except.pure, bind, Except.bind, Option.isNone_none, if_true] at hv
      injection hv with hv; injection hv with hn hr; subst hn; subst hr
      dsimp only
      simp only [Option.isNone_none, if_true]
      rw [bind_ok (alloc_apply _ _), bind_ok (pure_apply _ _)]
      dsimp only
      have hc' : absF (F0 + 1) (s + mapNodeBits) (H.push (.value kh k v)) H.size =
          some (Node.value kh k v, [H.size]) := mkValue_abs H kh k v F0 _
      have hsub : ∀ a ∈ [H.size], a ∈ ([] : List Nat) ∨ H.size ≤ a := by
        intro a ha; simp at ha; right; omega
      cases mu with
      | true =>
        simp only [if_true]
        obtain ⟨hp1, hres⟩ := hashArray_finish_mut hc hs hk hnd hri hc' (by simp) (Eff.push _ _ _) hsub (cnt + 1)
        rw [bind_ok (store_apply _ hp1)]
        exact ⟨_, _, rfl, hres⟩
      | false =>
        simp only [Bool.false_eq_true, if_false]
        have hres := hashArray_finish_copy hc hs hk hnd hri hc' (by simp) (Eff.push _ _ _) hsub (cnt + 1)
        rw [bind_ok (alloc_apply _ _)]
        exact ⟨_, _, rfl, hres⟩
    | some c =>
      simp only [absSlot, Option.map_eq_some_iff, Prod.mk.injEq] at hoabs
      obtain ⟨⟨child, fpc⟩, hcabs, hn1, hn2⟩ := hoabs
      dsimp only at hn1 hn2
      subst hn1; subst hn2
      dsimp only at hv ⊢
      cases hsc : Node.setCore h ex child k v (s + mapNodeBits) kh mu r with
      | error e => rw [hsc] at hv; cases hv
      | ok res =>
        obtain ⟨nn, r1⟩ := res
        rw [hsc] at hv
        simp only [pure, Except.pure, bind, Except.bind, Option.isNone_some, Bool.false_eq_true, if_false] at hv
        injection hv with hv; injection hv with hn hr; subst hn; subst hr
        have hndc : fpc.Nodup :=
          (List.pairwise_flatten.mp (List.nodup_cons.mp hnd).2).1 fpc
            (List.mem_of_getElem? (getElem?_map_snd hri))
        obtain ⟨c', H1, h1, fpn, hc', hndn, heff, hsub⟩ :=
          ih c (s + mapNodeBits) H child fpc k v kh mu r nn r1 hcabs hndc (by simp [mapNodeBits]; omega)
            (fun hmu => by
              have hw := hwf hmu
              cases hw with
              | hashArray _ hl32 _ _ hkw _ => exact hkw _ (mem_of_getElem?_kidsH hl32 hnode))
            hsc
        rw [bind_ok h1]
        simp only [Option.isNone_some, Bool.false_eq_true, if_false]
        cases mu with
        | true =>
          simp only [if_true] at heff ⊢
          obtain ⟨hp1, hres⟩ := hashArray_finish_mut hc hs hk hnd hri hc' hndn heff hsub cnt
          rw [bind_ok (store_apply _ hp1)]
          exact ⟨_, _, rfl, hres⟩
        | false =>
          simp only [Bool.false_eq_true, if_false] at heff ⊢
          have hres := hashArray_finish_copy hc hs hk hnd hri hc' hndn heff hsub cnt
          rw [bind_ok (alloc_apply _ _)]
          exact ⟨_, _, rfl, hres⟩

end FpVerif.HamtHeap
