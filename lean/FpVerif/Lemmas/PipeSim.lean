import FpVerif.Model.IterPipe
import FpVerif.Model.LazyList
import FpVerif.Lemmas.Pure1
import FpVerif.Lemmas.IterTerm
/-!
# Pipelines as data: what a `Pipe` denotes, when it is well-behaved, and the joint invariant of
# its iterator (`Pipe.machine`) and its `concat` field (`Pipe.parts`)

Also: simulation lemmas that the induction over `Pipe` and the demand theorems need beyond
`IterComb.lean` — `ofSeqS`, `Zip3`, `FlatMap` with a callback that is only required to behave on
the elements actually pulled (and with the history needed for its demand bound), `Zip` with history.
-/
namespace FpVerif.It
open IM
variable {σ σ₂ σ₃ τ γ X Y α β : Type}

/-! ## `flatFrom` -/

theorem flatFrom_nil (L : Nat → List α) : ∀ (k j : Nat), (∀ i, j ≤ i → i < j + k → L i = []) → flatFrom L j k = [] := by
  intro k
  induction k with
  | zero => intros; rfl
  | succ k ih =>
    intro j h
    simp only [flatFrom]
    rw [h j (Nat.le_refl _) (by omega), ih (j + 1) (fun i h1 h2 => h i (by omega) (by omega))]
    rfl

theorem flatFrom_append (L : Nat → List α) : ∀ (a b j : Nat), flatFrom L j (a + b) = flatFrom L j a ++ flatFrom L (j + a) b := by
  intro a
  induction a with
  | zero => intro b j; simp [flatFrom]
  | succ a ih =>
    intro b j
    rw [show a + 1 + b = (a + b) + 1 by omega]
    simp only [flatFrom]
    rw [ih b (j + 1), List.append_assoc]
    congr 3; omega

theorem flatFrom_congr (L L' : Nat → List α) (off : Nat) : ∀ (k j : Nat), (∀ i, j ≤ i → i < j + k → L (i + off) = L' i) →
    flatFrom L (j + off) k = flatFrom L' j k := by
  intro k
  induction k with
  | zero => intros; rfl
  | succ k ih =>
    intro j h
    simp only [flatFrom]
    rw [h j (Nat.le_refl _) (by omega)]
    have := ih (j + 1) (fun i h1 h2 => h i (by omega) (by omega))
    rw [show j + 1 + off = j + off + 1 by omega] at this
    rw [this]

/-- skipping exhausted components -/
theorem flatFrom_skip (L : Nat → List α) (i n : Nat) (hi : i ≤ n) (hex : ∀ j, j < i → L j = []) :
    flatFrom L 0 n = flatFrom L i (n - i) := by
  have h := flatFrom_append L i (n - i) 0
  rw [show i + (n - i) = n by omega] at h
  rw [h, flatFrom_nil L i 0 (fun j _ hj => hex j (by omega))]
  simp

/-- what a `Concat` iterator will deliver is what all its components together will deliver -/
theorem ConcatInv.flat {n : Nat} {c : ConcatSt} {L : Nat → List α} {r' : List α} (h : ConcatInv n c L r') :
    r' = flatFrom L 0 n := by
  unfold ConcatInv at h
  split at h
  · next i _ =>
    obtain ⟨hi, _, hr, _, hex⟩ := h
    rw [flatFrom_skip L i n (by omega) hex, hr]
    rw [show n - i = (n - (i + 1)) + 1 by omega]
    rfl
  · obtain ⟨hr, _, hex⟩ := h
    rw [hr, flatFrom_nil L n 0 (fun j _ hj => hex j (by omega))]

/-- the components of `a.Concat(b)`: those of `a`, then those of `b` -/
theorem flatFrom_join (La Lb L : Nat → List α) (na nb : Nat)
    (hL : ∀ i, L i = if i < na then La i else Lb (i - na)) :
    flatFrom L 0 (na + nb) = flatFrom La 0 na ++ flatFrom Lb 0 nb := by
  rw [flatFrom_append L na nb 0]
  congr 1
  · have := flatFrom_congr L La 0 na 0 (fun i _ hi => by
      show L i = La i
      rw [hL i, if_pos (by omega)])
    simpa using this
  · have := flatFrom_congr L Lb na nb 0 (fun i _ hi => by
      rw [hL (i + na), if_neg (by omega), Nat.add_sub_cancel])
    simpa using this

/-! ## `ofSeqS`: the slice is part of the state -/

theorem ofSeqS_sim (xs : List α) :
    Sim (ofSeqS : Machine (List α × Nat) α) (fun s d r => s.1 = xs ∧ ofSeqRel xs s.2 d r) := by
  constructor
  · rintro ⟨l, idx⟩ d r lg ⟨hl, hR⟩
    simp only at hl hR; subst hl
    obtain ⟨hle, rfl, rfl⟩ := hR
    refine ⟨(l, idx), lg, ?_, rfl, hle, rfl, rfl⟩
    simp only [ofSeqS, bind_apply, get_apply, pure_apply]
    congr 2
    by_cases h : idx < l.length <;> simp [h]
    · omega
  · rintro ⟨l, idx⟩ d a r lg ⟨hl, hR⟩
    simp only at hl hR; subst hl
    obtain ⟨hle, rfl, hr⟩ := hR
    have hlt : idx < l.length := by
      rcases Nat.lt_or_ge idx l.length with h | h
      · exact h
      · rw [List.drop_eq_nil_of_le h] at hr; cases hr
    have hget : l[idx]? = some a := by
      rw [List.getElem?_eq_getElem hlt]
      have := List.drop_eq_getElem_cons hlt
      rw [this] at hr; cases hr; rfl
    have hd : List.drop (idx + 1) l = r := by
      have := List.drop_eq_getElem_cons hlt
      rw [this] at hr; cases hr; rfl
    have ht : List.take (idx + 1) l = List.take idx l ++ [a] := by
      rw [List.take_add_one, hget]; rfl
    refine ⟨(l, idx + 1), lg, ?_, rfl, Nat.succ_le_of_lt hlt, ht.symm, hd.symm⟩
    simp [ofSeqS, bind_apply, hget]
  · rintro ⟨l, idx⟩ d lg ⟨hl, hR⟩
    simp only at hl hR; subst hl
    obtain ⟨hle, rfl, hr⟩ := hR
    have hge : l.length ≤ idx := by
      rcases Nat.lt_or_ge idx l.length with h | h
      · rw [List.drop_eq_getElem_cons h] at hr; cases hr
      · exact h
    refine ⟨nextOnEmpty, (l, idx), lg, ?_, rfl, hle, rfl, hr⟩
    simp [ofSeqS, bind_apply, List.getElem?_eq_none hge]

/-! ## `Zip3(a, b, c)` behaves as `Zip(a, Zip(b, c))` -/

theorem zip3_eq (a : Machine σ α) (b : Machine σ₂ β) (c : Machine σ₃ γ) : zip3 a b c = zip a (zip b c) := by
  unfold zip3 zip
  congr 1
  · funext ⟨s1, s2, s3⟩ lg
    simp only [bind_apply, onFst_apply, onSnd_apply]
    rcases a.hasNext s1 lg with ⟨_ | ba, s1', lg1⟩
    · rfl
    · cases ba
      · rfl
      · simp only [if_true, bind_apply, onFst_apply, onSnd_apply]
        rcases b.hasNext s2 lg1 with ⟨_ | bb, s2', lg2⟩
        · rfl
        · cases bb
          · rfl
          · simp only [if_true, onSnd_apply]
  · funext ⟨s1, s2, s3⟩ lg
    simp only [bind_apply, onFst_apply, onSnd_apply]
    rcases a.next s1 lg with ⟨_ | x, s1', lg1⟩
    · rfl
    · simp only [bind_apply, onFst_apply, onSnd_apply]
      rcases b.next s2 lg1 with ⟨_ | y, s2', lg2⟩
      · rfl
      · simp only [bind_apply, onSnd_apply]
        rcases c.next s3 lg2 with ⟨_ | z, s3', lg3⟩
        · rfl
        · rfl

/-! ## `FlatMap` whose callback is only known to behave on the elements that are pulled; with the
history its demand bound needs -/

/-- the callback behaves on `a`: whatever the log, it returns (without panic) an iterator state
    that represents `h a` -/
def MfOK (mf : α → GoM τ) (Ri : τ → List β → List β → Prop) (h : α → List β) (a : α) : Prop :=
  ∀ lg, ∃ t lg', (mf a).run.run lg = (.ok t, lg') ∧ Ri t [] (h a)

/-- `rc`: what the iterator in `current` will still deliver — a suffix of the inner list of the
    source element pulled last -/
def FlatMapInvG (fuel : Nat) (mf : α → GoM τ) (Ri : τ → List β → List β → Prop) (h : α → List β)
    (cur : Option τ) (d r : List α) (_d' r' : List β) : Prop :=
  r.length < fuel ∧ (∀ a, a ∈ r → MfOK mf Ri h a) ∧
  ∃ rc, CurOK Ri cur rc ∧ r' = rc ++ r.flatMap h ∧
    (rc ≠ [] → ∃ d0 a pre, d = d0 ++ [a] ∧ pre ++ rc = h a)

theorem flatMapLoop_specG {mf : α → GoM τ} {inner : Machine τ β}
    {Ri : τ → List β → List β → Prop} (hI : Sim inner Ri) {h : α → List β}
    {m : Machine σ α} {R : σ → List α → List α → Prop} (hS : Sim m R) :
    ∀ (r : List α) (fuel : Nat) (s : σ) (d : List α) (cur : Option τ) (lg : Log), r.length < fuel → R s d r →
      (∀ a, a ∈ r → MfOK mf Ri h a) → CurOK Ri cur [] →
      ∃ s' cur' lg' d2 r2 rc, flatMapLoop mf inner m fuel (s, cur) lg =
          (.ok (!(r.flatMap h).isEmpty), (s', cur'), lg') ∧
        R s' d2 r2 ∧ r2.length ≤ r.length ∧ (∀ a, a ∈ r2 → a ∈ r) ∧ CurOK Ri cur' rc ∧
        rc ++ r2.flatMap h = r.flatMap h ∧ (r.flatMap h ≠ [] → rc ≠ []) ∧
        (rc ≠ [] → ∃ d0 a, d2 = d0 ++ [a] ∧ rc = h a) := by
  intro r
  induction r with
  | nil =>
    intro fuel s d cur lg hf hR hok hc
    obtain ⟨k, rfl⟩ := Nat.exists_eq_succ_of_ne_zero (by omega : fuel ≠ 0)
    obtain ⟨s1, lg1, h1, hR1⟩ := hS.hasNext s d [] lg hR
    simp only [List.isEmpty_nil, Bool.not_true] at h1
    exact ⟨s1, cur, lg1, d, [], [], by simp [flatMapLoop, bind_apply, onFst_eq _ h1], hR1, by simp,
      fun a ha => ha, hc, by simp, by simp, by simp⟩
  | cons a r ih =>
    intro fuel s d cur lg hf hR hok hc
    obtain ⟨k, rfl⟩ := Nat.exists_eq_succ_of_ne_zero (by omega : fuel ≠ 0)
    obtain ⟨s1, lg1, h1, hR1⟩ := hS.hasNext s d (a :: r) lg hR
    obtain ⟨s2, lg2, h2, hR2⟩ := hS.next_cons s1 d a r lg1 hR1
    obtain ⟨t, lg3, e3, hRi⟩ := hok a (List.mem_cons_self ..) lg2
    have h3 : (IM.liftG (mf a) : IM (σ × Option τ) τ) (s2, cur) lg2 = (.ok t, (s2, cur), lg3) := by
      simp [IM.liftG, e3]
    obtain ⟨t4, lg4, h4, hR4⟩ := hI.hasNext t [] (h a) lg3 hRi
    simp only [List.isEmpty_cons, Bool.not_false] at h1
    have h4' := onSnd_eq s2 (onCurrent_some (dflt := (pure false : IM (Option τ) Bool)) h4)
    cases hh : h a with
    | nil =>
      rw [hh] at h4' hR4
      obtain ⟨s', cur', lg', d2, r2, rc, h5, hR5, hle, hsub, hc5, hrc, hne, hhist⟩ :=
        ih k s2 (d ++ [a]) (some t4) lg4 (by simpa using hf) hR2
          (fun b hb => hok b (List.mem_cons_of_mem _ hb)) ⟨[], hR4⟩
      refine ⟨s', cur', lg', d2, r2, rc, ?_, hR5, by simp; omega, fun b hb => List.mem_cons_of_mem _ (hsub b hb),
        hc5, by simpa [hh] using hrc, by simpa [hh] using hne, hhist⟩
      simp [flatMapLoop, bind_apply, onFst_eq _ h1, onFst_eq _ h2, h3, h4', h5, hh]
    | cons b bs =>
      rw [hh] at h4' hR4
      refine ⟨s2, some t4, lg4, d ++ [a], r, b :: bs, ?_, hR2, by simp, fun c hc' => List.mem_cons_of_mem _ hc',
        ⟨[], hR4⟩, by simp [hh], by simp, fun _ => ⟨d, a, rfl, hh.symm⟩⟩
      simp [flatMapLoop, bind_apply, onFst_eq _ h1, onFst_eq _ h2, h3, h4', hh]

theorem flatMap_hasNextG {mf : α → GoM τ} {inner : Machine τ β}
    {Ri : τ → List β → List β → Prop} (hI : Sim inner Ri) {h : α → List β} (fuel : Nat)
    {m : Machine σ α} {R : σ → List α → List α → Prop}
    (hS : Sim m R) (s : σ) (cur : Option τ) (d' r' : List β) (lg : Log)
    (hrel : liftRel (FlatMapInvG fuel mf Ri h) R (s, cur) d' r') :
    ∃ s' cur' lg', (flatMap fuel mf inner m).hasNext (s, cur) lg = (.ok (!r'.isEmpty), (s', cur'), lg') ∧
      ∃ d r rc, R s' d r ∧ r.length < fuel ∧ (∀ a, a ∈ r → MfOK mf Ri h a) ∧ CurOK Ri cur' rc ∧
        r' = rc ++ r.flatMap h ∧ (r' ≠ [] → rc ≠ []) ∧
        (rc ≠ [] → ∃ d0 a pre, d = d0 ++ [a] ∧ pre ++ rc = h a) := by
  obtain ⟨d, r, hR, hf, hok, rc, hc, rfl, hhist⟩ := hrel
  simp only at hR hf hok hhist
  have hfirst : ∃ cur1 lg1, (IM.onSnd (onCurrent (pure false) inner.hasNext) : IM (σ × Option τ) Bool) (s, cur) lg =
      (.ok (!rc.isEmpty), (s, cur1), lg1) ∧ CurOK Ri cur1 rc := by
    cases cur with
    | none =>
      simp only [CurOK] at hc; subst hc
      exact ⟨none, lg, by simp [onSnd_apply], rfl⟩
    | some t =>
      obtain ⟨dc, hc⟩ := hc
      obtain ⟨t1, lg1, h1, hc1⟩ := hI.hasNext t dc rc lg hc
      exact ⟨some t1, lg1, onSnd_eq s (onCurrent_some h1), dc, hc1⟩
  obtain ⟨cur1, lg1, h1, hc1⟩ := hfirst
  cases rc with
  | cons b bs =>
    refine ⟨s, cur1, lg1, ?_, d, r, b :: bs, hR, hf, hok, hc1, rfl, by simp, hhist⟩
    simp only [List.isEmpty_cons, Bool.not_false] at h1
    simp [flatMap, bind_apply, h1]
  | nil =>
    simp only [List.isEmpty_nil, Bool.not_true] at h1
    obtain ⟨s', cur', lg', d2, r2, rc, h5, hR5, hle, hsub, hc5, hrc, hne, hh2⟩ :=
      flatMapLoop_specG hI hS r fuel s d cur1 lg1 hf hR hok hc1
    refine ⟨s', cur', lg', ?_, d2, r2, rc, hR5, by omega, fun a ha => hok a (hsub a ha), hc5,
      by simpa using hrc.symm, by simpa using hne, ?_⟩
    · simp [flatMap, bind_apply, h1, h5]
    · intro hne'
      obtain ⟨d0, a, hd, hrc'⟩ := hh2 hne'
      exact ⟨d0, a, [], hd, by simpa using hrc'⟩

theorem flatMap_simG {mf : α → GoM τ} {inner : Machine τ β}
    {Ri : τ → List β → List β → Prop} (hI : Sim inner Ri) (h : α → List β) (fuel : Nat)
    {m : Machine σ α} {R : σ → List α → List α → Prop} (hS : Sim m R) :
    Sim (flatMap fuel mf inner m) (liftRel (FlatMapInvG fuel mf Ri h) R) := by
  have hnext : ∀ (sc sc1 : σ × Option τ) (lg lg1 : Log) (b : Bool),
      (flatMap fuel mf inner m).hasNext sc lg = (.ok b, sc1, lg1) →
      (flatMap fuel mf inner m).next sc lg =
        if b then (IM.onSnd (onCurrent (IM.panic "Option.empty") inner.next) : IM (σ × Option τ) β) sc1 lg1
        else (.error nextOnEmpty, sc1, lg1) := by
    intro sc sc1 lg lg1 b h
    unfold flatMap at h ⊢
    simp only [] at h ⊢
    rw [bind_ok h]
    cases b <;> simp
  constructor
  · rintro ⟨s, cur⟩ d' r' lg hrel
    obtain ⟨s', cur', lg', h1, d, r, rc, hR, hf, hok, hc, hr, _, hhist⟩ := flatMap_hasNextG hI fuel hS s cur d' r' lg hrel
    exact ⟨(s', cur'), lg', h1, d, r, hR, hf, hok, rc, hc, hr, hhist⟩
  · rintro ⟨s, cur⟩ d' b r' lg hrel
    obtain ⟨s', cur', lg', h1, d, r, rc, hR, hf, hok, hc, hr, hne, hhist⟩ :=
      flatMap_hasNextG hI fuel hS s cur d' (b :: r') lg hrel
    cases rc with
    | nil => exact absurd rfl (hne (by simp))
    | cons b' bs =>
      simp only [List.cons_append, List.cons.injEq] at hr
      obtain ⟨rfl, rfl⟩ := hr
      cases cur' with
      | none => simp [CurOK] at hc
      | some t =>
        obtain ⟨dc, hc⟩ := hc
        obtain ⟨t2, lg2, h2, hc2⟩ := hI.next_cons t dc b bs lg' hc
        refine ⟨(s', some t2), lg2, ?_, d, r, hR, hf, hok, bs, ⟨_, hc2⟩, rfl, ?_⟩
        · rw [hnext _ _ _ _ _ h1]
          simp [onSnd_eq s' (onCurrent_some (dflt := (IM.panic "Option.empty" : IM (Option τ) β)) h2)]
        · intro _
          obtain ⟨d0, a, pre, hd, hpre⟩ := hhist (by simp)
          exact ⟨d0, a, pre ++ [b], hd, by simpa using hpre⟩
  · rintro ⟨s, cur⟩ d' lg hrel
    obtain ⟨s', cur', lg', h1, d, r, rc, hR, hf, hok, hc, hr, _, hhist⟩ := flatMap_hasNextG hI fuel hS s cur d' [] lg hrel
    refine ⟨nextOnEmpty, (s', cur'), lg', ?_, d, r, hR, hf, hok, rc, hc, hr, hhist⟩
    rw [hnext _ _ _ _ _ h1]; simp

/-! ## `Zip` with history (for its demand bound) -/

/-- as `zip_sim`, and: `b` has delivered exactly as many elements as the zip, `a` at least as many —
    more only once `b` is exhausted (a `Next` that panics still consumes from `a`). -/
theorem zip_simH {a : Machine σ α} {b : Machine σ₂ β} {Ra : σ → List α → List α → Prop}
    {Rb : σ₂ → List β → List β → Prop} (ha : Sim a Ra) (hb : Sim b Rb) :
    Sim (zip a b) (fun s d' r' => ∃ d1 r1 d2 r2, Ra s.1 d1 r1 ∧ Rb s.2 d2 r2 ∧ r' = List.zip r1 r2 ∧
      d2.length = d'.length ∧ d'.length ≤ d1.length ∧ (d'.length < d1.length → r2 = [])) where
  hasNext := by
    rintro ⟨s1, s2⟩ d' r' lg ⟨d1, r1, d2, r2, h1, h2, rfl, hl2, hl1, hex⟩
    obtain ⟨s1', lg1, e1, h1'⟩ := ha.hasNext s1 d1 r1 lg h1
    cases r1 with
    | nil =>
      simp only [List.isEmpty_nil, Bool.not_true] at e1
      exact ⟨(s1', s2), lg1, by simp [zip, bind_apply, onFst_eq _ e1], d1, [], d2, r2, h1', h2, rfl, hl2, hl1, hex⟩
    | cons x r1 =>
      simp only [List.isEmpty_cons, Bool.not_false] at e1
      obtain ⟨s2', lg2, e2, h2'⟩ := hb.hasNext s2 d2 r2 lg1 h2
      refine ⟨(s1', s2'), lg2, ?_, d1, x :: r1, d2, r2, h1', h2', rfl, hl2, hl1, hex⟩
      simp only [zip, bind_apply, onFst_eq _ e1, if_true, onSnd_eq _ e2]
      cases r2 <;> simp
  next_cons := by
    rintro ⟨s1, s2⟩ d' ⟨x, y⟩ r' lg ⟨d1, r1, d2, r2, h1, h2, hr, hl2, hl1, hex⟩
    cases r1 with
    | nil => simp at hr
    | cons x' r1 =>
      cases r2 with
      | nil => simp at hr
      | cons y' r2 =>
        simp only [List.zip_cons_cons, List.cons.injEq, Prod.mk.injEq] at hr
        obtain ⟨⟨rfl, rfl⟩, rfl⟩ := hr
        obtain ⟨s1', lg1, e1, h1'⟩ := ha.next_cons s1 d1 x r1 lg h1
        obtain ⟨s2', lg2, e2, h2'⟩ := hb.next_cons s2 d2 y r2 lg1 h2
        have heq : d'.length = d1.length := by
          rcases Nat.lt_or_ge d'.length d1.length with h | h
          · exact absurd (hex h) (by simp)
          · omega
        refine ⟨(s1', s2'), lg2, by simp [zip, bind_apply, onFst_eq _ e1, onSnd_eq _ e2], _, r1, _, r2, h1', h2', rfl,
          by simp [hl2], by simp [heq], fun h => ?_⟩
        simp only [List.length_append, List.length_cons, List.length_nil] at h
        omega
  next_nil := by
    rintro ⟨s1, s2⟩ d' lg ⟨d1, r1, d2, r2, h1, h2, hr, hl2, hl1, hex⟩
    cases r1 with
    | nil =>
      obtain ⟨p, s1', lg1, e1, h1'⟩ := ha.next_nil s1 d1 lg h1
      exact ⟨p, (s1', s2), lg1, by simp [zip, bind_apply, onFst_eq _ e1], d1, [], d2, r2, h1', h2, by simp, hl2, hl1, hex⟩
    | cons x r1 =>
      cases r2 with
      | cons y r2 => simp at hr
      | nil =>
        obtain ⟨s1', lg1, e1, h1'⟩ := ha.next_cons s1 d1 x r1 lg h1
        obtain ⟨p, s2', lg2, e2, h2'⟩ := hb.next_nil s2 d2 lg1 h2
        exact ⟨p, (s1', s2'), lg2, by simp [zip, bind_apply, onFst_eq _ e1, onSnd_eq _ e2], _, r1, d2, [], h1', h2',
          by simp, hl2, by simp; omega, fun _ => rfl⟩

/-! ## running `GoM` computations (the constructors `Pipe.build`) -/

theorem gom_pure_run {A : Type} (a : A) (lg : Log) : (pure a : GoM A).run.run lg = (.ok a, lg) := rfl

theorem gom_bind_ok {A B : Type} {m : GoM A} {f : A → GoM B} {lg lg1 : Log} {a : A}
    (h : m.run.run lg = (.ok a, lg1)) : (m >>= f).run.run lg = (f a).run.run lg1 := by
  simp only [ExceptT.run_bind]
  simp only [bind, StateT.bind, StateT.run] at h ⊢
  have h' : ExceptT.run m lg = (Except.ok a, lg1) := h
  rw [h']

/-! ## what a pipeline denotes -/

namespace Pipe
open FpVerif.LL (pure1 pure2)

/-- the list a pipeline stands for (`x`: argument of the enclosing `FlatMap` callback) -/
def denote : Pipe → Val → List Val
  | src _ xs, _ => xs
  | seq xs, _ => xs
  | arg n, x => (List.range n).map (fun (i : Nat) => Val.int (x.asInt + (i : Int)))
  | gen _ _ _, _ => []
  | range closed a b, _ => (intRange a (rangeCount closed b a)).map Val.int
  | opt o, _ => o.toList
  | empty, _ => []
  | zero, _ => []
  | rev xs, _ => xs.reverse
  | pullseq _ xs, _ => xs
  | map p f, x => (p.denote x).map (pure1 f)
  | tap p _, x => p.denote x
  | take p n, x => (p.denote x).take n.toNat
  | drop p n, x => (p.denote x).drop n.toNat
  | takew p f, x => (p.denote x).takeWhile (pure1 f)
  | dropw p f, x => (p.denote x).dropWhile (pure1 f)
  | filter p f, x => (p.denote x).filter (pure1 f)
  | filternot p f, x => (p.denote x).filter (fun v => !pure1 f v)
  | concat p q, x => p.denote x ++ q.denote x
  | flatmap p _ k, x => (p.denote x).flatMap (fun a => k.denote a)
  | filtermap p f, x => (p.denote x).filterMap (pure1 f)
  | scan p z f, x => scanl (pure2 f) z (p.denote x)
  | zip p q, x => ((p.denote x).zip (q.denote x)).map (fun ab => tupV ab.1 ab.2)
  | zip3 p q r, x => ((p.denote x).zip ((q.denote x).zip (r.denote x))).map
      (fun abc => Val.tup [abc.1, abc.2.1, abc.2.2])
  | zipidx p, x => (zipIdx 0 (p.denote x)).map (fun ia => tupV (.int ia.1) ia.2)

/-- the pipeline is well-behaved for argument `x`: callbacks do not panic, no unbounded
    `Generate`, and the fuel `FUEL` the oracle gives to the unbounded Go loops of `DropWhile`,
    `Filter`, `FlatMap` covers the data; the callback of `FlatMap` needs to behave only on the
    elements of the source. -/
def OK : Pipe → Val → Prop
  | gen _ _ _, _ => False
  | map p f, x => p.OK x ∧ Total f (pure1 f)
  | tap p f, x => p.OK x ∧ Total f (fun _ => ())
  | take p _, x => p.OK x
  | drop p _, x => p.OK x
  | takew p f, x => p.OK x ∧ Total f (pure1 f)
  | dropw p f, x => p.OK x ∧ Total f (pure1 f) ∧ (p.denote x).length < FUEL
  | filter p f, x => p.OK x ∧ Total f (pure1 f) ∧ (p.denote x).length < FUEL
  | filternot p f, x => p.OK x ∧ Total f (pure1 f) ∧ (p.denote x).length < FUEL
  | concat p q, x => p.OK x ∧ q.OK x
  | flatmap p pre k, x => p.OK x ∧ Total pre (pure1 pre) ∧ (∀ a, a ∈ p.denote x → k.OK a) ∧
      (p.denote x).length < FUEL
  | filtermap p f, x => p.OK x ∧ Total f (pure1 f) ∧ (p.denote x).length < FUEL
  | scan p _ f, x => p.OK x ∧ Total2 f (pure2 f)
  | zip p q, x => p.OK x ∧ q.OK x
  | zip3 p q r, x => p.OK x ∧ q.OK x ∧ r.OK x
  | zipidx p, x => p.OK x
  | _, _ => True

/-! ### the fuel a pipeline needs

Go has no fuel.  `Pipe.WB` is `Pipe.OK` without the `length < FUEL` side conditions (callbacks do not
panic, no unbounded `Generate`); `Pipe.need p x` is the explicit bound: the longest list that is fed
to one of the loops that are unbounded in Go (`DropWhile`, `Filter`, `FilterNot`, `FlatMap`,
`FilterMap`) anywhere in the pipeline, including inside the iterators built by `FlatMap` callbacks.
Every theorem about `machineF fuel` holds for every `fuel > need`. -/

def listMax : List Nat → Nat
  | [] => 0
  | a :: as => Max.max a (listMax as)

theorem le_listMax {l : List Nat} {a : Nat} (h : a ∈ l) : a ≤ listMax l := by
  induction l with
  | nil => cases h
  | cons b l ih =>
    rcases List.mem_cons.mp h with rfl | h
    · exact Nat.le_max_left _ _
    · exact Nat.le_trans (ih h) (Nat.le_max_right _ _)

theorem listMax_lt {l : List Nat} {n : Nat} (hn : 0 < n) (h : ∀ a, a ∈ l → a < n) : listMax l < n := by
  induction l with
  | nil => exact hn
  | cons b l ih =>
    exact Nat.max_lt.mpr ⟨h b (List.mem_cons_self ..), ih (fun a ha => h a (List.mem_cons_of_mem _ ha))⟩

/-- the pipeline is well-behaved for argument `x`: callbacks do not panic, no unbounded `Generate`;
    the callback of `FlatMap` needs to behave only on the elements of the source.  No fuel. -/
def WB : Pipe → Val → Prop
  | src _ _, _ => True
  | seq _, _ => True
  | arg _, _ => True
  | gen _ _ _, _ => False
  | range _ _ _, _ => True
  | opt _, _ => True
  | empty, _ => True
  | zero, _ => True
  | rev _, _ => True
  | pullseq _ _, _ => True
  | map p f, x => p.WB x ∧ Total f (pure1 f)
  | tap p f, x => p.WB x ∧ Total f (fun _ => ())
  | take p _, x => p.WB x
  | drop p _, x => p.WB x
  | takew p f, x => p.WB x ∧ Total f (pure1 f)
  | dropw p f, x => p.WB x ∧ Total f (pure1 f)
  | filter p f, x => p.WB x ∧ Total f (pure1 f)
  | filternot p f, x => p.WB x ∧ Total f (pure1 f)
  | concat p q, x => p.WB x ∧ q.WB x
  | flatmap p pre k, x => p.WB x ∧ Total pre (pure1 pre) ∧ (∀ a, a ∈ p.denote x → k.WB a)
  | filtermap p f, x => p.WB x ∧ Total f (pure1 f)
  | scan p _ f, x => p.WB x ∧ Total2 f (pure2 f)
  | zip p q, x => p.WB x ∧ q.WB x
  | zip3 p q r, x => p.WB x ∧ q.WB x ∧ r.WB x
  | zipidx p, x => p.WB x

/-- THE BOUND: every fuel `> need p x` suffices for pipeline `p` (argument `x`) -/
def need : Pipe → Val → Nat
  | src _ _, _ => 0
  | seq _, _ => 0
  | arg _, _ => 0
  | gen _ _ _, _ => 0
  | range _ _ _, _ => 0
  | opt _, _ => 0
  | empty, _ => 0
  | zero, _ => 0
  | rev _, _ => 0
  | pullseq _ _, _ => 0
  | map p _, x => p.need x
  | tap p _, x => p.need x
  | take p _, x => p.need x
  | drop p _, x => p.need x
  | takew p _, x => p.need x
  | dropw p _, x => Max.max (p.need x) (p.denote x).length
  | filter p _, x => Max.max (p.need x) (p.denote x).length
  | filternot p _, x => Max.max (p.need x) (p.denote x).length
  | concat p q, x => Max.max (p.need x) (q.need x)
  | flatmap p _ k, x => Max.max (p.need x) (Max.max (p.denote x).length (listMax ((p.denote x).map (fun a => k.need a))))
  | filtermap p _, x => Max.max (p.need x) (p.denote x).length
  | scan p _ _, x => p.need x
  | zip p q, x => Max.max (p.need x) (q.need x)
  | zip3 p q r, x => Max.max (p.need x) (Max.max (q.need x) (r.need x))
  | zipidx p, x => p.need x

/-- the old hypothesis is the new one at the oracle's fuel constant -/
theorem OK_iff (p : Pipe) : ∀ x, p.OK x ↔ (p.WB x ∧ p.need x < FUEL) := by
  have hF : 0 < FUEL := by decide
  induction p with
  | src _ _ | seq _ | arg _ | range _ _ _ | opt _ | empty | zero | rev _ | pullseq _ _ =>
    intro x; simp only [OK, WB, need]; exact ⟨fun _ => ⟨trivial, hF⟩, fun _ => trivial⟩
  | gen _ _ _ => intro x; simp [OK, WB]
  | map p f ih | tap p f ih | takew p f ih | scan p z f ih =>
    intro x; simp only [OK, WB, need, ih x]
    constructor
    · rintro ⟨⟨h1, h2⟩, h3⟩; exact ⟨⟨h1, h3⟩, h2⟩
    · rintro ⟨⟨h1, h3⟩, h2⟩; exact ⟨⟨h1, h2⟩, h3⟩
  | take p n ih | drop p n ih | zipidx p ih => intro x; simp only [OK, WB, need, ih x]
  | dropw p f ih | filter p f ih | filternot p f ih | filtermap p f ih =>
    intro x; simp only [OK, WB, need, ih x, Nat.max_lt]
    constructor
    · rintro ⟨⟨h1, h2⟩, h3, h4⟩; exact ⟨⟨h1, h3⟩, h2, h4⟩
    · rintro ⟨⟨h1, h3⟩, h2, h4⟩; exact ⟨⟨h1, h2⟩, h3, h4⟩
  | concat p q ihp ihq | zip p q ihp ihq =>
    intro x; simp only [OK, WB, need, ihp x, ihq x, Nat.max_lt]
    constructor
    · rintro ⟨⟨h1, h2⟩, h3, h4⟩; exact ⟨⟨h1, h3⟩, h2, h4⟩
    · rintro ⟨⟨h1, h3⟩, h2, h4⟩; exact ⟨⟨h1, h2⟩, h3, h4⟩
  | zip3 p q r ihp ihq ihr =>
    intro x; simp only [OK, WB, need, ihp x, ihq x, ihr x, Nat.max_lt]
    constructor
    · rintro ⟨⟨h1, h2⟩, ⟨h3, h4⟩, h5, h6⟩; exact ⟨⟨h1, h3, h5⟩, h2, h4, h6⟩
    · rintro ⟨⟨h1, h3, h5⟩, h2, h4, h6⟩; exact ⟨⟨h1, h2⟩, ⟨h3, h4⟩, h5, h6⟩
  | flatmap p pre k ihp ihk =>
    intro x; simp only [OK, WB, need, ihp x, Nat.max_lt]
    constructor
    · rintro ⟨⟨h1, h2⟩, h3, h4, h5⟩
      refine ⟨⟨h1, h3, fun a ha => ((ihk a).mp (h4 a ha)).1⟩, h2, h5, listMax_lt hF ?_⟩
      intro n hn
      obtain ⟨a, ha, rfl⟩ := List.mem_map.mp hn
      exact ((ihk a).mp (h4 a ha)).2
    · rintro ⟨⟨h1, h3, h4⟩, h2, h5, h6⟩
      refine ⟨⟨h1, h2⟩, h3, fun a ha => (ihk a).mpr ⟨h4 a ha, ?_⟩, h5⟩
      exact Nat.lt_of_le_of_lt (le_listMax (List.mem_map_of_mem (f := fun a => k.need a) ha)) h6

/-- Joint invariant of the iterator and of its `concat` field (the components a later `Concat`
    iterates over, which share the state): `Rm` is a simulation for the iterator, `Rp` one for the
    components, and whenever the iterator will deliver `r`, the components together will deliver
    `r` (so consuming through the iterator — `Drop` — and then concatenating is sound). -/
def JointF (fuel : Nat) (p : Pipe) (s : p.St) (l : List Val) : Prop :=
  ∃ (Rm : p.St → List Val → List Val → Prop) (Rp : p.St → (Nat → List Val) → Prop),
    Sim (machineF fuel p) Rm ∧ MSim (partsF fuel p) Rp ∧
    (∀ s d r, Rm s d r → ∃ L, Rp s L ∧ flatFrom L 0 (partsF fuel p).n = r) ∧ ∃ d, Rm s d l

/-- the joint invariant for the machines the oracle runs (fuel constant `FUEL`) -/
def Joint (p : Pipe) (s : p.St) (l : List Val) : Prop :=
  ∃ (Rm : p.St → List Val → List Val → Prop) (Rp : p.St → (Nat → List Val) → Prop),
    Sim (machine p) Rm ∧ MSim (parts p) Rp ∧
    (∀ s d r, Rm s d r → ∃ L, Rp s L ∧ flatFrom L 0 (parts p).n = r) ∧ ∃ d, Rm s d l

theorem Joint_iff (p : Pipe) (s : p.St) (l : List Val) : Joint p s l ↔ JointF FUEL p s l := Iff.rfl

theorem represents_reset' {m : Machine σ α} {s : σ} {d r : List α} (h : Represents m s d r) :
    Represents m s [] r := by
  obtain ⟨R, hS, hR⟩ := h
  refine ⟨fun s d' r => ∃ d0, R s (d0 ++ d') r, ⟨?_, ?_, ?_⟩, d, by simpa using hR⟩
  · rintro s d' r lg ⟨d0, h⟩
    obtain ⟨s', lg', e, h'⟩ := hS.hasNext s _ r lg h
    exact ⟨s', lg', e, d0, h'⟩
  · rintro s d' a r lg ⟨d0, h⟩
    obtain ⟨s', lg', e, h'⟩ := hS.next_cons s _ a r lg h
    exact ⟨s', lg', e, d0, by simpa using h'⟩
  · rintro s d' lg ⟨d0, h⟩
    obtain ⟨p, s', lg', e, h'⟩ := hS.next_nil s _ lg h
    exact ⟨p, s', lg', e, d0, h'⟩

theorem JointF.represents {fuel : Nat} {p : Pipe} {s : p.St} {l : List Val} (h : JointF fuel p s l) :
    Represents (machineF fuel p) s [] l := by
  obtain ⟨Rm, _, hS, _, _, d, hd⟩ := h
  exact represents_reset' ⟨Rm, hS, hd⟩

theorem Joint.represents {p : Pipe} {s : p.St} {l : List Val} (h : Joint p s l) :
    Represents (machine p) s [] l := JointF.represents (fuel := FUEL) h

/-- an iterator that is not a `Concat` result: its `concat` field is itself -/
theorem JointF.ofRepresents {fuel : Nat} {p : Pipe} {s : p.St} {l : List Val}
    (hparts : partsF fuel p = MMachine.single (machineF fuel p))
    (h : Represents (machineF fuel p) s [] l) : JointF fuel p s l := by
  refine ⟨Represents (machineF fuel p), fun s L => ∃ d, Represents (machineF fuel p) s d (L 0), Represents.sim _, ?_, ?_, [], h⟩
  · rw [hparts]; exact single_msim (Represents.sim _)
  · intro s d r hR
    refine ⟨fun _ => r, ⟨d, hR⟩, ?_⟩
    rw [hparts]
    simp [MMachine.single, flatFrom]

theorem Joint.ofRepresents {p : Pipe} {s : p.St} {l : List Val} (hparts : parts p = MMachine.single (machine p))
    (h : Represents (machine p) s [] l) : Joint p s l := JointF.ofRepresents (fuel := FUEL) hparts h

/-! unfolding the (well-founded, hence irreducible) mutual definitions -/

theorem partsF_concat (fuel : Nat) (a b : Pipe) :
    partsF fuel (.concat a b) = concatParts ((partsF fuel a).join (partsF fuel b)) := by
  conv => lhs; unfold Pipe.partsF

theorem partsF_drop (fuel : Nat) (a : Pipe) (n : Int) : partsF fuel (.drop a n) = partsF fuel a := by
  conv => lhs; unfold Pipe.partsF

theorem partsF_single (fuel : Nat) (p : Pipe) (h1 : ∀ a b, p ≠ .concat a b) (h2 : ∀ a n, p ≠ .drop a n) :
    partsF fuel p = MMachine.single (machineF fuel p) := by
  cases p with
  | concat a b => exact absurd rfl (h1 a b)
  | drop a n => exact absurd rfl (h2 a n)
  | _ => conv => lhs; unfold Pipe.partsF

theorem partsF_n_pos (fuel : Nat) : ∀ (p : Pipe), 0 < (partsF fuel p).n := by
  intro p
  induction p with
  | concat a b iha ihb =>
    rw [partsF_concat]; simp only [concatParts, MMachine.join]; omega
  | drop q n ih => rw [partsF_drop]; exact ih
  | _ => rw [partsF_single _ _ (by intros; simp) (by intros; simp)] <;> simp [MMachine.single]

theorem machineF_concat (fuel : Nat) (a b : Pipe) :
    machineF fuel (.concat a b) = It.concat ((partsF fuel a).join (partsF fuel b)) := by
  rw [machineF]

theorem machineF_drop (fuel : Nat) (a : Pipe) (n : Int) : machineF fuel (.drop a n) = machineF fuel a := by
  rw [machineF]

theorem parts_concat (a b : Pipe) : parts (.concat a b) = concatParts ((parts a).join (parts b)) :=
  partsF_concat FUEL a b

theorem parts_drop (a : Pipe) (n : Int) : parts (.drop a n) = parts a := partsF_drop FUEL a n

theorem parts_single (p : Pipe) (h1 : ∀ a b, p ≠ .concat a b) (h2 : ∀ a n, p ≠ .drop a n) :
    parts p = MMachine.single (machine p) := partsF_single FUEL p h1 h2

theorem parts_n_pos : ∀ (p : Pipe), 0 < (parts p).n := partsF_n_pos FUEL

theorem machine_concat (a b : Pipe) : machine (.concat a b) = It.concat ((parts a).join (parts b)) :=
  machineF_concat FUEL a b

theorem machine_drop (a : Pipe) (n : Int) : machine (.drop a n) = machine a := machineF_drop FUEL a n

/-- `a.Concat(b)`: iterates over the components of `a`, then those of `b` — also when `a` or `b`
    are `Concat` results that have already been partly consumed (by `Drop`). -/
theorem JointF.concat {fuel : Nat} {a b : Pipe} {sa : a.St} {sb : b.St} {la lb : List Val}
    (ha : JointF fuel a sa la) (hb : JointF fuel b sb lb) :
    JointF fuel (.concat a b) ((sa, sb), {}) (la ++ lb) := by
  obtain ⟨Rma, Rpa, _, hMa, hla, da, hda⟩ := ha
  obtain ⟨Rmb, Rpb, _, hMb, hlb, db, hdb⟩ := hb
  obtain ⟨La, hRpa, hfa⟩ := hla sa da la hda
  obtain ⟨Lb, hRpb, hfb⟩ := hlb sb db lb hdb
  have hms := join_msim hMa hMb
  refine ⟨concatRel ((partsF fuel a).join (partsF fuel b)).n (joinRel (partsF fuel a).n Rpa Rpb),
    fun sc L => joinRel (partsF fuel a).n Rpa Rpb sc.1 L, ?_, ?_, ?_, [], ?_⟩
  · rw [machineF_concat]; exact concat_sim hms
  · rw [partsF_concat]; exact concatParts_msim hms
  · rintro ⟨s, c⟩ d r ⟨L, hR, hI⟩
    refine ⟨L, hR, ?_⟩
    rw [partsF_concat]
    exact hI.flat.symm
  · refine ⟨fun i => if i < (partsF fuel a).n then La i else Lb (i - (partsF fuel a).n), ⟨La, Lb, hRpa, hRpb, fun i => rfl⟩, ?_⟩
    have hflat := flatFrom_join La Lb (fun i => if i < (partsF fuel a).n then La i else Lb (i - (partsF fuel a).n))
      (partsF fuel a).n (partsF fuel b).n (fun i => rfl)
    rw [hfa, hfb] at hflat
    have hn : ((partsF fuel a).join (partsF fuel b)).n = (partsF fuel a).n + (partsF fuel b).n := rfl
    have hpos := partsF_n_pos fuel a
    refine ⟨by omega, rfl, ?_, by simp, fun j hj => absurd hj (Nat.not_lt_zero _)⟩
    rw [← hflat, hn]
    rw [show (partsF fuel a).n + (partsF fuel b).n = ((partsF fuel a).n + (partsF fuel b).n - (0 + 1)) + 1 by omega]
    rfl

theorem Joint.concat {a b : Pipe} {sa : a.St} {sb : b.St} {la lb : List Val} (ha : Joint a sa la) (hb : Joint b sb lb) :
    Joint (.concat a b) ((sa, sb), {}) (la ++ lb) := JointF.concat (fuel := FUEL) ha hb

/-- `q.Drop(n)` advances `q` itself at construction time; iterator and components stay in step. -/
theorem JointF.drop {fuel : Nat} {q : Pipe} {s : q.St} {l : List Val} (h : JointF fuel q s l) (n : Int) (lg : Log) :
    ∃ (s' : q.St) (lg' : Log), It.drop n (machineF fuel q) s lg = (.ok (), s', lg') ∧
      JointF fuel (.drop q n) s' (l.drop n.toNat) := by
  obtain ⟨Rm, Rp, hS, hM, hl, d, hd⟩ := h
  obtain ⟨s', lg', e, hR⟩ := dropLoop_spec hS n.toNat s d l lg hd
  refine ⟨s', lg', e, Rm, Rp, ?_, ?_, ?_, _, hR⟩
  · rw [machineF_drop]; exact hS
  · rw [partsF_drop]; exact hM
  · rw [partsF_drop]; exact hl

theorem Joint.drop {q : Pipe} {s : q.St} {l : List Val} (h : Joint q s l) (n : Int) (lg : Log) :
    ∃ (s' : q.St) (lg' : Log), It.drop n (machine q) s lg = (.ok (), s', lg') ∧
      Joint (.drop q n) s' (l.drop n.toNat) := JointF.drop (fuel := FUEL) h n lg

end Pipe

end FpVerif.It
