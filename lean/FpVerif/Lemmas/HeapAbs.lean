import FpVerif.Lemmas.HeapBasic
/-!
The abstraction function `absF` of `Model/HamtHeap.lean`: unfolding per cell kind, monotonicity in
the fuel, validity of the footprint, and the FRAME RULE — the abstraction only depends on the cells
of the footprint.
-/
set_option linter.unusedSimpArgs false
set_option linter.unusedVariables false
namespace FpVerif.HamtHeap
open FpVerif.Hamt
variable {K V : Type} {α β : Type}

/-- prove an equation between lists built from take/drop/set/append by comparing all positions -/
macro "list_ext" : tactic => `(tactic| (apply List.ext_getElem?; intro j; simp only [List.getElem?_take, List.getElem?_drop, List.getElem?_set, List.getElem?_append, List.getElem?_cons, List.length_take, List.length_drop, List.length_set, List.length_append, List.length_cons, List.getElem?_replicate, List.getElem?_map, List.length_map, List.length_replicate, List.length_nil, List.getElem?_nil]; grind))

-- mapOpt -------------------------------------------------------------------------------------------

theorem mapOpt_eq_some_iff {g : α → Option β} {l : List α} {r : List β} :
    mapOpt g l = some r ↔ l.map g = r.map some := by
  induction l generalizing r with
  | nil => cases r <;> simp [mapOpt]
  | cons x xs ih =>
    unfold mapOpt
    cases hx : g x with
    | none => cases r <;> simp [hx]
    | some y =>
      cases hxs : mapOpt g xs with
      | none =>
        cases r with
        | nil => simp
        | cons y' r' =>
          simp only [List.map_cons, hx, List.cons.injEq, Option.some.injEq, reduceCtorEq, false_iff, not_and]
          intro _ h2
          rw [← ih] at h2; rw [hxs] at h2; cases h2
      | some ys =>
        cases r with
        | nil => simp
        | cons y' r' =>
          simp only [List.map_cons, hx, List.cons.injEq, Option.some.injEq]
          rw [← ih, hxs]; simp

theorem mapOpt_length {g : α → Option β} {l : List α} {r : List β} (h : mapOpt g l = some r) :
    r.length = l.length := by
  have := congrArg List.length (mapOpt_eq_some_iff.mp h)
  simpa using this.symm

theorem mapOpt_getElem? {g : α → Option β} {l : List α} {r : List β} (h : mapOpt g l = some r)
    {i : Nat} {x : α} (hx : l[i]? = some x) : ∃ y, r[i]? = some y ∧ g x = some y := by
  have := congrArg (fun l => l[i]?) (mapOpt_eq_some_iff.mp h)
  simp only [List.getElem?_map, hx, Option.map_some] at this
  cases hr : r[i]? with
  | none => rw [hr] at this; cases this
  | some y => rw [hr] at this; exact ⟨y, rfl, by simpa using this⟩

theorem mapOpt_getElem?' {g : α → Option β} {l : List α} {r : List β} (h : mapOpt g l = some r)
    {i : Nat} {y : β} (hy : r[i]? = some y) : ∃ x, l[i]? = some x ∧ g x = some y := by
  have := congrArg (fun l => l[i]?) (mapOpt_eq_some_iff.mp h)
  simp only [List.getElem?_map, hy, Option.map_some] at this
  cases hl : l[i]? with
  | none => rw [hl] at this; cases this
  | some x => rw [hl] at this; exact ⟨x, rfl, by simpa using this⟩

theorem mapOpt_mem {g : α → Option β} {l : List α} {r : List β} (h : mapOpt g l = some r)
    {x : α} (hx : x ∈ l) : ∃ y ∈ r, g x = some y := by
  obtain ⟨i, hi⟩ := List.getElem?_of_mem hx
  obtain ⟨y, hy, hg⟩ := mapOpt_getElem? h hi
  exact ⟨y, List.mem_of_getElem? hy, hg⟩

theorem mapOpt_congr {g g' : α → Option β} {l : List α} (h : ∀ x ∈ l, g x = g' x) :
    mapOpt g l = mapOpt g' l := by
  induction l with
  | nil => rfl
  | cons x xs ih =>
    unfold mapOpt
    rw [h x (by simp), ih (fun y hy => h y (by simp [hy]))]

theorem mapOpt_some (f : α → β) (l : List α) : mapOpt (fun x => some (f x)) l = some (l.map f) := by
  rw [mapOpt_eq_some_iff]; simp

theorem mapOpt_map {γ : Type} (g : β → Option γ) (f : α → β) (l : List α) :
    mapOpt g (l.map f) = mapOpt (fun x => g (f x)) l := by
  induction l with
  | nil => rfl
  | cons x xs ih => simp only [List.map_cons, mapOpt, ih]

theorem mapOpt_set {g : α → Option β} {l : List α} {r : List β} (h : mapOpt g l = some r)
    {i : Nat} {x : α} {y : β} (hx : g x = some y) : mapOpt g (l.set i x) = some (r.set i y) := by
  rw [mapOpt_eq_some_iff] at h ⊢
  rw [List.map_set, List.map_set, h, hx]

theorem mapOpt_append {g : α → Option β} {a b : List α} {ra rb : List β} (ha : mapOpt g a = some ra)
    (hb : mapOpt g b = some rb) : mapOpt g (a ++ b) = some (ra ++ rb) := by
  rw [mapOpt_eq_some_iff] at ha hb ⊢
  rw [List.map_append, List.map_append, ha, hb]

theorem mapOpt_take {g : α → Option β} {l : List α} {r : List β} (h : mapOpt g l = some r) (n : Nat) :
    mapOpt g (l.take n) = some (r.take n) := by
  rw [mapOpt_eq_some_iff] at h ⊢
  rw [List.map_take, List.map_take, h]

theorem mapOpt_drop {g : α → Option β} {l : List α} {r : List β} (h : mapOpt g l = some r) (n : Nat) :
    mapOpt g (l.drop n) = some (r.drop n) := by
  rw [mapOpt_eq_some_iff] at h ⊢
  rw [List.map_drop, List.map_drop, h]

theorem mapOpt_cons {g : α → Option β} {x : α} {y : β} {l : List α} {r : List β} (hx : g x = some y)
    (h : mapOpt g l = some r) : mapOpt g (x :: l) = some (y :: r) := by
  simp [mapOpt, hx, h]

-- slices -------------------------------------------------------------------------------------------

theorem viewWith_eq_some {g : Slot K V → Option β} {H : Heap K V} {s : Slice} {xs : List β}
    (h : viewWith g H s = some xs) : ∃ slots, H[s.arr]? = some (.arr slots) ∧ s.len ≤ slots.length ∧
      mapOpt (fun o => o.bind g) (slots.take s.len) = some xs := by
  unfold viewWith at h
  split at h
  · rename_i slots hc
    split at h
    · rename_i hle; exact ⟨slots, hc, hle, h⟩
    · cases h
  · cases h

theorem viewWith_intro {g : Slot K V → Option β} {H : Heap K V} {s : Slice} {xs : List β}
    {slots : List (Option (Slot K V))} (hc : H[s.arr]? = some (.arr slots)) (hle : s.len ≤ slots.length)
    (hm : mapOpt (fun o => o.bind g) (slots.take s.len) = some xs) : viewWith g H s = some xs := by
  unfold viewWith
  simp [hc, hle, hm]

theorem viewWith_length {g : Slot K V → Option β} {H : Heap K V} {s : Slice} {xs : List β}
    (h : viewWith g H s = some xs) : xs.length = s.len := by
  obtain ⟨slots, _, hle, hm⟩ := viewWith_eq_some h
  rw [mapOpt_length hm, List.length_take]; omega

/-- a slice view only depends on its backing array cell -/
theorem viewWith_agree {g : Slot K V → Option β} {H H' : Heap K V} {s : Slice}
    (h : H'[s.arr]? = H[s.arr]?) : viewWith g H' s = viewWith g H s := by
  unfold viewWith; rw [h]

theorem viewWith_arr_lt {g : Slot K V → Option β} {H : Heap K V} {s : Slice} {xs : List β}
    (h : viewWith g H s = some xs) : s.arr < H.size := by
  obtain ⟨slots, hc, _, _⟩ := viewWith_eq_some h
  exact lt_size_of_get hc

-- absF: unfolding per cell kind ------------------------------------------------------------------

theorem absF_array {f s : Nat} {H : Heap K V} {p : Addr} {sl : Slice} (h : H[p]? = some (.array sl)) :
    absF (f + 1) s H p =
      if s = 0 then (viewEnts H sl).map (fun es => (Node.array es, [p, sl.arr])) else none := by
  simp [absF, h]

theorem absF_bitmap {f s : Nat} {H : Heap K V} {p : Addr} {bm : Nat} {sl : Slice}
    (h : H[p]? = some (.bitmap bm sl)) (hs : s < 32) :
    absF (f + 1) s H p = (viewPtrs H sl).bind fun ps =>
      (mapOpt (absF f (s + mapNodeBits) H) ps).map fun rs =>
        (Node.bitmap bm (rs.map (·.1)), p :: sl.arr :: (rs.map (·.2)).flatten) := by
  simp [absF, h, hs]

theorem absF_bitmap_lt {f s : Nat} {H : Heap K V} {p : Addr} {bm : Nat} {sl : Slice}
    (h : H[p]? = some (.bitmap bm sl)) {r : Node K V × List Addr} (habs : absF (f + 1) s H p = some r) :
    s < 32 := by
  rcases Nat.lt_or_ge s 32 with h' | h'
  · exact h'
  · have : ¬ s < 32 := by omega
    simp [absF, h, this] at habs

theorem absF_hashArray_lt {f s : Nat} {H : Heap K V} {p : Addr} {cnt : Nat} {slots : List (Option Addr)}
    (h : H[p]? = some (.hashArray cnt slots)) {r : Node K V × List Addr} (habs : absF (f + 1) s H p = some r) :
    s < 32 := by
  rcases Nat.lt_or_ge s 32 with h' | h'
  · exact h'
  · have : ¬ s < 32 := by omega
    simp [absF, h, this] at habs

/-- abstraction of one slot of a hash-array node -/
def absSlot (f s : Nat) (H : Heap K V) : Option Addr → Option (Option (Node K V) × List Addr)
  | none => some (none, [])
  | some c => (absF f s H c).map (fun r => (some r.1, r.2))

theorem absF_hashArray {f s : Nat} {H : Heap K V} {p : Addr} {cnt : Nat} {slots : List (Option Addr)}
    (h : H[p]? = some (.hashArray cnt slots)) (hs : s < 32) :
    absF (f + 1) s H p = (mapOpt (absSlot f (s + mapNodeBits) H) slots).map fun rs =>
        (Node.hashArray cnt (rs.map (·.1)), p :: (rs.map (·.2)).flatten) := by
  simp only [absF, h, hs, if_true]
  congr 1

theorem absF_value {f s : Nat} {H : Heap K V} {p : Addr} {kh : UInt32} {k : K} {v : V}
    (h : H[p]? = some (.value kh k v)) : absF (f + 1) s H p = some (Node.value kh k v, [p]) := by
  simp [absF, h]

theorem absF_collision {f s : Nat} {H : Heap K V} {p : Addr} {kh : UInt32} {sl : Slice}
    (h : H[p]? = some (.collision kh sl)) :
    absF (f + 1) s H p = (viewEnts H sl).map (fun es => (Node.collision kh es, [p, sl.arr])) := by
  simp [absF, h]

theorem absF_zero (s : Nat) (H : Heap K V) (p : Addr) : absF 0 s H p = none := rfl

-- absF: footprint ----------------------------------------------------------------------------------

/-- every address of the footprint is allocated, and the pointer itself heads the footprint -/
theorem absF_valid : ∀ {f s : Nat} {H : Heap K V} {p : Addr} {n : Node K V} {fp : List Addr},
    absF f s H p = some (n, fp) → (∀ a ∈ fp, a < H.size) ∧ ∃ t, fp = p :: t := by
  intro f
  induction f with
  | zero => intro s H p n fp h; cases h
  | succ f ih =>
    intro s H p n fp h
    cases hc : H[p]? with
    | none => simp [absF, hc] at h
    | some c =>
      have hp := lt_size_of_get hc
      cases c with
      | hamt sz r => simp [absF, hc] at h
      | arr sl => simp [absF, hc] at h
      | value kh k v =>
        rw [absF_value hc] at h; cases h
        exact ⟨by simp [hp], [], rfl⟩
      | array sl =>
        rw [absF_array hc] at h
        split at h
        · simp only [Option.map_eq_some_iff] at h
          obtain ⟨es, hv, he⟩ := h; cases he
          have := viewWith_arr_lt hv
          exact ⟨by simp [hp, this], _, rfl⟩
        · cases h
      | collision kh sl =>
        rw [absF_collision hc] at h
        simp only [Option.map_eq_some_iff] at h
        obtain ⟨es, hv, he⟩ := h; cases he
        have := viewWith_arr_lt hv
        exact ⟨by simp [hp, this], _, rfl⟩
      | bitmap bm sl =>
        rw [absF_bitmap hc (absF_bitmap_lt hc h)] at h
        simp only [Option.bind_eq_some_iff, Option.map_eq_some_iff] at h
        obtain ⟨ps, hv, rs, hm, he⟩ := h; cases he
        have ha := viewWith_arr_lt hv
        refine ⟨?_, _, rfl⟩
        intro a hmem
        simp only [List.mem_cons, List.mem_flatten, List.mem_map] at hmem
        rcases hmem with rfl | rfl | ⟨l, ⟨r, hr, rfl⟩, hal⟩
        · exact hp
        · exact ha
        · obtain ⟨i, hi⟩ := List.getElem?_of_mem hr
          obtain ⟨c, _, hcabs⟩ := mapOpt_getElem?' hm hi
          exact (ih (n := r.1) (fp := r.2) hcabs).1 a hal
      | hashArray cnt slots =>
        rw [absF_hashArray hc (absF_hashArray_lt hc h)] at h
        simp only [Option.map_eq_some_iff] at h
        obtain ⟨rs, hm, he⟩ := h; cases he
        refine ⟨?_, _, rfl⟩
        intro a hmem
        simp only [List.mem_cons, List.mem_flatten, List.mem_map] at hmem
        rcases hmem with rfl | ⟨l, ⟨r, hr, rfl⟩, hal⟩
        · exact hp
        · obtain ⟨i, hi⟩ := List.getElem?_of_mem hr
          obtain ⟨o, _, hoabs⟩ := mapOpt_getElem?' hm hi
          cases o with
          | none => simp [absSlot] at hoabs; rw [← hoabs] at hal; cases hal
          | some c =>
            simp only [absSlot, Option.map_eq_some_iff] at hoabs
            obtain ⟨rc, hcabs, hrc⟩ := hoabs
            rw [← hrc] at hal
            exact (ih (n := rc.1) (fp := rc.2) hcabs).1 a hal

theorem absF_lt {f s : Nat} {H : Heap K V} {p : Addr} {n : Node K V} {fp : List Addr}
    (h : absF f s H p = some (n, fp)) {a : Addr} (ha : a ∈ fp) : a < H.size := (absF_valid h).1 a ha

theorem absF_self_mem {f s : Nat} {H : Heap K V} {p : Addr} {n : Node K V} {fp : List Addr}
    (h : absF f s H p = some (n, fp)) : p ∈ fp := by
  obtain ⟨t, ht⟩ := (absF_valid h).2; simp [ht]

/-- **frame rule**: the abstraction depends only on the cells of its footprint -/
theorem absF_agree : ∀ {f s : Nat} {H H' : Heap K V} {p : Addr} {n : Node K V} {fp : List Addr},
    absF f s H p = some (n, fp) → (∀ a ∈ fp, H'[a]? = H[a]?) → absF f s H' p = some (n, fp) := by
  intro f
  induction f with
  | zero => intro s H H' p n fp h; cases h
  | succ f ih =>
    intro s H H' p n fp h hag
    have hpp := hag p (absF_self_mem h)
    cases hc : H[p]? with
    | none => simp [absF, hc] at h
    | some c =>
      have hc' : H'[p]? = some c := by rw [hpp, hc]
      cases c with
      | hamt sz r => simp [absF, hc] at h
      | arr sl => simp [absF, hc] at h
      | value kh k v => rw [absF_value hc] at h; rw [absF_value hc']; exact h
      | array sl =>
        rw [absF_array hc] at h; rw [absF_array hc']
        split at h
        · rename_i hs
          simp only [Option.map_eq_some_iff] at h
          obtain ⟨es, hv, he⟩ := h; cases he
          have := hag sl.arr (by simp)
          simp only [hs, if_true]
          rw [show viewEnts H' sl = viewEnts H sl from viewWith_agree this, hv]; rfl
        · cases h
      | collision kh sl =>
        rw [absF_collision hc] at h; rw [absF_collision hc']
        simp only [Option.map_eq_some_iff] at h
        obtain ⟨es, hv, he⟩ := h; cases he
        have := hag sl.arr (by simp)
        rw [show viewEnts H' sl = viewEnts H sl from viewWith_agree this, hv]; rfl
      | bitmap bm sl =>
        have hs := absF_bitmap_lt hc h
        rw [absF_bitmap hc hs] at h; rw [absF_bitmap hc' hs]
        simp only [Option.bind_eq_some_iff, Option.map_eq_some_iff] at h
        obtain ⟨ps, hv, rs, hm, he⟩ := h; cases he
        have := hag sl.arr (by simp)
        rw [show viewPtrs H' sl = viewPtrs H sl from viewWith_agree this, hv]
        have hm' : mapOpt (absF f (s + mapNodeBits) H') ps = some rs := by
          rw [← hm]
          apply mapOpt_congr
          intro c hcm
          obtain ⟨r, hr, hcabs⟩ := mapOpt_mem hm hcm
          rw [hcabs]
          apply ih (n := r.1) (fp := r.2) hcabs
          intro a ha
          apply hag
          simp only [List.mem_cons, List.mem_flatten, List.mem_map]
          exact Or.inr (Or.inr ⟨r.2, ⟨r, hr, rfl⟩, ha⟩)
        simp [hm']
      | hashArray cnt slots =>
        have hs := absF_hashArray_lt hc h
        rw [absF_hashArray hc hs] at h; rw [absF_hashArray hc' hs]
        simp only [Option.map_eq_some_iff] at h
        obtain ⟨rs, hm, he⟩ := h; cases he
        have hm' : mapOpt (absSlot f (s + mapNodeBits) H') slots = some rs := by
          rw [← hm]
          apply mapOpt_congr
          intro o hom
          obtain ⟨r, hr, hoabs⟩ := mapOpt_mem hm hom
          cases o with
          | none => rfl
          | some c =>
            simp only [absSlot, Option.map_eq_some_iff] at hoabs ⊢
            obtain ⟨rc, hcabs, hrc⟩ := hoabs
            have : absF f (s + mapNodeBits) H' c = some rc := by
              apply ih (n := rc.1) (fp := rc.2) hcabs
              intro a ha
              apply hag
              simp only [List.mem_cons, List.mem_flatten, List.mem_map]
              exact Or.inr ⟨r.2, ⟨r, hr, rfl⟩, by rw [← hrc]; exact ha⟩
            rw [this, hcabs]
        simp [hm']

/-- the abstraction of an existing pointer survives every extension of the heap -/
theorem absF_le {f s : Nat} {H H' : Heap K V} {p : Addr} {n : Node K V} {fp : List Addr}
    (h : absF f s H p = some (n, fp)) (hle : Heap.le H H') : absF f s H' p = some (n, fp) :=
  absF_agree h (fun a ha => hle.2 a (absF_lt h ha))

/-- more fuel does not change the abstraction -/
theorem absF_mono_succ : ∀ {f s : Nat} {H : Heap K V} {p : Addr} {r : Node K V × List Addr},
    absF f s H p = some r → absF (f + 1) s H p = some r := by
  intro f
  induction f with
  | zero => intro s H p r h; cases h
  | succ f ih =>
    intro s H p r h
    cases hc : H[p]? with
    | none => simp [absF, hc] at h
    | some c =>
      cases c with
      | hamt sz r => simp [absF, hc] at h
      | arr sl => simp [absF, hc] at h
      | value kh k v => rw [absF_value hc] at h ⊢; exact h
      | array sl => rw [absF_array hc] at h ⊢; exact h
      | collision kh sl => rw [absF_collision hc] at h ⊢; exact h
      | bitmap bm sl =>
        have hs := absF_bitmap_lt hc h
        rw [absF_bitmap hc hs] at h ⊢
        simp only [Option.bind_eq_some_iff, Option.map_eq_some_iff] at h
        obtain ⟨ps, hv, rs, hm, he⟩ := h
        have hm' : mapOpt (absF (f + 1) (s + mapNodeBits) H) ps = some rs := by
          rw [← hm]; apply mapOpt_congr
          intro c hcm
          obtain ⟨r, _, hcabs⟩ := mapOpt_mem hm hcm
          rw [hcabs]; exact ih hcabs
        simp [hv, hm', he]
      | hashArray cnt slots =>
        have hs := absF_hashArray_lt hc h
        rw [absF_hashArray hc hs] at h ⊢
        simp only [Option.map_eq_some_iff] at h
        obtain ⟨rs, hm, he⟩ := h
        have hm' : mapOpt (absSlot (f + 1) (s + mapNodeBits) H) slots = some rs := by
          rw [← hm]; apply mapOpt_congr
          intro o hom
          obtain ⟨r, _, hoabs⟩ := mapOpt_mem hm hom
          cases o with
          | none => rfl
          | some c =>
            simp only [absSlot, Option.map_eq_some_iff] at hoabs ⊢
            obtain ⟨rc, hcabs, hrc⟩ := hoabs
            rw [ih hcabs, hcabs]
        simp [hm', he]

theorem absF_mono {f f' s : Nat} {H : Heap K V} {p : Addr} {r : Node K V × List Addr}
    (h : absF f s H p = some r) (hle : f ≤ f') : absF f' s H p = some r := by
  induction hle with
  | refl => exact h
  | step _ ih => exact absF_mono_succ ih

end FpVerif.HamtHeap
