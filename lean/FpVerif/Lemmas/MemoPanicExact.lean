import FpVerif.Lemmas.MemoPanicLive
/-!
# The panic of `f` is observed by EXACTLY one call once the `Once` is released (`Model/MemoPanic.lean`)

`Inv.pan` bounds the number of calls that ended in a panic by one; here the exact count: it is the number of
goroutines that are between `done.Store(1)` and `Unlock()` with a panic in flight plus the calls that already
ended in a panic, and that sum is 1 iff `done` is set and `f`'s (only) execution panicked.
-/
namespace FpVerif.MemoPanic
open FpVerif

variable {T : Type}

def Out.isPanic : Out T → Bool
  | .panic _ => true
  | .value _ => false

/-- between `done.Store(1)` and `Unlock()`, unwinding a panic -/
def wUnlP (t : Thread T) : Nat :=
  match t.pc with
  | .unlocking (.panic _) => 1
  | _ => 0

def PanEq (out : Nat → Out T) (s : Sys T) : Prop :=
  sumW wPan s.threads + sumW wUnlP s.threads = if s.done && (out 0).isPanic then 1 else 0

theorem panEq_init (zero : T) (out : Nat → Out T) (progs : List Nat) : PanEq out (init zero progs) := by
  simp only [PanEq, init, Bool.false_and, Bool.false_eq_true, if_false]
  rw [sumW_init _ _ (fun _ => rfl), sumW_init _ _ (fun _ => rfl)]

theorem panEq_step {zero : T} {out : Nat → Out T} {s : Sys T} (h : Inv zero out s) (h2 : PanEq out s) (i : Nat) :
    PanEq out (step out s i) := by
  unfold step
  cases hti : s.threads[i]? with
  | none => exact h2
  | some t =>
    have hS := fun (w : Thread T → Nat) (t' : Thread T) => sumW_set w s.threads i t' t hti
    have h_me := h.pcs t (mem_of_getElem? hti)
    have h_actnd := h.act_nd
    have hA := le_sumW_of_getElem? wAct s.threads i t hti
    obtain ⟨done, mutex, ret, runs, finished, runner, threads⟩ := s
    obtain ⟨todo, pc, results⟩ := t
    simp only [PanEq] at h2 ⊢
    simp only at hti hS h_me h_actnd hA h2
    cases pc with
    | idle =>
      cases todo with
      | zero => exact h2
      | succ k =>
        simp only
        split
        · have e1 := hS wPan ⟨k, .idle, results ++ [.returned ret]⟩
          have e2 := hS wUnlP ⟨k, .idle, results ++ [.returned ret]⟩
          rw [wPan_append] at e1
          simp [wPan, wUnlP, Res.isPanic] at e1 e2
          simp only; omega
        · have e1 := hS wPan ⟨k, .locking, results⟩
          have e2 := hS wUnlP ⟨k, .locking, results⟩
          simp [wPan, wUnlP] at e1 e2
          simp only; omega
    | locking =>
      simp only
      split
      · exact h2
      · have e1 := hS wPan ⟨todo, .locked, results⟩
        have e2 := hS wUnlP ⟨todo, .locked, results⟩
        simp [wPan, wUnlP] at e1 e2
        simp only; omega
    | locked =>
      simp only
      split
      · have e1 := hS wPan ⟨todo, .idle, results ++ [.returned ret]⟩
        have e2 := hS wUnlP ⟨todo, .idle, results ++ [.returned ret]⟩
        rw [wPan_append] at e1
        simp [wPan, wUnlP, Res.isPanic] at e1 e2
        simp only; omega
      · have e1 := hS wPan ⟨todo, .running runs, results⟩
        have e2 := hS wUnlP ⟨todo, .running runs, results⟩
        simp [wPan, wUnlP] at e1 e2
        simp only; omega
    | running k =>
      simp only
      obtain ⟨o, ho⟩ : ∃ o, out k = o := ⟨_, rfl⟩
      simp only [ho]
      cases o with
      | value v =>
        have e1 := hS wPan ⟨todo, .stored (.value v), results⟩
        have e2 := hS wUnlP ⟨todo, .stored (.value v), results⟩
        simp [wPan, wUnlP] at e1 e2
        simp only; omega
      | panic p =>
        have e1 := hS wPan ⟨todo, .stored (.panic p), results⟩
        have e2 := hS wUnlP ⟨todo, .stored (.panic p), results⟩
        simp [wPan, wUnlP] at e1 e2
        simp only; omega
    | stored o =>
      have ho : o = out 0 := h_me.2.1 o rfl
      have hdn : done = false := h_actnd (by simp [wAct] at hA; omega)
      subst hdn
      simp only [Bool.false_and, Bool.false_eq_true, if_false] at h2
      simp only [Bool.true_and]
      have e1 := hS wPan ⟨todo, .unlocking o, results⟩
      have e2 := hS wUnlP ⟨todo, .unlocking o, results⟩
      rw [← ho]
      cases o with
      | value v => simp [wPan, wUnlP, Out.isPanic] at e1 e2 ⊢; omega
      | panic p => simp [wPan, wUnlP, Out.isPanic] at e1 e2 ⊢; omega
    | unlocking o =>
      simp only
      cases o with
      | value v =>
        have e1 := hS wPan ⟨todo, .idle, results ++ [.returned ret]⟩
        have e2 := hS wUnlP ⟨todo, .idle, results ++ [.returned ret]⟩
        rw [wPan_append] at e1
        simp [wPan, wUnlP, Res.isPanic] at e1 e2
        simp only; omega
      | panic p =>
        have e1 := hS wPan ⟨todo, .idle, results ++ [.panicked p]⟩
        have e2 := hS wUnlP ⟨todo, .idle, results ++ [.panicked p]⟩
        rw [wPan_append] at e1
        simp [wPan, wUnlP, Res.isPanic] at e1 e2
        simp only; omega

theorem panEq_runSched {zero : T} {out : Nat → Out T} {s : Sys T} (h : Inv zero out s) (h2 : PanEq out s)
    (sched : List Nat) : PanEq out (runSched out s sched) := by
  induction sched generalizing s with
  | nil => exact h2
  | cons i is ih => exact ih (inv_step h i) (panEq_step h h2 i)

theorem wUnlP_of_quiescent (s : Sys T) (hq : s.quiescent = true) : sumW wUnlP s.threads = 0 := by
  simp only [Sys.quiescent, List.all_eq_true] at hq
  generalize s.threads = ts at hq
  induction ts with
  | nil => rfl
  | cons t ts ih =>
    have h1 := hq t (by simp)
    have h2 := ih (fun t' ht' => hq t' (by simp [ht']))
    obtain ⟨todo, pc, results⟩ := t
    cases pc <;> cases todo <;> simp [Thread.quiet] at h1
    simp [wUnlP, h2]

theorem exists_answered_of_sum_pos (ts : List (Thread T)) (hpos : 0 < (ts.map (fun t => t.results.length)).sum) :
    ∃ t ∈ ts, t.results ≠ [] := by
  induction ts with
  | nil => simp at hpos
  | cons t ts ih =>
    by_cases ht : t.results = []
    · simp [ht] at hpos
      obtain ⟨t', ht', hne⟩ := ih hpos
      exact ⟨t', by simp [ht'], hne⟩
    · exact ⟨t, by simp, ht⟩

end FpVerif.MemoPanic
