import FpVerif.Lemmas.CowInv
/-!
# CopyOnWriteMap: progress (deadlock freedom) and termination, for BOTH variants.

(AUDITFIX-B, audit finding 26.)  Unlike the Promise model a thread of the CopyOnWriteMap model can be
BLOCKED (`stepT = none` while another thread holds the mutex).  Progress therefore needs
  * a well-formedness invariant `WF`: every program counter fits its operation (so that no thread
    is stuck for a reason other than the lock) and the lock is held iff exactly one thread sits at
    `cow.store` — and that thread is always enabled;
  * a measure `work` every executed atomic block strictly decreases.
-/
namespace FpVerif.Cow
open FpVerif.Sched

def Op.isReader : Op → Bool
  | .get _ | .size | .iter | .computeIf .. => true
  | _ => false

def Op.isWriter : Op → Bool
  | .updated .. | .removed _ | .updatedWith .. | .computeIf .. => true
  | _ => false

def Op.isComputeIf : Op → Bool
  | .computeIf .. => true
  | _ => false

/-- the program counter fits the operation -/
def pcOK (op : Op) : Pc → Bool
  | .load | .loadLock => op.isReader
  | .hold _ => true
  | .enter => op.isWriter
  | .store .. => true
  | .load2 | .load2Lock => op.isComputeIf

def LWF (l : Local) : Prop :=
  match l.phase with
  | .running op pc => pcOK op pc = true
  | .finished => True

/-- atomic blocks the current operation still has to run, at most -/
def pcW : Pc → Nat
  | .load => 6
  | .loadLock => 5
  | .enter => 4
  | .store .. => 3
  | .load2 => 2
  | .load2Lock => 1
  | .hold _ => 1

/-- atomic blocks the thread still has to run, at most (`≤ Local.fuel`) -/
def work (l : Local) : Nat :=
  match l.phase with
  | .running _ pc => pcW pc + 6 * l.todo.length
  | .finished => 0

def totalWork (s : CSys) : Nat := sumBy work s.threads

structure WF (s : CSys) : Prop where
  pcs : ∀ l ∈ s.threads, LWF l
  lock : storers s.threads = if s.shared.lock then 1 else 0

/-- what one step does to the lock -/
def LockCh (sh : Shared) (l : Local) (sh' : Shared) (l' : Local) : Prop :=
  (l.isStore = false ∧ l'.isStore = false ∧ sh'.lock = sh.lock) ∨
  (l.isStore = false ∧ l'.isStore = true ∧ sh.lock = false ∧ sh'.lock = true) ∨
  (l.isStore = true ∧ l'.isStore = false ∧ sh'.lock = false)

theorem entryPc_ok (op : Op) : pcOK op (entryPc op) = true := by
  cases op <;> rfl

theorem entryPc_W (op : Op) : pcW (entryPc op) ≤ 6 := by
  cases op <;> simp [entryPc, pcW]

theorem entryPc_not_store (op : Op) : ∀ nm out, entryPc op ≠ .store nm out := by
  intro nm out; cases op <;> simp [entryPc]

theorem startNext_props (sh : Shared) (l : Local) :
    LWF (startNext sh l).2 ∧ (startNext sh l).2.isStore = false ∧ (startNext sh l).1.lock = sh.lock ∧
    work (startNext sh l).2 ≤ 6 * l.todo.length := by
  rw [startNext_eq]
  cases ht : l.todo with
  | nil => simp [LWF, Local.isStore, work]
  | cons op rest =>
    refine ⟨by simpa [LWF] using entryPc_ok op, ?_, rfl, ?_⟩
    · simp only [Local.isStore]
      cases he : entryPc op <;> simp
      exact absurd he (entryPc_not_store op _ _)
    · have := entryPc_W op
      simp only [work, List.length_cons]
      omega

theorem complete_props (sh : Shared) (l : Local) (op : Op) (r : Ret) :
    LWF (complete sh l op r).2 ∧ (complete sh l op r).2.isStore = false ∧
    (complete sh l op r).1.lock = sh.lock ∧ work (complete sh l op r).2 ≤ 6 * l.todo.length := by
  unfold complete
  cases r with
  | panic => simp [LWF, Local.isStore, work]
  | _ =>
    simp only
    exact startNext_props _ _

def Pc.isStoreB : Pc → Bool
  | .store .. => true
  | _ => false

theorem isStore_of_pc {l : Local} {op : Op} {pc : Pc} (hp : l.phase = .running op pc) :
    l.isStore = pc.isStoreB := by
  unfold Local.isStore; rw [hp]; cases pc <;> rfl

theorem complete_props' {sh sh' : Shared} {l l' : Local} {op : Op} {r : Ret}
    (h : complete sh l op r = (sh', l')) :
    LWF l' ∧ l'.isStore = false ∧ sh'.lock = sh.lock ∧ work l' ≤ 6 * l.todo.length := by
  have := complete_props sh l op r; rw [h] at this; exact this

theorem afterLoad_props {sh sh' : Shared} {l l' : Local} {op : Op} {m : AMap}
    (h : afterLoad sh l op m = some (sh', l')) :
    LWF l' ∧ l'.isStore = false ∧ sh'.lock = sh.lock ∧ work l' ≤ 4 + 6 * l.todo.length := by
  unfold afterLoad at h
  cases op with
  | get k =>
    simp only [Option.some.injEq] at h
    obtain ⟨a, b, c, d⟩ := complete_props' h
    exact ⟨a, b, by simpa [linEv] using c, by omega⟩
  | size =>
    simp only [Option.some.injEq] at h
    obtain ⟨a, b, c, d⟩ := complete_props' h
    exact ⟨a, b, by simpa [linEv] using c, by omega⟩
  | iter =>
    simp only [Option.some.injEq, Prod.mk.injEq] at h
    obtain ⟨rfl, rfl⟩ := h
    simp [LWF, pcOK, Local.isStore, linEv, work, pcW]
  | computeIf k pid pred fid nv =>
    simp only at h
    cases hg : AMap.get m k with
    | none =>
      simp only [hg, Option.some.injEq, Prod.mk.injEq] at h
      obtain ⟨rfl, rfl⟩ := h
      simp [LWF, pcOK, Op.isWriter, Local.isStore, work, pcW]
    | some x =>
      simp only [hg] at h
      by_cases hp : pred x = true
      · simp only [hp, if_true, Option.some.injEq, Prod.mk.injEq] at h
        obtain ⟨rfl, rfl⟩ := h
        simp [LWF, pcOK, Op.isWriter, Local.isStore, work, pcW]
      · simp only [hp, Bool.false_eq_true, if_false, Option.some.injEq] at h
        obtain ⟨a, b, c, d⟩ := complete_props' h
        exact ⟨a, b, by simpa [linEv] using c, by omega⟩
  | updated k x => simp at h
  | removed ks => simp at h
  | updatedWith k rid remap => simp at h

/-- one executed atomic block: well-formedness is kept, the thread's remaining work strictly
    decreases, the lock changes hands only at `cow.enter` / `cow.store` -/
theorem stepT_progress {v : Variant} {sh sh' : Shared} {l l' : Local} (hw : LWF l)
    (h : stepT v sh l = some (sh', l')) :
    LWF l' ∧ work l' < work l ∧ LockCh sh l sh' l' := by
  unfold stepT at h
  cases hph : l.phase with
  | finished => simp [hph] at h
  | running op pc =>
    simp only [hph] at h
    have hW : work l = pcW pc + 6 * l.todo.length := by simp [work, hph]
    have hS := isStore_of_pc hph
    have hw' : pcOK op pc = true := by simpa [LWF, hph] using hw
    cases pc with
    | load =>
      simp only at h hS
      cases hs : sh.snap with
      | none =>
        simp only [hs, Option.some.injEq, Prod.mk.injEq] at h
        obtain ⟨rfl, rfl⟩ := h
        refine ⟨?_, ?_, Or.inl ⟨hS, by simp [Local.isStore], rfl⟩⟩
        · simpa [LWF, pcOK] using hw'
        · rw [hW]; simp [work, pcW]
      | some m =>
        simp only [hs] at h
        obtain ⟨a, b, c, d⟩ := afterLoad_props h
        exact ⟨a, by rw [hW]; simp only [pcW]; omega, Or.inl ⟨hS, b, c⟩⟩
    | loadLock =>
      simp only at h hS
      by_cases hl : sh.lock = true
      · simp [hl] at h
      · simp only [hl, Bool.false_eq_true, if_false] at h
        obtain ⟨a, b, c, d⟩ := afterLoad_props h
        exact ⟨a, by rw [hW]; simp only [pcW]; omega, Or.inl ⟨hS, b, c.trans (by simp [hl])⟩⟩
    | hold m =>
      simp only [Option.some.injEq] at h hS
      obtain ⟨a, b, c, d⟩ := complete_props' h
      exact ⟨a, by rw [hW]; simp only [pcW]; omega, Or.inl ⟨hS, b, c⟩⟩
    | enter =>
      simp only at h hS
      by_cases hl : sh.lock = true
      · simp [hl] at h
      · simp only [hl, Bool.false_eq_true, if_false] at h
        cases hwb : writeBody v op sh.map with
        | none => simp [hwb] at h
        | some p =>
          obtain ⟨nm, out, cs⟩ := p
          simp only [hwb, Option.some.injEq, Prod.mk.injEq] at h
          obtain ⟨rfl, rfl⟩ := h
          refine ⟨by simp [LWF, pcOK], by rw [hW]; simp [work, pcW],
            Or.inr (Or.inl ⟨hS, by simp [Local.isStore], by simpa using hl, rfl⟩)⟩
    | store nm out =>
      simp only at h hS
      by_cases hc : isAsIsComputeIf v op = true
      · simp only [hc, if_true, Option.some.injEq, Prod.mk.injEq] at h
        obtain ⟨rfl, rfl⟩ := h
        have hci : op.isComputeIf = true := by
          cases op <;> simp [isAsIsComputeIf] at hc <;> rfl
        refine ⟨by simpa [LWF, pcOK] using hci, by rw [hW]; simp [work, pcW],
          Or.inr (Or.inr ⟨hS, by simp [Local.isStore], rfl⟩)⟩
      · simp only [hc, Bool.false_eq_true, if_false, Option.some.injEq] at h
        obtain ⟨a, b, c, d⟩ := complete_props' h
        exact ⟨a, by rw [hW]; simp only [pcW]; omega, Or.inr (Or.inr ⟨hS, b, by simpa [linEv] using c⟩)⟩
    | load2 =>
      simp only at h hS
      cases hs : sh.snap with
      | none =>
        simp only [hs, Option.some.injEq, Prod.mk.injEq] at h
        obtain ⟨rfl, rfl⟩ := h
        refine ⟨?_, by rw [hW]; simp [work, pcW], Or.inl ⟨hS, by simp [Local.isStore], rfl⟩⟩
        simpa [LWF, pcOK] using hw'
      | some m =>
        simp only [hs] at h
        cases op with
        | computeIf k pid pred fid nv =>
          simp only at h
          cases hg : AMap.get m k with
          | none =>
            simp only [hg, Option.some.injEq] at h
            obtain ⟨a, b, c, d⟩ := complete_props' h
            exact ⟨a, by rw [hW]; simp only [pcW]; omega, Or.inl ⟨hS, b, c⟩⟩
          | some x =>
            simp only [hg, Option.some.injEq] at h
            obtain ⟨a, b, c, d⟩ := complete_props' h
            exact ⟨a, by rw [hW]; simp only [pcW]; omega, Or.inl ⟨hS, b, c⟩⟩
        | _ => simp at h
    | load2Lock =>
      simp only at h hS
      by_cases hl : sh.lock = true
      · simp [hl] at h
      · simp only [hl, Bool.false_eq_true, if_false] at h
        cases op with
        | computeIf k pid pred fid nv =>
          simp only at h
          cases hg : AMap.get sh.map k with
          | none =>
            simp only [hg, Option.some.injEq] at h
            obtain ⟨a, b, c, d⟩ := complete_props' h
            exact ⟨a, by rw [hW]; simp only [pcW]; omega, Or.inl ⟨hS, b, c.trans (by simp [hl])⟩⟩
          | some x =>
            simp only [hg, Option.some.injEq] at h
            obtain ⟨a, b, c, d⟩ := complete_props' h
            exact ⟨a, by rw [hW]; simp only [pcW]; omega, Or.inl ⟨hS, b, c.trans (by simp [hl])⟩⟩
        | _ => simp at h

/-! ### the whole system -/

theorem storers_set {ts : List Local} {t : Nat} {l l' : Local} (hl : ts[t]? = some l) :
    storers (ts.set t l') + (if l.isStore then 1 else 0) =
      storers ts + (if l'.isStore then 1 else 0) :=
  sumBy_set _ hl

theorem WF_step (v : Variant) (s : CSys) (t : Tid) (s' : CSys) (hwf : WF s)
    (h : step (stepT v) s t = some s') : WF s' ∧ totalWork s' < totalWork s := by
  obtain ⟨l, sh', l', hl, hst, rfl⟩ := step_eq_some h
  obtain ⟨hw', hlt, hlock⟩ := stepT_progress (hwf.pcs l (List.mem_of_getElem? hl)) hst
  refine ⟨⟨?_, ?_⟩, ?_⟩
  · exact forall_set_idx hw' (fun i x _ hx => hwf.pcs x (List.mem_of_getElem? hx))
  · have hs := storers_set (l' := l') hl
    have hk := hwf.lock
    show storers (s.threads.set t l') = if sh'.lock then 1 else 0
    rcases hlock with ⟨a, b, c⟩ | ⟨a, b, c, d⟩ | ⟨a, b, c⟩
    · simp only [a, b, c] at hs ⊢; simp at hs; omega
    · simp only [a, b, c, d] at hs hk ⊢; simp at hs hk ⊢; omega
    · simp only [a, b, c] at hs ⊢
      have : s.shared.lock = true := by
        cases hlk : s.shared.lock with
        | true => rfl
        | false =>
          rw [hlk] at hk
          have := sumBy_ind_pos (p := Local.isStore) hl a
          simp [storers] at hk; omega
      simp [this] at hk; simp at hs ⊢; omega
  · exact sumBy_set_lt (f := work) (g := work) hl (fun _ _ => Nat.le_refl _) hlt

theorem WF_run (v : Variant) {s : CSys} (h : WF s) (sched : List Tid) : WF (crun v s sched) :=
  inv_run (stepT := stepT v) (Inv := WF) (fun s t s' hi hs => (WF_step v s t s' hi hs).1) h sched

theorem totalWork_run_le (v : Variant) {s : CSys} (h : WF s) (sched : List Tid) :
    totalWork (crun v s sched) ≤ totalWork s := by
  have := effSteps_le_measure_inv (stepT := stepT v) (Inv := WF) (μ := totalWork)
    (fun s t s' hi hs => (WF_step v s t s' hi hs).1)
    (fun s t s' hi hs => (WF_step v s t s' hi hs).2) s h sched
  show totalWork (run (stepT v) s sched) ≤ totalWork s
  omega

/-- a schedule that names a thread which is ENABLED now makes progress (either an earlier entry
    is executed, or the state is still the same when the enabled thread's turn comes) -/
theorem totalWork_run_lt (v : Variant) {s : CSys} (hwf : WF s) {t : Tid}
    (hen : (step (stepT v) s t).isSome = true) {sched : List Tid} (hmem : t ∈ sched) :
    totalWork (crun v s sched) < totalWork s := by
  induction sched generalizing s with
  | nil => simp at hmem
  | cons a rest ih =>
    show totalWork (run (stepT v) (stepOr (stepT v) s a) rest) < totalWork s
    unfold stepOr
    cases hs : step (stepT v) s a with
    | some s' =>
      obtain ⟨h1, h2⟩ := WF_step v s a s' hwf hs
      have h3 := totalWork_run_le v h1 rest
      simp only [Option.getD_some]
      exact Nat.lt_of_le_of_lt h3 h2
    | none =>
      simp only [Option.getD_none]
      have hat : a ≠ t := by
        rintro rfl
        rw [hs] at hen; simp at hen
      have : t ∈ rest := by
        rcases List.mem_cons.mp hmem with h | h
        · exact absurd h.symm hat
        · exact h
      exact ih hwf hen this

theorem exists_store {ts : List Local} (h : 1 ≤ storers ts) :
    ∃ (t : Nat) (l : Local), ts[t]? = some l ∧ l.isStore = true := by
  induction ts with
  | nil => simp [storers, sumBy] at h
  | cons a as ih =>
    by_cases ha : a.isStore = true
    · exact ⟨0, a, rfl, ha⟩
    · have : 1 ≤ storers as := by
        simp only [storers, sumBy] at h ⊢
        simp [ha] at h
        exact h
      obtain ⟨t, l, hl, hs⟩ := ih this
      exact ⟨t + 1, l, by simpa using hl, hs⟩

theorem exists_unfinished {s : CSys} (h : allFinished s = false) :
    ∃ t l, s.threads[t]? = some l ∧ l.isFinished = false ∧ t < s.threads.length := by
  simp only [allFinished, List.all_eq_false] at h
  obtain ⟨l, hmem, hf⟩ := h
  obtain ⟨t, ht, hget⟩ := List.getElem_of_mem hmem
  exact ⟨t, l, by simp [List.getElem?_eq_getElem ht, hget], by simpa using hf, ht⟩

/-- a well-formed thread that does not wait for the lock can move -/
theorem stepT_isSome_of_unlocked (v : Variant) (sh : Shared) (l : Local) (hw : LWF l)
    (hunf : l.isFinished = false) (hlk : sh.lock = false) : (stepT v sh l).isSome = true := by
  unfold stepT
  cases hph : l.phase with
  | finished => simp [Local.isFinished, hph] at hunf
  | running op pc =>
    have hw' : pcOK op pc = true := by simpa [LWF, hph] using hw
    cases pc with
    | load =>
      simp only
      cases hs : sh.snap with
      | none => rfl
      | some m =>
        simp only
        cases op <;> simp [pcOK, Op.isReader] at hw' <;> simp only [afterLoad] <;>
          (repeat' split) <;> rfl
    | loadLock =>
      simp only [hlk, Bool.false_eq_true, if_false]
      cases op <;> simp [pcOK, Op.isReader] at hw' <;> simp only [afterLoad] <;>
        (repeat' split) <;> rfl
    | hold m => rfl
    | enter =>
      simp only [hlk, Bool.false_eq_true, if_false]
      cases op <;> simp [pcOK, Op.isWriter] at hw'
      · rfl
      · rfl
      · rfl
      · rename_i k pid pred fid nv
        cases v
        · rfl
        · simp only [writeBody]
          cases hg : AMap.get sh.map k with
          | none => rfl
          | some x => simp only; by_cases hp : pred x = true <;> simp [hp]
    | store nm out => simp only; split <;> rfl
    | load2 =>
      simp only
      cases hs : sh.snap with
      | none => rfl
      | some m =>
        simp only
        cases op <;> simp [pcOK, Op.isComputeIf] at hw' <;> (repeat' split) <;> rfl
    | load2Lock =>
      simp only [hlk, Bool.false_eq_true, if_false]
      cases op <;> simp [pcOK, Op.isComputeIf] at hw' <;> (repeat' split) <;> rfl

/-- the lock holder (a thread at `cow.store`) can always move -/
theorem stepT_isSome_of_store (v : Variant) (sh : Shared) (l : Local) (hs : l.isStore = true) :
    (stepT v sh l).isSome = true := by
  unfold stepT
  cases hph : l.phase with
  | finished => simp [Local.isStore, hph] at hs
  | running op pc =>
    cases pc <;> simp [Local.isStore, hph] at hs
    simp only; split <;> rfl

/-- DEADLOCK FREEDOM: in a reachable state that is not quiescent some thread is enabled -/
theorem exists_enabled (v : Variant) {s : CSys} (hwf : WF s) (h : allFinished s = false) :
    ∃ t, t < s.threads.length ∧ (step (stepT v) s t).isSome = true := by
  cases hlk : s.shared.lock with
  | true =>
    have := hwf.lock
    rw [hlk] at this
    obtain ⟨t, l, hl, hs⟩ := exists_store (ts := s.threads) (by simp at this; omega)
    refine ⟨t, (List.getElem?_eq_some_iff.mp hl).1, ?_⟩
    have := stepT_isSome_of_store v s.shared l hs
    unfold step; rw [hl]
    cases hst : stepT v s.shared l with
    | none => simp [hst] at this
    | some p => simp [hst]
  | false =>
    obtain ⟨t, l, hl, hunf, hlt⟩ := exists_unfinished h
    refine ⟨t, hlt, ?_⟩
    have := stepT_isSome_of_unlocked v s.shared l (hwf.pcs l (List.mem_of_getElem? hl)) hunf hlk
    unfold step; rw [hl]
    cases hst : stepT v s.shared l with
    | none => simp [hst] at this
    | some p => simp [hst]

theorem stepT_none_of_finished (v : Variant) (sh : Shared) (l : Local) (h : l.isFinished = true) :
    stepT v sh l = none := by
  unfold stepT
  cases hph : l.phase with
  | finished => rfl
  | running op pc => simp [Local.isFinished, hph] at h

theorem allFinished_run (v : Variant) {s : CSys} (h : allFinished s = true) (sched : List Tid) :
    crun v s sched = s := by
  induction sched with
  | nil => rfl
  | cons t ts ih =>
    show run (stepT v) (stepOr (stepT v) s t) ts = s
    have : step (stepT v) s t = none := by
      unfold step
      cases hl : s.threads[t]? with
      | none => rfl
      | some l =>
        have : l.isFinished = true := by
          simp only [allFinished, List.all_eq_true] at h
          exact h l (List.mem_of_getElem? hl)
        simp [stepT_none_of_finished v s.shared l this]
    unfold stepOr
    rw [this]
    exact ih

theorem length_run (v : Variant) (s : CSys) (sched : List Tid) :
    (crun v s sched).threads.length = s.threads.length := by
  induction sched generalizing s with
  | nil => rfl
  | cons t ts ih =>
    show (run (stepT v) (stepOr (stepT v) s t) ts).threads.length = _
    rw [ih]
    unfold stepOr
    cases hs : step (stepT v) s t with
    | none => rfl
    | some s' => exact step_length hs

/-! ### well-formedness of the initial state -/

theorem initFrom_wf (progs : List (List Op)) : ∀ (sh : Shared) (t : Nat),
    (initFrom sh t progs).1.lock = sh.lock ∧
    ∀ l ∈ (initFrom sh t progs).2, LWF l ∧ l.isStore = false := by
  induction progs with
  | nil => intro sh t; simp [initFrom]
  | cons p ps ih =>
    intro sh t
    simp only [initFrom]
    obtain ⟨a, b, c, _⟩ := startNext_props sh ⟨t, [], .finished, p⟩
    obtain ⟨i1, i2⟩ := ih (startNext sh ⟨t, [], .finished, p⟩).1 (t + 1)
    refine ⟨by rw [i1, c], ?_⟩
    intro l hl
    rcases List.mem_cons.mp hl with rfl | hl
    · exact ⟨a, b⟩
    · exact i2 l hl

theorem WF_init (progs : List (List Op)) : WF (init progs) := by
  obtain ⟨h1, h2⟩ := initFrom_wf progs emptyShared 0
  refine ⟨fun l hl => (h2 l hl).1, ?_⟩
  show storers (initFrom emptyShared 0 progs).2 = if (initFrom emptyShared 0 progs).1.lock then 1 else 0
  rw [h1]
  simp only [emptyShared, Bool.false_eq_true, if_false]
  exact sumBy_eq_zero (fun x hx => by simp [(h2 x hx).2])

/-! ### schedules -/

/-- the first `n` entries of an infinite schedule -/
def prefixOf (σ : Nat → Tid) (n : Nat) : List Tid := (List.range n).map σ

theorem prefixOf_add (σ : Nat → Tid) (n k : Nat) :
    prefixOf σ (n + k) = prefixOf σ n ++ (List.range k).map (fun i => σ (n + i)) := by
  simp [prefixOf, List.range_add, List.map_append, List.map_map, Function.comp_def]

/-- weak fairness: a thread that is unfinished after `n` entries (running OR waiting for the lock)
    is named again by some later entry -/
def Fair (v : Variant) (s : CSys) (σ : Nat → Tid) : Prop :=
  ∀ n t l, (crun v s (prefixOf σ n)).threads[t]? = some l → l.isFinished = false →
    ∃ m, n ≤ m ∧ σ m = t

theorem Fair.of_infinitely_often (v : Variant) (s : CSys) (σ : Nat → Tid)
    (h : ∀ n t, t < s.threads.length → ∃ m, n ≤ m ∧ σ m = t) : Fair v s σ := by
  intro n t l hl _
  apply h n t
  have := length_run v s (prefixOf σ n)
  have hlt := (List.getElem?_eq_some_iff.mp hl).1
  omega

theorem step_isSome_unfinished {v : Variant} {s : CSys} {t : Tid}
    (h : (step (stepT v) s t).isSome = true) :
    ∃ l, s.threads[t]? = some l ∧ l.isFinished = false := by
  unfold step at h
  cases hl : s.threads[t]? with
  | none => simp [hl] at h
  | some l =>
    refine ⟨l, rfl, ?_⟩
    cases hf : l.isFinished with
    | false => rfl
    | true => simp [hl, stepT_none_of_finished v s.shared l hf] at h

theorem fair_finishes (v : Variant) (s : CSys) (hwf : WF s) (σ : Nat → Tid)
    (hfair : Fair v s σ) : ∃ n, allFinished (crun v s (prefixOf σ n)) = true := by
  suffices h : ∀ k n, totalWork (crun v s (prefixOf σ n)) ≤ k →
      ∃ n', allFinished (crun v s (prefixOf σ n')) = true from h _ 0 (Nat.le_refl _)
  intro k
  induction k with
  | zero =>
    intro n hk
    cases hf : allFinished (crun v s (prefixOf σ n)) with
    | true => exact ⟨n, hf⟩
    | false =>
      obtain ⟨t, _, hen⟩ := exists_enabled v (WF_run v hwf _) hf
      have := totalWork_run_lt v (WF_run v hwf _) hen (sched := [t]) (by simp)
      omega
  | succ k ih =>
    intro n hk
    cases hf : allFinished (crun v s (prefixOf σ n)) with
    | true => exact ⟨n, hf⟩
    | false =>
      obtain ⟨t, _, hen⟩ := exists_enabled v (WF_run v hwf _) hf
      obtain ⟨l, hl, hunf⟩ := step_isSome_unfinished hen
      obtain ⟨m, hnm, hσ⟩ := hfair n t l hl hunf
      apply ih (m + 1)
      have hsplit : prefixOf σ (m + 1) =
          prefixOf σ n ++ (List.range (m + 1 - n)).map (fun i => σ (n + i)) := by
        rw [← prefixOf_add]; congr 1; omega
      have hmem : t ∈ (List.range (m + 1 - n)).map (fun i => σ (n + i)) := by
        refine List.mem_map.mpr ⟨m - n, List.mem_range.mpr (by omega), ?_⟩
        have : n + (m - n) = m := by omega
        rw [this, hσ]
      have hlt := totalWork_run_lt v (WF_run v hwf _) hen hmem
      have : crun v s (prefixOf σ (m + 1)) =
          crun v (crun v s (prefixOf σ n)) ((List.range (m + 1 - n)).map (fun i => σ (n + i))) := by
        rw [hsplit]; exact run_append _ _ _
      rw [this]
      omega

theorem fair_finishes_stable (v : Variant) (s : CSys) (hwf : WF s) (σ : Nat → Tid)
    (hfair : Fair v s σ) :
    ∃ n, ∀ m, n ≤ m → allFinished (crun v s (prefixOf σ m)) = true ∧
      crun v s (prefixOf σ m) = crun v s (prefixOf σ n) := by
  obtain ⟨n, hn⟩ := fair_finishes v s hwf σ hfair
  refine ⟨n, fun m hm => ?_⟩
  have : crun v s (prefixOf σ m) = crun v s (prefixOf σ n) := by
    obtain ⟨k, rfl⟩ := Nat.exists_eq_add_of_le hm
    rw [prefixOf_add]
    show run _ _ _ = _
    rw [run_append]
    exact allFinished_run v hn _
  rw [this]
  exact ⟨hn, rfl⟩

/-- `k ≥ totalWork` rounds of round robin reach quiescence -/
theorem roundRobin_finishes (v : Variant) (fuel : Nat) (s : CSys) (hwf : WF s)
    (hm : totalWork s ≤ fuel) :
    allFinished (crun v s (roundRobin s.threads.length fuel)) = true := by
  induction fuel generalizing s with
  | zero =>
    cases hf : allFinished s with
    | true => simpa [roundRobin, crun, run] using hf
    | false =>
      obtain ⟨t, _, hen⟩ := exists_enabled v hwf hf
      have := totalWork_run_lt v hwf hen (sched := [t]) (by simp)
      omega
  | succ n ih =>
    cases hf : allFinished s with
    | true => rw [allFinished_run v hf]; exact hf
    | false =>
      obtain ⟨t, hlt, hen⟩ := exists_enabled v hwf hf
      simp only [roundRobin]
      show allFinished (run (stepT v) s (List.range s.threads.length ++ roundRobin s.threads.length n)) = true
      rw [run_append]
      have hlt' := totalWork_run_lt v hwf hen (sched := List.range s.threads.length)
        (List.mem_range.mpr hlt)
      have hlen := length_run v s (List.range s.threads.length)
      have := ih (crun v s (List.range s.threads.length)) (WF_run v hwf _) (by omega)
      rw [hlen] at this
      exact this

theorem work_le_fuel (l : Local) : work l ≤ l.fuel := by
  unfold work Local.fuel
  cases l.phase with
  | finished => simp only; omega
  | running op pc => cases pc <;> simp only [pcW] <;> omega

theorem foldl_fuel (ts : List Local) (a : Nat) :
    ts.foldl (fun a l => a + l.fuel) a = a + sumBy Local.fuel ts := by
  induction ts generalizing a with
  | nil => simp [sumBy]
  | cons x xs ih => simp only [List.foldl_cons, ih, sumBy]; omega

theorem totalWork_le_fuel (s : CSys) :
    totalWork s ≤ s.threads.foldl (fun a l => a + l.fuel) 0 := by
  rw [foldl_fuel]
  have := sumBy_le (f := work) (g := Local.fuel) (ls := s.threads) (fun l _ => work_le_fuel l)
  unfold totalWork
  omega

end FpVerif.Cow
