import FpVerif.Lemmas.HeapSim5
/-!
The two conversion loops (bitmap -> hash-array in `set`, hash-array -> bitmap in `delete`) are
polymorphic in the element type: run on pointers they produce the pointer structure whose
abstraction is what the value-level loop produces, and they only REARRANGE the children (no child
is duplicated, so the footprint stays free of repetitions).
-/
set_option linter.unusedSimpArgs false
set_option linter.unusedVariables false
namespace FpVerif.HamtHeap
open FpVerif.Hamt
variable {K V : Type} {α β : Type}

def b2hStepG (bm : Nat) (nodes : List α) (acc : List (Option α) × Nat) (i : Nat) : GoE (List (Option α) × Nat) :=
  if bm &&& (1 <<< i) != 0 then
    match nodes[acc.2]? with
    | some c => pure (acc.1.set i (some c), acc.2 + 1)
    | none => throw "index out of range"
  else pure acc

theorem bitmapToHashArrayG_eq (bm : Nat) (nodes : List α) :
    bitmapToHashArrayG bm nodes =
      (List.range mapNodeSize).foldlM (b2hStepG bm nodes) (List.replicate mapNodeSize none, 0) := rfl

theorem bitmapToHashArray_eq_G (bm : Nat) (nodes : List (Node K V)) :
    bitmapToHashArray bm nodes = bitmapToHashArrayG bm nodes := by
  unfold bitmapToHashArray bitmapToHashArrayG
  congr 1
  funext acc i
  by_cases hb : (bm &&& (1 <<< i) != 0) = true
  · simp only [hb, if_true]
    cases nodes[acc.2]? <;> rfl
  · simp only [hb, Bool.false_eq_true, if_false]

theorem b2hStepG_set {bm : Nat} {l : List α} {acc : List (Option α) × Nat} {i : Nat} {c : α}
    (hb : (bm &&& (1 <<< i) != 0) = true) (hl : l[acc.2]? = some c) :
    b2hStepG bm l acc i = .ok (acc.1.set i (some c), acc.2 + 1) := by
  unfold b2hStepG; simp only [hb, if_true, hl]; rfl

theorem b2hStepG_none {bm : Nat} {l : List α} {acc : List (Option α) × Nat} {i : Nat}
    (hb : (bm &&& (1 <<< i) != 0) = true) (hl : l[acc.2]? = none) :
    b2hStepG bm l acc i = .error "index out of range" := by
  unfold b2hStepG; simp only [hb, if_true, hl]; rfl

theorem b2hStepG_skip {bm : Nat} {l : List α} {acc : List (Option α) × Nat} {i : Nat}
    (hb : ¬ (bm &&& (1 <<< i) != 0) = true) : b2hStepG bm l acc i = .ok acc := by
  unfold b2hStepG; simp only [hb, if_false]; rfl

/-- the loop commutes with mapping the elements -/
theorem b2h_fold_map (f : α → β) (bm : Nat) (l : List α) : ∀ (is : List Nat) (acc : List (Option α) × Nat),
    is.foldlM (b2hStepG bm (l.map f)) (acc.1.map (Option.map f), acc.2) =
      (match is.foldlM (b2hStepG bm l) acc with
       | .ok r => .ok (r.1.map (Option.map f), r.2)
       | .error e => .error e) := by
  intro is
  induction is with
  | nil => intro acc; rfl
  | cons i is ih =>
    intro acc
    rw [List.foldlM_cons, List.foldlM_cons]
    by_cases hb : (bm &&& (1 <<< i) != 0) = true
    · cases hl : l[acc.2]? with
      | none =>
        have hl' : (l.map f)[(acc.1.map (Option.map f), acc.2).2]? = none := by simp [hl]
        rw [b2hStepG_none hb hl', b2hStepG_none hb hl]; rfl
      | some c =>
        have hl' : (l.map f)[(acc.1.map (Option.map f), acc.2).2]? = some (f c) := by simp [hl]
        rw [b2hStepG_set hb hl', b2hStepG_set hb hl]
        simp only [bind, Except.bind]
        have := ih (acc.1.set i (some c), acc.2 + 1)
        simp only [List.map_set, Option.map_some] at this
        exact this
    · rw [b2hStepG_skip hb, b2hStepG_skip hb]
      simp only [bind, Except.bind]
      exact ih acc

theorem bitmapToHashArrayG_map (f : α → β) (bm : Nat) (l : List α) :
    bitmapToHashArrayG bm (l.map f) =
      (match bitmapToHashArrayG bm l with
       | .ok r => .ok (r.1.map (Option.map f), r.2)
       | .error e => .error e) := by
  rw [bitmapToHashArrayG_eq, bitmapToHashArrayG_eq]
  have := b2h_fold_map f bm l (List.range mapNodeSize) (List.replicate mapNodeSize none, 0)
  simpa using this

/-- the loop places a prefix of the children, in order, each once -/
theorem b2h_fold_take (bm : Nat) (l : List α) : ∀ (n i : Nat) (A : List (Option α)) (k : Nat)
    (r : List (Option α) × Nat),
    A.length = i → A.filterMap id = l.take k → k ≤ l.length →
    (List.range' i n).foldlM (b2hStepG bm l) (A ++ List.replicate n none, k) = .ok r →
    r.1.filterMap id = l.take r.2 := by
  intro n
  induction n with
  | zero =>
    intro i A k r hA hf hk h
    simp only [List.range'_zero, List.foldlM_nil, List.replicate_zero, List.append_nil, pure, Except.pure] at h
    injection h with h; subst h; exact hf
  | succ n ih =>
    intro i A k r hA hf hk h
    rw [List.range'_succ, List.foldlM_cons] at h
    by_cases hb : (bm &&& (1 <<< i) != 0) = true
    · cases hl : l[k]? with
      | none =>
        rw [b2hStepG_none hb (acc := (A ++ List.replicate (n + 1) none, k)) hl] at h; cases h
      | some c =>
        rw [b2hStepG_set hb (acc := (A ++ List.replicate (n + 1) none, k)) hl] at h
        simp only [bind, Except.bind] at h
        have hset : (A ++ List.replicate (n + 1) none).set i (some c) = (A ++ [some c]) ++ List.replicate n none := by
          rw [List.replicate_succ]
          list_ext
        rw [hset] at h
        have hklt : k < l.length := (List.getElem?_eq_some_iff.mp hl).1
        apply ih (i + 1) (A ++ [some c]) (k + 1) r (by simp [hA]) ?_ (by omega) h
        rw [List.filterMap_append, hf, List.take_add_one, hl]; rfl
    · rw [b2hStepG_skip hb] at h
      simp only [bind, Except.bind] at h
      have hsplit : A ++ List.replicate (n + 1) none = (A ++ [none]) ++ List.replicate n none := by
        rw [List.replicate_succ]; simp
      rw [hsplit] at h
      apply ih (i + 1) (A ++ [none]) k r (by simp [hA]) ?_ hk h
      rw [List.filterMap_append, hf]; simp

theorem bitmapToHashArrayG_sublist {bm : Nat} {l : List α} {r : List (Option α) × Nat}
    (h : bitmapToHashArrayG bm l = .ok r) : List.Sublist (r.1.filterMap id) l := by
  rw [bitmapToHashArrayG_eq, List.range_eq_range'] at h
  have := b2h_fold_take bm l mapNodeSize 0 [] 0 r rfl (by simp) (Nat.zero_le _) (by simpa using h)
  rw [this]; exact List.take_sublist _ _

theorem Sublist.flatten' {γ : Type} {l1 l2 : List (List γ)} (h : List.Sublist l1 l2) :
    List.Sublist l1.flatten l2.flatten := by
  induction h with
  | slnil => exact List.Sublist.refl _
  | cons a _ ih => rw [List.flatten_cons]; exact List.Sublist.trans ih (List.sublist_append_right _ _)
  | cons_cons a _ ih => rw [List.flatten_cons, List.flatten_cons]; exact List.Sublist.append (List.Sublist.refl _) ih

def optL {γ δ : Type} (f : γ → List δ) : Option γ → List δ
  | none => []
  | some x => f x

theorem flatten_map_option {γ δ : Type} (f : γ → List δ) (l : List (Option γ)) :
    (l.map (optL f)).flatten = ((l.filterMap id).map f).flatten := by
  induction l with
  | nil => rfl
  | cons o l ih =>
    cases o with
    | none => simpa [optL] using ih
    | some x => simp [optL, ih]

/-- result of abstracting a slot that holds a (pointer, abstraction) pair -/
def slotRes : Option (Nat × Node K V × List Nat) → Option (Node K V) × List Nat
  | none => (none, [])
  | some x => (some x.2.1, x.2.2)

/-- **bitmap -> hash-array**: the pointer-level loop refines the value-level loop; the children's
    footprints are only rearranged -/
theorem b2h_sim {f s : Nat} {H : Heap K V} {ps : List Addr} {rs : List (Node K V × List Addr)}
    (hk : mapOpt (absF f s H) ps = some rs) {bm : Nat} {slotsV : List (Option (Node K V))} {cnt : Nat}
    (hv : bitmapToHashArray bm (rs.map (·.1)) = .ok (slotsV, cnt)) :
    ∃ (slotsH : List (Option Addr)) (rsS : List (Option (Node K V) × List Addr)),
      bitmapToHashArrayG bm ps = .ok (slotsH, cnt) ∧
      mapOpt (absSlot f s H) slotsH = some rsS ∧ rsS.map (·.1) = slotsV ∧
      List.Sublist (rsS.map (·.2)).flatten (rs.map (·.2)).flatten := by
  have hlen := mapOpt_length hk
  let prs := ps.zip rs
  have hps : prs.map (·.1) = ps := List.map_fst_zip (by omega)
  have hrs : prs.map (·.2) = rs := List.map_snd_zip (by omega)
  have hg : ∀ x ∈ prs, absF f s H x.1 = some x.2 := by
    intro x hx
    obtain ⟨i, hi⟩ := List.getElem?_of_mem hx
    have hi' := hi
    simp only [prs, List.getElem?_zip_eq_some] at hi'
    obtain ⟨h1, h2⟩ := hi'
    obtain ⟨y, hy, hgy⟩ := mapOpt_getElem? hk h1
    rw [h2] at hy; injection hy with hy; rw [hy]; exact hgy
  rw [bitmapToHashArray_eq_G] at hv
  have hv' : bitmapToHashArrayG bm (prs.map (fun x => x.2.1)) = .ok (slotsV, cnt) := by
    rw [← hrs, List.map_map] at hv; exact hv
  rw [bitmapToHashArrayG_map] at hv'
  cases hP : bitmapToHashArrayG bm prs with
  | error e => rw [hP] at hv'; cases hv'
  | ok rP =>
    obtain ⟨slotsP, cntP⟩ := rP
    rw [hP] at hv'
    simp only [Except.ok.injEq, Prod.mk.injEq] at hv'
    obtain ⟨hsv, hcnt⟩ := hv'
    subst hcnt
    have hsub : List.Sublist (slotsP.filterMap id) prs := bitmapToHashArrayG_sublist hP
    have hmem : ∀ x, some x ∈ slotsP → x ∈ prs := by
      intro x hx
      apply hsub.subset
      simp only [List.mem_filterMap, id]
      exact ⟨some x, hx, rfl⟩
    refine ⟨slotsP.map (Option.map (·.1)),
      slotsP.map slotRes, ?_, ?_, ?_, ?_⟩
    · rw [← hps, bitmapToHashArrayG_map, hP]
    · rw [mapOpt_eq_some_iff, List.map_map, List.map_map]
      apply List.map_congr_left
      intro o ho
      cases o with
      | none => rfl
      | some x =>
        simp only [Function.comp, Option.map_some, absSlot, hg x (hmem x ho)]; rfl
    · rw [← hsv, List.map_map]
      apply List.map_congr_left
      intro o _
      cases o <;> rfl
    · have h1 : (slotsP.map slotRes).map (·.2)
          = slotsP.map (optL (fun (y : Nat × Node K V × List Nat) => y.2.2)) := by
        rw [List.map_map]
        apply List.map_congr_left
        intro o _
        cases o <;> rfl
      rw [h1, flatten_map_option, ← hrs, List.map_map]
      exact Sublist.flatten' (hsub.map _)

end FpVerif.HamtHeap
