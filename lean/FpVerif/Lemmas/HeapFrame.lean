import FpVerif.Lemmas.HeapBasic
/-!
The copying path only allocates: `mergeIntoNode`, `set` / `delete` with `mutable = false`, the array
expansion, `(*hamt).set/delete(…, false)`, `Removed` never `store`.  No well-formedness is assumed.
-/
set_option linter.unusedSimpArgs false
set_option linter.unusedVariables false
namespace FpVerif.HamtHeap
open FpVerif.Hamt
variable {K V : Type} {α β : Type}

/-- one step of the syntactic "allocates only" analysis -/
macro "pres_step" : tactic => `(tactic| first
  | exact Pres.pure _
  | exact Pres.fail _
  | exact Pres.alloc _
  | exact Pres.load _
  | exact Pres.liftE _
  | exact Pres.loadEnts _
  | exact Pres.loadPtrs _
  | exact Pres.readHamt _
  | exact Pres.allocSlots _ _
  | exact Pres.keyHashValueAt _
  | assumption
  | refine Pres.bind ?_ (fun _ => ?_)
  | dsimp only
  | split)

theorem Pres.hmergeN : ∀ (F : Nat) (node : Addr) (shift : Nat) (kh : UInt32) (k : K) (v : V),
    Pres (hmergeN F node shift kh k v) := by
  intro F
  induction F with
  | zero => intro node shift kh k v; exact Pres.fail _
  | succ F ih =>
    intro node shift kh k v
    unfold HamtHeap.hmergeN
    have := ih node (shift + mapNodeBits) kh k v
    repeat pres_step

theorem Pres.hsetCoreN (h : Hasher K) {ex : List (K × V) → K → V → Bool → HM K V (Addr × Bool)}
    (hex : ∀ es k v r, Pres (ex es k v r)) :
    ∀ (F : Nat) (n : Addr) (k : K) (v : V) (shift : Nat) (kh : UInt32) (r : Bool),
    Pres (hsetCoreN h ex F n k v shift kh false r) := by
  intro F
  induction F with
  | zero => intro n k v shift kh r; exact Pres.fail _
  | succ F ih =>
    intro n k v shift kh r
    unfold HamtHeap.hsetCoreN
    simp only [Bool.false_eq_true, if_false]
    have hm := Pres.hmergeN (K := K) (V := V) F
    repeat (first | exact ih _ _ _ _ _ _ | exact hex _ _ _ _ | exact hm _ _ _ _ _ | pres_step)

theorem Pres.hsetTrieN (h : Hasher K) (F : Nat) (n : Addr) (k : K) (v : V) (shift : Nat) (kh : UInt32)
    (r : Bool) : Pres (hsetTrieN h F n k v shift kh false r) :=
  Pres.hsetCoreN h (fun _ _ _ _ => Pres.fail _) F n k v shift kh r

theorem Pres.hexpandArray (h : Hasher K) (es : List (K × V)) (k : K) (v : V) (r : Bool) :
    Pres (hexpandArray h es k v r) := by
  unfold HamtHeap.hexpandArray
  apply Pres.bind (Pres.alloc _)
  intro node
  exact Pres.foldlM (fun b a => Pres.hsetTrieN h _ _ _ _ _ _ _) _ _

/-- **frame, `set`**: with `mutable = false` no existing cell is written -/
theorem Pres.hsetN (h : Hasher K) (F : Nat) (n : Addr) (k : K) (v : V) (shift : Nat) (kh : UInt32)
    (r : Bool) : Pres (hsetN h F n k v shift kh false r) :=
  Pres.hsetCoreN h (Pres.hexpandArray h) F n k v shift kh r

/-- **frame, `delete`**: with `mutable = false` no existing cell is written -/
theorem Pres.hdeleteN (h : Hasher K) :
    ∀ (F : Nat) (n : Addr) (k : K) (shift : Nat) (kh : UInt32) (r : Bool),
    Pres (hdeleteN (V := V) h F n k shift kh false r) := by
  intro F
  induction F with
  | zero => intro n k shift kh r; exact Pres.fail _
  | succ F ih =>
    intro n k shift kh r
    unfold HamtHeap.hdeleteN
    simp only [Bool.false_eq_true, if_false]
    repeat (first | exact ih _ _ _ _ _ | pres_step)

theorem Pres.hamtNew : Pres (hamtNew : HM K V Addr) := Pres.alloc _

theorem Pres.hamtSet (h : Hasher K) (m : Addr) (k : K) (v : V) : Pres (hamtSet h m k v false) := by
  unfold HamtHeap.hamtSet
  simp only [Bool.false_eq_true, if_false]
  have := Pres.hsetN (V := V) h trieFuel
  repeat (first | exact this _ _ _ _ _ _ | pres_step)

theorem Pres.hamtUpdated (h : Hasher K) (m : Addr) (k : K) (v : V) : Pres (hamtUpdated h m k v) :=
  Pres.hamtSet h m k v

theorem Pres.hamtDelete (h : Hasher K) (m : Addr) (k : K) : Pres (hamtDelete (V := V) h m k false) := by
  unfold HamtHeap.hamtDelete
  simp only [Bool.false_eq_true, if_false]
  have := Pres.hdeleteN (V := V) h trieFuel
  repeat (first | exact this _ _ _ _ _ | pres_step)

theorem Pres.hamtRemoved (h : Hasher K) (m : Addr) (ks : List K) : Pres (hamtRemoved (V := V) h m ks) :=
  Pres.foldlM (fun b a => Pres.hamtDelete h b a) _ _

end FpVerif.HamtHeap
