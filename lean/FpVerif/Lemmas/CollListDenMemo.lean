import FpVerif.Model.CollExpr
import FpVerif.Lemmas.ListTyHeap
/-!
# The lazy `fp.List` over elements `El` (package `list`, derived combinators): memo cells

Port of `Lemmas/ListMemo.lean` to the heap model of `Model/CollList.lean`:

* a `done` cell is returned without running anything (`forceH_done`, `forceT_done`, `forceL_done`);
* `Heap.WF` (a pending closure was started 0 times, a running / done one exactly once) is kept by
  every operation (`presAll`), by the cursor loop `toSeq` and by `LX.evalF`;
* plain lists (`.nil`, `.seq xs`) satisfy the interface contract, `toSeq` on `.seq xs` returns `xs`.
-/
namespace FpVerif.Coll
open FpVerif.It IM
open FpVerif.LL (push_get_lt set_get_same set_get_other push_cases set_cases size_set! get_lt arr_push_ok
  arr_set_ok foldl_max_le)

/-! ## `LX.eval` with the fuel as a parameter -/

/-- `LX.eval` with `fuel` in place of the constant `FUEL` -/
def LX.evalF (fuel : Nat) : LX → HM LV
  | .of xs => pure (lOf xs)
  | .map e f => do let l ← e.evalF fuel; lMap l f
  | .lift f e => do let l ← e.evalF fuel; lLift f l
  | .flatMap e k => do let l ← e.evalF fuel; Coll.flatMap fuel l (.user k)
  | .compose k1 k2 a => lCompose fuel k1 k2 a
  | .composePure f a => lComposePure f a
  | .flatten e => do let l ← e.evalF fuel; lFlatten fuel l
  | .ap t a => do let lt ← t.evalF fuel; let la ← a.evalF fuel; lAp fuel lt la
  | .map2 a b g => do let la ← a.evalF fuel; let lb ← b.evalF fuel; lMap2 fuel la lb g
  | .flap t a => do let lt ← t.evalF fuel; lFlap fuel lt a
  | .flap2 t a b => do let lt ← t.evalF fuel; lFlap2 fuel lt a b
  | .flapMap g a b => do let la ← a.evalF fuel; lFlapMap fuel g la b
  | .method1 ta g b => do let la ← ta.evalF fuel; lMethod1 fuel la g b
  | .method2 ta h b c => do let la ← ta.evalF fuel; lMethod2 fuel la h b c

theorem LX.eval_eq_evalF (e : LX) : e.eval = e.evalF FUEL := by
  induction e with
  | of xs => rfl
  | map e f ih => simp only [LX.eval, LX.evalF, ih]
  | lift f e ih => simp only [LX.eval, LX.evalF, ih]
  | flatMap e k ih => simp only [LX.eval, LX.evalF, ih]
  | compose k1 k2 a => rfl
  | composePure f a => rfl
  | flatten e ih => simp only [LX.eval, LX.evalF, ih]
  | ap t a iht iha => simp only [LX.eval, LX.evalF, iht, iha]
  | map2 a b g iha ihb => simp only [LX.eval, LX.evalF, iha, ihb]
  | flap t a ih => simp only [LX.eval, LX.evalF, ih]
  | flap2 t a b ih => simp only [LX.eval, LX.evalF, ih]
  | flapMap g a b ih => simp only [LX.eval, LX.evalF, ih]
  | method1 ta g b ih => simp only [LX.eval, LX.evalF, ih]
  | method2 ta h b c ih => simp only [LX.eval, LX.evalF, ih]

/-! ## memoisation: a done cell is never run again -/

theorem forceH_done (fuel c : Nat) (hp : Heap) (lg : Log) (v : Option El) (n : Nat)
    (h : hp.hs[c]? = some (.done v, n)) : Coll.forceH (fuel + 1) c hp lg = (.ok v, hp, lg) := by
  simp [Coll.forceH, bind_apply, h]

theorem forceT_done (fuel c : Nat) (hp : Heap) (lg : Log) (v : LV) (n : Nat)
    (h : hp.ts[c]? = some (.done v, n)) : Coll.forceT (fuel + 1) c hp lg = (.ok v, hp, lg) := by
  simp [Coll.forceT, bind_apply, h]

theorem forceL_done (fuel c : Nat) (hp : Heap) (lg : Log) (v : LV) (n : Nat)
    (h : hp.ls[c]? = some (.done v, n)) : Coll.forceL (fuel + 1) c hp lg = (.ok v, hp, lg) := by
  simp [Coll.forceL, bind_apply, h]

/-! ## plain lists (`list.Nil`, `list.Seq`) satisfy the interface contract -/

theorem isEmpty_nil (fuel : Nat) (hp : Heap) (lg : Log) :
    Coll.isEmpty (fuel + 1) .nil hp lg = (.ok true, hp, lg) := by
  rw [Coll.isEmpty.eq_def]; rfl

theorem isEmpty_seq (fuel : Nat) (xs : List El) (hp : Heap) (lg : Log) :
    Coll.isEmpty (fuel + 1) (.seq xs) hp lg = (.ok xs.isEmpty, hp, lg) := by
  rw [Coll.isEmpty.eq_def]; rfl

theorem head_seq (fuel : Nat) (x : El) (xs : List El) (hp : Heap) (lg : Log) :
    Coll.head (fuel + 1) (.seq (x :: xs)) hp lg = (.ok x, hp, lg) := by
  rw [Coll.head.eq_def]; rfl

theorem tail_nil (fuel : Nat) (hp : Heap) (lg : Log) :
    Coll.tail (fuel + 1) .nil hp lg = (.ok .nil, hp, lg) := by
  rw [Coll.tail.eq_def]; rfl

theorem tail_seq (fuel : Nat) (x : El) (xs : List El) (hp : Heap) (lg : Log) :
    Coll.tail (fuel + 1) (.seq (x :: xs)) hp lg = (.ok (.seq xs), hp, lg) := by
  rw [Coll.tail.eq_def]; rfl

theorem tail_seq_nil (fuel : Nat) (hp : Heap) (lg : Log) :
    Coll.tail (fuel + 1) (.seq []) hp lg = (.ok .nil, hp, lg) := by
  rw [Coll.tail.eq_def]; rfl

/-- the cursor loop over a slice-backed list returns the slice; heap and log untouched -/
theorem toSeq_seq : ∀ (xs : List El) (fuel : Nat) (acc : List El) (hp : Heap) (lg : Log),
    xs.length + 1 < fuel → Coll.toSeq fuel (.seq xs) acc hp lg = (.ok (acc ++ xs), hp, lg) := by
  intro xs
  induction xs with
  | nil =>
    intro fuel acc hp lg hf
    obtain ⟨f, rfl⟩ := Nat.exists_eq_succ_of_ne_zero (by omega : fuel ≠ 0)
    obtain ⟨f, rfl⟩ := Nat.exists_eq_succ_of_ne_zero (by simp at hf; omega : f ≠ 0)
    simp [Coll.toSeq, bind_ok (isEmpty_seq f [] hp lg)]
  | cons x xs ih =>
    intro fuel acc hp lg hf
    obtain ⟨g, rfl⟩ := Nat.exists_eq_succ_of_ne_zero (by omega : fuel ≠ 0)
    obtain ⟨f, hfe⟩ := Nat.exists_eq_succ_of_ne_zero (by simp at hf; omega : g ≠ 0)
    have h4 := ih g (acc ++ [x]) hp lg (by simp at hf ⊢; omega)
    have e1 : Coll.isEmpty g (.seq (x :: xs)) hp lg = (.ok false, hp, lg) := by rw [hfe]; exact isEmpty_seq f _ hp lg
    have e2 : Coll.head g (.seq (x :: xs)) hp lg = (.ok x, hp, lg) := by rw [hfe]; exact head_seq f x xs hp lg
    have e3 : Coll.tail g (.seq (x :: xs)) hp lg = (.ok (.seq xs), hp, lg) := by rw [hfe]; exact tail_seq f x xs hp lg
    simp [Coll.toSeq, bind_ok e1, bind_ok e2, bind_ok e3, h4]

theorem toSeq_nil (fuel : Nat) (acc : List El) (hp : Heap) (lg : Log) :
    Coll.toSeq (fuel + 2) .nil acc hp lg = (.ok acc, hp, lg) := by
  simp [Coll.toSeq, bind_ok (isEmpty_nil fuel hp lg)]

/-! ## every memo cell's closure is started at most once -/

/-- a pending cell has never been started, a running or done cell exactly once -/
def cellOk {T V : Type} : Cell T V × Nat → Prop
  | (.pending _, n) => n = 0
  | (_, n) => n = 1

structure Heap.WF (hp : Heap) : Prop where
  hs : ∀ (i : Nat) c, hp.hs[i]? = some c → cellOk c
  ts : ∀ (i : Nat) c, hp.ts[i]? = some c → cellOk c
  ls : ∀ (i : Nat) c, hp.ls[i]? = some c → cellOk c

theorem Heap.WF.empty : ({} : Heap).WF := ⟨by simp, by simp, by simp⟩

/-- the computation keeps the heap well-formed (whether it returns or panics) -/
def Pres {X : Type} (m : HM X) : Prop := ∀ hp lg, hp.WF → (m hp lg).2.1.WF

theorem Pres.pure {X : Type} (x : X) : Pres (pure x : HM X) := fun _ _ h => h
theorem Pres.panic {X : Type} (p : PanicVal) : Pres (IM.panic p : HM X) := fun _ _ h => h
theorem Pres.liftG {X : Type} (g : GoM X) : Pres (IM.liftG g : HM X) := fun _ _ h => h

theorem Pres.bind {X Y : Type} {m : HM X} {f : X → HM Y} (hm : Pres m) (hf : ∀ x, Pres (f x)) :
    Pres (m >>= f) := by
  intro hp lg wf
  have h1 := hm hp lg wf
  simp only [bind_apply]
  rcases hr : m hp lg with ⟨_ | x, hp1, lg1⟩
  · simpa [hr] using h1
  · simp only [hr] at h1 ⊢
    exact hf x hp1 lg1 h1

theorem Pres.ite {X : Type} {c : Prop} [Decidable c] {a b : HM X} (ha : Pres a) (hb : Pres b) :
    Pres (if c then a else b) := by
  split <;> assumption

theorem pres_makeList (h : HThunk) (t : TThunk) : Pres (makeList h t) := by
  intro hp lg wf
  exact ⟨arr_push_ok wf.hs rfl, arr_push_ok wf.ts rfl, wf.ls⟩

theorem pres_lMap (l : LV) (f : Fn) : Pres (lMap l f) := pres_makeList _ _

theorem pres_allocLazy (opt : LV) (k : KL) : Pres (allocLazy opt k) := by
  intro hp lg wf
  exact ⟨wf.hs, wf.ts, arr_push_ok wf.ls rfl⟩

theorem pres_setH (c : Nat) (x : Cell HThunk (Option El) × Nat) (hx : cellOk x) :
    Pres (IM.modify fun hp => { hp with hs := hp.hs.set! c x } : HM Unit) :=
  fun _ _ wf => ⟨arr_set_ok c wf.hs hx, wf.ts, wf.ls⟩

theorem pres_setT (c : Nat) (x : Cell TThunk LV × Nat) (hx : cellOk x) :
    Pres (IM.modify fun hp => { hp with ts := hp.ts.set! c x } : HM Unit) :=
  fun _ _ wf => ⟨wf.hs, arr_set_ok c wf.ts hx, wf.ls⟩

theorem pres_setL (c : Nat) (x : Cell (LV × KL) LV × Nat) (hx : cellOk x) :
    Pres (IM.modify fun hp => { hp with ls := hp.ls.set! c x } : HM Unit) :=
  fun _ _ wf => ⟨wf.hs, wf.ts, arr_set_ok c wf.ls hx⟩

theorem pres_forceH {fuel : Nat} (ih : ∀ t, Pres (Coll.runH fuel t)) (c : Nat) : Pres (Coll.forceH (fuel + 1) c) := by
  intro hp lg wf
  show (Coll.forceH (fuel + 1) c hp lg).2.1.WF
  rw [Coll.forceH]
  simp only [bind_apply, get_apply]
  rcases hcell : hp.hs[c]? with _ | ⟨cell, n⟩
  · simpa using wf
  · rcases cell with t | _ | w
    · have hn : n = 0 := wf.hs c _ hcell
      subst hn
      exact (Pres.bind (pres_setH c (.running, 0 + 1) rfl) (fun _ => Pres.bind (ih t) (fun v =>
        Pres.bind (pres_setH c (.done v, 0 + 1) rfl) (fun _ => Pres.pure v)))) hp lg wf
    · simpa using wf
    · simpa using wf

theorem pres_forceT {fuel : Nat} (ih : ∀ t, Pres (Coll.runT fuel t)) (c : Nat) : Pres (Coll.forceT (fuel + 1) c) := by
  intro hp lg wf
  show (Coll.forceT (fuel + 1) c hp lg).2.1.WF
  rw [Coll.forceT]
  simp only [bind_apply, get_apply]
  rcases hcell : hp.ts[c]? with _ | ⟨cell, n⟩
  · simpa using wf
  · rcases cell with t | _ | w
    · have hn : n = 0 := wf.ts c _ hcell
      subst hn
      exact (Pres.bind (pres_setT c (.running, 0 + 1) rfl) (fun _ => Pres.bind (ih t) (fun v =>
        Pres.bind (pres_setT c (.done v, 0 + 1) rfl) (fun _ => Pres.pure v)))) hp lg wf
    · simpa using wf
    · simpa using wf

theorem pres_forceL {fuel : Nat} (ihh : ∀ l, Pres (Coll.head fuel l)) (ihk : ∀ k x, Pres (Coll.applyK fuel k x)) (c : Nat) :
    Pres (Coll.forceL (fuel + 1) c) := by
  intro hp lg wf
  show (Coll.forceL (fuel + 1) c hp lg).2.1.WF
  rw [Coll.forceL]
  simp only [bind_apply, get_apply]
  rcases hcell : hp.ls[c]? with _ | ⟨cell, n⟩
  · simpa using wf
  · rcases cell with ⟨opt, k⟩ | _ | w
    · have hn : n = 0 := wf.ls c _ hcell
      subst hn
      exact (Pres.bind (pres_setL c (.running, 0 + 1) rfl) (fun _ => Pres.bind (ihh opt) (fun x => Pres.bind (ihk k x) (fun v =>
        Pres.bind (pres_setL c (.done v, 0 + 1) rfl) (fun _ => Pres.pure v))))) hp lg wf
    · simpa using wf
    · simpa using wf

/-- all heap operations of the model, at a given fuel -/
structure PresAll (fuel : Nat) : Prop where
  isEmpty : ∀ l, Pres (Coll.isEmpty fuel l)
  head : ∀ l, Pres (Coll.head fuel l)
  tail : ∀ l, Pres (Coll.tail fuel l)
  headOpt : ∀ l, Pres (Coll.headOpt fuel l)
  forceH : ∀ c, Pres (Coll.forceH fuel c)
  forceT : ∀ c, Pres (Coll.forceT fuel c)
  forceL : ∀ c, Pres (Coll.forceL fuel c)
  applyK : ∀ k x, Pres (Coll.applyK fuel k x)
  runH : ∀ t, Pres (Coll.runH fuel t)
  runT : ∀ t, Pres (Coll.runT fuel t)
  flatMap : ∀ l k, Pres (Coll.flatMap fuel l k)
  combine : ∀ a b, Pres (Coll.combine fuel a b)

macro "cpres_step" : tactic =>
  `(tactic| first
    | (cases ‹_ + 1 = Nat.succ _›)
    | (exact fun h => absurd h (Nat.succ_ne_zero _))
    | exact Pres.pure _
    | exact Pres.panic _
    | exact Pres.liftG _
    | exact pres_makeList _ _
    | exact pres_lMap _ _
    | exact pres_allocLazy _ _
    | omega
    | (apply PresAll.isEmpty; assumption)
    | (apply PresAll.head; assumption)
    | (apply PresAll.tail; assumption)
    | (apply PresAll.headOpt; assumption)
    | (apply PresAll.forceH; assumption)
    | (apply PresAll.forceT; assumption)
    | (apply PresAll.forceL; assumption)
    | (apply PresAll.applyK; assumption)
    | (apply PresAll.runH; assumption)
    | (apply PresAll.runT; assumption)
    | (apply PresAll.flatMap; assumption)
    | (apply PresAll.combine; assumption)
    | (refine Pres.bind ?_ (fun _ => ?_))
    | (apply Pres.ite)
    | split)

attribute [local irreducible] Coll.isEmpty Coll.head Coll.tail Coll.headOpt Coll.forceH Coll.forceT Coll.forceL
  Coll.applyK Coll.runH Coll.runT Coll.flatMap Coll.combine in
theorem presAll : ∀ fuel, PresAll fuel := by
  intro fuel
  induction fuel with
  | zero =>
    constructor <;> intros <;>
      first
        | (rw [Coll.isEmpty]; exact Pres.panic _) | (rw [Coll.head]; exact Pres.panic _)
        | (rw [Coll.tail]; exact Pres.panic _) | (rw [Coll.headOpt]; exact Pres.panic _)
        | (rw [Coll.forceH]; exact Pres.panic _) | (rw [Coll.forceT]; exact Pres.panic _)
        | (rw [Coll.forceL]; exact Pres.panic _) | (rw [Coll.applyK]; exact Pres.panic _)
        | (rw [Coll.runH]; exact Pres.panic _) | (rw [Coll.runT]; exact Pres.panic _)
        | (rw [Coll.flatMap]; exact Pres.panic _) | (rw [Coll.combine]; exact Pres.panic _)
  | succ fuel ih =>
    constructor
    · intro l; cases l <;> rw [Coll.isEmpty] <;> repeat cpres_step
    · intro l; rw [Coll.head.eq_def]; repeat cpres_step
    · intro l; rw [Coll.tail.eq_def]; repeat cpres_step
    · intro l; rw [Coll.headOpt]; repeat cpres_step
    · intro c; exact pres_forceH ih.runH c
    · intro c; exact pres_forceT ih.runT c
    · intro c; exact pres_forceL ih.head ih.applyK c
    · intro k x; rw [Coll.applyK.eq_def]; repeat cpres_step
    · intro t; cases t <;> rw [Coll.runH] <;> repeat cpres_step
    · intro t; cases t <;> rw [Coll.runT] <;> repeat cpres_step
    · intro l k; rw [Coll.flatMap]; repeat cpres_step
    · intro a b; rw [Coll.combine]; repeat cpres_step

theorem pres_toSeq : ∀ fuel l acc, Pres (Coll.toSeq fuel l acc) := by
  intro fuel
  induction fuel with
  | zero => intro l acc; exact Pres.panic _
  | succ n ih =>
    intro l acc
    have hA := presAll n
    simp only [Coll.toSeq]
    refine Pres.bind (hA.isEmpty l) (fun b => ?_)
    cases b
    · exact Pres.bind (hA.head l) (fun v => Pres.bind (hA.tail l) (fun t => ih t _))
    · exact Pres.pure _

theorem pres_lAp (fuel : Nat) (t a : LV) : Pres (lAp fuel t a) := (presAll fuel).flatMap _ _

theorem pres_evalF (fuel : Nat) : ∀ e : LX, Pres (e.evalF fuel) := by
  have hA := presAll fuel
  intro e
  induction e with
  | of xs => exact Pres.pure _
  | map e f ih => exact Pres.bind ih (fun _ => pres_lMap _ _)
  | lift f e ih => exact Pres.bind ih (fun _ => pres_lMap _ _)
  | flatMap e k ih => exact Pres.bind ih (fun _ => hA.flatMap _ _)
  | compose k1 k2 a => exact Pres.bind (Pres.liftG _) (fun _ => hA.flatMap _ _)
  | composePure f a => exact Pres.bind (Pres.liftG _) (fun _ => Pres.pure _)
  | flatten e ih => exact Pres.bind ih (fun _ => hA.flatMap _ _)
  | ap t a iht iha => exact Pres.bind iht (fun _ => Pres.bind iha (fun _ => hA.flatMap _ _))
  | map2 a b g iha ihb => exact Pres.bind iha (fun _ => Pres.bind ihb (fun _ => hA.flatMap _ _))
  | flap t a ih => exact Pres.bind ih (fun _ => hA.flatMap _ _)
  | flap2 t a b ih => exact Pres.bind ih (fun _ => Pres.bind (hA.flatMap _ _) (fun _ => hA.flatMap _ _))
  | flapMap g a b ih => exact Pres.bind ih (fun _ => Pres.bind (pres_lMap _ _) (fun _ => hA.flatMap _ _))
  | method1 ta g b ih => exact Pres.bind ih (fun _ => Pres.bind (pres_lMap _ _) (fun _ => hA.flatMap _ _))
  | method2 ta h b c ih =>
    exact Pres.bind ih (fun _ => Pres.bind (pres_lMap _ _) (fun _ => Pres.bind (hA.flatMap _ _) (fun _ => hA.flatMap _ _)))

theorem cellOk_le {T V : Type} (c : Cell T V × Nat) (h : cellOk c) : c.2 ≤ 1 := by
  rcases c with ⟨_ | _ | _, n⟩ <;> simp [cellOk] at h <;> omega

theorem WF.maxEvals_le (hp : Heap) (wf : hp.WF) : hp.maxEvals ≤ 1 := by
  unfold Heap.maxEvals
  apply foldl_max_le _ _ _ (fun i c hc => cellOk_le c (wf.ls i c hc))
  apply foldl_max_le _ _ _ (fun i c hc => cellOk_le c (wf.ts i c hc))
  apply foldl_max_le _ _ _ (fun i c hc => cellOk_le c (wf.hs i c hc))
  omega

end FpVerif.Coll
