import FpVerif.Lemmas.CowBasic
/-!
The association-list map is a map (get/put/del laws), and `ComputeIfAbsent` on the ATOMIC map:
the value returned is the value stored, and once a key is bound all later calls return it.
-/
namespace FpVerif.Cow

theorem AMap.get_del_self (m : AMap) (k : K) : AMap.get (AMap.del m k) k = none := by
  induction m with
  | nil => rfl
  | cons p ps ih =>
    obtain ⟨a, b⟩ := p
    unfold AMap.del at *
    simp only [List.filter_cons]
    by_cases h : a = k
    · subst h; simpa using ih
    · have hbeq : (k == a) = false := by simp; exact fun e => h e.symm
      simp [h, AMap.get, List.lookup_cons, hbeq]
      simpa [AMap.get] using ih

theorem AMap.get_del_ne (m : AMap) {k k' : K} (h : k' ≠ k) :
    AMap.get (AMap.del m k') k = AMap.get m k := by
  induction m with
  | nil => rfl
  | cons p ps ih =>
    obtain ⟨a, b⟩ := p
    unfold AMap.del at *
    simp only [List.filter_cons]
    by_cases ha : a = k'
    · subst ha
      have hbeq : (k == a) = false := by simp; exact fun e => h e.symm
      simp [AMap.get, List.lookup_cons, hbeq]
      simpa [AMap.get] using ih
    · simp only [bne_iff_ne, ne_eq, ha, not_false_eq_true, decide_true, if_true]
      simp only [AMap.get, List.lookup_cons]
      cases hka : k == a
      · simpa [AMap.get] using ih
      · rfl

theorem AMap.get_put_self (m : AMap) (k : K) (v : V) : AMap.get (AMap.put m k v) k = some v := by
  simp [AMap.put, AMap.get, List.lookup_cons]

theorem AMap.get_put_ne (m : AMap) {k k' : K} (v : V) (h : k' ≠ k) :
    AMap.get (AMap.put m k' v) k = AMap.get m k := by
  have hbeq : (k == k') = false := by simp; exact fun e => h e.symm
  simp only [AMap.put, AMap.get, List.lookup_cons, hbeq]
  exact AMap.get_del_ne m h

theorem AMap.delAll_cons (a : K) (b : V) (ps : AMap) (ks : List K) :
    AMap.delAll ((a, b) :: ps) ks = if a ∈ ks then AMap.delAll ps ks else (a, b) :: AMap.delAll ps ks := by
  unfold AMap.delAll
  by_cases h : a ∈ ks <;> simp [List.filter_cons, h]

theorem AMap.get_cons (a : K) (b : V) (ps : AMap) (k : K) :
    AMap.get ((a, b) :: ps) k = if k = a then some b else AMap.get ps k := by
  unfold AMap.get
  by_cases h : k = a
  · subst h; simp [List.lookup_cons]
  · have hb : (k == a) = false := by simpa using h
    simp [List.lookup_cons, hb, h]

theorem AMap.get_delAll_notin (m : AMap) {k : K} {ks : List K} (h : k ∉ ks) :
    AMap.get (AMap.delAll m ks) k = AMap.get m k := by
  induction m with
  | nil => rfl
  | cons p ps ih =>
    obtain ⟨a, b⟩ := p
    rw [AMap.delAll_cons]
    by_cases ha : a ∈ ks
    · have hne : k ≠ a := by rintro rfl; exact h ha
      simp [ha, AMap.get_cons, hne, ih]
    · simp [ha, AMap.get_cons, ih]

theorem AMap.get_delAll_in (m : AMap) {k : K} {ks : List K} (h : k ∈ ks) :
    AMap.get (AMap.delAll m ks) k = none := by
  induction m with
  | nil => rfl
  | cons p ps ih =>
    obtain ⟨a, b⟩ := p
    rw [AMap.delAll_cons]
    by_cases ha : a ∈ ks
    · simp [ha, ih]
    · have hne : k ≠ a := by rintro rfl; exact ha h
      simp [ha, AMap.get_cons, hne, ih]

/-- `ComputeIfAbsent k f` -/
def Op.isCia (k : K) : Op → Prop
  | .computeIf k' none _ _ _ => k' = k
  | _ => False

/-- the operation may change the binding of `k` -/
def Op.writes (k : K) : Op → Prop
  | .updated k' _ => k' = k
  | .removed ks => k ∈ ks
  | .updatedWith k' _ _ => k' = k
  | .computeIf k' _ _ _ _ => k' = k
  | _ => False

theorem apply_frame {op : Op} {k : K} (h : ¬ op.writes k) (m : AMap) :
    AMap.get (op.apply m).1 k = AMap.get m k := by
  cases op with
  | get _ => rfl
  | size => rfl
  | iter => rfl
  | updated k' v => exact AMap.get_put_ne m v h
  | removed ks => exact AMap.get_delAll_notin m h
  | updatedWith k' rid remap =>
    simp only [Op.apply, updatedWithMap]
    split
    · exact AMap.get_put_ne m _ h
    · split
      · exact AMap.get_del_ne m h
      · rfl
  | computeIf k' pid pred fid nv =>
    simp only [Op.apply, computeIfMap]
    split
    · split
      · exact AMap.get_put_ne m _ h
      · rfl
    · exact AMap.get_put_ne m _ h

end FpVerif.Cow
