import FpVerif.Model.CollMonad
import FpVerif.Lemmas.IterComb
import FpVerif.Lemmas.IterTerm
/-!
# package `iterator`: FlatMap with a shared one-shot continuation iterator, derived combinators,
# monad laws of `It.flatMap` with unit `Of`
-/
namespace FpVerif.Coll
open FpVerif FpVerif.It FpVerif.It.IM

variable {σ σ₂ τ τ₂ α β γ δ φ φ₂ : Type}

/-! ## generic helpers -/

/-- the history argument of `Represents` is ghost: it can be reset. -/
theorem represents_reset (m : Machine σ α) (s : σ) (d r : List α) (h : Represents m s d r) :
    Represents m s [] r := by
  obtain ⟨R, hS, hR⟩ := h
  refine ⟨fun s d' r => ∃ d0, R s (d0 ++ d') r, ⟨?_, ?_, ?_⟩, d, by simpa using hR⟩
  · rintro s d' r lg ⟨d0, h⟩
    obtain ⟨s', lg', e, h'⟩ := hS.hasNext s _ r lg h
    exact ⟨s', lg', e, d0, h'⟩
  · rintro s d' a r lg ⟨d0, h⟩
    obtain ⟨s', lg', e, h'⟩ := hS.next_cons s _ a r lg h
    exact ⟨s', lg', e, d0, by simpa using h'⟩
  · rintro s d' lg ⟨d0, h⟩
    obtain ⟨p, s', lg', e, h'⟩ := hS.next_nil s _ lg h
    exact ⟨p, s', lg', e, d0, h'⟩

/-- delivered ++ remaining is constant along a simulation. -/
theorem sim_total {m : Machine σ α} {R : σ → List α → List α → Prop} (hS : Sim m R) (l : List α) :
    Sim m (fun s d r => R s d r ∧ d ++ r = l) where
  hasNext := by
    rintro s d r lg ⟨hR, hl⟩
    obtain ⟨s', lg', e, h'⟩ := hS.hasNext s d r lg hR
    exact ⟨s', lg', e, h', hl⟩
  next_cons := by
    rintro s d a r lg ⟨hR, hl⟩
    obtain ⟨s', lg', e, h'⟩ := hS.next_cons s d a r lg hR
    exact ⟨s', lg', e, h', by simpa using hl⟩
  next_nil := by
    rintro s d lg ⟨hR, hl⟩
    obtain ⟨p, s', lg', e, h'⟩ := hS.next_nil s d lg hR
    exact ⟨p, s', lg', e, h', hl⟩

/-- `toSeq` with a postcondition established by the last (`false`) `hasNext`. -/
theorem toSeq_spec_post {m : Machine σ α} {R : σ → List α → List α → Prop} (hS : Sim m R)
    {P : σ → Prop}
    (hP : ∀ s d lg, R s d [] → ∃ s' lg', m.hasNext s lg = (.ok false, s', lg') ∧ R s' d [] ∧ P s') :
    ∀ (r : List α) (fuel : Nat) (s : σ) (d acc : List α) (lg : Log), r.length < fuel → R s d r →
      ∃ s' lg', toSeq m fuel acc s lg = (.ok (acc ++ r), s', lg') ∧ R s' (d ++ r) [] ∧ P s' := by
  intro r
  induction r with
  | nil =>
    intro fuel s d acc lg hf hR
    obtain ⟨k, rfl⟩ := Nat.exists_eq_succ_of_ne_zero (by omega : fuel ≠ 0)
    obtain ⟨s1, lg1, h1, hR1, hP1⟩ := hP s d lg hR
    exact ⟨s1, lg1, by simp [toSeq, bind_ok h1], by simpa using hR1, hP1⟩
  | cons a r ih =>
    intro fuel s d acc lg hf hR
    obtain ⟨k, rfl⟩ := Nat.exists_eq_succ_of_ne_zero (by omega : fuel ≠ 0)
    obtain ⟨s1, lg1, h1, hR1⟩ := hS.hasNext s d (a :: r) lg hR
    simp only [List.isEmpty_cons, Bool.not_false] at h1
    obtain ⟨s2, lg2, h2, hR2⟩ := hS.next_cons s1 d a r lg1 hR1
    obtain ⟨s', lg', h3, hR3, hP3⟩ := ih k s2 (d ++ [a]) (acc ++ [a]) lg2 (by simpa using hf) hR2
    exact ⟨s', lg', by simp [toSeq, bind_ok h1, bind_ok h2, h3], by simpa using hR3, hP3⟩

/-! ## `flatMapShared` -/

/-- what `flatMapShared` will still deliver: nothing pulled yet (`current = none`) — the first
    outer element applied to all of `shared`; afterwards — `current` applied to the rest of
    `shared`, whatever is left in `outer`. -/
def sharedOut (g : φ → α → β) (cur : Option φ) (dO rO : List φ) (rS : List α) (r' : List β) : Prop :=
  match cur with
  | none => dO = [] ∧ r' = (match rO with | [] => [] | v :: _ => rS.map (g v))
  | some v => r' = rS.map (g v)

/-- simulation relation of `flatMapShared` (the delivered part `_d'` is not constrained). -/
def SharedRel (fuel : Nat) (g : φ → α → β) (Ro : σ → List φ → List φ → Prop)
    (Rs : σ₂ → List α → List α → Prop) (sc : (σ × σ₂) × Option φ) (_d' r' : List β) : Prop :=
  ∃ dO rO dS rS, Ro sc.1.1 dO rO ∧ Rs sc.1.2 dS rS ∧ rO.length < fuel ∧ sharedOut g sc.2 dO rO rS r'

/-- once `shared` is exhausted the loop consumes ALL of `outer`, leaves `current` at the last
    element pulled and answers `false`. -/
theorem sharedLoop_drain {outer : Machine σ φ} {Ro : σ → List φ → List φ → Prop} (hO : Sim outer Ro)
    {shared : Machine σ₂ α} {Rs : σ₂ → List α → List α → Prop} (hSh : Sim shared Rs) :
    ∀ (rO : List φ) (fuel : Nat) (so : σ) (ss : σ₂) (dO : List φ) (dS : List α) (cur : Option φ)
      (lg : Log), rO.length < fuel → Ro so dO rO → Rs ss dS [] →
      ∃ so' ss' cur' lg', sharedLoop outer shared fuel ((so, ss), cur) lg =
          (.ok false, ((so', ss'), cur'), lg') ∧
        Ro so' (dO ++ rO) [] ∧ Rs ss' dS [] ∧ (cur' = none → cur = none ∧ rO = []) := by
  intro rO
  induction rO with
  | nil =>
    intro fuel so ss dO dS cur lg hf hRo hRs
    obtain ⟨k, rfl⟩ := Nat.exists_eq_succ_of_ne_zero (by omega : fuel ≠ 0)
    obtain ⟨so1, lg1, h1, hR1⟩ := hO.hasNext so dO [] lg hRo
    simp only [List.isEmpty_nil, Bool.not_true] at h1
    refine ⟨so1, ss, cur, lg1, ?_, by simpa using hR1, hRs, fun h => ⟨h, rfl⟩⟩
    simp [sharedLoop, bind_apply, onFst_eq cur (onFst_eq ss h1)]
  | cons a r ih =>
    intro fuel so ss dO dS cur lg hf hRo hRs
    obtain ⟨k, rfl⟩ := Nat.exists_eq_succ_of_ne_zero (by omega : fuel ≠ 0)
    obtain ⟨so1, lg1, h1, hR1⟩ := hO.hasNext so dO (a :: r) lg hRo
    obtain ⟨so2, lg2, h2, hR2⟩ := hO.next_cons so1 dO a r lg1 hR1
    obtain ⟨ss3, lg3, h3, hR3⟩ := hSh.hasNext ss dS [] lg2 hRs
    simp only [List.isEmpty_cons, Bool.not_false] at h1
    simp only [List.isEmpty_nil, Bool.not_true] at h3
    obtain ⟨so', ss', cur', lg', h4, hRo4, hRs4, hc4⟩ :=
      ih k so2 ss3 (dO ++ [a]) dS (some a) lg3 (by simpa using hf) hR2 hR3
    refine ⟨so', ss', cur', lg', ?_, by simpa using hRo4, hRs4, fun h => by simpa using (hc4 h).1⟩
    simp [sharedLoop, bind_apply, onFst_eq cur (onFst_eq ss h1), onFst_eq cur (onFst_eq ss h2),
      onFst_eq (some a) (onSnd_eq so2 h3), h4]

/-- `hasNext` of `flatMapShared`: the answer, the invariant, and what the state looks like
    afterwards (`current` is set when something is left; `outer` is drained when nothing is). -/
theorem flatMapShared_hasNext {h : φ → α → GoM β} {g : φ → α → β} (fuel : Nat)
    {outer : Machine σ φ} {Ro : σ → List φ → List φ → Prop} (hO : Sim outer Ro)
    {shared : Machine σ₂ α} {Rs : σ₂ → List α → List α → Prop} (hSh : Sim shared Rs)
    (so : σ) (ss : σ₂) (cur : Option φ) (d' r' : List β) (lg : Log)
    (hrel : SharedRel fuel g Ro Rs ((so, ss), cur) d' r') :
    ∃ so' ss' cur' lg', (flatMapShared fuel h outer shared).hasNext ((so, ss), cur) lg =
        (.ok (!r'.isEmpty), ((so', ss'), cur'), lg') ∧
      ∃ dO rO dS rS, Ro so' dO rO ∧ Rs ss' dS rS ∧ rO.length < fuel ∧ sharedOut g cur' dO rO rS r' ∧
        (r' ≠ [] → ∃ v, cur' = some v) ∧ (r' = [] → rO = [] ∧ (dO ≠ [] → rS = [])) := by
  obtain ⟨dO, rO, dS, rS, hRo, hRs, hf, hout⟩ := hrel
  simp only at hRo hRs hout
  -- the loop, entered with `shared` exhausted
  have hdrain : ∀ (ss1 : σ₂) (cur1 : Option φ) (lg1 : Log), Rs ss1 dS [] → rS = [] →
      (cur1 = none → dO = [] ∧ cur = none) → r' = [] →
      ∃ so' ss' cur' lg', sharedLoop outer shared fuel ((so, ss1), cur1) lg1 =
          (.ok false, ((so', ss'), cur'), lg') ∧
        ∃ dO rO dS rS, Ro so' dO rO ∧ Rs ss' dS rS ∧ rO.length < fuel ∧ sharedOut g cur' dO rO rS r' ∧
          (r' ≠ [] → ∃ v, cur' = some v) ∧ (r' = [] → rO = [] ∧ (dO ≠ [] → rS = [])) := by
    intro ss1 cur1 lg1 hRs1 hrS hc1 hr'
    obtain ⟨so', ss', cur', lg', h4, hRo4, hRs4, hc4⟩ :=
      sharedLoop_drain hO hSh rO fuel so ss1 dO dS cur1 lg1 hf hRo hRs1
    refine ⟨so', ss', cur', lg', h4, dO ++ rO, [], dS, [], hRo4, hRs4, by simp; omega, ?_,
      fun hne => absurd hr' hne, fun _ => ⟨rfl, fun _ => rfl⟩⟩
    cases cur' with
    | none =>
      obtain ⟨hc, hr⟩ := hc4 rfl
      obtain ⟨hd, _⟩ := hc1 hc
      simp [sharedOut, hd, hr, hr']
    | some v => simp [sharedOut, hr']
  cases cur with
  | some v =>
    simp only [sharedOut] at hout
    obtain ⟨ss1, lg1, h1, hRs1⟩ := hSh.hasNext ss dS rS lg hRs
    cases rS with
    | cons x xs =>
      simp only [List.isEmpty_cons, Bool.not_false] at h1
      refine ⟨so, ss1, some v, lg1, ?_, dO, rO, dS, x :: xs, hRo, hRs1, hf, hout, fun _ => ⟨v, rfl⟩,
        fun h => by simp [hout] at h⟩
      simp [flatMapShared, bind_apply, onFst_eq (some v) (onSnd_eq so h1), hout]
    | nil =>
      simp only [List.isEmpty_nil, Bool.not_true] at h1
      have hr' : r' = [] := by simpa using hout
      obtain ⟨so', ss', cur', lg', h4, rest⟩ :=
        hdrain ss1 (some v) lg1 hRs1 rfl (fun h => by cases h) hr'
      refine ⟨so', ss', cur', lg', ?_, rest⟩
      simp [flatMapShared, bind_apply, onFst_eq (some v) (onSnd_eq so h1), h4, hr']
  | none =>
    simp only [sharedOut] at hout
    obtain ⟨hdO, hout⟩ := hout
    cases rO with
    | nil =>
      have hr' : r' = [] := by simpa using hout
      obtain ⟨k, rfl⟩ := Nat.exists_eq_succ_of_ne_zero (by omega : fuel ≠ 0)
      obtain ⟨so1, lg1, h1, hR1⟩ := hO.hasNext so dO [] lg hRo
      simp only [List.isEmpty_nil, Bool.not_true] at h1
      refine ⟨so1, ss, none, lg1, ?_, dO, [], dS, rS, hR1, hRs, hf, by simp [sharedOut, hdO, hr'],
        fun hne => absurd hr' hne, fun _ => ⟨rfl, fun hne => absurd hdO hne⟩⟩
      simp [flatMapShared, bind_apply, sharedLoop, onFst_eq (none : Option φ) (onFst_eq ss h1), hr']
    | cons a r =>
      simp only at hout
      obtain ⟨k, rfl⟩ := Nat.exists_eq_succ_of_ne_zero (by omega : fuel ≠ 0)
      obtain ⟨so1, lg1, h1, hR1⟩ := hO.hasNext so dO (a :: r) lg hRo
      obtain ⟨so2, lg2, h2, hR2⟩ := hO.next_cons so1 dO a r lg1 hR1
      obtain ⟨ss3, lg3, h3, hR3⟩ := hSh.hasNext ss dS rS lg2 hRs
      simp only [List.isEmpty_cons, Bool.not_false] at h1
      cases rS with
      | cons x xs =>
        simp only [List.isEmpty_cons, Bool.not_false] at h3
        refine ⟨so2, ss3, some a, lg3, ?_, dO ++ [a], r, dS, x :: xs, hR2, hR3,
          by simp at hf; omega, by simpa [sharedOut] using hout, fun _ => ⟨a, rfl⟩,
          fun h => by simp [hout] at h⟩
        simp [flatMapShared, bind_apply, sharedLoop, onFst_eq (none : Option φ) (onFst_eq ss h1),
          onFst_eq (none : Option φ) (onFst_eq ss h2), onFst_eq (some a) (onSnd_eq so2 h3), hout]
      | nil =>
        simp only [List.isEmpty_nil, Bool.not_true] at h3
        have hr' : r' = [] := by simpa using hout
        obtain ⟨so', ss', cur', lg', h4, hRo4, hRs4, hc4⟩ :=
          sharedLoop_drain hO hSh r k so2 ss3 (dO ++ [a]) dS (some a) lg3 (by simpa using hf) hR2 hR3
        have hsome : ∃ v, cur' = some v := by
          cases cur' with
          | none => exact absurd (hc4 rfl).1 (by simp)
          | some v => exact ⟨v, rfl⟩
        obtain ⟨v, rfl⟩ := hsome
        refine ⟨so', ss', some v, lg', ?_, dO ++ [a] ++ r, [], dS, [], hRo4, hRs4, by simp, by simp [sharedOut, hr'],
          fun hne => absurd hr' hne, fun _ => ⟨rfl, fun _ => rfl⟩⟩
        simp [flatMapShared, bind_apply, sharedLoop, onFst_eq (none : Option φ) (onFst_eq ss h1),
          onFst_eq (none : Option φ) (onFst_eq ss h2), onFst_eq (some a) (onSnd_eq so2 h3), h4, hr']

theorem flatMapShared_next_eq (fuel : Nat) (h : φ → α → GoM β) (outer : Machine σ φ)
    (shared : Machine σ₂ α) (sc sc1 : (σ × σ₂) × Option φ) (lg lg1 : Log) (b : Bool)
    (e : (flatMapShared fuel h outer shared).hasNext sc lg = (.ok b, sc1, lg1)) :
    (flatMapShared fuel h outer shared).next sc lg =
      if b then
        (match sc1.2 with
          | some v => ((IM.onFst (IM.onSnd shared.next) : IM ((σ × σ₂) × Option φ) α) >>= fun x =>
              IM.liftG (h v x)) sc1 lg1
          | none => (.error "Option.empty", sc1, lg1))
      else (.error nextOnEmpty, sc1, lg1) := by
  unfold flatMapShared at e ⊢
  simp only [] at e ⊢
  rw [bind_ok e]
  obtain ⟨s1, c1⟩ := sc1
  cases b
  · simp
  · cases c1 <;> simp [bind_apply]

/-- 1. `flatMapShared` maps simulations of `outer` and `shared` to a simulation. -/
theorem flatMapShared_sim {h : φ → α → GoM β} {g : φ → α → β} (hh : Total2 h g) (fuel : Nat)
    {outer : Machine σ φ} {Ro : σ → List φ → List φ → Prop} (hO : Sim outer Ro)
    {shared : Machine σ₂ α} {Rs : σ₂ → List α → List α → Prop} (hSh : Sim shared Rs) :
    Sim (flatMapShared fuel h outer shared) (SharedRel fuel g Ro Rs) := by
  constructor
  · rintro ⟨⟨so, ss⟩, cur⟩ d' r' lg hrel
    obtain ⟨so', ss', cur', lg', h1, dO, rO, dS, rS, hRo, hRs, hf, hout, _, _⟩ :=
      flatMapShared_hasNext (h := h) fuel hO hSh so ss cur d' r' lg hrel
    exact ⟨((so', ss'), cur'), lg', h1, dO, rO, dS, rS, hRo, hRs, hf, hout⟩
  · rintro ⟨⟨so, ss⟩, cur⟩ d' b r' lg hrel
    obtain ⟨so', ss', cur', lg', h1, dO, rO, dS, rS, hRo, hRs, hf, hout, hsome, _⟩ :=
      flatMapShared_hasNext (h := h) fuel hO hSh so ss cur d' (b :: r') lg hrel
    obtain ⟨v, rfl⟩ := hsome (by simp)
    simp only [sharedOut] at hout
    cases rS with
    | nil => simp at hout
    | cons x xs =>
      simp only [List.map_cons, List.cons.injEq] at hout
      obtain ⟨rfl, rfl⟩ := hout
      obtain ⟨ss2, lg2, h2, hRs2⟩ := hSh.next_cons ss' dS x xs lg' hRs
      obtain ⟨lg3, h3⟩ := liftG_total2 hh v x ((so', ss2), some v) lg2
      refine ⟨((so', ss2), some v), lg3, ?_, dO, rO, dS ++ [x], xs, hRo, hRs2, hf, rfl⟩
      rw [flatMapShared_next_eq fuel h outer shared _ _ _ _ _ h1]
      simp [bind_apply, onFst_eq (some v) (onSnd_eq so' h2), h3]
  · rintro ⟨⟨so, ss⟩, cur⟩ d' lg hrel
    obtain ⟨so', ss', cur', lg', h1, dO, rO, dS, rS, hRo, hRs, hf, hout, _, _⟩ :=
      flatMapShared_hasNext (h := h) fuel hO hSh so ss cur d' [] lg hrel
    refine ⟨nextOnEmpty, ((so', ss'), cur'), lg', ?_, dO, rO, dS, rS, hRo, hRs, hf, hout⟩
    rw [flatMapShared_next_eq fuel h outer shared _ _ _ _ _ h1]; simp

/-- 2. -/
theorem flatMapShared_represents {h : φ → α → GoM β} {g : φ → α → β} {outer : Machine σ φ}
    {shared : Machine σ₂ α} {so : σ} {ss : σ₂} {lo : List φ} {ls : List α} {fuel : Nat} :
    Represents outer so [] lo → Represents shared ss [] ls → lo.length < fuel → Total2 h g →
    Represents (flatMapShared fuel h outer shared) ((so, ss), none) []
      (match lo with | [] => [] | v :: _ => ls.map (g v)) := fun hO hSh hfuel hh =>
  ⟨_, flatMapShared_sim hh fuel (Represents.sim outer) (Represents.sim shared),
    [], lo, [], ls, hO, hSh, hfuel, rfl, rfl⟩

/-- 3. Running the result to the end drains `outer` completely (all of `lo` has been pulled from
    it by the `hasNext` that follows the last delivered element), and — unless `outer` was empty —
    `shared` too. -/
theorem flatMapShared_drains {h : φ → α → GoM β} {g : φ → α → β} {outer : Machine σ φ}
    {shared : Machine σ₂ α} {so : σ} {ss : σ₂} {lo : List φ} {ls : List α} {fuel : Nat} :
    Represents outer so [] lo → Represents shared ss [] ls → lo.length < fuel → Total2 h g →
    ∀ (lg : Log) (fuel2 : Nat),
    (match lo with | [] => [] | v :: _ => ls.map (g v)).length < fuel2 →
    ∃ s' lg', toSeq (flatMapShared fuel h outer shared) fuel2 [] ((so, ss), none) lg =
        (.ok (match lo with | [] => [] | v :: _ => ls.map (g v)), s', lg') ∧
      Represents outer s'.1.1 lo [] ∧ (lo ≠ [] → Represents shared s'.1.2 ls []) := by
  intro hO hSh hfuel hh lg fuel2 hfuel2
  have hO' := sim_total (Represents.sim outer) lo
  have hSh' := sim_total (Represents.sim shared) ls
  have hS := flatMapShared_sim hh fuel hO' hSh'
  have hP : ∀ (s : (σ × σ₂) × Option φ) (d : List β) (lg : Log),
      SharedRel fuel g (fun s d r => Represents outer s d r ∧ d ++ r = lo)
        (fun s d r => Represents shared s d r ∧ d ++ r = ls) s d [] →
      ∃ s' lg', (flatMapShared fuel h outer shared).hasNext s lg = (.ok false, s', lg') ∧
        SharedRel fuel g (fun s d r => Represents outer s d r ∧ d ++ r = lo)
          (fun s d r => Represents shared s d r ∧ d ++ r = ls) s' d [] ∧
        (Represents outer s'.1.1 lo [] ∧ (lo ≠ [] → Represents shared s'.1.2 ls [])) := by
    rintro ⟨⟨so, ss⟩, cur⟩ d lg hrel
    obtain ⟨so', ss', cur', lg', h1, dO, rO, dS, rS, hRo, hRs, hf, hout, _, hnil⟩ :=
      flatMapShared_hasNext (h := h) fuel hO' hSh' so ss cur d [] lg hrel
    obtain ⟨rfl, hrS⟩ := hnil rfl
    refine ⟨((so', ss'), cur'), lg', by simpa using h1, ⟨dO, [], dS, rS, hRo, hRs, hf, hout⟩, ?_, ?_⟩
    · obtain ⟨hr, hl⟩ := hRo
      simp only [List.append_nil] at hl
      subst hl; exact hr
    · intro hne
      obtain ⟨hr, hl⟩ := hRo
      simp only [List.append_nil] at hl
      subst hl
      obtain rfl := hrS hne
      obtain ⟨hr2, hl2⟩ := hRs
      simp only [List.append_nil] at hl2
      subst hl2; exact hr2
  obtain ⟨s', lg', e, _, hPs⟩ := toSeq_spec_post hS hP _ fuel2 ((so, ss), none) [] [] lg hfuel2
    ⟨[], lo, [], ls, ⟨hO, by simp⟩, ⟨hSh, by simp⟩, hfuel, rfl, rfl⟩
  exact ⟨s', lg', by simpa using e, hPs⟩

/-! ## restated one-liners (from the `*_sim` lemmas) -/

theorem ofSeq_represents (tag : Option (α → Event)) (xs : List α) :
    Represents (ofSeq tag xs) 0 [] xs :=
  ⟨_, ofSeq_sim tag xs, by simp [ofSeqRel]⟩

theorem map_represents {f : α → GoM β} {g : α → β} (hf : Total f g) {m : Machine σ α} {s : σ}
    {l : List α} (h : Represents m s [] l) : Represents (It.map f m) s [] (l.map g) :=
  ⟨_, map_sim hf (Represents.sim m), [], l, h, rfl, rfl⟩

theorem flatMap_represents {mf : α → GoM τ} {gf : α → τ} (hmf : Total mf gf) {inner : Machine τ β}
    {hl : α → List β} (hinner : ∀ a, Represents inner (gf a) [] (hl a))
    {m : Machine σ α} {s : σ} {l : List α} (h : Represents m s [] l) {fuel : Nat}
    (hfuel : l.length < fuel) :
    Represents (It.flatMap fuel mf inner m) (s, none) [] (l.flatMap hl) :=
  ⟨_, flatMap_sim hmf (Represents.sim inner) hinner fuel (Represents.sim m), [], l, h, hfuel, [], rfl,
    by simp⟩

/-! ## 4. corollaries: `Ap`, `Map2`, `Flap`, `Flap2`, `FlapMap`, `Method1`, `Method2` -/

/-- `iterator.Ap(t, a)`: only the FIRST function of `t` is applied (to all of `a`). -/
theorem itAp_represents {app : φ → α → GoM β} {g : φ → α → β} {t : Machine σ φ} {a : Machine σ₂ α}
    {st : σ} {sa : σ₂} {lt : List φ} {la : List α} {fuel : Nat} :
    Represents t st [] lt → Represents a sa [] la → lt.length < fuel → Total2 app g →
    Represents (itAp fuel app t a) ((st, sa), none) []
      (match lt with | [] => [] | f :: _ => la.map (g f)) :=
  flatMapShared_represents

/-- `iterator.Map2(a, b, f)`: only the FIRST element of `a` is combined (with all of `b`). -/
theorem itMap2_represents {f : α → β → GoM γ} {g : α → β → γ} {a : Machine σ α} {b : Machine σ₂ β}
    {sa : σ} {sb : σ₂} {la : List α} {lb : List β} {fuel : Nat} :
    Represents a sa [] la → Represents b sb [] lb → la.length < fuel → Total2 f g →
    Represents (itMap2 fuel a b f) ((sa, sb), none) []
      (match la with | [] => [] | v :: _ => lb.map (g v)) :=
  flatMapShared_represents

theorem itFlap_represents {app : φ → α → GoM β} {g : φ → α → β} {tfa : Machine σ φ} {st : σ}
    {lt : List φ} {fuel : Nat} (a : α) :
    Represents tfa st [] lt → lt.length < fuel → Total2 app g →
    Represents (itFlap fuel app tfa a) ((st, 0), none) []
      (match lt with | [] => [] | f :: _ => [g f a]) := by
  intro ht hfuel hh
  have := flatMapShared_represents (h := app) ht (ofSeq_represents none [a]) hfuel hh
  cases lt <;> simpa [itFlap, itAp] using this

theorem itFlap2_represents {app1 : φ₂ → α → GoM φ} {g1 : φ₂ → α → φ} {app2 : φ → β → GoM γ}
    {g2 : φ → β → γ} {tfab : Machine σ φ₂} {st : σ} {lt : List φ₂} {fuel : Nat} (a : α) (b : β) :
    Represents tfab st [] lt → lt.length < fuel → Total2 app1 g1 → Total2 app2 g2 →
    Represents (itFlap2 fuel app1 app2 tfab a b) ((((st, 0), none), 0), none) []
      (match lt with | [] => [] | f :: _ => [g2 (g1 f a) b]) := by
  intro ht hfuel hh1 hh2
  have h1 := itFlap_represents (app := app1) a ht hfuel hh1
  have hlen : (match lt with | [] => [] | f :: _ => [g1 f a]).length < fuel := by
    cases lt with
    | nil => simpa using hfuel
    | cons f r => simp at hfuel ⊢; omega
  have h2 := itFlap_represents (app := app2) b h1 hlen hh2
  cases lt <;> simpa [itFlap2, itFlap] using h2

theorem itFlapMap_represents {cur : α → φ} {app : φ → β → GoM γ} {g : φ → β → γ} {a : Machine σ α}
    {sa : σ} {la : List α} {fuel : Nat} (b : β) :
    Represents a sa [] la → la.length < fuel → Total2 app g →
    Represents (itFlapMap fuel cur app a b) ((sa, 0), none) []
      (match la with | [] => [] | x :: _ => [g (cur x) b]) := by
  intro ha hfuel hh
  have h1 := map_represents (total_pure cur) ha
  have h2 := itFlap_represents (app := app) b h1 (by simpa using hfuel) hh
  cases la <;> simpa [itFlapMap] using h2

theorem itMethod1_represents {cur : α → φ} {app : φ → β → GoM γ} {g : φ → β → γ} {ta : Machine σ α}
    {sa : σ} {la : List α} {fuel : Nat} (b : β) :
    Represents ta sa [] la → la.length < fuel → Total2 app g →
    Represents (itMethod1 fuel ta cur app b) ((sa, 0), none) []
      (match la with | [] => [] | x :: _ => [g (cur x) b]) :=
  itFlapMap_represents b

theorem itMethod2_represents {cur3 : α → φ₂} {app1 : φ₂ → β → GoM φ} {g1 : φ₂ → β → φ}
    {app2 : φ → γ → GoM δ} {g2 : φ → γ → δ} {ta : Machine σ α} {sa : σ} {la : List α} {fuel : Nat}
    (b : β) (c : γ) :
    Represents ta sa [] la → la.length < fuel → Total2 app1 g1 → Total2 app2 g2 →
    Represents (itMethod2 fuel ta cur3 app1 app2 b c) ((((sa, 0), none), 0), none) []
      (match la with | [] => [] | x :: _ => [g2 (g1 (cur3 x) b) c]) := by
  intro ha hfuel hh1 hh2
  have h1 := map_represents (total_pure cur3) ha
  have h2 := itFlap2_represents (app1 := app1) (app2 := app2) b c h1 (by simpa using hfuel) hh1 hh2
  cases la <;> simpa [itMethod2] using h2

/-! ## 5. `Lift`, `Of` (`srcS`), `Flatten`, `Compose`, `ComposePure` -/

theorem itLift_represents {f : α → GoM β} {g : α → β} (hf : Total f g) {m : Machine σ α} {s : σ}
    {l : List α} (h : Represents m s [] l) : Represents (itLift f m) s [] (l.map g) :=
  map_represents hf h

/-- relation of `srcS`: `idx` elements of `xs` delivered. -/
def srcRel (s : SrcSt α) (d r : List α) : Prop :=
  s.idx ≤ s.xs.length ∧ d = s.xs.take s.idx ∧ r = s.xs.drop s.idx

theorem srcS_sim (ev : Nat → α → Event) : Sim (srcS ev) (srcRel (α := α)) where
  hasNext := by
    rintro ⟨tag, xs, idx⟩ d r lg ⟨hle, rfl, rfl⟩
    refine ⟨⟨tag, xs, idx⟩, lg, ?_, hle, rfl, rfl⟩
    simp only [srcS, bind_apply, get_apply, pure_apply]
    congr 2
    simp only at hle
    by_cases h : idx < xs.length <;> simp [h]
    · omega
  next_cons := by
    rintro ⟨tag, xs, idx⟩ d a r lg ⟨hle, rfl, hr⟩
    simp only at hle hr
    have hlt : idx < xs.length := by
      rcases Nat.lt_or_ge idx xs.length with h | h
      · exact h
      · rw [List.drop_eq_nil_of_le h] at hr; cases hr
    have hget : xs[idx]? = some a := by
      rw [List.getElem?_eq_getElem hlt]
      have := List.drop_eq_getElem_cons hlt
      rw [this] at hr; cases hr; rfl
    have hd : List.drop (idx + 1) xs = r := by
      have := List.drop_eq_getElem_cons hlt
      rw [this] at hr; cases hr; rfl
    have ht : List.take (idx + 1) xs = List.take idx xs ++ [a] := by
      rw [List.take_add_one, hget]; rfl
    cases tag with
    | none =>
      refine ⟨⟨none, xs, idx + 1⟩, lg, ?_, by simp only; omega, ht.symm, hd.symm⟩
      simp [srcS, bind_apply, hget]
    | some t =>
      refine ⟨⟨some t, xs, idx + 1⟩, lg ++ [ev t a], ?_, by simp only; omega, ht.symm, hd.symm⟩
      simp [srcS, bind_apply, hget, IM.liftG, emit]
      rfl
  next_nil := by
    rintro ⟨tag, xs, idx⟩ d lg ⟨hle, rfl, hr⟩
    simp only at hle hr
    have hge : xs.length ≤ idx := by
      rcases Nat.lt_or_ge idx xs.length with h | h
      · rw [List.drop_eq_getElem_cons h] at hr; cases hr
      · exact h
    refine ⟨nextOnEmpty, ⟨tag, xs, idx⟩, lg, ?_, hle, rfl, hr⟩
    simp [srcS, bind_apply, List.getElem?_eq_none hge]

/-- `iterator.Of(xs...)` (instrumented or not) yields `xs`. -/
theorem srcS_represents (ev : Nat → α → Event) (t : Option Nat) (xs : List α) :
    Represents (srcS ev) { tag := t, xs := xs, idx := 0 } [] xs :=
  ⟨_, srcS_sim ev, by simp [srcRel]⟩

/-- `iterator.Flatten`: the elements of `opt` are iterators (states of `inner`). -/
theorem itFlatten_represents {inner : Machine τ β} {hl : τ → List β}
    (hinner : ∀ t, Represents inner t [] (hl t)) {opt : Machine σ τ} {s : σ} {l : List τ}
    (h : Represents opt s [] l) {fuel : Nat} (hfuel : l.length < fuel) :
    Represents (itFlatten fuel inner opt) (s, none) [] (l.flatMap hl) :=
  flatMap_represents (total_pure (fun t => t)) hinner h hfuel

/-- `iterator.Compose(f1, f2)(a)`, after `f1(a)` has produced the iterator `s1`. -/
theorem itCompose_represents {f2 : β → GoM τ₂} {gf2 : β → τ₂} (hf2 : Total f2 gf2)
    {inner2 : Machine τ₂ γ} {hl2 : β → List γ} (hinner2 : ∀ b, Represents inner2 (gf2 b) [] (hl2 b))
    {inner1 : Machine τ β} {s1 : τ} {l1 : List β} (h1 : Represents inner1 s1 [] l1) {fuel : Nat}
    (hfuel : l1.length < fuel) :
    Represents (itCompose fuel inner1 f2 inner2) (s1, none) [] (l1.flatMap hl2) :=
  flatMap_represents hf2 hinner2 h1 hfuel

/-- the construction step of `Compose`: calls `f1 a` once, nothing else. -/
theorem itComposeInit_total {f1 : α → GoM τ} {gf1 : α → τ} (hf1 : Total f1 gf1) :
    Total (itComposeInit (τ₂ := τ₂) f1) (fun a => (gf1 a, none)) :=
  total_bind_pure hf1 (fun s => (s, none))

/-- `iterator.ComposePure(fab)(a) = Of(fab(a))`: the construction calls `fab a` once … -/
theorem itComposePureInit_total {fab : α → GoM β} {g : α → β} (hf : Total fab g) :
    Total (itComposePureInit fab) (fun a => { tag := none, xs := [g a], idx := 0 }) :=
  total_bind_pure hf (fun b => ({ tag := none, xs := [b], idx := 0 } : SrcSt β))

/-- … and the iterator yields exactly that value. -/
theorem itComposePure_represents (ev : Nat → β → Event) (b : β) :
    Represents (srcS ev) { tag := none, xs := [b], idx := 0 } [] [b] :=
  srcS_represents ev none [b]

/-! ## 6. monad laws of `It.flatMap` with unit `Of` -/

theorem flatMap_singleton_eq (l : List α) : l.flatMap (fun x => [x]) = l := by
  induction l with
  | nil => rfl
  | cons a l ih => simp [List.flatMap_cons, ih]

theorem flatMap_singleton_map (g : α → β) (l : List α) : l.flatMap (fun x => [g x]) = l.map g := by
  induction l with
  | nil => rfl
  | cons a l ih => simp [List.flatMap_cons, ih]

theorem flatMap_flatMap_eq (l : List α) (hf : α → List β) (hg : β → List γ) :
    (l.flatMap hf).flatMap hg = l.flatMap (fun a => (hf a).flatMap hg) := by
  induction l with
  | nil => rfl
  | cons a l ih => simp [List.flatMap_cons, List.flatMap_append, ih]

/-- `FlatMap(Of(a), f)` yields what `f a` yields. -/
theorem it_left_identity {mf : α → GoM τ} {gf : α → τ} (hmf : Total mf gf) {inner : Machine τ β}
    {hl : α → List β} (hinner : ∀ a, Represents inner (gf a) [] (hl a)) (a : α) {fuel : Nat}
    (hfuel : 1 < fuel) :
    Represents (It.flatMap fuel mf inner (ofSeq none [a])) (0, none) [] (hl a) := by
  have := flatMap_represents hmf hinner (ofSeq_represents none [a]) (fuel := fuel) (by simpa using hfuel)
  simpa using this

/-- the same with `Of(a)` as a `srcS` iterator. -/
theorem it_left_identity_src {mf : α → GoM τ} {gf : α → τ} (hmf : Total mf gf) {inner : Machine τ β}
    {hl : α → List β} (hinner : ∀ a, Represents inner (gf a) [] (hl a)) (ev : Nat → α → Event) (a : α)
    {fuel : Nat} (hfuel : 1 < fuel) :
    Represents (It.flatMap fuel mf inner (srcS ev)) ({ tag := none, xs := [a], idx := 0 }, none) []
      (hl a) := by
  have := flatMap_represents hmf hinner (srcS_represents ev none [a]) (fuel := fuel) (by simpa using hfuel)
  simpa using this

/-- `FlatMap(m, Of)` yields what `m` yields. -/
theorem it_right_identity (ev : Nat → α → Event) {m : Machine σ α} {s : σ} {l : List α} {fuel : Nat} :
    Represents m s [] l → l.length < fuel →
    Represents (It.flatMap fuel (fun x => pure { tag := none, xs := [x], idx := 0 }) (srcS ev) m)
      (s, none) [] l := by
  intro h hfuel
  have := flatMap_represents (total_pure (fun x : α => ({ tag := none, xs := [x], idx := 0 } : SrcSt α)))
    (hl := fun x => [x]) (fun a => srcS_represents ev none [a]) h hfuel
  rwa [flatMap_singleton_eq] at this

/-- `FlatMap(FlatMap(m, f), g)` and `FlatMap(m, x => FlatMap(f(x), g))` yield the same list. -/
theorem it_assoc {f : α → GoM τ} {gf : α → τ} (hf : Total f gf) {g : β → GoM τ₂} {gg : β → τ₂}
    (hg : Total g gg) {innerF : Machine τ β} {hlf : α → List β}
    (hinnerF : ∀ a, Represents innerF (gf a) [] (hlf a)) {innerG : Machine τ₂ γ} {hlg : β → List γ}
    (hinnerG : ∀ b, Represents innerG (gg b) [] (hlg b)) {m : Machine σ α} {s : σ} {l : List α}
    (h : Represents m s [] l) {fuel : Nat} (hfuel : l.length < fuel)
    (hfuelF : ∀ a, (hlf a).length < fuel) (hfuelFl : (l.flatMap hlf).length < fuel) :
    Represents (It.flatMap fuel g innerG (It.flatMap fuel f innerF m)) ((s, none), none) []
        ((l.flatMap hlf).flatMap hlg) ∧
      Represents (It.flatMap fuel (fun x => do let t ← f x; pure (t, none))
          (It.flatMap fuel g innerG innerF) m) (s, none) [] ((l.flatMap hlf).flatMap hlg) := by
  constructor
  · exact flatMap_represents hg hinnerG (flatMap_represents hf hinnerF h hfuel) hfuelFl
  · have hmf : Total (fun x => do let t ← f x; pure (t, (none : Option τ₂))) (fun a => (gf a, none)) :=
      total_bind_pure hf (fun t => (t, none))
    have := flatMap_represents hmf (hl := fun a => (hlf a).flatMap hlg)
      (fun a => flatMap_represents hg hinnerG (hinnerF a) (hfuelF a)) h hfuel
    rwa [← flatMap_flatMap_eq] at this

/-- `Map(m, f) = FlatMap(m, x => Of(f(x)))`. -/
theorem it_map_eq_flatMap_unit {f : α → GoM β} {g : α → β} (hf : Total f g) (ev : Nat → β → Event)
    {m : Machine σ α} {s : σ} {l : List α} (h : Represents m s [] l) {fuel : Nat}
    (hfuel : l.length < fuel) :
    Represents (It.map f m) s [] (l.map g) ∧
      Represents (It.flatMap fuel (fun x => do let y ← f x; pure { tag := none, xs := [y], idx := 0 })
          (srcS ev) m) (s, none) [] (l.map g) := by
  refine ⟨map_represents hf h, ?_⟩
  have hmf := total_bind_pure hf (fun y => ({ tag := none, xs := [y], idx := 0 } : SrcSt β))
  have := flatMap_represents hmf (hl := fun a => [g a]) (fun a => srcS_represents ev none [g a]) h hfuel
  rwa [flatMap_singleton_map] at this

/-! ## 7. the hypotheses are satisfiable -/

example : Represents (ofSeq none [1, 2, 3]) 0 [] [1, 2, 3] := ofSeq_represents none [1, 2, 3]

example : Total2 (fun (a b : Nat) => (do emit s!"add {a} {b}"; pure (a + b) : GoM Nat))
    (fun a b => a + b) := by
  intro a b lg; exact ⟨lg ++ [s!"add {a} {b}"], rfl⟩

/-- `Map2([1,2,3], [10,20], +)` yields `[11, 21]`: only the first element of `a` is used. -/
example : Represents
    (itMap2 4 (ofSeq none [1, 2, 3]) (ofSeq none [10, 20])
      (fun a b => (do emit s!"add {a} {b}"; pure (a + b) : GoM Nat)))
    ((0, 0), none) [] [11, 21] :=
  itMap2_represents (g := fun a b => a + b) (ofSeq_represents none [1, 2, 3])
    (ofSeq_represents none [10, 20]) (by decide)
    (by intro a b lg; exact ⟨lg ++ [s!"add {a} {b}"], rfl⟩)

/-- … and running it to the end has pulled all of `[1,2,3]` and all of `[10,20]`. -/
example (lg : Log) : ∃ s' lg', toSeq
    (flatMapShared 4 (fun a b => (do emit s!"add {a} {b}"; pure (a + b) : GoM Nat))
      (ofSeq none [1, 2, 3]) (ofSeq none [10, 20])) 3 [] ((0, 0), none) lg = (.ok [11, 21], s', lg') ∧
    Represents (ofSeq none [1, 2, 3]) s'.1.1 [1, 2, 3] [] ∧
    Represents (ofSeq none [10, 20]) s'.1.2 [10, 20] [] := by
  obtain ⟨s', lg', e, h1, h2⟩ := flatMapShared_drains (g := fun a b => a + b)
    (ofSeq_represents none [1, 2, 3]) (ofSeq_represents none [10, 20]) (by decide : [1, 2, 3].length < 4)
    (by intro a b lg; exact ⟨lg ++ [s!"add {a} {b}"], rfl⟩) lg 3 (by decide)
  exact ⟨s', lg', e, h1, h2 (by simp)⟩

/-- the monad-law hypotheses: a Kleisli function into `srcS` iterators. -/
example (ev : Nat → Nat → Event) : ∀ a : Nat,
    Represents (srcS ev) ((fun a => ({ tag := none, xs := [a, a + 1], idx := 0 } : SrcSt Nat)) a) []
      ((fun a => [a, a + 1]) a) :=
  fun a => srcS_represents ev none [a, a + 1]

end FpVerif.Coll
