import FpVerif.Model.Record
/-!
# `AsMap` / `FromMap` and the method table: helper lemmas for C07.  Core Lean only.
-/
namespace FpVerif.Rec

/-! ## Go maps as association lists -/

theorem GoMap.get_put_same (m : GoMap) (k : String) (d : Dyn) : (m.put k d).get k = d := by
  unfold GoMap.put GoMap.get
  have h : (m.filter (·.1 != k)).find? (·.1 == k) = none := by
    rw [List.find?_eq_none]
    intro p hp
    have := (List.mem_filter.mp hp).2
    simpa using this
  simp [List.find?_append, h]

theorem GoMap.get_put_other (m : GoMap) (k k' : String) (d : Dyn) (h : k' ≠ k) :
    (m.put k d).get k' = m.get k' := by
  unfold GoMap.put GoMap.get
  have h1 : (m.filter (·.1 != k)).find? (·.1 == k') = m.find? (·.1 == k') := by
    induction m with
    | nil => rfl
    | cons p m ih =>
      by_cases hp : p.1 = k
      · have h3 : (p.1 == k') = false := by simp [hp, Ne.symm h]
        have h4 : (p.1 != k) = false := by simp [hp]
        rw [List.filter_cons, List.find?_cons]
        simp only [h4, h3]
        exact ih
      · have h4 : (p.1 != k) = true := by simp [hp]
        rw [List.filter_cons]
        simp only [h4, if_true]
        rw [List.find?_cons, List.find?_cons]
        cases hk : (p.1 == k') <;> simp [ih]
  have h2 : (k == k') = false := by simp [Ne.symm h]
  cases hm : m.find? (·.1 == k') <;> simp [List.find?_append, h1, hm, h2]

/-- the entry `AsMap` writes for one field (`none`: it writes nothing) -/
def mapEntry (f : Field) (v : RV) : Option Dyn :=
  if f.applicable then
    match f.ty, v with
    | .opt e, .some w => some (toAny e w)
    | .opt _, _ => none
    | t, v => some (toAny t v)
  else none

theorem asMapAux_cons (f : Field) (fs : List Field) (v : RV) (vs : Rec) (m : GoMap) :
    asMapAux (f :: fs) (v :: vs) m =
      asMapAux fs vs (match mapEntry f v with | some d => m.put f.name d | none => m) := by
  unfold mapEntry
  cases hf : f.applicable
  · simp [asMapAux, hf]
  · cases hty : f.ty with
    | conc n => simp [asMapAux, hf, hty]
    | iface n a i => simp [asMapAux, hf, hty]
    | opt e => cases v <;> simp [asMapAux, hf, hty]

/-- a key that no remaining applicable field owns is not touched -/
theorem asMapAux_get_other (fs : List Field) (x : Rec) (m : GoMap) (k : String)
    (h : ∀ f ∈ fs, f.applicable = true → f.name ≠ k) : (asMapAux fs x m).get k = m.get k := by
  induction fs generalizing x m with
  | nil => cases x <;> simp [asMapAux]
  | cons f fs ih =>
    cases x with
    | nil => simp [asMapAux]
    | cons v vs =>
      rw [asMapAux_cons, ih vs _ (fun g hg => h g (by simp [hg]))]
      cases he : mapEntry f v with
      | none => rfl
      | some d =>
        have hf : f.applicable = true := by
          unfold mapEntry at he
          cases hf : f.applicable <;> simp_all
        simp only
        exact GoMap.get_put_other m f.name k d (Ne.symm (h f (by simp) hf))

/-- `FromMap` of one field when the map holds `entry` under the field's name -/
def fromEntry (f : Field) (bv : RV) (entry : Dyn) : RV :=
  match assertTy f.ty entry with
  | some v => v
  | none =>
    match f.ty with
    | .opt e =>
      match assertTy e entry with
      | some v => .some v
      | none => bv
    | _ => bv

theorem fromMapField_eq (f : Field) (bv : RV) (m : GoMap) :
    fromMapField f bv m = fromEntry f bv (m.get f.name) := by
  unfold fromMapField fromEntry
  rfl

/-- what `FromMap(AsMap(x))` leaves in each field, structurally -/
def mapBack : List Field → Rec → Rec → Rec
  | f :: fs, v :: vs, w :: ws =>
    (if f.applicable then fromEntry f w ((mapEntry f v).getD none) else w) :: mapBack fs vs ws
  | _, _, ws => ws

def appNames (fs : List Field) : List String := (fs.filter Field.applicable).map Field.name

theorem fromMap_asMapAux (fs : List Field) (x b : Rec) (m : GoMap)
    (hx : x.length = fs.length) (hb : b.length = fs.length)
    (hnd : (appNames fs).Nodup)
    (hm : ∀ f ∈ fs, f.applicable = true → m.get f.name = none) :
    ∀ (_pre : List Field) (M : GoMap), M = asMapAux fs x m →
      fromMap fs b M = mapBack fs x b := by
  induction fs generalizing x b m with
  | nil => intro _ M _; cases b <;> simp [fromMap, mapBack]
  | cons f fs ih =>
    intro _pre M hM
    cases x with
    | nil => simp at hx
    | cons v vs =>
      cases b with
      | nil => simp at hb
      | cons w ws =>
        rw [asMapAux_cons] at hM
        have hnd' : (appNames fs).Nodup := by
          unfold appNames at hnd ⊢
          cases hf : f.applicable <;> simp [List.filter, hf] at hnd ⊢
          · exact hnd
          · exact hnd.2
        have hfresh : f.applicable = true → ∀ g ∈ fs, g.applicable = true → g.name ≠ f.name := by
          intro hf g hg hga hne
          unfold appNames at hnd
          simp [List.filter, hf] at hnd
          exact hnd.1 g hg hga hne
        -- the tail
        have htail : fromMap fs ws M = mapBack fs vs ws := by
          refine ih vs ws _ (by simpa using hx) (by simpa using hb) hnd' ?_ _pre M hM
          intro g hg hga
          cases he : mapEntry f v with
          | none => simpa using hm g (by simp [hg]) hga
          | some d =>
            have hf : f.applicable = true := by
              unfold mapEntry at he
              cases hf : f.applicable <;> simp_all
            simp only
            rw [GoMap.get_put_other _ _ _ _ (hfresh hf g hg hga)]
            exact hm g (by simp [hg]) hga
        -- the head
        cases hf : f.applicable
        · simp [fromMap, mapBack, hf, htail]
        · have hget : M.get f.name = (mapEntry f v).getD none := by
            rw [hM, asMapAux_get_other fs vs _ f.name (fun g hg hga => hfresh hf g hg hga)]
            cases he : mapEntry f v with
            | none => simpa using hm f (by simp) hf
            | some d => simp [GoMap.get_put_same]
          simp [fromMap, mapBack, hf, htail, fromMapField_eq, hget]

/-! ## per-field: when does the assertion give the value back -/

theorem assertTy_toAny_conc (n : String) (v : RV) : assertTy (.conc n) (toAny (.conc n) v) = some v := by
  simp [toAny, assertTy, Ty.name]

theorem assertTy_toAny_opt (e : Ty) (v : RV) : assertTy (.opt e) (toAny (.opt e) v) = some v := by
  simp [toAny, assertTy]

/-- a well-typed non-nil interface value survives `any` and the assertion back -/
theorem assertTy_toAny_iface (n : String) (all : Bool) (impls : List String) (d : String) (w : RV)
    (h : all = true ∨ d ∈ impls) :
    assertTy (.iface n all impls) (toAny (.iface n all impls) (.iface d w)) = some (.iface d w) := by
  cases h with
  | inl h => simp [toAny, assertTy, h]
  | inr h => simp [toAny, assertTy, List.contains_iff_mem.mpr h] <;> simp [h]

/-! ## the method table -/

theorem emitChecked_out (g : Gen) (n : String) (m : Meth) (h : g.has n = false) :
    (g.emitChecked [] n m).out = g.out ++ [(n, m)] := by
  simp [Gen.emitChecked, h]

theorem emitUserOnly_out (g : Gen) (n : String) (m : Meth) :
    (g.emitUserOnly [] n m).out = g.out ++ [(n, m)] := by
  simp [Gen.emitUserOnly]

/-- no user methods, no two attempts with the same name: every attempt is emitted, in order -/
theorem foldl_step_all (cs : List Cand) (g : Gen)
    (hnd : (cs.map Cand.name).Nodup) (hdis : ∀ c ∈ cs, g.has c.name = false) :
    (cs.foldl (Gen.step []) g).out = g.out ++ cs.map Cand.entry := by
  induction cs generalizing g with
  | nil => simp
  | cons c cs ih =>
    have hc : g.has c.name = false := hdis c (by simp)
    have hstep : (Gen.step [] g c).out = g.out ++ [c.entry] := by
      unfold Gen.step Cand.entry
      cases c.checked
      · simp [emitUserOnly_out]
      · simp [emitChecked_out _ _ _ hc]
    have hnd' : (∀ x ∈ cs, ¬x.name = c.name) ∧ (cs.map Cand.name).Nodup := by simpa using hnd
    simp only [List.foldl_cons]
    rw [ih (Gen.step [] g c)]
    · simp [hstep]
    · exact hnd'.2
    · intro c' hc'
      have hne : c'.name ≠ c.name := hnd'.1 c' hc'
      have hg := hdis c' (by simp [hc'])
      unfold Gen.has Table.names at hg ⊢
      rw [hstep]
      simp [Cand.entry] at hg ⊢
      constructor
      · intro a hx; exact hg a hx
      · exact fun h => hne h

/-- whatever is emitted was attempted -/
theorem foldl_step_subset (user : List String) (cs : List Cand) (g : Gen) :
    ∀ e ∈ (cs.foldl (Gen.step user) g).out, e ∈ g.out ∨ e ∈ cs.map Cand.entry := by
  induction cs generalizing g with
  | nil => intro e he; exact Or.inl he
  | cons c cs ih =>
    intro e he
    simp only [List.foldl_cons] at he
    cases ih (Gen.step user g c) e he with
    | inr h => exact Or.inr (by simp [h])
    | inl h =>
      have : e ∈ g.out ∨ e = c.entry := by
        unfold Gen.step Gen.emitChecked Gen.emitUserOnly at h
        unfold Cand.entry
        split at h <;> split at h <;> simp_all
      cases this with
      | inl h => exact Or.inl h
      | inr h => exact Or.inr (by simp [h])

end FpVerif.Rec
