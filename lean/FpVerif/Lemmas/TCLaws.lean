import FpVerif.Model.TypeClasses
/-!
# The laws the properties C09, C10, C11 speak about (definitions only).
-/
namespace FpVerif.TC

variable {α β : Type}

-- C11 ------------------------------------------------------------------------------------------

structure LawfulSemigroup (s : SemigroupD α) : Prop where
  assoc : ∀ a b c, s.combine (s.combine a b) c = s.combine a (s.combine b c)

structure LawfulMonoid (m : MonoidD α) : Prop where
  assoc : ∀ a b c, m.combine (m.combine a b) c = m.combine a (m.combine b c)
  left_id : ∀ a, m.combine m.empty a = a
  right_id : ∀ a, m.combine a m.empty = a

/-- The same laws up to an equivalence of representations (used for Go maps: two maps are the same
    value when they have the same entries, whatever their iteration order). -/
structure LawfulMonoidUpTo (R : α → α → Prop) (m : MonoidD α) : Prop where
  assoc : ∀ a b c, R (m.combine (m.combine a b) c) (m.combine a (m.combine b c))
  left_id : ∀ a, R (m.combine m.empty a) a
  right_id : ∀ a, R (m.combine a m.empty) a

/-- same content -/
def GoMap.Ext {κ ν : Type} [DecidableEq κ] (a b : GoMap κ ν) : Prop := ∀ k, a.get k = b.get k

-- C09 ------------------------------------------------------------------------------------------

structure LawfulEq (e : EqD α) : Prop where
  refl : ∀ a, e.eqv a a = true
  symm : ∀ a b, e.eqv a b = true → e.eqv b a = true
  trans : ∀ a b c, e.eqv a b = true → e.eqv b c = true → e.eqv a c = true

/-- an equivalence whose `Hash` respects it (`Hash` is a function, hence deterministic) -/
structure LawfulHash (h : HashD α) : Prop where
  eq : LawfulEq h.toEq
  hash_eqv : ∀ a b, h.eqv a b = true → h.hash a = h.hash b

-- C10 ------------------------------------------------------------------------------------------

/-- exactly one of three -/
def ExactlyOne (p q r : Prop) : Prop :=
  (p ∧ ¬q ∧ ¬r) ∨ (¬p ∧ q ∧ ¬r) ∨ (¬p ∧ ¬q ∧ r)

/-- A strict total order in the sense of C10, on the whole interface of `fp.Ord`. -/
structure StrictTotal (o : OrdD α) : Prop where
  /-- exactly one of `Less(a,b)`, `Less(b,a)`, `Eqv(a,b)` -/
  tri : ∀ a b, ExactlyOne (o.less a b = true) (o.less b a = true) (o.eqv a b = true)
  /-- `Less` is transitive -/
  trans : ∀ a b c, o.less a b = true → o.less b c = true → o.less a c = true
  /-- the instance's own `Eqv` is transitive (with `tri` it is an equivalence and `Less` respects it) -/
  eqv_trans : ∀ a b c, o.eqv a b = true → o.eqv b c = true → o.eqv a c = true
  /-- `Compare` is consistent with `Less` -/
  compare_neg : ∀ a b, o.compare a b < 0 ↔ o.less a b = true
  compare_zero : ∀ a b, o.compare a b = 0 ↔ o.eqv a b = true
  compare_pos : ∀ a b, 0 < o.compare a b ↔ o.less b a = true
  /-- `LessEq` is `Less` or `Eqv` -/
  lessEq_iff : ∀ a b, o.lessEq a b = true ↔ (o.less a b = true ∨ o.eqv a b = true)
  /-- `Min` returns one of its arguments, and one that is not greater than the other -/
  min_spec : ∀ a b, (o.min a b = a ∨ o.min a b = b) ∧ o.less a (o.min a b) = false ∧ o.less b (o.min a b) = false
  max_spec : ∀ a b, (o.max a b = a ∨ o.max a b = b) ∧ o.less (o.max a b) a = false ∧ o.less (o.max a b) b = false

end FpVerif.TC
