import FpVerif.Lemmas.IterTerm
/-!
# Unbounded sources (`iterator.Generate`): lazy combinators need only a prefix
-/
namespace FpVerif.It
open IM
variable {σ σ₂ τ γ γ₂ X Y α β α₁ α₂ : Type}

/-! ## unbounded sources: what is known is a prefix -/

/-- `P s r`: from `s` the machine will deliver at least the elements `r` (and may go on). -/
structure PreSim (m : Machine σ α) (P : σ → List α → Prop) : Prop where
  hasNext : ∀ s a r lg, P s (a :: r) → ∃ s' lg', m.hasNext s lg = (.ok true, s', lg') ∧ P s' (a :: r)
  next : ∀ s a r lg, P s (a :: r) → ∃ s' lg', m.next s lg = (.ok a, s', lg') ∧ P s' r

/-- `gf n, gf (n+1), …` (`k` elements) -/
def genList (gf : Nat → α) : Nat → Nat → List α
  | _, 0 => []
  | n, k + 1 => gf n :: genList gf (n + 1) k

theorem genList_length (gf : Nat → α) (n k : Nat) : (genList gf n k).length = k := by
  induction k generalizing n with
  | zero => rfl
  | succ k ih => simp [genList, ih]

theorem generate_presim {g : Nat → GoM α} {gf : Nat → α} (hg : Total g gf) :
    PreSim (generate g) (fun n r => ∃ k, r = genList gf n k) where
  hasNext := by
    rintro n a r lg h
    exact ⟨n, lg, rfl, h⟩
  next := by
    rintro n a r lg ⟨k, hk⟩
    cases k with
    | zero => simp [genList] at hk
    | succ k =>
      simp only [genList, List.cons.injEq] at hk
      obtain ⟨rfl, rfl⟩ := hk
      obtain ⟨lg', h'⟩ := liftG_total hg n n lg
      exact ⟨n + 1, lg', by simp [generate, bind_apply, h'], k, rfl⟩

/-- a finite source is in particular a source of which a prefix is known -/
theorem sim_presim {m : Machine σ α} {R : σ → List α → List α → Prop} (hS : Sim m R) :
    PreSim m (fun s r => ∃ d r2, R s d (r ++ r2)) where
  hasNext := by
    rintro s a r lg ⟨d, r2, h⟩
    obtain ⟨s', lg', e, h'⟩ := hS.hasNext s d _ lg h
    exact ⟨s', lg', by simpa using e, d, r2, h'⟩
  next := by
    rintro s a r lg ⟨d, r2, h⟩
    obtain ⟨s', lg', e, h'⟩ := hS.next_cons s d a (r ++ r2) lg h
    exact ⟨s', lg', e, _, r2, h'⟩

theorem map_presim {f : α → GoM β} {g : α → β} (hf : Total f g) {m : Machine σ α}
    {P : σ → List α → Prop} (hP : PreSim m P) :
    PreSim (map f m) (fun s r' => ∃ r, P s r ∧ r' = r.map g) where
  hasNext := by
    rintro s b r' lg ⟨r, h, hr⟩
    cases r with
    | nil => simp at hr
    | cons a r =>
      obtain ⟨s', lg', e, h'⟩ := hP.hasNext s a r lg h
      exact ⟨s', lg', by simpa [map] using e, a :: r, h', hr⟩
  next := by
    rintro s b r' lg ⟨r, h, hr⟩
    cases r with
    | nil => simp at hr
    | cons a r =>
      simp only [List.map_cons, List.cons.injEq] at hr
      obtain ⟨rfl, rfl⟩ := hr
      obtain ⟨s', lg', e, h'⟩ := hP.next s a r lg h
      obtain ⟨lg'', e2⟩ := liftG_total hf a s' lg'
      exact ⟨s', lg'', by simp [map, bind_ok e, e2], r, h', rfl⟩

/-- `Take(n)` over a source of which at least `n` elements are known is a finite iterator. -/
theorem take_of_presim (n : Int) {m : Machine σ α} {P : σ → List α → Prop} (hP : PreSim m P) :
    Sim (take n m) (fun sc _ r' => ∃ r, P sc.1 r ∧ r' = r.take (n.toNat - sc.2) ∧ n.toNat - sc.2 ≤ r.length) := by
  have hn : ∀ (s : σ) (i : Nat) (r : List α) (lg : Log), P s r → n.toNat - i ≤ r.length →
      ∃ s' lg', (take n m).hasNext (s, i) lg = (.ok (!(r.take (n.toNat - i)).isEmpty), (s', i), lg') ∧ P s' r := by
    intro s i r lg hR hle
    by_cases hlt : (i : Int) < n
    · have hpos : 0 < n.toNat - i := by omega
      cases r with
      | nil => simp at hle; omega
      | cons a r =>
        obtain ⟨s', lg', h, hR'⟩ := hP.hasNext s a r lg hR
        refine ⟨s', lg', ?_, hR'⟩
        rw [take_isEmpty _ _ hpos]
        simp only [take, bind_apply, onSnd_get, hlt, if_true, onFst_eq i h]
        rfl
    · refine ⟨s, lg, ?_, hR⟩
      have : n.toNat - i = 0 := by omega
      rw [this]
      simp [take, bind_apply, hlt]
  have hnext : ∀ (s s1 : σ) (i : Nat) (lg lg1 : Log) (b : Bool),
      (take n m).hasNext (s, i) lg = (.ok b, (s1, i), lg1) →
      (take n m).next (s, i) lg =
        if b then (IM.onFst m.next : IM (σ × Nat) α) (s1, i + 1) lg1 else (.error nextOnEmpty, (s1, i), lg1) := by
    intro s s1 i lg lg1 b h
    unfold take at h ⊢
    simp only [] at h ⊢
    rw [bind_ok h]
    cases b <;> simp [bind_apply]
  constructor
  · rintro ⟨s, i⟩ d' r' lg ⟨r, hR, rfl, hle⟩
    obtain ⟨s', lg', h, hR'⟩ := hn s i r lg hR hle
    exact ⟨(s', i), lg', h, r, hR', rfl, hle⟩
  · rintro ⟨s, i⟩ d' a r' lg ⟨r, hR, hr, hle⟩
    simp only at hR hr hle
    obtain ⟨s1, lg1, h1, hR1⟩ := hn s i r lg hR hle
    rw [← hr] at h1
    cases r with
    | nil => simp at hr
    | cons b r =>
      have hpos : 0 < n.toNat - i := by
        rcases Nat.eq_zero_or_pos (n.toNat - i) with h | h
        · rw [h] at hr; simp at hr
        · exact h
      obtain ⟨k, hk⟩ := Nat.exists_eq_succ_of_ne_zero (Nat.pos_iff_ne_zero.mp hpos)
      rw [hk] at hr
      simp only [List.take_succ_cons, List.cons.injEq] at hr
      obtain ⟨rfl, rfl⟩ := hr
      obtain ⟨s2, lg2, h2, hR2⟩ := hP.next s1 a r lg1 hR1
      have hk' : n.toNat - (i + 1) = k := by omega
      refine ⟨(s2, i + 1), lg2, ?_, r, hR2, by simp only [hk'], ?_⟩
      · rw [hnext _ _ _ _ _ _ h1]
        simp [onFst_eq (i+1) h2]
      · simp only [List.length_cons] at hle; omega
  · rintro ⟨s, i⟩ d' lg ⟨r, hR, hr, hle⟩
    simp only at hR hr hle
    obtain ⟨s1, lg1, h1, hR1⟩ := hn s i r lg hR hle
    rw [← hr] at h1
    refine ⟨nextOnEmpty, (s1, i), lg1, ?_, r, hR1, hr, hle⟩
    rw [hnext _ _ _ _ _ _ h1]
    simp

/-- `TakeWhile(p)` over a source whose known prefix contains an element failing `p` is a finite
    iterator. -/
def TakeWhilePre (g : α → Bool) (P : σ → List α → Prop) (sc : σ × TakeWhileSt α) (r' : List α) : Prop :=
  match sc.2.breaking, sc.2.fv with
  | false, none => ∃ r, P sc.1 r ∧ (∃ x ∈ r, g x = false) ∧ r' = r.takeWhile g
  | false, some v => ∃ r, P sc.1 r ∧ (∃ x ∈ r, g x = false) ∧ g v = true ∧ r' = v :: r.takeWhile g
  | true, none => r' = []
  | true, some _ => False

theorem takeWhile_of_presim {p : α → GoM Bool} {g : α → Bool} (hp : Total p g) {m : Machine σ α}
    {P : σ → List α → Prop} (hP : PreSim m P) :
    Sim (takeWhile p m) (fun sc _ r' => TakeWhilePre g P sc r') := by
  have hn : ∀ (s : σ) (c : TakeWhileSt α) (r' : List α) (lg : Log), TakeWhilePre g P (s, c) r' →
      ∃ s' c' lg', (takeWhile p m).hasNext (s, c) lg = (.ok (!r'.isEmpty), (s', c'), lg') ∧
        TakeWhilePre g P (s', c') r' ∧ (r' ≠ [] → c'.fv.isSome ∧ c'.breaking = false) := by
    intro s c r' lg h
    rcases c with ⟨_ | _, _ | v⟩
    · obtain ⟨r, hR, ⟨x, hx, hgx⟩, rfl⟩ := h
      cases r with
      | nil => simp at hx
      | cons a r =>
        obtain ⟨s1, lg1, h1, hR1⟩ := hP.hasNext s a r lg hR
        obtain ⟨s2, lg2, h2, hR2⟩ := hP.next s1 a r lg1 hR1
        obtain ⟨lg3, h3⟩ := liftG_total hp a (s2, ({} : TakeWhileSt α)) lg2
        cases hg : g a
        · refine ⟨s2, ⟨true, none⟩, lg3, ?_, by simp [TakeWhilePre, hg], by simp [hg]⟩
          simp [takeWhile, bind_apply, onFst_eq _ h1, onFst_eq _ h2, h3, hg]
        · have hx' : ∃ x ∈ r, g x = false := by
            rcases List.mem_cons.mp hx with rfl | hx
            · rw [hg] at hgx; cases hgx
            · exact ⟨x, hx, hgx⟩
          refine ⟨s2, ⟨false, some a⟩, lg3, ?_, ⟨r, hR2, hx', hg, by simp [hg]⟩, by simp [hg]⟩
          simp [takeWhile, bind_apply, onFst_eq _ h1, onFst_eq _ h2, h3, hg]
    · obtain ⟨r, hR, hx, hg, rfl⟩ := h
      exact ⟨s, ⟨false, some v⟩, lg, by simp [takeWhile, bind_apply], ⟨r, hR, hx, hg, rfl⟩, by simp⟩
    · simp only [TakeWhilePre] at h; subst h
      exact ⟨s, ⟨true, none⟩, lg, by simp [takeWhile, bind_apply], by simp [TakeWhilePre], by simp⟩
    · exact absurd h id
  constructor
  · rintro ⟨s, c⟩ d' r' lg h
    obtain ⟨s', c', lg', h1, hrel, _⟩ := hn s c r' lg h
    exact ⟨(s', c'), lg', h1, hrel⟩
  · rintro ⟨s, c⟩ d' a r' lg h
    obtain ⟨s', c', lg', h1, hrel, hfv⟩ := hn s c (a :: r') lg h
    obtain ⟨hfv, hbr⟩ := hfv (by simp)
    rcases c' with ⟨br, _ | v⟩
    · simp at hfv
    · simp only at hbr; subst hbr
      obtain ⟨r, hR, hx, hg, hr⟩ := hrel
      simp only [List.cons.injEq] at hr
      obtain ⟨rfl, rfl⟩ := hr
      refine ⟨(s', ⟨false, none⟩), lg', ?_, r, hR, hx, rfl⟩
      rw [takeWhile_next_eq p m _ _ _ _ _ h1]; simp
  · rintro ⟨s, c⟩ d' lg h
    obtain ⟨s', c', lg', h1, hrel, _⟩ := hn s c [] lg h
    refine ⟨nextOnEmpty, (s', c'), lg', ?_, hrel⟩
    rw [takeWhile_next_eq p m _ _ _ _ _ h1]; simp

theorem genList_mem_last (gf : Nat → α) (n k : Nat) : gf (n + k) ∈ genList gf n (k + 1) := by
  induction k generalizing n with
  | zero => simp [genList]
  | succ k ih =>
    rw [genList]
    refine List.mem_cons_of_mem _ ?_
    have := ih (n + 1)
    rwa [show n + 1 + k = n + (k + 1) by omega] at this

end FpVerif.It
