import FpVerif.Lemmas.HamtSet
set_option linter.unusedSimpArgs false
set_option linter.unusedVariables false
namespace FpVerif.Hamt
variable {K V : Type} {h : Hasher K}

/-- what `set` must achieve on a node -/
structure SetPost (h : Hasher K) (s : Nat) (n : Node K V) (k : K) (v : V) (r : Bool)
    (res : Node K V × Bool) : Prop where
  wf : WF h s res.1
  resized : res.2 = (r || (lookup h k n.toList).isNone)
  look : ∀ k', lookup h k' res.1.toList = if h.eqv k k' then some v else lookup h k' n.toList
  len : res.1.toList.length = n.toList.length + (if (lookup h k n.toList).isSome then 0 else 1)
  keys : ∀ e ∈ res.1.toList, (∃ e0 ∈ n.toList, e0.1 = e.1) ∨ e.1 = k
  notArray : ∀ es, res.1 ≠ .array es

theorem WF.not_array {s : Nat} {n : Node K V} (hs : 0 < s) (hwf : WF h s n) : ∀ es, n ≠ .array es := by
  intro es heq
  subst heq
  cases hwf with
  | array h0 => omega

theorem SetPost.of_insert_new (hl : LawfulHash h) {s : Nat} {n n' : Node K V} {k : K} {v : V} {r : Bool}
    (hwf : WF h s n') (hna : ∀ es, n' ≠ .array es) (hno : ∀ e ∈ n.toList, h.eqv e.1 k = false)
    (hl' : n'.toList = n.toList ++ [(k, v)] ∨ n'.toList = (k, v) :: n.toList) :
    SetPost h s n k v r (n', true) := by
  have hnone : lookup h k n.toList = none := lookup_eq_none hno
  refine ⟨hwf, by simp [hnone], ?_, ?_, ?_, hna⟩
  · intro k'; exact lookup_insert_new hl hno hl' k'
  · rw [hnone]; rcases hl' with h1 | h1 <;> simp [h1]
  · intro e he
    simp only at he
    rcases hl' with h1 | h1 <;> rw [h1] at he <;> simp at he
    · rcases he with he | rfl
      · exact Or.inl ⟨e, he, rfl⟩
      · exact Or.inr rfl
    · rcases he with rfl | he
      · exact Or.inr rfl
      · exact Or.inl ⟨e, he, rfl⟩

theorem slot_of_keys {s j : Nat} {k : K} (hk : frag (h.hash k) s = j) {C C' : List (K × V)}
    (hC : ∀ e ∈ C, frag (h.hash e.1) s = j)
    (hkeys : ∀ e ∈ C', (∃ e0 ∈ C, e0.1 = e.1) ∨ e.1 = k) : ∀ e ∈ C', frag (h.hash e.1) s = j := by
  intro e he
  rcases hkeys e he with ⟨e0, he0, heq⟩ | heq
  · rw [← heq]; exact hC e0 he0
  · rw [heq]; exact hk

/-- a branch node whose segment `C` of slot `j` became `C'` -/
theorem SetPost.of_branch (hl : LawfulHash h) {s j : Nat} {n n' : Node K V} {k : K} {v : V} {r r' : Bool}
    (hk : frag (h.hash k) s = j) {A B C C' : List (K × V)}
    (hn : n.toList = A ++ C ++ B) (hn' : n'.toList = A ++ C' ++ B)
    (hwf' : WF h s n') (hna : ∀ es, n' ≠ .array es)
    (hA : ∀ e ∈ A, frag (h.hash e.1) s ≠ j) (hB : ∀ e ∈ B, frag (h.hash e.1) s ≠ j)
    (hC : ∀ e ∈ C, frag (h.hash e.1) s = j)
    (hres : r' = (r || (lookup h k C).isNone))
    (hlook : ∀ k', lookup h k' C' = if h.eqv k k' then some v else lookup h k' C)
    (hlen : C'.length = C.length + (if (lookup h k C).isSome then 0 else 1))
    (hkeys : ∀ e ∈ C', (∃ e0 ∈ C, e0.1 = e.1) ∨ e.1 = k) :
    SetPost h s n k v r (n', r') := by
  have hC' := slot_of_keys hk hC hkeys
  have hmid : lookup h k (A ++ C ++ B) = lookup h k C :=
    lookup_mid (noMatch_of_frag_ne hl hk hA) (noMatch_of_frag_ne hl hk hB)
  refine ⟨hwf', ?_, ?_, ?_, ?_, hna⟩
  · rw [hn, hmid]; exact hres
  · intro k'
    simp only [hn, hn']
    exact branch_lookup hl hk hA hB hC hC' hlook k'
  · simp only [hn, hn', hmid, List.length_append, hlen]; omega
  · intro e he
    simp only [hn'] at he
    simp only [hn]
    simp only [List.mem_append] at he ⊢
    rcases he with (he | he) | he
    · exact Or.inl ⟨e, Or.inl (Or.inl he), rfl⟩
    · rcases hkeys e he with ⟨e0, he0, heq⟩ | heq
      · exact Or.inl ⟨e0, Or.inl (Or.inr he0), heq⟩
      · exact Or.inr heq
    · exact Or.inl ⟨e, Or.inr he, rfl⟩

theorem flat_slot_ne_lo {s : Nat} {bm j : Nat} {NL : List (Node K V)}
    (hks : ∀ p ∈ List.zip (lo bm j) NL, ∀ e ∈ p.2.toList, frag (h.hash e.1) s = p.1) :
    ∀ e ∈ flat (List.zip (lo bm j) NL), frag (h.hash e.1) s ≠ j := by
  intro e he
  obtain ⟨p, hp, hep⟩ := mem_flat.mp he
  rw [hks p hp e hep]
  exact Nat.ne_of_lt (zip_lo_slot hp)

theorem flat_slot_ne_hi {s : Nat} {bm j : Nat} {NR : List (Node K V)}
    (hks : ∀ p ∈ List.zip (hi bm j) NR, ∀ e ∈ p.2.toList, frag (h.hash e.1) s = p.1) :
    ∀ e ∈ flat (List.zip (hi bm j) NR), frag (h.hash e.1) s ≠ j := by
  intro e he
  obtain ⟨p, hp, hep⟩ := mem_flat.mp he
  rw [hks p hp e hep]
  exact Nat.ne_of_gt (zip_hi_slot hp).1

theorem flat_slot_ne_fmH_lo {s j : Nat} {SL : List (Option (Node K V))}
    (hks : ∀ p ∈ fmH (List.zip (List.range j) SL), ∀ e ∈ p.2.toList, frag (h.hash e.1) s = p.1) :
    ∀ e ∈ flat (fmH (List.zip (List.range j) SL)), frag (h.hash e.1) s ≠ j := by
  intro e he
  obtain ⟨p, hp, hep⟩ := mem_flat.mp he
  rw [hks p hp e hep]
  exact Nat.ne_of_lt (fmH_lo_slot hp)

theorem flat_slot_ne_fmH_hi {s j : Nat} {SR : List (Option (Node K V))}
    (hks : ∀ p ∈ fmH (List.zip (List.range' (j + 1) (31 - j)) SR), ∀ e ∈ p.2.toList, frag (h.hash e.1) s = p.1) :
    ∀ e ∈ flat (fmH (List.zip (List.range' (j + 1) (31 - j)) SR)), frag (h.hash e.1) s ≠ j := by
  intro e he
  obtain ⟨p, hp, hep⟩ := mem_flat.mp he
  rw [hks p hp e hep]
  exact Nat.ne_of_gt (fmH_hi_slot hp).1

theorem setCore_spec (hl : LawfulHash h)
    (ex : List (K × V) → K → V → Bool → GoE (Node K V × Bool)) {s : Nat} {n : Node K V}
    (hwf : WF h s n) : (∀ es, n ≠ .array es) → ∀ (k : K) (v : V) (mu r : Bool),
      (∀ e ∈ n.toList, pfxEq s (h.hash e.1) (h.hash k)) →
      ∃ res, n.setCore h ex k v s (h.hash k) mu r = .ok res ∧ SetPost h s n k v r res := by
  induction hwf with
  | array h0 => intro hna; exact absurd rfl (hna _)
  | @value s kh nk nv hkh =>
    intro _ k v mu r hag
    rw [Node.setCore]
    by_cases hek : h.eqv nk k = true
    · -- same key: overwrite
      have hkk : kh = h.hash k := by rw [hkh]; exact hl.hash_eq _ _ hek
      have hpost : ∀ x, (x = nk ∨ x = k) → SetPost h s (Node.value kh nk nv) k v r (Node.value kh x v, r) := by
        intro x hx
        have hxk : h.eqv x k = true := by rcases hx with rfl | rfl; exact hek; exact hl.refl _
        refine ⟨WF.value (by rw [hkk]; exact (hl.hash_eq _ _ hxk).symm), ?_, ?_, ?_, ?_, by intro es; simp⟩
        · simp [lookup_cons, hek]
        · intro k'
          simp only [toList_value, lookup_cons, lookup_nil]
          rw [hl.eqv_congr_left hxk k', hl.eqv_congr_left hek k']
          cases h.eqv k k' <;> simp
        · simp [lookup_cons, hek]
        · intro e he
          simp at he; rw [he]
          rcases hx with hx | hx
          · exact Or.inl ⟨(nk, nv), by simp, by simp [hx]⟩
          · exact Or.inr (by simp [hx])
      cases mu
      · exact ⟨_, by simp [hek, pure, Except.pure], hpost k (Or.inr rfl)⟩
      · exact ⟨_, by simp [hek, pure, Except.pure], hpost nk (Or.inl rfl)⟩
    · have hek' : h.eqv nk k = false := by simpa using hek
      have hno : ∀ e ∈ (Node.value kh nk nv).toList, h.eqv e.1 k = false := by
        intro e he; simp at he; subst he; exact hek'
      by_cases hne : kh = h.hash k
      · -- same hash: collision node
        refine ⟨(Node.collision (h.hash k) [(nk, nv), (k, v)], true), by simp [hek', hne, pure, Except.pure], ?_⟩
        apply SetPost.of_insert_new hl _ (by intro es; simp) hno (Or.inl (by simp))
        apply WF.collision (by simp)
        · intro e he; simp at he; rcases he with rfl | rfl
          · rw [← hne, hkh]
          · rfl
        · unfold DistinctKeys; simp [hek']
      · -- different hash: merge
        have hp : pfxEq s (Node.value kh nk nv).keyHashValue (h.hash k) := by
          have := hag (nk, nv) (by simp)
          simpa [Node.keyHashValue, hkh] using this
        obtain ⟨m, hm, hmwf, hml, hmna⟩ := mergeIntoNode_spec hl (leaf := Node.value kh nk nv) k v rfl
          (fun s' => WF.value hkh) (by intro es; simp)
          (by intro e he; simp at he; subst he; simp [Node.keyHashValue, hkh])
          (by simpa [Node.keyHashValue] using hne) _ s rfl hp
        refine ⟨(m, true), ?_, SetPost.of_insert_new hl hmwf hmna hno hml⟩
        have hne' : (kh != h.hash k) = true := by simpa using hne
        simp [hek', hne', hm, bind, Except.bind, pure, Except.pure]
  | @collision s kh es h2 hh hd =>
    intro _ k v mu r hag
    rw [Node.setCore]
    by_cases hne : kh = h.hash k
    · have hne' : (kh != h.hash k) = false := by simpa using hne
      simp only [hne', Bool.false_eq_true, if_false]
      cases hi : indexOf h es k with
      | none =>
        have hno : ∀ e ∈ (Node.collision kh es).toList, h.eqv e.1 k = false := by
          simpa using indexOf_none.mp hi
        refine ⟨_, rfl, ?_⟩
        apply SetPost.of_insert_new hl _ (by intro es; simp) hno (Or.inl (by simp))
        apply WF.collision (by simp; omega)
        · intro e he; simp at he; rcases he with he | rfl
          · exact hh e he
          · exact hne.symm
        · exact (distinct_insert_new hl hd (by simpa using hno)).1
      | some i =>
        obtain ⟨hlook, hlen, hdist, hsome, hkeys, hmem⟩ := replace_spec hl (v := v) hd hi
        refine ⟨_, rfl, ?_, ?_, ?_, ?_, ?_, by intro es; simp⟩
        · apply WF.collision (by rw [hlen]; exact h2) _ hdist
          intro e he
          rcases hmem e he with rfl | he'
          · exact hne.symm
          · exact hh e he'
        · cases hlk : lookup h k es with
          | none => rw [hlk] at hsome; cases hsome
          | some x => simp [hlk]
        · simpa using hlook
        · cases hlk : lookup h k es with
          | none => rw [hlk] at hsome; cases hsome
          | some x => simp [hlk, hlen]
        · simpa using hkeys
    · have hne' : (kh != h.hash k) = true := by simpa using hne
      have hno : ∀ e ∈ (Node.collision kh es).toList, h.eqv e.1 k = false := by
        intro e he; simp at he
        apply hl.ne_of_hash_ne; rw [hh e he]; exact hne
      have h0 : 0 < es.length := by omega
      have hp : pfxEq s (Node.collision kh es).keyHashValue (h.hash k) := by
        have := hag es[0] (by simp)
        rw [hh es[0] (by simp)] at this
        simpa [Node.keyHashValue] using this
      obtain ⟨m, hm, hmwf, hml, hmna⟩ := mergeIntoNode_spec hl (leaf := Node.collision kh es) k v rfl
        (fun s' => WF.collision h2 hh hd) (by intro es; simp)
        (by intro e he; simp at he; simp [Node.keyHashValue, hh e he])
        (by simpa [Node.keyHashValue] using hne) _ s rfl hp
      refine ⟨(m, true), ?_, SetPost.of_insert_new hl hmwf hmna hno hml⟩
      simp [hne', hm, bind, Except.bind, pure, Except.pure]
  | @bitmap s bm ns hs hb hlen h1 h17 hkw hks ihw =>
    intro _ k v mu r hag
    have hj := frag_lt (h.hash k) s
    rw [Node.setCore]
    simp only [and_bit_ne_zero]
    cases ht : bm.testBit (frag (h.hash k) s) with
    | true =>
      obtain ⟨NL, c, NR, hns, hNL, hNR, hget, hrank⟩ := bitmap_split hj ht hlen
      have hget' : ns[popCount (bm &&& (1 <<< frag (h.hash k) s - 1))]? = some c := hget
      have hkids := kidsB_cons_of_testBit hj ht (NR := NR) c hNL
      rw [← hns] at hkids
      have hcmem : (frag (h.hash k) s, c) ∈ kidsB bm ns := by rw [hkids]; simp
      have hcwf := hkw _ hcmem
      have hcslot := hks _ hcmem
      have hKL : ∀ p ∈ List.zip (lo bm (frag (h.hash k) s)) NL, p ∈ kidsB bm ns := by
        intro p hp; rw [hkids]; simp [hp]
      have hKR : ∀ p ∈ List.zip (hi bm (frag (h.hash k) s)) NR, p ∈ kidsB bm ns := by
        intro p hp; rw [hkids]; simp [hp]
      have htl : (Node.bitmap bm ns).toList = flat (List.zip (lo bm (frag (h.hash k) s)) NL) ++ c.toList ++
          flat (List.zip (hi bm (frag (h.hash k) s)) NR) := by
        rw [toList_bitmap_flat hlen, hkids]; simp
      have hagc : ∀ e ∈ c.toList, pfxEq (s + 5) (h.hash e.1) (h.hash k) := fun e he =>
        pfxEq_succ.mpr ⟨hag e (by rw [htl]; simp [he]), hcslot e he⟩
      obtain ⟨⟨c', r'⟩, hset, hpost⟩ := ihw _ hcmem (WF.not_array (by omega) hcwf) k v mu r hagc
      simp only at hset
      have hbm : (if mu = true then bm else bm ||| 1 <<< frag (h.hash k) s) = bm := by
        cases mu <;> simp [or_bit_of_testBit ht]
      have hsetns : ns.set (popCount (bm &&& (1 <<< frag (h.hash k) s - 1))) c' = NL ++ c' :: NR := by
        rw [hns]; exact set_split hrank
      have hlen' : (NL ++ c' :: NR).length = popCount bm := by rw [← hlen, hns]; simp
      have hkids' := kidsB_cons_of_testBit hj ht (NR := NR) c' hNL
      refine ⟨(Node.bitmap bm (NL ++ c' :: NR), r'), ?_, ?_⟩
      · simp only [if_true, Bool.not_true, Bool.false_and, Bool.false_eq_true, if_false, mapNodeBits,
          bind, Except.bind, pure, Except.pure, hbm]
        split
        · rename_i child hc
          rw [hget'] at hc; cases hc
          simp only [hset, hsetns]
        · rename_i hc; rw [hget'] at hc; cases hc
      · have hC' := slot_of_keys rfl hcslot hpost.keys
        apply SetPost.of_branch hl rfl htl (by rw [toList_bitmap_flat hlen', hkids']; simp) _ (by intro es; simp)
          (flat_slot_ne_lo (fun p hp => hks p (hKL p hp))) (flat_slot_ne_hi (fun p hp => hks p (hKR p hp)))
          hcslot hpost.resized hpost.look hpost.len hpost.keys
        apply WF.bitmap hs hb hlen' (by simp; omega) (by rw [hlen', ← hlen]; exact h17)
        · rw [hkids']; intro p hp
          simp only [List.mem_append, List.mem_cons] at hp
          rcases hp with hp | rfl | hp
          · exact hkw p (hKL p hp)
          · exact hpost.wf
          · exact hkw p (hKR p hp)
        · rw [hkids']; intro p hp
          simp only [List.mem_append, List.mem_cons] at hp
          rcases hp with hp | rfl | hp
          · exact hks p (hKL p hp)
          · exact hC'
          · exact hks p (hKR p hp)
    | false =>
      obtain ⟨NL, NR, hns, hNL, hNR, htake, hdrop⟩ := bitmap_split0 hj ht hlen
      have htake' : ns.take (popCount (bm &&& (1 <<< frag (h.hash k) s - 1))) = NL := htake
      have hdrop' : ns.drop (popCount (bm &&& (1 <<< frag (h.hash k) s - 1))) = NR := hdrop
      have hkids := kidsB_of_not_testBit hj ht (NR := NR) hNL
      rw [← hns] at hkids
      have hKL : ∀ p ∈ List.zip (lo bm (frag (h.hash k) s)) NL, p ∈ kidsB bm ns := by
        intro p hp; rw [hkids]; simp [hp]
      have hKR : ∀ p ∈ List.zip (hi bm (frag (h.hash k) s)) NR, p ∈ kidsB bm ns := by
        intro p hp; rw [hkids]; simp [hp]
      have htl : (Node.bitmap bm ns).toList = flat (List.zip (lo bm (frag (h.hash k) s)) NL) ++ [] ++
          flat (List.zip (hi bm (frag (h.hash k) s)) NR) := by
        rw [toList_bitmap_flat hlen, hkids]; simp
      have hvalue : WF h (s + 5) (Node.value (h.hash k) k v) := WF.value rfl
      by_cases hbig : ns.length > maxBitmapIndexedSize
      · -- convert to a hash-array node
        obtain ⟨slots, hconv, hslen, hskids, hscnt⟩ := bitmapToHashArray_spec hlen
        obtain ⟨SL, o, SR, hsl, hSL, hsget⟩ := hashArray_split hj hslen
        have hk1 := kidsH_cons hj (SR := SR) o hSL
        rw [← hsl, hskids] at hk1
        have ho : o = none := by
          cases o with
          | none => rfl
          | some c0 =>
            have : (frag (h.hash k) s, c0) ∈ kidsB bm ns := by rw [hk1]; simp
            have := mem_bitsOf.mp (mem_zip_fst this)
            rw [ht] at this; cases this.2
        subst ho
        simp only [Option.map_none, Option.toList_none, List.append_nil] at hk1
        have hHL : ∀ p ∈ fmH (List.zip (List.range (frag (h.hash k) s)) SL), p ∈ kidsB bm ns := by
          intro p hp; rw [hk1]; simp [hp]
        have hHR : ∀ p ∈ fmH (List.zip (List.range' (frag (h.hash k) s + 1) (31 - frag (h.hash k) s)) SR), p ∈ kidsB bm ns := by
          intro p hp; rw [hk1]; simp [hp]
        have htl2 : (Node.bitmap bm ns).toList = flat (fmH (List.zip (List.range (frag (h.hash k) s)) SL)) ++ [] ++
            flat (fmH (List.zip (List.range' (frag (h.hash k) s + 1) (31 - frag (h.hash k) s)) SR)) := by
          rw [toList_bitmap_flat hlen, hk1]; simp
        have hset2 : slots.set (frag (h.hash k) s) (some (Node.value (h.hash k) k v)) =
            SL ++ some (Node.value (h.hash k) k v) :: SR := by rw [hsl]; exact set_split hSL
        have hlen2 : (SL ++ some (Node.value (h.hash k) k v) :: SR).length = 32 := by
          rw [← hslen, hsl]; simp
        have hk2 := kidsH_cons hj (SR := SR) (some (Node.value (h.hash k) k v)) hSL
        refine ⟨(Node.hashArray (ns.length + 1) (SL ++ some (Node.value (h.hash k) k v) :: SR), true), ?_, ?_⟩
        · have hb2 : decide (ns.length > maxBitmapIndexedSize) = true := by simpa using hbig
          simp only [Bool.false_eq_true, if_false, Bool.not_false, Bool.true_and, hb2, if_true, pure, Except.pure,
            bind, Except.bind, hconv, hset2]
        · apply SetPost.of_branch hl rfl (C' := [(k, v)]) htl2 (by rw [toList_hashArray_flat hlen2, hk2]; simp) _ (by intro es; simp)
            (flat_slot_ne_fmH_lo (fun p hp => hks p (hHL p hp))) (flat_slot_ne_fmH_hi (fun p hp => hks p (hHR p hp)))
            (by simp) (by simp [lookup_nil]) (by intro k'; simp [lookup_cons, lookup_nil]) (by simp [lookup_nil])
            (by intro e he; simp at he; exact Or.inr (by rw [he]))
          apply WF.hashArray hs hlen2
          · rw [countSome_split]
            have := countSome_split SL SR (none : Option (Node K V))
            rw [← hsl, hscnt] at this
            simp at this ⊢; omega
          · unfold maxBitmapIndexedSize at *; omega
          · rw [hk2]; intro p hp
            simp only [Option.map_some, Option.toList_some, List.mem_append, List.mem_cons, List.mem_singleton,
              List.not_mem_nil, or_false] at hp
            rcases hp with (hp | rfl) | hp
            · exact hkw p (hHL p hp)
            · exact hvalue
            · exact hkw p (hHR p hp)
          · rw [hk2]; intro p hp
            simp only [Option.map_some, Option.toList_some, List.mem_append, List.mem_cons, List.mem_singleton,
              List.not_mem_nil, or_false] at hp
            rcases hp with (hp | rfl) | hp
            · exact hks p (hHL p hp)
            · intro e he; simp at he; rw [he]
            · exact hks p (hHR p hp)
      · -- stay a bitmap node
        have hlen' : (NL ++ Node.value (h.hash k) k v :: NR).length = popCount (bm ||| 1 <<< frag (h.hash k) s) := by
          rw [popCount_or_bit hj ht, ← hlen, hns]; simp; omega
        have hkids' := kidsB_or_bit (bm := bm) hj (NR := NR) (Node.value (h.hash k) k v) hNL
        refine ⟨(Node.bitmap (bm ||| 1 <<< frag (h.hash k) s) (NL ++ Node.value (h.hash k) k v :: NR), true), ?_, ?_⟩
        · have hb2 : decide (ns.length > maxBitmapIndexedSize) = false := by simpa using hbig
          simp only [Bool.false_eq_true, if_false, Bool.not_false, Bool.true_and, hb2, pure, Except.pure,
            bind, Except.bind, htake', hdrop', if_true]
        · apply SetPost.of_branch hl rfl (C' := [(k, v)]) htl (by rw [toList_bitmap_flat hlen', hkids']; simp) _ (by intro es; simp)
            (flat_slot_ne_lo (fun p hp => hks p (hKL p hp))) (flat_slot_ne_hi (fun p hp => hks p (hKR p hp)))
            (by simp) (by simp [lookup_nil]) (by intro k'; simp [lookup_cons, lookup_nil]) (by simp [lookup_nil])
            (by intro e he; simp at he; exact Or.inr (by rw [he]))
          apply WF.bitmap hs (or_bit_lt hb hj) hlen' (by simp; omega)
          · have : (NL ++ Node.value (h.hash k) k v :: NR).length = ns.length + 1 := by rw [hns]; simp; omega
            rw [this]; omega
          · rw [hkids']; intro p hp
            simp only [List.mem_append, List.mem_cons] at hp
            rcases hp with hp | rfl | hp
            · exact hkw p (hKL p hp)
            · exact hvalue
            · exact hkw p (hKR p hp)
          · rw [hkids']; intro p hp
            simp only [List.mem_append, List.mem_cons] at hp
            rcases hp with hp | rfl | hp
            · exact hks p (hKL p hp)
            · intro e he; simp at he; rw [he]
            · exact hks p (hKR p hp)
  | @hashArray s cnt ns hs hlen hcnt h16 hkw hks ihw =>
    intro _ k v mu r hag
    have hj := frag_lt (h.hash k) s
    rw [Node.setCore]
    obtain ⟨SL, o, SR, hsl, hSL, hsget⟩ := hashArray_split hj hlen
    have hk1 := kidsH_cons hj (SR := SR) o hSL
    rw [← hsl] at hk1
    have hHL : ∀ p ∈ fmH (List.zip (List.range (frag (h.hash k) s)) SL), p ∈ kidsH ns := by
      intro p hp; rw [hk1]; simp [hp]
    have hHR : ∀ p ∈ fmH (List.zip (List.range' (frag (h.hash k) s + 1) (31 - frag (h.hash k) s)) SR), p ∈ kidsH ns := by
      intro p hp; rw [hk1]; simp [hp]
    have hcs := countSome_split SL SR o
    rw [← hsl] at hcs
    split
    · rename_i hc; rw [hsget] at hc; cases hc
    · rename_i node hc
      rw [hsget] at hc; cases hc
      cases o with
      | none =>
        simp only [Option.map_none, Option.toList_none, List.append_nil] at hk1
        have hvalue : WF h (s + 5) (Node.value (h.hash k) k v) := WF.value rfl
        have htl : (Node.hashArray cnt ns).toList = flat (fmH (List.zip (List.range (frag (h.hash k) s)) SL)) ++ [] ++
            flat (fmH (List.zip (List.range' (frag (h.hash k) s + 1) (31 - frag (h.hash k) s)) SR)) := by
          rw [toList_hashArray_flat hlen, hk1]; simp
        have hset2 : ns.set (frag (h.hash k) s) (some (Node.value (h.hash k) k v)) =
            SL ++ some (Node.value (h.hash k) k v) :: SR := by rw [hsl]; exact set_split hSL
        have hlen2 : (SL ++ some (Node.value (h.hash k) k v) :: SR).length = 32 := by
          rw [← hlen, hsl]; simp
        have hk2 := kidsH_cons hj (SR := SR) (some (Node.value (h.hash k) k v)) hSL
        refine ⟨(Node.hashArray (cnt + 1) (SL ++ some (Node.value (h.hash k) k v) :: SR), true), ?_, ?_⟩
        · simp [hset2, pure, Except.pure, bind, Except.bind]
        · apply SetPost.of_branch hl rfl (C' := [(k, v)]) htl (by rw [toList_hashArray_flat hlen2, hk2]; simp) _ (by intro es; simp)
            (flat_slot_ne_fmH_lo (fun p hp => hks p (hHL p hp))) (flat_slot_ne_fmH_hi (fun p hp => hks p (hHR p hp)))
            (by simp) (by simp [lookup_nil]) (by intro k'; simp [lookup_cons, lookup_nil]) (by simp [lookup_nil])
            (by intro e he; simp at he; exact Or.inr (by rw [he]))
          apply WF.hashArray hs hlen2
          · rw [countSome_split, hcnt, hcs]; simp; omega
          · omega
          · rw [hk2]; intro p hp
            simp only [Option.map_some, Option.toList_some, List.mem_append, List.mem_cons, List.mem_singleton,
              List.not_mem_nil, or_false] at hp
            rcases hp with (hp | rfl) | hp
            · exact hkw p (hHL p hp)
            · exact hvalue
            · exact hkw p (hHR p hp)
          · rw [hk2]; intro p hp
            simp only [Option.map_some, Option.toList_some, List.mem_append, List.mem_cons, List.mem_singleton,
              List.not_mem_nil, or_false] at hp
            rcases hp with (hp | rfl) | hp
            · exact hks p (hHL p hp)
            · intro e he; simp at he; rw [he]
            · exact hks p (hHR p hp)
      | some c =>
        simp only [Option.map_some, Option.toList_some] at hk1
        have hcmem : (frag (h.hash k) s, c) ∈ kidsH ns := by rw [hk1]; simp
        have hcwf := hkw _ hcmem
        have hcslot := hks _ hcmem
        have htl : (Node.hashArray cnt ns).toList = flat (fmH (List.zip (List.range (frag (h.hash k) s)) SL)) ++ c.toList ++
            flat (fmH (List.zip (List.range' (frag (h.hash k) s + 1) (31 - frag (h.hash k) s)) SR)) := by
          rw [toList_hashArray_flat hlen, hk1]; simp
        have hagc : ∀ e ∈ c.toList, pfxEq (s + 5) (h.hash e.1) (h.hash k) := fun e he =>
          pfxEq_succ.mpr ⟨hag e (by rw [htl]; simp [he]), hcslot e he⟩
        obtain ⟨⟨c', r'⟩, hset, hpost⟩ := ihw _ hcmem (WF.not_array (by omega) hcwf) k v mu r hagc
        simp only at hset
        have hset2 : ns.set (frag (h.hash k) s) (some c') = SL ++ some c' :: SR := by rw [hsl]; exact set_split hSL
        have hlen2 : (SL ++ some c' :: SR).length = 32 := by rw [← hlen, hsl]; simp
        have hk2 := kidsH_cons hj (SR := SR) (some c') hSL
        refine ⟨(Node.hashArray cnt (SL ++ some c' :: SR), r'), ?_, ?_⟩
        · simp [hset2, hset, mapNodeBits, pure, Except.pure, bind, Except.bind]
        · have hC' := slot_of_keys rfl hcslot hpost.keys
          apply SetPost.of_branch hl rfl htl (by rw [toList_hashArray_flat hlen2, hk2]; simp) _ (by intro es; simp)
            (flat_slot_ne_fmH_lo (fun p hp => hks p (hHL p hp))) (flat_slot_ne_fmH_hi (fun p hp => hks p (hHR p hp)))
            hcslot hpost.resized hpost.look hpost.len hpost.keys
          apply WF.hashArray hs hlen2
          · rw [countSome_split, hcnt, hcs]; simp
          · exact h16
          · rw [hk2]; intro p hp
            simp only [Option.map_some, Option.toList_some, List.mem_append, List.mem_cons, List.mem_singleton,
              List.not_mem_nil, or_false] at hp
            rcases hp with (hp | rfl) | hp
            · exact hkw p (hHL p hp)
            · exact hpost.wf
            · exact hkw p (hHR p hp)
          · rw [hk2]; intro p hp
            simp only [Option.map_some, Option.toList_some, List.mem_append, List.mem_cons, List.mem_singleton,
              List.not_mem_nil, or_false] at hp
            rcases hp with (hp | rfl) | hp
            · exact hks p (hHL p hp)
            · exact hC'
            · exact hks p (hHR p hp)

end FpVerif.Hamt
