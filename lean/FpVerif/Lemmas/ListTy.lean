import FpVerif.Lemmas.ListGen
/-!
# Lazy list: a heap typing for ALL closure kinds

To show that every list expression evaluates to a heap representation that satisfies the
interface contract, the heap is given a *typing* `Sty` (a ghost assignment, as in a type-soundness
proof for references):

* every `getHead` cell gets the value it will produce (`o`) and the fuel forcing it needs (`need`);
* every `getTail` cell gets the list (`DenV`: a finite list, or the infinite index stream of
  `ZipWithIndex`) its value will denote, the fuel forcing it needs, and a bound `K` on the fuel that
  every operation on that value (and on all its tails) needs; a tail cell that is never forced on a
  protocol-conforming use (the tail of an empty list) is typed `none`;
* every `lazy.Call` cell of `FlatMap` likewise.

`VDen S l d K`: under typing `S` the list value `l` denotes `d` and every interface operation on it
needs at most fuel `K`.  `Cons S hp`: every cell of heap `hp` is consistent with `S` — a pending
closure (kept as data) captures values whose typing makes the closure compute the cell's type, a
done cell holds a value of the cell's type.  `need` doubles as the rank that shows the absence of
`sync.Once` re-entrance (deadlock): a closure only forces cells of strictly smaller `need`
(`Quiet`: all cells that are currently running have a `need` above what the operation touches).

The typing only grows (`Ext`), so `VDen` is stable; all frame reasoning is in the few lemmas that
update `Cons` (`Cons.pushHT`, `Cons.setH` …).
-/
namespace FpVerif.LL
open FpVerif.It IM

/-! ## denotations -/

/-- what a list value denotes: a finite list or the stream `n, n+1, …` (the index list of
    `ZipWithIndex`) -/
inductive DenV where
  | fin (xs : List Val)
  | idx (n : Nat)

def DenV.head? : DenV → Option Val
  | .fin xs => xs.head?
  | .idx n => some (.int n)

def DenV.tail : DenV → DenV
  | .fin xs => .fin xs.tail
  | .idx n => .idx (n + 1)

def DenV.isEmpty : DenV → Bool
  | .fin xs => xs.isEmpty
  | .idx _ => false

/-- type of the tail cell of a list denoting `d`: junk (`none`) when `d` is empty -/
def DenV.tailTy (d : DenV) : Option DenV := if d.isEmpty then none else some d.tail

structure HTy where
  o : Option Val
  need : Nat

structure TTy where
  d : Option DenV
  need : Nat
  K : Nat

structure LTy where
  xs : List Val
  need : Nat
  K : Nat

/-- heap typing -/
structure Sty where
  nh : Nat
  nt : Nat
  nl : Nat
  hs : Nat → HTy
  ts : Nat → TTy
  ls : Nat → LTy

def Sty.empty : Sty := ⟨0, 0, 0, fun _ => ⟨none, 0⟩, fun _ => ⟨none, 0, 0⟩, fun _ => ⟨[], 0, 0⟩⟩

def Sty.pushHT (S : Sty) (h : HTy) (t : TTy) : Sty :=
  { S with nh := S.nh + 1, nt := S.nt + 1,
           hs := fun c => if c = S.nh then h else S.hs c,
           ts := fun c => if c = S.nt then t else S.ts c }

def Sty.pushL (S : Sty) (l : LTy) : Sty :=
  { S with nl := S.nl + 1, ls := fun c => if c = S.nl then l else S.ls c }

structure Ext (S S' : Sty) : Prop where
  nh : S.nh ≤ S'.nh
  nt : S.nt ≤ S'.nt
  nl : S.nl ≤ S'.nl
  hs : ∀ c, c < S.nh → S'.hs c = S.hs c
  ts : ∀ c, c < S.nt → S'.ts c = S.ts c
  ls : ∀ c, c < S.nl → S'.ls c = S.ls c

theorem Ext.refl (S : Sty) : Ext S S := ⟨Nat.le_refl _, Nat.le_refl _, Nat.le_refl _, fun _ _ => rfl, fun _ _ => rfl, fun _ _ => rfl⟩

theorem Ext.trans {S1 S2 S3 : Sty} (a : Ext S1 S2) (b : Ext S2 S3) : Ext S1 S3 :=
  ⟨Nat.le_trans a.nh b.nh, Nat.le_trans a.nt b.nt, Nat.le_trans a.nl b.nl,
   fun c h => by rw [b.hs c (Nat.lt_of_lt_of_le h a.nh), a.hs c h],
   fun c h => by rw [b.ts c (Nat.lt_of_lt_of_le h a.nt), a.ts c h],
   fun c h => by rw [b.ls c (Nat.lt_of_lt_of_le h a.nl), a.ls c h]⟩

theorem Ext.pushHT (S : Sty) (h : HTy) (t : TTy) : Ext S (S.pushHT h t) :=
  ⟨Nat.le_succ _, Nat.le_succ _, Nat.le_refl _,
   fun c hc => by simp only [Sty.pushHT]; rw [if_neg (by omega)],
   fun c hc => by simp only [Sty.pushHT]; rw [if_neg (by omega)],
   fun _ _ => rfl⟩

theorem Ext.pushL (S : Sty) (l : LTy) : Ext S (S.pushL l) :=
  ⟨Nat.le_refl _, Nat.le_refl _, Nat.le_succ _, fun _ _ => rfl, fun _ _ => rfl,
   fun c hc => by simp only [Sty.pushL]; rw [if_neg (by omega)]⟩

/-! ## typing of values -/

/-- under `S` the list value `l` denotes `d`; every interface operation on it and on its tails
    needs at most fuel `K` -/
def VDen (S : Sty) : LV → DenV → Nat → Prop
  | .nil, d, K => d = .fin [] ∧ 1 ≤ K
  | .cons h t, d, K => ∃ xs, d = .fin (h :: xs) ∧ VDen S t (.fin xs) K
  | .seq xs, d, K => d = .fin xs ∧ 1 ≤ K
  | .adaptor hc tc, d, K =>
    hc < S.nh ∧ (S.hs hc).o = d.head? ∧ (S.hs hc).need < K ∧
    (d.isEmpty = false →
      tc < S.nt ∧ (S.ts tc).d = some d.tail ∧ (S.ts tc).need < K ∧ (S.ts tc).K ≤ K)
  | .nilIface, _, _ => False      -- the nil interface (a cell whose closure panicked) denotes nothing

theorem VDen.pos {S : Sty} : ∀ {l : LV} {d : DenV} {K : Nat}, VDen S l d K → 1 ≤ K := by
  intro l
  induction l with
  | nil => intro d K h; exact h.2
  | cons a t ih => intro d K h; obtain ⟨xs, _, h2⟩ := h; exact ih h2
  | seq xs => intro d K h; exact h.2
  | adaptor hc tc => intro d K h; have := h.2.2.1; omega
  | nilIface => intro d K h; exact h.elim

theorem VDen.mono {S S' : Sty} (hE : Ext S S') : ∀ {l : LV} {d : DenV} {K K' : Nat},
    VDen S l d K → K ≤ K' → VDen S' l d K' := by
  intro l
  induction l with
  | nil => intro d K K' h hk; exact ⟨h.1, Nat.le_trans h.2 hk⟩
  | cons a t ih => intro d K K' h hk; obtain ⟨xs, h1, h2⟩ := h; exact ⟨xs, h1, ih h2 hk⟩
  | seq xs => intro d K K' h hk; exact ⟨h.1, Nat.le_trans h.2 hk⟩
  | adaptor hc tc =>
    intro d K K' h hk
    obtain ⟨h1, h2, h3, h4⟩ := h
    refine ⟨Nat.lt_of_lt_of_le h1 hE.nh, by rw [hE.hs hc h1]; exact h2, by rw [hE.hs hc h1]; omega, ?_⟩
    intro hne
    obtain ⟨t1, t2, t3, t4⟩ := h4 hne
    refine ⟨Nat.lt_of_lt_of_le t1 hE.nt, by rw [hE.ts tc t1]; exact t2, by rw [hE.ts tc t1]; omega,
      by rw [hE.ts tc t1]; omega⟩
  | nilIface => intro d K K' h _; exact h.elim

theorem VDen.monoK {S : Sty} {l : LV} {d : DenV} {K K' : Nat} (h : VDen S l d K) (hk : K ≤ K') :
    VDen S l d K' := VDen.mono (Ext.refl S) h hk

theorem VDen.ext {S S' : Sty} {l : LV} {d : DenV} {K : Nat} (h : VDen S l d K) (hE : Ext S S') :
    VDen S' l d K := VDen.mono hE h (Nat.le_refl _)

/-! ## what the function given to `FlatMap` denotes, and syntactic fuel bounds -/

def maxOver (f : Val → Nat) : List Val → Nat
  | [] => 0
  | y :: ys => max (f y) (maxOver f ys)

theorem le_maxOver (f : Val → Nat) : ∀ (ys : List Val) (y : Val), y ∈ ys → f y ≤ maxOver f ys := by
  intro ys
  induction ys with
  | nil => intro y h; cases h
  | cons a as ih =>
    intro y h
    simp only [maxOver]
    rcases List.mem_cons.mp h with rfl | h
    · exact Nat.le_max_left _ _
    · exact Nat.le_trans (ih y h) (Nat.le_max_right _ _)

/-- fuel bound of the `FlatMap` list over a source with bound `Ks` and `n` remaining elements,
    inner lists bounded by `Bi` -/
def FMB (Ks Bi n : Nat) : Nat := Ks + Bi + 4 * n + 4

/-- callbacks of the expression do not panic (they may log) -/
def LExpr.Pure : LExpr → Prop
  | .apply _ t => t.Pure
  | .map e f => e.Pure ∧ Total f (pure1 f)
  | .flatMap e _ k => e.Pure ∧ k.Pure
  | .filterMap e f => e.Pure ∧ Total f (pure1 f)
  | .combine e1 e2 => e1.Pure ∧ e2.Pure
  | .zip e1 e2 => e1.Pure ∧ e2.Pure
  | .zipidx e => e.Pure
  | .scan e _ f => e.Pure ∧ Total2 f (pure2 f)
  | _ => True

/-- fuel that evaluating the expression needs, and bound of the resulting list value -/
def LExpr.bnd : LExpr → Val → Nat
  | .apply _ t, x => t.bnd x + 1
  | .map e _, x => e.bnd x + 4
  | .flatMap e _ k, x => FMB (e.bnd x) (maxOver (fun y => k.bnd y + 1) (e.denote x)) (e.denote x).length + 1
  | .filterMap e _, x => FMB (e.bnd x) 1 (e.denote x).length + 1
  | .combine e1 e2, x => max (e1.bnd x) (e2.bnd x) + 4
  | .zip e1 e2, x => max (e1.bnd x) (e2.bnd x) + 4
  | .zipidx e, x => e.bnd x + 4
  | .scan e _ _, x => e.bnd x + 4
  | _, _ => 3

def FnK.den : FnK → Val → List Val
  | .expr _ k, y => k.denote y
  | .fromOption f, y => (pure1 f y).toList

def FnK.bnd : FnK → Val → Nat
  | .expr _ k, y => k.bnd y + 1
  | .fromOption _, _ => 1

def FnK.Pure : FnK → Prop
  | .expr _ k => k.Pure
  | .fromOption f => Total f (pure1 f)

def fmDen (k : FnK) (ys : List Val) : List Val := ys.flatMap k.den

def zipD : DenV → List Val → List Val
  | .fin xs, ys => List.zipWith (fun a b => Val.tup [a, b]) xs ys
  | .idx n, ys => enumFrom n ys

def scanTail (g : Val → Val → Val) (z : Val) : List Val → List Val
  | [] => []
  | a :: as => scanlV g (g z a) as

/-- a generator (`GenerateFrom(i, g)`) denotes `d`: the enumeration up to the first `None`, or the
    index stream -/
def GenDen (gp : Int → Option Val) (i : Int) : DenV → Prop
  | .fin xs => Enum gp i xs
  | .idx n => i = (n : Int) ∧ ∀ m : Nat, gp (m : Int) = some (.int m)

/-! ## typing of closures -/

/-- the captured variables of a `FlatMap` closure -/
structure FMOK (S : Sty) (lz : Nat) (tl : LV) (k : FnK) (y : Val) (ys : List Val) (Ks Bi : Nat) : Prop where
  hlz : lz < S.nl
  hxs : (S.ls lz).xs = k.den y
  hneed : (S.ls lz).need ≤ Ks + Bi + 1
  hK : (S.ls lz).K ≤ Bi
  htl : VDen S tl (.fin ys) Ks
  hpure : k.Pure
  hbi : ∀ y', y' ∈ y :: ys → k.bnd y' ≤ Bi

def HThunkOK (S : Sty) : HThunk → HTy → Prop
  | .const o', ty => ty.o = o'
  | .gen i g, ty => ∃ gp, Total g gp ∧ ty.o = gp i
  | .map opt fn, ty => ∃ xs K, VDen S opt (.fin xs) K ∧ Total fn (pure1 fn) ∧
      ty.o = (xs.head?).map (pure1 fn) ∧ K + 3 ≤ ty.need
  | .flatMap lz tl k, ty => ∃ y ys Ks Bi, FMOK S lz tl k y ys Ks Bi ∧
      ty.o = (k.den y ++ fmDen k ys).head? ∧ FMB Ks Bi ys.length + 3 ≤ ty.need
  | .zip a b, ty => ∃ da ys K, VDen S a da K ∧ VDen S b (.fin ys) K ∧
      ty.o = (zipD da ys).head? ∧ K + 3 ≤ ty.need
  | .reverse xs, ty => ty.o = xs.getLast?
  | .combine l1, ty => ∃ x xs K, VDen S l1 (.fin (x :: xs)) K ∧ ty.o = some x ∧ K + 2 ≤ ty.need

abbrev Its := Array (Int × List Val × Nat)

def TThunkOK (S : Sty) (its : Its) : TThunk → DenV → Nat → Nat → Prop
  | .gen i g, d, _, K => ∃ gp, Total g gp ∧ GenDen gp (i + 1) d ∧ 3 ≤ K
  | .map opt fn, d, need, K => ∃ x xs Ko, VDen S opt (.fin (x :: xs)) Ko ∧ Total fn (pure1 fn) ∧
      d = .fin (xs.map (pure1 fn)) ∧ Ko + 2 ≤ need ∧ Ko + 4 ≤ K
  | .flatMap lz tl k, d, need, K => ∃ y ys Ks Bi, FMOK S lz tl k y ys Ks Bi ∧
      (k.den y ++ fmDen k ys) ≠ [] ∧ d = .fin (k.den y ++ fmDen k ys).tail ∧
      FMB Ks Bi ys.length + 2 ≤ need ∧ FMB Ks Bi ys.length ≤ K
  | .zip a b, d, need, K => ∃ da y ys Ko, VDen S a da Ko ∧ da.isEmpty = false ∧
      VDen S b (.fin (y :: ys)) Ko ∧ d = .fin (zipD da.tail ys) ∧ Ko + 2 ≤ need ∧ Ko + 4 ≤ K
  | .scan s zero f, d, need, K => ∃ xs Ks, VDen S s (.fin xs) Ks ∧ Total2 f (pure2 f) ∧
      d = .fin (scanTail (pure2 f) zero xs) ∧ Ks + 3 ≤ need ∧ Ks + 4 ≤ K
  | .collect it, d, _, K => ∃ id xs idx, its[it]? = some (id, xs, idx) ∧ d = .fin (xs.drop idx) ∧ 3 ≤ K
  | .combine l1 l2, d, need, K => ∃ x xs ys K1 K2, VDen S l1 (.fin (x :: xs)) K1 ∧
      VDen S l2 (.fin ys) K2 ∧ d = .fin (xs ++ ys) ∧ K1 + 3 ≤ need ∧ max (K1 + 4) K2 ≤ K
  | .reverse xs, d, _, K => d = .fin (xs.dropLast.reverse) ∧ 3 ≤ K

structure LThunkOK (S : Sty) (opt : LV) (k : FnK) (ty : LTy) : Prop where
  ex : ∃ y ys Ks, VDen S opt (.fin (y :: ys)) Ks ∧ ty.xs = k.den y ∧
      max Ks (k.bnd y) + 1 ≤ ty.need ∧ k.bnd y ≤ ty.K
  pure : k.Pure

theorem FMOK.mono {S S' : Sty} (hE : Ext S S') {lz tl k y ys Ks Bi} (h : FMOK S lz tl k y ys Ks Bi) :
    FMOK S' lz tl k y ys Ks Bi :=
  ⟨Nat.lt_of_lt_of_le h.hlz hE.nl, by rw [hE.ls _ h.hlz]; exact h.hxs, by rw [hE.ls _ h.hlz]; exact h.hneed,
   by rw [hE.ls _ h.hlz]; exact h.hK, h.htl.ext hE, h.hpure, h.hbi⟩

theorem HThunkOK.mono {S S' : Sty} (hE : Ext S S') : ∀ {t : HThunk} {ty : HTy}, HThunkOK S t ty → HThunkOK S' t ty := by
  intro t ty h
  cases t with
  | const o => exact h
  | gen i g => exact h
  | map opt fn => obtain ⟨xs, K, h1, h2⟩ := h; exact ⟨xs, K, h1.ext hE, h2⟩
  | flatMap lz tl k => obtain ⟨y, ys, Ks, Bi, h1, h2⟩ := h; exact ⟨y, ys, Ks, Bi, h1.mono hE, h2⟩
  | zip a b => obtain ⟨da, ys, K, h1, h2, h3⟩ := h; exact ⟨da, ys, K, h1.ext hE, h2.ext hE, h3⟩
  | reverse xs => exact h
  | combine l1 => obtain ⟨x, xs, K, h1, h2⟩ := h; exact ⟨x, xs, K, h1.ext hE, h2⟩

theorem TThunkOK.mono {S S' : Sty} (hE : Ext S S') {its : Its} : ∀ {t : TThunk} {d : DenV} {need K : Nat},
    TThunkOK S its t d need K → TThunkOK S' its t d need K := by
  intro t d need K h
  cases t with
  | gen i g => exact h
  | map opt fn => obtain ⟨x, xs, Ko, h1, h2⟩ := h; exact ⟨x, xs, Ko, h1.ext hE, h2⟩
  | flatMap lz tl k => obtain ⟨y, ys, Ks, Bi, h1, h2⟩ := h; exact ⟨y, ys, Ks, Bi, h1.mono hE, h2⟩
  | zip a b => obtain ⟨da, y, ys, Ko, h1, h2, h3, h4⟩ := h; exact ⟨da, y, ys, Ko, h1.ext hE, h2, h3.ext hE, h4⟩
  | scan s zero f => obtain ⟨xs, Ks, h1, h2⟩ := h; exact ⟨xs, Ks, h1.ext hE, h2⟩
  | collect it => exact h
  | combine l1 l2 => obtain ⟨x, xs, ys, K1, K2, h1, h2, h3⟩ := h; exact ⟨x, xs, ys, K1, K2, h1.ext hE, h2.ext hE, h3⟩
  | reverse xs => exact h

theorem LThunkOK.mono {S S' : Sty} (hE : Ext S S') {opt k ty} (h : LThunkOK S opt k ty) : LThunkOK S' opt k ty := by
  obtain ⟨⟨y, ys, Ks, h1, h2⟩, hp⟩ := h
  exact ⟨⟨y, ys, Ks, h1.ext hE, h2⟩, hp⟩

/-- the iterator table changed, but not the iterator this closure captured -/
theorem TThunkOK.its {S : Sty} {its its' : Its} : ∀ {t : TThunk} {d : DenV} {need K : Nat},
    TThunkOK S its t d need K → (∀ it, t = .collect it → its'[it]? = its[it]?) → TThunkOK S its' t d need K := by
  intro t d need K h hi
  cases t with
  | collect it =>
    obtain ⟨id, xs, idx, h1, h2⟩ := h
    exact ⟨id, xs, idx, by rw [hi it rfl]; exact h1, h2⟩
  | _ => exact h

/-! ## typing of the heap -/

def HCellOK (S : Sty) (ty : HTy) : Cell HThunk (Option Val) → Prop
  | .pending t => HThunkOK S t ty
  | .running => True
  | .done v => v = ty.o

def TCellOK (S : Sty) (its : Its) (ty : TTy) : Cell TThunk LV → Prop
  | .pending t => ∀ d, ty.d = some d → TThunkOK S its t d ty.need ty.K
  | .running => True
  | .done v => ∀ d, ty.d = some d → VDen S v d ty.K

def LCellOK (S : Sty) (ty : LTy) : Cell (LV × FnK) LV → Prop
  | .pending (opt, k) => LThunkOK S opt k ty
  | .running => True
  | .done v => VDen S v (.fin ty.xs) ty.K

theorem HCellOK.mono {S S' : Sty} (hE : Ext S S') {ty : HTy} {c : Cell HThunk (Option Val)}
    (h : HCellOK S ty c) : HCellOK S' ty c := by
  cases c with
  | pending t => exact HThunkOK.mono hE h
  | running => trivial
  | done v => exact h

theorem TCellOK.mono {S S' : Sty} (hE : Ext S S') {its : Its} {ty : TTy} {c : Cell TThunk LV}
    (h : TCellOK S its ty c) : TCellOK S' its ty c := by
  cases c with
  | pending t => exact fun d hd => TThunkOK.mono hE (h d hd)
  | running => trivial
  | done v => exact fun d hd => (h d hd).ext hE

theorem LCellOK.mono {S S' : Sty} (hE : Ext S S') {ty : LTy} {c : Cell (LV × FnK) LV}
    (h : LCellOK S ty c) : LCellOK S' ty c := by
  cases c with
  | pending t => exact LThunkOK.mono hE h
  | running => trivial
  | done v => exact VDen.ext h hE

/-- no pending closure captured iterator `it` -/
def NoPendCollect (hp : Heap) (it : Nat) : Prop :=
  ∀ (c : Nat) (n : Nat), hp.ts[c]? ≠ some (Cell.pending (TThunk.collect it), n)

structure Cons (S : Sty) (hp : Heap) : Prop where
  nh : S.nh = hp.hs.size
  nt : S.nt = hp.ts.size
  nl : S.nl = hp.ls.size
  hs : ∀ (c : Nat) cell n, hp.hs[c]? = some (cell, n) → 2 ≤ (S.hs c).need ∧ HCellOK S (S.hs c) cell
  ts : ∀ (c : Nat) cell n, hp.ts[c]? = some (cell, n) → 2 ≤ (S.ts c).need ∧ TCellOK S hp.its (S.ts c) cell
  ls : ∀ (c : Nat) cell n, hp.ls[c]? = some (cell, n) → 2 ≤ (S.ls c).need ∧ LCellOK S (S.ls c) cell
  uniq : ∀ (c c' : Nat) it n n', hp.ts[c]? = some (.pending (.collect it), n) →
    hp.ts[c']? = some (.pending (.collect it), n') → c = c'
  itsb : ∀ (c : Nat) it n, hp.ts[c]? = some (.pending (.collect it), n) → it < hp.its.size

theorem Cons.empty : Cons Sty.empty {} :=
  ⟨rfl, rfl, rfl, by simp, by simp, by simp, by simp, by simp⟩

/-- cells that are running in `hp'` were running in `hp` -/
structure RunSub (hp' hp : Heap) : Prop where
  hs : ∀ (c : Nat) n, hp'.hs[c]? = some (.running, n) → ∃ n', hp.hs[c]? = some (.running, n')
  ts : ∀ (c : Nat) n, hp'.ts[c]? = some (.running, n) → ∃ n', hp.ts[c]? = some (.running, n')
  ls : ∀ (c : Nat) n, hp'.ls[c]? = some (.running, n) → ∃ n', hp.ls[c]? = some (.running, n')

theorem RunSub.refl (hp : Heap) : RunSub hp hp := ⟨fun _ n h => ⟨n, h⟩, fun _ n h => ⟨n, h⟩, fun _ n h => ⟨n, h⟩⟩

theorem RunSub.trans {a b c : Heap} (h1 : RunSub a b) (h2 : RunSub b c) : RunSub a c :=
  ⟨fun i n h => by obtain ⟨n', h'⟩ := h1.hs i n h; exact h2.hs i n' h',
   fun i n h => by obtain ⟨n', h'⟩ := h1.ts i n h; exact h2.ts i n' h',
   fun i n h => by obtain ⟨n', h'⟩ := h1.ls i n h; exact h2.ls i n' h'⟩

/-- all running cells have `need ≥ K`: an operation that only forces cells of `need < K` does not
    re-enter a running `sync.Once` -/
structure Quiet (K : Nat) (S : Sty) (hp : Heap) : Prop where
  hs : ∀ (c : Nat) n, hp.hs[c]? = some (.running, n) → K ≤ (S.hs c).need
  ts : ∀ (c : Nat) n, hp.ts[c]? = some (.running, n) → K ≤ (S.ts c).need
  ls : ∀ (c : Nat) n, hp.ls[c]? = some (.running, n) → K ≤ (S.ls c).need

theorem Quiet.mono {K K' : Nat} {S : Sty} {hp : Heap} (h : Quiet K S hp) (hk : K' ≤ K) : Quiet K' S hp :=
  ⟨fun c n hc => Nat.le_trans hk (h.hs c n hc), fun c n hc => Nat.le_trans hk (h.ts c n hc),
   fun c n hc => Nat.le_trans hk (h.ls c n hc)⟩

/-- memo cells that are done in `hp` are done, with the same value, in `hp'` -/
structure DoneSub (hp hp' : Heap) : Prop where
  hs : ∀ (c : Nat) v n, hp.hs[c]? = some (.done v, n) → hp'.hs[c]? = some (.done v, n)
  ts : ∀ (c : Nat) v n, hp.ts[c]? = some (.done v, n) → hp'.ts[c]? = some (.done v, n)

theorem DoneSub.refl (hp : Heap) : DoneSub hp hp := ⟨fun _ _ _ h => h, fun _ _ _ h => h⟩

theorem DoneSub.trans {a b c : Heap} (h1 : DoneSub a b) (h2 : DoneSub b c) : DoneSub a c :=
  ⟨fun i v n h => h2.hs i v n (h1.hs i v n h), fun i v n h => h2.ts i v n (h1.ts i v n h)⟩

/-- the outcome of an operation: typing extended, heap consistent, no new running cells, done
    cells untouched -/
structure Post (S : Sty) (hp : Heap) (S' : Sty) (hp' : Heap) : Prop where
  cons : Cons S' hp'
  ext : Ext S S'
  run : RunSub hp' hp
  done : DoneSub hp hp'

theorem Post.refl {S : Sty} {hp : Heap} (h : Cons S hp) : Post S hp S hp :=
  ⟨h, Ext.refl S, RunSub.refl hp, DoneSub.refl hp⟩

theorem Post.trans {S1 S2 S3 : Sty} {h1 h2 h3 : Heap} (a : Post S1 h1 S2 h2) (b : Post S2 h2 S3 h3) :
    Post S1 h1 S3 h3 := ⟨b.cons, a.ext.trans b.ext, b.run.trans a.run, a.done.trans b.done⟩

theorem Quiet.post {K : Nat} {S S' : Sty} {hp hp' : Heap} (h : Quiet K S hp) (hC : Cons S hp)
    (hP : Post S hp S' hp') : Quiet K S' hp' := by
  refine ⟨fun c n hc => ?_, fun c n hc => ?_, fun c n hc => ?_⟩
  · obtain ⟨n', h'⟩ := hP.run.hs c n hc
    have hlt : c < S.nh := by rw [hC.nh]; exact (Array.getElem?_eq_some_iff.mp h').1
    rw [hP.ext.hs c hlt]; exact h.hs c n' h'
  · obtain ⟨n', h'⟩ := hP.run.ts c n hc
    have hlt : c < S.nt := by rw [hC.nt]; exact (Array.getElem?_eq_some_iff.mp h').1
    rw [hP.ext.ts c hlt]; exact h.ts c n' h'
  · obtain ⟨n', h'⟩ := hP.run.ls c n hc
    have hlt : c < S.nl := by rw [hC.nl]; exact (Array.getElem?_eq_some_iff.mp h').1
    rw [hP.ext.ls c hlt]; exact h.ls c n' h'

/-- Hoare-style statement: from a heap consistent with `S`, `m` returns normally with `Q` -/
def Spec {X : Type} (m : HM X) (S : Sty) (hp : Heap) (Q : Sty → X → Prop) : Prop :=
  ∀ lg, ∃ v S' hp' lg', m hp lg = (.ok v, hp', lg') ∧ Post S hp S' hp' ∧ Q S' v

theorem Spec.pure {X : Type} {S : Sty} {hp : Heap} {Q : Sty → X → Prop} (hC : Cons S hp) (x : X) (h : Q S x) :
    Spec (pure x : HM X) S hp Q := fun lg => ⟨x, S, hp, lg, rfl, Post.refl hC, h⟩

theorem Spec.bind {X Y : Type} {m : HM X} {f : X → HM Y} {S : Sty} {hp : Heap} {Q : Sty → X → Prop}
    {Q' : Sty → Y → Prop} (hm : Spec m S hp Q)
    (hf : ∀ v S1 hp1, Post S hp S1 hp1 → Q S1 v → Spec (f v) S1 hp1 Q') : Spec (m >>= f) S hp Q' := by
  intro lg
  obtain ⟨v, S1, hp1, lg1, e1, hP1, hQ1⟩ := hm lg
  obtain ⟨w, S2, hp2, lg2, e2, hP2, hQ2⟩ := hf v S1 hp1 hP1 hQ1 lg1
  exact ⟨w, S2, hp2, lg2, by rw [bind_ok e1, e2], hP1.trans hP2, hQ2⟩

theorem Spec.weaken {X : Type} {m : HM X} {S : Sty} {hp : Heap} {Q Q' : Sty → X → Prop} (hm : Spec m S hp Q)
    (h : ∀ S' v, Ext S S' → Q S' v → Q' S' v) : Spec m S hp Q' := by
  intro lg
  obtain ⟨v, S1, hp1, lg1, e1, hP1, hQ1⟩ := hm lg
  exact ⟨v, S1, hp1, lg1, e1, hP1, h S1 v hP1.ext hQ1⟩

theorem Spec.liftG {X : Type} {S : Sty} {hp : Heap} {Q : Sty → X → Prop} (hC : Cons S hp) {g : GoM X} {x : X}
    (hg : ∀ lg, ∃ lg', g.run.run lg = (.ok x, lg')) (h : Q S x) : Spec (IM.liftG g : HM X) S hp Q := by
  intro lg
  obtain ⟨lg', e⟩ := hg lg
  exact ⟨x, S, hp, lg', by simp [IM.liftG, e], Post.refl hC, h⟩

end FpVerif.LL
