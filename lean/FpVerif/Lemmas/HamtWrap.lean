import FpVerif.Lemmas.HamtRefine
/-! The `fp.Map` / `fp.Set` wrapper operations over an immutable (hash-trie) base. -/
set_option linter.unusedSimpArgs false
set_option linter.unusedVariables false
namespace FpVerif.Hamt
variable {K V : Type} {h : Hasher K} [BEq K]

/-- an `fp.Map` backed by the immutable package -/
def hmap (m : Hamt K V) : FMap K V := ⟨some (.hamt m)⟩
/-- an `fp.Set` backed by the immutable package (`immutable.Set`) -/
def hset (m : Hamt K Bool) : FSet K := ⟨.hamt, some (.hamt m)⟩

theorem lookup_congr (hl : LawfulHash h) {k k' : K} (hkk : h.eqv k k' = true) (l : List (K × V)) :
    lookup h k l = lookup h k' l := by
  unfold lookup
  congr 2
  funext e
  exact hl.eqv_congr_right hkk e.1

/-- "last write wins" over a sequence of entries -/
def concatLookup (h : Hasher K) (l : List (K × V)) (k' : K) (base : Option V) : Option V :=
  l.foldl (fun acc e => if h.eqv e.1 k' then some e.2 else acc) base

theorem FMap.get_hmap (hl : LawfulHash h) {m : Hamt K V} (hwf : Hamt.Inv h m) (k : K) :
    (hmap m).get h k = .ok (lookup h k m.toList) := Hamt.get_spec hl hwf k

theorem FMap.updated_hmap (hl : LawfulHash h) {m : Hamt K V} (hwf : Hamt.Inv h m) (k : K) (v : V) :
    ∃ m', (hmap m).updated h k v = .ok (hmap m') ∧ Hamt.Inv h m' ∧
      ∀ k', lookup h k' m'.toList = if h.eqv k k' then some v else lookup h k' m.toList := by
  obtain ⟨m', h1, h2, h3, _⟩ := Hamt.set_spec hl hwf k v false
  exact ⟨m', by simp [hmap, FMap.updated, Hamt.updated, h1, bind, Except.bind, pure, Except.pure], h2, h3⟩

theorem FMap.removed_hmap (hl : LawfulHash h) {m : Hamt K V} (hwf : Hamt.Inv h m) (ks : List K) :
    ∃ m', (hmap m).removed h ks = .ok (hmap m') ∧ Hamt.Inv h m' ∧
      ∀ k', lookup h k' m'.toList = lookupRemoved h ks k' (lookup h k' m.toList) := by
  obtain ⟨m', h1, h2, h3, _⟩ := Hamt.removed_spec hl ks hwf
  exact ⟨m', by simp [hmap, FMap.removed, h1, bind, Except.bind, pure, Except.pure], h2, h3⟩

theorem FMap.updatedWith_hmap (hl : LawfulHash h) {m : Hamt K V} (hwf : Hamt.Inv h m) (k : K)
    (f : Option V → Option V) :
    ∃ m', (hmap m).updatedWith h k f = .ok (hmap m') ∧ Hamt.Inv h m' ∧
      ∀ k', lookup h k' m'.toList = if h.eqv k k' then f (lookup h k m.toList) else lookup h k' m.toList := by
  unfold FMap.updatedWith
  rw [FMap.get_hmap hl hwf]
  simp only [bind, Except.bind]
  cases hf : f (lookup h k m.toList) with
  | some x =>
    obtain ⟨m', h1, h2, h3⟩ := FMap.updated_hmap hl hwf k x
    exact ⟨m', h1, h2, h3⟩
  | none =>
    cases hlk : lookup h k m.toList with
    | none =>
      refine ⟨m, by simp [pure, Except.pure], hwf, ?_⟩
      intro k'; exact lookup_absent hl hlk k'
    | some v0 =>
      obtain ⟨m', h1, h2, h3⟩ := FMap.removed_hmap hl hwf [k]
      refine ⟨m', by simpa using h1, h2, ?_⟩
      intro k'; rw [h3]; simp [lookupRemoved]

theorem FMap.concat_hmap (hl : LawfulHash h) (l : List (K × V)) : ∀ {m : Hamt K V}, Hamt.Inv h m →
    ∃ m', (hmap m).concat h l = .ok (hmap m') ∧ Hamt.Inv h m' ∧
      ∀ k', lookup h k' m'.toList = concatLookup h l k' (lookup h k' m.toList) := by
  induction l with
  | nil => intro m hwf; exact ⟨m, rfl, hwf, fun _ => rfl⟩
  | cons e l ih =>
    intro m hwf
    obtain ⟨m1, h1, hwf1, hl1⟩ := FMap.updated_hmap hl hwf e.1 e.2
    obtain ⟨m2, h2, hwf2, hl2⟩ := ih hwf1
    refine ⟨m2, ?_, hwf2, ?_⟩
    · unfold FMap.concat at h2 ⊢
      rw [List.foldlM_cons, h1]; exact h2
    · intro k'; rw [hl2, hl1]; rfl

-- sets ---------------------------------------------------------------------------------------------

/-- membership of a trie-backed set, as a function of its entries -/
def mem (h : Hasher K) (m : Hamt K Bool) (k : K) : Bool := (lookup h k m.toList).isSome

theorem FSet.contains_hset (hl : LawfulHash h) {m : Hamt K Bool} (hwf : Hamt.Inv h m) (k : K) :
    (hset m).contains h k = .ok (mem h m k) := by
  simp [hset, FSet.contains, SetMin.contains, Hamt.get_spec hl hwf, mem, bind, Except.bind, pure, Except.pure]

theorem mem_congr (hl : LawfulHash h) {k k' : K} (hkk : h.eqv k k' = true) (m : Hamt K Bool) :
    mem h m k = mem h m k' := by unfold mem; rw [lookup_congr hl hkk]

theorem SetMin.incl_hamt (hl : LawfulHash h) {m : Hamt K Bool} (hwf : Hamt.Inv h m) (k : K) :
    ∃ m', (SetMin.hamt m).incl h k = .ok (.hamt m') ∧ Hamt.Inv h m' ∧
      ∀ k', mem h m' k' = (h.eqv k k' || mem h m k') := by
  obtain ⟨m', h1, h2, h3, _⟩ := Hamt.set_spec hl hwf k true false
  refine ⟨m', by simp [SetMin.incl, Hamt.updated, h1, bind, Except.bind, pure, Except.pure], h2, ?_⟩
  intro k'; unfold mem; rw [h3]; cases h.eqv k k' <;> simp

theorem FSet.incl_hset (hl : LawfulHash h) {m : Hamt K Bool} (hwf : Hamt.Inv h m) (k : K) :
    ∃ m', (hset m).incl h k = .ok (hset m') ∧ Hamt.Inv h m' ∧
      ∀ k', mem h m' k' = (h.eqv k k' || mem h m k') := by
  obtain ⟨m', h1, h2, h3⟩ := SetMin.incl_hamt hl hwf k
  exact ⟨m', by simp [hset, FSet.incl, h1, bind, Except.bind, pure, Except.pure], h2, h3⟩

theorem FSet.excl_hset (hl : LawfulHash h) {m : Hamt K Bool} (hwf : Hamt.Inv h m) (k : K) :
    ∃ m', (hset m).excl h k = .ok (hset m') ∧ Hamt.Inv h m' ∧
      ∀ k', mem h m' k' = (!h.eqv k k' && mem h m k') := by
  obtain ⟨m', h1, h2, h3, _⟩ := Hamt.removed_spec hl [k] hwf
  refine ⟨m', by simp [hset, FSet.excl, SetMin.excl, h1, bind, Except.bind, pure, Except.pure], h2, ?_⟩
  intro k'; unfold mem; rw [h3]; simp [lookupRemoved]; cases h.eqv k k' <;> simp

theorem FSet.iterList_hset {m : Hamt K Bool} (hwf : Hamt.Inv h m) :
    (hset m).iterList = .ok (m.toList.map (·.1)) := by
  simp [hset, FSet.iterList, SetMin.iterList, Hamt.iterList_spec hwf, bind, Except.bind, pure, Except.pure]

/-- the loop shared by `Diff` and `Intersect`: include the elements selected by `p` -/
theorem filterFold_spec (hl : LawfulHash h) (p : K → Bool)
    (es : List K) : ∀ {acc : Hamt K Bool}, Hamt.Inv h acc →
    ∃ acc', es.foldlM (fun (ret : SetMin K) e => if p e then ret.incl h e else pure ret) (SetMin.hamt acc)
        = .ok (.hamt acc') ∧ Hamt.Inv h acc' ∧
      ∀ k', mem h acc' k' = (mem h acc k' || es.any (fun e => p e && h.eqv e k')) := by
  induction es with
  | nil => intro acc hwf; exact ⟨acc, rfl, hwf, by simp⟩
  | cons e es ih =>
    intro acc hwf
    rw [List.foldlM_cons]
    cases hp : p e with
    | false =>
      obtain ⟨acc', h1, h2, h3⟩ := ih hwf
      refine ⟨acc', by simpa [pure, Except.pure, bind, Except.bind] using h1, h2, ?_⟩
      intro k'; rw [h3]; simp [hp]
    | true =>
      obtain ⟨acc1, hi1, hwf1, hm1⟩ := SetMin.incl_hamt hl hwf e
      obtain ⟨acc', h1, h2, h3⟩ := ih hwf1
      refine ⟨acc', by simp only [if_true, hi1, bind, Except.bind]; exact h1, h2, ?_⟩
      intro k'; rw [h3, hm1]; simp [hp, Bool.or_assoc, Bool.or_comm]

theorem any_sel (hl : LawfulHash h) {a : Hamt K Bool} (q : K → Bool)
    (hq : ∀ k k', h.eqv k k' = true → q k = q k') (k' : K) :
    (a.toList.map (·.1)).any (fun e => q e && h.eqv e k') = (mem h a k' && q k') := by
  rw [Bool.eq_iff_iff]
  simp only [List.any_eq_true, List.mem_map, Bool.and_eq_true]
  constructor
  · rintro ⟨e, ⟨x, hx, rfl⟩, hqe, hek⟩
    refine ⟨?_, by rw [← hq _ _ hek]; exact hqe⟩
    unfold mem; rw [lookup_isSome_iff]; exact ⟨x, hx, hek⟩
  · rintro ⟨hm, hqk⟩
    unfold mem at hm; rw [lookup_isSome_iff] at hm
    obtain ⟨x, hx, hek⟩ := hm
    exact ⟨x.1, ⟨x, hx, rfl⟩, by rw [hq _ _ hek]; exact hqk, hek⟩

theorem FSet.diff_hset (hl : LawfulHash h) {a b : Hamt K Bool} (ha : Hamt.Inv h a) (hb : Hamt.Inv h b) :
    ∃ r, (hset a).diff h (hset b) = .ok (hset r) ∧ Hamt.Inv h r ∧
      ∀ k, mem h r k = (mem h a k && !mem h b k) := by
  obtain ⟨r, h1, h2, h3⟩ := filterFold_spec hl (fun e => !mem h b e)
    (a.toList.map (·.1)) (Hamt.Inv_empty (h := h) (V := Bool))
  refine ⟨r, ?_, h2, ?_⟩
  · unfold FSet.diff
    rw [FSet.iterList_hset ha]
    have hfun : (fun (ret : SetMin K) e => do
          if (!(← (hset b).contains h e)) = true then ret.incl h e else pure ret) =
        (fun (ret : SetMin K) e => if (!mem h b e) = true then ret.incl h e else pure ret) := by
      funext ret e
      rw [FSet.contains_hset hl hb]; rfl
    rw [hfun]
    simp only [bind, Except.bind]
    have hce : (hset a).callGetEmpty = SetMin.hamt Hamt.empty := rfl
    rw [hce, h1]
    rfl
  · intro k
    rw [h3, any_sel hl (fun e => !mem h b e) (fun k k' hkk => by simp [mem_congr hl hkk])]
    simp [mem, Hamt.toList_empty, lookup_nil]

theorem FSet.intersect_hset (hl : LawfulHash h) {a b : Hamt K Bool} (ha : Hamt.Inv h a) (hb : Hamt.Inv h b) :
    ∃ r, (hset a).intersect h (hset b) = .ok (hset r) ∧ Hamt.Inv h r ∧
      ∀ k, mem h r k = (mem h a k && mem h b k) := by
  obtain ⟨r, h1, h2, h3⟩ := filterFold_spec hl (fun e => mem h b e)
    (a.toList.map (·.1)) (Hamt.Inv_empty (h := h) (V := Bool))
  refine ⟨r, ?_, h2, ?_⟩
  · unfold FSet.intersect
    rw [FSet.iterList_hset ha]
    have hfun : (fun (ret : SetMin K) e => do
          if (← (hset b).contains h e) = true then ret.incl h e else pure ret) =
        (fun (ret : SetMin K) e => if mem h b e = true then ret.incl h e else pure ret) := by
      funext ret e
      rw [FSet.contains_hset hl hb]; rfl
    rw [hfun]
    simp only [bind, Except.bind]
    have hce : (hset a).callGetEmpty = SetMin.hamt Hamt.empty := rfl
    rw [hce, h1]
    rfl
  · intro k
    rw [h3, any_sel hl (fun e => mem h b e) (fun k k' hkk => mem_congr hl hkk b)]
    simp [mem, Hamt.toList_empty, lookup_nil]

theorem subsetGo_spec (hl : LawfulHash h) {b : Hamt K Bool} (hb : Hamt.Inv h b) (es : List K) :
    FSet.subsetOf.go h (hset b) es = .ok (es.all (fun e => mem h b e)) := by
  induction es with
  | nil => rfl
  | cons e es ih =>
    rw [FSet.subsetOf.go, FSet.contains_hset hl hb]
    simp only [bind, Except.bind]
    cases hm : mem h b e with
    | true => simp [ih, hm]
    | false => simp [hm, pure, Except.pure]

theorem FSet.subsetOf_hset (hl : LawfulHash h) {a b : Hamt K Bool} (ha : Hamt.Inv h a) (hb : Hamt.Inv h b) :
    ∃ r, (hset a).subsetOf h (hset b) = .ok r ∧ (r = true ↔ ∀ k, mem h a k = true → mem h b k = true) := by
  refine ⟨(a.toList.map (·.1)).all (fun e => mem h b e), ?_, ?_⟩
  · unfold FSet.subsetOf
    rw [FSet.iterList_hset ha]
    simp only [bind, Except.bind]
    exact subsetGo_spec hl hb _
  · simp only [List.all_eq_true, List.mem_map]
    constructor
    · intro hall k hk
      unfold mem at hk; rw [lookup_isSome_iff] at hk
      obtain ⟨x, hx, hek⟩ := hk
      rw [← mem_congr hl hek]
      exact hall x.1 ⟨x, hx, rfl⟩
    · rintro hall e ⟨x, hx, rfl⟩
      apply hall
      unfold mem; rw [lookup_isSome_iff]; exact ⟨x, hx, hl.refl _⟩

-- constructors / builders ------------------------------------------------------------------------------

omit [BEq K] in
theorem builderFold_spec (hl : LawfulHash h) (t : List (K × V)) : ∀ {m : Hamt K V}, Hamt.Inv h m →
    ∃ m', t.foldlM (fun (b : MapBuilder K V) kv => b.add h kv.1 kv.2) ⟨some m⟩ = .ok ⟨some m'⟩ ∧ Hamt.Inv h m' ∧
      ∀ k', lookup h k' m'.toList = concatLookup h t k' (lookup h k' m.toList) := by
  induction t with
  | nil => intro m hwf; exact ⟨m, rfl, hwf, fun _ => rfl⟩
  | cons e t ih =>
    intro m hwf
    obtain ⟨m1, h1, hwf1, hl1, _⟩ := Hamt.set_spec hl hwf e.1 e.2 true
    obtain ⟨m2, h2, hwf2, hl2⟩ := ih hwf1
    refine ⟨m2, ?_, hwf2, ?_⟩
    · rw [List.foldlM_cons]
      simp only [MapBuilder.add, h1, bind, Except.bind, pure, Except.pure]
      exact h2
    · intro k'; rw [hl2, hl1]; rfl

omit [BEq K] in
/-- `immutable.Map(hasher, tuples...)` / `MapBuilder` + `Add`... + `Build`: later tuples win -/
theorem Hamt.ofList_spec (hl : LawfulHash h) (t : List (K × V)) :
    ∃ m, Hamt.ofList h t = .ok m ∧ Hamt.Inv h m ∧
      ∀ k', lookup h k' m.toList = concatLookup h t k' none := by
  unfold Hamt.ofList
  by_cases ht : t.length > 0
  · obtain ⟨m, h1, h2, h3⟩ := builderFold_spec hl t (Hamt.Inv_empty (h := h) (V := V))
    refine ⟨m, ?_, h2, ?_⟩
    · simp only [ht, if_true, MapBuilder.new, h1, bind, Except.bind, MapBuilder.build, pure, Except.pure]
    · intro k'; rw [h3]; rfl
  · have : t = [] := List.eq_nil_of_length_eq_zero (by omega)
    subst this
    exact ⟨Hamt.empty, by simp [pure, Except.pure], Hamt.Inv_empty, fun _ => rfl⟩

end FpVerif.Hamt
