import FpVerif.Lemmas.CollListDenMemo
import FpVerif.Lemmas.CollListDenTy
import FpVerif.Lemmas.CollListDenTot
/-!
# Lazy list over `El`: the library calls of an `LX` program evaluate to a heap value that
  traverses to the program's denotation

`LX.OK e`: the callbacks of `e` do not panic and `e` is well-typed (`Ap`'s / `Flap`'s first list
holds function values, `Flatten`'s list holds collections).  `LX.bnd e`: the fuel that `e` needs.

* `evalF_spec`: on a well-typed heap, `e.evalF fuel` returns a value typed with `e.den`;
* `lx_evalF_den` / `lx_eval_den`: from the empty heap, `toSeq` of the value returns `e.den`, no
  closure was started twice.

ALL fourteen constructors of `LX` are covered.
-/
namespace FpVerif.Coll
open FpVerif.It IM

/-! ## callbacks -/

theorem tot_pureG {X : Type} [Inhabited X] {m : GoM X} {v : X} (h : ∀ lg, ∃ lg', m.run.run lg = (.ok v, lg')) :
    ∀ lg, ∃ lg', m.run.run lg = (.ok (pureG m), lg') := by
  obtain ⟨lg0, h0⟩ := h []
  rw [pureG_of_run h0]; exact h

/-- `do let y ← m; pure (.v y)` is total when `m` is, and computes `.v (pureG m)` -/
theorem tot_bind_v {m : GoM Val} (h : ∀ lg, ∃ lg', m.run.run lg = (.ok (pureG m), lg')) :
    ∀ lg, ∃ lg', (do let y ← m; pure (El.v y) : GoM El).run.run lg = (.ok (El.v (pureG m)), lg') := by
  have hT : Total (fun (_ : Unit) => m) (fun _ => pureG m) := fun _ lg => h lg
  exact fun lg => total_bind_pure hT El.v () lg

theorem pureG_bind_v {m : GoM Val} (h : ∀ lg, ∃ lg', m.run.run lg = (.ok (pureG m), lg')) :
    pureG (do let y ← m; pure (El.v y) : GoM El) = El.v (pureG m) := by
  obtain ⟨lg', h'⟩ := tot_bind_v h []
  exact pureG_of_run h'

theorem Fn.Tot.c2 (g : Val → Val → GoM Val) : (Fn.c2 g).Tot := fun _ lg => ⟨lg, rfl⟩
theorem Fn.Tot.c3 (h : Val → Val → Val → GoM Val) : (Fn.c3 h).Tot := fun _ lg => ⟨lg, rfl⟩
theorem Fn.Tot.c3a (h : Val → Val → Val → GoM Val) (a : Val) : (Fn.c3a h a).Tot := fun _ lg => ⟨lg, rfl⟩
theorem Fn.Tot.rep (id : Int) (n : Nat) : (Fn.rep id n).Tot := fun x lg => ⟨lg ++ [s!"f{id}:{x.val}"], rfl⟩

theorem Fn.Tot.c2a {g : Val → Val → GoM Val} (hg : G2Tot g) (a : Val) : (Fn.c2a g a).Tot := by
  intro x
  exact tot_pureG (tot_bind_v (hg a x.val))

theorem Fn.Tot.c3ab {h : Val → Val → Val → GoM Val} (hh : G3Tot h) (a b : Val) : (Fn.c3ab h a b).Tot := by
  intro x
  exact tot_pureG (tot_bind_v (hh a b x.val))

theorem Fn.Tot.u1 {f : Val → GoM Val} {g : Val → Val} (hf : Total f g) : (Fn.u1 f).Tot := by
  intro x
  exact tot_pureG (tot_bind_v (tot_pureG (hf x.val)))

/-! ## well-typed, non-panicking programs and their fuel -/

/-- every element is a function value whose application never panics -/
def AllFn (xs : List El) : Prop := ∀ y, y ∈ xs → ∃ f, y = .fn f ∧ f.Tot

def LX.OK : LX → Prop
  | .of _ => True
  | .map e f => e.OK ∧ f.Tot
  | .lift f e => e.OK ∧ f.Tot
  | .flatMap e k => e.OK ∧ KTot k
  | .compose k1 k2 _ => KTot k1 ∧ KTot k2
  | .composePure f _ => f.Tot
  | .flatten e => e.OK ∧ ∀ y, y ∈ e.den → ∃ tag xs, y = .coll tag xs
  | .ap t a => t.OK ∧ a.OK ∧ AllFn t.den
  | .map2 a b g => a.OK ∧ b.OK ∧ G2Tot g
  | .flap t _ => t.OK ∧ AllFn t.den
  | .flap2 t a _ => t.OK ∧ ∀ y, y ∈ t.den → ∃ f, y = .fn f ∧ f.Tot ∧ ∃ f', fnP f a = .fn f' ∧ f'.Tot
  | .flapMap g a _ => a.OK ∧ G2Tot g
  | .method1 ta g _ => ta.OK ∧ G2Tot g
  | .method2 ta h _ _ => ta.OK ∧ G3Tot h

/-- fuel that evaluating the program needs = bound of the resulting list value -/
def LX.bnd : LX → Nat
  | .of _ => 1
  | .map e _ => e.bnd + 4
  | .lift _ e => e.bnd + 4
  | .flatMap e _ => FMB e.bnd 1 e.den.length
  | .compose k1 _ a => FMB 1 1 (pureG (k1 a.val)).length
  | .composePure _ _ => 1
  | .flatten e => FMB e.bnd 1 e.den.length
  | .ap t a => FMB t.bnd (a.bnd + 4) t.den.length
  | .map2 a b _ => FMB a.bnd (b.bnd + 4) a.den.length
  | .flap t _ => FMB t.bnd 5 t.den.length
  | .flap2 t _ _ => FMB (FMB t.bnd 5 t.den.length) 5 t.den.length
  | .flapMap _ a _ => FMB (a.bnd + 4) 5 a.den.length
  | .method1 ta _ _ => FMB (ta.bnd + 4) 5 ta.den.length
  | .method2 ta _ _ _ => FMB (FMB (ta.bnd + 4) 5 ta.den.length) 5 ta.den.length

theorem flatMap_singleton {α β : Type} (g : α → β) (xs : List α) : xs.flatMap (fun f => [g f]) = xs.map g := by
  induction xs with
  | nil => rfl
  | cons x xs ih => simp only [List.flatMap_cons, List.map_cons, ih]; rfl

/-! ## the derived combinators, typed -/

/-- `Ap(t, Of(a))` (the body of `Flap`) over a typed list of function values -/
theorem spec_flap (fuel : Nat) {S : Sty} {hp : Heap} (hC : Cons S hp) {lt : LV} {ys : List El} {Ks : Nat}
    (hV : VDen S lt ys Ks) (a : El) (hfn : AllFn ys)
    (hn : FMB Ks 5 ys.length ≤ fuel) (hQ : Quiet (FMB Ks 5 ys.length) S hp) :
    Spec (lAp fuel lt (lOf [a])) S hp
      (fun S' v => VDen S' v (ys.map (fun f => appElP f a)) (FMB Ks 5 ys.length)) := by
  have h := (totAll fuel).flatMap S hp lt (.apInner (lOf [a])) (fun f => [appElP f a]) ys Ks 5 hC hV
    (fun y hy => by
      obtain ⟨f, rfl, hf⟩ := hfn y hy
      exact ⟨[a], 1, f, ⟨rfl, Nat.le_refl _⟩, rfl, hf, rfl, Nat.le_refl _⟩)
    (by omega) hn hQ
  rw [flatMap_singleton] at h
  exact h

/-! ## evaluation of a program on a well-typed heap -/

theorem evalF_spec (fuel : Nat) : ∀ e : LX, e.OK → ∀ S hp, Cons S hp → e.bnd ≤ fuel → Quiet e.bnd S hp →
    Spec (e.evalF fuel) S hp (fun S' v => VDen S' v e.den e.bnd) := by
  have hFMB : ∀ a b c, FMB a b c = a + b + 4 * c + 4 := fun _ _ _ => rfl
  intro e
  induction e with
  | of xs =>
    intro _ S hp hC _ _
    exact Spec.pure hC _ ⟨rfl, Nat.le_refl _⟩
  | map e f ih =>
    intro hOK S hp hC hn hQ
    simp only [LX.bnd] at hn hQ ⊢
    simp only [LX.evalF, LX.den]
    refine Spec.bind (ih hOK.1 S hp hC (by omega) (hQ.mono (by omega))) (fun l S1 hp1 hP1 hV => ?_)
    exact spec_mkMap hP1.cons hV hOK.2
  | lift f e ih =>
    intro hOK S hp hC hn hQ
    simp only [LX.bnd] at hn hQ ⊢
    simp only [LX.evalF, LX.den, lLift]
    refine Spec.bind (ih hOK.1 S hp hC (by omega) (hQ.mono (by omega))) (fun l S1 hp1 hP1 hV => ?_)
    exact spec_mkMap hP1.cons hV hOK.2
  | flatMap e k ih =>
    intro hOK S hp hC hn hQ
    simp only [LX.bnd] at hn hQ ⊢
    simp only [LX.evalF, LX.den]
    refine Spec.bind (ih hOK.1 S hp hC (by rw [hFMB] at hn; omega) (hQ.mono (by rw [hFMB]; omega)))
      (fun l S1 hp1 hP1 hV => ?_)
    exact (totAll fuel).flatMap S1 hp1 l (.user k) (fun x => pureG (k x.val)) e.den e.bnd 1 hP1.cons hV
      (fun y _ => ⟨hOK.2 y.val, Nat.le_refl _⟩) (Nat.le_refl _) hn (hQ.post hC hP1)
  | compose k1 k2 a =>
    intro hOK S hp hC hn hQ
    simp only [LX.bnd] at hn hQ ⊢
    simp only [LX.evalF, LX.den, lCompose]
    refine Spec.bind (Spec.liftG (Q := fun _ o => o = pureG (k1 a.val)) hC (hOK.1 a.val) rfl)
      (fun xs S1 hp1 hP1 hxs => ?_)
    subst hxs
    exact (totAll fuel).flatMap S1 hp1 (.seq (pureG (k1 a.val))) (.user k2) (fun x => pureG (k2 x.val)) _ 1 1
      hP1.cons ⟨rfl, Nat.le_refl _⟩ (fun y _ => ⟨hOK.2 y.val, Nat.le_refl _⟩) (Nat.le_refl _) hn (hQ.post hC hP1)
  | composePure f a =>
    intro hOK S hp hC hn hQ
    simp only [LX.evalF, LX.den, lComposePure]
    refine Spec.bind (Spec.liftG (Q := fun _ o => o = fnP f a) hC (hOK a) rfl) (fun b S1 hp1 hP1 hb => ?_)
    subst hb
    exact Spec.pure hP1.cons _ ⟨rfl, Nat.le_refl _⟩
  | flatten e ih =>
    intro hOK S hp hC hn hQ
    simp only [LX.bnd] at hn hQ ⊢
    simp only [LX.evalF, LX.den, lFlatten]
    refine Spec.bind (ih hOK.1 S hp hC (by rw [hFMB] at hn; omega) (hQ.mono (by rw [hFMB]; omega)))
      (fun l S1 hp1 hP1 hV => ?_)
    exact (totAll fuel).flatMap S1 hp1 l .ident collOfP e.den e.bnd 1 hP1.cons hV
      (fun y hy => by
        obtain ⟨tag, xs, rfl⟩ := hOK.2 y hy
        exact ⟨⟨tag, xs, rfl, rfl⟩, Nat.le_refl _⟩)
      (Nat.le_refl _) hn (hQ.post hC hP1)
  | ap t a iht iha =>
    intro hOK S hp hC hn hQ
    obtain ⟨hOKt, hOKa, hfn⟩ := hOK
    simp only [LX.bnd] at hn hQ ⊢
    simp only [LX.evalF, LX.den, lAp]
    refine Spec.bind (iht hOKt S hp hC (by rw [hFMB] at hn; omega) (hQ.mono (by rw [hFMB]; omega)))
      (fun lt S1 hp1 hP1 hVt => ?_)
    refine Spec.bind (iha hOKa S1 hp1 hP1.cons (by rw [hFMB] at hn; omega) ((hQ.post hC hP1).mono (by rw [hFMB]; omega)))
      (fun la S2 hp2 hP2 hVa => ?_)
    exact (totAll fuel).flatMap S2 hp2 lt (.apInner la) (fun f => a.den.map (fun x => appElP f x)) t.den t.bnd
      (a.bnd + 4) hP2.cons (hVt.ext hP2.ext)
      (fun y hy => by
        obtain ⟨f, rfl, hf⟩ := hfn y hy
        exact ⟨a.den, a.bnd, f, hVa, rfl, hf, rfl, Nat.le_refl _⟩)
      (by omega) hn (hQ.post hC (hP1.trans hP2))
  | map2 a b g iha ihb =>
    intro hOK S hp hC hn hQ
    obtain ⟨hOKa, hOKb, hg⟩ := hOK
    simp only [LX.bnd] at hn hQ ⊢
    simp only [LX.evalF, LX.den, lMap2]
    refine Spec.bind (iha hOKa S hp hC (by rw [hFMB] at hn; omega) (hQ.mono (by rw [hFMB]; omega)))
      (fun la S1 hp1 hP1 hVa => ?_)
    refine Spec.bind (ihb hOKb S1 hp1 hP1.cons (by rw [hFMB] at hn; omega) ((hQ.post hC hP1).mono (by rw [hFMB]; omega)))
      (fun lb S2 hp2 hP2 hVb => ?_)
    exact (totAll fuel).flatMap S2 hp2 la (.map2Inner lb g) (fun x => b.den.map (fun y => pureG (elF2 g x y))) a.den a.bnd
      (b.bnd + 4) hP2.cons (hVa.ext hP2.ext)
      (fun y _ => ⟨b.den, b.bnd, hVb, Fn.Tot.c2a hg y.val, rfl, Nat.le_refl _⟩)
      (by omega) hn (hQ.post hC (hP1.trans hP2))
  | flap t a ih =>
    intro hOK S hp hC hn hQ
    simp only [LX.bnd] at hn hQ ⊢
    simp only [LX.evalF, LX.den, lFlap]
    refine Spec.bind (ih hOK.1 S hp hC (by rw [hFMB] at hn; omega) (hQ.mono (by rw [hFMB]; omega)))
      (fun lt S1 hp1 hP1 hVt => ?_)
    exact spec_flap fuel hP1.cons hVt a hOK.2 hn (hQ.post hC hP1)
  | flap2 t a b ih =>
    intro hOK S hp hC hn hQ
    obtain ⟨hOKt, hfn⟩ := hOK
    simp only [LX.bnd] at hn hQ ⊢
    simp only [LX.evalF, LX.den, lFlap2, lFlap]
    have hn1 : FMB t.bnd 5 t.den.length ≤ fuel := by rw [hFMB] at hn; omega
    refine Spec.bind (ih hOKt S hp hC (by rw [hFMB] at hn1; omega) (hQ.mono (by rw [hFMB, hFMB]; omega)))
      (fun lt S1 hp1 hP1 hVt => ?_)
    refine Spec.bind (spec_flap fuel hP1.cons hVt a (fun y hy => by
        obtain ⟨f, rfl, hf, _⟩ := hfn y hy; exact ⟨f, rfl, hf⟩) hn1
      ((hQ.post hC hP1).mono (by rw [hFMB (FMB _ _ _)]; omega))) (fun t1 S2 hp2 hP2 hV1 => ?_)
    have hlen : (t.den.map (fun f => appElP f a)).length = t.den.length := List.length_map _
    have h := spec_flap fuel hP2.cons hV1 b (fun y' hy' => by
        obtain ⟨y, hy, rfl⟩ := List.mem_map.mp hy'
        obtain ⟨f, rfl, _, f', hf', hT'⟩ := hfn y hy
        exact ⟨f', hf', hT'⟩) (by rw [hlen]; exact hn) (by rw [hlen]; exact hQ.post hC (hP1.trans hP2))
    rw [hlen, List.map_map] at h
    exact h
  | flapMap g a b ih =>
    intro hOK S hp hC hn hQ
    simp only [LX.bnd] at hn hQ ⊢
    simp only [LX.evalF, LX.den, lFlapMap, lFlap]
    refine Spec.bind (ih hOK.1 S hp hC (by rw [hFMB] at hn; omega) (hQ.mono (by rw [hFMB]; omega)))
      (fun la S1 hp1 hP1 hVa => ?_)
    refine Spec.bind (spec_mkMap hP1.cons hVa (Fn.Tot.c2 g)) (fun m S2 hp2 hP2 hVm => ?_)
    have hlen : (a.den.map (fnP (.c2 g))).length = a.den.length := List.length_map _
    have h := spec_flap fuel hP2.cons hVm b (fun y' hy' => by
        obtain ⟨y, _, rfl⟩ := List.mem_map.mp hy'
        exact ⟨.c2a g y.val, rfl, Fn.Tot.c2a hOK.2 y.val⟩) (by rw [hlen]; exact hn)
      (by rw [hlen]; exact hQ.post hC (hP1.trans hP2))
    rw [hlen, List.map_map] at h
    exact h
  | method1 ta g b ih =>
    intro hOK S hp hC hn hQ
    simp only [LX.bnd] at hn hQ ⊢
    simp only [LX.evalF, LX.den, lMethod1, lFlapMap, lFlap]
    refine Spec.bind (ih hOK.1 S hp hC (by rw [hFMB] at hn; omega) (hQ.mono (by rw [hFMB]; omega)))
      (fun la S1 hp1 hP1 hVa => ?_)
    refine Spec.bind (spec_mkMap hP1.cons hVa (Fn.Tot.c2 g)) (fun m S2 hp2 hP2 hVm => ?_)
    have hlen : (ta.den.map (fnP (.c2 g))).length = ta.den.length := List.length_map _
    have h := spec_flap fuel hP2.cons hVm b (fun y' hy' => by
        obtain ⟨y, _, rfl⟩ := List.mem_map.mp hy'
        exact ⟨.c2a g y.val, rfl, Fn.Tot.c2a hOK.2 y.val⟩) (by rw [hlen]; exact hn)
      (by rw [hlen]; exact hQ.post hC (hP1.trans hP2))
    rw [hlen, List.map_map] at h
    exact h
  | method2 ta h b c ih =>
    intro hOK S hp hC hn hQ
    simp only [LX.bnd] at hn hQ ⊢
    simp only [LX.evalF, LX.den, lMethod2, lFlap2, lFlap]
    have hn1 : FMB (ta.bnd + 4) 5 ta.den.length ≤ fuel := by rw [hFMB] at hn; omega
    refine Spec.bind (ih hOK.1 S hp hC (by rw [hFMB] at hn1; omega) (hQ.mono (by rw [hFMB, hFMB]; omega)))
      (fun la S1 hp1 hP1 hVa => ?_)
    refine Spec.bind (spec_mkMap hP1.cons hVa (Fn.Tot.c3 h)) (fun m S2 hp2 hP2 hVm => ?_)
    have hP12 := hP1.trans hP2
    have hlen : (ta.den.map (fnP (.c3 h))).length = ta.den.length := List.length_map _
    have h1 := spec_flap fuel hP2.cons hVm b (fun y' hy' => by
        obtain ⟨y, _, rfl⟩ := List.mem_map.mp hy'
        exact ⟨.c3a h y.val, rfl, Fn.Tot.c3a h y.val⟩) (by rw [hlen]; exact hn1)
      (by rw [hlen]; exact (hQ.post hC hP12).mono (by rw [hFMB (FMB _ _ _)]; omega))
    rw [hlen, List.map_map] at h1
    refine Spec.bind h1 (fun t1 S3 hp3 hP3 hV1 => ?_)
    have hlen2 : (ta.den.map ((fun f => appElP f b) ∘ fnP (.c3 h))).length = ta.den.length := List.length_map _
    have h2 := spec_flap fuel hP3.cons hV1 c (fun y' hy' => by
        obtain ⟨y, _, rfl⟩ := List.mem_map.mp hy'
        exact ⟨.c3ab h y.val b.val, rfl, Fn.Tot.c3ab hOK.2 y.val b.val⟩) (by rw [hlen2]; exact hn)
      (by rw [hlen2]; exact hQ.post hC (hP12.trans hP3))
    rw [hlen2, List.map_map] at h2
    refine h2.weaken (fun S' v _ hv => ?_)
    have heq : ta.den.map ((fun f => appElP f c) ∘ (fun f => appElP f b) ∘ fnP (.c3 h)) =
        ta.den.map (fun x => El.v (pureG (h x.val b.val c.val))) := by
      apply List.map_congr_left
      intro x _
      exact pureG_bind_v (hOK.2 x.val b.val c.val)
    rw [← heq]; exact hv

/-! ## from the typing to the traversal -/

/-- the heap is consistent with the typing `S` and no `sync.Once` is currently executing -/
structure WellTyped (S : Sty) (hp : Heap) : Prop where
  cons : Cons S hp
  idle : RunSub hp {}

theorem WellTyped.empty : WellTyped Sty.empty {} := ⟨Cons.empty, RunSub.refl _⟩

theorem WellTyped.quiet {S : Sty} {hp : Heap} (h : WellTyped S hp) (K : Nat) : Quiet K S hp := by
  refine ⟨fun c n hc => ?_, fun c n hc => ?_, fun c n hc => ?_⟩
  · obtain ⟨_, h'⟩ := h.idle.hs c n hc; simp at h'
  · obtain ⟨_, h'⟩ := h.idle.ts c n hc; simp at h'
  · obtain ⟨_, h'⟩ := h.idle.ls c n hc; simp at h'

theorem WellTyped.post {S S' : Sty} {hp hp' : Heap} (h : WellTyped S hp) (hP : Post S hp S' hp') :
    WellTyped S' hp' := ⟨hP.cons, hP.run.trans h.idle⟩

/-- the cursor loop over a typed value returns the denotation -/
theorem toSeq_typed : ∀ (xs : List El) (fuel : Nat) (S : Sty) (hp : Heap) (l : LV) (acc : List El) (K : Nat) (lg : Log),
    WellTyped S hp → VDen S l xs K → K + xs.length < fuel →
    ∃ hp' lg', Coll.toSeq fuel l acc hp lg = (.ok (acc ++ xs), hp', lg') := by
  intro xs
  induction xs with
  | nil =>
    intro fuel S hp l acc K lg hW hV hf
    obtain ⟨f, rfl⟩ := Nat.exists_eq_succ_of_ne_zero (by omega : fuel ≠ 0)
    obtain ⟨b, S1, hp1, lg1, h1, _, hb⟩ := (totAll f).isEmpty S hp l [] K hW.cons hV (by simp at hf; omega) (hW.quiet K) lg
    subst hb
    exact ⟨hp1, lg1, by simp [Coll.toSeq, bind_ok h1]⟩
  | cons x xs ih =>
    intro fuel S hp l acc K lg hW hV hf
    obtain ⟨f, rfl⟩ := Nat.exists_eq_succ_of_ne_zero (by omega : fuel ≠ 0)
    have hk : K ≤ f := by simp at hf; omega
    obtain ⟨b, S1, hp1, lg1, h1, hP1, hb⟩ := (totAll f).isEmpty S hp l (x :: xs) K hW.cons hV hk (hW.quiet K) lg
    subst hb
    have hW1 := hW.post hP1
    obtain ⟨v, S2, hp2, lg2, h2, hP2, hv⟩ :=
      (totAll f).head S1 hp1 l (x :: xs) K x hW1.cons (hV.ext hP1.ext) rfl hk (hW1.quiet K) lg1
    rw [hv] at h2
    have hW2 := hW1.post hP2
    obtain ⟨t, S3, hp3, lg3, h3, hP3, hVt⟩ :=
      (totAll f).tail S2 hp2 l (x :: xs) K hW2.cons (hV.ext (hP1.ext.trans hP2.ext)) rfl hk (hW2.quiet K) lg2
    obtain ⟨hp', lg', h4⟩ := ih f S3 hp3 t (acc ++ [x]) K lg3 (hW2.post hP3) hVt (by simp at hf ⊢; omega)
    exact ⟨hp', lg', by simp [Coll.toSeq, bind_ok h1, bind_ok h2, bind_ok h3, h4]⟩

/-- evaluating a program in a well-typed heap: a well-typed heap and a value typed with the
    program's denotation (the typing only grows: values typed before stay typed, `VDen.ext`) -/
theorem evalF_typed (e : LX) (hOK : e.OK) (S : Sty) (hp : Heap) (hW : WellTyped S hp)
    (fuel : Nat) (hfuel : e.bnd ≤ fuel) (lg : Log) :
    ∃ l S' hp' lg', e.evalF fuel hp lg = (.ok l, hp', lg') ∧ WellTyped S' hp' ∧ Ext S S' ∧
      VDen S' l e.den e.bnd := by
  obtain ⟨l, S', hp', lg', he, hP, hV⟩ := evalF_spec fuel e hOK S hp hW.cons hfuel (hW.quiet _) lg
  exact ⟨l, S', hp', lg', he, hW.post hP, hP.ext, hV⟩

/-- THE theorem (arbitrary fuel): a well-typed program whose callbacks do not panic evaluates,
    from the empty heap, to a list value whose traversal returns the program's denotation; no
    closure is started twice. -/
theorem lx_evalF_den (e : LX) (hOK : e.OK) (fuel : Nat) (hfuel : e.bnd + e.den.length < fuel) (lg : Log) :
    ∃ l hp lg1 hp' lg', e.evalF fuel {} lg = (.ok l, hp, lg1) ∧
      Coll.toSeq fuel l [] hp lg1 = (.ok e.den, hp', lg') ∧ hp'.maxEvals ≤ 1 := by
  obtain ⟨l, S', hp, lg1, he, hW, _, hV⟩ := evalF_typed e hOK _ _ WellTyped.empty fuel (by omega) lg
  obtain ⟨hp', lg', ht⟩ := toSeq_typed e.den fuel S' hp l [] e.bnd lg1 hW hV hfuel
  refine ⟨l, hp, lg1, hp', lg', he, by simpa using ht, ?_⟩
  have h1 := pres_evalF fuel e {} lg Heap.WF.empty
  rw [he] at h1
  have h2 := pres_toSeq fuel l [] hp lg1 h1
  rw [ht] at h2
  exact WF.maxEvals_le hp' h2

/-- THE theorem for the oracle's `LX.eval` (fuel `FUEL`) -/
theorem lx_eval_den (e : LX) (hOK : e.OK) (hfuel : e.bnd + e.den.length < FUEL) (lg : Log) :
    ∃ l hp lg1 hp' lg', e.eval {} lg = (.ok l, hp, lg1) ∧
      Coll.toSeq FUEL l [] hp lg1 = (.ok e.den, hp', lg') ∧ hp'.maxEvals ≤ 1 := by
  rw [LX.eval_eq_evalF]
  exact lx_evalF_den e hOK FUEL hfuel lg

/-! ## the side conditions are satisfiable (non-vacuity) -/

/-- `Ap(Map(Of(xs), Curried2(g)), Of(ys))` is well-typed as soon as `g` does not panic -/
theorem ok_ap_curried (g : Val → Val → GoM Val) (hg : G2Tot g) (xs ys : List El) :
    (LX.ap (.map (.of xs) (.c2 g)) (.of ys)).OK := by
  refine ⟨⟨trivial, Fn.Tot.c2 g⟩, trivial, ?_⟩
  intro y hy
  obtain ⟨x, _, rfl⟩ := List.mem_map.mp hy
  exact ⟨.c2a g x.val, rfl, Fn.Tot.c2a hg x.val⟩

/-- `Flatten(Map(Of(xs), rep))` (a list of lists) is well-typed -/
theorem ok_flatten_rep (id : Int) (n : Nat) (xs : List El) :
    (LX.flatten (.map (.of xs) (.rep id n))).OK := by
  refine ⟨⟨trivial, Fn.Tot.rep id n⟩, ?_⟩
  intro y hy
  obtain ⟨x, _, rfl⟩ := List.mem_map.mp hy
  exact ⟨none, repList x.val n, rfl⟩

theorem ok_method2 (h : Val → Val → Val → GoM Val) (hh : G3Tot h) (xs : List El) (b c : El) :
    (LX.method2 (.of xs) h b c).OK := ⟨trivial, hh⟩

end FpVerif.Coll
