import FpVerif.Model.Record
import FpVerif.Lemmas.RecordMask
import FpVerif.Lemmas.Record
import FpVerif.Lemmas.RecordMap
/-!
# Builder semantics, the builder method table, and the missing directions of the Labelled / Map
round trips: definitions and helper lemmas for C07 (audit finding 21).  Core Lean only.

Nothing here changes `Model/Record.lean`; every definition below is NEW and is related to the model's
definitions by a theorem.

## The builder (`cmd/gombok/gombok.go` `genBuilder`)

The generated code is

    type TBuilder T
    func (r T) Builder() TBuilder { return TBuilder(r) }
    func (r TBuilder) Build() T   { return T(r) }
    func (r TBuilder) F(v FT) TBuilder      { r.f = v; return r }              // one per PRIVATE field
    func (r TBuilder) SomeF(v E) TBuilder   { r.f = option.Some(v); return r } // private Option fields
    func (r TBuilder) NoneF() TBuilder      { r.f = option.None[E](); return r }

A builder is therefore a record in which a field that was never assigned holds the Go zero value of
its type: a *partial* record (`PBuilder`, `none` = never assigned) whose `Build` fills the holes with
`Field.zero`.  `T{}.Builder()` / `TBuilder{}` is the everywhere-undefined partial record (`pbEmpty`),
`x.Builder()` is the everywhere-defined one (`pbOf x`).
-/
namespace FpVerif.Rec

/-- Builder state as a partial record; `none` = the field has not been assigned (it holds its zero value). -/
abbrev PBuilder := List (Option RV)

/-- `TBuilder{}` (= `T{}.Builder()`): nothing assigned -/
def pbEmpty (s : StructSpec) : PBuilder := s.fields.map (fun _ => none)

/-- `x.Builder()`: every field assigned from `x` -/
def pbOf (x : Rec) : PBuilder := x.map some

/-- the setter of field `i`: `r.f = v; return r` -/
def pbSet (i : Nat) (v : RV) (b : PBuilder) : PBuilder := List.set b i (some v)

/-- `Build()`: the conversion `T(r)`; a field never assigned reads as the zero value of its type -/
def pbBuild : List Field → PBuilder → Rec
  | f :: fs, o :: os => o.getD f.zero :: pbBuild fs os
  | _, _ => []

/-- a chain of setter calls `b.F1(v1).F2(v2)…`, as (field index, argument) pairs in call order -/
def pbSetAll (ps : List (Nat × RV)) (b : PBuilder) : PBuilder := ps.foldl (fun b p => pbSet p.1 p.2 b) b

/-- the argument of the LAST call of the setter of field `j` in the chain, if there is one -/
def lastSet : List (Nat × RV) → Nat → Option RV
  | [], _ => none
  | p :: ps, j =>
    match lastSet ps j with
    | some v => some v
    | none => if p.1 = j then some p.2 else none

/-- semantics of the three builder-setter labels of `Meth` on the builder's underlying record
    (`r.f = v`, `r.f = option.Some(v)`, `r.f = option.None()`; `return r`); every other label: identity -/
def runSetter : Meth → RV → Rec → Rec
  | .bSet i, v, b => b.set i v
  | .bSome i, v, b => b.set i (.some v)
  | .bNone i, _, b => b.set i .none
  | _, _, b => b

/-- the same on the partial record -/
def pbRun : Meth → RV → PBuilder → PBuilder
  | .bSet i, v, b => pbSet i v b
  | .bSome i, v, b => pbSet i (.some v) b
  | .bNone i, _, b => pbSet i .none b
  | _, _, b => b

theorem ext_getF (a b : Rec) (hl : a.length = b.length) (h : ∀ j, j < a.length → getF j a = getF j b) : a = b := by
  apply List.ext_getElem hl
  intro j h1 h2
  have := h j h1
  simpa [getF, List.getD_eq_getElem?_getD, h1, h2] using this

theorem pbBuild_length (fs : List Field) (b : PBuilder) (h : b.length = fs.length) :
    (pbBuild fs b).length = fs.length := by
  induction fs generalizing b with
  | nil => cases b <;> simp [pbBuild]
  | cons f fs ih =>
    cases b with
    | nil => simp at h
    | cons o os => simp [pbBuild, ih os (by simpa using h)]

theorem pbBuild_of (fs : List Field) (x : Rec) (h : x.length = fs.length) : pbBuild fs (pbOf x) = x := by
  induction fs generalizing x with
  | nil => cases x <;> simp_all [pbBuild]
  | cons f fs ih =>
    cases x with
    | nil => simp at h
    | cons v vs =>
      have := ih vs (by simpa using h)
      simp only [pbOf] at this
      simp [pbBuild, pbOf, this]

theorem pbBuild_empty (s : StructSpec) : pbBuild s.fields (pbEmpty s) = s.zero := by
  unfold pbEmpty StructSpec.zero
  induction s.fields with
  | nil => simp [pbBuild]
  | cons f fs ih => simp [pbBuild, ih]

/-- a setter on the partial record IS the field assignment on the built record -/
theorem pbBuild_set (fs : List Field) (i : Nat) (v : RV) (b : PBuilder) :
    pbBuild fs (pbSet i v b) = (pbBuild fs b).set i v := by
  unfold pbSet
  induction fs generalizing b i with
  | nil => simp [pbBuild]
  | cons f fs ih =>
    cases b with
    | nil => simp [pbBuild]
    | cons o os =>
      cases i with
      | zero => simp [pbBuild]
      | succ i => simp [pbBuild, ih]

theorem pbSet_length (i : Nat) (v : RV) (b : PBuilder) : (pbSet i v b).length = b.length := by
  simp [pbSet]

theorem pbSetAll_length (ps : List (Nat × RV)) (b : PBuilder) : (pbSetAll ps b).length = b.length := by
  unfold pbSetAll
  induction ps generalizing b with
  | nil => rfl
  | cons p ps ih => simp [List.foldl_cons, ih, pbSet_length]

theorem pbBuild_run (fs : List Field) (m : Meth) (v : RV) (b : PBuilder) :
    pbBuild fs (pbRun m v b) = runSetter m v (pbBuild fs b) := by
  cases m <;> simp [pbRun, runSetter, pbBuild_set]

theorem pbSet_pbSet (i : Nat) (v w : RV) (b : PBuilder) : pbSet i w (pbSet i v b) = pbSet i w b := by
  simp [pbSet]

theorem pbSet_comm (i j : Nat) (v w : RV) (b : PBuilder) (h : i ≠ j) :
    pbSet i v (pbSet j w b) = pbSet j w (pbSet i v b) := by
  unfold pbSet
  exact List.set_comm _ _ (Ne.symm h)

/-- the built record after a chain of setters: field `j` holds the argument of the last call of its
    setter, or what it held before when its setter was not called -/
theorem getF_pbBuild_setAll (fs : List Field) (ps : List (Nat × RV)) (b : PBuilder) (j : Nat)
    (hj : j < b.length) (hb : b.length = fs.length) :
    getF j (pbBuild fs (pbSetAll ps b)) = (lastSet ps j).getD (getF j (pbBuild fs b)) := by
  unfold pbSetAll
  induction ps generalizing b with
  | nil => simp [lastSet]
  | cons p ps ih =>
    simp only [List.foldl_cons]
    rw [ih (pbSet p.1 p.2 b) (by simpa [pbSet_length] using hj) (by simpa [pbSet_length] using hb)]
    cases hl : lastSet ps j with
    | some v => simp [lastSet, hl]
    | none =>
      simp only [lastSet, hl, Option.getD_none]
      rw [pbBuild_set]
      by_cases hp : p.1 = j
      · subst hp
        have : p.1 < (pbBuild fs b).length := by rw [pbBuild_length fs b hb]; omega
        simp [getF_set_same _ _ _ this]
      · simp [hp, getF_set_other _ _ _ _ hp]

theorem lastSet_of_fun (g : Nat → RV) (ps : List (Nat × RV)) (h : ∀ p ∈ ps, p.2 = g p.1) (j : Nat) :
    lastSet ps j = if j ∈ ps.map (·.1) then some (g j) else none := by
  induction ps with
  | nil => simp [lastSet]
  | cons p ps ih =>
    have ih' := ih (fun q hq => h q (by simp [hq]))
    have hp := h p (by simp)
    simp only [List.map_cons, List.mem_cons]
    by_cases hm : j ∈ ps.map (·.1)
    · simp only [hm, if_true] at ih'
      simp only [lastSet, ih', hm, or_true, if_true]
    · simp only [hm, if_false] at ih'
      by_cases hpj : p.1 = j
      · subst hpj; simp only [lastSet, ih', hp, if_true, true_or]
      · have hjp : ¬ j = p.1 := fun h => hpj h.symm
        simp only [lastSet, ih', hpj, hm, hjp, if_false, or_self]

/-- distinct setters may be called in any order -/
theorem pbSetAll_perm {ps ps' : List (Nat × RV)} (h : ps.Perm ps') (hn : (ps.map (·.1)).Nodup)
    (b : PBuilder) : pbSetAll ps b = pbSetAll ps' b := by
  induction h generalizing b with
  | nil => rfl
  | cons p _ ih =>
    have hn' := (List.nodup_cons.mp (by simpa only [List.map_cons] using hn)).2
    simp only [pbSetAll, List.foldl_cons]
    exact ih hn' _
  | swap p q l =>
    have hne : q.1 ≠ p.1 := by
      intro h
      simp [h] at hn
    simp only [pbSetAll, List.foldl_cons]
    rw [pbSet_comm _ _ _ _ _ hne]
  | trans h1 _ ih1 ih2 =>
    rw [ih1 hn, ih2 ((h1.map (·.1)).nodup_iff.mp hn)]

/-! ## The builder method table: what `genBuilderB` emits, in closed form -/

/-- the setter attempts for one field (`privateFields.Foreach`): `F`, and for an Option field `SomeF`, `NoneF` -/
def setterEntries (p : Nat × Field) : Table :=
  if p.2.isPrivate then
    [(publicName p.2.name, Meth.bSet p.1)] ++
      (if p.2.ty.isOpt then
        [("Some" ++ publicName p.2.name, Meth.bSome p.1), ("None" ++ publicName p.2.name, Meth.bNone p.1)]
       else [])
  else []

/-- every emission `genBuilder` attempts for the builder receiver, in order -/
def candsB (s : StructSpec) : Table :=
  [("Build", Meth.build)] ++ (indexed s.fields).flatMap setterEntries
  ++ (if s.hasTuple then [("FromTuple", Meth.fromTuple)] else [])
  ++ [("Apply", Meth.apply), ("FromMap", Meth.fromMap)]
  ++ (if s.hasTuple && s.ann.genLabelled then [("FromLabelled", Meth.fromLabelled)] else [])

/-- `!isMethodDefined(workingPackage, builderTypeName, n)` -/
def keepB (user : List String) (e : String × Meth) : Bool := !user.contains e.1

theorem emitB_eq (user : List String) (t : Table) (n : String) (m : Meth) :
    emitB user t n m = t ++ [(n, m)].filter (keepB user) := by
  unfold emitB
  cases h : user.contains n
  · have : keepB user (n, m) = true := by show (!user.contains n) = true; rw [h]; rfl
    simp [this]
  · have : keepB user (n, m) = false := by show (!user.contains n) = false; rw [h]; rfl
    simp [this]

theorem filter_pair {α : Type} (q : α → Bool) (a b : α) :
    [a, b].filter q = [a].filter q ++ [b].filter q := by
  rw [show [a, b] = [a] ++ [b] from rfl, List.filter_append]

theorem foldl_append_flatMap {α β : Type} (g : α → List β) (step : List β → α → List β)
    (h : ∀ t a, step t a = t ++ g a) (l : List α) (t : List β) : l.foldl step t = t ++ l.flatMap g := by
  induction l generalizing t with
  | nil => simp
  | cons a l ih => simp [List.foldl_cons, ih, h, List.flatMap_cons, List.append_assoc]

theorem filter_flatMap' {α β : Type} (q : β → Bool) (g : α → List β) (l : List α) :
    (l.flatMap g).filter q = l.flatMap (fun a => (g a).filter q) := by
  induction l with
  | nil => simp
  | cons a l ih => simp [List.flatMap_cons, List.filter_append, ih]

theorem setter_step (user : List String) (t : Table) (p : Nat × Field) :
    (if p.2.isPrivate then
        if p.2.ty.isOpt then
          emitB user (emitB user (emitB user t (publicName p.2.name) (.bSet p.1))
            ("Some" ++ publicName p.2.name) (.bSome p.1)) ("None" ++ publicName p.2.name) (.bNone p.1)
        else emitB user t (publicName p.2.name) (.bSet p.1)
      else t) = t ++ (setterEntries p).filter (keepB user) := by
  unfold setterEntries
  cases hp : p.2.isPrivate
  · simp
  · cases ho : p.2.ty.isOpt
    · simp [emitB_eq]
    · simp only [emitB_eq, if_true, List.append_assoc, List.filter_append, filter_pair]

/-- `genBuilderB` = the attempts in order, minus the names the user already defined on the builder type -/
theorem genBuilderB_eq (s : StructSpec) : genBuilderB s = (candsB s).filter (keepB s.userB) := by
  simp only [genBuilderB, candsB]
  rw [foldl_append_flatMap (fun p => (setterEntries p).filter (keepB s.userB)) _
    (fun t p => setter_step s.userB t p)]
  simp only [emitB_eq, List.filter_append, filter_flatMap']
  cases s.hasTuple <;> cases s.ann.genLabelled <;> simp [List.append_assoc, filter_pair]

/-! ### the plain setters, one per private field, in declaration order -/

def isBSet : String × Meth → Bool
  | (_, .bSet _) => true
  | _ => false

/-- the plain setter of one field: name `publicName f.name`, label `bSet i` -/
def bSetEntry (p : Nat × Field) : Option (String × Meth) :=
  if p.2.isPrivate then some (publicName p.2.name, Meth.bSet p.1) else none

/-- indices of the private fields, increasing -/
def privIdx (s : StructSpec) : List Nat :=
  (indexed s.fields).filterMap (fun p => if p.2.isPrivate then some p.1 else none)

theorem filter_isBSet_flatMap (l : List (Nat × Field)) :
    (l.flatMap setterEntries).filter isBSet = l.filterMap bSetEntry := by
  induction l with
  | nil => simp
  | cons p l ih =>
    simp only [List.flatMap_cons, List.filter_append, ih, List.filterMap_cons]
    unfold setterEntries bSetEntry
    cases hp : p.2.isPrivate
    · simp
    · cases ho : p.2.ty.isOpt <;> simp [List.filter, isBSet]

theorem filter_isBSet_candsB (s : StructSpec) :
    (candsB s).filter isBSet = (indexed s.fields).filterMap bSetEntry := by
  unfold candsB
  simp only [List.filter_append, filter_isBSet_flatMap]
  cases s.hasTuple <;> cases s.ann.genLabelled <;> simp [isBSet]

theorem indexed_map_fst {α : Type} (l : List α) : (indexed l).map (·.1) = List.range l.length := by
  unfold indexed
  exact List.map_fst_zip (by simp)

theorem mem_indexed_iff {α : Type} (l : List α) (i : Nat) (a : α) : (i, a) ∈ indexed l ↔ l[i]? = some a := by
  unfold indexed
  rw [List.mem_iff_getElem?]
  constructor
  · rintro ⟨k, hk⟩
    rw [List.getElem?_zip_eq_some] at hk
    obtain ⟨h1, h2⟩ := hk
    rw [List.getElem?_range] at h1
    · have : k = i := by simpa using h1
      subst this; exact h2
    · rcases Nat.lt_or_ge k l.length with h | h
      · exact h
      · simp [List.getElem?_eq_none h] at h2
  · intro h
    have hi : i < l.length := by
      rcases Nat.lt_or_ge i l.length with h' | h'
      · exact h'
      · simp [List.getElem?_eq_none h'] at h
    refine ⟨i, ?_⟩
    rw [List.getElem?_zip_eq_some]
    exact ⟨by simp [hi], h⟩

theorem nodup_filterMap_fst {β : Type} (c : Nat × β → Bool) (l : List (Nat × β)) (h : (l.map (·.1)).Nodup) :
    (l.filterMap (fun p => if c p then some p.1 else none)).Nodup := by
  induction l with
  | nil => simp
  | cons p l ih =>
    have hn := List.nodup_cons.mp (by simpa only [List.map_cons] using h)
    rw [List.filterMap_cons]
    cases hc : c p
    · simpa [hc] using ih hn.2
    · simp only [if_true]
      refine List.nodup_cons.mpr ⟨?_, ih hn.2⟩
      intro hm
      rw [List.mem_filterMap] at hm
      obtain ⟨q, hq, hq2⟩ := hm
      apply hn.1
      have : q.1 = p.1 := by
        cases hcq : c q <;> simp [hcq] at hq2
        exact hq2
      rw [← this]
      exact List.mem_map_of_mem hq

theorem privIdx_nodup (s : StructSpec) : (privIdx s).Nodup := by
  unfold privIdx
  exact nodup_filterMap_fst (fun p : Nat × Field => p.2.isPrivate) _
    (by rw [indexed_map_fst]; exact List.nodup_range)

theorem mem_privIdx (s : StructSpec) (i : Nat) :
    i ∈ privIdx s ↔ ∃ f, s.fields[i]? = some f ∧ f.isPrivate = true := by
  unfold privIdx
  rw [List.mem_filterMap]
  constructor
  · rintro ⟨⟨k, f⟩, hm, h⟩
    cases hp : f.isPrivate
    · simp [hp] at h
    · simp [hp] at h
      subst h
      exact ⟨f, (mem_indexed_iff _ _ _).mp hm, hp⟩
  · rintro ⟨f, hf, hp⟩
    exact ⟨(i, f), (mem_indexed_iff _ _ _).mpr hf, by simp [hp]⟩

theorem bSetEntries_labels (l : List (Nat × Field)) :
    (l.filterMap bSetEntry).map (·.2) =
      (l.filterMap (fun p => if p.2.isPrivate then some p.1 else none)).map Meth.bSet := by
  induction l with
  | nil => simp
  | cons p l ih =>
    simp only [List.filterMap_cons, bSetEntry]
    cases hp : p.2.isPrivate
    · simpa [bSetEntry] using ih
    · simpa [bSetEntry] using ih

theorem bSetEntries_names (l : List (Nat × Field)) :
    (l.filterMap bSetEntry).map (·.1) =
      ((l.map (·.2)).filter Field.isPrivate).map (fun f => publicName f.name) := by
  induction l with
  | nil => simp
  | cons p l ih =>
    simp only [List.filterMap_cons, bSetEntry, List.map_cons, List.filter_cons]
    cases hp : p.2.isPrivate
    · simpa [bSetEntry] using ih
    · simpa [bSetEntry] using ih

theorem indexed_map_snd {α : Type} (l : List α) : (indexed l).map (·.2) = l := by
  unfold indexed
  exact List.map_snd_zip (by simp)

theorem bSetEntries_nodup (s : StructSpec) : ((indexed s.fields).filterMap bSetEntry).Nodup := by
  have h1 : (((indexed s.fields).filterMap bSetEntry).map (·.2)).Nodup := by
    rw [bSetEntries_labels]
    exact List.Pairwise.map Meth.bSet (fun a b h h' => h (by injection h')) (privIdx_nodup s)
  exact List.Pairwise.of_map (·.2) (fun a b h h' => h (by rw [h'])) h1

/-! ## Labelled: the other direction -/

theorem inject_length (fs : List Field) (b t : Rec) : (inject fs b t).length = b.length := by
  induction fs generalizing b t with
  | nil => cases b <;> simp [inject]
  | cons f fs ih =>
    cases b with
    | nil => simp [inject]
    | cons w ws =>
      cases hf : f.applicable
      · simp [inject, hf, ih]
      · cases t <;> simp [inject, hf, ih]

/-- a Labelled tuple is its names, its values and its tags -/
theorem lab_ext (a b : List Lab) (hn : a.map Lab.name = b.map Lab.name)
    (hv : a.map Lab.value = b.map Lab.value) (ht : a.map Lab.tag = b.map Lab.tag) : a = b := by
  induction a generalizing b with
  | nil => cases b <;> simp_all
  | cons x xs ih =>
    cases b with
    | nil => simp at hn
    | cons y ys =>
      simp only [List.map_cons, List.cons.injEq] at hn hv ht
      rw [ih ys hn.2 hv.2 ht.2]
      cases x; cases y
      simp_all

/-! ## Map: the other direction -/

theorem fromMap_length (fs : List Field) (b : Rec) (m : GoMap) : (fromMap fs b m).length = b.length := by
  induction fs generalizing b with
  | nil => cases b <;> simp [fromMap]
  | cons f fs ih =>
    cases b with
    | nil => simp [fromMap]
    | cons w ws => simp [fromMap, ih]

/-- `FromMap`, field by field -/
theorem getF_fromMap (fs : List Field) (b : Rec) (m : GoMap) (i : Nat) (f : Field)
    (hb : b.length = fs.length) (hf : fs[i]? = some f) :
    getF i (fromMap fs b m) = if f.applicable then fromEntry f (getF i b) (m.get f.name) else getF i b := by
  induction fs generalizing b i with
  | nil => simp at hf
  | cons g fs ih =>
    cases b with
    | nil => simp at hb
    | cons w ws =>
      cases i with
      | zero =>
        simp at hf; subst hf
        cases hg : g.applicable <;> simp [fromMap, getF, hg, fromMapField_eq]
      | succ i =>
        have := ih ws i (by simpa using hb) (by simpa using hf)
        simpa [fromMap, getF] using this

/-- `AsMap`, key by key: under the name of an applicable field the map holds exactly the entry written for it -/
theorem asMapAux_get_own (fs : List Field) (x : Rec) (m : GoMap) (i : Nat) (f : Field)
    (hx : x.length = fs.length) (hnd : (appNames fs).Nodup) (hf : fs[i]? = some f)
    (happ : f.applicable = true) :
    (asMapAux fs x m).get f.name =
      match mapEntry f (getF i x) with
      | some d => d
      | none => m.get f.name := by
  induction fs generalizing x m i with
  | nil => simp at hf
  | cons g fs ih =>
    cases x with
    | nil => simp at hx
    | cons v vs =>
      have hnd' : (appNames fs).Nodup := by
        unfold appNames at hnd ⊢
        cases hg : g.applicable <;> simp [List.filter, hg] at hnd ⊢
        · exact hnd
        · exact hnd.2
      have hfresh : g.applicable = true → ∀ h ∈ fs, h.applicable = true → h.name ≠ g.name := by
        intro hg h hh hha hne
        unfold appNames at hnd
        simp [List.filter, hg] at hnd
        exact hnd.1 h hh hha hne
      rw [asMapAux_cons]
      cases i with
      | zero =>
        simp at hf; subst hf
        rw [asMapAux_get_other fs vs _ g.name (fun h hh hha => hfresh happ h hh hha)]
        cases he : mapEntry g v with
        | none => simp [getF, he]
        | some d => simp [getF, he, GoMap.get_put_same]
      | succ i =>
        have hf' : fs[i]? = some f := by simpa using hf
        have hmem : f ∈ fs := List.mem_of_getElem? hf'
        rw [ih vs _ i (by simpa using hx) hnd' hf']
        have hget : (match mapEntry g v with | some d => m.put g.name d | none => m).get f.name = m.get f.name := by
          cases he : mapEntry g v with
          | none => rfl
          | some d =>
            have hg : g.applicable = true := by
              unfold mapEntry at he
              cases hg : g.applicable <;> simp_all
            exact GoMap.get_put_other m g.name f.name d (hfresh hg f hmem happ)
        simp only [getF, List.getD_cons_succ]
        cases mapEntry f (vs.getD i RV.none) with
        | some d => rfl
        | none => exact hget

/-- an assertion that succeeds is undone by storing the result back into an `any` -/
theorem toAny_of_assertTy (t : Ty) (d : Dyn) (v : RV) (h : assertTy t d = some v) : toAny t v = d := by
  cases d with
  | none => cases t <;> simp [assertTy] at h
  | some p =>
    obtain ⟨dn, w⟩ := p
    cases t with
    | conc n =>
      simp only [assertTy, Ty.name] at h
      by_cases hd : (dn == n) = true
      · have : dn = n := by simpa using hd
        subst this
        have : w = v := by simpa using h
        subst this
        simp [toAny, Ty.name]
      · simp [hd] at h
    | iface n all impls =>
      simp only [assertTy] at h
      by_cases hd : (all || impls.contains dn) = true
      · rw [if_pos hd] at h
        have : RV.iface dn w = v := Option.some.inj h
        subst this
        simp [toAny]
      · rw [if_neg hd] at h
        cases h
    | opt e =>
      simp only [assertTy] at h
      by_cases hd : (dn == (Ty.opt e).name) = true
      · have hd' : dn = (Ty.opt e).name := by simpa using hd
        subst hd'
        have : w = v := by simpa using h
        subst this
        simp [toAny]
      · simp [hd] at h

/-- The entries `FromMap` accepts *and* `AsMap` writes back unchanged ("canonical" entries): the
    assertion to the field type succeeds, and for an Option field it is the assertion to the ELEMENT
    type that succeeds (an `fp.Option[E]` stored under the key is accepted by `FromMap` but `AsMap`
    writes it back unwrapped, or not at all). -/
def entryOK (f : Field) (d : Dyn) : Bool :=
  match f.ty with
  | .opt e => (assertTy (.opt e) d).isNone && (assertTy e d).isSome
  | t => (assertTy t d).isSome

theorem mapEntry_fromEntry (f : Field) (bv : RV) (d : Dyn) (happ : f.applicable = true)
    (h : entryOK f d = true) : mapEntry f (fromEntry f bv d) = some d := by
  unfold entryOK at h
  unfold mapEntry fromEntry
  simp only [happ, if_true]
  cases hty : f.ty with
  | conc n =>
    rw [hty] at h
    cases ha : assertTy (.conc n) d with
    | none => simp [ha] at h
    | some v => simp [toAny_of_assertTy _ _ _ ha]
  | iface n all impls =>
    rw [hty] at h
    cases ha : assertTy (.iface n all impls) d with
    | none => simp [ha] at h
    | some v => simp [toAny_of_assertTy _ _ _ ha]
  | opt e =>
    rw [hty] at h
    change ((assertTy (.opt e) d).isNone && (assertTy e d).isSome) = true at h
    cases h1 : assertTy (.opt e) d with
    | some v => simp [h1] at h
    | none =>
      cases h2 : assertTy e d with
      | none => simp [h1, h2] at h
      | some v =>
        have := toAny_of_assertTy _ _ _ h2
        show (match Ty.opt e, (match assertTy e d with | some v => RV.some v | none => bv) with
          | .opt e, .some w => some (toAny e w)
          | .opt _, _ => none
          | t, v => some (toAny t v)) = some d
        rw [h2]
        simp [this]

end FpVerif.Rec
