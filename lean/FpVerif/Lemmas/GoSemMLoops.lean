import FpVerif.Model.GoSemM
/-!
# The loop schema and the slice primitives of `Model/GoSemM.lean`: unfolding lemmas, and the effectful list recursions
the translated `Seq` functions are compared with

* `loopM_nil` / `loopM_cons`, `enumFrom`, `indexFrom` : one iteration at a time.
* `setIdxM_append_cons`, `idxM_append_cons` : writing / reading position `pre.length` of `pre ++ x :: post`
  (the invariant of every `make` + `ret[i] = …` builder loop is `ret = done ++ replicate (n - i) zero`).
* `Returns m v` : the computation `m` neither panics nor depends on the log, and yields `v` (`IterSim.Total f g` is
  `∀ a, Returns (f a) (g a)`); closed under `pure` and `bind`.
* structural references in `GoM` (callback per element, left to right): `filterG`, `anyG`, `allG`, `findG`, `scanG`,
  `spanG`, `partitionG`, `foldTryG`, `foldOptionG`, `foldErrorG`, `foreachG`, and their values under `Returns`.
-/
namespace FpVerif.GoSemM
open FpVerif FpVerif.GoSem

variable {α β γ ρ σ ι : Type}

@[simp] theorem loopM_nil (st : σ) (body : ι → σ → GoM (Step ρ σ)) (rest : σ → GoM ρ) :
    loopM [] st body rest = rest st := rfl

theorem loopM_cons (x : ι) (xs : List ι) (st : σ) (body : ι → σ → GoM (Step ρ σ)) (rest : σ → GoM ρ) :
    loopM (x :: xs) st body rest = (do
      let r ← body x st
      match r with
      | .ret v => pure v
      | .next st' => loopM xs st' body rest) := rfl

@[simp] theorem enumFrom_nil (k : Int) : enumFrom k ([] : List α) = [] := rfl
@[simp] theorem enumFrom_cons (k : Int) (a : α) (as : List α) : enumFrom k (a :: as) = (k, a) :: enumFrom (k + 1) as := rfl
@[simp] theorem indexFrom_zero (k : Int) : indexFrom k 0 = [] := rfl
@[simp] theorem indexFrom_succ (k : Int) (n : Nat) : indexFrom k (n + 1) = k :: indexFrom (k + 1) n := rfl

@[simp] theorem indexRange_len (s : List α) : indexRange (len s) = indexFrom 0 s.length := by
  simp [indexRange, len]

theorem indexRange_ofNat (n : Nat) : indexRange (n : Int) = indexFrom 0 n := by
  simp [indexRange]

/-- `ret[len(pre)] = v` on `pre ++ x :: post` -/
theorem setIdxM_append_cons (pre post : List α) (x v : α) (i : Int) (hi : i = (pre.length : Int)) :
    setIdxM (pre ++ x :: post) i v = pure (pre ++ v :: post) := by
  subst hi
  have h1 : ¬ ((pre.length : Int) < 0) := by omega
  simp [setIdxM, h1]

theorem setIdxM_zero_cons (x v : α) (xs : List α) : setIdxM (x :: xs) 0 v = pure (v :: xs) := by
  simp [setIdxM]

/-- `a[len(pre)]` on `pre ++ x :: post` -/
theorem idxM_append_cons (pre post : List α) (x : α) (i : Int) (hi : i = (pre.length : Int)) :
    idxM (pre ++ x :: post) i = pure x := by
  subst hi
  have h1 : ¬ ((pre.length : Int) < 0) := by omega
  simp [idxM, h1]

theorem idxM_lt (a : List α) (i : Nat) (h : i < a.length) : idxM a (i : Int) = pure a[i] := by
  have h1 : ¬ ((i : Int) < 0) := by omega
  simp [idxM, h1, h]

theorem sliceM_ok (a : List α) (lo hi : Nat) (h1 : lo ≤ hi) (h2 : hi ≤ a.length) :
    sliceM a (lo : Int) (hi : Int) = pure ((a.take hi).drop lo) := by
  have : ¬ ((lo : Int) < 0 ∨ (hi : Int) < (lo : Int) ∨ len a < (hi : Int)) := by
    simp only [len]; omega
  unfold sliceM
  rw [if_neg this]
  simp

/-- `r[1:]` of a non-empty slice -/
theorem sliceM_tail (a : α) (as : List α) : sliceM (a :: as) (1 : Int) (len (a :: as)) = pure as := by
  have := sliceM_ok (a :: as) 1 (as.length + 1) (by omega) (by simp)
  simpa [len] using this

@[simp] theorem makeSliceM_ofNat [GoZero α] (n : Nat) :
    (makeSliceM (n : Int) : GoM (List α)) = pure (List.replicate n GoZero.zero) := by
  have : ¬ ((n : Int) < 0) := by omega
  simp [makeSliceM, this]

theorem goCopy_replicate (r : List α) (k : Nat) (z : α) :
    goCopy (List.replicate (r.length + k) z) r = r ++ List.replicate k z := by
  simp [goCopy, List.take_of_length_le]

/-! ## `Returns` -/

/-- `m` yields `v`: from every log it returns normally with `v` (it may append events) -/
def Returns (m : GoM α) (v : α) : Prop := ∀ lg, ∃ lg', m.run.run lg = (.ok v, lg')

theorem returns_pure (v : α) : Returns (pure v : GoM α) v := fun lg => ⟨lg, rfl⟩

theorem returns_bind {m : GoM α} {a : α} {k : α → GoM β} {b : β} (hm : Returns m a) (hk : Returns (k a) b) :
    Returns (m >>= k) b := by
  intro lg
  obtain ⟨lg1, h1⟩ := hm lg
  obtain ⟨lg2, h2⟩ := hk lg1
  refine ⟨lg2, ?_⟩
  simp only [ExceptT.run_bind]
  simp only [bind, StateT.bind, StateT.run] at h1 h2 ⊢
  have h1' : ExceptT.run m lg = (Except.ok a, lg1) := h1
  rw [h1']
  exact h2

theorem returns_of_eq {m m' : GoM α} {v : α} (h : m = m') (h' : Returns m' v) : Returns m v := h ▸ h'

/-! ## structural references -/

/-- `Filter`: the predicate runs once per element, left to right -/
def filterG (p : α → GoM Bool) : List α → GoM (List α)
  | [] => pure []
  | a :: as => do
    let b ← p a
    let r ← filterG p as
    pure (if b then a :: r else r)

/-- `Exists`: stops at the first hit -/
def anyG (p : α → GoM Bool) : List α → GoM Bool
  | [] => pure false
  | a :: as => do
    let b ← p a
    if b then pure true else anyG p as

/-- `ForAll`: stops at the first miss -/
def allG (p : α → GoM Bool) : List α → GoM Bool
  | [] => pure true
  | a :: as => do
    let b ← p a
    if b then allG p as else pure false

/-- `Find`: stops at the first hit -/
def findG (p : α → GoM Bool) : List α → GoM (Option α)
  | [] => pure none
  | a :: as => do
    let b ← p a
    if b then pure (some a) else findG p as

/-- `Foreach` -/
def foreachG (f : α → GoM Unit) : List α → GoM Unit
  | [] => pure ()
  | a :: as => do
    f a
    foreachG f as

/-- `Scan`: `zero, f(zero,a₁), …` -/
def scanG (f : β → α → GoM β) : β → List α → GoM (List β)
  | z, [] => pure [z]
  | z, a :: as => do
    let z' ← f z a
    let r ← scanG f z' as
    pure (z :: r)

/-- `Span`: the predicate runs until its first `false`, and not afterwards -/
def spanG (p : α → GoM Bool) : List α → GoM (List α × List α)
  | [] => pure ([], [])
  | a :: as => do
    let b ← p a
    if b then do
      let (l, r) ← spanG p as
      pure (a :: l, r)
    else pure ([], a :: as)

/-- `Partition`: the predicate runs once per element -/
def partitionG (p : α → GoM Bool) : List α → GoM (List α × List α)
  | [] => pure ([], [])
  | a :: as => do
    let b ← p a
    let (l, r) ← partitionG p as
    pure (if b then (a :: l, r) else (l, a :: r))

/-- `FoldTry`: stops at the first failure -/
def foldTryG (f : β → α → GoM (Try β)) : β → List α → GoM (Try β)
  | z, [] => pure (.success z)
  | z, a :: as => do
    let t ← f z a
    match t with
    | .success z' => foldTryG f z' as
    | .failure e => pure (.failure e)

def foldOptionG (f : β → α → GoM (Option β)) : β → List α → GoM (Option β)
  | z, [] => pure (some z)
  | z, a :: as => do
    let t ← f z a
    match t with
    | some z' => foldOptionG f z' as
    | none => pure none

def foldErrorG (f : α → GoM (Option Err)) : List α → GoM (Option Err)
  | [] => pure none
  | a :: as => do
    let e ← f a
    match e with
    | some e => pure (some e)
    | none => foldErrorG f as

/-- `FoldRight` with suspended tails: the step receives the UNEVALUATED fold of the rest -/
def foldRightG (f : α → EvalM β → GoM (EvalM β)) (zero : β) : List α → GoM (EvalM β)
  | [] => pure (evalDone zero)
  | a :: as => f a (do let e ← foldRightG f zero as; e)

/-! ## values of the references when the callbacks return -/

theorem filterG_returns {p : α → GoM Bool} {g : α → Bool} (h : ∀ a, Returns (p a) (g a)) (l : List α) :
    Returns (filterG p l) (l.filter g) := by
  induction l with
  | nil => exact returns_pure _
  | cons a as ih =>
    refine returns_bind (h a) (returns_bind ih ?_)
    cases hg : g a <;> simp [hg] <;> exact returns_pure _

theorem anyG_returns {p : α → GoM Bool} {g : α → Bool} (h : ∀ a, Returns (p a) (g a)) (l : List α) :
    Returns (anyG p l) (l.any g) := by
  induction l with
  | nil => exact returns_pure _
  | cons a as ih =>
    refine returns_bind (h a) ?_
    cases hg : g a
    · simpa [hg] using ih
    · simpa [hg] using returns_pure true

theorem allG_returns {p : α → GoM Bool} {g : α → Bool} (h : ∀ a, Returns (p a) (g a)) (l : List α) :
    Returns (allG p l) (l.all g) := by
  induction l with
  | nil => exact returns_pure _
  | cons a as ih =>
    refine returns_bind (h a) ?_
    cases hg : g a
    · simpa [hg] using returns_pure false
    · simpa [hg] using ih

theorem findG_returns {p : α → GoM Bool} {g : α → Bool} (h : ∀ a, Returns (p a) (g a)) (l : List α) :
    Returns (findG p l) (l.find? g) := by
  induction l with
  | nil => exact returns_pure _
  | cons a as ih =>
    refine returns_bind (h a) ?_
    cases hg : g a
    · simpa [hg, List.find?_cons] using ih
    · simpa [hg, List.find?_cons] using returns_pure (some a)

theorem foldlM_returns {f : β → α → GoM β} {g : β → α → β} (h : ∀ b a, Returns (f b a) (g b a)) (l : List α) (z : β) :
    Returns (l.foldlM f z) (l.foldl g z) := by
  induction l generalizing z with
  | nil => exact returns_pure _
  | cons a as ih =>
    simp only [List.foldlM_cons, List.foldl_cons]
    exact returns_bind (h z a) (ih _)

theorem partitionG_returns {p : α → GoM Bool} {g : α → Bool} (h : ∀ a, Returns (p a) (g a)) (l : List α) :
    Returns (partitionG p l) (l.filter g, l.filter (fun x => !g x)) := by
  induction l with
  | nil => exact returns_pure _
  | cons a as ih =>
    refine returns_bind (h a) (returns_bind ih ?_)
    cases hg : g a <;> simp [hg] <;> exact returns_pure _

theorem spanG_returns {p : α → GoM Bool} {g : α → Bool} (h : ∀ a, Returns (p a) (g a)) (l : List α) :
    Returns (spanG p l) (l.takeWhile g, l.dropWhile g) := by
  induction l with
  | nil => exact returns_pure _
  | cons a as ih =>
    refine returns_bind (h a) ?_
    cases hg : g a
    · simpa [hg, List.takeWhile_cons, List.dropWhile_cons] using returns_pure (([] : List α), a :: as)
    · simp only [hg, if_true, List.takeWhile_cons, List.dropWhile_cons]
      exact returns_bind ih (returns_pure _)

end FpVerif.GoSemM
