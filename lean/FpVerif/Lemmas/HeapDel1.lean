import FpVerif.Lemmas.HeapSim7
/-!
Simulation of `delete` on the copying path (`mutable = false`; `delete(…, true)` has no caller in the
library — `mapBuilder.Delete` is commented out).  Part 1: leaves.
-/
set_option linter.unusedSimpArgs false
set_option linter.unusedVariables false
namespace FpVerif.HamtHeap
open FpVerif.Hamt
variable {K V : Type} {α β : Type}

/-- result of a copying `delete`: the heap only grew; a nil result is a nil pointer; a node result is
    represented as a tree whose footprint is made of old footprint cells and fresh cells -/
def DRes (F s : Nat) (H : Heap K V) (fp : List Addr) (H' : Heap K V) (p' : Option Addr)
    (n' : Option (Node K V)) : Prop :=
  Heap.le H H' ∧
  match p', n' with
  | none, none => True
  | some pp, some nn => ∃ fp', absF F s H' pp = some (nn, fp') ∧ fp'.Nodup ∧ ∀ a ∈ fp', a ∈ fp ∨ H.size ≤ a
  | _, _ => False

def DelSim (h : Hasher K) (V : Type) (F : Nat) : Prop :=
  ∀ (p : Addr) (s : Nat) (H : Heap K V) (n : Node K V) (fp : List Addr) (k : K) (kh : UInt32) (r : Bool)
    (n' : Option (Node K V)) (r' : Bool),
    absF F s H p = some (n, fp) → fp.Nodup → 16 ≤ s / 5 + F →
    n.delete h k s kh false r = .ok (n', r') →
    ∃ p' H', hdeleteN h F p k s kh false r H = .ok ((p', r'), H') ∧ DRes F s H fp H' p' n'

theorem DRes.same {F s : Nat} {H H' : Heap K V} {p : Addr} {n : Node K V} {fp : List Addr}
    (habs : absF F s H p = some (n, fp)) (hnd : fp.Nodup) (hle : Heap.le H H') :
    DRes F s H fp H' (some p) (some n) :=
  ⟨hle, fp, absF_le habs hle, hnd, fun a ha => Or.inl ha⟩

theorem DRes.fresh {F s : Nat} {H H' : Heap K V} {fp : List Addr} {p' : Addr} {n' : Node K V} {fp' : List Addr}
    (hle : Heap.le H H') (habs : absF F s H' p' = some (n', fp')) (hnd : fp'.Nodup)
    (hsub : ∀ a ∈ fp', a ∈ fp ∨ H.size ≤ a) : DRes F s H fp H' (some p') (some n') :=
  ⟨hle, fp', habs, hnd, hsub⟩

theorem delSim_value (h : Hasher K) {F : Nat} {p : Addr} {s : Nat} {H : Heap K V} {nkh : UInt32} {nk : K} {nv : V}
    (hc : H[p]? = some (.value nkh nk nv)) (k : K) (kh : UInt32) (r : Bool) (n' : Option (Node K V)) (r' : Bool)
    (hv : (Node.value nkh nk nv).delete h k s kh false r = .ok (n', r')) :
    ∃ p' H', hdeleteN h (F + 1) p k s kh false r H = .ok ((p', r'), H') ∧ DRes (F + 1) s H [p] H' p' n' := by
  rw [Node.delete] at hv
  unfold hdeleteN
  rw [bind_ok (load_apply hc)]
  dsimp only
  by_cases heqv : h.eqv nk k = true
  · simp only [heqv, Bool.not_true, Bool.false_eq_true, if_false, pure, Except.pure] at hv
    simp only [heqv, Bool.not_true, Bool.false_eq_true, if_false]
    injection hv with hv; injection hv with h1 h2; subst h1; subst h2
    exact ⟨none, H, rfl, Heap.le_refl _, trivial⟩
  · simp only [heqv, Bool.not_false, if_true, pure, Except.pure] at hv
    simp only [heqv, Bool.not_false, if_true]
    injection hv with hv; injection hv with h1 h2; subst h1; subst h2
    exact ⟨some p, H, rfl, DRes.same (absF_value hc) (by simp) (Heap.le_refl _)⟩

theorem delSim_ents_copy {H : Heap K V} (es : List (K × V)) (cap : Nat) :
    Heap.le H ((H.push (.arr ((entSlots es : List (Slot K V)).map some ++
      List.replicate (cap - (entSlots es : List (Slot K V)).length) none))).push
        (.array ⟨H.size, (entSlots es : List (Slot K V)).length⟩)) :=
  Heap.le_trans (Heap.le_push _ _) (Heap.le_push _ _)

theorem delSim_array (h : Hasher K) {F : Nat} {p : Addr} {H : Heap K V} {sl : Slice} {es : List (K × V)}
    (hc : H[p]? = some (.array sl)) (hview : viewEnts H sl = some es) (hne : p ≠ sl.arr)
    (k : K) (kh : UInt32) (r : Bool) (n' : Option (Node K V)) (r' : Bool)
    (hv : (Node.array es).delete h k 0 kh false r = .ok (n', r')) :
    ∃ p' H', hdeleteN h (F + 1) p k 0 kh false r H = .ok ((p', r'), H') ∧ DRes (F + 1) 0 H [p, sl.arr] H' p' n' := by
  have habs0 : absF (F + 1) 0 H p = some (Node.array es, [p, sl.arr]) := by
    rw [absF_array hc, hview]; rfl
  rw [Node.delete] at hv
  unfold hdeleteN
  rw [bind_ok (load_apply hc)]
  dsimp only
  rw [bind_ok (loadEnts_apply hview)]
  cases hidx : indexOf h es k with
  | none =>
    rw [hidx] at hv
    simp only [pure, Except.pure] at hv
    injection hv with hv; injection hv with h1 h2; subst h1; subst h2
    exact ⟨some p, H, rfl, DRes.same habs0 (by simpa using hne) (Heap.le_refl _)⟩
  | some idx =>
    rw [hidx] at hv
    dsimp only at hv ⊢
    by_cases h1 : (es.length == 1) = true
    · simp only [h1, if_true, pure, Except.pure] at hv
      simp only [h1, if_true]
      injection hv with hv; injection hv with h1 h2; subst h1; subst h2
      exact ⟨none, H, rfl, Heap.le_refl _, trivial⟩
    · simp only [h1, Bool.false_eq_true, if_false, pure, Except.pure] at hv
      simp only [h1, Bool.false_eq_true, if_false]
      injection hv with hv; injection hv with h1 h2; subst h1; subst h2
      rw [bind_ok (allocSlots_apply _ _ _), bind_ok (alloc_apply _ _)]
      refine ⟨_, _, rfl, ?_⟩
      have habs := mkArray_abs H (es.take idx ++ es.drop (idx + 1))
        (List.replicate (es.length - 1 - (entSlots (es.take idx ++ es.drop (idx + 1)) : List (Slot K V)).length) none) F
      apply DRes.fresh (fp' := [H.size + 1, H.size]) (Heap.le_trans (Heap.le_push _ _) (Heap.le_push _ _))
        (by simpa using habs) (by simp)
      intro a ha; simp at ha; right; omega

theorem delSim_collision (h : Hasher K) {F : Nat} {p : Addr} {s : Nat} {H : Heap K V} {nkh : UInt32} {sl : Slice}
    {es : List (K × V)}
    (hc : H[p]? = some (.collision nkh sl)) (hview : viewEnts H sl = some es) (hne : p ≠ sl.arr)
    (k : K) (kh : UInt32) (r : Bool) (n' : Option (Node K V)) (r' : Bool)
    (hv : (Node.collision nkh es).delete h k s kh false r = .ok (n', r')) :
    ∃ p' H', hdeleteN h (F + 1) p k s kh false r H = .ok ((p', r'), H') ∧
      DRes (F + 1) s H [p, sl.arr] H' p' n' := by
  have habs0 : absF (F + 1) s H p = some (Node.collision nkh es, [p, sl.arr]) := by
    rw [absF_collision hc, hview]; rfl
  rw [Node.delete] at hv
  unfold hdeleteN
  rw [bind_ok (load_apply hc)]
  dsimp only
  rw [bind_ok (loadEnts_apply hview)]
  cases hidx : indexOf h es k with
  | none =>
    rw [hidx] at hv
    simp only [pure, Except.pure] at hv
    injection hv with hv; injection hv with h1 h2; subst h1; subst h2
    exact ⟨some p, H, rfl, DRes.same habs0 (by simpa using hne) (Heap.le_refl _)⟩
  | some idx =>
    rw [hidx] at hv
    dsimp only at hv ⊢
    by_cases h2 : (es.length == 2) = true
    · simp only [h2, if_true] at hv
      simp only [h2, if_true]
      cases he : es[idx ^^^ 1]? with
      | none => rw [he] at hv; cases hv
      | some e =>
        rw [he] at hv
        simp only [pure, Except.pure] at hv
        injection hv with hv; injection hv with h1 h2; subst h1; subst h2
        dsimp only
        rw [bind_ok (alloc_apply _ _)]
        refine ⟨_, _, rfl, ?_⟩
        apply DRes.fresh (fp' := [H.size]) (Heap.le_push _ _) (mkValue_abs H nkh e.1 e.2 F s) (by simp)
        intro a ha; simp at ha; right; omega
    · simp only [h2, Bool.false_eq_true, if_false, pure, Except.pure] at hv
      simp only [h2, Bool.false_eq_true, if_false]
      injection hv with hv; injection hv with h1 h2; subst h1; subst h2
      rw [bind_ok (allocSlots_apply _ _ _), bind_ok (alloc_apply _ _)]
      refine ⟨_, _, rfl, ?_⟩
      have habs := mkCollision_abs H nkh (es.take idx ++ es.drop (idx + 1))
        (List.replicate (es.length - 1 - (entSlots (es.take idx ++ es.drop (idx + 1)) : List (Slot K V)).length) none) F s
      apply DRes.fresh (fp' := [H.size + 1, H.size]) (Heap.le_trans (Heap.le_push _ _) (Heap.le_push _ _))
        (by simpa using habs) (by simp)
      intro a ha; simp at ha; right; omega

end FpVerif.HamtHeap
