import FpVerif.Lemmas.HeapSim1
/-!
Simulation, part 2: `mergeIntoNode`.
-/
set_option linter.unusedSimpArgs false
set_option linter.unusedVariables false
namespace FpVerif.HamtHeap
open FpVerif.Hamt
variable {K V : Type} {α β : Type}

theorem SimRes.of_fresh {F s : Nat} {H H' : Heap K V} {fp : List Addr} {p' : Addr} {n' : Node K V}
    {fp' : List Addr} (habs : absF F s H' p' = some (n', fp')) (hnd : fp'.Nodup) (hle : Heap.le H H')
    (hsub : ∀ a ∈ fp', a ∈ fp ∨ H.size ≤ a) (mu : Bool) : SimRes mu F s H fp H' p' n' :=
  ⟨fp', habs, hnd, Eff.of_le hle _, hsub⟩

theorem SimRes.le {F s : Nat} {H H' : Heap K V} {fp : List Addr} {p' : Addr} {n' : Node K V}
    (h : SimRes false F s H fp H' p' n') : Heap.le H H' := by
  obtain ⟨_, _, _, heff, _⟩ := h
  exact heff.to_le

/-- `mergeIntoNode` allocates a chain of bitmap nodes above the (shared, unmodified) leaf -/
theorem hmergeN_sim {nv : Node K V} {fpn : List Addr} {node : Addr} (kh : UInt32) (k : K) (v : V) :
    ∀ (F s : Nat) (H : Heap K V) (n' : Node K V),
    (∀ f s', absF (f + 1) s' H node = some (nv, fpn)) → fpn.Nodup →
    keyHashValueAt node H = .ok (nv.keyHashValue, H) →
    16 ≤ s / 5 + (F + 1) →
    mergeIntoNode nv s kh k v = .ok n' →
    ∃ p' H', hmergeN F node s kh k v H = .ok (p', H') ∧ SimRes false (F + 1) s H fpn H' p' n' := by
  intro F
  induction F with
  | zero =>
    intro s H n' hleaf hnd hkv hfuel hm
    exfalso
    have hs : 32 ≤ s := by omega
    rw [mergeIntoNode] at hm
    simp [frag_ge32 _ hs, hs] at hm
  | succ F ih =>
    intro s H n' hleaf hnd hkv hfuel hm
    have hnsz : ∀ a ∈ fpn, a < H.size := fun a ha => absF_lt (hleaf 0 0) ha
    rw [mergeIntoNode] at hm
    unfold hmergeN
    rw [bind_ok hkv]
    dsimp only
    by_cases heq : frag nv.keyHashValue s = frag kh s
    · simp only [heq, beq_self_eq_true, if_true] at hm ⊢
      by_cases hs : s ≥ 32
      · simp [hs] at hm
      · simp only [hs, if_false] at hm ⊢
        cases hc : mergeIntoNode nv (s + mapNodeBits) kh k v with
        | error e => rw [hc] at hm; cases hm
        | ok c =>
          rw [hc] at hm
          have hn' : n' = .bitmap (1 <<< frag kh s ||| 1 <<< frag kh s) [c] := by
            simp only [bind, Except.bind, pure, Except.pure] at hm
            injection hm with hm; exact hm.symm
          obtain ⟨p1, H1, h1, fp1, habs1, hnd1, heff1, hsub1⟩ :=
            ih (s + mapNodeBits) H c hleaf hnd hkv (by simp [mapNodeBits]; omega) hc
          rw [bind_ok h1]
          have hlit : ([Slot.ptr p1] : List (Slot K V)) = ptrSlots [p1] := rfl
          rw [hlit, mkBitmap_heap]
          refine ⟨_, _, rfl, ?_⟩
          have hk : mapOpt (absF (F + 1) (s + mapNodeBits) H1) [p1] = some [(c, fp1)] :=
            mapOpt_cons habs1 rfl
          have hle1 : Heap.le H H1 := heff1.to_le
          apply SimRes.of_fresh (fp' := (H1.size + 1) :: H1.size :: fp1)
          · have := mkBitmap_abs hk (by omega) (List.replicate (1 - (ptrSlots [p1] : List (Slot K V)).length) none)
              (1 <<< frag kh s ||| 1 <<< frag kh s)
            rw [hn']
            simpa using this
          · exact nodup_fresh2 hnd1 (fun x hx => absF_lt habs1 hx)
          · exact Heap.le_trans hle1 (Heap.le_trans (Heap.le_push _ _) (Heap.le_push _ _))
          · intro a ha
            simp only [List.mem_cons] at ha
            have := hle1.1
            rcases ha with rfl | rfl | ha
            · right; omega
            · right; omega
            · exact hsub1 a ha
    · have hne : (frag nv.keyHashValue s == frag kh s) = false := by simpa using heq
      simp only [hne, Bool.false_eq_true, if_false] at hm ⊢
      rw [bind_ok (alloc_apply _ _)]
      let H1 := H.push (.value kh k v)
      have hle1 : Heap.le H H1 := Heap.le_push _ _
      have habsN : absF (F + 1) (s + mapNodeBits) H1 node = some (nv, fpn) := absF_le (hleaf F _) hle1
      have habsV : absF (F + 1) (s + mapNodeBits) H1 H.size = some (Node.value kh k v, [H.size]) :=
        mkValue_abs H kh k v F _
      have hsz1 : H1.size = H.size + 1 := by simp [H1]
      have hs32 : s < 32 := by
        rcases Nat.lt_or_ge s 32 with h' | h'
        · exact h'
        · exact absurd (by rw [frag_ge32 _ h', frag_ge32 _ h']) heq
      by_cases hlt : frag nv.keyHashValue s < frag kh s
      · simp only [hlt, if_true] at hm ⊢
        have hn' : n' = .bitmap (1 <<< frag nv.keyHashValue s ||| 1 <<< frag kh s) [nv, .value kh k v] := by
          simp only [pure, Except.pure] at hm; injection hm with hm; exact hm.symm
        have hlit : ([Slot.ptr node, Slot.ptr H.size] : List (Slot K V)) = ptrSlots [node, H.size] := rfl
        rw [hlit, mkBitmap_heap]
        refine ⟨_, _, rfl, ?_⟩
        have hk : mapOpt (absF (F + 1) (s + mapNodeBits) H1) [node, H.size] =
            some [(nv, fpn), (Node.value kh k v, [H.size])] := mapOpt_cons habsN (mapOpt_cons habsV rfl)
        apply SimRes.of_fresh (fp' := (H1.size + 1) :: H1.size :: (fpn ++ [H.size]))
        · have := mkBitmap_abs hk hs32 (List.replicate (2 - (ptrSlots [node, H.size] : List (Slot K V)).length) none)
            (1 <<< frag nv.keyHashValue s ||| 1 <<< frag kh s)
          rw [hn']
          simpa [H1] using this
        · apply nodup_fresh2
          · rw [List.nodup_append]
            refine ⟨hnd, by simp, ?_⟩
            intro a ha b hb hab
            simp only [List.mem_singleton] at hb
            have := hnsz a ha; omega
          · intro x hx
            simp only [List.mem_append, List.mem_singleton] at hx
            rcases hx with hx | rfl
            · have := hnsz x hx; omega
            · omega
        · exact Heap.le_trans hle1 (Heap.le_trans (Heap.le_push _ _) (Heap.le_push _ _))
        · intro a ha
          simp only [List.mem_cons, List.mem_append, List.mem_singleton, List.not_mem_nil, or_false] at ha
          rcases ha with rfl | rfl | ha | rfl
          · right; omega
          · right; omega
          · left; exact ha
          · right; omega
      · simp only [hlt, if_false] at hm ⊢
        have hn' : n' = .bitmap (1 <<< frag nv.keyHashValue s ||| 1 <<< frag kh s) [.value kh k v, nv] := by
          simp only [pure, Except.pure] at hm; injection hm with hm; exact hm.symm
        have hlit : ([Slot.ptr H.size, Slot.ptr node] : List (Slot K V)) = ptrSlots [H.size, node] := rfl
        rw [hlit, mkBitmap_heap]
        refine ⟨_, _, rfl, ?_⟩
        have hk : mapOpt (absF (F + 1) (s + mapNodeBits) H1) [H.size, node] =
            some [(Node.value kh k v, [H.size]), (nv, fpn)] := mapOpt_cons habsV (mapOpt_cons habsN rfl)
        apply SimRes.of_fresh (fp' := (H1.size + 1) :: H1.size :: (H.size :: fpn))
        · have := mkBitmap_abs hk hs32 (List.replicate (2 - (ptrSlots [H.size, node] : List (Slot K V)).length) none)
            (1 <<< frag nv.keyHashValue s ||| 1 <<< frag kh s)
          rw [hn']
          simpa [H1] using this
        · apply nodup_fresh2
          · exact nodup_fresh1 hnd hnsz
          · intro x hx
            simp only [List.mem_cons] at hx
            rcases hx with rfl | hx
            · omega
            · have := hnsz x hx; omega
        · exact Heap.le_trans hle1 (Heap.le_trans (Heap.le_push _ _) (Heap.le_push _ _))
        · intro a ha
          simp only [List.mem_cons] at ha
          rcases ha with rfl | rfl | rfl | ha
          · right; omega
          · right; omega
          · right; omega
          · left; exact ha

end FpVerif.HamtHeap
