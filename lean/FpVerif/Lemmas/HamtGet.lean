import FpVerif.Lemmas.HamtSet3
/-! `get` returns the association-list lookup of the node's entries; distinctness of the keys. -/
set_option linter.unusedSimpArgs false
set_option linter.unusedVariables false
namespace FpVerif.Hamt
variable {K V : Type} {h : Hasher K}

theorem lookup_of_indexOf {es : List (K × V)} {k : K} :
    lookup h k es = match indexOf h es k with
      | none => none
      | some i => (es[i]?).map (·.2) := by
  cases hi : indexOf h es k with
  | none => exact lookup_eq_none (indexOf_none.mp hi)
  | some i =>
    obtain ⟨e, hei, hek, hsplit, hbefore⟩ := indexOf_some hi
    simp only [hei, Option.map_some]
    rw [hsplit, lookup_append, lookup_eq_none hbefore, lookup_cons, hek]
    simp

theorem Node.get_eq_lookup (hl : LawfulHash h) {s : Nat} {n : Node K V} (hwf : WF h s n) (k : K) :
    n.get h k s (h.hash k) = .ok (lookup h k n.toList) := by
  induction hwf with
  | @array s es h0 hne hlen hd =>
    rw [Node.get, toList_array, lookup_of_indexOf]
    cases hi : indexOf h es k with
    | none => rfl
    | some i =>
      obtain ⟨e, hei, _⟩ := indexOf_some hi
      simp [hei, pure, Except.pure]
  | @value s kh nk nv hkh =>
    rw [Node.get, toList_value, lookup_cons, lookup_nil]
    cases h.eqv nk k <;> rfl
  | @collision s kh es h2 hh hd =>
    rw [Node.get, toList_collision]; rfl
  | @bitmap s bm ns hs hb hlen h1 h17 hkw hks ihw =>
    have hj := frag_lt (h.hash k) s
    rw [Node.get]
    simp only [and_bit_eq_zero]
    cases ht : bm.testBit (frag (h.hash k) s) with
    | false =>
      simp only [Bool.not_false, if_true]
      have : lookup h k (Node.bitmap bm ns).toList = none := by
        apply lookup_eq_none
        rw [toList_bitmap_flat hlen]
        intro e he
        obtain ⟨p, hp, hep⟩ := mem_flat.mp he
        apply hl.ne_of_frag_ne
        rw [hks p hp e hep]
        intro heq
        have := (mem_bitsOf.mp (mem_zip_fst hp)).2
        rw [heq, ht] at this; cases this
      rw [this]; rfl
    | true =>
      obtain ⟨NL, c, NR, hns, hNL, hNR, hget, hrank⟩ := bitmap_split hj ht hlen
      have hget' : ns[popCount (bm &&& (1 <<< frag (h.hash k) s - 1))]? = some c := hget
      have hkids := kidsB_cons_of_testBit hj ht (NR := NR) c hNL
      rw [← hns] at hkids
      have hcmem : (frag (h.hash k) s, c) ∈ kidsB bm ns := by rw [hkids]; simp
      have hKL : ∀ p ∈ List.zip (lo bm (frag (h.hash k) s)) NL, p ∈ kidsB bm ns := by
        intro p hp; rw [hkids]; simp [hp]
      have hKR : ∀ p ∈ List.zip (hi bm (frag (h.hash k) s)) NR, p ∈ kidsB bm ns := by
        intro p hp; rw [hkids]; simp [hp]
      have htl : (Node.bitmap bm ns).toList = flat (List.zip (lo bm (frag (h.hash k) s)) NL) ++ c.toList ++
          flat (List.zip (hi bm (frag (h.hash k) s)) NR) := by
        rw [toList_bitmap_flat hlen, hkids]; simp
      rw [htl, lookup_mid (noMatch_of_frag_ne hl rfl (flat_slot_ne_lo (fun p hp => hks p (hKL p hp))))
        (noMatch_of_frag_ne hl rfl (flat_slot_ne_hi (fun p hp => hks p (hKR p hp))))]
      simp only [Bool.not_true, Bool.false_eq_true, if_false]
      split
      · rename_i child hc
        rw [hget'] at hc; cases hc
        exact ihw _ hcmem
      · rename_i hc; rw [hget'] at hc; cases hc
  | @hashArray s cnt ns hs hlen hcnt h16 hkw hks ihw =>
    have hj := frag_lt (h.hash k) s
    rw [Node.get]
    obtain ⟨SL, o, SR, hsl, hSL, hsget⟩ := hashArray_split hj hlen
    have hk1 := kidsH_cons hj (SR := SR) o hSL
    rw [← hsl] at hk1
    have hHL : ∀ p ∈ fmH (List.zip (List.range (frag (h.hash k) s)) SL), p ∈ kidsH ns := by
      intro p hp; rw [hk1]; simp [hp]
    have hHR : ∀ p ∈ fmH (List.zip (List.range' (frag (h.hash k) s + 1) (31 - frag (h.hash k) s)) SR), p ∈ kidsH ns := by
      intro p hp; rw [hk1]; simp [hp]
    have htl : (Node.hashArray cnt ns).toList = flat (fmH (List.zip (List.range (frag (h.hash k) s)) SL)) ++ optList o ++
        flat (fmH (List.zip (List.range' (frag (h.hash k) s + 1) (31 - frag (h.hash k) s)) SR)) := by
      rw [toList_hashArray_flat hlen, hk1]; cases o <;> simp
    rw [htl, lookup_mid (noMatch_of_frag_ne hl rfl (flat_slot_ne_fmH_lo (fun p hp => hks p (hHL p hp))))
      (noMatch_of_frag_ne hl rfl (flat_slot_ne_fmH_hi (fun p hp => hks p (hHR p hp))))]
    split
    · rename_i node hc
      rw [hsget] at hc; cases hc
      have hcmem : (frag (h.hash k) s, node) ∈ kidsH ns := by rw [hk1]; simp
      exact ihw _ hcmem
    · rename_i hc; rw [hsget] at hc; cases hc; rfl
    · rename_i hc; rw [hsget] at hc; cases hc

theorem pairwise_zip_fst {α β : Type} {R : α → α → Prop} :
    ∀ {l₁ : List α} (l₂ : List β), l₁.Pairwise R → (List.zip l₁ l₂).Pairwise (fun a b => R a.1 b.1) := by
  intro l₁
  induction l₁ with
  | nil => intro l₂ _; simp
  | cons x l₁ ih =>
    intro l₂ hp
    cases l₂ with
    | nil => simp
    | cons y l₂ =>
      rw [List.zip_cons_cons, List.pairwise_cons]
      rw [List.pairwise_cons] at hp
      exact ⟨fun p hp' => hp.1 _ (mem_zip_fst hp'), ih l₂ hp.2⟩

theorem pairwise_fmH {R : Nat → Nat → Prop} :
    ∀ {zs : List (Nat × Option (Node K V))}, zs.Pairwise (fun a b => R a.1 b.1) →
      (fmH zs).Pairwise (fun a b => R a.1 b.1) := by
  intro zs
  induction zs with
  | nil => intro _; simp [fmH]
  | cons z zs ih =>
    intro hp
    rw [List.pairwise_cons] at hp
    obtain ⟨i, o⟩ := z
    cases o with
    | none => simpa [fmH] using ih hp.2
    | some c =>
      have : fmH ((i, some c) :: zs) = (i, c) :: fmH zs := by simp [fmH]
      rw [this, List.pairwise_cons]
      refine ⟨?_, ih hp.2⟩
      intro p hp'
      exact hp.1 _ (mem_fmH.mp hp')

theorem kidsB_pairwise (bm : Nat) (ns : List (Node K V)) :
    (kidsB bm ns).Pairwise (fun a b => a.1 ≠ b.1) := by
  unfold kidsB
  apply pairwise_zip_fst
  unfold bitsOf
  exact List.Pairwise.filter _ List.nodup_range

theorem kidsH_pairwise (ns : List (Option (Node K V))) :
    (kidsH ns).Pairwise (fun a b => a.1 ≠ b.1) := by
  have : kidsH ns = fmH (List.zip (List.range 32) ns) := rfl
  rw [this]
  apply pairwise_fmH
  apply pairwise_zip_fst
  exact List.nodup_range

theorem distinct_flat (hl : LawfulHash h) {s : Nat} {ks : List (Nat × Node K V)}
    (hpw : ks.Pairwise (fun a b => a.1 ≠ b.1))
    (hd : ∀ p ∈ ks, DistinctKeys h p.2.toList)
    (hks : ∀ p ∈ ks, ∀ e ∈ p.2.toList, frag (h.hash e.1) s = p.1) : DistinctKeys h (flat ks) := by
  unfold DistinctKeys flat
  rw [List.pairwise_flatMap]
  refine ⟨hd, ?_⟩
  apply List.Pairwise.imp_of_mem _ hpw
  intro a b ha hb hab x hx y hy
  apply hl.ne_of_frag_ne
  rw [hks a ha x hx, hks b hb y hy]; exact hab

/-- the keys stored in a well-formed node are pairwise not `Eqv` -/
theorem WF.distinct (hl : LawfulHash h) {s : Nat} {n : Node K V} (hwf : WF h s n) :
    DistinctKeys h n.toList := by
  induction hwf with
  | array h0 hne hlen hd => simpa using hd
  | value hkh => unfold DistinctKeys; simp
  | collision h2 hh hd => simpa using hd
  | @bitmap s bm ns hs hb hlen h1 h17 hkw hks ihw =>
    rw [toList_bitmap_flat hlen]
    exact distinct_flat hl (kidsB_pairwise bm ns) ihw hks
  | @hashArray s cnt ns hs hlen hcnt h16 hkw hks ihw =>
    rw [toList_hashArray_flat hlen]
    exact distinct_flat hl (kidsH_pairwise ns) ihw hks

/-- every well-formed node stores at least one entry -/
theorem WF.toList_ne_nil {s : Nat} {n : Node K V} (hwf : WF h s n) : n.toList ≠ [] := by
  induction hwf with
  | array h0 hne hlen hd => simpa using hne
  | value hkh => simp
  | collision h2 hh hd => intro h0; simp at h0; subst h0; simp at h2
  | @bitmap s bm ns hs hb hlen h1 h17 hkw hks ihw =>
    rw [toList_bitmap_flat hlen]
    have hl := length_kidsB hlen
    cases hk : kidsB bm ns with
    | nil => rw [hk] at hl; simp at hl; omega
    | cons p ps =>
      have := ihw p (by rw [hk]; simp)
      simp [this]
  | @hashArray s cnt ns hs hlen hcnt h16 hkw hks ihw =>
    rw [toList_hashArray_flat hlen]
    have hl := length_kidsH hlen
    cases hk : kidsH ns with
    | nil => rw [hk] at hl; simp at hl; unfold maxBitmapIndexedSize at h16; omega
    | cons p ps =>
      have := ihw p (by rw [hk]; simp)
      simp [this]

end FpVerif.Hamt
