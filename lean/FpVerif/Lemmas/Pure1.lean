import FpVerif.Model.LazyList
import FpVerif.Lemmas.IterSim
/-!
# `pure1 f` / `pure2 f`: the function a non-panicking callback computes
-/
namespace FpVerif.LL
open FpVerif.It

theorem pure1_eq {X : Type} [Inhabited X] {f : Val → GoM X} {g : Val → X} (h : Total f g) (a : Val) :
    pure1 f a = g a := by
  obtain ⟨lg', h'⟩ := h a []
  simp only [pure1, h']

theorem Total.pure1 {X : Type} [Inhabited X] {f : Val → GoM X} {g : Val → X} (h : Total f g) :
    Total f (pure1 f) := by
  intro a lg
  obtain ⟨lg', h'⟩ := h a lg
  exact ⟨lg', by rw [pure1_eq h]; exact h'⟩

theorem pure2_eq {f : Val → Val → GoM Val} {g : Val → Val → Val} (h : Total2 f g) (a b : Val) :
    pure2 f a b = g a b := by
  obtain ⟨lg', h'⟩ := h a b []
  simp only [pure2, h']

theorem Total2.pure2 {f : Val → Val → GoM Val} {g : Val → Val → Val} (h : Total2 f g) : Total2 f (pure2 f) := by
  intro a b lg
  obtain ⟨lg', h'⟩ := h a b lg
  exact ⟨lg', by rw [pure2_eq h]; exact h'⟩

end FpVerif.LL
