import FpVerif.Lemmas.IterSim
/-!
# Simulation lemmas: every combinator maps simulations to simulations

For a combinator `C` whose closure captures the variables `γ` next to the underlying iterator, the
lemma has the shape

    Sim m R → Sim (C m) (liftRel Inv R)

where `Inv c d r d' r'` relates the captured variables `c`, the underlying iterator's delivered /
remaining lists `d`, `r`, and the combinator's own delivered / remaining lists `d'`, `r'`.
-/
namespace FpVerif.It
open IM
variable {σ σ₂ τ γ γ₂ X Y α β α₁ α₂ : Type}

def liftRel (Inv : γ → List α → List α → List β → List β → Prop) (R : σ → List α → List α → Prop) :
    σ × γ → List β → List β → Prop :=
  fun sc d' r' => ∃ d r, R sc.1 d r ∧ Inv sc.2 d r d' r'

/-- relation of `ofSeq`: `idx` elements delivered. -/
def ofSeqRel (xs : List α) (idx : Nat) (d r : List α) : Prop :=
  idx ≤ xs.length ∧ d = xs.take idx ∧ r = xs.drop idx

theorem ofSeq_sim (tag : Option (α → Event)) (xs : List α) : Sim (ofSeq tag xs) (ofSeqRel xs) where
  hasNext := by
    rintro idx d r lg ⟨hle, rfl, rfl⟩
    refine ⟨idx, lg, ?_, hle, rfl, rfl⟩
    simp only [ofSeq, bind_apply, get_apply, pure_apply]
    congr 2
    by_cases h : idx < xs.length <;> simp [h]
    · omega
  next_cons := by
    rintro idx d a r lg ⟨hle, rfl, hr⟩
    have hlt : idx < xs.length := by
      rcases Nat.lt_or_ge idx xs.length with h | h
      · exact h
      · rw [List.drop_eq_nil_of_le h] at hr; cases hr
    have hget : xs[idx]? = some a := by
      rw [List.getElem?_eq_getElem hlt]
      have := List.drop_eq_getElem_cons hlt
      rw [this] at hr; cases hr; rfl
    have hd : List.drop (idx + 1) xs = r := by
      have := List.drop_eq_getElem_cons hlt
      rw [this] at hr; cases hr; rfl
    have ht : List.take (idx + 1) xs = List.take idx xs ++ [a] := by
      rw [List.take_add_one, hget]; rfl
    cases tag with
    | none =>
      refine ⟨idx + 1, lg, ?_, by omega, ht.symm, hd.symm⟩
      simp [ofSeq, bind_apply, hget]
    | some t =>
      refine ⟨idx + 1, lg ++ [t a], ?_, by omega, ht.symm, hd.symm⟩
      simp [ofSeq, bind_apply, hget, IM.liftG, emit]
      rfl
  next_nil := by
    rintro idx d lg ⟨hle, rfl, hr⟩
    have hge : xs.length ≤ idx := by
      rcases Nat.lt_or_ge idx xs.length with h | h
      · rw [List.drop_eq_getElem_cons h] at hr; cases hr
      · exact h
    refine ⟨nextOnEmpty, idx, lg, ?_, hle, rfl, hr⟩
    simp [ofSeq, bind_apply, List.getElem?_eq_none hge]

/-! ### Map / TapEach -/

theorem map_sim {f : α → GoM β} {g : α → β} (hf : Total f g) {m : Machine σ α}
    {R : σ → List α → List α → Prop} (hS : Sim m R) :
    Sim (map f m) (fun s d' r' => ∃ d r, R s d r ∧ d' = d.map g ∧ r' = r.map g) where
  hasNext := by
    rintro s d' r' lg ⟨d, r, hR, rfl, rfl⟩
    obtain ⟨s', lg', h, hR'⟩ := hS.hasNext s d r lg hR
    exact ⟨s', lg', by simpa [map] using h, d, r, hR', rfl, rfl⟩
  next_cons := by
    rintro s d' b r' lg ⟨d, r, hR, rfl, hr⟩
    cases r with
    | nil => cases hr
    | cons a r =>
      simp only [List.map_cons, List.cons.injEq] at hr
      obtain ⟨rfl, rfl⟩ := hr
      obtain ⟨s', lg', h, hR'⟩ := hS.next_cons s d a r lg hR
      obtain ⟨lg'', h2⟩ := liftG_total hf a s' lg'
      exact ⟨s', lg'', by simp [map, bind_ok h, h2], d ++ [a], r, hR', by simp, rfl⟩
  next_nil := by
    rintro s d' lg ⟨d, r, hR, rfl, hr⟩
    cases r with
    | cons a r => cases hr
    | nil =>
      obtain ⟨p, s', lg', h, hR'⟩ := hS.next_nil s d lg hR
      exact ⟨p, s', lg', by simp [map, bind_err h], d, [], hR', rfl, rfl⟩

theorem tapEach_sim {f : α → GoM Unit} (hf : Total f (fun _ => ())) {m : Machine σ α}
    {R : σ → List α → List α → Prop} (hS : Sim m R) : Sim (tapEach f m) R where
  hasNext := by
    intro s d r lg hR
    obtain ⟨s', lg', h, hR'⟩ := hS.hasNext s d r lg hR
    exact ⟨s', lg', by simpa [tapEach] using h, hR'⟩
  next_cons := by
    intro s d a r lg hR
    obtain ⟨s', lg', h, hR'⟩ := hS.next_cons s d a r lg hR
    obtain ⟨lg'', h2⟩ := liftG_total hf a s' lg'
    exact ⟨s', lg'', by simp [tapEach, bind_ok h, bind_ok h2], hR'⟩
  next_nil := by
    intro s d lg hR
    obtain ⟨p, s', lg', h, hR'⟩ := hS.next_nil s d lg hR
    exact ⟨p, s', lg', by simp [tapEach, bind_err h], hR'⟩

/-! ### Take -/

def takeRel (n : Int) (R : σ → List α → List α → Prop) (sc : σ × Nat) (d' r' : List α) : Prop :=
  ∃ r, R sc.1 d' r ∧ sc.2 = d'.length ∧ r' = r.take (n.toNat - sc.2)

theorem take_isEmpty (k : Nat) (r : List α) (hk : 0 < k) : (r.take k).isEmpty = r.isEmpty := by
  cases r with
  | nil => simp
  | cons a r => obtain ⟨k, rfl⟩ := Nat.exists_eq_succ_of_ne_zero (Nat.pos_iff_ne_zero.mp hk); simp

theorem take_sim (n : Int) {m : Machine σ α} {R : σ → List α → List α → Prop} (hS : Sim m R) :
    Sim (take n m) (takeRel n R) := by
  have hn : ∀ (s : σ) (i : Nat) (d r : List α) (lg : Log), R s d r →
      ∃ s' lg', (take n m).hasNext (s, i) lg = (.ok (!(r.take (n.toNat - i)).isEmpty), (s', i), lg') ∧ R s' d r := by
    intro s i d r lg hR
    by_cases hlt : (i : Int) < n
    · obtain ⟨s', lg', h, hR'⟩ := hS.hasNext s d r lg hR
      refine ⟨s', lg', ?_, hR'⟩
      have hpos : 0 < n.toNat - i := by omega
      rw [take_isEmpty _ _ hpos]
      simp only [take, bind_apply, onSnd_get, hlt, if_true, onFst_eq i h]
    · refine ⟨s, lg, ?_, hR⟩
      have : n.toNat - i = 0 := by omega
      rw [this]
      simp [take, bind_apply, hlt]
  have hnext : ∀ (s s1 : σ) (i : Nat) (lg lg1 : Log) (b : Bool),
      (take n m).hasNext (s, i) lg = (.ok b, (s1, i), lg1) →
      (take n m).next (s, i) lg =
        if b then (IM.onFst m.next : IM (σ × Nat) α) (s1, i + 1) lg1 else (.error nextOnEmpty, (s1, i), lg1) := by
    intro s s1 i lg lg1 b h
    unfold take at h ⊢
    simp only [] at h ⊢
    rw [bind_ok h]
    cases b <;> simp [bind_apply]
  constructor
  · rintro ⟨s, i⟩ d' r' lg ⟨r, hR, hi, rfl⟩
    obtain ⟨s', lg', h, hR'⟩ := hn s i d' r lg hR
    exact ⟨(s', i), lg', h, r, hR', hi, rfl⟩
  · rintro ⟨s, i⟩ d' a r' lg ⟨r, hR, hi, hr⟩
    simp only at hR hi hr
    obtain ⟨s1, lg1, h1, hR1⟩ := hn s i d' r lg hR
    rw [← hr] at h1
    cases r with
    | nil => simp at hr
    | cons b r =>
      have hpos : 0 < n.toNat - i := by
        rcases Nat.eq_zero_or_pos (n.toNat - i) with h | h
        · rw [h] at hr; simp at hr
        · exact h
      obtain ⟨k, hk⟩ := Nat.exists_eq_succ_of_ne_zero (Nat.pos_iff_ne_zero.mp hpos)
      rw [hk] at hr
      simp only [List.take_succ_cons, List.cons.injEq] at hr
      obtain ⟨rfl, rfl⟩ := hr
      obtain ⟨s2, lg2, h2, hR2⟩ := hS.next_cons s1 d' a r lg1 hR1
      refine ⟨(s2, i + 1), lg2, ?_, r, hR2, by simp [hi], ?_⟩
      · rw [hnext _ _ _ _ _ _ h1]
        simp [onFst_eq (i+1) h2]
      · have : n.toNat - (i + 1) = k := by omega
        simp only [this]
  · rintro ⟨s, i⟩ d' lg ⟨r, hR, hi, hr⟩
    simp only at hR hi hr
    obtain ⟨s1, lg1, h1, hR1⟩ := hn s i d' r lg hR
    rw [← hr] at h1
    refine ⟨nextOnEmpty, (s1, i), lg1, ?_, r, hR1, hi, hr⟩
    rw [hnext _ _ _ _ _ _ h1]
    simp

/-! ### TakeWhile -/

/-- captured variables of `TakeWhile` vs. source (`d`,`r`) and output (`d'`,`r'`) lists. -/
def TakeWhileInv (g : α → Bool) (c : TakeWhileSt α) (d r d' r' : List α) : Prop :=
  match c.breaking, c.fv with
  | false, none => d = d' ∧ r' = r.takeWhile g
  | false, some v => d = d' ++ [v] ∧ g v = true ∧ r' = v :: r.takeWhile g
  | true, none => (∃ v, d = d' ++ [v] ∧ g v = false) ∧ r' = []
  | true, some _ => False

abbrev takeWhileRel (g : α → Bool) (R : σ → List α → List α → Prop) :
    σ × TakeWhileSt α → List α → List α → Prop :=
  liftRel (TakeWhileInv g) R

theorem takeWhile_hasNext {p : α → GoM Bool} {g : α → Bool} (hp : Total p g) {m : Machine σ α}
    {R : σ → List α → List α → Prop} (hS : Sim m R) (s : σ) (c : TakeWhileSt α) (d' r' : List α)
    (lg : Log) (h : takeWhileRel g R (s, c) d' r') :
    ∃ s' c' lg', (takeWhile p m).hasNext (s, c) lg = (.ok (!r'.isEmpty), (s', c'), lg') ∧
      takeWhileRel g R (s', c') d' r' ∧ (r' ≠ [] → c'.fv.isSome ∧ c'.breaking = false) := by
  obtain ⟨d, r, hR, hI⟩ := h
  simp only at hR hI
  rcases c with ⟨_ | _, _ | v⟩
  · -- fresh
    simp only [TakeWhileInv] at hI
    obtain ⟨rfl, rfl⟩ := hI
    obtain ⟨s1, lg1, h1, hR1⟩ := hS.hasNext s d r lg hR
    cases r with
    | nil =>
      refine ⟨s1, ⟨false, none⟩, lg1, ?_, ⟨d, [], hR1, ?_⟩, by simp⟩
      · simp [takeWhile, bind_apply, onFst_eq _ h1]
      · simp [TakeWhileInv]
    | cons a r =>
      obtain ⟨s2, lg2, h2, hR2⟩ := hS.next_cons s1 d a r lg1 hR1
      obtain ⟨lg3, h3⟩ := liftG_total hp a (s2, ({} : TakeWhileSt α)) lg2
      cases hg : g a
      · refine ⟨s2, ⟨true, none⟩, lg3, ?_, ⟨d ++ [a], r, hR2, ?_⟩, by simp [hg]⟩
        · simp only [List.isEmpty_cons, Bool.not_false] at h1
          simp [takeWhile, bind_apply, onFst_eq _ h1, onFst_eq _ h2, h3, hg]
        · simp [TakeWhileInv, hg]
      · refine ⟨s2, ⟨false, some a⟩, lg3, ?_, ⟨d ++ [a], r, hR2, ?_⟩, by simp [hg]⟩
        · simp only [List.isEmpty_cons, Bool.not_false] at h1
          simp [takeWhile, bind_apply, onFst_eq _ h1, onFst_eq _ h2, h3, hg]
        · simp [TakeWhileInv, hg]
  · simp only [TakeWhileInv] at hI
    obtain ⟨rfl, hg, rfl⟩ := hI
    refine ⟨s, ⟨false, some v⟩, lg, ?_, ⟨_, r, hR, ?_⟩, by simp⟩
    · simp [takeWhile, bind_apply]
    · simp [TakeWhileInv, hg]
  · simp only [TakeWhileInv] at hI
    obtain ⟨hd, rfl⟩ := hI
    refine ⟨s, ⟨true, none⟩, lg, ?_, ⟨d, r, hR, ?_⟩, by simp⟩
    · simp [takeWhile, bind_apply]
    · simp [TakeWhileInv, hd]
  · simp [TakeWhileInv] at hI

theorem takeWhile_next_eq (p : α → GoM Bool) (m : Machine σ α) (sc sc1 : σ × TakeWhileSt α) (lg lg1 : Log) (b : Bool)
    (h : (takeWhile p m).hasNext sc lg = (.ok b, sc1, lg1)) :
    (takeWhile p m).next sc lg =
      if b then
        match sc1.2.fv with
        | some ret => (.ok ret, (sc1.1, { sc1.2 with fv := none }), lg1)
        | none => (.error "Option.empty", sc1, lg1)
      else (.error nextOnEmpty, sc1, lg1) := by
  unfold takeWhile at h ⊢
  simp only [] at h ⊢
  rw [bind_ok h]
  obtain ⟨s1, c1⟩ := sc1
  cases b
  · simp
  · cases hfv : c1.fv <;> simp [bind_apply, hfv]

theorem takeWhile_sim {p : α → GoM Bool} {g : α → Bool} (hp : Total p g) {m : Machine σ α}
    {R : σ → List α → List α → Prop} (hS : Sim m R) :
    Sim (takeWhile p m) (takeWhileRel g R) where
  hasNext := by
    rintro ⟨s, c⟩ d' r' lg h
    obtain ⟨s', c', lg', h1, hrel, _⟩ := takeWhile_hasNext hp hS s c d' r' lg h
    exact ⟨(s', c'), lg', h1, hrel⟩
  next_cons := by
    rintro ⟨s, c⟩ d' a r' lg h
    obtain ⟨s', c', lg', h1, ⟨d, r, hR, hI⟩, hfv⟩ := takeWhile_hasNext hp hS s c d' (a :: r') lg h
    obtain ⟨hfv, hbr⟩ := hfv (by simp)
    rcases c' with ⟨br, _ | v⟩
    · simp at hfv
    · simp only at hbr; subst hbr
      simp only [TakeWhileInv, List.cons.injEq] at hI
      obtain ⟨rfl, hg, rfl, rfl⟩ := hI
      refine ⟨(s', ⟨false, none⟩), lg', ?_, _, r, hR, ?_⟩
      · rw [takeWhile_next_eq p m _ _ _ _ _ h1]; simp
      · simp [TakeWhileInv]
  next_nil := by
    rintro ⟨s, c⟩ d' lg h
    obtain ⟨s', c', lg', h1, hrel, _⟩ := takeWhile_hasNext hp hS s c d' [] lg h
    refine ⟨nextOnEmpty, (s', c'), lg', ?_, hrel⟩
    rw [takeWhile_next_eq p m _ _ _ _ _ h1]; simp

/-! ### Find -/

/-- the part of `r` that `Find` leaves: everything after the first hit. -/
def afterHit (g : α → Bool) (r : List α) : List α := (r.dropWhile (fun x => !g x)).tail

theorem find_spec {p : α → GoM Bool} {g : α → Bool} (hp : Total p g) {m : Machine σ α}
    {R : σ → List α → List α → Prop} (hS : Sim m R) :
    ∀ (r : List α) (fuel : Nat) (s : σ) (d : List α) (lg : Log), r.length < fuel → R s d r →
      ∃ s' lg' d1, find p m fuel s lg = (.ok (r.find? g), s', lg') ∧ R s' (d ++ d1) (afterHit g r) ∧
        d1 ++ afterHit g r = r ∧ d1.filter g = (r.find? g).toList ∧ (∀ v, r.find? g = some v → ∃ d0, d1 = d0 ++ [v]) := by
  intro r
  induction r with
  | nil =>
    intro fuel s d lg hf hR
    obtain ⟨k, rfl⟩ := Nat.exists_eq_succ_of_ne_zero (by omega : fuel ≠ 0)
    obtain ⟨s1, lg1, h1, hR1⟩ := hS.hasNext s d [] lg hR
    refine ⟨s1, lg1, [], ?_, by simpa [afterHit] using hR1, by simp [afterHit], by simp, by simp⟩
    simp only [List.isEmpty_nil, Bool.not_true] at h1
    simp [find, bind_ok h1]
  | cons a r ih =>
    intro fuel s d lg hf hR
    obtain ⟨k, rfl⟩ := Nat.exists_eq_succ_of_ne_zero (by omega : fuel ≠ 0)
    obtain ⟨s1, lg1, h1, hR1⟩ := hS.hasNext s d (a :: r) lg hR
    obtain ⟨s2, lg2, h2, hR2⟩ := hS.next_cons s1 d a r lg1 hR1
    obtain ⟨lg3, h3⟩ := liftG_total hp a s2 lg2
    simp only [List.isEmpty_cons, Bool.not_false] at h1
    cases hg : g a
    · obtain ⟨s', lg', d1, h4, hR4, hd, hfl, hlast⟩ := ih k s2 (d ++ [a]) lg3 (by simpa using hf) hR2
      refine ⟨s', lg', a :: d1, ?_, ?_, ?_, ?_, ?_⟩
      · simp [find, bind_ok h1, bind_ok h2, bind_ok h3, hg, h4]
      · simpa [afterHit, hg] using hR4
      · simpa [afterHit, hg] using hd
      · simpa [hg] using hfl
      · intro v hv
        simp only [List.find?_cons, hg] at hv
        obtain ⟨d0, rfl⟩ := hlast v hv
        exact ⟨a :: d0, rfl⟩
    · refine ⟨s2, lg3, [a], ?_, ?_, ?_, ?_, ?_⟩
      · simp [find, bind_ok h1, bind_ok h2, bind_ok h3, hg]
      · simpa [afterHit, hg] using hR2
      · simp [afterHit, hg]
      · simp [hg]
      · intro v hv
        simp only [List.find?_cons, hg, Option.some.injEq] at hv
        exact ⟨[], by simp [hv]⟩

theorem filter_afterHit (g : α → Bool) (r : List α) :
    r.filter g = (r.find? g).toList ++ (afterHit g r).filter g := by
  induction r with
  | nil => simp [afterHit]
  | cons a r ih =>
    cases hg : g a
    · simpa [afterHit, hg] using ih
    · simp [afterHit, hg]

theorem afterHit_none (g : α → Bool) (r : List α) (h : r.find? g = none) : afterHit g r = [] := by
  induction r with
  | nil => simp [afterHit]
  | cons a r ih =>
    cases hg : g a
    · simp only [List.find?_cons, hg] at h
      simpa [afterHit, hg] using ih h
    · simp [hg] at h

theorem filter_isEmpty_eq (g : α → Bool) (r : List α) : (r.filter g).isEmpty = (r.find? g).isNone := by
  induction r with
  | nil => simp
  | cons a r ih => cases hg : g a <;> simp [hg, ih]

theorem filter_eq_nil_iff_find (g : α → Bool) (r : List α) : r.filter g = [] ↔ r.find? g = none := by
  induction r with
  | nil => simp
  | cons a r ih => cases hg : g a <;> simp [hg, ih]

/-! ### Filter -/

def FilterInv (g : α → Bool) (c : FilterSt α) (d r d' r' : List α) : Prop :=
  match c.first, c.fv with
  | true, none => d = [] ∧ d' = [] ∧ r' = r.filter g
  | true, some _ => False
  | false, some v => (∃ d0, d = d0 ++ [v]) ∧ g v = true ∧ d.filter g = d' ++ [v] ∧ r' = v :: r.filter g
  | false, none => r = [] ∧ r' = [] ∧ d' = d.filter g

theorem filterInv_after_find (g : α → Bool) (r dpre d1 : List α)
    (hfl : d1.filter g = (r.find? g).toList) (hlast : ∀ v, r.find? g = some v → ∃ d0, d1 = d0 ++ [v]) :
    FilterInv g ⟨false, r.find? g⟩ (dpre ++ d1) (afterHit g r) (dpre.filter g) (r.filter g) := by
  cases hfd : r.find? g with
  | none =>
    have hr0 : afterHit g r = [] := afterHit_none g r hfd
    simp only [FilterInv, hr0, true_and]
    rw [hfd] at hfl
    rw [filter_afterHit g r, hfd, hr0]
    simp [hfl]
  | some v =>
    obtain ⟨d0, hd0⟩ := hlast v hfd
    have hgv : g v = true := by simpa using List.find?_some hfd
    simp only [FilterInv]
    refine ⟨⟨dpre ++ d0, by simp [hd0]⟩, hgv, ?_, ?_⟩
    · rw [hfd] at hfl; simp [hfl]
    · rw [filter_afterHit g r, hfd]; rfl

theorem filter_hasNext {p : α → GoM Bool} {g : α → Bool} (hp : Total p g) {m : Machine σ α}
    {R : σ → List α → List α → Prop} (hS : Sim m R) (fuel : Nat) (s : σ) (c : FilterSt α) (d' r' : List α)
    (lg : Log) (h : ∃ d r, R s d r ∧ r.length < fuel ∧ FilterInv g c d r d' r') :
    ∃ s' c' lg', (filter fuel p m).hasNext (s, c) lg = (.ok (!r'.isEmpty), (s', c'), lg') ∧
      (∃ d r, R s' d r ∧ r.length < fuel ∧ FilterInv g c' d r d' r') ∧ c'.first = false ∧ (r' = [] ↔ c'.fv = none) := by
  obtain ⟨d, r, hR, hf, hI⟩ := h
  rcases c with ⟨_ | _, _ | v⟩
  · simp only [FilterInv] at hI
    obtain ⟨rfl, rfl, rfl⟩ := hI
    exact ⟨s, ⟨false, none⟩, lg, by simp [filter, bind_apply], ⟨d, [], hR, hf, by simp [FilterInv]⟩, rfl, by simp⟩
  · simp only [FilterInv] at hI
    obtain ⟨hd0, hg, hd, rfl⟩ := hI
    exact ⟨s, ⟨false, some v⟩, lg, by simp [filter, bind_apply], ⟨d, r, hR, hf, by simp [FilterInv, hd0, hg, hd]⟩, rfl, by simp⟩
  · simp only [FilterInv] at hI
    obtain ⟨rfl, rfl, rfl⟩ := hI
    obtain ⟨s1, lg1, d1, h1, hR1, hd1, hfl, hlast⟩ := find_spec hp hS r fuel s [] lg hf hR
    have hlen : (afterHit g r).length < fuel := by
      have := congrArg List.length hd1
      simp only [List.length_append] at this
      omega
    refine ⟨s1, ⟨false, r.find? g⟩, lg1, ?_, ⟨[] ++ d1, afterHit g r, hR1, hlen, ?_⟩, rfl, ?_⟩
    · have := filter_isEmpty_eq g r
      simp only [filter, bind_apply, onSnd_get, if_true, onFst_eq _ h1, onSnd_set, pure_apply, this]
      cases r.find? g <;> simp
    · exact filterInv_after_find g r [] d1 hfl hlast
    · exact filter_eq_nil_iff_find g r
  · simp [FilterInv] at hI

def FilterInvF (fuel : Nat) (g : α → Bool) (c : FilterSt α) (d r d' r' : List α) : Prop :=
  r.length < fuel ∧ FilterInv g c d r d' r'

theorem filter_sim {p : α → GoM Bool} {g : α → Bool} (hp : Total p g) (fuel : Nat) {m : Machine σ α}
    {R : σ → List α → List α → Prop} (hS : Sim m R) :
    Sim (filter fuel p m) (liftRel (FilterInvF fuel g) R) := by
  have hnext : ∀ (sc sc1 : σ × FilterSt α) (lg lg1 : Log) (b : Bool),
      (filter fuel p m).hasNext sc lg = (.ok b, sc1, lg1) →
      (filter fuel p m).next sc lg =
        if b then
          match sc1.2.fv with
          | some ret =>
            match find p m fuel sc1.1 lg1 with
            | (.ok fv, s2, lg2) => (.ok ret, (s2, { sc1.2 with fv := fv }), lg2)
            | (.error e, s2, lg2) => (.error e, (s2, sc1.2), lg2)
          | none => (.error "Option.empty", sc1, lg1)
        else (.error nextOnEmpty, sc1, lg1) := by
    intro sc sc1 lg lg1 b h
    unfold filter at h ⊢
    simp only [] at h ⊢
    rw [bind_ok h]
    obtain ⟨s1, c1⟩ := sc1
    cases b
    · simp
    · cases hfv : c1.fv with
      | none => simp [bind_apply, hfv]
      | some v =>
        simp only [if_true, bind_apply, onSnd_get, hfv, onFst_apply]
        rcases hfd : find p m fuel s1 lg1 with ⟨_ | fv, s2, lg2⟩ <;> simp
  constructor
  · rintro ⟨s, c⟩ d' r' lg ⟨d, r, hR, hf, hI⟩
    obtain ⟨s', c', lg', h1, ⟨d2, r2, hR2, hf2, hI2⟩, _⟩ := filter_hasNext hp hS fuel s c d' r' lg ⟨d, r, hR, hf, hI⟩
    exact ⟨(s', c'), lg', h1, d2, r2, hR2, hf2, hI2⟩
  · rintro ⟨s, c⟩ d' a r' lg ⟨d, r, hR, hf, hI⟩
    obtain ⟨s', c', lg', h1, ⟨d2, r2, hR2, hf2, hI2⟩, hfirst, hfv⟩ :=
      filter_hasNext hp hS fuel s c d' (a :: r') lg ⟨d, r, hR, hf, hI⟩
    rcases c' with ⟨fst, _ | v⟩
    · simp at hfv
    · simp only at hfirst; subst hfirst
      simp only [FilterInv, List.cons.injEq] at hI2
      obtain ⟨hd0, hg, hd, rfl, rfl⟩ := hI2
      obtain ⟨s3, lg3, d1, h3, hR3, hd1, hfl, hlast⟩ := find_spec hp hS r2 fuel s' d2 lg' hf2 hR2
      have hlen : (afterHit g r2).length < fuel := by
        have := congrArg List.length hd1
        simp only [List.length_append] at this
        omega
      refine ⟨(s3, ⟨false, r2.find? g⟩), lg3, ?_, d2 ++ d1, afterHit g r2, hR3, hlen, ?_⟩
      · rw [hnext _ _ _ _ _ h1]; simp [h3]
      · have := filterInv_after_find g r2 d2 d1 hfl hlast
        rw [hd] at this
        exact this
  · rintro ⟨s, c⟩ d' lg ⟨d, r, hR, hf, hI⟩
    obtain ⟨s', c', lg', h1, ⟨d2, r2, hR2, hf2, hI2⟩, _⟩ := filter_hasNext hp hS fuel s c d' [] lg ⟨d, r, hR, hf, hI⟩
    refine ⟨nextOnEmpty, (s', c'), lg', ?_, d2, r2, hR2, hf2, hI2⟩
    rw [hnext _ _ _ _ _ h1]; simp

/-! ### DropWhile -/

def DropWhileInv (fuel : Nat) (g : α → Bool) (c : DropWhileSt α) (_d r _d' r' : List α) : Prop :=
  r.length < fuel ∧
  match c.found, c.first with
  | false, none => r' = r.dropWhile g
  | true, some v => r' = v :: r
  | true, none => r' = r
  | false, some _ => False

theorem dropWhileLoop_spec {p : α → GoM Bool} {g : α → Bool} (hp : Total p g) {m : Machine σ α}
    {R : σ → List α → List α → Prop} (hS : Sim m R) :
    ∀ (r : List α) (fuel : Nat) (s : σ) (d : List α) (lg : Log), r.length < fuel → R s d r →
      ∃ s' c' lg' d2 r2, dropWhileLoop p m fuel (s, ⟨false, none⟩) lg = (.ok (!(r.dropWhile g).isEmpty), (s', c'), lg') ∧
        R s' d2 r2 ∧ r2.length ≤ r.length ∧
        match r.dropWhile g with
        | [] => c' = ⟨false, none⟩ ∧ r2 = []
        | v :: t => c' = ⟨true, some v⟩ ∧ r2 = t := by
  intro r
  induction r with
  | nil =>
    intro fuel s d lg hf hR
    obtain ⟨k, rfl⟩ := Nat.exists_eq_succ_of_ne_zero (by omega : fuel ≠ 0)
    obtain ⟨s1, lg1, h1, hR1⟩ := hS.hasNext s d [] lg hR
    simp only [List.isEmpty_nil, Bool.not_true] at h1
    exact ⟨s1, ⟨false, none⟩, lg1, d, [], by simp [dropWhileLoop, bind_apply, onFst_eq _ h1], hR1, by simp, by simp⟩
  | cons a r ih =>
    intro fuel s d lg hf hR
    obtain ⟨k, rfl⟩ := Nat.exists_eq_succ_of_ne_zero (by omega : fuel ≠ 0)
    obtain ⟨s1, lg1, h1, hR1⟩ := hS.hasNext s d (a :: r) lg hR
    obtain ⟨s2, lg2, h2, hR2⟩ := hS.next_cons s1 d a r lg1 hR1
    obtain ⟨lg3, h3⟩ := liftG_total hp a (s2, (⟨false, none⟩ : DropWhileSt α)) lg2
    simp only [List.isEmpty_cons, Bool.not_false] at h1
    cases hg : g a
    · refine ⟨s2, ⟨true, some a⟩, lg3, d ++ [a], r, ?_, hR2, by simp, by simp [hg]⟩
      simp [dropWhileLoop, bind_apply, onFst_eq _ h1, onFst_eq _ h2, h3, hg]
    · obtain ⟨s', c', lg', d2, r2, h4, hR4, hle, hm⟩ := ih k s2 (d ++ [a]) lg3 (by simpa using hf) hR2
      refine ⟨s', c', lg', d2, r2, ?_, hR4, by simp; omega, by simpa [hg] using hm⟩
      simp [dropWhileLoop, bind_apply, onFst_eq _ h1, onFst_eq _ h2, h3, hg, h4]

theorem dropWhile_hasNext {p : α → GoM Bool} {g : α → Bool} (hp : Total p g) (fuel : Nat) {m : Machine σ α}
    {R : σ → List α → List α → Prop} (hS : Sim m R) (s : σ) (c : DropWhileSt α) (d' r' : List α)
    (lg : Log) (h : liftRel (DropWhileInv fuel g) R (s, c) d' r') :
    ∃ s' c' lg', (dropWhile fuel p m).hasNext (s, c) lg = (.ok (!r'.isEmpty), (s', c'), lg') ∧
      liftRel (DropWhileInv fuel g) R (s', c') d' r' ∧ (r' ≠ [] → c'.found = true) := by
  obtain ⟨d, r, hR, hf, hI⟩ := h
  simp only at hR hf hI
  rcases c with ⟨_ | _, _ | v⟩
  · simp only at hI; subst hI
    obtain ⟨s', c', lg', d2, r2, h1, hR2, hle, hm⟩ := dropWhileLoop_spec hp hS r fuel s d lg hf hR
    refine ⟨s', c', lg', ?_, ⟨d2, r2, hR2, by omega, ?_⟩, ?_⟩
    · simp [dropWhile, bind_apply, h1]
    · cases hdw : r.dropWhile g with
      | nil => rw [hdw] at hm; obtain ⟨rfl, rfl⟩ := hm; simp
      | cons v t => rw [hdw] at hm; obtain ⟨rfl, rfl⟩ := hm; simp
    · cases hdw : r.dropWhile g with
      | nil => simp
      | cons v t => rw [hdw] at hm; obtain ⟨rfl, rfl⟩ := hm; simp
  · simp at hI
  · simp only at hI; subst hI
    obtain ⟨s1, lg1, h1, hR1⟩ := hS.hasNext s d r' lg hR
    exact ⟨s1, ⟨true, none⟩, lg1, by simp [dropWhile, bind_apply, onFst_eq _ h1], ⟨d, r', hR1, hf, rfl⟩, by simp⟩
  · simp only at hI; subst hI
    exact ⟨s, ⟨true, some v⟩, lg, by simp [dropWhile, bind_apply], ⟨d, r, hR, hf, rfl⟩, by simp⟩

theorem dropWhile_sim {p : α → GoM Bool} {g : α → Bool} (hp : Total p g) (fuel : Nat) {m : Machine σ α}
    {R : σ → List α → List α → Prop} (hS : Sim m R) :
    Sim (dropWhile fuel p m) (liftRel (DropWhileInv fuel g) R) := by
  have hnext : ∀ (sc sc1 : σ × DropWhileSt α) (lg lg1 : Log) (b : Bool),
      (dropWhile fuel p m).hasNext sc lg = (.ok b, sc1, lg1) →
      (dropWhile fuel p m).next sc lg =
        if b then
          match sc1.2.first with
          | some ret => (.ok ret, (sc1.1, { sc1.2 with first := none }), lg1)
          | none => if sc1.2.found then (IM.onFst m.next : IM (σ × DropWhileSt α) α) sc1 lg1
                    else (.error nextOnEmpty, sc1, lg1)
        else (.error nextOnEmpty, sc1, lg1) := by
    intro sc sc1 lg lg1 b h
    unfold dropWhile at h ⊢
    simp only [] at h ⊢
    rw [bind_ok h]
    obtain ⟨s1, c1⟩ := sc1
    cases b
    · simp
    · cases hfv : c1.first with
      | none => cases hfd : c1.found <;> simp [bind_apply, hfv, hfd]
      | some v => simp [bind_apply, hfv]
  constructor
  · rintro ⟨s, c⟩ d' r' lg h
    obtain ⟨s', c', lg', h1, hrel, _⟩ := dropWhile_hasNext hp fuel hS s c d' r' lg h
    exact ⟨(s', c'), lg', h1, hrel⟩
  · rintro ⟨s, c⟩ d' a r' lg h
    obtain ⟨s', c', lg', h1, ⟨d, r, hR, hf, hI⟩, hfound⟩ := dropWhile_hasNext hp fuel hS s c d' (a :: r') lg h
    have hfd := hfound (by simp)
    rcases c' with ⟨fd, _ | v⟩
    · simp only at hfd; subst hfd
      simp only at hI hR hf
      subst hI
      obtain ⟨s2, lg2, h2, hR2⟩ := hS.next_cons s' d a r' lg' hR
      refine ⟨(s2, ⟨true, none⟩), lg2, ?_, d ++ [a], r', hR2, by simp at hf ⊢; omega, rfl⟩
      rw [hnext _ _ _ _ _ h1]; simp [onFst_eq _ h2]
    · simp only at hfd; subst hfd
      simp only [List.cons.injEq] at hI hR hf
      obtain ⟨rfl, rfl⟩ := hI
      refine ⟨(s', ⟨true, none⟩), lg', ?_, d, r', hR, hf, rfl⟩
      rw [hnext _ _ _ _ _ h1]; simp
  · rintro ⟨s, c⟩ d' lg h
    obtain ⟨s', c', lg', h1, hrel, _⟩ := dropWhile_hasNext hp fuel hS s c d' [] lg h
    refine ⟨nextOnEmpty, (s', c'), lg', ?_, hrel⟩
    rw [hnext _ _ _ _ _ h1]; simp

/-! ### simple sources -/

theorem empty_sim : Sim (empty : Machine Unit α) (fun _ _ r => r = []) where
  hasNext := by rintro s d r lg rfl; exact ⟨s, lg, rfl, rfl⟩
  next_cons := by rintro s d a r lg h; cases h
  next_nil := by rintro s d lg _; exact ⟨nextOnEmpty, s, lg, rfl, rfl⟩

theorem zero_sim : Sim (zero : Machine Unit α) (fun _ _ r => r = []) where
  hasNext := by rintro s d r lg rfl; exact ⟨s, lg, rfl, rfl⟩
  next_cons := by rintro s d a r lg h; cases h
  next_nil := by rintro s d lg _; exact ⟨nilFunc, s, lg, rfl, rfl⟩

theorem ofOption_sim (o : Option α) :
    Sim (ofOption o) (fun first _ r => r = if first then o.toList else []) where
  hasNext := by
    rintro first d r lg rfl
    refine ⟨first, lg, ?_, rfl⟩
    cases first <;> cases o <;> simp [ofOption, bind_apply]
  next_cons := by
    rintro first d a r lg h
    cases first <;> cases o <;> simp at h
    obtain ⟨rfl, rfl⟩ := h
    exact ⟨false, lg, by simp [ofOption, bind_apply], by simp⟩
  next_nil := by
    rintro first d lg h
    cases first <;> cases o <;> simp at h
    · exact ⟨nextOnEmpty, false, lg, by simp [ofOption, bind_apply], by simp⟩
    · exact ⟨nextOnEmpty, false, lg, by simp [ofOption, bind_apply], by simp⟩
    · exact ⟨nextOnEmpty, true, lg, by simp [ofOption, bind_apply], by simp⟩

theorem optionIter_sim :
    Sim (optionIter : Machine (Option α × Bool) α)
      (fun st _ r => r = if st.2 then st.1.toList else []) where
  hasNext := by
    rintro ⟨o, first⟩ d r lg rfl
    refine ⟨(o, first), lg, ?_, rfl⟩
    cases first <;> cases o <;> simp [optionIter, bind_apply]
  next_cons := by
    rintro ⟨o, first⟩ d a r lg h
    cases first <;> cases o <;> simp at h
    obtain ⟨rfl, rfl⟩ := h
    exact ⟨(some a, false), lg, by simp [optionIter, bind_apply], by simp⟩
  next_nil := by
    rintro ⟨o, first⟩ d lg h
    rcases first with _ | _ <;> rcases o with _ | v <;> simp at h
    · exact ⟨nextOnEmpty, (none, false), lg, by simp [optionIter, bind_apply], by simp⟩
    · exact ⟨nextOnEmpty, (some v, false), lg, by simp [optionIter, bind_apply], by simp⟩
    · exact ⟨nextOnEmpty, (none, true), lg, by simp [optionIter, bind_apply], by simp⟩

/-! ### Scan -/

/-- `zero, f(zero,a₁), f(f(zero,a₁),a₂), …` -/
def scanl (g : β → α → β) : β → List α → List β
  | z, [] => [z]
  | z, a :: as => z :: scanl g (g z a) as

/-- the elements after the first one -/
def scanTail (g : β → α → β) : β → List α → List β
  | _, [] => []
  | z, a :: as => g z a :: scanTail g (g z a) as

theorem scanl_eq (g : β → α → β) (z : β) (l : List α) : scanl g z l = z :: scanTail g z l := by
  induction l generalizing z with
  | nil => rfl
  | cons a as ih => simp [scanl, scanTail, ih]

def ScanInv (g : β → α → β) (c : ScanSt β) (d r : List α) (d' r' : List β) : Prop :=
  if c.first then d'.length = d.length ∧ r' = scanl g c.sum r
  else d'.length = d.length + 1 ∧ r' = scanTail g c.sum r

theorem scan_sim {f : β → α → GoM β} {g : β → α → β} (hf : Total2 f g) {m : Machine σ α}
    {R : σ → List α → List α → Prop} (hS : Sim m R) :
    Sim (scan f m) (liftRel (ScanInv g) R) := by
  have hn : ∀ (s : σ) (c : ScanSt β) (d r : List α) (lg : Log), R s d r →
      ∃ s' lg', (scan f m).hasNext (s, c) lg =
        (.ok (if c.first then true else !r.isEmpty), (s', c), lg') ∧ R s' d r := by
    intro s c d r lg hR
    cases hc : c.first
    · obtain ⟨s', lg', h, hR'⟩ := hS.hasNext s d r lg hR
      exact ⟨s', lg', by simp [scan, bind_apply, hc, onFst_eq _ h], hR'⟩
    · exact ⟨s, lg, by simp [scan, bind_apply, hc], hR⟩
  have hnext : ∀ (sc sc1 : σ × ScanSt β) (lg lg1 : Log) (b : Bool),
      (scan f m).hasNext sc lg = (.ok b, sc1, lg1) →
      (scan f m).next sc lg =
        if b then
          if sc1.2.first then (.ok sc1.2.sum, (sc1.1, { sc1.2 with first := false }), lg1)
          else
            match m.next sc1.1 lg1 with
            | (.ok v, s2, lg2) =>
              match (IM.liftG (f sc1.2.sum v) : IM (σ × ScanSt β) β) (s2, sc1.2) lg2 with
              | (.ok sum, (s3, c3), lg3) => (.ok sum, (s3, { c3 with sum := sum }), lg3)
              | (.error e, sc3, lg3) => (.error e, sc3, lg3)
            | (.error e, s2, lg2) => (.error e, (s2, sc1.2), lg2)
        else (.error nextOnEmpty, sc1, lg1) := by
    intro sc sc1 lg lg1 b h
    unfold scan at h ⊢
    simp only [] at h ⊢
    rw [bind_ok h]
    obtain ⟨s1, c1⟩ := sc1
    cases b
    · simp
    · cases hc : c1.first
      · simp only [if_true, bind_apply, onSnd_get, hc, onFst_apply, Bool.false_eq_true, if_false]
        rcases hm : m.next s1 lg1 with ⟨_ | v, s2, lg2⟩
        · simp
        · simp only
          rcases hl : (IM.liftG (f c1.sum v) : IM (σ × ScanSt β) β) (s2, c1) lg2 with ⟨_ | sum, ⟨s3, c3⟩, lg3⟩ <;> simp
      · simp [bind_apply, hc]
  constructor
  · rintro ⟨s, c⟩ d' r' lg ⟨d, r, hR, hI⟩
    obtain ⟨s', lg', h, hR'⟩ := hn s c d r lg hR
    refine ⟨(s', c), lg', ?_, d, r, hR', hI⟩
    rw [h]
    simp only [ScanInv] at hI
    cases hc : c.first
    · simp only [hc, Bool.false_eq_true, if_false] at hI ⊢
      rw [hI.2]; cases r <;> simp [scanTail]
    · simp only [hc, if_true] at hI ⊢
      rw [hI.2, scanl_eq]; simp
  · rintro ⟨s, c⟩ d' b r' lg ⟨d, r, hR, hI⟩
    obtain ⟨s1, lg1, h1, hR1⟩ := hn s c d r lg hR
    simp only [ScanInv] at hI hR
    cases hc : c.first
    · simp only [hc, Bool.false_eq_true, if_false] at hI h1
      obtain ⟨hlen, hr⟩ := hI
      cases r with
      | nil => simp [scanTail] at hr
      | cons a r =>
        simp only [scanTail, List.cons.injEq] at hr
        obtain ⟨rfl, rfl⟩ := hr
        obtain ⟨s2, lg2, h2, hR2⟩ := hS.next_cons s1 d a r lg1 hR1
        obtain ⟨lg3, h3⟩ := liftG_total2 hf c.sum a (s2, c) lg2
        refine ⟨(s2, { c with sum := g c.sum a }), lg3, ?_, d ++ [a], r, hR2, ?_⟩
        · rw [hnext _ _ _ _ _ h1]; simp [hc, h2, h3]
        · simp [ScanInv, hc, hlen]
    · simp only [hc, if_true] at hI h1
      obtain ⟨hlen, hr⟩ := hI
      rw [scanl_eq] at hr
      simp only [List.cons.injEq] at hr
      obtain ⟨rfl, rfl⟩ := hr
      refine ⟨(s1, { c with first := false }), lg1, ?_, d, r, hR1, ?_⟩
      · rw [hnext _ _ _ _ _ h1]; simp [hc]
      · simp [ScanInv, hlen]
  · rintro ⟨s, c⟩ d' lg ⟨d, r, hR, hI⟩
    obtain ⟨s1, lg1, h1, hR1⟩ := hn s c d r lg hR
    simp only [ScanInv] at hI hR
    cases hc : c.first
    · simp only [hc, Bool.false_eq_true, if_false] at hI h1
      obtain ⟨hlen, hr⟩ := hI
      cases r with
      | cons a r => simp [scanTail] at hr
      | nil =>
        refine ⟨nextOnEmpty, (s1, c), lg1, ?_, d, [], hR1, by simp [ScanInv, hc, hlen, scanTail]⟩
        rw [hnext _ _ _ _ _ h1]; simp
    · simp only [hc, if_true] at hI
      rw [scanl_eq] at hI; simp at hI

/-! ### Zip -/

theorem zip_sim {a : Machine σ α} {b : Machine σ₂ β} {Ra : σ → List α → List α → Prop}
    {Rb : σ₂ → List β → List β → Prop} (ha : Sim a Ra) (hb : Sim b Rb) :
    Sim (zip a b) (fun s _ r' => ∃ d1 r1 d2 r2, Ra s.1 d1 r1 ∧ Rb s.2 d2 r2 ∧ r' = List.zip r1 r2) where
  hasNext := by
    rintro ⟨s1, s2⟩ d' r' lg ⟨d1, r1, d2, r2, h1, h2, rfl⟩
    obtain ⟨s1', lg1, e1, h1'⟩ := ha.hasNext s1 d1 r1 lg h1
    cases r1 with
    | nil =>
      simp only [List.isEmpty_nil, Bool.not_true] at e1
      exact ⟨(s1', s2), lg1, by simp [zip, bind_apply, onFst_eq _ e1], d1, [], d2, r2, h1', h2, rfl⟩
    | cons x r1 =>
      simp only [List.isEmpty_cons, Bool.not_false] at e1
      obtain ⟨s2', lg2, e2, h2'⟩ := hb.hasNext s2 d2 r2 lg1 h2
      refine ⟨(s1', s2'), lg2, ?_, d1, x :: r1, d2, r2, h1', h2', rfl⟩
      simp only [zip, bind_apply, onFst_eq _ e1, if_true, onSnd_eq _ e2]
      cases r2 <;> simp
  next_cons := by
    rintro ⟨s1, s2⟩ d' ⟨x, y⟩ r' lg ⟨d1, r1, d2, r2, h1, h2, hr⟩
    cases r1 with
    | nil => simp at hr
    | cons x' r1 =>
      cases r2 with
      | nil => simp at hr
      | cons y' r2 =>
        simp only [List.zip_cons_cons, List.cons.injEq, Prod.mk.injEq] at hr
        obtain ⟨⟨rfl, rfl⟩, rfl⟩ := hr
        obtain ⟨s1', lg1, e1, h1'⟩ := ha.next_cons s1 d1 x r1 lg h1
        obtain ⟨s2', lg2, e2, h2'⟩ := hb.next_cons s2 d2 y r2 lg1 h2
        exact ⟨(s1', s2'), lg2, by simp [zip, bind_apply, onFst_eq _ e1, onSnd_eq _ e2], _, r1, _, r2, h1', h2', rfl⟩
  next_nil := by
    rintro ⟨s1, s2⟩ d' lg ⟨d1, r1, d2, r2, h1, h2, hr⟩
    cases r1 with
    | nil =>
      obtain ⟨p, s1', lg1, e1, h1'⟩ := ha.next_nil s1 d1 lg h1
      exact ⟨p, (s1', s2), lg1, by simp [zip, bind_apply, onFst_eq _ e1], d1, [], d2, r2, h1', h2, by simp⟩
    | cons x r1 =>
      cases r2 with
      | cons y r2 => simp at hr
      | nil =>
        obtain ⟨s1', lg1, e1, h1'⟩ := ha.next_cons s1 d1 x r1 lg h1
        obtain ⟨p, s2', lg2, e2, h2'⟩ := hb.next_nil s2 d2 lg1 h2
        exact ⟨p, (s1', s2'), lg2, by simp [zip, bind_apply, onFst_eq _ e1, onSnd_eq _ e2], _, r1, d2, [], h1', h2', by simp⟩

/-! ### ZipWithIndex -/

/-- `[(n, a₀), (n+1, a₁), …]` -/
def zipIdx : Nat → List α → List (Int × α)
  | _, [] => []
  | n, a :: as => ((n : Int), a) :: zipIdx (n + 1) as

theorem generate_next_pure (h : Nat → α) (n : Nat) (lg : Log) :
    (generate (fun n => (pure (h n) : GoM α))).next n lg = (.ok (h n), n + 1, lg) := rfl

theorem zipWithIndex_sim {m : Machine σ α} {R : σ → List α → List α → Prop} (hS : Sim m R) :
    Sim (zipWithIndex m) (fun s _ r' => ∃ d r, R s.2 d r ∧ r' = zipIdx s.1 r) where
  hasNext := by
    rintro ⟨n, s⟩ d' r' lg ⟨d, r, hR, rfl⟩
    obtain ⟨s', lg', e, hR'⟩ := hS.hasNext s d r lg hR
    refine ⟨(n, s'), lg', ?_, d, r, hR', rfl⟩
    simp only [zipWithIndex, zip, generate, bind_apply, onFst_apply, pure_apply, if_true, onSnd_eq _ e]
    cases r <;> simp [zipIdx]
  next_cons := by
    rintro ⟨n, s⟩ d' ⟨i, x⟩ r' lg ⟨d, r, hR, hr⟩
    cases r with
    | nil => simp [zipIdx] at hr
    | cons a r =>
      simp only [zipIdx, List.cons.injEq, Prod.mk.injEq] at hr
      obtain ⟨⟨rfl, rfl⟩, rfl⟩ := hr
      obtain ⟨s', lg', e, hR'⟩ := hS.next_cons s d x r lg hR
      refine ⟨(n + 1, s'), lg', ?_, _, r, hR', rfl⟩
      simp [zipWithIndex, zip, bind_apply, onFst_eq _ (generate_next_pure (fun n => (n : Int)) n lg), onSnd_eq _ e]
  next_nil := by
    rintro ⟨n, s⟩ d' lg ⟨d, r, hR, hr⟩
    cases r with
    | cons a r => simp [zipIdx] at hr
    | nil =>
      obtain ⟨p, s', lg', e, hR'⟩ := hS.next_nil s d lg hR
      refine ⟨p, (n + 1, s'), lg', ?_, d, [], hR', by simp [zipIdx]⟩
      simp [zipWithIndex, zip, bind_apply, onFst_eq _ (generate_next_pure (fun n => (n : Int)) n lg), onSnd_eq _ e]

/-! ### MakePullIterator -/

def PullInv (val : Option α) (d r d' r' : List α) : Prop :=
  match val with
  | some v => d = d' ++ [v] ∧ r' = v :: r
  | none => d = d' ∧ r = [] ∧ r' = []

theorem pullNextFn_spec {m : Machine σ α} {R : σ → List α → List α → Prop} (hS : Sim m R)
    (s : σ) (d r : List α) (lg : Log) (hR : R s d r) :
    ∃ s' lg', pullNextFn m s lg = (.ok r.head?, s', lg') ∧ R s' (d ++ r.head?.toList) r.tail := by
  obtain ⟨s1, lg1, h1, hR1⟩ := hS.hasNext s d r lg hR
  cases r with
  | nil =>
    simp only [List.isEmpty_nil, Bool.not_true] at h1
    exact ⟨s1, lg1, by simp [pullNextFn, bind_ok h1], by simpa using hR1⟩
  | cons a r =>
    simp only [List.isEmpty_cons, Bool.not_false] at h1
    obtain ⟨s2, lg2, h2, hR2⟩ := hS.next_cons s1 d a r lg1 hR1
    exact ⟨s2, lg2, by simp [pullNextFn, bind_ok h1, bind_ok h2], by simpa using hR2⟩

/-- construction pulls the first element -/
theorem pullInit_spec {m : Machine σ α} {R : σ → List α → List α → Prop} (hS : Sim m R)
    (s : σ) (v0 : Option α) (r : List α) (lg : Log) (hR : R s [] r) :
    ∃ s' lg' v, pullInit m (s, v0) lg = (.ok (), (s', v), lg') ∧ liftRel PullInv R (s', v) [] r := by
  obtain ⟨s', lg', h, hR'⟩ := pullNextFn_spec hS s [] r lg hR
  refine ⟨s', lg', r.head?, by simp [pullInit, bind_apply, onFst_eq _ h], _, r.tail, hR', ?_⟩
  cases r <;> simp [PullInv]

theorem pull_sim {m : Machine σ α} {R : σ → List α → List α → Prop} (hS : Sim m R) :
    Sim (pull m) (liftRel PullInv R) where
  hasNext := by
    rintro ⟨s, v⟩ d' r' lg ⟨d, r, hR, hI⟩
    refine ⟨(s, v), lg, ?_, d, r, hR, hI⟩
    cases v with
    | none => obtain ⟨_, _, rfl⟩ := hI; simp [pull, bind_apply]
    | some v => obtain ⟨_, rfl⟩ := hI; simp [pull, bind_apply]
  next_cons := by
    rintro ⟨s, v⟩ d' a r' lg ⟨d, r, hR, hI⟩
    cases v with
    | none => obtain ⟨_, _, h⟩ := hI; cases h
    | some v =>
      simp only [PullInv, List.cons.injEq] at hI
      obtain ⟨rfl, rfl, rfl⟩ := hI
      obtain ⟨s', lg', h, hR'⟩ := pullNextFn_spec hS s _ r' lg hR
      refine ⟨(s', r'.head?), lg', by simp [pull, bind_apply, onFst_eq _ h], _, r'.tail, hR', ?_⟩
      cases r' <;> simp [PullInv]
  next_nil := by
    rintro ⟨s, v⟩ d' lg ⟨d, r, hR, hI⟩
    cases v with
    | some v => obtain ⟨_, h⟩ := hI; cases h
    | none => exact ⟨nextOnEmpty, (s, none), lg, by simp [pull, bind_apply], d, _, hR, hI⟩

/-! ### Range, ReverseSeq -/

/-- `[i, i+1, …]`, `k` elements -/
def intRange : Int → Nat → List Int
  | _, 0 => []
  | i, k + 1 => i :: intRange (i + 1) k

/-- number of elements `Range`/`RangeClosed` still yields from `i` -/
def rangeCount (closed : Bool) (bound i : Int) : Nat :=
  if closed then (bound + 1 - i).toNat else (bound - i).toNat

theorem range_sim (closed : Bool) (bound : Int) :
    Sim (range closed bound) (fun i _ r => r = intRange i (rangeCount closed bound i)) where
  hasNext := by
    rintro i d r lg rfl
    refine ⟨i, lg, ?_, rfl⟩
    simp only [range, bind_apply, get_apply, pure_apply]
    congr 2
    cases closed
    · by_cases h : i < bound
      · obtain ⟨k, hk⟩ : ∃ k, (bound - i).toNat = k + 1 := ⟨(bound - i).toNat - 1, by omega⟩
        simp [rangeCount, hk, intRange, h]
      · have : (bound - i).toNat = 0 := by omega
        simp [rangeCount, this, intRange, h]
    · by_cases h : i ≤ bound
      · obtain ⟨k, hk⟩ : ∃ k, (bound + 1 - i).toNat = k + 1 := ⟨(bound + 1 - i).toNat - 1, by omega⟩
        simp [rangeCount, hk, intRange, h]
      · have : (bound + 1 - i).toNat = 0 := by omega
        simp [rangeCount, this, intRange, h]
  next_cons := by
    rintro i d a r lg h
    cases closed
    · by_cases hlt : i < bound
      · obtain ⟨k, hk⟩ : ∃ k, (bound - i).toNat = k + 1 := ⟨(bound - i).toNat - 1, by omega⟩
        simp only [rangeCount, Bool.false_eq_true, if_false, hk, intRange, List.cons.injEq] at h
        obtain ⟨rfl, rfl⟩ := h
        have hk' : (bound - (a + 1)).toNat = k := by omega
        exact ⟨a + 1, lg, by simp [range, bind_apply, hlt], by simp [rangeCount, hk']⟩
      · have : (bound - i).toNat = 0 := by omega
        simp [rangeCount, this, intRange] at h
    · by_cases hlt : i ≤ bound
      · obtain ⟨k, hk⟩ : ∃ k, (bound + 1 - i).toNat = k + 1 := ⟨(bound + 1 - i).toNat - 1, by omega⟩
        simp only [rangeCount, if_true, hk, intRange, List.cons.injEq] at h
        obtain ⟨rfl, rfl⟩ := h
        have hk' : (bound + 1 - (a + 1)).toNat = k := by omega
        exact ⟨a + 1, lg, by simp [range, bind_apply, hlt], by simp [rangeCount, hk']⟩
      · have : (bound + 1 - i).toNat = 0 := by omega
        simp [rangeCount, this, intRange] at h
  next_nil := by
    rintro i d lg h
    refine ⟨nextOnEmpty, i, lg, ?_, h⟩
    cases closed
    · by_cases hlt : i < bound
      · obtain ⟨k, hk⟩ : ∃ k, (bound - i).toNat = k + 1 := ⟨(bound - i).toNat - 1, by omega⟩
        simp [rangeCount, hk, intRange] at h
      · simp [range, bind_apply, hlt]
    · by_cases hlt : i ≤ bound
      · obtain ⟨k, hk⟩ : ∃ k, (bound + 1 - i).toNat = k + 1 := ⟨(bound + 1 - i).toNat - 1, by omega⟩
        simp [rangeCount, hk, intRange] at h
      · simp [range, bind_apply, hlt]

theorem reverseSeq_sim (xs : List α) :
    Sim (reverseSeq xs) (fun idx _ r => idx ≤ xs.length ∧ r = (xs.take idx).reverse) where
  hasNext := by
    rintro idx d r lg ⟨hle, rfl⟩
    refine ⟨idx, lg, ?_, hle, rfl⟩
    simp only [reverseSeq, bind_apply, get_apply, pure_apply]
    congr 2
    cases idx with
    | zero => simp
    | succ k =>
      have : (xs.take (k + 1)).length = k + 1 := by simp; omega
      cases h : xs.take (k + 1) with
      | nil => rw [h] at this; simp at this
      | cons _ _ => simp
  next_cons := by
    rintro idx d a r lg ⟨hle, hr⟩
    cases idx with
    | zero => simp at hr
    | succ k =>
      have hk : k < xs.length := by omega
      rw [List.take_add_one, List.getElem?_eq_getElem hk] at hr
      simp only [Option.toList_some, List.reverse_append, List.reverse_cons, List.reverse_nil,
        List.nil_append, List.singleton_append, List.cons.injEq] at hr
      obtain ⟨rfl, rfl⟩ := hr
      refine ⟨k, lg, ?_, by omega, rfl⟩
      simp [reverseSeq, bind_apply, List.getElem?_eq_getElem hk]
  next_nil := by
    rintro idx d lg ⟨hle, hr⟩
    cases idx with
    | zero => exact ⟨nextOnEmpty, 0, lg, by simp [reverseSeq, bind_apply], hle, hr⟩
    | succ k =>
      have hk : k < xs.length := by omega
      rw [List.take_add_one, List.getElem?_eq_getElem hk] at hr
      simp at hr
      subst hr
      simp at hk

/-! ### FlatMap -/

theorem onCurrent_some {dflt : IM (Option τ) X} {m : IM τ X} {t t' : τ} {lg lg' : Log}
    {r : Except PanicVal X} (h : m t lg = (r, t', lg')) :
    onCurrent dflt m (some t) lg = (r, some t', lg') := by
  simp [onCurrent, h]

@[simp] theorem onCurrent_none (dflt : IM (Option τ) X) (m : IM τ X) (lg : Log) :
    onCurrent dflt m none lg = dflt none lg := rfl

/-- the iterator stored in `current` will still deliver `rc` -/
def CurOK (Ri : τ → List β → List β → Prop) (cur : Option τ) (rc : List β) : Prop :=
  match cur with
  | some t => ∃ dc, Ri t dc rc
  | none => rc = []

def FlatMapInv (fuel : Nat) (Ri : τ → List β → List β → Prop) (h : α → List β) (cur : Option τ)
    (_d r : List α) (_d' r' : List β) : Prop :=
  r.length < fuel ∧ ∃ rc, CurOK Ri cur rc ∧ r' = rc ++ r.flatMap h

theorem flatMapLoop_spec {mf : α → GoM τ} {gf : α → τ} (hmf : Total mf gf) {inner : Machine τ β}
    {Ri : τ → List β → List β → Prop} (hI : Sim inner Ri) {h : α → List β}
    (hgf : ∀ a, Ri (gf a) [] (h a)) {m : Machine σ α} {R : σ → List α → List α → Prop} (hS : Sim m R) :
    ∀ (r : List α) (fuel : Nat) (s : σ) (d : List α) (cur : Option τ) (lg : Log), r.length < fuel → R s d r →
      CurOK Ri cur [] →
      ∃ s' cur' lg' d2 r2 rc, flatMapLoop mf inner m fuel (s, cur) lg =
          (.ok (!(r.flatMap h).isEmpty), (s', cur'), lg') ∧
        R s' d2 r2 ∧ r2.length ≤ r.length ∧ CurOK Ri cur' rc ∧ rc ++ r2.flatMap h = r.flatMap h ∧
        (r.flatMap h ≠ [] → rc ≠ []) := by
  intro r
  induction r with
  | nil =>
    intro fuel s d cur lg hf hR hc
    obtain ⟨k, rfl⟩ := Nat.exists_eq_succ_of_ne_zero (by omega : fuel ≠ 0)
    obtain ⟨s1, lg1, h1, hR1⟩ := hS.hasNext s d [] lg hR
    simp only [List.isEmpty_nil, Bool.not_true] at h1
    exact ⟨s1, cur, lg1, d, [], [], by simp [flatMapLoop, bind_apply, onFst_eq _ h1], hR1, by simp, hc, by simp, by simp⟩
  | cons a r ih =>
    intro fuel s d cur lg hf hR hc
    obtain ⟨k, rfl⟩ := Nat.exists_eq_succ_of_ne_zero (by omega : fuel ≠ 0)
    obtain ⟨s1, lg1, h1, hR1⟩ := hS.hasNext s d (a :: r) lg hR
    obtain ⟨s2, lg2, h2, hR2⟩ := hS.next_cons s1 d a r lg1 hR1
    obtain ⟨lg3, h3⟩ := liftG_total hmf a (s2, cur) lg2
    obtain ⟨t4, lg4, h4, hR4⟩ := hI.hasNext (gf a) [] (h a) lg3 (hgf a)
    simp only [List.isEmpty_cons, Bool.not_false] at h1
    have h4' := onSnd_eq s2 (onCurrent_some (dflt := (pure false : IM (Option τ) Bool)) h4)
    cases hh : h a with
    | nil =>
      rw [hh] at h4' hR4
      obtain ⟨s', cur', lg', d2, r2, rc, h5, hR5, hle, hc5, hrc, hne⟩ :=
        ih k s2 (d ++ [a]) (some t4) lg4 (by simpa using hf) hR2 ⟨[], hR4⟩
      refine ⟨s', cur', lg', d2, r2, rc, ?_, hR5, by simp; omega, hc5, by simpa [hh] using hrc, by simpa [hh] using hne⟩
      simp [flatMapLoop, bind_apply, onFst_eq _ h1, onFst_eq _ h2, h3, h4', h5, hh]
    | cons b bs =>
      rw [hh] at h4' hR4
      refine ⟨s2, some t4, lg4, d ++ [a], r, b :: bs, ?_, hR2, by simp, ⟨[], hR4⟩, by simp [hh], by simp⟩
      simp [flatMapLoop, bind_apply, onFst_eq _ h1, onFst_eq _ h2, h3, h4', hh]

theorem flatMap_hasNext {mf : α → GoM τ} {gf : α → τ} (hmf : Total mf gf) {inner : Machine τ β}
    {Ri : τ → List β → List β → Prop} (hI : Sim inner Ri) {h : α → List β}
    (hgf : ∀ a, Ri (gf a) [] (h a)) (fuel : Nat) {m : Machine σ α} {R : σ → List α → List α → Prop}
    (hS : Sim m R) (s : σ) (cur : Option τ) (d' r' : List β) (lg : Log)
    (hrel : liftRel (FlatMapInv fuel Ri h) R (s, cur) d' r') :
    ∃ s' cur' lg', (flatMap fuel mf inner m).hasNext (s, cur) lg = (.ok (!r'.isEmpty), (s', cur'), lg') ∧
      ∃ d r rc, R s' d r ∧ r.length < fuel ∧ CurOK Ri cur' rc ∧ r' = rc ++ r.flatMap h ∧ (r' ≠ [] → rc ≠ []) := by
  obtain ⟨d, r, hR, hf, rc, hc, rfl⟩ := hrel
  simp only at hR hf
  -- first: current.IsDefined() && current.Get().HasNext()
  have hfirst : ∃ cur1 lg1, (IM.onSnd (onCurrent (pure false) inner.hasNext) : IM (σ × Option τ) Bool) (s, cur) lg =
      (.ok (!rc.isEmpty), (s, cur1), lg1) ∧ CurOK Ri cur1 rc := by
    cases cur with
    | none =>
      simp only [CurOK] at hc; subst hc
      exact ⟨none, lg, by simp [onSnd_apply], rfl⟩
    | some t =>
      obtain ⟨dc, hc⟩ := hc
      obtain ⟨t1, lg1, h1, hc1⟩ := hI.hasNext t dc rc lg hc
      exact ⟨some t1, lg1, onSnd_eq s (onCurrent_some h1), dc, hc1⟩
  obtain ⟨cur1, lg1, h1, hc1⟩ := hfirst
  cases rc with
  | cons b bs =>
    refine ⟨s, cur1, lg1, ?_, d, r, b :: bs, hR, hf, hc1, rfl, by simp⟩
    simp only [List.isEmpty_cons, Bool.not_false] at h1
    simp [flatMap, bind_apply, h1]
  | nil =>
    simp only [List.isEmpty_nil, Bool.not_true] at h1
    obtain ⟨s', cur', lg', d2, r2, rc, h5, hR5, hle, hc5, hrc, hne⟩ :=
      flatMapLoop_spec hmf hI hgf hS r fuel s d cur1 lg1 hf hR hc1
    refine ⟨s', cur', lg', ?_, d2, r2, rc, hR5, by omega, hc5, by simpa using hrc.symm, by simpa using hne⟩
    simp [flatMap, bind_apply, h1, h5]

theorem flatMap_sim {mf : α → GoM τ} {gf : α → τ} (hmf : Total mf gf) {inner : Machine τ β}
    {Ri : τ → List β → List β → Prop} (hI : Sim inner Ri) {h : α → List β}
    (hgf : ∀ a, Ri (gf a) [] (h a)) (fuel : Nat) {m : Machine σ α} {R : σ → List α → List α → Prop}
    (hS : Sim m R) :
    Sim (flatMap fuel mf inner m) (liftRel (FlatMapInv fuel Ri h) R) := by
  have hnext : ∀ (sc sc1 : σ × Option τ) (lg lg1 : Log) (b : Bool),
      (flatMap fuel mf inner m).hasNext sc lg = (.ok b, sc1, lg1) →
      (flatMap fuel mf inner m).next sc lg =
        if b then (IM.onSnd (onCurrent (IM.panic "Option.empty") inner.next) : IM (σ × Option τ) β) sc1 lg1
        else (.error nextOnEmpty, sc1, lg1) := by
    intro sc sc1 lg lg1 b h
    unfold flatMap at h ⊢
    simp only [] at h ⊢
    rw [bind_ok h]
    cases b <;> simp
  constructor
  · rintro ⟨s, cur⟩ d' r' lg hrel
    obtain ⟨s', cur', lg', h1, d, r, rc, hR, hf, hc, hr, _⟩ := flatMap_hasNext hmf hI hgf fuel hS s cur d' r' lg hrel
    exact ⟨(s', cur'), lg', h1, d, r, hR, hf, rc, hc, hr⟩
  · rintro ⟨s, cur⟩ d' b r' lg hrel
    obtain ⟨s', cur', lg', h1, d, r, rc, hR, hf, hc, hr, hne⟩ :=
      flatMap_hasNext hmf hI hgf fuel hS s cur d' (b :: r') lg hrel
    cases rc with
    | nil => exact absurd rfl (hne (by simp))
    | cons b' bs =>
      simp only [List.cons_append, List.cons.injEq] at hr
      obtain ⟨rfl, rfl⟩ := hr
      cases cur' with
      | none => simp [CurOK] at hc
      | some t =>
        obtain ⟨dc, hc⟩ := hc
        obtain ⟨t2, lg2, h2, hc2⟩ := hI.next_cons t dc b bs lg' hc
        refine ⟨(s', some t2), lg2, ?_, d, r, hR, hf, bs, ⟨_, hc2⟩, rfl⟩
        rw [hnext _ _ _ _ _ h1]
        simp [onSnd_eq s' (onCurrent_some (dflt := (IM.panic "Option.empty" : IM (Option τ) β)) h2)]
  · rintro ⟨s, cur⟩ d' lg hrel
    obtain ⟨s', cur', lg', h1, d, r, rc, hR, hf, hc, hr, _⟩ := flatMap_hasNext hmf hI hgf fuel hS s cur d' [] lg hrel
    refine ⟨nextOnEmpty, (s', cur'), lg', ?_, d, r, hR, hf, rc, hc, hr⟩
    rw [hnext _ _ _ _ _ h1]; simp

/-! ### Concat over a multi-port machine -/

def upd (L : Nat → List α) (i : Nat) (t : List α) : Nat → List α := fun j => if j = i then t else L j

@[simp] theorem upd_same (L : Nat → List α) (i : Nat) (t : List α) : upd L i t i = t := by simp [upd]
theorem upd_other (L : Nat → List α) {i j : Nat} (t : List α) (h : j ≠ i) : upd L i t j = L j := by simp [upd, h]

/-- `R s L`: port `i` (for `i < m.n`) will deliver exactly `L i`. -/
structure MSim (m : MMachine σ α) (R : σ → (Nat → List α) → Prop) : Prop where
  hasNext : ∀ i s L lg, i < m.n → R s L →
    ∃ s' lg', m.hasNext i s lg = (.ok (!(L i).isEmpty), s', lg') ∧ R s' L
  next_cons : ∀ i s L a t lg, i < m.n → R s L → L i = a :: t →
    ∃ s' lg', m.next i s lg = (.ok a, s', lg') ∧ R s' (upd L i t)
  next_nil : ∀ i s L lg, i < m.n → R s L → L i = [] →
    ∃ p s' lg', m.next i s lg = (.error p, s', lg') ∧ R s' L

theorem single_msim {m : Machine σ α} {R : σ → List α → List α → Prop} (hS : Sim m R) :
    MSim (MMachine.single m) (fun s L => ∃ d, R s d (L 0)) where
  hasNext := by
    rintro i s L lg hi ⟨d, hR⟩
    have : i = 0 := by simp [MMachine.single] at hi; omega
    subst this
    obtain ⟨s', lg', h, hR'⟩ := hS.hasNext s d (L 0) lg hR
    exact ⟨s', lg', h, d, hR'⟩
  next_cons := by
    rintro i s L a t lg hi ⟨d, hR⟩ hL
    have : i = 0 := by simp [MMachine.single] at hi; omega
    subst this
    rw [hL] at hR
    obtain ⟨s', lg', h, hR'⟩ := hS.next_cons s d a t lg hR
    exact ⟨s', lg', h, d ++ [a], by simpa using hR'⟩
  next_nil := by
    rintro i s L lg hi ⟨d, hR⟩ hL
    have : i = 0 := by simp [MMachine.single] at hi; omega
    subst this
    rw [hL] at hR
    obtain ⟨p, s', lg', h, hR'⟩ := hS.next_nil s d lg hR
    exact ⟨p, s', lg', h, d, by rw [hL]; exact hR'⟩

def joinRel (na : Nat) (Ra : σ → (Nat → List α) → Prop) (Rb : σ₂ → (Nat → List α) → Prop)
    (s : σ × σ₂) (L : Nat → List α) : Prop :=
  ∃ La Lb, Ra s.1 La ∧ Rb s.2 Lb ∧ ∀ i, L i = if i < na then La i else Lb (i - na)

theorem join_msim {a : MMachine σ α} {b : MMachine σ₂ α} {Ra : σ → (Nat → List α) → Prop}
    {Rb : σ₂ → (Nat → List α) → Prop} (ha : MSim a Ra) (hb : MSim b Rb) :
    MSim (MMachine.join a b) (joinRel a.n Ra Rb) where
  hasNext := by
    rintro i ⟨s1, s2⟩ L lg hi ⟨La, Lb, hRa, hRb, hL⟩
    by_cases hlt : i < a.n
    · obtain ⟨s', lg', h, hR'⟩ := ha.hasNext i s1 La lg hlt hRa
      refine ⟨(s', s2), lg', ?_, La, Lb, hR', hRb, hL⟩
      simp [MMachine.join, hlt, onFst_eq _ h, hL i]
    · have hi' : i - a.n < b.n := by simp [MMachine.join] at hi; omega
      obtain ⟨s', lg', h, hR'⟩ := hb.hasNext (i - a.n) s2 Lb lg hi' hRb
      refine ⟨(s1, s'), lg', ?_, La, Lb, hRa, hR', hL⟩
      simp [MMachine.join, hlt, onSnd_eq _ h, hL i]
  next_cons := by
    rintro i ⟨s1, s2⟩ L x t lg hi ⟨La, Lb, hRa, hRb, hL⟩ hLi
    by_cases hlt : i < a.n
    · have hLa : La i = x :: t := by rw [← hLi, hL i]; simp [hlt]
      obtain ⟨s', lg', h, hR'⟩ := ha.next_cons i s1 La x t lg hlt hRa hLa
      refine ⟨(s', s2), lg', ?_, upd La i t, Lb, hR', hRb, ?_⟩
      · simp [MMachine.join, hlt, onFst_eq _ h]
      · intro j
        by_cases hj : j = i
        · subst hj; simp [hlt]
        · rw [upd_other _ _ hj, hL j]
          by_cases hjl : j < a.n
          · simp [hjl, upd_other _ _ hj]
          · simp [hjl]
    · have hi' : i - a.n < b.n := by simp [MMachine.join] at hi; omega
      have hLb : Lb (i - a.n) = x :: t := by rw [← hLi, hL i]; simp [hlt]
      obtain ⟨s', lg', h, hR'⟩ := hb.next_cons (i - a.n) s2 Lb x t lg hi' hRb hLb
      refine ⟨(s1, s'), lg', ?_, La, upd Lb (i - a.n) t, hRa, hR', ?_⟩
      · simp [MMachine.join, hlt, onSnd_eq _ h]
      · intro j
        by_cases hj : j = i
        · subst hj; simp [hlt]
        · rw [upd_other _ _ hj, hL j]
          by_cases hjl : j < a.n
          · simp [hjl]
          · have : j - a.n ≠ i - a.n := by omega
            simp [hjl, upd_other _ _ this]
  next_nil := by
    rintro i ⟨s1, s2⟩ L lg hi ⟨La, Lb, hRa, hRb, hL⟩ hLi
    by_cases hlt : i < a.n
    · have hLa : La i = [] := by rw [← hLi, hL i]; simp [hlt]
      obtain ⟨p, s', lg', h, hR'⟩ := ha.next_nil i s1 La lg hlt hRa hLa
      exact ⟨p, (s', s2), lg', by simp [MMachine.join, hlt, onFst_eq _ h], La, Lb, hR', hRb, hL⟩
    · have hi' : i - a.n < b.n := by simp [MMachine.join] at hi; omega
      have hLb : Lb (i - a.n) = [] := by rw [← hLi, hL i]; simp [hlt]
      obtain ⟨p, s', lg', h, hR'⟩ := hb.next_nil (i - a.n) s2 Lb lg hi' hRb hLb
      exact ⟨p, (s1, s'), lg', by simp [MMachine.join, hlt, onSnd_eq _ h], La, Lb, hRa, hR', hL⟩

/-- `L j ++ L (j+1) ++ … ` (`k` lists) -/
def flatFrom (L : Nat → List α) : Nat → Nat → List α
  | _, 0 => []
  | j, k + 1 => L j ++ flatFrom L (j + 1) k

theorem flatFrom_upd_lt (L : Nat → List α) (i : Nat) (t : List α) :
    ∀ (k j : Nat), i < j → flatFrom (upd L i t) j k = flatFrom L j k := by
  intro k
  induction k with
  | zero => intros; rfl
  | succ k ih =>
    intro j hij
    simp only [flatFrom]
    rw [upd_other _ _ (by omega : j ≠ i), ih (j + 1) (by omega)]

/-- captured variables of `Concat` vs. what the components will still deliver.  The components
    before `currentItr` are exhausted (so what the iterator will deliver is the concatenation of
    what ALL components will deliver: `ConcatInv.flat`). -/
def ConcatInv (n : Nat) (c : ConcatSt) (L : Nat → List α) (r' : List α) : Prop :=
  match c.currentItr with
  | some i => i < n ∧ c.remain = i + 1 ∧ r' = L i ++ flatFrom L (i + 1) (n - (i + 1)) ∧
      (c.currentNextChecked = true → L i ≠ []) ∧ (∀ j, j < i → L j = [])
  | none => r' = [] ∧ c.currentNextChecked = false ∧ (∀ j, j < n → L j = [])

def concatRel (n : Nat) (R : σ → (Nat → List α) → Prop) (sc : σ × ConcatSt) (_d' r' : List α) : Prop :=
  ∃ L, R sc.1 L ∧ ConcatInv n sc.2 L r'

theorem concatScan_spec {all : MMachine σ α} {R : σ → (Nat → List α) → Prop} (hS : MSim all R) :
    ∀ (k j : Nat) (s : σ) (c : ConcatSt) (L : Nat → List α) (lg : Log), j + k = all.n → R s L →
      c.currentNextChecked = false → (∀ j', j' < j → L j' = []) →
      ∃ s' c' lg', concatScan all k j (s, c) lg = (.ok (!(flatFrom L j k).isEmpty), (s', c'), lg') ∧
        R s' L ∧ ConcatInv all.n c' L (flatFrom L j k) ∧ (flatFrom L j k ≠ [] → c'.currentNextChecked = true) := by
  intro k
  induction k with
  | zero =>
    intro j s c L lg hjk hR hc hex
    refine ⟨s, { c with currentItr := none }, lg, by simp [concatScan, bind_apply, flatFrom], hR,
      ?_, by simp [flatFrom]⟩
    simp only [ConcatInv, flatFrom, hc, true_and]
    intro j' hj'; exact hex j' (by omega)
  | succ k ih =>
    intro j s c L lg hjk hR hc hex
    obtain ⟨s1, lg1, h1, hR1⟩ := hS.hasNext j s L lg (by omega) hR
    cases hLj : L j with
    | nil =>
      rw [hLj] at h1
      simp only [List.isEmpty_nil, Bool.not_true] at h1
      have hex' : ∀ j', j' < j + 1 → L j' = [] := by
        intro j' hj'
        rcases Nat.lt_succ_iff_lt_or_eq.mp hj' with h | h
        · exact hex j' h
        · rw [h]; exact hLj
      obtain ⟨s', c', lg', h2, hR2, hI2, hck⟩ := ih (j + 1) s1 c L lg1 (by omega) hR1 hc hex'
      refine ⟨s', c', lg', ?_, hR2, by simpa [flatFrom, hLj] using hI2, by simpa [flatFrom, hLj] using hck⟩
      simp [concatScan, bind_apply, onFst_eq _ h1, h2, flatFrom, hLj]
    | cons x t =>
      rw [hLj] at h1
      simp only [List.isEmpty_cons, Bool.not_false] at h1
      refine ⟨s1, ⟨some j, j + 1, true⟩, lg1, ?_, hR1, ?_, by simp⟩
      · simp [concatScan, bind_apply, onFst_eq _ h1, flatFrom, hLj]
      · have : all.n - (j + 1) = k := by omega
        refine ⟨by omega, rfl, by simp [flatFrom, hLj, this], by simp [hLj], hex⟩

theorem concatCurrentNext_spec {all : MMachine σ α} {R : σ → (Nat → List α) → Prop} (hS : MSim all R)
    (s : σ) (c : ConcatSt) (L : Nat → List α) (r' : List α) (lg : Log) (hR : R s L)
    (hI : ConcatInv all.n c L r') :
    ∃ s' c' lg', concatCurrentNext all (s, c) lg = (.ok (!r'.isEmpty), (s', c'), lg') ∧
      R s' L ∧ ConcatInv all.n c' L r' ∧ (r' ≠ [] → c'.currentNextChecked = true) := by
  rcases c with ⟨cur, rem, chk⟩
  cases chk with
  | true =>
    cases cur with
    | none => simp [ConcatInv] at hI
    | some i =>
      obtain ⟨hi, hrem, rfl, hne, hex⟩ := hI
      have hne' : L i ≠ [] := hne rfl
      refine ⟨s, ⟨some i, rem, true⟩, lg, ?_, hR, ⟨hi, hrem, rfl, hne, hex⟩, by simp⟩
      cases hLi : L i with
      | nil => exact absurd hLi hne'
      | cons x t => simp [concatCurrentNext, bind_apply]
  | false =>
    cases cur with
    | none =>
      obtain ⟨rfl, _, hex⟩ := hI
      exact ⟨s, ⟨none, rem, false⟩, lg, by simp [concatCurrentNext, bind_apply], hR, ⟨rfl, rfl, hex⟩, by simp⟩
    | some i =>
      obtain ⟨hi, hrem, rfl, _, hex⟩ := hI
      simp only at hrem; subst hrem
      obtain ⟨s1, lg1, h1, hR1⟩ := hS.hasNext i s L lg hi hR
      cases hLi : L i with
      | cons x t =>
        rw [hLi] at h1
        simp only [List.isEmpty_cons, Bool.not_false] at h1
        refine ⟨s1, ⟨some i, i + 1, true⟩, lg1, ?_, hR1, ⟨hi, rfl, by simp [hLi], by simp [hLi], hex⟩, by simp⟩
        simp [concatCurrentNext, bind_apply, onFst_eq _ h1]
      | nil =>
        rw [hLi] at h1
        simp only [List.isEmpty_nil, Bool.not_true] at h1
        have hex' : ∀ j', j' < i + 1 → L j' = [] := by
          intro j' hj'
          rcases Nat.lt_succ_iff_lt_or_eq.mp hj' with h | h
          · exact hex j' h
          · rw [h]; exact hLi
        obtain ⟨s', c', lg', h2, hR2, hI2, hck⟩ :=
          concatScan_spec hS (all.n - (i + 1)) (i + 1) s1 ⟨some i, i + 1, false⟩ L lg1 (by omega) hR1 rfl hex'
        refine ⟨s', c', lg', ?_, hR2, by simpa using hI2, by simpa using hck⟩
        simp [concatCurrentNext, bind_apply, onFst_eq _ h1, h2]

theorem concat_sim {all : MMachine σ α} {R : σ → (Nat → List α) → Prop} (hS : MSim all R) :
    Sim (concat all) (concatRel all.n R) := by
  have hnext : ∀ (sc sc1 : σ × ConcatSt) (lg lg1 : Log) (b : Bool),
      concatCurrentNext all sc lg = (.ok b, sc1, lg1) →
      (concat all).next sc lg =
        if b then
          match sc1.2.currentItr with
          | some cur => (IM.onFst (all.next cur) : IM (σ × ConcatSt) α)
              (sc1.1, { sc1.2 with currentNextChecked := false }) lg1
          | none => (.error "Option.empty", (sc1.1, { sc1.2 with currentNextChecked := false }), lg1)
        else (.error nextOnEmpty, sc1, lg1) := by
    intro sc sc1 lg lg1 b h
    simp only [concat]
    rw [bind_ok h]
    obtain ⟨s1, c1⟩ := sc1
    cases b
    · simp
    · cases hc : c1.currentItr <;> simp [bind_apply, hc]
  constructor
  · rintro ⟨s, c⟩ d' r' lg ⟨L, hR, hI⟩
    obtain ⟨s', c', lg', h1, hR', hI', _⟩ := concatCurrentNext_spec hS s c L r' lg hR hI
    exact ⟨(s', c'), lg', h1, L, hR', hI'⟩
  · rintro ⟨s, c⟩ d' a r' lg ⟨L, hR, hI⟩
    obtain ⟨s', c', lg', h1, hR', hI', hck⟩ := concatCurrentNext_spec hS s c L (a :: r') lg hR hI
    have hck' := hck (by simp)
    rcases c' with ⟨cur, rem, chk⟩
    simp only at hck'; subst hck'
    cases cur with
    | none => simp [ConcatInv] at hI'
    | some i =>
      obtain ⟨hi, hrem, hr, hne, hex⟩ := hI'
      simp only at hrem hr hne
      cases hLi : L i with
      | nil => exact absurd hLi (hne trivial)
      | cons x t =>
        rw [hLi] at hr
        simp only [List.cons_append, List.cons.injEq] at hr
        obtain ⟨rfl, rfl⟩ := hr
        obtain ⟨s2, lg2, h2, hR2⟩ := hS.next_cons i s' L a t lg' hi hR' hLi
        refine ⟨(s2, ⟨some i, rem, false⟩), lg2, ?_, upd L i t, hR2, ?_⟩
        · rw [hnext _ _ _ _ _ h1]; simp [onFst_eq _ h2]
        · refine ⟨hi, hrem, ?_, by simp, fun j hj => by rw [upd_other _ _ (by omega : j ≠ i)]; exact hex j hj⟩
          simp [flatFrom_upd_lt L i t _ _ (Nat.lt_succ_self i)]
  · rintro ⟨s, c⟩ d' lg ⟨L, hR, hI⟩
    obtain ⟨s', c', lg', h1, hR', hI', _⟩ := concatCurrentNext_spec hS s c L [] lg hR hI
    refine ⟨nextOnEmpty, (s', c'), lg', ?_, L, hR', hI'⟩
    rw [hnext _ _ _ _ _ h1]; simp

/-- the `concat` field of a `Concat` result: ports over the shared state -/
theorem concatParts_msim {all : MMachine σ α} {R : σ → (Nat → List α) → Prop} (hS : MSim all R) :
    MSim (concatParts all) (fun (sc : σ × ConcatSt) L => R sc.1 L) where
  hasNext := by
    rintro i ⟨s, c⟩ L lg hi hR
    obtain ⟨s', lg', h, hR'⟩ := hS.hasNext i s L lg hi hR
    exact ⟨(s', c), lg', by simp [concatParts, onFst_eq _ h], hR'⟩
  next_cons := by
    rintro i ⟨s, c⟩ L a t lg hi hR hL
    obtain ⟨s', lg', h, hR'⟩ := hS.next_cons i s L a t lg hi hR hL
    exact ⟨(s', c), lg', by simp [concatParts, onFst_eq _ h], hR'⟩
  next_nil := by
    rintro i ⟨s, c⟩ L lg hi hR hL
    obtain ⟨p, s', lg', h, hR'⟩ := hS.next_nil i s L lg hi hR hL
    exact ⟨p, (s', c), lg', by simp [concatParts, onFst_eq _ h], hR'⟩

/-! ### two-sided iterators -/

/-- `R s dL rL dR rR`: the left iterator has delivered `dL` and will deliver `rL`, the right one
    `dR` / `rR`; every operation of one side is a simulation step for that side and leaves the
    other side's lists untouched. -/
structure Sim2 (mL : Machine σ α) (mR : Machine σ β)
    (R : σ → List α → List α → List β → List β → Prop) : Prop where
  left : ∀ dR rR, Sim mL (fun s dL rL => R s dL rL dR rR)
  right : ∀ dL rL, Sim mR (fun s dR rR => R s dL rL dR rR)

/-- Duplicate: the queue holds what the side that is ahead has seen and the other has not. -/
def DupInv (c : DupSt α) (d r dL rL dR rR : List α) : Prop :=
  if c.leftAhead then dL = d ∧ rL = r ∧ dL = dR ++ c.queue ∧ rR = c.queue ++ r
  else dR = d ∧ rR = r ∧ dR = dL ++ c.queue ∧ rL = c.queue ++ r

def dupRel (R : σ → List α → List α → Prop) (sc : σ × DupSt α) (dL rL dR rR : List α) : Prop :=
  ∃ d r, R sc.1 d r ∧ DupInv sc.2 d r dL rL dR rR

theorem dupLeft_sim {m : Machine σ α} {R : σ → List α → List α → Prop} (hS : Sim m R) (dR rR : List α) :
    Sim (dupLeft m) (fun s dL rL => dupRel R s dL rL dR rR) := by
  constructor
  · rintro ⟨s, ⟨q, la⟩⟩ dL rL lg ⟨d, r, hR, hI⟩
    simp only at hR
    cases la <;> rcases q with _ | ⟨x, q⟩ <;> simp only [DupInv, Bool.false_eq_true, if_false, if_true,
      List.append_nil, List.nil_append] at hI <;> obtain ⟨h1, h2, h3, h4⟩ := hI <;> subst_vars
    · obtain ⟨s', lg', h, hR'⟩ := hS.hasNext s _ _ lg hR
      exact ⟨(s', ⟨[], false⟩), lg', by simp [dupLeft, bind_apply, onFst_eq _ h], _, _, hR', by simp [DupInv]⟩
    · exact ⟨(s, ⟨x :: q, false⟩), lg, by simp [dupLeft, bind_apply], _, _, hR, by simp [DupInv]⟩
    · obtain ⟨s', lg', h, hR'⟩ := hS.hasNext s _ _ lg hR
      exact ⟨(s', ⟨[], true⟩), lg', by simp [dupLeft, bind_apply, onFst_eq _ h], _, _, hR', by simp [DupInv]⟩
    · obtain ⟨s', lg', h, hR'⟩ := hS.hasNext s _ _ lg hR
      exact ⟨(s', ⟨x :: q, true⟩), lg', by simp [dupLeft, bind_apply, onFst_eq _ h], _, _, hR', by simp [DupInv]⟩
  · rintro ⟨s, ⟨q, la⟩⟩ dL a rL lg ⟨d, r, hR, hI⟩
    simp only at hR
    cases la <;> rcases q with _ | ⟨x, q⟩ <;> simp only [DupInv, Bool.false_eq_true, if_false, if_true,
      List.append_nil, List.nil_append] at hI <;> obtain ⟨h1, h2, h3, h4⟩ := hI
    · subst_vars
      obtain ⟨s', lg', h, hR'⟩ := hS.next_cons s _ a rL lg hR
      exact ⟨(s', ⟨[a], true⟩), lg', by simp [dupLeft, bind_apply, onFst_eq _ h], _, _, hR', by simp [DupInv]⟩
    · simp only [List.cons_append, List.cons.injEq] at h4
      obtain ⟨rfl, rfl⟩ := h4
      subst_vars
      exact ⟨(s, ⟨q, false⟩), lg, by simp [dupLeft, bind_apply], _, _, hR, by simp [DupInv]⟩
    · subst_vars
      obtain ⟨s', lg', h, hR'⟩ := hS.next_cons s _ a rL lg hR
      exact ⟨(s', ⟨[a], true⟩), lg', by simp [dupLeft, bind_apply, onFst_eq _ h], _, _, hR', by simp [DupInv]⟩
    · subst_vars
      obtain ⟨s', lg', h, hR'⟩ := hS.next_cons s _ a rL lg hR
      exact ⟨(s', ⟨(x :: q) ++ [a], true⟩), lg', by simp [dupLeft, bind_apply, onFst_eq _ h], _, _, hR', by simp [DupInv]⟩
  · rintro ⟨s, ⟨q, la⟩⟩ dL lg ⟨d, r, hR, hI⟩
    simp only at hR
    cases la <;> rcases q with _ | ⟨x, q⟩ <;> simp only [DupInv, Bool.false_eq_true, if_false, if_true,
      List.append_nil, List.nil_append] at hI <;> obtain ⟨h1, h2, h3, h4⟩ := hI
    · subst_vars
      obtain ⟨p, s', lg', h, hR'⟩ := hS.next_nil s _ lg hR
      exact ⟨p, (s', ⟨[], true⟩), lg', by simp [dupLeft, bind_apply, onFst_eq _ h], _, _, hR', by simp [DupInv]⟩
    · simp at h4
    · subst_vars
      obtain ⟨p, s', lg', h, hR'⟩ := hS.next_nil s _ lg hR
      exact ⟨p, (s', ⟨[], true⟩), lg', by simp [dupLeft, bind_apply, onFst_eq _ h], _, _, hR', by simp [DupInv]⟩
    · subst_vars
      obtain ⟨p, s', lg', h, hR'⟩ := hS.next_nil s _ lg hR
      exact ⟨p, (s', ⟨x :: q, true⟩), lg', by simp [dupLeft, bind_apply, onFst_eq _ h], _, _, hR', by simp [DupInv]⟩

theorem dupRight_sim {m : Machine σ α} {R : σ → List α → List α → Prop} (hS : Sim m R) (dL rL : List α) :
    Sim (dupRight m) (fun s dR rR => dupRel R s dL rL dR rR) := by
  constructor
  · rintro ⟨s, ⟨q, la⟩⟩ dR rR lg ⟨d, r, hR, hI⟩
    simp only at hR
    cases la <;> rcases q with _ | ⟨x, q⟩ <;> simp only [DupInv, Bool.false_eq_true, if_false, if_true,
      List.append_nil, List.nil_append] at hI <;> obtain ⟨h1, h2, h3, h4⟩ := hI <;> subst_vars
    · obtain ⟨s', lg', h, hR'⟩ := hS.hasNext s _ _ lg hR
      exact ⟨(s', ⟨[], false⟩), lg', by simp [dupRight, bind_apply, onFst_eq _ h], _, _, hR', by simp [DupInv]⟩
    · obtain ⟨s', lg', h, hR'⟩ := hS.hasNext s _ _ lg hR
      exact ⟨(s', ⟨x :: q, false⟩), lg', by simp [dupRight, bind_apply, onFst_eq _ h], _, _, hR', by simp [DupInv]⟩
    · obtain ⟨s', lg', h, hR'⟩ := hS.hasNext s _ _ lg hR
      exact ⟨(s', ⟨[], true⟩), lg', by simp [dupRight, bind_apply, onFst_eq _ h], _, _, hR', by simp [DupInv]⟩
    · exact ⟨(s, ⟨x :: q, true⟩), lg, by simp [dupRight, bind_apply], _, _, hR, by simp [DupInv]⟩
  · rintro ⟨s, ⟨q, la⟩⟩ dR a rR lg ⟨d, r, hR, hI⟩
    simp only at hR
    cases la <;> rcases q with _ | ⟨x, q⟩ <;> simp only [DupInv, Bool.false_eq_true, if_false, if_true,
      List.append_nil, List.nil_append] at hI <;> obtain ⟨h1, h2, h3, h4⟩ := hI
    · subst_vars
      obtain ⟨s', lg', h, hR'⟩ := hS.next_cons s _ a rR lg hR
      exact ⟨(s', ⟨[a], false⟩), lg', by simp [dupRight, bind_apply, onFst_eq _ h], _, _, hR', by simp [DupInv]⟩
    · subst_vars
      obtain ⟨s', lg', h, hR'⟩ := hS.next_cons s _ a rR lg hR
      exact ⟨(s', ⟨(x :: q) ++ [a], false⟩), lg', by simp [dupRight, bind_apply, onFst_eq _ h], _, _, hR', by simp [DupInv]⟩
    · subst_vars
      obtain ⟨s', lg', h, hR'⟩ := hS.next_cons s _ a rR lg hR
      exact ⟨(s', ⟨[a], false⟩), lg', by simp [dupRight, bind_apply, onFst_eq _ h], _, _, hR', by simp [DupInv]⟩
    · simp only [List.cons_append, List.cons.injEq] at h4
      obtain ⟨rfl, rfl⟩ := h4
      subst_vars
      exact ⟨(s, ⟨q, true⟩), lg, by simp [dupRight, bind_apply], _, _, hR, by simp [DupInv]⟩
  · rintro ⟨s, ⟨q, la⟩⟩ dR lg ⟨d, r, hR, hI⟩
    simp only at hR
    cases la <;> rcases q with _ | ⟨x, q⟩ <;> simp only [DupInv, Bool.false_eq_true, if_false, if_true,
      List.append_nil, List.nil_append] at hI <;> obtain ⟨h1, h2, h3, h4⟩ := hI
    · subst_vars
      obtain ⟨p, s', lg', h, hR'⟩ := hS.next_nil s _ lg hR
      exact ⟨p, (s', ⟨[], false⟩), lg', by simp [dupRight, bind_apply, onFst_eq _ h], _, _, hR', by simp [DupInv]⟩
    · subst_vars
      obtain ⟨p, s', lg', h, hR'⟩ := hS.next_nil s _ lg hR
      exact ⟨p, (s', ⟨x :: q, false⟩), lg', by simp [dupRight, bind_apply, onFst_eq _ h], _, _, hR', by simp [DupInv]⟩
    · subst_vars
      obtain ⟨p, s', lg', h, hR'⟩ := hS.next_nil s _ lg hR
      exact ⟨p, (s', ⟨[], false⟩), lg', by simp [dupRight, bind_apply, onFst_eq _ h], _, _, hR', by simp [DupInv]⟩
    · simp at h4

theorem dup_sim2 {m : Machine σ α} {R : σ → List α → List α → Prop} (hS : Sim m R) :
    Sim2 (dupLeft m) (dupRight m) (dupRel R) :=
  ⟨dupLeft_sim hS, dupRight_sim hS⟩

/-! ### combinators on the two sides -/

theorem sideL_sim {mL : Machine σ α} {mR : Machine σ β} {R2 : σ → List α → List α → List β → List β → Prop}
    (h2 : Sim2 mL mR R2)
    {cL : Machine (σ × γ) α₁} {IL : γ → List α → List α → List α₁ → List α₁ → Prop}
    (hL : ∀ (R : σ → List α → List α → Prop), Sim mL R → Sim cL (liftRel IL R))
    {IR : γ₂ → List β → List β → List α₂ → List α₂ → Prop} (dR' rR' : List α₂) :
    Sim (sideL cL : Machine (σ × γ × γ₂) α₁) (fun s dL' rL' =>
      ∃ dL rL dR rR, R2 s.1 dL rL dR rR ∧ IL s.2.1 dL rL dL' rL' ∧ IR s.2.2 dR rR dR' rR') := by
  constructor
  · rintro ⟨s, cl, cr⟩ dL' rL' lg ⟨dL, rL, dR, rR, hR, hIL, hIR⟩
    obtain ⟨⟨s', cl'⟩, lg', h, dL2, rL2, hR', hIL'⟩ :=
      (hL _ (h2.left dR rR)).hasNext (s, cl) dL' rL' lg ⟨dL, rL, hR, hIL⟩
    exact ⟨(s', cl', cr), lg', by simp [sideL, h], dL2, rL2, dR, rR, hR', hIL', hIR⟩
  · rintro ⟨s, cl, cr⟩ dL' a rL' lg ⟨dL, rL, dR, rR, hR, hIL, hIR⟩
    obtain ⟨⟨s', cl'⟩, lg', h, dL2, rL2, hR', hIL'⟩ :=
      (hL _ (h2.left dR rR)).next_cons (s, cl) dL' a rL' lg ⟨dL, rL, hR, hIL⟩
    exact ⟨(s', cl', cr), lg', by simp [sideL, h], dL2, rL2, dR, rR, hR', hIL', hIR⟩
  · rintro ⟨s, cl, cr⟩ dL' lg ⟨dL, rL, dR, rR, hR, hIL, hIR⟩
    obtain ⟨p, ⟨s', cl'⟩, lg', h, dL2, rL2, hR', hIL'⟩ :=
      (hL _ (h2.left dR rR)).next_nil (s, cl) dL' lg ⟨dL, rL, hR, hIL⟩
    exact ⟨p, (s', cl', cr), lg', by simp [sideL, h], dL2, rL2, dR, rR, hR', hIL', hIR⟩

theorem sideR_sim {mL : Machine σ α} {mR : Machine σ β} {R2 : σ → List α → List α → List β → List β → Prop}
    (h2 : Sim2 mL mR R2)
    {cR : Machine (σ × γ₂) α₂} {IR : γ₂ → List β → List β → List α₂ → List α₂ → Prop}
    (hRt : ∀ (R : σ → List β → List β → Prop), Sim mR R → Sim cR (liftRel IR R))
    {IL : γ → List α → List α → List α₁ → List α₁ → Prop} (dL' rL' : List α₁) :
    Sim (sideR cR : Machine (σ × γ × γ₂) α₂) (fun s dR' rR' =>
      ∃ dL rL dR rR, R2 s.1 dL rL dR rR ∧ IL s.2.1 dL rL dL' rL' ∧ IR s.2.2 dR rR dR' rR') := by
  constructor
  · rintro ⟨s, cl, cr⟩ dR' rR' lg ⟨dL, rL, dR, rR, hR, hIL, hIR⟩
    obtain ⟨⟨s', cr'⟩, lg', h, dR2, rR2, hR', hIR'⟩ :=
      (hRt _ (h2.right dL rL)).hasNext (s, cr) dR' rR' lg ⟨dR, rR, hR, hIR⟩
    exact ⟨(s', cl, cr'), lg', by simp [sideR, h], dL, rL, dR2, rR2, hR', hIL, hIR'⟩
  · rintro ⟨s, cl, cr⟩ dR' a rR' lg ⟨dL, rL, dR, rR, hR, hIL, hIR⟩
    obtain ⟨⟨s', cr'⟩, lg', h, dR2, rR2, hR', hIR'⟩ :=
      (hRt _ (h2.right dL rL)).next_cons (s, cr) dR' a rR' lg ⟨dR, rR, hR, hIR⟩
    exact ⟨(s', cl, cr'), lg', by simp [sideR, h], dL, rL, dR2, rR2, hR', hIL, hIR'⟩
  · rintro ⟨s, cl, cr⟩ dR' lg ⟨dL, rL, dR, rR, hR, hIL, hIR⟩
    obtain ⟨p, ⟨s', cr'⟩, lg', h, dR2, rR2, hR', hIR'⟩ :=
      (hRt _ (h2.right dL rL)).next_nil (s, cr) dR' lg ⟨dR, rR, hR, hIR⟩
    exact ⟨p, (s', cl, cr'), lg', by simp [sideR, h], dL, rL, dR2, rR2, hR', hIL, hIR'⟩

/-- combinators applied to the two sides of a two-sided iterator give a two-sided iterator -/
theorem sides_sim2 {mL : Machine σ α} {mR : Machine σ β} {R2 : σ → List α → List α → List β → List β → Prop}
    (h2 : Sim2 mL mR R2)
    {cL : Machine (σ × γ) α₁} {IL : γ → List α → List α → List α₁ → List α₁ → Prop}
    (hL : ∀ (R : σ → List α → List α → Prop), Sim mL R → Sim cL (liftRel IL R))
    {cR : Machine (σ × γ₂) α₂} {IR : γ₂ → List β → List β → List α₂ → List α₂ → Prop}
    (hRt : ∀ (R : σ → List β → List β → Prop), Sim mR R → Sim cR (liftRel IR R)) :
    Sim2 (sideL cL : Machine (σ × γ × γ₂) α₁) (sideR cR) (fun s dL' rL' dR' rR' =>
      ∃ dL rL dR rR, R2 s.1 dL rL dR rR ∧ IL s.2.1 dL rL dL' rL' ∧ IR s.2.2 dR rR dR' rR') :=
  ⟨fun dR' rR' => sideL_sim h2 hL dR' rR', fun dL' rL' => sideR_sim h2 hRt dL' rL'⟩

end FpVerif.It
