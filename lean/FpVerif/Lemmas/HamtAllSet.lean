import FpVerif.Lemmas.HamtAllMap
/-!
`fp.Set` over EVERY representation (`set == nil` with a nil / hamt / Go-set `getEmpty`,
`immutable.set{*hamt}`, the `UnsafeGoSet` fallback): invariant `FSet.Inv`, abstract view
`FSet.elems`, one specification per operation — for `Spec/C03All.lean`.
-/
set_option linter.unusedSimpArgs false
set_option linter.unusedVariables false
namespace FpVerif.Hamt
variable {K : Type} {h : Hasher K}

-- lists of elements as sets up to `Eqv` -------------------------------------------------------------------

/-- membership up to `Eqv` -/
def memL (h : Hasher K) (l : List K) (k : K) : Bool := l.any (fun e => h.eqv e k)

/-- elements pairwise not `Eqv` -/
def DistinctL (h : Hasher K) (l : List K) : Prop := l.Pairwise (fun a b => h.eqv a b = false)

/-- a list of elements as an association list (to reuse the `lookup` lemmas) -/
def asPairs (l : List K) : List (K × Unit) := l.map (fun k => (k, ()))

theorem lookup_asPairs (l : List K) (k : K) : (lookup h k (asPairs l)).isSome = memL h l k := by
  rw [Bool.eq_iff_iff, lookup_isSome_iff]
  unfold memL asPairs
  simp only [List.any_eq_true, List.mem_map]
  constructor
  · rintro ⟨e, ⟨x, hx, rfl⟩, hk⟩; exact ⟨x, hx, hk⟩
  · rintro ⟨x, hx, hk⟩; exact ⟨(x, ()), ⟨x, hx, rfl⟩, hk⟩

theorem distinct_asPairs {l : List K} : DistinctKeys h (asPairs l) ↔ DistinctL h l := by
  unfold DistinctKeys DistinctL asPairs
  rw [List.pairwise_map]

theorem length_eq_of_memL_eq (hl : LawfulHash h) {l r : List K} (hdl : DistinctL h l) (hdr : DistinctL h r)
    (hm : ∀ k, memL h l k = memL h r k) : l.length = r.length := by
  have := length_eq_of_isSome_eq hl (distinct_asPairs.mpr hdl) (distinct_asPairs.mpr hdr)
    (fun k => by rw [lookup_asPairs, lookup_asPairs, hm])
  simpa [asPairs] using this

theorem memL_nil (k : K) : memL h [] k = false := rfl

theorem memL_congr (hl : LawfulHash h) {k k' : K} (hkk : h.eqv k k' = true) (l : List K) :
    memL h l k = memL h l k' := by
  unfold memL; congr 1; funext e; exact hl.eqv_congr_right hkk e

theorem memL_eq_false {l : List K} {k : K} (hm : memL h l k = false) : ∀ e ∈ l, h.eqv e k = false := by
  intro e he
  cases hek : h.eqv e k with
  | false => rfl
  | true =>
    have : memL h l k = true := List.any_eq_true.mpr ⟨e, he, hek⟩
    rw [hm] at this; cases this

/-- with `Eqv` = equality: same members means same elements up to order -/
theorem perm_of_memL_eq (hl : LawfulHash h) (heq : ∀ a b, h.eqv a b = true ↔ a = b) {l r : List K}
    (hd1 : DistinctL h l) (hd2 : DistinctL h r) (hm : ∀ k, memL h l k = memL h r k) : l.Perm r := by
  have nodup_of : ∀ {x : List K}, DistinctL h x → x.Nodup := by
    intro x hx
    apply List.Pairwise.imp _ hx
    intro a b hab hab'
    subst hab'
    rw [hl.refl] at hab; cases hab
  have mem_iff : ∀ (x : List K) (e : K), e ∈ x ↔ memL h x e = true := by
    intro x e
    unfold memL
    rw [List.any_eq_true]
    constructor
    · intro he; exact ⟨e, he, hl.refl e⟩
    · rintro ⟨y, hy, hye⟩; rw [← (heq _ _).mp hye]; exact hy
  rw [List.perm_ext_iff_of_nodup (nodup_of hd1) (nodup_of hd2)]
  intro e
  rw [mem_iff, mem_iff, hm]

-- the reference operations ----------------------------------------------------------------------------------

/-- reference `Incl` -/
def inclL (h : Hasher K) (r : List K) (k : K) : List K := if memL h r k then r else r ++ [k]
/-- reference `Excl` -/
def exclL (h : Hasher K) (r : List K) (k : K) : List K := r.filter (fun e => !h.eqv e k)

theorem memL_inclL (hl : LawfulHash h) (r : List K) (k k' : K) :
    memL h (inclL h r k) k' = (h.eqv k k' || memL h r k') := by
  unfold inclL
  cases hm : memL h r k with
  | false => simp [memL, Bool.or_comm]
  | true =>
    simp only [if_true]
    cases hkk : h.eqv k k' with
    | false => simp
    | true => rw [← memL_congr hl hkk, hm]; rfl

theorem distinct_inclL (hl : LawfulHash h) {r : List K} (hd : DistinctL h r) (k : K) :
    DistinctL h (inclL h r k) := by
  unfold inclL
  cases hm : memL h r k with
  | true => exact hd
  | false =>
    simp only [Bool.false_eq_true, if_false]
    unfold DistinctL
    rw [List.pairwise_append]
    refine ⟨hd, by simp, ?_⟩
    intro a ha b hb
    simp at hb; subst hb
    exact memL_eq_false hm a ha

theorem memL_filter (hl : LawfulHash h) (r : List K) (q : K → Bool)
    (hq : ∀ k k', h.eqv k k' = true → q k = q k') (k' : K) :
    memL h (r.filter q) k' = (memL h r k' && q k') := by
  unfold memL
  rw [Bool.eq_iff_iff]
  simp only [List.any_eq_true, List.mem_filter, Bool.and_eq_true]
  constructor
  · rintro ⟨e, ⟨he, hqe⟩, hek⟩; exact ⟨⟨e, he, hek⟩, by rw [← hq _ _ hek]; exact hqe⟩
  · rintro ⟨⟨e, he, hek⟩, hqk⟩; exact ⟨e, ⟨he, by rw [hq _ _ hek]; exact hqk⟩, hek⟩

theorem memL_exclL (hl : LawfulHash h) (r : List K) (k k' : K) :
    memL h (exclL h r k) k' = (!h.eqv k k' && memL h r k') := by
  unfold exclL
  rw [memL_filter hl r (fun e => !h.eqv e k) (fun a b hab => by simp [hl.eqv_congr_left hab]),
    hl.eqv_comm k' k, Bool.and_comm]

theorem distinct_filterL {r : List K} (hd : DistinctL h r) (q : K → Bool) : DistinctL h (r.filter q) :=
  List.Pairwise.sublist List.filter_sublist hd

theorem memL_foldl_inclL (hl : LawfulHash h) (ks : List K) : ∀ (r : List K) (k' : K),
    memL h (ks.foldl (inclL h) r) k' = (memL h r k' || memL h ks k') := by
  induction ks with
  | nil => intro r k'; simp [memL_nil]
  | cons k ks ih =>
    intro r k'
    rw [List.foldl_cons, ih, memL_inclL hl]
    simp [memL, Bool.or_assoc, Bool.or_comm, Bool.or_left_comm]

theorem distinct_foldl_inclL (hl : LawfulHash h) (ks : List K) : ∀ {r : List K}, DistinctL h r →
    DistinctL h (ks.foldl (inclL h) r) := by
  induction ks with
  | nil => intro r hd; exact hd
  | cons k ks ih => intro r hd; exact ih (distinct_inclL hl hd k)

-- SetMinimal: both implementations ------------------------------------------------------------------------------

variable [BEq K]

def SetMin.elems : SetMin K → List K
  | .hamt m => m.toList.map (·.1)
  | .goSet g => g

def SetMin.Inv (h : Hasher K) : SetMin K → Prop
  | .hamt m => Hamt.Inv h m
  | .goSet g => Agree h ∧ DistinctL h g

omit [BEq K] in
theorem memL_hamt (m : Hamt K Bool) (k : K) : memL h (m.toList.map (·.1)) k = mem h m k := by
  unfold mem
  rw [Bool.eq_iff_iff, lookup_isSome_iff]
  unfold memL
  simp only [List.any_eq_true, List.mem_map]
  constructor
  · rintro ⟨e, ⟨x, hx, rfl⟩, hk⟩; exact ⟨x, hx, hk⟩
  · rintro ⟨x, hx, hk⟩; exact ⟨x.1, ⟨x, hx, rfl⟩, hk⟩

theorem SetMin.Inv.distinct (hl : LawfulHash h) {s : SetMin K} (hi : SetMin.Inv h s) : DistinctL h s.elems := by
  cases s with
  | hamt m =>
    have := Hamt.Inv.distinct hl hi
    unfold SetMin.elems DistinctL
    rw [List.pairwise_map]
    exact this
  | goSet g => exact hi.2

theorem SetMin.contains_spec (hl : LawfulHash h) {s : SetMin K} (hi : SetMin.Inv h s) (k : K) :
    s.contains h k = .ok (memL h s.elems k) := by
  cases s with
  | hamt m =>
    show (do pure (← m.get h k).isSome) = _
    rw [Hamt.get_spec hl hi]
    show Except.ok _ = Except.ok _
    rw [SetMin.elems, memL_hamt]; rfl
  | goSet g =>
    show Except.ok (g.any (· == k)) = _
    have : (fun x : K => x == k) = (fun e => h.eqv e k) := by funext e; exact hi.1 e k
    rw [this]; rfl

theorem SetMin.size_spec {s : SetMin K} (hi : SetMin.Inv h s) : s.size = s.elems.length := by
  cases s with
  | hamt m => simp [SetMin.size, SetMin.elems, Hamt.Inv.size_eq hi]
  | goSet g => rfl

theorem SetMin.iterList_spec {s : SetMin K} (hi : SetMin.Inv h s) : s.iterList = .ok s.elems := by
  cases s with
  | hamt m => simp [SetMin.iterList, SetMin.elems, Hamt.iterList_spec hi, bind, Except.bind, pure, Except.pure]
  | goSet g => rfl

theorem SetMin.incl_spec (hl : LawfulHash h) {s : SetMin K} (hi : SetMin.Inv h s) (k : K) :
    ∃ s', s.incl h k = .ok s' ∧ SetMin.Inv h s' ∧
      ∀ k', memL h s'.elems k' = (h.eqv k k' || memL h s.elems k') := by
  cases s with
  | hamt m =>
    obtain ⟨m', h1, h2, h3⟩ := SetMin.incl_hamt hl hi k
    refine ⟨.hamt m', h1, h2, fun k' => ?_⟩
    rw [SetMin.elems, SetMin.elems, memL_hamt, memL_hamt, h3]
  | goSet g =>
    have hfun : (fun x : K => x == k) = (fun e => h.eqv e k) := by funext e; exact hi.1 e k
    refine ⟨.goSet (inclL h g k), ?_, ⟨hi.1, distinct_inclL hl hi.2 k⟩, fun k' => memL_inclL hl g k k'⟩
    show Except.ok (SetMin.goSet (if g.any (· == k) then g else g ++ [k])) = _
    rw [hfun]; rfl

theorem SetMin.excl_spec (hl : LawfulHash h) {s : SetMin K} (hi : SetMin.Inv h s) (k : K) :
    ∃ s', s.excl h k = .ok s' ∧ SetMin.Inv h s' ∧
      ∀ k', memL h s'.elems k' = (!h.eqv k k' && memL h s.elems k') := by
  cases s with
  | hamt m =>
    obtain ⟨m', h1, h2, h3, _⟩ := Hamt.removed_spec hl [k] hi
    refine ⟨.hamt m', by simp [SetMin.excl, h1, bind, Except.bind, pure, Except.pure], h2, fun k' => ?_⟩
    rw [SetMin.elems, SetMin.elems, memL_hamt, memL_hamt]
    unfold mem; rw [h3]; simp [lookupRemoved]; cases h.eqv k k' <;> simp
  | goSet g =>
    have hfun : (fun x : K => !(x == k)) = (fun e => !h.eqv e k) := by funext e; rw [hi.1 e k]
    refine ⟨.goSet (exclL h g k), ?_, ⟨hi.1, distinct_filterL hi.2 _⟩, fun k' => memL_exclL hl g k k'⟩
    show Except.ok (SetMin.goSet (g.filter (fun x => !(x == k)))) = _
    rw [hfun]; rfl

/-- the loop shared by `Diff` and `Intersect`, for either implementation of the accumulator -/
theorem filterFold_all (hl : LawfulHash h) (p : K → Bool) (es : List K) : ∀ {acc : SetMin K}, SetMin.Inv h acc →
    ∃ acc', es.foldlM (fun (ret : SetMin K) e => if p e then ret.incl h e else pure ret) acc = .ok acc' ∧
      SetMin.Inv h acc' ∧
      ∀ k', memL h acc'.elems k' = (memL h acc.elems k' || es.any (fun e => p e && h.eqv e k')) := by
  induction es with
  | nil => intro acc hi; exact ⟨acc, rfl, hi, by simp⟩
  | cons e es ih =>
    intro acc hi
    rw [List.foldlM_cons]
    cases hp : p e with
    | false =>
      obtain ⟨acc', h1, h2, h3⟩ := ih hi
      refine ⟨acc', by simpa [pure, Except.pure, bind, Except.bind] using h1, h2, ?_⟩
      intro k'; rw [h3]; simp [hp]
    | true =>
      obtain ⟨acc1, hi1, hinv1, hm1⟩ := SetMin.incl_spec hl hi e
      obtain ⟨acc', h1, h2, h3⟩ := ih hinv1
      refine ⟨acc', by simp only [if_true, hi1, bind, Except.bind]; exact h1, h2, ?_⟩
      intro k'; rw [h3, hm1]; simp [hp, Bool.or_assoc, Bool.or_comm]

omit [BEq K] in
theorem any_selL (hl : LawfulHash h) (l : List K) (q : K → Bool)
    (hq : ∀ k k', h.eqv k k' = true → q k = q k') (k' : K) :
    l.any (fun e => q e && h.eqv e k') = (memL h l k' && q k') := by
  rw [← memL_filter hl l q hq]
  unfold memL
  rw [List.any_filter]

-- fp.Set over every representation ---------------------------------------------------------------------------

def FSet.elems (s : FSet K) : List K :=
  match s.set with
  | none => []
  | some x => x.elems

/-- invariant of an `fp.Set` value: the representation's invariant, and "`==` is `Eqv`" whenever the
    value can fall back to an `UnsafeGoSet` (its `getEmpty` is not the immutable package's). -/
def FSet.Inv (h : Hasher K) (s : FSet K) : Prop :=
  (s.getEmpty ≠ .hamt → Agree h) ∧
  match s.set with
  | none => True
  | some x => SetMin.Inv h x

theorem FSet.Inv.distinct (hl : LawfulHash h) {s : FSet K} (hi : FSet.Inv h s) : DistinctL h s.elems := by
  obtain ⟨ge, st⟩ := s
  cases st with
  | none => unfold FSet.elems DistinctL; simp
  | some x => exact SetMin.Inv.distinct hl hi.2

theorem FSet.contains_spec (hl : LawfulHash h) {s : FSet K} (hi : FSet.Inv h s) (k : K) :
    s.contains h k = .ok (memL h s.elems k) := by
  obtain ⟨ge, st⟩ := s
  cases st with
  | none => rfl
  | some x => exact SetMin.contains_spec hl hi.2 k

theorem FSet.size_spec {s : FSet K} (hi : FSet.Inv h s) : s.size = s.elems.length := by
  obtain ⟨ge, st⟩ := s
  cases st with
  | none => rfl
  | some x => exact SetMin.size_spec hi.2

theorem FSet.iterList_spec {s : FSet K} (hi : FSet.Inv h s) : s.iterList = .ok s.elems := by
  obtain ⟨ge, st⟩ := s
  cases st with
  | none => rfl
  | some x => exact SetMin.iterList_spec hi.2

theorem FSet.callGetEmpty_inv {s : FSet K} (hi : FSet.Inv h s) :
    SetMin.Inv h s.callGetEmpty ∧ s.callGetEmpty.elems = [] := by
  obtain ⟨ge, st⟩ := s
  cases ge with
  | hamt => exact ⟨Hamt.Inv_empty (h := h) (V := Bool), rfl⟩
  | goSet => exact ⟨⟨hi.1 (by simp), by unfold DistinctL; simp⟩, rfl⟩
  | nil => exact ⟨⟨hi.1 (by simp), by unfold DistinctL; simp⟩, rfl⟩

theorem FSet.incl_spec (hl : LawfulHash h) {s : FSet K} (hi : FSet.Inv h s) (k : K) :
    ∃ s', s.incl h k = .ok s' ∧ FSet.Inv h s' ∧
      ∀ k', memL h s'.elems k' = (h.eqv k k' || memL h s.elems k') := by
  obtain ⟨ge, st⟩ := s
  cases st with
  | some x =>
    obtain ⟨x', h1, h2, h3⟩ := SetMin.incl_spec hl hi.2 k
    refine ⟨⟨ge, some x'⟩, ?_, ⟨hi.1, h2⟩, h3⟩
    simp [FSet.incl, h1, bind, Except.bind, pure, Except.pure]
  | none =>
    cases ge with
    | nil =>
      have hag : Agree h := hi.1 (by simp)
      refine ⟨⟨.goSet, some (.goSet [k])⟩, rfl, ⟨fun _ => hag, hag, by unfold DistinctL; simp⟩, fun k' => ?_⟩
      simp [FSet.elems, SetMin.elems, memL]
    | hamt =>
      obtain ⟨hce, hcel⟩ := FSet.callGetEmpty_inv hi
      obtain ⟨x', h1, h2, h3⟩ := SetMin.incl_spec hl hce k
      refine ⟨⟨.hamt, some x'⟩, ?_, ⟨hi.1, h2⟩, fun k' => ?_⟩
      · simp [FSet.incl, h1, bind, Except.bind, pure, Except.pure]
      · rw [show (FSet.mk EmptyFn.hamt (some x')).elems = x'.elems from rfl, h3, hcel]; rfl
    | goSet =>
      obtain ⟨hce, hcel⟩ := FSet.callGetEmpty_inv hi
      obtain ⟨x', h1, h2, h3⟩ := SetMin.incl_spec hl hce k
      refine ⟨⟨.goSet, some x'⟩, ?_, ⟨hi.1, h2⟩, fun k' => ?_⟩
      · simp [FSet.incl, h1, bind, Except.bind, pure, Except.pure]
      · rw [show (FSet.mk EmptyFn.goSet (some x')).elems = x'.elems from rfl, h3, hcel]; rfl

theorem FSet.excl_spec (hl : LawfulHash h) {s : FSet K} (hi : FSet.Inv h s) (k : K) :
    ∃ s', s.excl h k = .ok s' ∧ FSet.Inv h s' ∧
      ∀ k', memL h s'.elems k' = (!h.eqv k k' && memL h s.elems k') := by
  obtain ⟨ge, st⟩ := s
  cases st with
  | none => exact ⟨⟨ge, none⟩, rfl, hi, fun k' => by simp [FSet.elems, memL_nil]⟩
  | some x =>
    obtain ⟨x', h1, h2, h3⟩ := SetMin.excl_spec hl hi.2 k
    refine ⟨⟨ge, some x'⟩, ?_, ⟨hi.1, h2⟩, h3⟩
    simp [FSet.excl, h1, bind, Except.bind, pure, Except.pure]

theorem FSet.concat_spec (hl : LawfulHash h) (ks : List K) : ∀ {s : FSet K}, FSet.Inv h s →
    ∃ s', s.concat h ks = .ok s' ∧ FSet.Inv h s' ∧
      ∀ k', memL h s'.elems k' = (memL h s.elems k' || memL h ks k') := by
  induction ks with
  | nil => intro s hi; exact ⟨s, rfl, hi, fun k' => by simp [memL_nil]⟩
  | cons k ks ih =>
    intro s hi
    obtain ⟨s1, h1, hi1, hm1⟩ := FSet.incl_spec hl hi k
    obtain ⟨s2, h2, hi2, hm2⟩ := ih hi1
    refine ⟨s2, ?_, hi2, fun k' => ?_⟩
    · unfold FSet.concat at h2 ⊢
      rw [List.foldlM_cons, h1]; exact h2
    · rw [hm2, hm1]; simp [memL, Bool.or_assoc, Bool.or_comm, Bool.or_left_comm]

theorem FSet.diff_spec (hl : LawfulHash h) {a b : FSet K} (ha : FSet.Inv h a) (hb : FSet.Inv h b) :
    ∃ r, a.diff h b = .ok r ∧ FSet.Inv h r ∧
      ∀ k, memL h r.elems k = (memL h a.elems k && !memL h b.elems k) := by
  obtain ⟨hce, hcel⟩ := FSet.callGetEmpty_inv ha
  obtain ⟨r, h1, h2, h3⟩ := filterFold_all hl (fun e => !memL h b.elems e) a.elems hce
  refine ⟨⟨a.getEmpty, some r⟩, ?_, ⟨ha.1, h2⟩, ?_⟩
  · unfold FSet.diff
    rw [FSet.iterList_spec ha]
    have hfun : (fun (ret : SetMin K) e => do
          if (!(← b.contains h e)) = true then ret.incl h e else pure ret) =
        (fun (ret : SetMin K) e => if (!memL h b.elems e) = true then ret.incl h e else pure ret) := by
      funext ret e
      rw [FSet.contains_spec hl hb]; rfl
    rw [hfun]
    simp only [bind, Except.bind]
    rw [h1]
    rfl
  · intro k
    show memL h r.elems k = _
    rw [h3, hcel, any_selL hl a.elems (fun e => !memL h b.elems e)
      (fun k k' hkk => by simp [memL_congr hl hkk])]
    simp [memL_nil]

theorem FSet.intersect_spec (hl : LawfulHash h) {a b : FSet K} (ha : FSet.Inv h a) (hb : FSet.Inv h b) :
    ∃ r, a.intersect h b = .ok r ∧ FSet.Inv h r ∧
      ∀ k, memL h r.elems k = (memL h a.elems k && memL h b.elems k) := by
  obtain ⟨hce, hcel⟩ := FSet.callGetEmpty_inv ha
  obtain ⟨r, h1, h2, h3⟩ := filterFold_all hl (fun e => memL h b.elems e) a.elems hce
  refine ⟨⟨a.getEmpty, some r⟩, ?_, ⟨ha.1, h2⟩, ?_⟩
  · unfold FSet.intersect
    rw [FSet.iterList_spec ha]
    have hfun : (fun (ret : SetMin K) e => do
          if (← b.contains h e) = true then ret.incl h e else pure ret) =
        (fun (ret : SetMin K) e => if memL h b.elems e = true then ret.incl h e else pure ret) := by
      funext ret e
      rw [FSet.contains_spec hl hb]; rfl
    rw [hfun]
    simp only [bind, Except.bind]
    rw [h1]
    rfl
  · intro k
    show memL h r.elems k = _
    rw [h3, hcel, any_selL hl a.elems (fun e => memL h b.elems e)
      (fun k k' hkk => memL_congr hl hkk _)]
    simp [memL_nil]

theorem subsetGo_all (hl : LawfulHash h) {b : FSet K} (hb : FSet.Inv h b) (es : List K) :
    FSet.subsetOf.go h b es = .ok (es.all (fun e => memL h b.elems e)) := by
  induction es with
  | nil => rfl
  | cons e es ih =>
    rw [FSet.subsetOf.go, FSet.contains_spec hl hb]
    simp only [bind, Except.bind]
    cases hm : memL h b.elems e with
    | true => simp [ih, hm]
    | false => simp [hm, pure, Except.pure]

theorem FSet.subsetOf_spec (hl : LawfulHash h) {a b : FSet K} (ha : FSet.Inv h a) (hb : FSet.Inv h b) :
    ∃ r, a.subsetOf h b = .ok r ∧
      (r = true ↔ ∀ k, memL h a.elems k = true → memL h b.elems k = true) := by
  refine ⟨a.elems.all (fun e => memL h b.elems e), ?_, ?_⟩
  · unfold FSet.subsetOf
    rw [FSet.iterList_spec ha]
    simp only [bind, Except.bind]
    exact subsetGo_all hl hb _
  · simp only [List.all_eq_true]
    constructor
    · intro hall k hk
      obtain ⟨x, hx, hek⟩ := List.any_eq_true.mp hk
      rw [← memL_congr hl hek]
      exact hall x hx
    · intro hall e he
      apply hall
      exact List.any_eq_true.mpr ⟨e, he, hl.refl _⟩

end FpVerif.Hamt
