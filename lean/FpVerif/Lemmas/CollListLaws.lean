import FpVerif.Spec.C12List
/-!
# C01 for the lazy memoised `fp.List`: the monad laws of `list.FlatMap` / `list.Of`, as statements
# about what the REAL traversal of the heap model returns

`Model/LazyList.lean` runs `list.FlatMap`, `list.Map`, `list.Of` … closure by closure over a heap of
`sync.Once` cells; `Spec/C12List.lean` (`eval_toSeq_eq`) proves that for every pure expression `e`
the traversal `list.ToSeq(eval e)` returns `e.denote x`, every memo cell started at most once.
Here the monad laws are derived from it: for each law, both sides

* denote the same plain list (an equation between `LExpr.denote`s), and
* the library calls (`LL.eval`) followed by the traversal loop (`LL.toSeq`) SUCCEED on the heap model —
  no panic, no `sync.Once` re-entrance, no fuel exhaustion, for every fuel above the bound of
  `eval_toSeq_eq` — and return exactly that list, with `maxEvals ≤ 1`.

The unit `x ↦ list.Of(x)` is the expression `.argOf 1`; `argOf` rebuilds its element as
`Val.int x.asInt`, so the laws in which the unit is applied to the ELEMENTS of a list (right
identity, `Map = FlatMap ∘ unit`) are stated for lists of ints.  `Returns e x xs` below is only an
abbreviation (`Returns.run` / `returns_iff` unfold it); every law is also stated with the run
written out.
-/
namespace FpVerif.CollList
open FpVerif FpVerif.It FpVerif.LL FpVerif.Spec.C12List

/-- "the traversal of `e` (outer argument `x`) returns `xs`": for every fuel above the bound of
    `eval_toSeq_eq` and every start log, from the EMPTY heap, the library calls return a list value
    and the `ToSeq` loop over it returns `xs`; afterwards every memo cell has been started at most
    once. -/
def Returns (e : LExpr) (x : Val) (xs : List Val) : Prop :=
  ∀ (fuel : Nat), e.bnd x + xs.length < fuel → ∀ (lg : Log),
    ∃ l hp lg1 hp' lg', LL.eval fuel e x {} lg = (.ok l, hp, lg1) ∧
      LL.toSeq fuel l [] hp lg1 = (.ok xs, hp', lg') ∧ hp'.maxEvals ≤ 1

theorem returns_iff (e : LExpr) (x : Val) (xs : List Val) :
    Returns e x xs ↔ ∀ (fuel : Nat), e.bnd x + xs.length < fuel → ∀ (lg : Log),
      ∃ l hp lg1 hp' lg', LL.eval fuel e x {} lg = (.ok l, hp, lg1) ∧
        LL.toSeq fuel l [] hp lg1 = (.ok xs, hp', lg') ∧ hp'.maxEvals ≤ 1 := Iff.rfl

/-- a pure expression returns its denotation (`eval_toSeq_eq`) -/
theorem returns_denote (e : LExpr) (x : Val) (hpure : e.Pure) : Returns e x (e.denote x) :=
  fun fuel hfuel lg => eval_toSeq_eq e x hpure fuel hfuel lg

/-- … hence any list its denotation is equal to -/
theorem returns_of_denote_eq (e : LExpr) (x : Val) (hpure : e.Pure) (xs : List Val) (h : e.denote x = xs) :
    Returns e x xs := h ▸ returns_denote e x hpure

/-- the traversal is deterministic: it returns one list only -/
theorem Returns.unique {e : LExpr} {x : Val} {xs ys : List Val} (h1 : Returns e x xs) (h2 : Returns e x ys) :
    xs = ys := by
  obtain ⟨l, hp, lg1, hp', lg', he, ht, _⟩ := h1 (e.bnd x + xs.length + ys.length + 1) (by omega) []
  obtain ⟨l2, hp2, lg2, hp2', lg2', he2, ht2, _⟩ := h2 (e.bnd x + xs.length + ys.length + 1) (by omega) []
  rw [he] at he2
  injection he2 with h1 h2
  injection h1 with h1
  injection h2 with h2 h3
  subst h1 h2 h3
  rw [ht] at ht2
  injection ht2 with h1 _
  injection h1

/-! ## the unit -/

/-- `list.Of(x)` (for an integer `x`) denotes the one-element list -/
theorem unit_denote (y : Val) : (LExpr.argOf 1).denote y = [.int y.asInt] := by
  simp [LExpr.denote, List.range_succ]

theorem unit_denote_int (n : Int) : (LExpr.argOf 1).denote (.int n) = [.int n] := by
  rw [unit_denote]; rfl

theorem asInt_of_int {v : Val} (h : ∃ n, v = .int n) : Val.int v.asInt = v := by
  obtain ⟨n, rfl⟩ := h; rfl

theorem flatMap_unit_ints (ys : List Val) (h : ∀ v ∈ ys, ∃ n, v = .int n) :
    ys.flatMap (fun y => (LExpr.argOf 1).denote y) = ys := by
  induction ys with
  | nil => rfl
  | cons y ys ih =>
    rw [List.flatMap_cons, unit_denote, asInt_of_int (h y (List.mem_cons_self ..)),
      ih (fun v hv => h v (List.mem_cons_of_mem _ hv))]
    rfl

/-! ## left identity: `FlatMap(Of(a), k) = k(a)` -/

theorem list_left_identity_denote (a : Val) (id : Int) (k : LExpr) (x : Val) :
    (LExpr.flatMap (.of [a]) id k).denote x = k.denote a := by
  simp [LExpr.denote]

/-- Left identity.  `list.FlatMap(list.Of(a), x ↦ k x)` denotes the list that `k` at `a` denotes, and
    the run on the heap model — the library calls, then the traversal loop — succeeds and returns
    exactly that list; every memo cell started at most once.  (`x` is the argument of an enclosing
    callback, irrelevant here.) -/
theorem list_left_identity (a : Val) (id : Int) (k : LExpr) (hk : k.Pure) (x : Val) :
    (LExpr.flatMap (.of [a]) id k).denote x = k.denote a ∧
    ∀ (fuel : Nat), (LExpr.flatMap (.of [a]) id k).bnd x + (k.denote a).length < fuel → ∀ (lg : Log),
      ∃ l hp lg1 hp' lg', LL.eval fuel (.flatMap (.of [a]) id k) x {} lg = (.ok l, hp, lg1) ∧
        LL.toSeq fuel l [] hp lg1 = (.ok (k.denote a), hp', lg') ∧ hp'.maxEvals ≤ 1 :=
  ⟨list_left_identity_denote a id k x,
   returns_of_denote_eq (.flatMap (.of [a]) id k) x ⟨trivial, hk⟩ _ (list_left_identity_denote a id k x)⟩

/-- … and running `k` at `a` directly returns the same list: the two programs of the law agree. -/
theorem list_left_identity_both (a : Val) (id : Int) (k : LExpr) (hk : k.Pure) (x : Val) :
    Returns (.flatMap (.of [a]) id k) x (k.denote a) ∧ Returns k a (k.denote a) :=
  ⟨(list_left_identity a id k hk x).2, returns_denote k a hk⟩

/-! ## right identity: `FlatMap(m, x ↦ Of(x)) = m` -/

theorem list_right_identity_denote (m : LExpr) (id : Int) (x : Val) (hint : ∀ v ∈ m.denote x, ∃ n, v = .int n) :
    (LExpr.flatMap m id (.argOf 1)).denote x = m.denote x := by
  show (m.denote x).flatMap (fun y => (LExpr.argOf 1).denote y) = m.denote x
  exact flatMap_unit_ints _ hint

/-- Right identity, for a list of ints (the unit `.argOf 1` = `list.Of(x)` rebuilds an int).
    `list.FlatMap(m, x ↦ list.Of(x))` denotes what `m` denotes, the run over the heap model returns
    it, and so does the run of `m` itself. -/
theorem list_right_identity (m : LExpr) (hm : m.Pure) (id : Int) (x : Val)
    (hint : ∀ v ∈ m.denote x, ∃ n, v = .int n) :
    (LExpr.flatMap m id (.argOf 1)).denote x = m.denote x ∧
    (∀ (fuel : Nat), (LExpr.flatMap m id (.argOf 1)).bnd x + (m.denote x).length < fuel → ∀ (lg : Log),
      ∃ l hp lg1 hp' lg', LL.eval fuel (.flatMap m id (.argOf 1)) x {} lg = (.ok l, hp, lg1) ∧
        LL.toSeq fuel l [] hp lg1 = (.ok (m.denote x), hp', lg') ∧ hp'.maxEvals ≤ 1) ∧
    (∀ (fuel : Nat), m.bnd x + (m.denote x).length < fuel → ∀ (lg : Log),
      ∃ l hp lg1 hp' lg', LL.eval fuel m x {} lg = (.ok l, hp, lg1) ∧
        LL.toSeq fuel l [] hp lg1 = (.ok (m.denote x), hp', lg') ∧ hp'.maxEvals ≤ 1) :=
  ⟨list_right_identity_denote m id x hint,
   returns_of_denote_eq (.flatMap m id (.argOf 1)) x ⟨hm, trivial⟩ _ (list_right_identity_denote m id x hint),
   returns_denote m x hm⟩

/-- ranges are lists of ints -/
theorem range_ints (closed : Bool) (a b : Int) (x : Val) :
    ∀ v ∈ (LExpr.range closed a b).denote x, ∃ n, v = .int n := by
  intro v hv
  simp only [LExpr.denote, List.mem_map] at hv
  obtain ⟨i, _, rfl⟩ := hv
  exact ⟨_, rfl⟩

/-- non-vacuity: `FlatMap(Range(0, 3), x ↦ Of(x))` returns `[0, 1, 2]` -/
example (x : Val) : Returns (.flatMap (.range false 0 3) 5 (.argOf 1)) x [.int 0, .int 1, .int 2] := by
  have h := (list_right_identity (.range false 0 3) trivial 5 x (range_ints false 0 3 x)).2.1
  have e : (LExpr.range false 0 3).denote x = [.int 0, .int 1, .int 2] := by
    simp [LExpr.denote, List.range_succ]
  rw [e] at h
  exact h

example (x : Val) : Returns (.flatMap (.of [.int 1, .int 2]) 5 (.argOf 1)) x [.int 1, .int 2] :=
  (list_right_identity (.of [.int 1, .int 2]) trivial 5 x (by
    intro v hv
    simp only [LExpr.denote, List.mem_cons, List.not_mem_nil, or_false] at hv
    rcases hv with rfl | rfl <;> exact ⟨_, rfl⟩)).2.1

/-- the hypothesis cannot be dropped: on a non-int the unit `.argOf 1` is not the identity. -/
example : (LExpr.flatMap (.of [.str "a"]) 0 (.argOf 1)).denote (.int 0) ≠ (LExpr.of [.str "a"]).denote (.int 0) := by
  simp [LExpr.denote, List.range_succ, Val.asInt]

/-! ## associativity: `FlatMap(FlatMap(m, f), g) = FlatMap(m, x ↦ FlatMap(f x, g))` -/

theorem list_assoc_denote_left (m f g : LExpr) (i j : Int) (x : Val) :
    (LExpr.flatMap (.flatMap m i f) j g).denote x =
      ((m.denote x).flatMap (f.denote ·)).flatMap (g.denote ·) := rfl

theorem list_assoc_denote_right (m f g : LExpr) (i j : Int) (x : Val) :
    (LExpr.flatMap m i (.flatMap f j g)).denote x =
      ((m.denote x).flatMap (f.denote ·)).flatMap (g.denote ·) := by
  show (m.denote x).flatMap (fun y => (f.denote y).flatMap (fun z => g.denote z)) = _
  exact List.flatMap_assoc.symm

/-- Associativity.  Both nestings denote `(m >>= f) >>= g`, and BOTH runs over the heap model succeed
    and return it (each with its own fuel bound, the one of `eval_toSeq_eq`), every memo cell started
    at most once. -/
theorem list_assoc (m f g : LExpr) (hm : m.Pure) (hf : f.Pure) (hg : g.Pure) (i j : Int) (x : Val) :
    (LExpr.flatMap (.flatMap m i f) j g).denote x = ((m.denote x).flatMap (f.denote ·)).flatMap (g.denote ·) ∧
    (LExpr.flatMap m i (.flatMap f j g)).denote x = ((m.denote x).flatMap (f.denote ·)).flatMap (g.denote ·) ∧
    (∀ (fuel : Nat), (LExpr.flatMap (.flatMap m i f) j g).bnd x +
        (((m.denote x).flatMap (f.denote ·)).flatMap (g.denote ·)).length < fuel → ∀ (lg : Log),
      ∃ l hp lg1 hp' lg', LL.eval fuel (.flatMap (.flatMap m i f) j g) x {} lg = (.ok l, hp, lg1) ∧
        LL.toSeq fuel l [] hp lg1 = (.ok (((m.denote x).flatMap (f.denote ·)).flatMap (g.denote ·)), hp', lg') ∧
        hp'.maxEvals ≤ 1) ∧
    (∀ (fuel : Nat), (LExpr.flatMap m i (.flatMap f j g)).bnd x +
        (((m.denote x).flatMap (f.denote ·)).flatMap (g.denote ·)).length < fuel → ∀ (lg : Log),
      ∃ l hp lg1 hp' lg', LL.eval fuel (.flatMap m i (.flatMap f j g)) x {} lg = (.ok l, hp, lg1) ∧
        LL.toSeq fuel l [] hp lg1 = (.ok (((m.denote x).flatMap (f.denote ·)).flatMap (g.denote ·)), hp', lg') ∧
        hp'.maxEvals ≤ 1) :=
  ⟨list_assoc_denote_left m f g i j x, list_assoc_denote_right m f g i j x,
   returns_of_denote_eq (.flatMap (.flatMap m i f) j g) x ⟨⟨hm, hf⟩, hg⟩ _ (list_assoc_denote_left m f g i j x),
   returns_of_denote_eq (.flatMap m i (.flatMap f j g)) x ⟨hm, hf, hg⟩ _ (list_assoc_denote_right m f g i j x)⟩

/-- the law as an equation between what the two programs return -/
theorem list_assoc_returns_eq (m f g : LExpr) (hm : m.Pure) (hf : f.Pure) (hg : g.Pure) (i j : Int) (x : Val)
    (xs ys : List Val) (h1 : Returns (.flatMap (.flatMap m i f) j g) x xs)
    (h2 : Returns (.flatMap m i (.flatMap f j g)) x ys) : xs = ys := by
  obtain ⟨_, _, r1, r2⟩ := list_assoc m f g hm hf hg i j x
  exact (h1.unique r1).trans (h2.unique r2).symm

/-! ## `Map(m, f) = FlatMap(m, unit ∘ f)` — up to `Map(Of(x), f) = Of(f x)`

`LExpr` has no constructor for `list.Of(f x)` with a callback `f`; the closest continuation is
`.map (.argOf 1) f` = `x ↦ list.Map(list.Of(x), f)`.  What is proved is therefore
`Map(m, f) = FlatMap(m, x ↦ Map(Of(x), f))` (denotation and both runs), i.e. the law
`Map(m, f) = FlatMap(m, x ↦ Of(f x))` up to the identity `Map(Of(x), f) = Of(f x)`, which is proved
separately at the denotation level (`map_unit_denote`).

    -- full statement, not expressible in `LExpr` (no `Of(f x)` node):
    -- theorem list_map_eq_flatMap_unit : Map(m, f) and FlatMap(m, x ↦ Of(f x)) return the same list
-/

/-- `Map(Of(x), f)` denotes `Of(f x)` — the one-element list of the value `f` returns -/
theorem map_unit_denote (f : Val → GoM Val) (x : Val) :
    (LExpr.map (.argOf 1) f).denote x = [pure1 f (.int x.asInt)] := by
  show ((LExpr.argOf 1).denote x).map (pure1 f) = _
  rw [unit_denote]; rfl

theorem list_map_eq_flatMap_unit_denote (m : LExpr) (f : Val → GoM Val) (id : Int) (x : Val)
    (hint : ∀ v ∈ m.denote x, ∃ n, v = .int n) :
    (LExpr.flatMap m id (.map (.argOf 1) f)).denote x = (LExpr.map m f).denote x := by
  show (m.denote x).flatMap (fun y => (LExpr.map (.argOf 1) f).denote y) = (m.denote x).map (pure1 f)
  generalize m.denote x = ys at hint
  induction ys with
  | nil => rfl
  | cons y ys ih =>
    rw [List.flatMap_cons, map_unit_denote, asInt_of_int (hint y (List.mem_cons_self ..)),
      ih (fun v hv => hint v (List.mem_cons_of_mem _ hv))]
    rfl

/-- `Map(m, f) = FlatMap(m, x ↦ Map(Of(x), f))` for a list of ints and a callback that does not panic:
    same denotation `(m.denote x).map (pure1 f)`, and both runs over the heap model return it. -/
theorem list_map_eq_flatMap_unit_partial (m : LExpr) (hm : m.Pure) (f : Val → GoM Val) (hf : Total f (pure1 f))
    (id : Int) (x : Val) (hint : ∀ v ∈ m.denote x, ∃ n, v = .int n) :
    (LExpr.map m f).denote x = (m.denote x).map (pure1 f) ∧
    (LExpr.flatMap m id (.map (.argOf 1) f)).denote x = (m.denote x).map (pure1 f) ∧
    (∀ (fuel : Nat), (LExpr.map m f).bnd x + ((m.denote x).map (pure1 f)).length < fuel → ∀ (lg : Log),
      ∃ l hp lg1 hp' lg', LL.eval fuel (.map m f) x {} lg = (.ok l, hp, lg1) ∧
        LL.toSeq fuel l [] hp lg1 = (.ok ((m.denote x).map (pure1 f)), hp', lg') ∧ hp'.maxEvals ≤ 1) ∧
    (∀ (fuel : Nat), (LExpr.flatMap m id (.map (.argOf 1) f)).bnd x + ((m.denote x).map (pure1 f)).length < fuel →
      ∀ (lg : Log),
      ∃ l hp lg1 hp' lg', LL.eval fuel (.flatMap m id (.map (.argOf 1) f)) x {} lg = (.ok l, hp, lg1) ∧
        LL.toSeq fuel l [] hp lg1 = (.ok ((m.denote x).map (pure1 f)), hp', lg') ∧ hp'.maxEvals ≤ 1) :=
  ⟨rfl, list_map_eq_flatMap_unit_denote m f id x hint,
   returns_of_denote_eq (.map m f) x ⟨hm, hf⟩ _ rfl,
   returns_of_denote_eq (.flatMap m id (.map (.argOf 1) f)) x ⟨hm, trivial, hf⟩ _ (list_map_eq_flatMap_unit_denote m f id x hint)⟩

/-! ## the hypotheses are satisfiable: concrete instances -/

/-- the logging callback used below does not panic -/
theorem logging_total : Total (fun v => (do emit "m"; pure v : GoM Val)) (pure1 (fun v => (do emit "m"; pure v : GoM Val))) :=
  Total.pure1 (total_emit (fun _ => "m") id)

/-- left identity at `k = x ↦ Of(x, x+1)`, `a = 7`: the run returns `[7, 8]` -/
example (x : Val) : Returns (.flatMap (.of [.int 7]) 1 (.argOf 2)) x [.int 7, .int 8] := by
  have h := (list_left_identity (.int 7) 1 (.argOf 2) trivial x).2
  have e : (LExpr.argOf 2).denote (.int 7) = [.int 7, .int 8] := by
    simp [LExpr.denote, List.range_succ, Val.asInt]
  rw [e] at h
  exact h

/-- left identity at a logging `k = x ↦ Map(Of(x, x+1), v ↦ {log m; v})` -/
example (x : Val) : Returns (.flatMap (.of [.int 7]) 1 (.map (.argOf 2) (fun v => do emit "m"; pure v))) x
    ((LExpr.map (.argOf 2) (fun v => do emit "m"; pure v)).denote (.int 7)) :=
  (list_left_identity (.int 7) 1 (.map (.argOf 2) (fun v => do emit "m"; pure v)) ⟨trivial, logging_total⟩ x).2

/-- associativity at `m = Range(0, 3)`, `f = x ↦ Of(x, x+1)`, `g = x ↦ Map(Of(x), v ↦ {log m; v})`:
    both nestings return the same list -/
example (x : Val) :
    ∃ xs, Returns (.flatMap (.flatMap (.range false 0 3) 1 (.argOf 2)) 2 (.map (.argOf 1) (fun v => do emit "m"; pure v))) x xs ∧
      Returns (.flatMap (.range false 0 3) 1 (.flatMap (.argOf 2) 2 (.map (.argOf 1) (fun v => do emit "m"; pure v)))) x xs := by
  obtain ⟨_, _, r1, r2⟩ := list_assoc (.range false 0 3) (.argOf 2)
    (.map (.argOf 1) (fun v => do emit "m"; pure v)) trivial trivial ⟨trivial, logging_total⟩ 1 2 x
  exact ⟨_, r1, r2⟩

/-- `Map = FlatMap ∘ unit` (partial form) at `m = Range(0, 3)` and the logging callback -/
example (x : Val) :
    Returns (.map (.range false 0 3) (fun v => do emit "m"; pure v)) x
      (((LExpr.range false 0 3).denote x).map (pure1 (fun v => (do emit "m"; pure v : GoM Val)))) ∧
    Returns (.flatMap (.range false 0 3) 9 (.map (.argOf 1) (fun v => do emit "m"; pure v))) x
      (((LExpr.range false 0 3).denote x).map (pure1 (fun v => (do emit "m"; pure v : GoM Val)))) := by
  obtain ⟨_, _, r1, r2⟩ := list_map_eq_flatMap_unit_partial (.range false 0 3) trivial
    (fun v => do emit "m"; pure v) logging_total 9 x (range_ints false 0 3 x)
  exact ⟨r1, r2⟩

end FpVerif.CollList
