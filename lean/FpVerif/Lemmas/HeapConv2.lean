import FpVerif.Lemmas.HeapDel1
/-!
The hash-array -> bitmap conversion loop of `mapHashArrayNode.delete`, on any element type.
-/
set_option linter.unusedSimpArgs false
set_option linter.unusedVariables false
namespace FpVerif.HamtHeap
open FpVerif.Hamt
variable {K V : Type} {α β : Type}

def h2bStepG (nodes : List (Option α)) (idx : Nat) (acc : Nat × List α) (i : Nat) : Nat × List α :=
  match nodes[i]? with
  | some (some child) => if i != idx then (acc.1 ||| (1 <<< i), acc.2 ++ [child]) else acc
  | _ => acc

theorem hashArrayToBitmapG_eq (nodes : List (Option α)) (idx : Nat) :
    hashArrayToBitmapG nodes idx = (List.range mapNodeSize).foldl (h2bStepG nodes idx) (0, []) := rfl

theorem hashArrayToBitmap_eq_G (nodes : List (Option (Node K V))) (idx : Nat) :
    hashArrayToBitmap nodes idx = hashArrayToBitmapG nodes idx := by
  unfold hashArrayToBitmap hashArrayToBitmapG
  congr 1
  funext acc i
  cases h : nodes[i]? with
  | none => rfl
  | some o => cases o <;> rfl

/-- what the loop takes from slot `i` -/
def h2bPick (nodes : List (Option α)) (idx : Nat) (i : Nat) : Option α :=
  match nodes[i]? with
  | some (some c) => if i != idx then some c else none
  | _ => none

theorem h2b_fold_snd (nodes : List (Option α)) (idx : Nat) : ∀ (is : List Nat) (acc : Nat × List α),
    (is.foldl (h2bStepG nodes idx) acc).2 = acc.2 ++ is.filterMap (h2bPick nodes idx) := by
  intro is
  induction is with
  | nil => intro acc; simp
  | cons i is ih =>
    intro acc
    rw [List.foldl_cons, ih, List.filterMap_cons]
    unfold h2bStepG h2bPick
    cases h : nodes[i]? with
    | none => simp
    | some o =>
      cases o with
      | none => simp
      | some c =>
        by_cases hi : (i != idx) = true
        · simp [hi]
        · simp [hi]

/-- the loop commutes with mapping the elements -/
theorem h2b_fold_map (f : α → β) (nodes : List (Option α)) (idx : Nat) : ∀ (is : List Nat) (acc : Nat × List α),
    is.foldl (h2bStepG (nodes.map (Option.map f)) idx) (acc.1, acc.2.map f) =
      ((is.foldl (h2bStepG nodes idx) acc).1, (is.foldl (h2bStepG nodes idx) acc).2.map f) := by
  intro is
  induction is with
  | nil => intro acc; rfl
  | cons i is ih =>
    intro acc
    rw [List.foldl_cons, List.foldl_cons]
    have hstep : h2bStepG (nodes.map (Option.map f)) idx (acc.1, acc.2.map f) i =
        ((h2bStepG nodes idx acc i).1, (h2bStepG nodes idx acc i).2.map f) := by
      unfold h2bStepG
      rw [List.getElem?_map]
      cases h : nodes[i]? with
      | none => rfl
      | some o =>
        cases o with
        | none => rfl
        | some c =>
          by_cases hi : (i != idx) = true
          · simp [hi]
          · simp [hi]
    rw [hstep]
    exact ih _

theorem hashArrayToBitmapG_map (f : α → β) (nodes : List (Option α)) (idx : Nat) :
    hashArrayToBitmapG (nodes.map (Option.map f)) idx =
      ((hashArrayToBitmapG nodes idx).1, (hashArrayToBitmapG nodes idx).2.map f) := by
  rw [hashArrayToBitmapG_eq, hashArrayToBitmapG_eq]
  exact h2b_fold_map f nodes idx _ (0, [])

theorem h2b_pick_sublist (nodes : List (Option α)) (idx : Nat) : ∀ n,
    List.Sublist ((List.range n).filterMap (h2bPick nodes idx)) ((nodes.take n).filterMap id) := by
  intro n
  induction n with
  | zero => simp
  | succ n ih =>
    rw [List.range_succ, List.filterMap_append, List.take_add_one, List.filterMap_append]
    apply List.Sublist.append ih
    cases h : nodes[n]? with
    | none => simp [h2bPick, h]
    | some o =>
      cases o with
      | none => simp [h2bPick, h]
      | some c =>
        by_cases hi : (n != idx) = true
        · simp [h2bPick, h, hi]
        · simp [h2bPick, h, hi]

theorem hashArrayToBitmapG_sublist (nodes : List (Option α)) (idx : Nat) :
    List.Sublist (hashArrayToBitmapG nodes idx).2 (nodes.filterMap id) := by
  rw [hashArrayToBitmapG_eq, h2b_fold_snd]
  simp only [List.nil_append]
  exact List.Sublist.trans (h2b_pick_sublist nodes idx mapNodeSize) ((List.take_sublist _ _).filterMap id)

/-- the slots of a hash-array node, each paired with its abstraction -/
theorem slots_pairs {f s : Nat} {H : Heap K V} : ∀ {slots : List (Option Addr)}
    {rs : List (Option (Node K V) × List Addr)}, mapOpt (absSlot f s H) slots = some rs →
    ∃ prs : List (Option (Nat × Node K V × List Nat)), slots = prs.map (Option.map (·.1)) ∧ rs = prs.map slotRes ∧
      ∀ x, some x ∈ prs → absF f s H x.1 = some x.2 := by
  intro slots
  induction slots with
  | nil =>
    intro rs h
    simp only [mapOpt, Option.some.injEq] at h
    subst h
    exact ⟨[], rfl, rfl, by simp⟩
  | cons o slots ih =>
    intro rs h
    unfold mapOpt at h
    cases ho : absSlot f s H o with
    | none => rw [ho] at h; cases h
    | some r =>
      cases hm : mapOpt (absSlot f s H) slots with
      | none => rw [ho, hm] at h; cases h
      | some rs' =>
        rw [ho, hm] at h
        simp only [Option.some.injEq] at h
        subst h
        obtain ⟨prs, h1, h2, h3⟩ := ih hm
        cases o with
        | none =>
          simp only [absSlot, Option.some.injEq] at ho
          subst ho
          refine ⟨none :: prs, by simp [h1], by simp [h2, slotRes], ?_⟩
          intro x hx
          simp only [List.mem_cons, reduceCtorEq, false_or] at hx
          exact h3 x hx
        | some c =>
          simp only [absSlot, Option.map_eq_some_iff] at ho
          obtain ⟨rc, hcabs, hrc⟩ := ho
          subst hrc
          refine ⟨some (c, rc) :: prs, by simp [h1], by simp [h2, slotRes], ?_⟩
          intro x hx
          simp only [List.mem_cons, Option.some.injEq] at hx
          rcases hx with rfl | hx
          · exact hcabs
          · exact h3 x hx

theorem map_slotRes_snd (prs : List (Option (Nat × Node K V × List Nat))) :
    (prs.map slotRes).map (·.2) = prs.map (optL (fun (y : Nat × Node K V × List Nat) => y.2.2)) := by
  rw [List.map_map]
  apply List.map_congr_left
  intro o _
  cases o <;> rfl

/-- **hash-array -> bitmap**: the pointer-level loop refines the value-level loop; the children's
    footprints are a sub-list of the old ones -/
theorem h2b_sim {f s : Nat} {H : Heap K V} {slots : List (Option Addr)}
    {rs : List (Option (Node K V) × List Addr)} (hk : mapOpt (absSlot f s H) slots = some rs) (idx : Nat) :
    (hashArrayToBitmapG slots idx).1 = (hashArrayToBitmap (rs.map (·.1)) idx).1 ∧
    ∃ rsN : List (Node K V × List Addr), mapOpt (absF f s H) (hashArrayToBitmapG slots idx).2 = some rsN ∧
      rsN.map (·.1) = (hashArrayToBitmap (rs.map (·.1)) idx).2 ∧
      List.Sublist (rsN.map (·.2)).flatten (rs.map (·.2)).flatten := by
  obtain ⟨prs, h1, h2, h3⟩ := slots_pairs hk
  have hfst : rs.map (·.1) = prs.map (Option.map (fun x => x.2.1)) := by
    rw [h2, List.map_map]
    apply List.map_congr_left
    intro o _; cases o <;> rfl
  rw [hashArrayToBitmap_eq_G, hfst, hashArrayToBitmapG_map, h1, hashArrayToBitmapG_map]
  refine ⟨rfl, (hashArrayToBitmapG prs idx).2.map (·.2), ?_, ?_, ?_⟩
  · dsimp only
    rw [mapOpt_map, mapOpt_eq_some_iff, List.map_map]
    apply List.map_congr_left
    intro x hx
    have hsub := hashArrayToBitmapG_sublist prs idx
    have : x ∈ prs.filterMap id := hsub.subset hx
    simp only [List.mem_filterMap, id] at this
    obtain ⟨o, ho, rfl⟩ := this
    exact h3 x ho
  · dsimp only
    rw [List.map_map]; rfl
  · rw [h2, map_slotRes_snd, flatten_map_option, List.map_map]
    exact Sublist.flatten' ((hashArrayToBitmapG_sublist prs idx).map _)

end FpVerif.HamtHeap
