import FpVerif.Model.FutureChain
import FpVerif.Spec.C06Sound
/-!
# Helper lemmas for Spec/C14Fut.lean and Spec/C06Chain.lean

* relations between three-valued results that `bindOk` respects (`BRel`): "below" (soundness), its converse
  (completeness) and equality (fixpoint) — one proof of the builder theorems serves all three;
* what one `build` of a *shallow* expression (`Successful`, `Failed`, `FlatMap(handle, …)`) does to the net;
* the Try-level reading of the builders (`operandS`, `chainSpec`, `argsSpec`).
-/
namespace FpVerif.Spec.C14Fut
open FpVerif FpVerif.Fut FpVerif.Spec.C06

abbrev TV := Option (Try Val)

-- relations respected by bindOk ---------------------------------------------------------------------------

/-- `o` is below `o'`: once `o` is determined, `o'` is, with the same value -/
def Below (o o' : TV) : Prop := ∀ r, o = some r → o' = some r

structure BRel (R : TV → TV → Prop) : Prop where
  refl : ∀ o, R o o
  trans : ∀ {a b c}, R a b → R b c → R a c
  bind : ∀ {o o' : TV} {f f' : Val → TV}, R o o' → (∀ v, R (f v) (f' v)) → R (bindOk o f) (bindOk o' f')

theorem below_bind {o o' : TV} {f f' : Val → TV} (h : Below o o') (hf : ∀ v, Below (f v) (f' v)) :
    Below (bindOk o f) (bindOk o' f') := by
  intro r hr
  rcases bindOk_some hr with ⟨v, hv, hk⟩ | ⟨e, he, hre⟩
  · rw [h _ hv]; exact hf v r hk
  · rw [h _ he, hre]; rfl

theorem brel_below : BRel Below :=
  ⟨fun _ _ h => h, fun h1 h2 r hr => h2 r (h1 r hr), below_bind⟩

theorem brel_above : BRel (fun a b => Below b a) :=
  ⟨fun _ _ h => h, fun h1 h2 r hr => h1 r (h2 r hr), fun h hf => below_bind h hf⟩

theorem brel_eq : BRel (@Eq TV) :=
  ⟨fun _ => rfl, fun h1 h2 => h1.trans h2, fun h hf => by subst h; congr 1; funext v; exact hf v⟩

/-- `σ` agrees (in the sense of `R`) with the construction expressions recorded in the net:
    for `R = Below`, `σ = n.status` this is `Sound n` -/
def Consistent (R : TV → TV → Prop) (σ : Nat → TV) (n : Net) : Prop := ∀ p, R (σ p) (evalS σ (n.spec p))

theorem sound_consistent {n : Net} (h : Sound n) : Consistent Below n.status n := fun p v hv => h p v hv

-- generic three-valued bind ----------------------------------------------------------------------------------

def bindP {α β : Type} (o : Option (Try α)) (f : α → Option (Try β)) : Option (Try β) :=
  match o with
  | some (.success v) => f v
  | some (.failure e) => some (.failure e)
  | none => none

theorem bindP_eq_bindOk (o : TV) (f : Val → TV) : bindP o f = bindOk o f := by
  rcases o with _ | (_ | _) <;> rfl

def mapP {α : Type} (o : Option (Try α)) (g : α → Val) : TV := bindP o (fun v => some (.success (g v)))

-- the Try-level reading of the builders ------------------------------------------------------------------------

/-- what a step shared by both builders denotes -/
def aOperandS (σ : Nat → TV) (c : Ex) : AStep → TV
  | .apFuture a => σ a
  | .ap v => some (.success v)
  | .apTry t => some t
  | .apOption o => some (tryOfOption o)
  | .apFutureFunc s => evalS σ (s c)
  | .apTryFunc s => some (s c).1
  | .apOptionFunc s => some (tryOfOption (s c).1)
  | .apFunc s => some (.success (s c).1)

/-- what operand `s` of a `MonadChainN` denotes, given the values `vs` of the earlier positions (oldest first):
    the callbacks of `Map`/`FlatMap` see the most recent one, those of `HListMap`/`HListFlatMap` all of them -/
def operandS (σ : Nat → TV) (c : Ex) (vs : List Val) : Step → TV
  | .a s => aOperandS σ c s
  | .flatMap k => evalS σ (k c (hhead (hl vs)))
  | .map k => some (.success (k c (hhead (hl vs))).1)
  | .hlistFlatMap k => evalS σ (k c (hl vs))
  | .hlistMap k => some (.success (k c (hl vs)).1)

/-- **the do-notation reading of a chain over fp.Try**: operands left to right, each callback sees exactly the
    values so far, the first failure (or undetermined operand) ends the evaluation — later suppliers and
    callbacks are not consulted —, finally `fn(a1, …, aN)` -/
def chainSpec (σ : Nat → TV) (fn : NFn) : List (Ex × Step) → List Val → TV
  | [], vs => some (.success (fn .d vs).1)
  | (c, s) :: ss, vs => bindOk (operandS σ c vs s) (fun a => chainSpec σ fn ss (vs ++ [a]))

/-- the values of the first positions, left to right (the prefix of `chainSpec`) -/
def argsStep (σ : Nat → TV) (D : Option (Try (List Val))) (cs : Ex × Step) : Option (Try (List Val)) :=
  bindP D (fun vs => bindP (operandS σ cs.1 vs cs.2) (fun y => some (.success (vs ++ [y]))))

def argsSpec (σ : Nat → TV) (steps : List (Ex × Step)) : Option (Try (List Val)) :=
  steps.foldl (argsStep σ) (some (.success []))

theorem foldl_argsStep_none (σ : Nat → TV) (steps : List (Ex × Step)) :
    steps.foldl (argsStep σ) none = none := by
  induction steps with
  | nil => rfl
  | cons s ss ih => simpa [List.foldl, argsStep, bindP] using ih

theorem foldl_argsStep_failure (σ : Nat → TV) (steps : List (Ex × Step)) (e : Err) :
    steps.foldl (argsStep σ) (some (.failure e)) = some (.failure e) := by
  induction steps with
  | nil => rfl
  | cons s ss ih => simpa [List.foldl, argsStep, bindP] using ih

/-- `chainSpec` is `fn` applied to the prefix values -/
theorem chainSpec_eq_fold (σ : Nat → TV) (fn : NFn) (steps : List (Ex × Step)) (vs : List Val) :
    chainSpec σ fn steps vs
      = bindP (steps.foldl (argsStep σ) (some (.success vs))) (fun ws => some (.success (fn .d ws).1)) := by
  induction steps generalizing vs with
  | nil => rfl
  | cons cs ss ih =>
    obtain ⟨c, s⟩ := cs
    simp only [chainSpec, List.foldl]
    cases ho : operandS σ c vs s with
    | none => simp [argsStep, bindP, ho, bindOk, foldl_argsStep_none]
    | some t =>
      cases t with
      | success y => simp [argsStep, bindP, ho, bindOk, ih]
      | failure e => simp [argsStep, bindP, ho, bindOk, foldl_argsStep_failure]

theorem chainSpec_eq_args (σ : Nat → TV) (fn : NFn) (steps : List (Ex × Step)) :
    chainSpec σ fn steps [] = bindP (argsSpec σ steps) (fun ws => some (.success (fn .d ws).1)) :=
  chainSpec_eq_fold σ fn steps []

theorem argsSpec_snoc (σ : Nat → TV) (steps : List (Ex × Step)) (cs : Ex × Step) :
    argsSpec σ (steps ++ [cs]) = argsStep σ (argsSpec σ steps) cs := by
  simp [argsSpec, List.foldl_append]

theorem foldl_argsStep_length (σ : Nat → TV) (steps : List (Ex × Step)) (ws vs : List Val)
    (h : steps.foldl (argsStep σ) (some (.success ws)) = some (.success vs)) :
    vs.length = ws.length + steps.length := by
  induction steps generalizing ws with
  | nil => simp at h; subst h; rfl
  | cons cs ss ih =>
    simp only [List.foldl] at h
    cases ho : operandS σ cs.1 ws cs.2 with
    | none => simp [argsStep, bindP, ho, foldl_argsStep_none] at h
    | some t =>
      cases t with
      | failure e => simp [argsStep, bindP, ho, foldl_argsStep_failure] at h
      | success y =>
        simp only [argsStep, bindP, ho] at h
        have := ih _ h
        simp at this ⊢; omega

/-- the number of values is the number of positions -/
theorem argsSpec_length (σ : Nat → TV) (steps : List (Ex × Step)) (vs : List Val)
    (h : argsSpec σ steps = some (.success vs)) : vs.length = steps.length := by
  simpa using foldl_argsStep_length σ steps [] vs h

-- ApplicativeFunctorN: which executor each supplier really sees -------------------------------------------------------

/-- the method calls of an `ApplicativeN` builder with the executor that actually reaches the supplier: the generated
    receivers (every call but the last) drop `ctx`, the hand-written `ApplicativeFunctor1` passes it on -/
def effA : List (Ex × AStep) → List (Ex × Step)
  | [] => []
  | [(c, s)] => [(c, .a s)]
  | (_, s) :: rest => (.d, .a s) :: effA rest

/-- the executor on which `fn` finally runs: the `ctx` of the last call if that is a supplier call
    (`ApFunc(r.fn, a, ctx...)`), the default executor otherwise (`Ap(r.fn, a)`) -/
def finalEx : List (Ex × AStep) → Ex
  | [] => .d
  | [(c, s)] => if s.supplier.isSome then c else .d
  | _ :: rest => finalEx rest

/-- **the do-notation reading of an applicative builder over fp.Try** -/
def applicativeSpec (σ : Nat → TV) (fn : NFn) : List (Ex × AStep) → List Val → TV
  | [], vs => some (.success (fn .d vs).1)
  | [(c, s)], vs =>
    bindOk (aOperandS σ c s) (fun a => some (.success (fn (if s.supplier.isSome then c else .d) (vs ++ [a])).1))
  | (_, s) :: ss, vs => bindOk (aOperandS σ .d s) (fun a => applicativeSpec σ fn ss (vs ++ [a]))

theorem seqSpec_eq_fold (σ : Nat → TV) (K : List Val → TV) (steps : List (Ex × Step)) (vs : List Val) :
    bindP (steps.foldl (argsStep σ) (some (.success vs))) K
      = (steps.foldr (fun cs k ws => bindOk (operandS σ cs.1 ws cs.2) (fun a => k (ws ++ [a]))) K) vs := by
  induction steps generalizing vs with
  | nil => rfl
  | cons cs ss ih =>
    simp only [List.foldl, List.foldr]
    cases ho : operandS σ cs.1 vs cs.2 with
    | none => simp [argsStep, bindP, ho, bindOk, foldl_argsStep_none]
    | some t =>
      cases t with
      | success y =>
        have := ih (vs ++ [y])
        simp only [argsStep, bindP, ho, bindOk] at this ⊢
        exact this
      | failure e => simp [argsStep, bindP, ho, bindOk, foldl_argsStep_failure]

theorem applicativeSpec_eq_fold (σ : Nat → TV) (fn : NFn) (steps : List (Ex × AStep)) (vs : List Val) :
    applicativeSpec σ fn steps vs
      = bindP ((effA steps).foldl (argsStep σ) (some (.success vs)))
          (fun ws => some (.success (fn (finalEx steps) ws).1)) := by
  rw [seqSpec_eq_fold]
  induction steps generalizing vs with
  | nil => rfl
  | cons cs ss ih =>
    obtain ⟨c, s⟩ := cs
    cases ss with
    | nil => simp [applicativeSpec, effA, finalEx, operandS]
    | cons cs2 ss2 =>
      simp only [applicativeSpec, effA, finalEx, List.foldr, operandS]
      congr 1; funext a
      exact ih _

theorem effA_length (steps : List (Ex × AStep)) : (effA steps).length = steps.length := by
  induction steps with
  | nil => rfl
  | cons cs ss ih =>
    obtain ⟨c, s⟩ := cs
    cases ss with
    | nil => rfl
    | cons cs2 ss2 => simp only [effA, List.length_cons] at ih ⊢; omega

-- what one build does ------------------------------------------------------------------------------------------

/-- expressions whose `build` allocates exactly one promise -/
inductive Shallow : FExpr → Prop where
  | successful (v : Val) : Shallow (.successful v)
  | failed (e : Err) : Shallow (.failed e)
  | flatMap (p : Nat) (k : Val → FExpr) : Shallow (.flatMap (.ref p) k)

structure Alloc1 (n : Net) (e : FExpr) (q : Nat) (n' : Net) : Prop where
  root : q = n.next
  next : n'.next = n.next + 1
  spec : ∀ p, n'.spec p = if p = n.next then e else n.spec p
  log : n'.log = n.log

theorem complete_frame (p : Nat) (t : Try Val) (n : Net) :
    (complete p t n).next = n.next ∧ (complete p t n).spec = n.spec ∧ (complete p t n).log = n.log := by
  unfold complete; split <;> exact ⟨rfl, rfl, rfl⟩

theorem onComplete_frame (p : Nat) (c : CB) (n : Net) :
    (onComplete p c n).next = n.next ∧ (onComplete p c n).spec = n.spec ∧ (onComplete p c n).log = n.log := by
  unfold onComplete; split <;> exact ⟨rfl, rfl, rfl⟩

theorem build_shallow {e : FExpr} (h : Shallow e) (n : Net) : Alloc1 n e (build e n).1 (build e n).2 := by
  cases h with
  | successful v =>
    have hf := complete_frame n.next (.success v) (fresh (.successful v) n).2
    exact ⟨rfl, hf.1.trans rfl, fun p => (congrFun hf.2.1 p).trans rfl, hf.2.2.trans rfl⟩
  | failed x =>
    have hf := complete_frame n.next (.failure x) (fresh (.failed x) n).2
    exact ⟨rfl, hf.1.trans rfl, fun p => (congrFun hf.2.1 p).trans rfl, hf.2.2.trans rfl⟩
  | flatMap p k =>
    have hf := onComplete_frame p (.flatMapA k n.next) (fresh (.flatMap (.ref p) k) n).2
    exact ⟨rfl, hf.1.trans rfl, fun q => (congrFun hf.2.1 q).trans rfl, hf.2.2.trans rfl⟩

/-- the specs of existing promises are kept, new ones may appear -/
structure SpecLe (n n' : Net) : Prop where
  next : n.next ≤ n'.next
  spec : ∀ p, p < n.next → n'.spec p = n.spec p

theorem SpecLe.refl (n : Net) : SpecLe n n := ⟨Nat.le_refl _, fun _ _ => rfl⟩

theorem SpecLe.trans {a b c : Net} (h1 : SpecLe a b) (h2 : SpecLe b c) : SpecLe a c :=
  ⟨Nat.le_trans h1.next h2.next, fun p hp => by rw [h2.spec p (Nat.lt_of_lt_of_le hp h1.next), h1.spec p hp]⟩

theorem SpecLe.of_le {n n' : Net} (h : Le n n') : SpecLe n n' := ⟨h.next, h.spec⟩

theorem Alloc1.specLe {n n' : Net} {e : FExpr} {q : Nat} (h : Alloc1 n e q n') : SpecLe n n' :=
  ⟨by rw [h.next]; omega, fun p hp => by rw [h.spec p]; simp [Nat.ne_of_lt hp]⟩

theorem Alloc1.spec_root {n n' : Net} {e : FExpr} {q : Nat} (h : Alloc1 n e q n') : n'.spec q = e := by
  rw [h.spec q, h.root]; simp

theorem Alloc1.lt {n n' : Net} {e : FExpr} {q : Nat} (h : Alloc1 n e q n') : q < n'.next := by
  rw [h.root, h.next]; omega

/-- `q` is the handle of the future the (shallow or handle) expression `e` stands for -/
def ShallowRoot (n : Net) (q : Nat) (e : FExpr) : Prop := e = .ref q ∨ n.spec q = e

theorem shallowRoot_consistent {R : TV → TV → Prop} (hR : BRel R) {σ : Nat → TV} {n : Net}
    (hc : Consistent R σ n) {q : Nat} {e : FExpr} (h : ShallowRoot n q e) : R (σ q) (evalS σ e) := by
  rcases h with rfl | h
  · exact hR.refl _
  · rw [← h]; exact hc q

theorem ShallowRoot.mono {n n' : Net} (hle : SpecLe n n') {q : Nat} {e : FExpr} (hq : q < n.next)
    (h : ShallowRoot n q e) : ShallowRoot n' q e := by
  rcases h with h | h
  · exact .inl h
  · exact .inr (by rw [hle.spec q hq]; exact h)

/-- an expression that is either a handle below `b` or shallow -/
def RefOrShallow (b : Nat) (e : FExpr) : Prop := (∃ a, e = .ref a ∧ a < b) ∨ Shallow e

/-- building a handle-or-shallow expression: the root stands for it, nothing else changes -/
theorem build_refOrShallow {e : FExpr} {n : Net} (h : RefOrShallow n.next e) :
    SpecLe n (build e n).2 ∧ ShallowRoot (build e n).2 (build e n).1 e ∧ (build e n).1 < (build e n).2.next ∧
    (build e n).2.log = n.log := by
  rcases h with ⟨a, rfl, ha⟩ | h
  · exact ⟨SpecLe.refl n, .inl rfl, ha, rfl⟩
  · have hb := build_shallow h n
    exact ⟨hb.specLe, .inr hb.spec_root, hb.lt, hb.log⟩

end FpVerif.Spec.C14Fut
