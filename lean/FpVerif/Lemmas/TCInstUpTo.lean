import FpVerif.Model.TCInst
import FpVerif.Lemmas.TCLaws
/-!
# Typed monoid instance expressions WITH the map monoids, and the equivalence each is lawful up to  (audit finding 15)

`Model/TCInst.MInst` (which the oracle runs) has no `MergeGoMap / MergeMap / MergeSet` leaf, because those are lawful only up
to the CONTENT of a Go map (`GoMap.Ext`), not up to `=`.  `MInstU` embeds every `MInst` expression as a leaf (`lawful`),
adds the three map monoids, and closes under `Option`, `Try`, `Dual`, `HCons`, `Tuple1`, `TupleN`; `MInstU.rel` is the
equivalence an expression is lawful up to: `=` at `lawful` leaves, same content at map leaves, lifted component-wise.
`Spec/C11.minstU_lawful` is the induction.  (`MInst` itself is unchanged.)
-/
namespace FpVerif.TC

variable {α τ : Type}

def relOption (R : α → α → Prop) : Option α → Option α → Prop
  | none, none => True
  | some a, some b => R a b
  | _, _ => False

def relTry (R : α → α → Prop) : TryV α → TryV α → Prop
  | .success a, .success b => R a b
  | .failure e, .failure e' => e = e'
  | _, _ => False

def relDual (R : α → α → Prop) : Dual α → Dual α → Prop := fun a b => R a.getDual b.getDual
def relPair (R1 : α → α → Prop) (R2 : τ → τ → Prop) : α × τ → α × τ → Prop := fun p q => R1 p.1 q.1 ∧ R2 p.2 q.2
def relT1 (R : α → α → Prop) : T1 α → T1 α → Prop := fun a b => R a.i1 b.i1

inductive MInstU : Type → Type 1 where
  | lawful {α : Type} (i : MInst α) : MInstU α
  | mergeGoMap (κ ν : Type) [DecidableEq κ] : MInstU (GoMap κ ν)
  | mergeMap (κ ν : Type) [DecidableEq κ] : MInstU (GoMap κ ν)
  | mergeSet (κ : Type) [DecidableEq κ] : MInstU (GoMap κ Unit)
  | option {α : Type} (i : MInstU α) : MInstU (Option α)
  | try_ {α : Type} (i : MInstU α) : MInstU (TryV α)
  | dual {α : Type} (i : MInstU α) : MInstU (Dual α)
  | hcons {α τ : Type} (h : MInstU α) (t : MInstU τ) : MInstU (α × τ)
  | tuple1 {α : Type} (i : MInstU α) : MInstU (T1 α)
  | tupleN {α τ : Type} (i : MInstU α) (rest : MInstU τ) : MInstU (α × τ)

def MInstU.denote : {α : Type} → MInstU α → MonoidD α
  | _, .lawful i => i.denote
  | _, @MInstU.mergeGoMap _ _ inst => @MonoidD.mergeGoMap _ _ inst
  | _, @MInstU.mergeMap _ _ inst => @MonoidD.mergeMap _ _ inst
  | _, @MInstU.mergeSet _ inst => @MonoidD.mergeSet _ inst
  | _, .option i => MonoidD.option i.denote
  | _, .try_ i => MonoidD.try_ i.denote
  | _, .dual i => MonoidD.dual i.denote
  | _, .hcons h t => MonoidD.hcons h.denote t.denote
  | _, .tuple1 i => MonoidD.tuple1 i.denote
  | _, .tupleN i rest => MonoidD.tupleN i.denote rest.denote

/-- the equivalence the expression is lawful up to -/
def MInstU.rel : {α : Type} → MInstU α → α → α → Prop
  | _, .lawful _ => Eq
  | _, @MInstU.mergeGoMap _ _ inst => @GoMap.Ext _ _ inst
  | _, @MInstU.mergeMap _ _ inst => @GoMap.Ext _ _ inst
  | _, @MInstU.mergeSet _ inst => @GoMap.Ext _ _ inst
  | _, .option i => relOption i.rel
  | _, .try_ i => relTry i.rel
  | _, .dual i => relDual i.rel
  | _, .hcons h t => relPair h.rel t.rel
  | _, .tuple1 i => relT1 i.rel
  | _, .tupleN i rest => relPair i.rel rest.rel

end FpVerif.TC
