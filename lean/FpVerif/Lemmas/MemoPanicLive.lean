import FpVerif.Lemmas.MemoPanicInv
/-!
# Progress of the concurrent `sync.Once` cell (`Model/MemoPanic.lean`)

* `calls`: calls completed + calls in flight + calls still to start is constant per goroutine;
* `meas`: a measure that every state-changing step decreases; a step that does not change the state is a blocked
  `Lock()` or an exhausted goroutine;
* while the system is not quiescent some goroutine can move (the mutex holder is never blocked);
* hence every schedule made of enough blocks, each of which lets every goroutine try once, ends quiescent.
-/
namespace FpVerif.MemoPanic
open FpVerif

variable {T : Type}

-- ---------------------------------------------------------------------------------- accounting

/-- calls of this goroutine: completed + in flight + still to start -/
def calls (t : Thread T) : Nat := t.results.length + t.todo + wBusy t

theorem map_set_same {α β : Type} (f : α → β) (l : List α) (i : Nat) (a b : α) (h : l[i]? = some a)
    (hf : f b = f a) : (l.set i b).map f = l.map f := by
  induction l generalizing i with
  | nil => rfl
  | cons x xs ih =>
    cases i with
    | zero => simp at h; subst h; simp [hf]
    | succ j => simp at h; simp [ih j h]

theorem calls_step (out : Nat → Out T) (s : Sys T) (i : Nat) :
    (step out s i).threads.map calls = s.threads.map calls := by
  unfold step
  cases hti : s.threads[i]? with
  | none => rfl
  | some t =>
    obtain ⟨todo, pc, results⟩ := t
    cases pc with
    | idle =>
      cases todo with
      | zero => rfl
      | succ k =>
        simp only
        split
        · exact map_set_same _ _ _ _ _ hti (by simp [calls, wBusy]; omega)
        · exact map_set_same _ _ _ _ _ hti (by simp [calls, wBusy]; omega)
    | locking =>
      simp only
      split
      · rfl
      · exact map_set_same _ _ _ _ _ hti (by simp [calls, wBusy])
    | locked =>
      simp only
      split
      · exact map_set_same _ _ _ _ _ hti (by simp [calls, wBusy]; omega)
      · exact map_set_same _ _ _ _ _ hti (by simp [calls, wBusy])
    | running k =>
      simp only
      split
      · exact map_set_same _ _ _ _ _ hti (by simp [calls, wBusy])
      · exact map_set_same _ _ _ _ _ hti (by simp [calls, wBusy])
    | stored o => exact map_set_same _ _ _ _ _ hti (by simp [calls, wBusy])
    | unlocking o => exact map_set_same _ _ _ _ _ hti (by simp [calls, wBusy]; omega)

theorem calls_runSched (out : Nat → Out T) (s : Sys T) (sched : List Nat) :
    (runSched out s sched).threads.map calls = s.threads.map calls := by
  induction sched generalizing s with
  | nil => rfl
  | cons i is ih => simp only [runSched, List.foldl] at ih ⊢; rw [ih, calls_step]

theorem calls_init (zero : T) (progs : List Nat) : (init zero progs).threads.map calls = progs := by
  simp only [init, List.map_map]
  induction progs with
  | nil => rfl
  | cons n ns ih => simp [calls, wBusy] at ih ⊢; exact ih

theorem length_step (out : Nat → Out T) (s : Sys T) (i : Nat) :
    (step out s i).threads.length = s.threads.length := by
  have := congrArg List.length (calls_step out s i)
  simpa using this

theorem length_runSched (out : Nat → Out T) (s : Sys T) (sched : List Nat) :
    (runSched out s sched).threads.length = s.threads.length := by
  have := congrArg List.length (calls_runSched out s sched)
  simpa using this

-- ---------------------------------------------------------------------------------- the measure

def pcW : PC T → Nat
  | .idle => 0
  | .locking => 5
  | .locked => 4
  | .running _ => 3
  | .stored _ => 2
  | .unlocking _ => 1

/-- atomic steps this goroutine still has to take, at most -/
def meas (t : Thread T) : Nat := 6 * t.todo + pcW t.pc

def Sys.measure (s : Sys T) : Nat := sumW meas s.threads

theorem step_eq_or_lt (out : Nat → Out T) (s : Sys T) (i : Nat) :
    step out s i = s ∨ (step out s i).measure < s.measure := by
  unfold step
  cases hti : s.threads[i]? with
  | none => exact .inl rfl
  | some t =>
    have hS := fun (t' : Thread T) => sumW_set meas s.threads i t' t hti
    obtain ⟨todo, pc, results⟩ := t
    cases pc with
    | idle =>
      cases todo with
      | zero => exact .inl rfl
      | succ k =>
        right
        simp only
        split
        · have := hS ⟨k, .idle, results ++ [.returned s.ret]⟩
          simp [meas, pcW] at this; simp only [Sys.measure]; omega
        · have := hS ⟨k, .locking, results⟩
          simp [meas, pcW] at this; simp only [Sys.measure]; omega
    | locking =>
      simp only
      split
      · exact .inl rfl
      · right
        have := hS ⟨todo, .locked, results⟩
        simp [meas, pcW] at this; simp only [Sys.measure]; omega
    | locked =>
      right
      simp only
      split
      · have := hS ⟨todo, .idle, results ++ [.returned s.ret]⟩
        simp [meas, pcW] at this; simp only [Sys.measure]; omega
      · have := hS ⟨todo, .running s.runs, results⟩
        simp [meas, pcW] at this; simp only [Sys.measure]; omega
    | running k =>
      right
      simp only
      split
      · rename_i v _
        have := hS ⟨todo, .stored (.value v), results⟩
        simp [meas, pcW] at this; simp only [Sys.measure]; omega
      · rename_i p _
        have := hS ⟨todo, .stored (.panic p), results⟩
        simp [meas, pcW] at this; simp only [Sys.measure]; omega
    | stored o =>
      right
      have := hS ⟨todo, .unlocking o, results⟩
      simp [meas, pcW] at this; simp only [Sys.measure]; omega
    | unlocking o =>
      right
      simp only
      cases o with
      | value v =>
        have := hS ⟨todo, .idle, results ++ [.returned s.ret]⟩
        simp [meas, pcW] at this; simp only [Sys.measure]; omega
      | panic p =>
        have := hS ⟨todo, .idle, results ++ [.panicked p]⟩
        simp [meas, pcW] at this; simp only [Sys.measure]; omega

theorem measure_step_le (out : Nat → Out T) (s : Sys T) (i : Nat) : (step out s i).measure ≤ s.measure := by
  rcases step_eq_or_lt out s i with h | h
  · rw [h]; exact Nat.le_refl _
  · omega

theorem measure_runSched_le (out : Nat → Out T) (s : Sys T) (sched : List Nat) :
    (runSched out s sched).measure ≤ s.measure := by
  induction sched generalizing s with
  | nil => exact Nat.le_refl _
  | cons i is ih =>
    simp only [runSched, List.foldl] at ih ⊢
    exact Nat.le_trans (ih _) (measure_step_le out s i)

/-- a goroutine that is not finished and not blocked on the mutex moves -/
theorem step_ne_of_enabled (out : Nat → Out T) (s : Sys T) (i : Nat) (t : Thread T)
    (hti : s.threads[i]? = some t) (hq : t.quiet = false) (hl : t.pc = .locking → s.mutex = false) :
    (step out s i).measure < s.measure := by
  have hS := fun (t' : Thread T) => sumW_set meas s.threads i t' t hti
  unfold step
  rw [hti]
  obtain ⟨todo, pc, results⟩ := t
  cases pc with
  | idle =>
    cases todo with
    | zero => simp [Thread.quiet] at hq
    | succ k =>
      simp only
      split
      · have := hS ⟨k, .idle, results ++ [.returned s.ret]⟩
        simp [meas, pcW] at this; simp only [Sys.measure]; omega
      · have := hS ⟨k, .locking, results⟩
        simp [meas, pcW] at this; simp only [Sys.measure]; omega
  | locking =>
    simp only
    have hm : s.mutex = false := hl rfl
    simp only [hm, Bool.false_eq_true, if_false]
    have := hS ⟨todo, .locked, results⟩
    simp [meas, pcW] at this; simp only [Sys.measure]; omega
  | locked =>
    simp only
    split
    · have := hS ⟨todo, .idle, results ++ [.returned s.ret]⟩
      simp [meas, pcW] at this; simp only [Sys.measure]; omega
    · have := hS ⟨todo, .running s.runs, results⟩
      simp [meas, pcW] at this; simp only [Sys.measure]; omega
  | running k =>
    simp only
    split
    · rename_i v _
      have := hS ⟨todo, .stored (.value v), results⟩
      simp [meas, pcW] at this; simp only [Sys.measure]; omega
    · rename_i p _
      have := hS ⟨todo, .stored (.panic p), results⟩
      simp [meas, pcW] at this; simp only [Sys.measure]; omega
  | stored o =>
    have := hS ⟨todo, .unlocking o, results⟩
    simp [meas, pcW] at this; simp only [Sys.measure]; omega
  | unlocking o =>
    simp only
    cases o with
    | value v =>
      have := hS ⟨todo, .idle, results ++ [.returned s.ret]⟩
      simp [meas, pcW] at this; simp only [Sys.measure]; omega
    | panic p =>
      have := hS ⟨todo, .idle, results ++ [.panicked p]⟩
      simp [meas, pcW] at this; simp only [Sys.measure]; omega

theorem exists_pos_of_sumW_pos (w : Thread T → Nat) (ts : List (Thread T)) (h : 0 < sumW w ts) :
    ∃ (i : Nat) (t : Thread T), ts[i]? = some t ∧ 0 < w t := by
  induction ts with
  | nil => simp at h
  | cons x xs ih =>
    simp at h
    by_cases hx : 0 < w x
    · exact ⟨0, x, by simp, hx⟩
    · obtain ⟨i, t, hi, ht⟩ := ih (by omega)
      exact ⟨i + 1, t, by simpa using hi, ht⟩

/-- while something is left to do, some goroutine can take a step: the holder of the mutex if it is held,
    anybody who is not finished otherwise -/
theorem exists_enabled {zero : T} {out : Nat → Out T} {s : Sys T} (h : Inv zero out s)
    (hq : s.quiescent = false) : ∃ i, i < s.threads.length ∧ (step out s i).measure < s.measure := by
  cases hm : s.mutex with
  | true =>
    have hh := h.hold
    rw [hm] at hh
    obtain ⟨i, t, hi, ht⟩ := exists_pos_of_sumW_pos wHold s.threads (by simp at hh; omega)
    refine ⟨i, ?_, step_ne_of_enabled out s i t hi ?_ ?_⟩
    · exact (List.getElem?_eq_some_iff.mp hi).1
    · unfold wHold at ht
      unfold Thread.quiet
      cases hp : t.pc <;> simp [hp] at ht ⊢
    · intro hp
      simp [wHold, hp] at ht
  | false =>
    simp only [Sys.quiescent, List.all_eq_false] at hq
    obtain ⟨t, htm, htq⟩ := hq
    obtain ⟨i, hi⟩ := List.getElem?_of_mem htm
    exact ⟨i, (List.getElem?_eq_some_iff.mp hi).1,
      step_ne_of_enabled out s i t hi (by simpa using htq) (fun _ => hm)⟩

theorem step_of_quiescent (out : Nat → Out T) (s : Sys T) (hq : s.quiescent = true) (i : Nat) :
    step out s i = s := by
  unfold step
  cases hti : s.threads[i]? with
  | none => rfl
  | some t =>
    have htm := mem_of_getElem? hti
    simp only [Sys.quiescent, List.all_eq_true] at hq
    have := hq t htm
    obtain ⟨todo, pc, results⟩ := t
    cases pc <;> cases todo <;> simp [Thread.quiet] at this ⊢

theorem runSched_of_quiescent (out : Nat → Out T) (s : Sys T) (hq : s.quiescent = true) (sched : List Nat) :
    runSched out s sched = s := by
  induction sched with
  | nil => rfl
  | cons i is ih => simp only [runSched, List.foldl] at ih ⊢; rw [step_of_quiescent out s hq i]; exact ih

-- ---------------------------------------------------------------------------------- fair schedules

/-- the block lets every one of the `n` goroutines try at least once -/
def Covers (n : Nat) (blk : List Nat) : Prop := ∀ i, i < n → i ∈ blk

theorem stutter_or_lt (out : Nat → Out T) (s : Sys T) (blk : List Nat) :
    (∀ j ∈ blk, step out s j = s) ∨ (runSched out s blk).measure < s.measure := by
  induction blk generalizing s with
  | nil => left; intro j hj; simp at hj
  | cons j js ih =>
    rcases step_eq_or_lt out s j with h | h
    · rcases ih s with h2 | h2
      · left
        intro j' hj'
        rcases List.mem_cons.mp hj' with rfl | hm
        · exact h
        · exact h2 j' hm
      · right
        simp only [runSched, List.foldl] at h2 ⊢
        rw [h]; exact h2
    · right
      have := measure_runSched_le out (step out s j) js
      simp only [runSched, List.foldl] at this ⊢
      omega

theorem inv_runSched {zero : T} {out : Nat → Out T} {s : Sys T} (h : Inv zero out s) (sched : List Nat) :
    Inv zero out (runSched out s sched) := by
  induction sched generalizing s with
  | nil => exact h
  | cons i is ih => exact ih (inv_step h i)

theorem block_decreases {zero : T} {out : Nat → Out T} {s : Sys T} (h : Inv zero out s)
    (blk : List Nat) (hc : Covers s.threads.length blk) (hq : s.quiescent = false) :
    (runSched out s blk).measure < s.measure := by
  rcases stutter_or_lt out s blk with h1 | h1
  · obtain ⟨i, hi, hlt⟩ := exists_enabled h hq
    have := h1 i (hc i hi)
    rw [this] at hlt
    omega
  · exact h1

theorem runSched_append (out : Nat → Out T) (s : Sys T) (a b : List Nat) :
    runSched out s (a ++ b) = runSched out (runSched out s a) b := by
  simp [runSched, List.foldl_append]

theorem fair_quiescent {zero : T} {out : Nat → Out T} (blocks : List (List Nat)) :
    ∀ (s : Sys T), Inv zero out s → (∀ b ∈ blocks, Covers s.threads.length b) → s.measure ≤ blocks.length →
      (runSched out s blocks.flatten).quiescent = true := by
  induction blocks with
  | nil =>
    intro s h _ hm
    simp only [List.flatten_nil, runSched, List.foldl]
    cases hq : s.quiescent with
    | true => rfl
    | false =>
      obtain ⟨i, _, hlt⟩ := exists_enabled (out := out) h hq
      simp at hm; omega
  | cons b bs ih =>
    intro s h hc hm
    simp only [List.flatten_cons, runSched_append]
    cases hq : s.quiescent with
    | true =>
      rw [runSched_of_quiescent out s hq b, runSched_of_quiescent out s hq]
      exact hq
    | false =>
      have hlt := block_decreases h b (hc b (by simp)) hq
      refine ih _ (inv_runSched h b) ?_ ?_
      · intro b' hb'
        rw [length_runSched]
        exact hc b' (by simp [hb'])
      · simp at hm; omega

theorem roundRobin_eq (n r : Nat) : roundRobin n r = (List.replicate r (List.range n)).flatten := by
  induction r with
  | zero => rfl
  | succ r ih => simp [roundRobin, List.replicate_succ, ih]

theorem measure_init (zero : T) (progs : List Nat) : (init zero progs).measure = 6 * progs.sum := by
  simp only [Sys.measure, init]
  induction progs with
  | nil => rfl
  | cons n ns ih => simp [meas, pcW] at ih ⊢; omega

end FpVerif.MemoPanic
