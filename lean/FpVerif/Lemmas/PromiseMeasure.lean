import FpVerif.Lemmas.PromiseInvA
/-!
Termination of the CAS retry loops: `Promise.measure` strictly decreases with every executed
atomic block (both variants).  A failing CAS is paid for by the successful CAS of another thread
that made the captured identity stale.
-/
namespace FpVerif.Promise
open FpVerif FpVerif.Sched

variable {R : Type}

@[simp] theorem Cell.len_cbs (sl : Slice) : (Cell.cbs sl : Cell R).len = sl.len := rfl
@[simp] theorem Cell.len_done (r : R) : (Cell.done r : Cell R).len = 0 := rfl
@[simp] theorem Cell.len_nil : (Cell.nil : Cell R).len = 0 := rfl

theorem stale_le (v a : Nat) : stale v a ≤ 3 := by unfold stale; split <;> omega
theorem stale_self (v : Nat) : stale v v = 0 := by simp [stale]
theorem stale_ne {v a : Nat} (h : a ≠ v) : stale v a = 3 := by simp [stale, h]

theorem phi_mono {k k' n n' ver : Nat} (hk : k' ≤ k) (hn : n' ≤ n) (x : Local R) :
    phi k' n' ver x ≤ phi k n ver x := by
  cases x <;> simp only [phi] <;> omega

theorem phi_bump {k k' n n' ver : Nat} (hk : k' + 1 ≤ k) (hn : n' ≤ n) (x : Local R) :
    phi k' n' (ver + 1) x ≤ phi k n ver x := by
  cases x <;> simp only [phi] <;> (try omega)
  all_goals
    rename_i ap _
    have := stale_le (ver + 1) ap
    omega

theorem kBound_set {s : PSys R} {sh' : Shared R} {t : Nat} {l l' : Local R}
    (hl : s.threads[t]? = some l) :
    kBound (⟨sh', s.threads.set t l'⟩ : PSys R) + (if l.canCas then 1 else 0) =
      kBound s + (if l'.canCas then 1 else 0) :=
  sumBy_set _ hl

theorem pendingRegs_set {ts : List (Local R)} {t : Nat} {l l' : Local R} (hl : ts[t]? = some l) :
    pendingRegs (ts.set t l') + (if l.isPendingReg then 1 else 0) =
      pendingRegs ts + (if l'.isPendingReg then 1 else 0) :=
  sumBy_set _ hl

theorem capt_len_captOf (c : Cell R) : (captOf c).len = c.len := by
  cases c <;> rfl

theorem phi_enterRun_le (k n ver : Nat) (h : Heap) (r : R) (s : Slice) (i : Nat) :
    phi k n ver (enterRun h r s i) ≤ s.len - i + 1 := by
  unfold enterRun
  split
  · split <;> simp [phi]
  · simp [phi]

theorem phi_afterWin_le (k n ver : Nat) (h : Heap) (r : R) (c : Capt) :
    phi k n ver (afterWin h r c) ≤ c.len + 1 := by
  cases c with
  | nil => simp [afterWin, phi]
  | cbs s => simpa [afterWin, Capt.len] using phi_enterRun_le k n ver h r s 0

theorem phi_enterRun_succ_lt (k n ver : Nat) (h : Heap) (r : R) (s : Slice) (i : Nat) :
    phi k n ver (enterRun h r s (i + 1)) < s.len - i + 1 := by
  unfold enterRun
  split
  · split <;> simp [phi] <;> omega
  · simp [phi]

theorem enterRun_canCas (h : Heap) (r : R) (s : Slice) (i : Nat) : (enterRun h r s i).canCas = false := by
  unfold enterRun
  split
  · split <;> rfl
  · rfl

theorem enterRun_pending (h : Heap) (r : R) (s : Slice) (i : Nat) :
    (enterRun h r s i).isPendingReg = false := by
  unfold enterRun
  split
  · split <;> rfl
  · rfl

theorem afterWin_canCas (h : Heap) (r : R) (c : Capt) : (afterWin h r c).canCas = false := by
  cases c with
  | nil => rfl
  | cbs s => exact enterRun_canCas h r s 0

theorem afterWin_pending (h : Heap) (r : R) (c : Capt) : (afterWin h r c).isPendingReg = false := by
  cases c with
  | nil => rfl
  | cbs s => exact enterRun_pending h r s 0

/-- the step keeps the version -/
theorem measure_lt_same {ts : List (Local R)} {t : Nat} {l l' : Local R} {k k' n n' ver : Nat}
    (hl : ts[t]? = some l) (hk : k' ≤ k) (hn : n' ≤ n)
    (hmoved : phi k' n' ver l' < phi k n ver l) :
    sumBy (phi k' n' ver) (ts.set t l') < sumBy (phi k n ver) ts :=
  sumBy_set_lt hl (fun x _ => phi_mono hk hn x) hmoved

/-- the step is a successful CAS -/
theorem measure_lt_bump {ts : List (Local R)} {t : Nat} {l l' : Local R} {k k' n n' ver : Nat}
    (hl : ts[t]? = some l) (hk : k' + 1 ≤ k) (hn : n' ≤ n)
    (hmoved : phi k' n' (ver + 1) l' < phi k n ver l) :
    sumBy (phi k' n' (ver + 1)) (ts.set t l') < sumBy (phi k n ver) ts :=
  sumBy_set_lt hl (fun x _ => phi_bump hk hn x) hmoved

/-- Every executed atomic block strictly decreases the measure. -/
theorem measure_step (v : Variant) (s : PSys R) (t : Tid) (s' : PSys R)
    (hinv : InvA s) (hstep : step (stepT v) s t = some s') : measure s' < measure s := by
  obtain ⟨l, sh', l', hl, htr, rfl⟩ := step_trans hstep
  have hTl := hinv.threads l (List.mem_of_getElem? hl)
  have hkb := kBound_set (sh' := sh') (l' := l') hl
  have hpr := pendingRegs_set (l' := l') hl
  unfold measure
  simp only [nBound] at *
  cases htr with
  | @cGetPend r hnd =>
    simp [Local.canCas, Local.isPendingReg] at hkb hpr
    apply measure_lt_same hl (by omega) (by omega)
    have := capt_len_captOf s.shared.cell
    simp only [phi, stale_self]
    omega
  | cGetDone hc =>
    simp [Local.canCas, Local.isPendingReg] at hkb hpr
    apply measure_lt_same hl (by omega) (by omega)
    simp only [phi]; omega
  | @cCasOk r ap c hap =>
    simp only [afterWin_canCas, afterWin_pending] at hkb hpr
    simp [Local.canCas, Local.isPendingReg] at hkb hpr
    simp only [bump_cell, bump_ver, Cell.len_cbs, Cell.len_done]
    apply measure_lt_bump hl (by omega) (by omega)
    refine Nat.lt_of_le_of_lt (phi_afterWin_le _ _ _ _ r c) ?_
    simp only [phi]
    omega
  | @cCasFail r ap c hap =>
    simp [Local.canCas, Local.isPendingReg] at hkb hpr
    apply measure_lt_same hl (by omega) (by omega)
    simp only [phi, stale_ne hap]; omega
  | @cRun r sl i cb =>
    simp only [enterRun_canCas, enterRun_pending] at hkb hpr
    simp [Local.canCas, Local.isPendingReg] at hkb hpr
    simp only [pushLog_cell, pushLog_ver]
    apply measure_lt_same hl (by omega) (by omega)
    refine Nat.lt_of_lt_of_le (phi_enterRun_succ_lt _ _ _ _ r sl i) ?_
    simp only [phi]; omega
  | @rGetNil cb hc =>
    simp [Local.canCas, Local.isPendingReg] at hkb hpr
    simp only [setHeap_cell, setHeap_ver]
    apply measure_lt_same hl (by omega) (by omega)
    simp only [phi, stale_self]; omega
  | rGetCbs hc =>
    simp [Local.canCas, Local.isPendingReg] at hkb hpr
    apply measure_lt_same hl (by omega) (by omega)
    simp only [phi, stale_self]; omega
  | rGetDone hc =>
    simp [Local.canCas, Local.isPendingReg] at hkb hpr
    apply measure_lt_same hl (by omega) (by omega)
    simp only [phi]; omega
  | @rAppend cb ap sl =>
    simp [Local.canCas, Local.isPendingReg] at hkb hpr
    simp only [setHeap_cell, setHeap_ver]
    apply measure_lt_same hl (by omega) (by omega)
    simp only [phi]; omega
  | @rCasOk cb ap new hap =>
    simp [Local.canCas, Local.isPendingReg] at hkb hpr
    obtain ⟨_, hfresh⟩ := hTl
    obtain ⟨_, hlen⟩ := hfresh hap
    simp only [bump_cell, bump_ver, Cell.len_cbs, Cell.len_done]
    apply measure_lt_bump hl (by omega) (by omega)
    simp only [phi]; omega
  | @rCasFail cb ap new hap =>
    simp [Local.canCas, Local.isPendingReg] at hkb hpr
    apply measure_lt_same hl (by omega) (by omega)
    simp only [phi, stale_ne hap]; omega
  | rCall =>
    simp [Local.canCas, Local.isPendingReg] at hkb hpr
    simp only [pushLog_cell, pushLog_ver]
    apply measure_lt_same hl (by omega) (by omega)
    simp only [phi]; omega
  | oLoad1Done hd =>
    simp [Local.canCas, Local.isPendingReg] at hkb hpr
    apply measure_lt_same hl (by omega) (by omega)
    simp only [phi]; omega
  | oLoad1Pend hd =>
    simp [Local.canCas, Local.isPendingReg] at hkb hpr
    apply measure_lt_same hl (by omega) (by omega)
    simp only [phi]; omega
  | oLoad2Done hc =>
    simp [Local.canCas, Local.isPendingReg] at hkb hpr
    apply measure_lt_same hl (by omega) (by omega)
    simp only [phi]; omega
  | oLoad2Pend hd =>
    simp [Local.canCas, Local.isPendingReg] at hkb hpr
    apply measure_lt_same hl (by omega) (by omega)
    simp only [phi]; omega

end FpVerif.Promise
