import FpVerif.Model.CloneHeap
/-! Helper lemmas for C18: monotonicity under heap extension, locality of `view`. -/
namespace FpVerif.CloneHeap

theorem get_append {h : Heap} {a : Nat} {c : Cell} (ext : Heap) (hc : h[a]? = some c) : (h ++ ext)[a]? = some c := by
  have hlt : a < h.length := by
    rcases List.getElem?_eq_some_iff.mp hc with ⟨hl, _⟩
    exact hl
  rw [List.getElem?_append_left hlt]
  exact hc

theorem get_new (h : Heap) (c : Cell) : (h ++ [c])[h.length]? = some c := by simp

theorem get_lt {h : Heap} {a : Nat} {c : Cell} (hc : h[a]? = some c) : a < h.length := by
  rcases List.getElem?_eq_some_iff.mp hc with ⟨hl, _⟩
  exact hl

theorem wt_mono (ext : Heap) : ∀ {t : Ty} {h : Heap} {v : Val}, WT t h v → WT t (h ++ ext) v := by
  intro t
  induction t with
  | int => intro h v hw; cases v <;> simp_all [WT]
  | unit => intro h v hw; cases v <;> simp_all [WT]
  | ptr t ih =>
    intro h v hw
    cases v <;> simp_all [WT]
    obtain ⟨w, hc, hw'⟩ := hw
    exact ⟨w, get_append ext hc, ih hw'⟩
  | slice t ih =>
    intro h v hw
    cases v <;> simp_all [WT]
    obtain ⟨vs, hc, hl, hall⟩ := hw
    exact ⟨vs, get_append ext hc, hl, fun v hv => ih (hall v hv)⟩
  | map k v ihk ihv =>
    intro h x hw
    cases x <;> simp_all [WT]
    obtain ⟨kvs, hc, hall⟩ := hw
    exact ⟨kvs, get_append ext hc, fun a b hm => ⟨ihk (hall a b hm).1, ihv (hall a b hm).2⟩⟩
  | option t ih =>
    intro h v hw
    cases v <;> simp_all [WT]
  | pair a b iha ihb =>
    intro h v hw
    cases v <;> simp_all [WT]

theorem view_mono (ext : Heap) : ∀ {t : Ty} {h : Heap} {v : Val}, WT t h v → view t (h ++ ext) v = view t h v := by
  intro t
  induction t with
  | int => intro h v hw; cases v <;> simp_all [WT, view]
  | unit => intro h v hw; cases v <;> simp_all [WT, view]
  | ptr t ih =>
    intro h v hw
    cases v <;> simp_all [WT, view]
    obtain ⟨w, hc, hw'⟩ := hw
    simp [get_append ext hc, hc, ih hw']
  | slice t ih =>
    intro h v hw
    cases v <;> simp_all [WT, view]
    obtain ⟨vs, hc, hl, hall⟩ := hw
    simp only [get_append ext hc, hc]
    congr 1
    rw [← List.map_take, ← List.map_take]
    exact List.map_congr_left fun v hv => ih (hall v hv)
  | map k v ihk ihv =>
    intro h x hw
    cases x <;> simp_all [WT, view]
    obtain ⟨kvs, hc, hall⟩ := hw
    simp only [get_append ext hc, hc]
    congr 1
    exact List.map_congr_left fun kv hm => by
      rw [ihk (hall kv.1 kv.2 hm).1, ihv (hall kv.1 kv.2 hm).2]
  | option t ih =>
    intro h v hw
    cases v <;> simp_all [WT, view]
  | pair a b iha ihb =>
    intro h v hw
    cases v <;> simp_all [WT, view]

theorem reach_mono (ext : Heap) : ∀ {t : Ty} {h : Heap} {v : Val}, WT t h v → reach t (h ++ ext) v = reach t h v := by
  intro t
  induction t with
  | int => intro h v hw; cases v <;> simp_all [WT, reach]
  | unit => intro h v hw; cases v <;> simp_all [WT, reach]
  | ptr t ih =>
    intro h v hw
    cases v <;> simp_all [WT, reach]
    obtain ⟨w, hc, hw'⟩ := hw
    simp [get_append ext hc, hc, ih hw']
  | slice t ih =>
    intro h v hw
    cases v <;> simp_all [WT, reach]
    obtain ⟨vs, hc, hl, hall⟩ := hw
    simp only [get_append ext hc, hc]
    congr 2
    rw [← List.map_take, ← List.map_take]
    exact List.map_congr_left fun v hv => ih (hall v hv)
  | map k v ihk ihv =>
    intro h x hw
    cases x <;> simp_all [WT, reach]
    obtain ⟨kvs, hc, hall⟩ := hw
    simp only [get_append ext hc, hc]
    congr 2
    exact List.map_congr_left fun kv hm => by
      rw [ihk (hall kv.1 kv.2 hm).1, ihv (hall kv.1 kv.2 hm).2]
  | option t ih =>
    intro h v hw
    cases v <;> simp_all [WT, reach]
  | pair a b iha ihb =>
    intro h v hw
    cases v <;> simp_all [WT, reach]

/-- every cell reachable from a well-formed value exists -/
theorem reach_lt : ∀ {t : Ty} {h : Heap} {v : Val}, WT t h v → ∀ a ∈ reach t h v, a < h.length := by
  intro t
  induction t with
  | int => intro h v hw; cases v <;> simp_all [WT, reach]
  | unit => intro h v hw; cases v <;> simp_all [WT, reach]
  | ptr t ih =>
    intro h v hw
    cases v <;> simp_all [WT, reach]
    obtain ⟨w, hc, hw'⟩ := hw
    simp only [hc, List.mem_cons, forall_eq_or_imp]
    exact ⟨get_lt hc, ih hw'⟩
  | slice t ih =>
    intro h v hw
    cases v <;> simp_all [WT, reach]
    obtain ⟨vs, hc, hl, hall⟩ := hw
    simp only [hc, List.mem_cons, forall_eq_or_imp, List.mem_flatten]
    refine ⟨get_lt hc, fun a ⟨l, hl1, hl2⟩ => ?_⟩
    rw [← List.map_take] at hl1
    obtain ⟨v, hv, rfl⟩ := List.mem_map.mp hl1
    exact ih (hall v hv) a hl2
  | map k v ihk ihv =>
    intro h x hw
    cases x <;> simp_all [WT, reach]
    obtain ⟨kvs, hc, hall⟩ := hw
    simp only [hc, List.mem_cons, forall_eq_or_imp, List.mem_flatten]
    refine ⟨get_lt hc, fun a ⟨l, hl1, hl2⟩ => ?_⟩
    obtain ⟨kv, hkv, rfl⟩ := List.mem_map.mp hl1
    rcases List.mem_append.mp hl2 with hx | hx
    · exact ihk (hall kv.1 kv.2 hkv).1 a hx
    · exact ihv (hall kv.1 kv.2 hkv).2 a hx
  | option t ih =>
    intro h v hw
    cases v <;> simp_all [WT, reach]
    exact ih hw
  | pair a b iha ihb =>
    intro h v hw
    cases v <;> simp_all [WT, reach]
    intro x hx
    rcases hx with hx | hx
    · exact iha hw.1 x hx
    · exact ihb hw.2 x hx

/-- `view`, `reach` and `WT` of a value only look at the cells reachable from it -/
theorem local_eq : ∀ {t : Ty} {h1 h2 : Heap} {v : Val}, WT t h1 v → (∀ a ∈ reach t h1 v, h2[a]? = h1[a]?) →
    view t h2 v = view t h1 v ∧ reach t h2 v = reach t h1 v ∧ WT t h2 v := by
  intro t
  induction t with
  | int => intro h1 h2 v hw _; cases v <;> simp_all [WT, view, reach]
  | unit => intro h1 h2 v hw _; cases v <;> simp_all [WT, view, reach]
  | ptr t ih =>
    intro h1 h2 v hw hag
    cases v <;> simp_all [WT, view, reach]
    obtain ⟨w, hc, hw'⟩ := hw
    simp only [hc, List.mem_cons, forall_eq_or_imp] at hag
    have := ih hw' hag.2
    simp [hag.1, hc, this]
  | slice t ih =>
    intro h1 h2 v hw hag
    cases v <;> simp_all [WT, view, reach]
    obtain ⟨vs, hc, hl, hall⟩ := hw
    simp only [hc, List.mem_cons, forall_eq_or_imp, List.mem_flatten] at hag
    rename_i arrA len
    have hel : ∀ v ∈ vs.take len, view t h2 v = view t h1 v ∧ reach t h2 v = reach t h1 v ∧ WT t h2 v := by
      intro v hv
      refine ih (hall v hv) fun a ha => hag.2 a ⟨reach t h1 v, ?_, ha⟩
      rw [← List.map_take]
      exact List.mem_map_of_mem hv
    simp only [hag.1, hc]
    refine ⟨?_, ?_, ⟨vs, rfl, hl, fun v hv => (hel v hv).2.2⟩⟩
    · congr 1
      rw [← List.map_take, ← List.map_take]
      exact List.map_congr_left fun v hv => (hel v hv).1
    · congr 2
      rw [← List.map_take, ← List.map_take]
      exact List.map_congr_left fun v hv => (hel v hv).2.1
  | map k v ihk ihv =>
    intro h1 h2 x hw hag
    cases x <;> simp_all [WT, view, reach]
    obtain ⟨kvs, hc, hall⟩ := hw
    simp only [hc, List.mem_cons, forall_eq_or_imp, List.mem_flatten] at hag
    have hel : ∀ kv ∈ kvs, (view k h2 kv.1 = view k h1 kv.1 ∧ reach k h2 kv.1 = reach k h1 kv.1 ∧ WT k h2 kv.1) ∧
        (view v h2 kv.2 = view v h1 kv.2 ∧ reach v h2 kv.2 = reach v h1 kv.2 ∧ WT v h2 kv.2) := by
      intro kv hkv
      constructor
      · refine ihk (hall kv.1 kv.2 hkv).1 fun a ha => hag.2 a ⟨_, List.mem_map_of_mem hkv, ?_⟩
        exact List.mem_append_left _ ha
      · refine ihv (hall kv.1 kv.2 hkv).2 fun a ha => hag.2 a ⟨_, List.mem_map_of_mem hkv, ?_⟩
        exact List.mem_append_right _ ha
    simp only [hag.1, hc]
    refine ⟨?_, ?_, ⟨kvs, rfl, fun a b hm => ⟨(hel (a, b) hm).1.2.2, (hel (a, b) hm).2.2.2⟩⟩⟩
    · congr 1
      exact List.map_congr_left fun kv hm => by rw [(hel kv hm).1.1, (hel kv hm).2.1]
    · congr 2
      exact List.map_congr_left fun kv hm => by rw [(hel kv hm).1.2.1, (hel kv hm).2.2.1]
  | option t ih =>
    intro h1 h2 v hw hag
    cases v <;> simp_all [WT, view, reach]
    exact ih hw hag
  | pair a b iha ihb =>
    intro h1 h2 v hw hag
    cases v <;> simp_all [WT, view, reach]
    have x := iha hw.1 fun a ha => hag a (Or.inl ha)
    have y := ihb hw.2 fun a ha => hag a (Or.inr ha)
    simp [x, y]

/-- what `Clone` must achieve for one value: the heap only grows, the result is a well-formed value
    that reads like the original and reaches fresh cells only -/
structure StepOK (t : Ty) (f : Val → Heap → Val × Heap) (v : Val) (h : Heap) : Prop where
  ext : ∃ e, (f v h).2 = h ++ e
  wt : WT t (f v h).2 (f v h).1
  view : view t (f v h).2 (f v h).1 = view t h v
  fresh : ∀ a ∈ reach t (f v h).2 (f v h).1, h.length ≤ a

theorem cloneList_ok (t : Ty) (f : Val → Heap → Val × Heap)
    (hf : ∀ v h, WT t h v → StepOK t f v h) :
    ∀ (vs : List Val) (h : Heap), (∀ v ∈ vs, WT t h v) →
      (∃ e, (cloneList f vs h).2 = h ++ e) ∧
      (cloneList f vs h).1.length = vs.length ∧
      (∀ v' ∈ (cloneList f vs h).1, WT t (cloneList f vs h).2 v') ∧
      (cloneList f vs h).1.map (view t (cloneList f vs h).2) = vs.map (view t h) ∧
      (∀ v' ∈ (cloneList f vs h).1, ∀ a ∈ reach t (cloneList f vs h).2 v', h.length ≤ a) := by
  intro vs
  induction vs with
  | nil => intro h _; exact ⟨⟨[], by simp [cloneList]⟩, rfl, by simp [cloneList], rfl, by simp [cloneList]⟩
  | cons v vs ih =>
    intro h hall
    have s1 := hf v h (hall v (List.mem_cons_self))
    obtain ⟨e1, he1⟩ := s1.ext
    have hall1 : ∀ w ∈ vs, WT t (f v h).2 w := fun w hw => by
      rw [he1]; exact wt_mono e1 (hall w (List.mem_cons_of_mem _ hw))
    obtain ⟨⟨e2, he2⟩, hlen, hwt, hrd, hfr⟩ := ih (f v h).2 hall1
    simp only [cloneList]
    refine ⟨⟨e1 ++ e2, by rw [he2, he1, List.append_assoc]⟩, by simp [hlen], ?_, ?_, ?_⟩
    · intro v' hv'
      rcases List.mem_cons.mp hv' with rfl | hv'
      · rw [he2]; exact wt_mono e2 s1.wt
      · exact hwt v' hv'
    · simp only [List.map_cons]
      congr 1
      · rw [he2, view_mono e2 s1.wt]; exact s1.view
      · rw [hrd]
        exact List.map_congr_left fun w hw => by
          rw [he1]; exact view_mono e1 (hall w (List.mem_cons_of_mem _ hw))
    · intro v' hv' a ha
      rcases List.mem_cons.mp hv' with rfl | hv'
      · rw [he2, reach_mono e2 s1.wt] at ha
        exact s1.fresh a ha
      · have := hfr v' hv' a ha
        rw [he1] at this
        simp only [List.length_append] at this
        omega

theorem cloneEntries_ok (tk tv : Ty) (fk fv : Val → Heap → Val × Heap)
    (hfk : ∀ v h, WT tk h v → StepOK tk fk v h) (hfv : ∀ v h, WT tv h v → StepOK tv fv v h) :
    ∀ (kvs : List (Val × Val)) (h : Heap), (∀ kv ∈ kvs, WT tk h kv.1 ∧ WT tv h kv.2) →
      (∃ e, (cloneEntries fk fv kvs h).2 = h ++ e) ∧
      (∀ kv ∈ (cloneEntries fk fv kvs h).1,
        WT tk (cloneEntries fk fv kvs h).2 kv.1 ∧ WT tv (cloneEntries fk fv kvs h).2 kv.2) ∧
      (cloneEntries fk fv kvs h).1.map (fun kv => (view tk (cloneEntries fk fv kvs h).2 kv.1,
          view tv (cloneEntries fk fv kvs h).2 kv.2)) = kvs.map (fun kv => (view tk h kv.1, view tv h kv.2)) ∧
      (∀ kv ∈ (cloneEntries fk fv kvs h).1,
        ∀ a ∈ reach tk (cloneEntries fk fv kvs h).2 kv.1 ++ reach tv (cloneEntries fk fv kvs h).2 kv.2, h.length ≤ a) := by
  intro kvs
  induction kvs with
  | nil => intro h _; exact ⟨⟨[], by simp [cloneEntries]⟩, by simp [cloneEntries], rfl, by simp [cloneEntries]⟩
  | cons kv kvs ih =>
    intro h hall
    have hkv := hall kv List.mem_cons_self
    have sk := hfk kv.1 h hkv.1
    obtain ⟨e1, he1⟩ := sk.ext
    have sv := hfv kv.2 (fk kv.1 h).2 (by rw [he1]; exact wt_mono e1 hkv.2)
    obtain ⟨e2, he2⟩ := sv.ext
    have hall2 : ∀ x ∈ kvs, WT tk (fv kv.2 (fk kv.1 h).2).2 x.1 ∧ WT tv (fv kv.2 (fk kv.1 h).2).2 x.2 := fun x hx => by
      have := hall x (List.mem_cons_of_mem _ hx)
      rw [he2, he1]
      exact ⟨wt_mono e2 (wt_mono e1 this.1), wt_mono e2 (wt_mono e1 this.2)⟩
    obtain ⟨⟨e3, he3⟩, hwt, hrd, hfr⟩ := ih _ hall2
    simp only [cloneEntries]
    refine ⟨⟨e1 ++ e2 ++ e3, by rw [he3, he2, he1]; simp⟩, ?_, ?_, ?_⟩
    · intro x hx
      rcases List.mem_cons.mp hx with rfl | hx
      · refine ⟨?_, ?_⟩
        · rw [he3, he2]; exact wt_mono e3 (wt_mono e2 sk.wt)
        · rw [he3]; exact wt_mono e3 sv.wt
      · exact hwt x hx
    · simp only [List.map_cons]
      congr 1
      · refine Prod.ext ?_ ?_
        · show view tk _ _ = view tk h kv.1
          rw [he3, he2, view_mono e3 (wt_mono e2 sk.wt), view_mono e2 sk.wt]; exact sk.view
        · show view tv _ _ = view tv h kv.2
          rw [he3, view_mono e3 sv.wt, sv.view, he1]; exact view_mono e1 hkv.2
      · rw [hrd]
        exact List.map_congr_left fun x hx => by
          have := hall x (List.mem_cons_of_mem _ hx)
          rw [he2, he1, view_mono e2 (wt_mono e1 this.1), view_mono e1 this.1,
            view_mono e2 (wt_mono e1 this.2), view_mono e1 this.2]
    · intro x hx a ha
      rcases List.mem_cons.mp hx with rfl | hx
      · rcases List.mem_append.mp ha with ha | ha
        · rw [he3, he2, reach_mono e3 (wt_mono e2 sk.wt), reach_mono e2 sk.wt] at ha
          exact sk.fresh a ha
        · rw [he3, reach_mono e3 sv.wt] at ha
          have := sv.fresh a ha
          rw [he1] at this
          simp only [List.length_append] at this
          omega
      · have := hfr x hx a ha
        rw [he2, he1] at this
        simp only [List.length_append] at this
        omega

end FpVerif.CloneHeap
