import FpVerif.Model.Record
/-!
# Facts about `mask` (`AsMutable` / `AsImmutable` of the record model).  Core Lean only.
-/
namespace FpVerif.Rec

theorem mask_length (fs : List Field) (x : Rec) (h : x.length = fs.length) :
    (mask fs x).length = fs.length := by
  induction fs generalizing x with
  | nil => cases x <;> simp [mask]
  | cons f fs ih =>
    cases x with
    | nil => simp at h
    | cons v vs => simp [mask, ih vs (by simpa using h)]

/-- `mask` is idempotent: `AsMutable ∘ AsImmutable ∘ AsMutable = AsMutable`. -/
theorem mask_idem (fs : List Field) (x : Rec) : mask fs (mask fs x) = mask fs x := by
  induction fs generalizing x with
  | nil => cases x <;> simp [mask]
  | cons f fs ih =>
    cases x with
    | nil => simp [mask]
    | cons v vs =>
      cases h : f.applicable <;> simp [mask, h, ih]

/-- when every field is applicable (no `_` field, no embedded empty struct) `mask` is the identity
    on records of the right length -/
theorem mask_eq_self (fs : List Field) (x : Rec) (hlen : x.length = fs.length)
    (happ : ∀ f ∈ fs, f.applicable = true) : mask fs x = x := by
  induction fs generalizing x with
  | nil => cases x with
    | nil => rfl
    | cons v vs => simp at hlen
  | cons f fs ih =>
    cases x with
    | nil => simp at hlen
    | cons v vs =>
      have hf : f.applicable = true := happ f (by simp)
      have := ih vs (by simpa using hlen) (fun g hg => happ g (by simp [hg]))
      simp [mask, hf, this]

/-- an applicable field survives `mask` -/
theorem getF_mask_applicable (fs : List Field) (x : Rec) (i : Nat) (f : Field)
    (hf : fs[i]? = some f) (happ : f.applicable = true) : getF i (mask fs x) = getF i x := by
  induction fs generalizing x i with
  | nil => simp at hf
  | cons g fs ih =>
    cases x with
    | nil => simp [mask]
    | cons v vs =>
      cases i with
      | zero =>
        simp at hf
        subst hf
        simp [mask, getF, happ]
      | succ i =>
        have := ih vs i (by simpa using hf)
        simpa [mask, getF] using this

/-- a non-applicable field is replaced by the zero value of its type -/
theorem getF_mask_not_applicable (fs : List Field) (x : Rec) (i : Nat) (f : Field)
    (hf : fs[i]? = some f) (happ : f.applicable = false) (hi : i < x.length) :
    getF i (mask fs x) = f.zero := by
  induction fs generalizing x i with
  | nil => simp at hf
  | cons g fs ih =>
    cases x with
    | nil => simp at hi
    | cons v vs =>
      cases i with
      | zero =>
        simp at hf
        subst hf
        simp [mask, getF, happ]
      | succ i =>
        have := ih vs i (by simpa using hf) (by simpa using hi)
        simpa [mask, getF] using this

end FpVerif.Rec
