import FpVerif.Lemmas.ListTyHeap
/-!
# Lazy list: every operation of the model is totally correct on a well-typed heap

`TotAll fuel`: the thirteen mutually recursive functions of `Model/LazyList.lean`, run with `fuel`
on a heap that is consistent with a typing `S`, return normally (no panic, no deadlock, no fuel
exhaustion) whenever `fuel` covers the typed need, return what the typing says, and leave a heap
consistent with an extension of `S`.  Proved by induction on the fuel (`totAll`), one lemma per
function (`tot_*`: the function at `n + 1` from all functions at `n`).
-/
namespace FpVerif.LL
open FpVerif.It IM

structure TotAll (fuel : Nat) : Prop where
  isEmpty : ∀ S hp l d K, Cons S hp → VDen S l d K → K ≤ fuel → Quiet K S hp →
    Spec (LL.isEmpty fuel l) S hp (fun _ b => b = d.isEmpty)
  head : ∀ S hp l d K x, Cons S hp → VDen S l d K → d.head? = some x → K ≤ fuel → Quiet K S hp →
    Spec (LL.head fuel l) S hp (fun _ v => v = x)
  tail : ∀ S hp l d K, Cons S hp → VDen S l d K → d.isEmpty = false → K ≤ fuel → Quiet K S hp →
    Spec (LL.tail fuel l) S hp (fun S' t => VDen S' t d.tail K)
  headOpt : ∀ S hp l d K, Cons S hp → VDen S l d K → K + 1 ≤ fuel → Quiet K S hp →
    Spec (LL.headOpt fuel l) S hp (fun _ o => o = d.head?)
  forceH : ∀ S hp c, Cons S hp → c < S.nh → (S.hs c).need ≤ fuel → Quiet ((S.hs c).need + 1) S hp →
    Spec (LL.forceH fuel c) S hp (fun _ o => o = (S.hs c).o)
  forceT : ∀ S hp c d, Cons S hp → c < S.nt → (S.ts c).d = some d → (S.ts c).need ≤ fuel →
    Quiet ((S.ts c).need + 1) S hp →
    Spec (LL.forceT fuel c) S hp (fun S' v => VDen S' v d (S.ts c).K)
  forceL : ∀ S hp c, Cons S hp → c < S.nl → (S.ls c).need ≤ fuel → Quiet ((S.ls c).need + 1) S hp →
    Spec (LL.forceL fuel c) S hp (fun S' v => VDen S' v (.fin (S.ls c).xs) (S.ls c).K)
  applyK : ∀ S hp k y, Cons S hp → k.Pure → k.bnd y ≤ fuel → Quiet (k.bnd y) S hp →
    Spec (LL.applyK fuel k y) S hp (fun S' v => VDen S' v (.fin (k.den y)) (k.bnd y))
  runH : ∀ S hp t ty, Cons S hp → HThunkOK S t ty → 2 ≤ ty.need → ty.need ≤ fuel + 1 → Quiet ty.need S hp →
    Spec (LL.runH fuel t) S hp (fun _ o => o = ty.o)
  runT : ∀ S hp t d need K, Cons S hp → TThunkOK S hp.its t d need K → 2 ≤ need → need ≤ fuel + 1 →
    Quiet need S hp → (∀ it, t = .collect it → NoPendCollect hp it) →
    Spec (LL.runT fuel t) S hp (fun S' v => VDen S' v d K)
  flatMap : ∀ S hp opt k ys Ks Bi, Cons S hp → VDen S opt (.fin ys) Ks → k.Pure →
    (∀ y, y ∈ ys → k.bnd y ≤ Bi) → FMB Ks Bi ys.length ≤ fuel → Quiet (FMB Ks Bi ys.length) S hp →
    Spec (LL.flatMap fuel opt k) S hp (fun S' v => VDen S' v (.fin (fmDen k ys)) (FMB Ks Bi ys.length))
  combine : ∀ S hp l1 l2 xs ys K1 K2, Cons S hp → VDen S l1 (.fin xs) K1 → VDen S l2 (.fin ys) K2 →
    K1 + 1 ≤ fuel → Quiet K1 S hp →
    Spec (LL.combine fuel l1 l2) S hp (fun S' v => VDen S' v (.fin (xs ++ ys)) (max (K1 + 4) K2))
  eval : ∀ S hp e x, Cons S hp → e.Pure → e.bnd x ≤ fuel → Quiet (e.bnd x) S hp →
    Spec (LL.eval fuel e x) S hp (fun S' v => VDen S' v (.fin (e.denote x)) (e.bnd x))

/-! ## small facts -/

theorem DenV.head?_isNone (d : DenV) : d.head?.isNone = d.isEmpty := by
  cases d with
  | fin xs => cases xs <;> rfl
  | idx n => rfl

theorem DenV.isEmpty_of_head? {d : DenV} {x : Val} (h : d.head? = some x) : d.isEmpty = false := by
  rw [← DenV.head?_isNone, h]; rfl

theorem DenV.head?_none {d : DenV} (h : d.isEmpty = true) : d.head? = none := by
  rw [← DenV.head?_isNone] at h
  cases hh : d.head? with
  | none => rfl
  | some v => rw [hh] at h; cases h

theorem LExpr.bnd_pos (e : LExpr) (x : Val) : 1 ≤ e.bnd x := by
  cases e <;> simp only [LExpr.bnd] <;> omega

theorem FnK.bnd_pos (k : FnK) (y : Val) : 1 ≤ k.bnd y := by
  cases k <;> simp only [FnK.bnd] <;> omega

theorem cell_of_lt {C : Type} (a : Array C) (c : Nat) (h : c < a.size) : ∃ x, a[c]? = some x :=
  ⟨a[c], by simp [h]⟩

/-! ## the interface operations -/

attribute [local irreducible] LL.isEmpty LL.head LL.tail LL.headOpt LL.forceH LL.forceT LL.forceL LL.applyK LL.runH LL.runT
  LL.flatMap LL.combine LL.eval

theorem tot_isEmpty {n : Nat} (ih : TotAll n) : ∀ S hp l d K, Cons S hp → VDen S l d K → K ≤ n + 1 → Quiet K S hp →
    Spec (LL.isEmpty (n + 1) l) S hp (fun _ b => b = d.isEmpty) := by
  intro S hp l d K hC hV hK hQ
  cases l with
  | nil =>
    rw [LL.isEmpty]
    · exact Spec.pure hC _ (by rw [hV.1]; rfl)
    · exact fun h => absurd h (Nat.succ_ne_zero _)
  | cons a t =>
    obtain ⟨xs, hd, _⟩ := hV
    rw [LL.isEmpty]
    · exact Spec.pure hC _ (by rw [hd]; rfl)
    · exact fun h => absurd h (Nat.succ_ne_zero _)
  | seq xs =>
    rw [LL.isEmpty]
    · exact Spec.pure hC _ (by rw [hV.1]; rfl)
    · exact fun h => absurd h (Nat.succ_ne_zero _)
  | nilIface => exact hV.elim
  | adaptor hc tc =>
    obtain ⟨h1, h2, h3, _⟩ := hV
    rw [LL.isEmpty]
    refine Spec.bind (ih.forceH S hp hc hC h1 (by omega) (hQ.mono (by omega))) (fun o S1 hp1 hP ho => ?_)
    subst ho
    exact Spec.pure hP.cons _ (by rw [h2]; exact DenV.head?_isNone d)

theorem tot_head {n : Nat} (ih : TotAll n) : ∀ S hp l d K x, Cons S hp → VDen S l d K → d.head? = some x →
    K ≤ n + 1 → Quiet K S hp → Spec (LL.head (n + 1) l) S hp (fun _ v => v = x) := by
  intro S hp l d K x hC hV hx hK hQ
  cases l with
  | nil => rw [hV.1] at hx; cases hx
  | cons a t =>
    obtain ⟨xs, hd, _⟩ := hV
    rw [hd] at hx
    rw [LL.head]
    · exact Spec.pure hC _ (by simpa [DenV.head?] using hx)
    · exact fun h => absurd h (Nat.succ_ne_zero _)
  | seq xs =>
    rw [hV.1] at hx
    cases xs with
    | nil => cases hx
    | cons y ys =>
      rw [LL.head]
      · exact Spec.pure hC _ (by simpa [DenV.head?] using hx)
      · exact fun h => absurd h (Nat.succ_ne_zero _)
  | nilIface => exact hV.elim
  | adaptor hc tc =>
    obtain ⟨h1, h2, h3, _⟩ := hV
    rw [LL.head]
    refine Spec.bind (ih.forceH S hp hc hC h1 (by omega) (hQ.mono (by omega))) (fun o S1 hp1 hP ho => ?_)
    rw [h2, hx] at ho
    subst ho
    exact Spec.pure hP.cons _ rfl

theorem tot_tail {n : Nat} (ih : TotAll n) : ∀ S hp l d K, Cons S hp → VDen S l d K → d.isEmpty = false →
    K ≤ n + 1 → Quiet K S hp → Spec (LL.tail (n + 1) l) S hp (fun S' t => VDen S' t d.tail K) := by
  intro S hp l d K hC hV hne hK hQ
  cases l with
  | nil => rw [hV.1] at hne; cases hne
  | cons a t =>
    obtain ⟨xs, hd, ht⟩ := hV
    rw [LL.tail]
    · exact Spec.pure hC _ (by rw [hd]; exact ht)
    · exact fun h => absurd h (Nat.succ_ne_zero _)
  | seq xs =>
    obtain ⟨hd, hk⟩ := hV
    rw [hd] at hne
    cases xs with
    | nil => cases hne
    | cons y ys =>
      rw [LL.tail]
      · exact Spec.pure hC _ (by rw [hd]; exact ⟨rfl, hk⟩)
      · exact fun h => absurd h (Nat.succ_ne_zero _)
  | nilIface => exact hV.elim
  | adaptor hc tc =>
    obtain ⟨_, _, _, h4⟩ := hV
    obtain ⟨t1, t2, t3, t4⟩ := h4 hne
    rw [LL.tail]
    exact (ih.forceT S hp tc d.tail hC t1 t2 (by omega) (hQ.mono (by omega))).weaken
      (fun S' v _ hv => hv.monoK t4)

theorem tot_headOpt {n : Nat} (ih : TotAll n) : ∀ S hp l d K, Cons S hp → VDen S l d K → K + 1 ≤ n + 1 →
    Quiet K S hp → Spec (LL.headOpt (n + 1) l) S hp (fun _ o => o = d.head?) := by
  intro S hp l d K hC hV hK hQ
  rw [LL.headOpt]
  refine Spec.bind (ih.isEmpty S hp l d K hC hV (by omega) hQ) (fun b S1 hp1 hP hb => ?_)
  subst hb
  cases he : d.isEmpty with
  | true =>
    simp only [if_true]
    exact Spec.pure hP.cons _ (DenV.head?_none he).symm
  | false =>
    simp only [Bool.false_eq_true, if_false]
    obtain ⟨x, hx⟩ : ∃ x, d.head? = some x := by
      cases hh : d.head? with
      | none => rw [← DenV.head?_isNone, hh] at he; cases he
      | some x => exact ⟨x, rfl⟩
    refine Spec.bind (ih.head S1 hp1 l d K x hP.cons (hV.ext hP.ext) hx (by omega) (hQ.post hC hP))
      (fun v S2 hp2 hP2 hv => ?_)
    subst hv
    exact Spec.pure hP2.cons _ hx.symm

/-! ## forcing a memo cell -/

theorem RunSub.forcedH {hp hp2 : Heap} {c m m' : Nat} {v : Option Val}
    (h : RunSub hp2 { hp with hs := hp.hs.set! c (.running, m) }) :
    RunSub { hp2 with hs := hp2.hs.set! c (.done v, m') } hp := by
  refine ⟨fun i k hi => ?_, h.ts, h.ls⟩
  rcases set_cases hi with ⟨hne, hi⟩ | ⟨_, _, hx⟩
  · obtain ⟨k', hk'⟩ := h.hs i k hi
    rcases set_cases hk' with ⟨_, hk'⟩ | ⟨he, _, _⟩
    · exact ⟨k', hk'⟩
    · exact absurd he hne
  · cases hx

theorem RunSub.forcedT {hp hp2 : Heap} {c m m' : Nat} {v : LV}
    (h : RunSub hp2 { hp with ts := hp.ts.set! c (.running, m) }) :
    RunSub { hp2 with ts := hp2.ts.set! c (.done v, m') } hp := by
  refine ⟨h.hs, fun i k hi => ?_, h.ls⟩
  rcases set_cases hi with ⟨hne, hi⟩ | ⟨_, _, hx⟩
  · obtain ⟨k', hk'⟩ := h.ts i k hi
    rcases set_cases hk' with ⟨_, hk'⟩ | ⟨he, _, _⟩
    · exact ⟨k', hk'⟩
    · exact absurd he hne
  · cases hx

theorem RunSub.forcedL {hp hp2 : Heap} {c m m' : Nat} {v : LV}
    (h : RunSub hp2 { hp with ls := hp.ls.set! c (.running, m) }) :
    RunSub { hp2 with ls := hp2.ls.set! c (.done v, m') } hp := by
  refine ⟨h.hs, h.ts, fun i k hi => ?_⟩
  rcases set_cases hi with ⟨hne, hi⟩ | ⟨_, _, hx⟩
  · obtain ⟨k', hk'⟩ := h.ls i k hi
    rcases set_cases hk' with ⟨_, hk'⟩ | ⟨he, _, _⟩
    · exact ⟨k', hk'⟩
    · exact absurd he hne
  · cases hx

theorem DoneSub.forcedH {hp hp2 : Heap} {c m m' k : Nat} {t : HThunk} {v : Option Val}
    (hpend : hp.hs[c]? = some (.pending t, k))
    (h : DoneSub { hp with hs := hp.hs.set! c (.running, m) } hp2) :
    DoneSub hp { hp2 with hs := hp2.hs.set! c (.done v, m') } := by
  refine ⟨fun i w n hi => ?_, h.ts⟩
  have hne : i ≠ c := fun e => by subst e; rw [hpend] at hi; cases hi
  have h1 : (hp.hs.set! c (Cell.running, m))[i]? = some (.done w, n) := by rw [set_get_other _ _ _ _ hne]; exact hi
  have h2 := h.hs i w n h1
  show (hp2.hs.set! c (Cell.done v, m'))[i]? = _
  rw [set_get_other _ _ _ _ hne]; exact h2

theorem DoneSub.forcedT {hp hp2 : Heap} {c m m' k : Nat} {t : TThunk} {v : LV}
    (hpend : hp.ts[c]? = some (.pending t, k))
    (h : DoneSub { hp with ts := hp.ts.set! c (.running, m) } hp2) :
    DoneSub hp { hp2 with ts := hp2.ts.set! c (.done v, m') } := by
  refine ⟨h.hs, fun i w n hi => ?_⟩
  have hne : i ≠ c := fun e => by subst e; rw [hpend] at hi; cases hi
  have h1 : (hp.ts.set! c (Cell.running, m))[i]? = some (.done w, n) := by rw [set_get_other _ _ _ _ hne]; exact hi
  have h2 := h.ts i w n h1
  show (hp2.ts.set! c (Cell.done v, m'))[i]? = _
  rw [set_get_other _ _ _ _ hne]; exact h2

theorem Quiet.runningH {S : Sty} {hp : Heap} {c m : Nat} (h : Quiet ((S.hs c).need + 1) S hp) :
    Quiet (S.hs c).need S { hp with hs := hp.hs.set! c (.running, m) } := by
  refine ⟨fun i k hi => ?_, fun i k hi => Nat.le_trans (Nat.le_succ _) (h.ts i k hi),
    fun i k hi => Nat.le_trans (Nat.le_succ _) (h.ls i k hi)⟩
  rcases set_cases hi with ⟨_, hi⟩ | ⟨he, _, _⟩
  · exact Nat.le_trans (Nat.le_succ _) (h.hs i k hi)
  · rw [he]; exact Nat.le_refl _

theorem Quiet.runningT {S : Sty} {hp : Heap} {c m : Nat} (h : Quiet ((S.ts c).need + 1) S hp) :
    Quiet (S.ts c).need S { hp with ts := hp.ts.set! c (.running, m) } := by
  refine ⟨fun i k hi => Nat.le_trans (Nat.le_succ _) (h.hs i k hi), fun i k hi => ?_,
    fun i k hi => Nat.le_trans (Nat.le_succ _) (h.ls i k hi)⟩
  rcases set_cases hi with ⟨_, hi⟩ | ⟨he, _, _⟩
  · exact Nat.le_trans (Nat.le_succ _) (h.ts i k hi)
  · rw [he]; exact Nat.le_refl _

theorem Quiet.runningL {S : Sty} {hp : Heap} {c m : Nat} (h : Quiet ((S.ls c).need + 1) S hp) :
    Quiet (S.ls c).need S { hp with ls := hp.ls.set! c (.running, m) } := by
  refine ⟨fun i k hi => Nat.le_trans (Nat.le_succ _) (h.hs i k hi),
    fun i k hi => Nat.le_trans (Nat.le_succ _) (h.ts i k hi), fun i k hi => ?_⟩
  rcases set_cases hi with ⟨_, hi⟩ | ⟨he, _, _⟩
  · exact Nat.le_trans (Nat.le_succ _) (h.ls i k hi)
  · rw [he]; exact Nat.le_refl _

theorem tot_forceH {n : Nat} (ih : TotAll n) : ∀ S hp c, Cons S hp → c < S.nh → (S.hs c).need ≤ n + 1 →
    Quiet ((S.hs c).need + 1) S hp → Spec (LL.forceH (n + 1) c) S hp (fun _ o => o = (S.hs c).o) := by
  intro S hp c hC hc hn hQ lg
  obtain ⟨⟨cell, m⟩, hcell⟩ := cell_of_lt hp.hs c (by rw [← hC.nh]; exact hc)
  obtain ⟨h2, hok⟩ := hC.hs c cell m hcell
  cases cell with
  | done v => exact ⟨v, S, hp, lg, forceH_done n c hp lg v m hcell, Post.refl hC, hok⟩
  | running => exact absurd (hQ.hs c m hcell) (by omega)
  | pending t =>
    have hC1 : Cons S { hp with hs := hp.hs.set! c (.running, m + 1) } := hC.setH c .running (m + 1) trivial
    obtain ⟨o, S2, hp2, lg2, e2, hP2, ho⟩ := ih.runH S _ t (S.hs c) hC1 hok h2 hn hQ.runningH lg
    refine ⟨o, S2, { hp2 with hs := hp2.hs.set! c (.done o, m + 1) }, lg2, ?_, ⟨?_, hP2.ext, hP2.run.forcedH, DoneSub.forcedH hcell hP2.done⟩, ho⟩
    · rw [LL.forceH]
      simp only [bind_apply, get_apply, hcell, modify_apply, onPanic_ok e2, pure_apply]
    · refine hP2.cons.setH c (.done o) (m + 1) ?_
      show o = (S2.hs c).o
      rw [hP2.ext.hs c hc]; exact ho

theorem tot_forceT {n : Nat} (ih : TotAll n) : ∀ S hp c d, Cons S hp → c < S.nt → (S.ts c).d = some d →
    (S.ts c).need ≤ n + 1 → Quiet ((S.ts c).need + 1) S hp →
    Spec (LL.forceT (n + 1) c) S hp (fun S' v => VDen S' v d (S.ts c).K) := by
  intro S hp c d hC hc hd hn hQ lg
  obtain ⟨⟨cell, m⟩, hcell⟩ := cell_of_lt hp.ts c (by rw [← hC.nt]; exact hc)
  obtain ⟨h2, hok⟩ := hC.ts c cell m hcell
  cases cell with
  | done v => exact ⟨v, S, hp, lg, forceT_done n c hp lg v m hcell, Post.refl hC, hok d hd⟩
  | running => exact absurd (hQ.ts c m hcell) (by omega)
  | pending t =>
    have hC1 : Cons S { hp with ts := hp.ts.set! c (.running, m + 1) } :=
      hC.setT c .running (m + 1) (fun _ h => by cases h) trivial
    have hnp : ∀ it, t = .collect it → NoPendCollect { hp with ts := hp.ts.set! c (.running, m + 1) } it := by
      intro it hit c' m' hc'
      subst hit
      rcases set_cases hc' with ⟨hne, hc'⟩ | ⟨_, _, hx⟩
      · exact hne (hC.uniq c' c it m' m hc' hcell)
      · cases hx
    obtain ⟨v, S2, hp2, lg2, e2, hP2, hv⟩ :=
      ih.runT S _ t d (S.ts c).need (S.ts c).K hC1 (hok d hd) h2 hn hQ.runningT hnp lg
    refine ⟨v, S2, { hp2 with ts := hp2.ts.set! c (.done v, m + 1) }, lg2, ?_, ⟨?_, hP2.ext, hP2.run.forcedT, DoneSub.forcedT hcell hP2.done⟩, hv⟩
    · rw [LL.forceT]
      simp only [bind_apply, get_apply, hcell, modify_apply, onPanic_ok e2, pure_apply]
    · refine hP2.cons.setT c (.done v) (m + 1) (fun _ h => by cases h) ?_
      intro d' hd'
      rw [hP2.ext.ts c hc] at hd' ⊢
      rw [hd] at hd'; cases hd'
      exact hv

theorem tot_forceL {n : Nat} (ih : TotAll n) : ∀ S hp c, Cons S hp → c < S.nl → (S.ls c).need ≤ n + 1 →
    Quiet ((S.ls c).need + 1) S hp →
    Spec (LL.forceL (n + 1) c) S hp (fun S' v => VDen S' v (.fin (S.ls c).xs) (S.ls c).K) := by
  intro S hp c hC hc hn hQ lg
  obtain ⟨⟨cell, m⟩, hcell⟩ := cell_of_lt hp.ls c (by rw [← hC.nl]; exact hc)
  obtain ⟨h2, hok⟩ := hC.ls c cell m hcell
  cases cell with
  | done v => exact ⟨v, S, hp, lg, forceL_done n c hp lg v m hcell, Post.refl hC, hok⟩
  | running => exact absurd (hQ.ls c m hcell) (by omega)
  | pending t =>
    obtain ⟨opt, k⟩ := t
    obtain ⟨⟨y, ys, Ks, hV, hxs, hneed, hK⟩, hpure⟩ := hok
    have hC1 : Cons S { hp with ls := hp.ls.set! c (.running, m + 1) } := hC.setL c .running (m + 1) trivial
    have hQ1 := hQ.runningL (m := m + 1)
    have hmax1 : Ks ≤ max Ks (k.bnd y) := Nat.le_max_left _ _
    have hmax2 : k.bnd y ≤ max Ks (k.bnd y) := Nat.le_max_right _ _
    obtain ⟨x, S1, hp1, lg1, e1, hP1, hx⟩ :=
      ih.head S _ opt (.fin (y :: ys)) Ks y hC1 hV rfl (by omega) (hQ1.mono (by omega)) lg
    subst hx
    obtain ⟨v, S2, hp2, lg2, e2, hP2, hv⟩ :=
      ih.applyK S1 hp1 k x hP1.cons hpure (by omega) ((hQ1.post hC1 hP1).mono (by omega)) lg1
    have hP := hP1.trans hP2
    refine ⟨v, S2, { hp2 with ls := hp2.ls.set! c (.done v, m + 1) }, lg2, ?_, ⟨?_, hP.ext, hP.run.forcedL, ⟨hP.done.hs, hP.done.ts⟩⟩, ?_⟩
    · have e12 : (do let x ← LL.head n opt; LL.applyK n k x : HM LV)
          { hp with ls := hp.ls.set! c (.running, m + 1) } lg = (.ok v, hp2, lg2) := by
        rw [bind_ok e1]; exact e2
      rw [LL.forceL]
      simp only [bind_apply, get_apply, hcell, modify_apply, onPanic_ok e12, pure_apply]
    · refine hP.cons.setL c (.done v) (m + 1) ?_
      show VDen S2 v (.fin (S2.ls c).xs) (S2.ls c).K
      rw [hP.ext.ls c hc, hxs]; exact hv.monoK hK
    · rw [hxs]; exact hv.monoK hK

theorem emit_run (e : Event) (lg : Log) : (emit e).run.run lg = (.ok (), lg ++ [e]) := rfl

theorem tot_applyK {n : Nat} (ih : TotAll n) : ∀ S hp k y, Cons S hp → k.Pure → k.bnd y ≤ n + 1 →
    Quiet (k.bnd y) S hp →
    Spec (LL.applyK (n + 1) k y) S hp (fun S' v => VDen S' v (.fin (k.den y)) (k.bnd y)) := by
  intro S hp k y hC hpure hb hQ
  cases k with
  | expr id e =>
    simp only [FnK.bnd] at hb hQ ⊢
    rw [LL.applyK]
    refine Spec.bind (Spec.liftG (Q := fun _ _ => True) hC (fun lg => ⟨_, emit_run _ lg⟩) trivial)
      (fun _ S1 hp1 hP1 _ => ?_)
    exact (ih.eval S1 hp1 e y hP1.cons hpure (by omega) ((hQ.post hC hP1).mono (by omega))).weaken
      (fun S' v _ hv => hv.monoK (Nat.le_succ _))
  | fromOption f =>
    rw [LL.applyK]
    refine Spec.bind (Spec.liftG (Q := fun _ o => o = pure1 f y) hC (hpure y) rfl) (fun o S1 hp1 hP1 ho => ?_)
    subst ho
    simp only [FnK.den, FnK.bnd]
    cases pure1 f y with
    | none => exact Spec.pure hP1.cons _ ⟨rfl, Nat.le_refl _⟩
    | some v => exact Spec.pure hP1.cons _ ⟨rfl, Nat.le_refl _⟩

/-! ## the `MakeList` calls of the library, typed -/

theorem DenV.tailTy_some {d d' : DenV} (h : d.tailTy = some d') : d.isEmpty = false ∧ d' = d.tail := by
  unfold DenV.tailTy at h
  split at h
  · cases h
  · next hne => cases h; exact ⟨by simpa using hne, rfl⟩

theorem GenDen.head {gp : Int → Option Val} {i : Int} {d : DenV} (h : GenDen gp i d) : gp i = d.head? := by
  cases d with
  | fin xs =>
    cases xs with
    | nil => exact h
    | cons v rest => exact h.1
  | idx m => obtain ⟨rfl, h2⟩ := h; exact h2 m

theorem GenDen.tail {gp : Int → Option Val} {i : Int} {d : DenV} (h : GenDen gp i d) (hne : d.isEmpty = false) :
    GenDen gp (i + 1) d.tail := by
  cases d with
  | fin xs =>
    cases xs with
    | nil => cases hne
    | cons v rest => exact h.2
  | idx m => obtain ⟨rfl, h2⟩ := h; exact ⟨by simp, h2⟩

theorem spec_mkGen {S : Sty} {hp : Heap} (hC : Cons S hp) {g : Int → GoM (Option Val)} {gp : Int → Option Val}
    (hg : Total g gp) (i : Int) (d : DenV) (hd : GenDen gp i d) :
    Spec (makeList (.gen i g) (.gen i g)) S hp (fun S' v => VDen S' v d 3) := by
  refine (spec_makeList (h := .gen i g) (t := .gen i g) (hty := ⟨gp i, 2⟩) (tty := ⟨d.tailTy, 2, 3⟩) hC ⟨gp, hg, rfl⟩ (Nat.le_refl _) ?_
    (Nat.le_refl _) (fun it h => by cases h)).weaken ?_
  · intro d' hd'
    obtain ⟨hne, rfl⟩ := DenV.tailTy_some hd'
    exact ⟨gp, hg, hd.tail hne, Nat.le_refl _⟩
  · rintro S' v _ ⟨rfl, rfl⟩
    exact VDen.fresh S d 3 _ _ hd.head (Nat.lt_succ_self 2) rfl (Nat.lt_succ_self 2) (Nat.le_refl _)

theorem spec_mkMap {S : Sty} {hp : Heap} (hC : Cons S hp) {opt : LV} {fn : Val → GoM Val} {xs : List Val} {Ko : Nat}
    (hV : VDen S opt (.fin xs) Ko) (hf : Total fn (pure1 fn)) :
    Spec (makeList (.map opt fn) (.map opt fn)) S hp (fun S' v => VDen S' v (.fin (xs.map (pure1 fn))) (Ko + 4)) := by
  refine (spec_makeList (h := .map opt fn) (t := .map opt fn) (hty := ⟨(xs.head?).map (pure1 fn), Ko + 3⟩)
    (tty := ⟨(DenV.fin (xs.map (pure1 fn))).tailTy, Ko + 2, Ko + 4⟩) hC ⟨xs, Ko, hV, hf, rfl, Nat.le_refl _⟩
    (by simp only; omega) ?_ (by simp only; omega) (fun it h => by cases h)).weaken ?_
  · intro d' hd'
    obtain ⟨hne, rfl⟩ := DenV.tailTy_some hd'
    cases xs with
    | nil => cases hne
    | cons x xs' => exact ⟨x, xs', Ko, hV, hf, rfl, Nat.le_refl _, Nat.le_refl _⟩
  · rintro S' v _ ⟨rfl, rfl⟩
    exact VDen.fresh S _ _ _ _ (by simp [DenV.head?]) (by simp only; omega) rfl (by simp only; omega) (Nat.le_refl _)

theorem zipD_head (da : DenV) (ys : List Val) :
    (zipD da ys).head? = (match da.head?, ys.head? with
      | some x, some y => some (Val.tup [x, y])
      | _, _ => none) := by
  cases da with
  | fin xs => cases xs <;> cases ys <;> rfl
  | idx m => cases ys <;> rfl

theorem zipD_cons_inv {da : DenV} {ys : List Val} (h : (zipD da ys).isEmpty = false) :
    da.isEmpty = false ∧ ∃ y ys', ys = y :: ys' := by
  cases da with
  | fin xs =>
    cases xs with
    | nil => simp [zipD] at h
    | cons x xs' =>
      cases ys with
      | nil => simp [zipD] at h
      | cons y ys' => exact ⟨rfl, y, ys', rfl⟩
  | idx m =>
    cases ys with
    | nil => simp [zipD, enumFrom] at h
    | cons y ys' => exact ⟨rfl, y, ys', rfl⟩

theorem zipD_tail {da : DenV} (hne : da.isEmpty = false) (y : Val) (ys : List Val) :
    (zipD da (y :: ys)).tail = zipD da.tail ys := by
  cases da with
  | fin xs =>
    cases xs with
    | nil => cases hne
    | cons x xs' => rfl
  | idx m => rfl

theorem spec_mkZip {S : Sty} {hp : Heap} (hC : Cons S hp) {a b : LV} {da : DenV} {ys : List Val} {K : Nat}
    (hA : VDen S a da K) (hB : VDen S b (.fin ys) K) :
    Spec (makeList (.zip a b) (.zip a b)) S hp (fun S' v => VDen S' v (.fin (zipD da ys)) (K + 4)) := by
  refine (spec_makeList (h := .zip a b) (t := .zip a b) (hty := ⟨(zipD da ys).head?, K + 3⟩)
    (tty := ⟨(DenV.fin (zipD da ys)).tailTy, K + 2, K + 4⟩) hC ⟨da, ys, K, hA, hB, rfl, Nat.le_refl _⟩
    (by simp only; omega) ?_ (by simp only; omega) (fun it h => by cases h)).weaken ?_
  · intro d' hd'
    obtain ⟨hne, rfl⟩ := DenV.tailTy_some hd'
    obtain ⟨hda, y, ys', rfl⟩ := zipD_cons_inv hne
    exact ⟨da, y, ys', K, hA, hda, hB, by simp only [DenV.tail, zipD_tail hda], Nat.le_refl _, Nat.le_refl _⟩
  · rintro S' v _ ⟨rfl, rfl⟩
    exact VDen.fresh S _ _ _ _ rfl (by simp only; omega) rfl (by simp only; omega) (Nat.le_refl _)

theorem scanlV_eq (g : Val → Val → Val) (z : Val) (xs : List Val) : scanlV g z xs = z :: scanTail g z xs := by
  cases xs <;> rfl

theorem spec_mkScan {S : Sty} {hp : Heap} (hC : Cons S hp) {s : LV} {f : Val → Val → GoM Val} {xs : List Val} {Ks : Nat}
    (hV : VDen S s (.fin xs) Ks) (hf : Total2 f (pure2 f)) (z : Val) :
    Spec (makeList (.const (some z)) (.scan s z f)) S hp
      (fun S' v => VDen S' v (.fin (scanlV (pure2 f) z xs)) (Ks + 4)) := by
  refine (spec_makeList (h := .const (some z)) (t := .scan s z f) (hty := ⟨some z, 2⟩)
    (tty := ⟨some (.fin (scanTail (pure2 f) z xs)), Ks + 3, Ks + 4⟩) hC rfl
    (Nat.le_refl _) ?_ (by simp only; omega) (fun it h => by cases h)).weaken ?_
  · intro d' hd'
    cases hd'
    exact ⟨xs, Ks, hV, hf, rfl, Nat.le_refl _, Nat.le_refl _⟩
  · rintro S' v _ ⟨rfl, rfl⟩
    rw [scanlV_eq]
    exact VDen.fresh S _ _ _ _ rfl (by simp only; omega) rfl (by simp only; omega) (Nat.le_refl _)

theorem reverse_tail (xs : List Val) : xs.reverse.tail = xs.dropLast.reverse := List.tail_reverse

theorem spec_mkReverse {S : Sty} {hp : Heap} (hC : Cons S hp) (xs : List Val) :
    Spec (makeList (.reverse xs) (.reverse xs)) S hp (fun S' v => VDen S' v (.fin xs.reverse) 3) := by
  refine (spec_makeList (h := .reverse xs) (t := .reverse xs) (hty := ⟨xs.getLast?, 2⟩)
    (tty := ⟨(DenV.fin xs.reverse).tailTy, 2, 3⟩) hC rfl
    (Nat.le_refl _) ?_ (Nat.le_refl _) (fun it h => by cases h)).weaken ?_
  · intro d' hd'
    obtain ⟨hne, rfl⟩ := DenV.tailTy_some hd'
    exact ⟨by simp only [DenV.tail, reverse_tail], Nat.le_refl _⟩
  · rintro S' v _ ⟨rfl, rfl⟩
    exact VDen.fresh S _ _ _ _ (by simp [DenV.head?]) (Nat.lt_succ_self 2) rfl (Nat.lt_succ_self 2) (Nat.le_refl _)

/-- one step of `Collect`: pull the captured iterator, build the cell pair -/
theorem spec_collectStep {S : Sty} {hp : Heap} (hC : Cons S hp) {it : Nat} {id : Int} {xs : List Val} {idx : Nat}
    (hit : hp.its[it]? = some (id, xs, idx)) (hnp : NoPendCollect hp it) :
    Spec (iterNextOption it >>= fun h => makeList (.const h) (.collect it)) S hp
      (fun S' v => VDen S' v (.fin (xs.drop idx)) 3) := by
  have hlt : it < hp.its.size := get_lt hit
  cases hv : xs[idx]? with
  | none =>
    have hnil : xs.drop idx = [] := by
      rw [List.drop_eq_nil_iff]; exact List.getElem?_eq_none_iff.mp hv
    have e1 : ∀ lg, iterNextOption it hp lg = (.ok none, hp, lg) := by
      intro lg; simp only [iterNextOption, hit, hv]
    intro lg
    obtain ⟨v, S', hp', lg', e2, hP, hQ⟩ := (spec_makeList (h := .const none) (t := .collect it) (hty := ⟨none, 2⟩)
      (tty := ⟨none, 2, 3⟩) hC rfl (Nat.le_refl _) (fun d hd => by cases hd) (Nat.le_refl _)
      (fun it' h => by cases h; exact ⟨hlt, hnp⟩)) lg
    refine ⟨v, S', hp', lg', by rw [bind_ok (e1 lg), e2], hP, ?_⟩
    obtain ⟨rfl, rfl⟩ := hQ
    rw [hnil]
    exact VDen.fresh S _ _ _ _ rfl (Nat.lt_succ_self 2) rfl (Nat.lt_succ_self 2) (Nat.le_refl _)
  | some w =>
    have hcons : xs.drop idx = w :: xs.drop (idx + 1) := by
      have hi : idx < xs.length := (List.getElem?_eq_some_iff.mp hv).1
      rw [List.drop_eq_getElem_cons hi]
      congr 1
      exact (List.getElem?_eq_some_iff.mp hv).2
    have e1 : ∀ lg, iterNextOption it hp lg =
        (.ok (some w), { hp with its := hp.its.set! it (id, xs, idx + 1) }, lg ++ [s!"s{id}:{w}"]) := by
      intro lg; simp only [iterNextOption, hit, hv]
    have hC1 : Cons S { hp with its := hp.its.set! it (id, xs, idx + 1) } := hC.setIts it _ hnp
    intro lg
    obtain ⟨v, S', hp', lg', e2, hP, hQ⟩ := (spec_makeList (h := .const (some w)) (t := .collect it)
      (hty := ⟨some w, 2⟩) (tty := ⟨some (.fin (xs.drop (idx + 1))), 2, 3⟩) hC1 rfl (Nat.le_refl _)
      (fun d hd => by
        cases hd
        exact ⟨id, xs, idx + 1, set_get_same _ _ _ hlt, rfl, Nat.le_refl _⟩)
      (Nat.le_refl _)
      (fun it' h => by cases h; exact ⟨by simp only [size_set!]; exact hlt, hnp⟩)) _
    refine ⟨v, S', hp', lg', by rw [bind_ok (e1 lg), e2], ⟨hP.cons, hP.ext, ⟨hP.run.hs, hP.run.ts, hP.run.ls⟩, ⟨hP.done.hs, hP.done.ts⟩⟩, ?_⟩
    obtain ⟨rfl, rfl⟩ := hQ
    rw [hcons]
    exact VDen.fresh S _ _ _ _ rfl (Nat.lt_succ_self 2) rfl (Nat.lt_succ_self 2) (Nat.le_refl _)

/-! ## the bodies of the `getHead` closures -/

theorem tot_runH {n : Nat} (ih : TotAll n) : ∀ S hp t ty, Cons S hp → HThunkOK S t ty → 2 ≤ ty.need →
    ty.need ≤ n + 1 + 1 → Quiet ty.need S hp → Spec (LL.runH (n + 1) t) S hp (fun _ o => o = ty.o) := by
  intro S hp t ty hC hOK h2 hn hQ
  cases t with
  | const o' =>
    rw [LL.runH]
    · exact Spec.pure hC _ hOK.symm
    · exact fun h => absurd h (Nat.succ_ne_zero _)
  | gen i g =>
    obtain ⟨gp, hg, ho⟩ := hOK
    rw [LL.runH]
    · exact Spec.liftG hC (hg i) ho.symm
    · exact fun h => absurd h (Nat.succ_ne_zero _)
  | map opt fn =>
    obtain ⟨xs, K, hV, hf, ho, hk⟩ := hOK
    rw [LL.runH]
    refine Spec.bind (ih.headOpt S hp opt _ K hC hV (by omega) (hQ.mono (by omega))) (fun o S1 hp1 hP1 ho1 => ?_)
    subst ho1
    cases xs with
    | nil => exact Spec.pure hP1.cons _ ho.symm
    | cons x xs' =>
      refine Spec.bind (Spec.liftG (Q := fun _ u => u = pure1 fn x) hP1.cons (hf x) rfl) (fun u S2 hp2 hP2 hu => ?_)
      subst hu
      exact Spec.pure hP2.cons _ ho.symm
  | flatMap lz tl k =>
    obtain ⟨y, ys, Ks, Bi, hF, ho, hneed⟩ := hOK
    have hFMB : FMB Ks Bi ys.length = Ks + Bi + 4 * ys.length + 4 := rfl
    have hFn := hF.hneed
    rw [LL.runH]
    refine Spec.bind (ih.forceL S hp lz hC hF.hlz (by omega) (hQ.mono (by omega))) (fun hl S1 hp1 hP1 hV1 => ?_)
    rw [hF.hxs] at hV1
    have hV1' := hV1.monoK hF.hK
    have hQ1 := hQ.post hC hP1
    refine Spec.bind (ih.isEmpty S1 hp1 hl _ Bi hP1.cons hV1' (by omega) (hQ1.mono (by omega)))
      (fun b S2 hp2 hP2 hb => ?_)
    subst hb
    have hP12 := hP1.trans hP2
    have hQ2 := hQ.post hC hP12
    cases hden : k.den y with
    | nil =>
      rw [hden] at ho
      simp only [DenV.isEmpty, List.isEmpty_nil, if_true]
      refine Spec.bind (ih.flatMap S2 hp2 tl k ys Ks Bi hP2.cons (hF.htl.ext hP12.ext) hF.hpure
        (fun y' hy' => hF.hbi y' (List.mem_cons_of_mem _ hy')) (by omega) (hQ2.mono (by omega)))
        (fun rest S3 hp3 hP3 hV3 => ?_)
      exact (ih.headOpt S3 hp3 rest _ _ hP3.cons hV3 (by omega)
        ((hQ.post hC (hP12.trans hP3)).mono (by omega))).weaken (fun S' o _ ho' => by rw [ho', ho]; rfl)
    | cons v rest =>
      rw [hden] at ho hV1'
      simp only [DenV.isEmpty, List.isEmpty_cons, Bool.false_eq_true, if_false]
      refine Spec.bind (ih.head S2 hp2 hl _ Bi v hP2.cons (hV1'.ext hP2.ext) rfl (by omega) (hQ2.mono (by omega)))
        (fun w S3 hp3 hP3 hw => ?_)
      subst hw
      exact Spec.pure hP3.cons _ ho.symm
  | zip a b =>
    obtain ⟨da, ys, K, hA, hB, ho, hk⟩ := hOK
    rw [LL.runH]
    refine Spec.bind (ih.headOpt S hp a _ K hC hA (by omega) (hQ.mono (by omega))) (fun x S1 hp1 hP1 hx => ?_)
    subst hx
    refine Spec.bind (ih.headOpt S1 hp1 b _ K hP1.cons (hB.ext hP1.ext) (by omega) ((hQ.post hC hP1).mono (by omega)))
      (fun w S2 hp2 hP2 hw => ?_)
    subst hw
    rw [zipD_head] at ho
    have hys : (DenV.fin ys).head? = ys.head? := rfl
    rw [hys]
    generalize da.head? = u at ho ⊢
    generalize ys.head? = w at ho ⊢
    cases u <;> cases w <;> exact Spec.pure hP2.cons _ ho.symm
  | reverse xs =>
    rw [LL.runH]
    · exact Spec.pure hC _ hOK.symm
    · exact fun h => absurd h (Nat.succ_ne_zero _)
  | combine l1 =>
    obtain ⟨x, xs, K, hV, ho, hk⟩ := hOK
    rw [LL.runH]
    refine Spec.bind (ih.head S hp l1 _ K x hC hV rfl (by omega) (hQ.mono (by omega))) (fun w S1 hp1 hP1 hw => ?_)
    subst hw
    exact Spec.pure hP1.cons _ ho.symm

/-! ## the bodies of the `getTail` closures -/

theorem tot_runT {n : Nat} (ih : TotAll n) : ∀ S hp t d need K, Cons S hp → TThunkOK S hp.its t d need K →
    2 ≤ need → need ≤ n + 1 + 1 → Quiet need S hp → (∀ it, t = .collect it → NoPendCollect hp it) →
    Spec (LL.runT (n + 1) t) S hp (fun S' v => VDen S' v d K) := by
  intro S hp t d need K hC hOK h2 hn hQ hnp
  cases t with
  | gen i g =>
    obtain ⟨gp, hg, hd, hK⟩ := hOK
    rw [LL.runT]
    · exact (spec_mkGen hC hg (i + 1) d hd).weaken (fun S' v _ hv => hv.monoK hK)
    · exact fun h => absurd h (Nat.succ_ne_zero _)
  | map opt fn =>
    obtain ⟨x, xs, Ko, hV, hf, hd, hn', hK⟩ := hOK
    subst hd
    rw [LL.runT]
    refine Spec.bind (ih.tail S hp opt _ Ko hC hV rfl (by omega) (hQ.mono (by omega))) (fun t S1 hp1 hP1 hVt => ?_)
    exact (spec_mkMap hP1.cons hVt hf).weaken (fun S' v _ hv => hv.monoK hK)
  | flatMap lz tl k =>
    obtain ⟨y, ys, Ks, Bi, hF, hne, hd, hneed, hK⟩ := hOK
    subst hd
    have hFMB : FMB Ks Bi ys.length = Ks + Bi + 4 * ys.length + 4 := rfl
    have hFn := hF.hneed
    have hFK := hF.hK
    rw [LL.runT]
    refine Spec.bind (ih.forceL S hp lz hC hF.hlz (by omega) (hQ.mono (by omega))) (fun hl S1 hp1 hP1 hV1 => ?_)
    rw [hF.hxs] at hV1
    have hV1' := hV1.monoK hF.hK
    have hQ1 := hQ.post hC hP1
    refine Spec.bind (ih.isEmpty S1 hp1 hl _ Bi hP1.cons hV1' (by omega) (hQ1.mono (by omega)))
      (fun b S2 hp2 hP2 hb => ?_)
    subst hb
    have hP12 := hP1.trans hP2
    have hQ2 := hQ.post hC hP12
    have hbi : ∀ y', y' ∈ ys → k.bnd y' ≤ Bi := fun y' hy' => hF.hbi y' (List.mem_cons_of_mem _ hy')
    cases hden : k.den y with
    | nil =>
      rw [hden] at hne
      simp only [DenV.isEmpty, List.isEmpty_nil, if_true]
      refine Spec.bind (ih.flatMap S2 hp2 tl k ys Ks Bi hP2.cons (hF.htl.ext hP12.ext) hF.hpure hbi
        (by omega) (hQ2.mono (by omega))) (fun rest S3 hp3 hP3 hV3 => ?_)
      have hne' : (DenV.fin (fmDen k ys)).isEmpty = false := by
        cases hfm : fmDen k ys with
        | nil => rw [hfm] at hne; exact absurd rfl hne
        | cons _ _ => rfl
      exact (ih.tail S3 hp3 rest _ _ hP3.cons hV3 hne' (by omega)
        ((hQ.post hC (hP12.trans hP3)).mono (by omega))).weaken (fun S' v _ hv => hv.monoK hK)
    | cons w rest =>
      rw [hden] at hV1'
      simp only [DenV.isEmpty, List.isEmpty_cons, Bool.false_eq_true, if_false]
      refine Spec.bind (ih.tail S2 hp2 hl _ Bi hP2.cons (hV1'.ext hP2.ext) rfl (by omega) (hQ2.mono (by omega)))
        (fun ht S3 hp3 hP3 hVt => ?_)
      have hP123 := hP12.trans hP3
      refine Spec.bind (ih.flatMap S3 hp3 tl k ys Ks Bi hP3.cons (hF.htl.ext hP123.ext) hF.hpure hbi
        (by omega) ((hQ.post hC hP123).mono (by omega))) (fun rs S4 hp4 hP4 hV4 => ?_)
      have hP1234 := hP123.trans hP4
      refine (ih.combine S4 hp4 ht rs rest (fmDen k ys) Bi _ hP4.cons (hVt.ext hP4.ext) hV4 (by omega)
        ((hQ.post hC hP1234).mono (by omega))).weaken (fun S' v _ hv => ?_)
      exact hv.monoK (by omega)
  | zip a b =>
    obtain ⟨da, y, ys, Ko, hA, hda, hB, hd, hn', hK⟩ := hOK
    subst hd
    rw [LL.runT]
    refine Spec.bind (ih.tail S hp a _ Ko hC hA hda (by omega) (hQ.mono (by omega))) (fun ta S1 hp1 hP1 hVa => ?_)
    refine Spec.bind (ih.tail S1 hp1 b _ Ko hP1.cons (hB.ext hP1.ext) rfl (by omega) ((hQ.post hC hP1).mono (by omega)))
      (fun tb S2 hp2 hP2 hVb => ?_)
    exact (spec_mkZip hP2.cons (hVa.ext hP2.ext) hVb).weaken (fun S' v _ hv => hv.monoK hK)
  | scan s zero f =>
    obtain ⟨xs, Ks, hV, hf, hd, hn', hK⟩ := hOK
    subst hd
    rw [LL.runT]
    refine Spec.bind (ih.headOpt S hp s _ Ks hC hV (by omega) (hQ.mono (by omega))) (fun o S1 hp1 hP1 ho => ?_)
    subst ho
    cases xs with
    | nil => exact Spec.pure hP1.cons _ ⟨rfl, by omega⟩
    | cons a as =>
      refine Spec.bind (Spec.liftG (Q := fun _ u => u = pure2 f zero a) hP1.cons (hf zero a) rfl)
        (fun u S2 hp2 hP2 hu => ?_)
      subst hu
      have hP12 := hP1.trans hP2
      refine Spec.bind (ih.tail S2 hp2 s _ Ks hP2.cons (hV.ext hP12.ext) rfl (by omega)
        ((hQ.post hC hP12).mono (by omega))) (fun t S3 hp3 hP3 hVt => ?_)
      exact (spec_mkScan hP3.cons hVt hf _).weaken (fun S' v _ hv => hv.monoK hK)
  | collect it =>
    obtain ⟨id, xs, idx, hit, hd, hK⟩ := hOK
    subst hd
    rw [LL.runT]
    · exact (spec_collectStep hC hit (hnp it rfl)).weaken (fun S' v _ hv => hv.monoK hK)
    · exact fun h => absurd h (Nat.succ_ne_zero _)
  | combine l1 l2 =>
    obtain ⟨x, xs, ys, K1, K2, hV1, hV2, hd, hn', hK⟩ := hOK
    subst hd
    rw [LL.runT]
    refine Spec.bind (ih.tail S hp l1 _ K1 hC hV1 rfl (by omega) (hQ.mono (by omega))) (fun lt S1 hp1 hP1 hVt => ?_)
    refine Spec.bind (ih.isEmpty S1 hp1 lt _ K1 hP1.cons hVt (by omega) ((hQ.post hC hP1).mono (by omega)))
      (fun b S2 hp2 hP2 hb => ?_)
    subst hb
    have hP12 := hP1.trans hP2
    cases xs with
    | nil =>
      simp only [DenV.tail, List.tail_cons, DenV.isEmpty, List.isEmpty_nil, Bool.not_true, Bool.false_eq_true, if_false]
      exact Spec.pure hP2.cons _ ((hV2.ext hP12.ext).monoK (by omega))
    | cons x' xs' =>
      simp only [DenV.tail, List.tail_cons, DenV.isEmpty, List.isEmpty_cons, Bool.not_false, if_true]
      exact (ih.combine S2 hp2 lt l2 _ ys K1 K2 hP2.cons (hVt.ext hP2.ext) (hV2.ext hP12.ext) (by omega)
        ((hQ.post hC hP12).mono (by omega))).weaken (fun S' v _ hv => hv.monoK hK)
  | reverse xs =>
    obtain ⟨hd, hK⟩ := hOK
    subst hd
    rw [LL.runT]
    · exact (spec_mkReverse hC (seqInit xs)).weaken (fun S' v _ hv => hv.monoK hK)
    · exact fun h => absurd h (Nat.succ_ne_zero _)

/-! ## `list.FlatMap`, `list.Combine` -/

theorem tot_flatMap {n : Nat} (ih : TotAll n) : ∀ S hp opt k ys Ks Bi, Cons S hp → VDen S opt (.fin ys) Ks → k.Pure →
    (∀ y, y ∈ ys → k.bnd y ≤ Bi) → FMB Ks Bi ys.length ≤ n + 1 → Quiet (FMB Ks Bi ys.length) S hp →
    Spec (LL.flatMap (n + 1) opt k) S hp (fun S' v => VDen S' v (.fin (fmDen k ys)) (FMB Ks Bi ys.length)) := by
  intro S hp opt k ys Ks Bi hC hV hpure hbi hn hQ
  have hFMB : FMB Ks Bi ys.length = Ks + Bi + 4 * ys.length + 4 := rfl
  rw [LL.flatMap]
  refine Spec.bind (ih.isEmpty S hp opt _ Ks hC hV (by omega) (hQ.mono (by omega))) (fun b S1 hp1 hP1 hb => ?_)
  subst hb
  cases ys with
  | nil =>
    simp only [DenV.isEmpty, List.isEmpty_nil, if_true]
    exact Spec.pure hP1.cons _ ⟨rfl, by omega⟩
  | cons y ys' =>
    simp only [DenV.isEmpty, List.isEmpty_cons, Bool.false_eq_true, if_false]
    have hby : k.bnd y ≤ Bi := hbi y (List.mem_cons_self ..)
    have hkp := FnK.bnd_pos k y
    refine Spec.bind (spec_allocLazy (opt := opt) (k := k) (lty := ⟨k.den y, max Ks (k.bnd y) + 1, k.bnd y⟩) hP1.cons
      ⟨⟨y, ys', Ks, hV.ext hP1.ext, rfl, Nat.le_refl _, Nat.le_refl _⟩, hpure⟩ (by simp only; omega))
      (fun lz S2 hp2 hP2 hlz => ?_)
    obtain ⟨rfl, rfl⟩ := hlz
    have hP12 := hP1.trans hP2
    refine Spec.bind (ih.tail _ hp2 opt _ Ks hP2.cons (hV.ext hP12.ext) rfl (by omega)
      ((hQ.post hC hP12).mono (by omega))) (fun tl S3 hp3 hP3 hVtl => ?_)
    have hF : FMOK S3 S1.nl tl k y ys' Ks Bi := by
      have hlt : S1.nl < (S1.pushL ⟨k.den y, max Ks (k.bnd y) + 1, k.bnd y⟩).nl := by simp [Sty.pushL]
      have hls : S3.ls S1.nl = ⟨k.den y, max Ks (k.bnd y) + 1, k.bnd y⟩ := by
        rw [hP3.ext.ls _ hlt]; simp [Sty.pushL]
      exact ⟨Nat.lt_of_lt_of_le hlt hP3.ext.nl, by rw [hls], by rw [hls]; simp only; omega, by rw [hls]; exact hby,
        hVtl, hpure, hbi⟩
    have hlen : (y :: ys').length = ys'.length + 1 := rfl
    rw [hlen] at hFMB hn hQ ⊢
    have hFMB' : FMB Ks Bi ys'.length = Ks + Bi + 4 * ys'.length + 4 := rfl
    refine (spec_makeList (h := .flatMap S1.nl tl k) (t := .flatMap S1.nl tl k)
      (hty := ⟨(k.den y ++ fmDen k ys').head?, FMB Ks Bi ys'.length + 3⟩)
      (tty := ⟨(DenV.fin (k.den y ++ fmDen k ys')).tailTy, FMB Ks Bi ys'.length + 2, FMB Ks Bi ys'.length⟩) hP3.cons
      ⟨y, ys', Ks, Bi, hF, rfl, Nat.le_refl _⟩ (by simp only; omega) ?_ (by simp only; omega)
      (fun it h => by cases h)).weaken ?_
    · intro d' hd'
      obtain ⟨hne, rfl⟩ := DenV.tailTy_some hd'
      refine ⟨y, ys', Ks, Bi, hF, ?_, rfl, Nat.le_refl _, Nat.le_refl _⟩
      intro he; rw [he] at hne; cases hne
    · rintro S' v _ ⟨rfl, rfl⟩
      exact VDen.fresh S3 (.fin (fmDen k (y :: ys'))) _ _ _ rfl (by simp only; omega) rfl (by simp only; omega)
        (by simp only; omega)

theorem tot_combine {n : Nat} (ih : TotAll n) : ∀ S hp l1 l2 xs ys K1 K2, Cons S hp → VDen S l1 (.fin xs) K1 →
    VDen S l2 (.fin ys) K2 → K1 + 1 ≤ n + 1 → Quiet K1 S hp →
    Spec (LL.combine (n + 1) l1 l2) S hp (fun S' v => VDen S' v (.fin (xs ++ ys)) (max (K1 + 4) K2)) := by
  intro S hp l1 l2 xs ys K1 K2 hC hV1 hV2 hn hQ
  rw [LL.combine]
  refine Spec.bind (ih.isEmpty S hp l1 _ K1 hC hV1 (by omega) hQ) (fun b S1 hp1 hP1 hb => ?_)
  subst hb
  cases xs with
  | nil =>
    simp only [DenV.isEmpty, List.isEmpty_nil, if_true]
    exact Spec.pure hP1.cons _ ((hV2.ext hP1.ext).monoK (by omega))
  | cons x xs' =>
    simp only [DenV.isEmpty, List.isEmpty_cons, Bool.false_eq_true, if_false]
    refine (spec_makeList (h := .combine l1) (t := .combine l1 l2) (hty := ⟨some x, K1 + 2⟩)
      (tty := ⟨some (.fin (xs' ++ ys)), K1 + 3, max (K1 + 4) K2⟩) hP1.cons
      ⟨x, xs', K1, hV1.ext hP1.ext, rfl, Nat.le_refl _⟩ (by simp only; omega) ?_ (by simp only; omega)
      (fun it h => by cases h)).weaken ?_
    · intro d' hd'
      cases hd'
      exact ⟨x, xs', ys, K1, K2, hV1.ext hP1.ext, hV2.ext hP1.ext, rfl, Nat.le_refl _, Nat.le_refl _⟩
    · rintro S' v _ ⟨rfl, rfl⟩
      exact VDen.fresh S1 (.fin (x :: xs' ++ ys)) _ _ _ rfl (by simp only; omega) rfl (by simp only; omega)
        (Nat.le_refl _)

/-! ## `eval`: the library calls of an expression -/

theorem range_enum (closed : Bool) (a b : Int) (x : Val) :
    Enum (rangeP closed b) a ((LExpr.range closed a b).denote x) := by
  simp only [LExpr.denote]
  apply enum_range
  · intro j hj
    cases closed <;> simp only [rangeP, Bool.false_eq_true, if_false, if_true] at hj ⊢ <;>
      simp only [decide_eq_true_eq] <;> rw [if_pos (by omega)]
  · cases closed <;> simp only [rangeP, Bool.false_eq_true, if_false, if_true] <;>
      simp only [decide_eq_true_eq] <;> rw [if_neg (by omega)]

theorem generate_enum (id n : Int) (x : Val) : Enum (generateP n) 0 ((LExpr.generate id n).denote x) := by
  simp only [LExpr.denote]
  have h := enum_range (generateP n) n.toNat 0
    (fun j hj => by simp only [generateP]; rw [if_pos (by omega)])
    (by simp only [generateP]; rw [if_neg (by omega)])
  have heq : (List.range n.toNat).map (fun (i : Nat) => Val.int (0 + (i : Int))) =
      (List.range n.toNat).map (fun (i : Nat) => Val.int (i : Int)) := by
    apply List.map_congr_left
    intro i _
    rw [Int.zero_add]
  rw [heq] at h; exact h

theorem indexGen_total : Total indexGen (fun i => some (.int i)) := fun _ lg => ⟨lg, rfl⟩

theorem fmDen_fromOption (f : Val → GoM (Option Val)) (ys : List Val) :
    fmDen (.fromOption f) ys = ys.filterMap (pure1 f) := by
  induction ys with
  | nil => rfl
  | cons y ys ih =>
    simp only [fmDen, List.flatMap_cons, List.filterMap_cons] at ih ⊢
    rw [ih]
    simp only [FnK.den]
    cases pure1 f y <;> rfl

theorem LExpr.bnd_ge3 (e : LExpr) : ∀ x, 3 ≤ e.bnd x := by
  induction e with
  | apply h t ih => intro x; have := ih x; simp only [LExpr.bnd]; omega
  | flatMap e id k _ _ => intro x; simp only [LExpr.bnd, FMB]; omega
  | filterMap e f _ => intro x; simp only [LExpr.bnd, FMB]; omega
  | _ => intro x; simp only [LExpr.bnd] <;> omega

theorem tot_eval {n : Nat} (ih : TotAll n) : ∀ S hp e x, Cons S hp → e.Pure → e.bnd x ≤ n + 1 → Quiet (e.bnd x) S hp →
    Spec (LL.eval (n + 1) e x) S hp (fun S' v => VDen S' v (.fin (e.denote x)) (e.bnd x)) := by
  intro S hp e x hC hpure hn hQ
  cases e with
  | empty =>
    rw [LL.eval]
    · exact Spec.pure hC _ ⟨rfl, by simp only [LExpr.bnd]; omega⟩
    · exact fun h => absurd h (Nat.succ_ne_zero _)
  | of xs =>
    rw [LL.eval]
    · exact Spec.pure hC _ ⟨rfl, by simp only [LExpr.bnd]; omega⟩
    · exact fun h => absurd h (Nat.succ_ne_zero _)
  | argOf m =>
    rw [LL.eval]
    · exact Spec.pure hC _ ⟨rfl, by simp only [LExpr.bnd]; omega⟩
    · exact fun h => absurd h (Nat.succ_ne_zero _)
  | apply h t =>
    simp only [LExpr.bnd] at hn hQ ⊢
    rw [LL.eval]
    refine Spec.bind (ih.eval S hp t x hC hpure (by omega) (hQ.mono (by omega))) (fun l S1 hp1 hP1 hV => ?_)
    exact Spec.pure hP1.cons _ ⟨_, rfl, hV.monoK (Nat.le_succ _)⟩
  | generate id m =>
    rw [LL.eval]
    · exact spec_mkGen hC (generateGen_total id m) 0 _ (generate_enum id m x)
    · exact fun h => absurd h (Nat.succ_ne_zero _)
  | range closed a b =>
    rw [LL.eval]
    · exact spec_mkGen hC (rangeGen_total closed b) a _ (range_enum closed a b x)
    · exact fun h => absurd h (Nat.succ_ne_zero _)
  | reverse xs =>
    rw [LL.eval]
    · exact spec_mkReverse hC xs
    · exact fun h => absurd h (Nat.succ_ne_zero _)
  | collect id xs =>
    rw [LL.eval]
    · intro lg
      have hC1 : Cons S { hp with its := hp.its.push (id, xs, 0) } := hC.allocIter (id, xs, 0)
      have hnp : NoPendCollect { hp with its := hp.its.push (id, xs, 0) } hp.its.size := by
        intro c m hc
        exact absurd (hC.itsb c _ m hc) (Nat.lt_irrefl _)
      obtain ⟨v, S', hp', lg', e2, hP, hQ'⟩ :=
        spec_collectStep (it := hp.its.size) (id := id) (xs := xs) (idx := 0) hC1 (by simp) hnp lg
      have e1 : allocIter id xs hp lg = (.ok hp.its.size, { hp with its := hp.its.push (id, xs, 0) }, lg) := rfl
      exact ⟨v, S', hp', lg', by rw [bind_ok e1]; exact e2, ⟨hP.cons, hP.ext, ⟨hP.run.hs, hP.run.ts, hP.run.ls⟩, ⟨hP.done.hs, hP.done.ts⟩⟩,
        by rw [List.drop_zero] at hQ'; exact hQ'⟩
    · exact fun h => absurd h (Nat.succ_ne_zero _)
  | fromOption o =>
    cases o with
    | none =>
      rw [LL.eval]
      · exact Spec.pure hC _ ⟨rfl, by simp only [LExpr.bnd]; omega⟩
      · exact fun h => absurd h (Nat.succ_ne_zero _)
    | some v =>
      rw [LL.eval]
      · exact Spec.pure hC _ ⟨rfl, by simp only [LExpr.bnd]; omega⟩
      · exact fun h => absurd h (Nat.succ_ne_zero _)
  | map e f =>
    simp only [LExpr.bnd] at hn hQ ⊢
    rw [LL.eval]
    refine Spec.bind (ih.eval S hp e x hC hpure.1 (by omega) (hQ.mono (by omega))) (fun l S1 hp1 hP1 hV => ?_)
    exact spec_mkMap hP1.cons hV hpure.2
  | flatMap e id k =>
    simp only [LExpr.bnd] at hn hQ ⊢
    have hFMB : ∀ a b c, FMB a b c = a + b + 4 * c + 4 := fun _ _ _ => rfl
    rw [hFMB] at hn
    rw [LL.eval]
    refine Spec.bind (ih.eval S hp e x hC hpure.1 (by omega) (hQ.mono (by rw [hFMB]; omega))) (fun l S1 hp1 hP1 hV => ?_)
    refine (ih.flatMap S1 hp1 l (.expr id k) (e.denote x) (e.bnd x) _ hP1.cons hV hpure.2
      (fun y hy => le_maxOver (fun y => k.bnd y + 1) _ y hy) (by rw [hFMB]; omega)
      ((hQ.post hC hP1).mono (Nat.le_succ _))).weaken (fun S' v _ hv => hv.monoK (Nat.le_succ _))
  | filterMap e f =>
    simp only [LExpr.bnd] at hn hQ ⊢
    have hFMB : ∀ a b c, FMB a b c = a + b + 4 * c + 4 := fun _ _ _ => rfl
    rw [hFMB] at hn
    rw [LL.eval]
    refine Spec.bind (ih.eval S hp e x hC hpure.1 (by omega) (hQ.mono (by rw [hFMB]; omega))) (fun l S1 hp1 hP1 hV => ?_)
    refine (ih.flatMap S1 hp1 l (.fromOption f) (e.denote x) (e.bnd x) 1 hP1.cons hV hpure.2
      (fun y hy => Nat.le_refl _) (by rw [hFMB]; omega)
      ((hQ.post hC hP1).mono (Nat.le_succ _))).weaken (fun S' v _ hv => ?_)
    rw [fmDen_fromOption] at hv
    exact hv.monoK (Nat.le_succ _)
  | combine e1 e2 =>
    simp only [LExpr.bnd] at hn hQ ⊢
    rw [LL.eval]
    refine Spec.bind (ih.eval S hp e1 x hC hpure.1 (by omega) (hQ.mono (by omega))) (fun l1 S1 hp1 hP1 hV1 => ?_)
    refine Spec.bind (ih.eval S1 hp1 e2 x hP1.cons hpure.2 (by omega) ((hQ.post hC hP1).mono (by omega)))
      (fun l2 S2 hp2 hP2 hV2 => ?_)
    exact (ih.combine S2 hp2 l1 l2 _ _ _ _ hP2.cons (hV1.ext hP2.ext) hV2 (by omega)
      ((hQ.post hC (hP1.trans hP2)).mono (by omega))).weaken (fun S' v _ hv => hv.monoK (by omega))
  | zip e1 e2 =>
    simp only [LExpr.bnd] at hn hQ ⊢
    rw [LL.eval]
    refine Spec.bind (ih.eval S hp e1 x hC hpure.1 (by omega) (hQ.mono (by omega))) (fun l1 S1 hp1 hP1 hV1 => ?_)
    refine Spec.bind (ih.eval S1 hp1 e2 x hP1.cons hpure.2 (by omega) ((hQ.post hC hP1).mono (by omega)))
      (fun l2 S2 hp2 hP2 hV2 => ?_)
    exact spec_mkZip hP2.cons ((hV1.ext hP2.ext).monoK (Nat.le_max_left _ _)) (hV2.monoK (Nat.le_max_right _ _))
  | zipidx e =>
    simp only [LExpr.bnd] at hn hQ ⊢
    rw [LL.eval]
    refine Spec.bind (ih.eval S hp e x hC hpure (by omega) (hQ.mono (by omega))) (fun l S1 hp1 hP1 hV => ?_)
    refine Spec.bind (spec_mkGen hP1.cons indexGen_total 0 (.idx 0) ⟨rfl, fun m => rfl⟩) (fun il S2 hp2 hP2 hVi => ?_)
    exact spec_mkZip hP2.cons (hVi.monoK (LExpr.bnd_ge3 e x)) (hV.ext hP2.ext)
  | scan e z f =>
    simp only [LExpr.bnd] at hn hQ ⊢
    rw [LL.eval]
    refine Spec.bind (ih.eval S hp e x hC hpure.1 (by omega) (hQ.mono (by omega))) (fun l S1 hp1 hP1 hV => ?_)
    exact spec_mkScan hP1.cons hV hpure.2 z

/-! ## all functions, every fuel -/

theorem totAll : ∀ fuel, TotAll fuel := by
  intro fuel
  induction fuel with
  | zero =>
    refine ⟨?_, ?_, ?_, ?_, ?_, ?_, ?_, ?_, ?_, ?_, ?_, ?_, ?_⟩
    · intro S hp l d K _ hV hK; have := hV.pos; omega
    · intro S hp l d K x _ hV _ hK; have := hV.pos; omega
    · intro S hp l d K _ hV _ hK; have := hV.pos; omega
    · intro S hp l d K _ hV hK; omega
    · intro S hp c hC hc hn
      obtain ⟨⟨cell, m⟩, hcell⟩ := cell_of_lt hp.hs c (by rw [← hC.nh]; exact hc)
      have := (hC.hs c cell m hcell).1; omega
    · intro S hp c d hC hc _ hn
      obtain ⟨⟨cell, m⟩, hcell⟩ := cell_of_lt hp.ts c (by rw [← hC.nt]; exact hc)
      have := (hC.ts c cell m hcell).1; omega
    · intro S hp c hC hc hn
      obtain ⟨⟨cell, m⟩, hcell⟩ := cell_of_lt hp.ls c (by rw [← hC.nl]; exact hc)
      have := (hC.ls c cell m hcell).1; omega
    · intro S hp k y _ _ hn; have := FnK.bnd_pos k y; omega
    · intro S hp t ty _ _ h2 hn; omega
    · intro S hp t d need K _ _ h2 hn; omega
    · intro S hp opt k ys Ks Bi _ _ _ _ hn; simp only [FMB] at hn; omega
    · intro S hp l1 l2 xs ys K1 K2 _ _ _ hn; omega
    · intro S hp e x _ _ hn; have := LExpr.bnd_pos e x; omega
  | succ n ih =>
    exact ⟨tot_isEmpty ih, tot_head ih, tot_tail ih, tot_headOpt ih, tot_forceH ih, tot_forceT ih, tot_forceL ih,
      tot_applyK ih, tot_runH ih, tot_runT ih, tot_flatMap ih, tot_combine ih, tot_eval ih⟩

end FpVerif.LL
