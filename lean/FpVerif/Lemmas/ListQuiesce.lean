import FpVerif.Lemmas.ListMemoPanic
/-!
# Lazy list: a cell is `running` only while its closure runs

Every operation of the model — whether it returns or panics — leaves exactly the cells running that
were running when it started (`SameRun`, preserved by all thirteen mutually recursive functions:
`keepAll`).  A cell is set `running` when its closure starts and, since `sync.Once` is done on the
return path AND on the panic path, it is `done` when the closure ends either way.  Hence from a heap
without running cells no sequence of operations ever leaves one behind, and the model panic `deadlock`
(forcing a running cell) can only come from genuine re-entrance: a closure that forces its own cell.
(Before the panic path was modelled this was false: a panicking closure left its cell `running`.)
-/
namespace FpVerif.LL
open FpVerif.It IM

def isRunning {T V : Type} : Option (Cell T V × Nat) → Prop
  | some (.running, _) => True
  | _ => False

/-- the same cells are running in both heaps -/
structure SameRun (hp hp' : Heap) : Prop where
  hs : ∀ i : Nat, isRunning hp'.hs[i]? ↔ isRunning hp.hs[i]?
  ts : ∀ i : Nat, isRunning hp'.ts[i]? ↔ isRunning hp.ts[i]?
  ls : ∀ i : Nat, isRunning hp'.ls[i]? ↔ isRunning hp.ls[i]?

theorem SameRun.refl (hp : Heap) : SameRun hp hp := ⟨fun _ => Iff.rfl, fun _ => Iff.rfl, fun _ => Iff.rfl⟩

theorem SameRun.trans {a b c : Heap} (h1 : SameRun a b) (h2 : SameRun b c) : SameRun a c :=
  ⟨fun i => (h2.hs i).trans (h1.hs i), fun i => (h2.ts i).trans (h1.ts i), fun i => (h2.ls i).trans (h1.ls i)⟩

/-- the computation ends (returns or panics) with the same cells running as it started with -/
def Keep {X : Type} (m : HM X) : Prop := ∀ hp lg, SameRun hp (m hp lg).2.1

theorem Keep.pure {X : Type} (x : X) : Keep (pure x : HM X) := fun hp _ => SameRun.refl hp
theorem Keep.panic {X : Type} (p : PanicVal) : Keep (IM.panic p : HM X) := fun hp _ => SameRun.refl hp
theorem Keep.liftG {X : Type} (g : GoM X) : Keep (IM.liftG g : HM X) := fun hp _ => SameRun.refl hp

theorem Keep.bind {X Y : Type} {m : HM X} {f : X → HM Y} (hm : Keep m) (hf : ∀ x, Keep (f x)) :
    Keep (m >>= f) := by
  intro hp lg
  have h1 := hm hp lg
  simp only [bind_apply]
  rcases hr : m hp lg with ⟨_ | x, hp1, lg1⟩
  · simpa [hr] using h1
  · simp only [hr] at h1 ⊢
    exact h1.trans (hf x hp1 lg1)

theorem Keep.ite {X : Type} {c : Prop} [Decidable c] {a b : HM X} (ha : Keep a) (hb : Keep b) :
    Keep (if c then a else b) := by
  split <;> assumption

theorem isRunning_push {T V : Type} (a : Array (Cell T V × Nat)) (t : T) (i : Nat) :
    isRunning (a.push (.pending t, 0))[i]? ↔ isRunning a[i]? := by
  rw [Array.getElem?_push]
  split
  · next h => subst h; simp [isRunning]
  · exact Iff.rfl

theorem keep_makeList (h : HThunk) (t : TThunk) : Keep (makeList h t) := by
  intro hp lg
  exact ⟨fun i => isRunning_push _ _ i, fun i => isRunning_push _ _ i, fun _ => Iff.rfl⟩

theorem keep_allocLazy (opt : LV) (k : FnK) : Keep (allocLazy opt k) := by
  intro hp lg
  exact ⟨fun _ => Iff.rfl, fun _ => Iff.rfl, fun i => isRunning_push _ _ i⟩

theorem keep_allocIter (id : Int) (xs : List Val) : Keep (allocIter id xs) := by
  intro hp lg
  exact ⟨fun _ => Iff.rfl, fun _ => Iff.rfl, fun _ => Iff.rfl⟩

theorem keep_iterNextOption (it : Nat) : Keep (iterNextOption it) := by
  intro hp lg
  show SameRun hp (iterNextOption it hp lg).2.1
  unfold iterNextOption
  split
  · split
    · exact ⟨fun _ => Iff.rfl, fun _ => Iff.rfl, fun _ => Iff.rfl⟩
    · exact SameRun.refl hp
  · exact SameRun.refl hp

/-- the life of one memo cell: pending in `a`; set running (`aR`); the closure runs and keeps the running
    cells (`aB`); the cell is set to something that is not running (`done v` / `done zero`) -/
theorem cell_cycle {T V : Type} (a aB : Array (Cell T V × Nat)) (c : Nat) (t : T) (n k k' : Nat) (d : Cell T V)
    (hd : d ≠ .running) (hcell : a[c]? = some (.pending t, n))
    (hB : ∀ i : Nat, isRunning aB[i]? ↔ isRunning (a.set! c (.running, k))[i]?) :
    ∀ i : Nat, isRunning (aB.set! c (d, k'))[i]? ↔ isRunning a[i]? := by
  intro i
  simp only [Array.set!_eq_setIfInBounds, Array.getElem?_setIfInBounds] at hB ⊢
  by_cases hi : c = i
  · subst hi
    rw [hcell]
    simp only [if_true]
    split
    · cases d <;> simp_all [isRunning]
    · simp [isRunning]
  · rw [if_neg hi]
    have := hB i
    rw [if_neg hi] at this
    exact this

theorem keep_forceH {fuel : Nat} (ih : ∀ t, Keep (runH fuel t)) (c : Nat) : Keep (LL.forceH (fuel + 1) c) := by
  intro hp lg
  rcases hcell : hp.hs[c]? with _ | ⟨cell, n⟩
  · have : LL.forceH (fuel + 1) c hp lg = (.error "bad-cell", hp, lg) := by simp [LL.forceH, bind_apply, hcell]
    rw [this]; exact SameRun.refl hp
  · rcases cell with t | _ | w
    · have hB := ih t { hp with hs := hp.hs.set! c (.running, n + 1) } lg
      rcases hr : runH fuel t { hp with hs := hp.hs.set! c (.running, n + 1) } lg with ⟨p | v, hpB, lgB⟩
      · rw [forceH_panic fuel c hp hpB lg lgB t n p hcell hr]
        rw [hr] at hB
        exact ⟨cell_cycle hp.hs hpB.hs c t n (n + 1) (n + 1) (.done none) (by simp) hcell hB.hs, hB.ts, hB.ls⟩
      · rw [forceH_ok fuel c hp hpB lg lgB t n v hcell hr]
        rw [hr] at hB
        exact ⟨cell_cycle hp.hs hpB.hs c t n (n + 1) (n + 1) (.done v) (by simp) hcell hB.hs, hB.ts, hB.ls⟩
    · have : LL.forceH (fuel + 1) c hp lg = (.error deadlock, hp, lg) := by simp [LL.forceH, bind_apply, hcell]
      rw [this]; exact SameRun.refl hp
    · rw [forceH_done fuel c hp lg w n hcell]; exact SameRun.refl hp

theorem forceT_ok (fuel c : Nat) (hp hp1 : Heap) (lg lg1 : Log) (t : TThunk) (n : Nat) (v : LV)
    (hcell : hp.ts[c]? = some (.pending t, n))
    (hrun : runT fuel t { hp with ts := hp.ts.set! c (.running, n + 1) } lg = (.ok v, hp1, lg1)) :
    forceT (fuel + 1) c hp lg = (.ok v, { hp1 with ts := hp1.ts.set! c (.done v, n + 1) }, lg1) := by
  simp only [Array.set!_eq_setIfInBounds] at hrun
  simp [forceT, bind_apply, hcell, onPanic, hrun]

theorem keep_forceT {fuel : Nat} (ih : ∀ t, Keep (runT fuel t)) (c : Nat) : Keep (LL.forceT (fuel + 1) c) := by
  intro hp lg
  rcases hcell : hp.ts[c]? with _ | ⟨cell, n⟩
  · have : LL.forceT (fuel + 1) c hp lg = (.error "bad-cell", hp, lg) := by simp [LL.forceT, bind_apply, hcell]
    rw [this]; exact SameRun.refl hp
  · rcases cell with t | _ | w
    · have hB := ih t { hp with ts := hp.ts.set! c (.running, n + 1) } lg
      rcases hr : runT fuel t { hp with ts := hp.ts.set! c (.running, n + 1) } lg with ⟨p | v, hpB, lgB⟩
      · rw [forceT_panic fuel c hp hpB lg lgB t n p hcell hr]
        rw [hr] at hB
        exact ⟨hB.hs, cell_cycle hp.ts hpB.ts c t n (n + 1) (n + 1) (.done .nilIface) (by simp) hcell hB.ts, hB.ls⟩
      · rw [forceT_ok fuel c hp hpB lg lgB t n v hcell hr]
        rw [hr] at hB
        exact ⟨hB.hs, cell_cycle hp.ts hpB.ts c t n (n + 1) (n + 1) (.done v) (by simp) hcell hB.ts, hB.ls⟩
    · have : LL.forceT (fuel + 1) c hp lg = (.error deadlock, hp, lg) := by simp [LL.forceT, bind_apply, hcell]
      rw [this]; exact SameRun.refl hp
    · rw [forceT_done fuel c hp lg w n hcell]; exact SameRun.refl hp

theorem forceL_ok (fuel c : Nat) (hp hp1 : Heap) (lg lg1 : Log) (opt : LV) (k : FnK) (n : Nat) (v : LV)
    (hcell : hp.ls[c]? = some (.pending (opt, k), n))
    (hrun : (do let x ← head fuel opt; applyK fuel k x : HM LV)
      { hp with ls := hp.ls.set! c (.running, n + 1) } lg = (.ok v, hp1, lg1)) :
    forceL (fuel + 1) c hp lg = (.ok v, { hp1 with ls := hp1.ls.set! c (.done v, n + 1) }, lg1) := by
  simp only [Array.set!_eq_setIfInBounds, bind_apply] at hrun
  simp [forceL, bind_apply, hcell, onPanic, hrun]

theorem keep_forceL {fuel : Nat} (ihh : ∀ l, Keep (head fuel l)) (ihk : ∀ k x, Keep (applyK fuel k x)) (c : Nat) :
    Keep (LL.forceL (fuel + 1) c) := by
  intro hp lg
  rcases hcell : hp.ls[c]? with _ | ⟨cell, n⟩
  · have : LL.forceL (fuel + 1) c hp lg = (.error "bad-cell", hp, lg) := by simp [LL.forceL, bind_apply, hcell]
    rw [this]; exact SameRun.refl hp
  · rcases cell with ⟨opt, k⟩ | _ | w
    · have hB := (Keep.bind (ihh opt) (fun x => ihk k x)) { hp with ls := hp.ls.set! c (.running, n + 1) } lg
      rcases hr : (do let x ← head fuel opt; applyK fuel k x : HM LV)
          { hp with ls := hp.ls.set! c (.running, n + 1) } lg with ⟨p | v, hpB, lgB⟩
      · rw [forceL_panic fuel c hp hpB lg lgB opt k n p hcell hr]
        rw [hr] at hB
        exact ⟨hB.hs, hB.ts, cell_cycle hp.ls hpB.ls c (opt, k) n (n + 1) (n + 1) (.done .nilIface) (by simp) hcell hB.ls⟩
      · rw [forceL_ok fuel c hp hpB lg lgB opt k n v hcell hr]
        rw [hr] at hB
        exact ⟨hB.hs, hB.ts, cell_cycle hp.ls hpB.ls c (opt, k) n (n + 1) (n + 1) (.done v) (by simp) hcell hB.ls⟩
    · have : LL.forceL (fuel + 1) c hp lg = (.error deadlock, hp, lg) := by simp [LL.forceL, bind_apply, hcell]
      rw [this]; exact SameRun.refl hp
    · rw [forceL_done fuel c hp lg w n hcell]; exact SameRun.refl hp

/-- all heap operations of the model, at a given fuel -/
structure KeepAll (fuel : Nat) : Prop where
  isEmpty : ∀ l, Keep (LL.isEmpty fuel l)
  head : ∀ l, Keep (LL.head fuel l)
  tail : ∀ l, Keep (LL.tail fuel l)
  headOpt : ∀ l, Keep (LL.headOpt fuel l)
  forceH : ∀ c, Keep (LL.forceH fuel c)
  forceT : ∀ c, Keep (LL.forceT fuel c)
  forceL : ∀ c, Keep (LL.forceL fuel c)
  applyK : ∀ k x, Keep (LL.applyK fuel k x)
  runH : ∀ t, Keep (LL.runH fuel t)
  runT : ∀ t, Keep (LL.runT fuel t)
  flatMap : ∀ l k, Keep (LL.flatMap fuel l k)
  combine : ∀ a b, Keep (LL.combine fuel a b)
  eval : ∀ e x, Keep (LL.eval fuel e x)

macro "keep_step" : tactic =>
  `(tactic| first
    | (cases ‹_ + 1 = Nat.succ _›)
    | (exact fun h => absurd h (Nat.succ_ne_zero _))
    | exact Keep.pure _
    | exact Keep.panic _
    | exact Keep.liftG _
    | exact keep_makeList _ _
    | exact keep_allocLazy _ _
    | exact keep_allocIter _ _
    | exact keep_iterNextOption _
    | omega
    | (apply KeepAll.isEmpty; assumption)
    | (apply KeepAll.head; assumption)
    | (apply KeepAll.tail; assumption)
    | (apply KeepAll.headOpt; assumption)
    | (apply KeepAll.forceH; assumption)
    | (apply KeepAll.forceT; assumption)
    | (apply KeepAll.forceL; assumption)
    | (apply KeepAll.applyK; assumption)
    | (apply KeepAll.runH; assumption)
    | (apply KeepAll.runT; assumption)
    | (apply KeepAll.flatMap; assumption)
    | (apply KeepAll.combine; assumption)
    | (apply KeepAll.eval; assumption)
    | (refine Keep.bind ?_ (fun _ => ?_))
    | (apply Keep.ite)
    | split)

attribute [local irreducible] LL.isEmpty LL.head LL.tail LL.headOpt LL.forceH LL.forceT LL.forceL LL.applyK LL.runH LL.runT
  LL.flatMap LL.combine LL.eval in
theorem keepAll : ∀ fuel, KeepAll fuel := by
  intro fuel
  induction fuel with
  | zero =>
    constructor <;> intros <;>
      first
        | (rw [LL.isEmpty]; exact Keep.panic _) | (rw [LL.head]; exact Keep.panic _)
        | (rw [LL.tail]; exact Keep.panic _) | (rw [LL.headOpt]; exact Keep.panic _)
        | (rw [LL.forceH]; exact Keep.panic _) | (rw [LL.forceT]; exact Keep.panic _)
        | (rw [LL.forceL]; exact Keep.panic _) | (rw [LL.applyK]; exact Keep.panic _)
        | (rw [LL.runH]; exact Keep.panic _) | (rw [LL.runT]; exact Keep.panic _)
        | (rw [LL.flatMap]; exact Keep.panic _) | (rw [LL.combine]; exact Keep.panic _)
        | (rw [LL.eval]; exact Keep.panic _)
  | succ fuel ih =>
    constructor
    · intro l; cases l <;> rw [LL.isEmpty] <;> repeat keep_step
    · intro l; rw [LL.head.eq_def]; repeat keep_step
    · intro l; rw [LL.tail.eq_def]; repeat keep_step
    · intro l; rw [LL.headOpt]; repeat keep_step
    · intro c; exact keep_forceH ih.runH c
    · intro c; exact keep_forceT ih.runT c
    · intro c; exact keep_forceL ih.head ih.applyK c
    · intro k x; cases k <;> rw [LL.applyK] <;> repeat keep_step
    · intro t; cases t <;> rw [LL.runH] <;> repeat keep_step
    · intro t; cases t <;> rw [LL.runT] <;> repeat keep_step
    · intro l k; rw [LL.flatMap]; repeat keep_step
    · intro a b; rw [LL.combine]; repeat keep_step
    · intro e x
      cases e with
      | fromOption o => cases o <;> rw [LL.eval] <;> repeat keep_step
      | _ => rw [LL.eval] <;> repeat keep_step

theorem keep_toSeq : ∀ fuel l acc, Keep (LL.toSeq fuel l acc) := by
  intro fuel
  induction fuel with
  | zero => intro l acc; exact Keep.panic _
  | succ n ih =>
    intro l acc
    have hA := keepAll n
    simp only [LL.toSeq]
    refine Keep.bind (hA.isEmpty l) (fun b => ?_)
    cases b
    · exact Keep.bind (hA.head l) (fun v => Keep.bind (hA.tail l) (fun t => ih t _))
    · exact Keep.pure _

theorem keep_fold (f : Val → Val → GoM Val) : ∀ fuel l z, Keep (LL.fold f fuel l z) := by
  intro fuel
  induction fuel with
  | zero => intro l z; exact Keep.panic _
  | succ n ih =>
    intro l z
    have hA := keepAll n
    simp only [LL.fold]
    refine Keep.bind (hA.isEmpty l) (fun b => ?_)
    cases b
    · exact Keep.bind (hA.head l) (fun v => Keep.bind (Keep.liftG _) (fun s => Keep.bind (hA.tail l) (fun t => ih t _)))
    · exact Keep.pure _

/-- no cell is running -/
def Heap.NoRunning (hp : Heap) : Prop :=
  (∀ i : Nat, ¬ isRunning hp.hs[i]?) ∧ (∀ i : Nat, ¬ isRunning hp.ts[i]?) ∧ (∀ i : Nat, ¬ isRunning hp.ls[i]?)

theorem Heap.NoRunning.empty : ({} : Heap).NoRunning := by
  refine ⟨fun i => ?_, fun i => ?_, fun i => ?_⟩ <;> simp [isRunning]

theorem SameRun.noRunning {hp hp' : Heap} (h : SameRun hp hp') (hn : hp.NoRunning) : hp'.NoRunning :=
  ⟨fun i hr => hn.1 i ((h.hs i).mp hr), fun i hr => hn.2.1 i ((h.ts i).mp hr), fun i hr => hn.2.2 i ((h.ls i).mp hr)⟩

end FpVerif.LL
