import FpVerif.Lemmas.HeapDel2
import FpVerif.Model.HamtWorld
import FpVerif.Lemmas.HamtWrap
/-!
The composite operations of the `fp.Map` / `fp.Set` wrappers (`Concat`, `UpdatedWith`, `Diff`,
`Intersect`) and the constructors, as simulations: each returns a collection that represents the
value-level result, only allocates, and its footprint consists of cells of the receiver's footprint
and of fresh cells.
-/
set_option linter.unusedSimpArgs false
set_option linter.unusedVariables false
namespace FpVerif.HamtHeap
open FpVerif.Hamt
variable {K V : Type} {α β : Type}

/-- `x`, run in `H`, returns a collection representing `a'` — see `HSimRes` -/
def PRes (H : Heap K V) (fps : List Addr) (x : HM K V Addr) (a' : Hamt K V) : Prop :=
  ∃ m' H', x H = .ok (m', H') ∧ HSimRes false H fps H' m' a'

theorem HSimRes.le {H H' : Heap K V} {fp : List Addr} {m' : Addr} {a' : Hamt K V}
    (h : HSimRes false H fp H' m' a') : Heap.le H H' := by
  obtain ⟨_, _, _, he, _⟩ := h; exact he.to_le

theorem pres_updated (h : Hasher K) {H : Heap K V} {m : Addr} {a : Hamt K V} {fp : List Addr}
    (habs : absHamt H m = some (a, fp)) (hnd : fp.Nodup) (k : K) (v : V) {a' : Hamt K V}
    (hv : a.set h k v false = .ok a') : PRes H fp (hamtUpdated h m k v) a' :=
  hamtSet_sim h habs hnd k v false (by intro hm; cases hm) hv

theorem pres_removed (h : Hasher K) {H : Heap K V} {m : Addr} {a : Hamt K V} {fp : List Addr}
    (habs : absHamt H m = some (a, fp)) (hnd : fp.Nodup) (ks : List K) {a' : Hamt K V}
    (hv : a.removed h ks = .ok a') : PRes H fp (hamtRemoved h m ks) a' :=
  hamtRemoved_sim h ks habs hnd hv

theorem pres_new (H : Heap K V) : PRes H [] (hamtNew : HM K V Addr) Hamt.empty := by
  refine ⟨H.size, H.push (.hamt 0 none), rfl, [H.size], absHamt_nil (get_push_size _ _), by simp,
    Eff.push _ _ _, ?_⟩
  intro x hx; simp at hx; right; omega

theorem pres_same {H : Heap K V} {m : Addr} {a : Hamt K V} {fp : List Addr}
    (habs : absHamt H m = some (a, fp)) (hnd : fp.Nodup) : PRes H fp (pure m : HM K V Addr) a :=
  ⟨m, H, rfl, fp, habs, hnd, Eff.refl _ _, fun x hx => Or.inl hx⟩

/-- sequencing: a persistent step after a persistent computation -/
theorem HSimRes.seq {H H1 H2 : Heap K V} {fp fp1 : List Addr} {m1 m2 : Addr} {a1 a2 : Hamt K V}
    (h1 : absHamt H1 m1 = some (a1, fp1)) (hnd1 : fp1.Nodup) (he1 : Eff H H1 [])
    (hs1 : ∀ x ∈ fp1, x ∈ fp ∨ H.size ≤ x) (h2 : HSimRes false H1 fp1 H2 m2 a2) :
    HSimRes false H fp H2 m2 a2 :=
  HSimRes.trans ⟨fp1, h1, hnd1, he1, hs1, rfl⟩ h2

/-- a loop `ret = step(ret, c)` of persistent steps, under a side condition `P` on the heap that heap
    extension preserves (e.g. "the other operand is still represented") -/
theorem pres_fold {γ : Type} (f : Addr → γ → HM K V Addr) (g : Hamt K V → γ → GoE (Hamt K V))
    (P : Heap K V → Prop) (hP : ∀ H H', P H → Heap.le H H' → P H')
    (hstep : ∀ (H : Heap K V) (m : Addr) (a : Hamt K V) (fp : List Addr) (c : γ) (a' : Hamt K V),
      P H → absHamt H m = some (a, fp) → fp.Nodup → g a c = .ok a' → PRes H fp (f m c) a') :
    ∀ (l : List γ) (H : Heap K V) (m : Addr) (a : Hamt K V) (fp : List Addr) (a' : Hamt K V),
      P H → absHamt H m = some (a, fp) → fp.Nodup → l.foldlM g a = .ok a' → PRes H fp (l.foldlM f m) a' := by
  intro l
  induction l with
  | nil =>
    intro H m a fp a' hp habs hnd hv
    simp only [List.foldlM_nil, pure, Except.pure] at hv
    injection hv with hv; subst hv
    exact pres_same habs hnd
  | cons c l ih =>
    intro H m a fp a' hp habs hnd hv
    rw [List.foldlM_cons] at hv
    cases hg : g a c with
    | error e => rw [hg] at hv; cases hv
    | ok a1 =>
      rw [hg] at hv
      simp only [bind, Except.bind] at hv
      obtain ⟨m1, H1, h1, fp1, habs1, hnd1, heff1, hsub1⟩ := hstep H m a fp c a1 hp habs hnd hg
      obtain ⟨m2, H2, h2, hres2⟩ := ih H1 m1 a1 fp1 a' (hP _ _ hp heff1.to_le) habs1 hnd1 hv
      refine ⟨m2, H2, ?_, HSimRes.seq habs1 hnd1 heff1 hsub1 hres2⟩
      rw [List.foldlM_cons, bind_ok h1]
      exact h2

/-- `Concat` -/
theorem pres_concat (h : Hasher K) (kvs : List (K × V)) {H : Heap K V} {m : Addr} {a : Hamt K V} {fp : List Addr}
    (habs : absHamt H m = some (a, fp)) (hnd : fp.Nodup) {a' : Hamt K V}
    (hv : kvs.foldlM (fun (ret : Hamt K V) kv => ret.set h kv.1 kv.2 false) a = .ok a') :
    PRes H fp (hamtConcat h m kvs) a' := by
  unfold hamtConcat
  refine pres_fold (γ := K × V) (f := fun ret kv => hamtUpdated h ret kv.1 kv.2)
    (g := fun ret kv => ret.set h kv.1 kv.2 false) (P := fun _ => True) (fun _ _ _ _ => trivial) ?_
    kvs H m a fp a' trivial habs hnd hv
  intro H m a fp c a' _ habs hnd hg
  exact pres_updated h habs hnd c.1 c.2 hg

theorem readHamt_apply {H : Heap K V} {m : Addr} {a : Hamt K V} {fp : List Addr}
    (habs : absHamt H m = some (a, fp)) : readHamt m H = .ok (a, H) := by
  unfold readHamt; rw [habs]

/-- value-level `Map.UpdatedWith` on the trie -/
def Hamt.updatedWith (h : Hasher K) (a : Hamt K V) (k : K) (remap : Option V → Option V) : GoE (Hamt K V) := do
  let v ← a.get h k
  match remap v with
  | some x => a.set h k x false
  | none => if v.isSome then a.removed h [k] else pure a

/-- `UpdatedWith` -/
theorem pres_updatedWith (h : Hasher K) {H : Heap K V} {m : Addr} {a : Hamt K V} {fp : List Addr}
    (habs : absHamt H m = some (a, fp)) (hnd : fp.Nodup) (k : K) (remap : Option V → Option V)
    {a' : Hamt K V} (hv : Hamt.updatedWith h a k remap = .ok a') :
    PRes H fp (hamtUpdatedWith h m k remap) a' := by
  unfold Hamt.updatedWith at hv
  unfold hamtUpdatedWith PRes
  rw [bind_ok (readHamt_apply habs)]
  cases hg : a.get h k with
  | error e => rw [hg] at hv; cases hv
  | ok v =>
    rw [hg] at hv
    simp only [bind, Except.bind] at hv
    rw [bind_ok (liftE_ok _ rfl)]
    cases hr : remap v with
    | some x =>
      rw [hr] at hv
      exact pres_updated h habs hnd k x hv
    | none =>
      rw [hr] at hv
      dsimp only at hv ⊢
      by_cases hs : v.isSome = true
      · simp only [hs, if_true] at hv ⊢
        exact pres_removed h habs hnd [k] hv
      · simp only [hs, Bool.false_eq_true, if_false, pure, Except.pure] at hv
        simp only [hs, Bool.false_eq_true, if_false]
        injection hv with hv; subst hv
        exact pres_same habs hnd

/-- value-level loop of `Set.Diff` (`neg = true`) / `Set.Intersect` (`neg = false`) on the tries -/
def Hamt.filterInto (h : Hasher K) (ai aj : Hamt K V) (neg : Bool) (tt : V) : GoE (Hamt K V) := do
  let es ← ai.iterList
  es.foldlM (fun (ret : Hamt K V) e => do
    let c ← aj.get h e.1
    if c.isSome != neg then ret.set h e.1 tt false else pure ret) Hamt.empty

/-- `Diff` / `Intersect`: the result is built from a new empty trie, so its footprint is entirely fresh -/
theorem pres_filterInto (h : Hasher K) {H : Heap K V} {mi mj : Addr} {ai aj : Hamt K V} {fpi fpj : List Addr}
    (habsi : absHamt H mi = some (ai, fpi)) (habsj : absHamt H mj = some (aj, fpj)) (neg : Bool) (tt : V)
    {a' : Hamt K V} (hv : Hamt.filterInto h ai aj neg tt = .ok a') :
    PRes H [] (hamtFilterInto h mi mj neg tt) a' := by
  unfold Hamt.filterInto at hv
  unfold hamtFilterInto
  cases hes : ai.iterList with
  | error e => rw [hes] at hv; cases hv
  | ok es =>
    rw [hes] at hv
    simp only [bind, Except.bind] at hv
    obtain ⟨m0, H0, h0, fp0, habs0, hnd0, heff0, hsub0⟩ := pres_new H
    have hfold := pres_fold
      (fun ret (e : K × V) => do
        let c ← liftE ((← readHamt mj).get h e.1)
        if c.isSome != neg then hamtUpdated h ret e.1 tt else pure ret)
      (fun (ret : Hamt K V) (e : K × V) => do
        let c ← aj.get h e.1
        if c.isSome != neg then ret.set h e.1 tt false else pure ret)
      (fun H' => absHamt H' mj = some (aj, fpj)) (fun _ _ hp hle => absHamt_le hp hle)
      (by
        intro H' m a fp c a'' hp habs hnd hg
        cases hget : aj.get h c.1 with
        | error e => rw [hget] at hg; cases hg
        | ok cv =>
          rw [hget] at hg
          simp only [bind, Except.bind] at hg
          unfold PRes
          rw [bind_ok (readHamt_apply hp), bind_ok (liftE_ok _ hget)]
          by_cases hc : (cv.isSome != neg) = true
          · simp only [hc, if_true] at hg ⊢
            exact pres_updated h habs hnd c.1 tt hg
          · simp only [hc, Bool.false_eq_true, if_false, pure, Except.pure] at hg
            simp only [hc, Bool.false_eq_true, if_false]
            injection hg with hg; subst hg
            exact pres_same habs hnd)
      es H0 m0 Hamt.empty fp0 a' (absHamt_le habsj heff0.to_le) habs0 hnd0 hv
    obtain ⟨m2, H2, h2, hres2⟩ := hfold
    refine ⟨m2, H2, ?_, HSimRes.seq habs0 hnd0 heff0 hsub0 hres2⟩
    rw [bind_ok (readHamt_apply habsi), bind_ok (liftE_ok _ hes), bind_ok h0]
    exact h2

end FpVerif.HamtHeap
