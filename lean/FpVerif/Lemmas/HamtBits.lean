import FpVerif.Model.Hamt
/-!
Bit-level facts behind the bitmap-indexed node: `rank` (= popcount of the bits below a position)
is the index of a set bit in the ascending list `bitsOf` of set bits; setting / clearing one bit
inserts / removes exactly that position; hash prefixes and fragments.
-/
set_option linter.unusedSimpArgs false
namespace FpVerif.Hamt

/-- `bits.OnesCount32(bitmap & (bit-1))` for `bit = 1 << i` -/
def rank (bm i : Nat) : Nat := popCount (bm &&& (1 <<< i - 1))

/-- the set bits below `j` -/
def lo (bm j : Nat) : List Nat := (List.range j).filter (fun i => bm.testBit i)
/-- the set bits above `j` (below 32) -/
def hi (bm j : Nat) : List Nat := (List.range' (j + 1) (31 - j)).filter (fun i => bm.testBit i)

theorem testBit_bit (j i : Nat) : (1 <<< j).testBit i = decide (j = i) := by
  rw [Nat.one_shiftLeft, Nat.testBit_two_pow]

theorem and_bit_eq_zero (bm j : Nat) : (bm &&& (1 <<< j) == 0) = !bm.testBit j := by
  cases ht : bm.testBit j with
  | false =>
    have : bm &&& (1 <<< j) = 0 := by
      apply Nat.eq_of_testBit_eq
      intro i
      rw [Nat.testBit_and, testBit_bit]
      by_cases h : j = i
      · subst h; simp [ht]
      · simp [h]
    simp [this]
  | true =>
    have : (bm &&& (1 <<< j)) ≠ 0 := by
      intro h0
      have := congrArg (fun x => Nat.testBit x j) h0
      simp [Nat.testBit_and, testBit_bit, ht] at this
    simp [this]

theorem and_bit_ne_zero (bm j : Nat) : (bm &&& (1 <<< j) != 0) = bm.testBit j := by
  have := and_bit_eq_zero bm j
  cases ht : bm.testBit j <;> simp_all [bne]

theorem range32_split {j : Nat} (hj : j < 32) :
    List.range 32 = List.range j ++ j :: List.range' (j + 1) (31 - j) := by
  rw [List.range_eq_range', List.range_eq_range']
  have h1 : List.range' 0 32 = List.range' 0 j ++ List.range' (0 + 1 * j) (32 - j) := by
    rw [List.range'_append]
    have : j + (32 - j) = 32 := by omega
    rw [this]
  rw [h1]
  congr 1
  have : 32 - j = (31 - j) + 1 := by omega
  rw [this, List.range'_succ]
  simp

theorem mem_lo {bm j x : Nat} (h : x ∈ lo bm j) : x < j ∧ bm.testBit x = true := by
  simpa [lo] using h

theorem mem_hi {bm j x : Nat} (h : x ∈ hi bm j) : j < x ∧ x < 32 ∧ bm.testBit x = true := by
  simp [hi, List.mem_range'_1] at h
  exact ⟨by omega, by omega, h.2⟩

theorem bitsOf_of_testBit {bm j : Nat} (hj : j < 32) (ht : bm.testBit j = true) :
    bitsOf bm = lo bm j ++ j :: hi bm j := by
  simp [bitsOf, lo, hi, range32_split hj, List.filter_cons, ht]

theorem bitsOf_of_not_testBit {bm j : Nat} (hj : j < 32) (ht : bm.testBit j = false) :
    bitsOf bm = lo bm j ++ hi bm j := by
  simp [bitsOf, lo, hi, range32_split hj, List.filter_cons, ht]

theorem lo_congr {bm bm' j : Nat} (h : ∀ x, x ≠ j → bm'.testBit x = bm.testBit x) : lo bm' j = lo bm j := by
  unfold lo
  apply List.filter_congr
  intro x hx
  have : x < j := by simpa using hx
  exact h x (by omega)

theorem hi_congr {bm bm' j : Nat} (h : ∀ x, x ≠ j → bm'.testBit x = bm.testBit x) : hi bm' j = hi bm j := by
  unfold hi
  apply List.filter_congr
  intro x hx
  have : j + 1 ≤ x := by
    simp [List.mem_range'_1] at hx; omega
  exact h x (by omega)

theorem testBit_or_bit (bm j x : Nat) : (bm ||| (1 <<< j)).testBit x = (bm.testBit x || decide (j = x)) := by
  rw [Nat.testBit_or, testBit_bit]

theorem testBit_xor_bit (bm j x : Nat) : (bm ^^^ (1 <<< j)).testBit x = (bm.testBit x ^^ decide (j = x)) := by
  rw [Nat.testBit_xor, testBit_bit]

theorem bitsOf_or_bit {bm j : Nat} (hj : j < 32) : bitsOf (bm ||| (1 <<< j)) = lo bm j ++ j :: hi bm j := by
  have ht : (bm ||| (1 <<< j)).testBit j = true := by rw [testBit_or_bit]; simp
  rw [bitsOf_of_testBit hj ht]
  have hc : ∀ x, x ≠ j → (bm ||| (1 <<< j)).testBit x = bm.testBit x := by
    intro x hx
    have : ¬ j = x := fun h => hx h.symm
    rw [testBit_or_bit]; simp [this]
  rw [lo_congr hc, hi_congr hc]

theorem bitsOf_xor_bit {bm j : Nat} (hj : j < 32) (ht : bm.testBit j = true) :
    bitsOf (bm ^^^ (1 <<< j)) = lo bm j ++ hi bm j := by
  have ht' : (bm ^^^ (1 <<< j)).testBit j = false := by rw [testBit_xor_bit]; simp [ht]
  rw [bitsOf_of_not_testBit hj ht']
  have hc : ∀ x, x ≠ j → (bm ^^^ (1 <<< j)).testBit x = bm.testBit x := by
    intro x hx
    have : ¬ j = x := fun h => hx h.symm
    rw [testBit_xor_bit]; simp [this]
  rw [lo_congr hc, hi_congr hc]

theorem or_bit_of_testBit {bm j : Nat} (ht : bm.testBit j = true) : bm ||| (1 <<< j) = bm := by
  apply Nat.eq_of_testBit_eq
  intro i
  rw [testBit_or_bit]
  by_cases h : j = i
  · subst h; simp [ht]
  · simp [h]

theorem rank_eq_lo {bm j : Nat} (hj : j < 32) : rank bm j = (lo bm j).length := by
  unfold rank popCount bitsOf lo
  congr 1
  rw [range32_split hj, List.filter_append, List.filter_cons]
  have h1 : List.filter (fun i => (bm &&& (1 <<< j - 1)).testBit i) (List.range j) =
      List.filter (fun i => bm.testBit i) (List.range j) := by
    apply List.filter_congr
    intro x hx
    have : x < j := by simpa using hx
    simp [Nat.testBit_and, Nat.one_shiftLeft, Nat.testBit_two_pow_sub_one, this]
  have h2 : List.filter (fun i => (bm &&& (1 <<< j - 1)).testBit i) (List.range' (j + 1) (31 - j)) = [] := by
    rw [List.filter_eq_nil_iff]
    intro x hx
    have : ¬ x < j := by simp [List.mem_range'_1] at hx; omega
    simp [Nat.testBit_and, Nat.one_shiftLeft, Nat.testBit_two_pow_sub_one, this]
  have h3 : (bm &&& (1 <<< j - 1)).testBit j = false := by
    simp [Nat.testBit_and, Nat.one_shiftLeft, Nat.testBit_two_pow_sub_one]
  rw [h1, h2, h3]
  simp

theorem mem_bitsOf {bm i : Nat} : i ∈ bitsOf bm ↔ i < 32 ∧ bm.testBit i = true := by
  simp [bitsOf]

theorem or_bit_lt {bm j : Nat} (hb : bm < 2 ^ 32) (hj : j < 32) : bm ||| (1 <<< j) < 2 ^ 32 := by
  apply Nat.or_lt_two_pow hb
  rw [Nat.one_shiftLeft]
  exact Nat.pow_lt_pow_right (by decide) hj

theorem xor_bit_lt {bm j : Nat} (hb : bm < 2 ^ 32) (hj : j < 32) : bm ^^^ (1 <<< j) < 2 ^ 32 := by
  apply Nat.xor_lt_two_pow hb
  rw [Nat.one_shiftLeft]
  exact Nat.pow_lt_pow_right (by decide) hj

-- fragments and prefixes -----------------------------------------------------------------------

theorem frag_eq (kh : UInt32) (s : Nat) : frag kh s = kh.toNat / 2 ^ s % 32 := by
  unfold frag mapNodeMask
  rw [Nat.shiftRight_eq_div_pow]
  exact Nat.and_two_pow_sub_one_eq_mod _ 5

theorem frag_lt (kh : UInt32) (s : Nat) : frag kh s < 32 := by
  rw [frag_eq]; exact Nat.mod_lt _ (by decide)

/-- the two hashes agree on their low `s` bits -/
def pfxEq (s : Nat) (a b : UInt32) : Prop := a.toNat % 2 ^ s = b.toNat % 2 ^ s

theorem pfxEq_zero (a b : UInt32) : pfxEq 0 a b := by simp [pfxEq, Nat.mod_one]

theorem pfxEq_refl (s : Nat) (a : UInt32) : pfxEq s a a := rfl

theorem pfxEq_symm {s : Nat} {a b : UInt32} (h : pfxEq s a b) : pfxEq s b a := Eq.symm h

theorem pfxEq_trans {s : Nat} {a b c : UInt32} (h : pfxEq s a b) (h' : pfxEq s b c) : pfxEq s a c :=
  Eq.trans h h'

theorem pfxEq_succ {s : Nat} {a b : UInt32} :
    pfxEq (s + 5) a b ↔ pfxEq s a b ∧ frag a s = frag b s := by
  unfold pfxEq
  rw [frag_eq, frag_eq]
  have hp : (2:Nat) ^ (s + 5) = 2 ^ s * 32 := by rw [Nat.pow_add]
  have hm : 0 < 2 ^ s := Nat.pow_pos (by decide)
  rw [hp, Nat.mod_mul, Nat.mod_mul]
  constructor
  · intro h
    have h1 := congrArg (· % 2 ^ s) h
    simp only [Nat.add_mul_mod_self_left, Nat.mod_mod] at h1
    refine ⟨h1, ?_⟩
    rw [h1] at h
    exact Nat.eq_of_mul_eq_mul_left hm (Nat.add_left_cancel h)
  · rintro ⟨h1, h2⟩
    rw [h1, h2]

theorem pfxEq_eq {s : Nat} {a b : UInt32} (hs : 32 ≤ s) (h : pfxEq s a b) : a = b := by
  unfold pfxEq at h
  have ha : a.toNat < 2 ^ s := Nat.lt_of_lt_of_le a.toNat_lt (Nat.pow_le_pow_right (by decide) hs)
  have hb : b.toNat < 2 ^ s := Nat.lt_of_lt_of_le b.toNat_lt (Nat.pow_le_pow_right (by decide) hs)
  rw [Nat.mod_eq_of_lt ha, Nat.mod_eq_of_lt hb] at h
  exact UInt32.toNat_inj.mp h

theorem pfxEq_mono {s t : Nat} {a b : UInt32} (hst : s ≤ t) (h : pfxEq t a b) : pfxEq s a b := by
  unfold pfxEq at *
  obtain ⟨d, rfl⟩ := Nat.exists_eq_add_of_le hst
  have := congrArg (· % 2 ^ s) h
  simp only [Nat.pow_add] at this
  rwa [Nat.mod_mul_right_mod, Nat.mod_mul_right_mod] at this

end FpVerif.Hamt
