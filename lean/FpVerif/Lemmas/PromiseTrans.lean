import FpVerif.Model.Promise
/-!
Inversion of `Promise.stepT`: every executed atomic block is one of 16 transitions.  All
preservation proofs go by cases on `Trans`.
-/
namespace FpVerif.Promise
open FpVerif FpVerif.Sched

variable {R : Type}

/-- result of a successful CAS -/
def bump (sh : Shared R) (c : Cell R) : Shared R := { sh with cell := c, ver := sh.ver + 1 }
def pushLog (sh : Shared R) (cb : Cb) (r : R) : Shared R := { sh with log := sh.log ++ [(cb, r)] }
def setHeap (sh : Shared R) (h : Heap) : Shared R := { sh with heap := h }

@[simp] theorem bump_cell (sh : Shared R) (c : Cell R) : (bump sh c).cell = c := rfl
@[simp] theorem bump_ver (sh : Shared R) (c : Cell R) : (bump sh c).ver = sh.ver + 1 := rfl
@[simp] theorem bump_heap (sh : Shared R) (c : Cell R) : (bump sh c).heap = sh.heap := rfl
@[simp] theorem bump_log (sh : Shared R) (c : Cell R) : (bump sh c).log = sh.log := rfl
@[simp] theorem pushLog_cell (sh : Shared R) (cb : Cb) (r : R) : (pushLog sh cb r).cell = sh.cell := rfl
@[simp] theorem pushLog_ver (sh : Shared R) (cb : Cb) (r : R) : (pushLog sh cb r).ver = sh.ver := rfl
@[simp] theorem pushLog_heap (sh : Shared R) (cb : Cb) (r : R) : (pushLog sh cb r).heap = sh.heap := rfl
@[simp] theorem pushLog_log (sh : Shared R) (cb : Cb) (r : R) :
    (pushLog sh cb r).log = sh.log ++ [(cb, r)] := rfl
@[simp] theorem setHeap_cell (sh : Shared R) (h : Heap) : (setHeap sh h).cell = sh.cell := rfl
@[simp] theorem setHeap_ver (sh : Shared R) (h : Heap) : (setHeap sh h).ver = sh.ver := rfl
@[simp] theorem setHeap_heap (sh : Shared R) (h : Heap) : (setHeap sh h).heap = h := rfl
@[simp] theorem setHeap_log (sh : Shared R) (h : Heap) : (setHeap sh h).log = sh.log := rfl

def captOf : Cell R → Capt
  | .cbs s => .cbs s
  | _ => .nil

def afterWin (h : Heap) (r : R) : Capt → Local R
  | .nil => .cRet r true
  | .cbs s => enterRun h r s 0

inductive Trans (v : Variant) : Shared R → Local R → Shared R → Local R → Prop
  | cGetPend {sh : Shared R} {r : R} : sh.cell.isDone = false →
      Trans v sh (.cGet r) sh (.cCas r sh.ver (captOf sh.cell))
  | cGetDone {sh : Shared R} {r r' : R} : sh.cell = .done r' →
      Trans v sh (.cGet r) sh (.cRet r false)
  | cCasOk {sh : Shared R} {r : R} {ap : Nat} {c : Capt} : ap = sh.ver →
      Trans v sh (.cCas r ap c) (bump sh (.done r)) (afterWin sh.heap r c)
  | cCasFail {sh : Shared R} {r : R} {ap : Nat} {c : Capt} : ap ≠ sh.ver →
      Trans v sh (.cCas r ap c) sh (.cGet r)
  | cRun {sh : Shared R} {r : R} {s : Slice} {i : Nat} {cb : Cb} :
      Trans v sh (.cRun r s i cb) (pushLog sh cb r) (enterRun sh.heap r s (i + 1))
  | rGetNil {sh : Shared R} {cb : Cb} : sh.cell = .nil →
      Trans v sh (.rGet cb) (setHeap sh (allocCopy sh.heap [] cb).1)
        (.rCas cb sh.ver (allocCopy sh.heap [] cb).2)
  | rGetCbs {sh : Shared R} {cb : Cb} {s : Slice} : sh.cell = .cbs s →
      Trans v sh (.rGet cb) sh (.rAppend cb sh.ver s)
  | rGetDone {sh : Shared R} {cb : Cb} {r : R} : sh.cell = .done r →
      Trans v sh (.rGet cb) sh (.rCall cb r)
  | rAppend {sh : Shared R} {cb : Cb} {ap : Nat} {s : Slice} :
      Trans v sh (.rAppend cb ap s) (setHeap sh (goAppend v sh.heap s cb).1)
        (.rCas cb ap (goAppend v sh.heap s cb).2)
  | rCasOk {sh : Shared R} {cb : Cb} {ap : Nat} {new : Slice} : ap = sh.ver →
      Trans v sh (.rCas cb ap new) (bump sh (.cbs new)) (.rRet cb)
  | rCasFail {sh : Shared R} {cb : Cb} {ap : Nat} {new : Slice} : ap ≠ sh.ver →
      Trans v sh (.rCas cb ap new) sh (.rGet cb)
  | rCall {sh : Shared R} {cb : Cb} {r : R} :
      Trans v sh (.rCall cb r) (pushLog sh cb r) (.rRet cb)
  | oLoad1Done {sh : Shared R} : sh.cell.isDone = true → Trans v sh .oLoad1 sh .oLoad2
  | oLoad1Pend {sh : Shared R} : sh.cell.isDone = false → Trans v sh .oLoad1 sh (.oRet none)
  | oLoad2Done {sh : Shared R} {r : R} : sh.cell = .done r → Trans v sh .oLoad2 sh (.oRet (some r))
  | oLoad2Pend {sh : Shared R} : sh.cell.isDone = false → Trans v sh .oLoad2 sh (.panicked .observe)

theorem stepT_trans {v : Variant} {sh sh' : Shared R} {l l' : Local R}
    (h : stepT v sh l = some (sh', l')) : Trans v sh l sh' l' := by
  cases l with
  | cGet r =>
    simp only [stepT] at h
    split at h <;> simp at h <;> obtain ⟨rfl, rfl⟩ := h
    · rename_i hc; have := Trans.cGetPend (v := v) (sh := sh) (r := r) (by simp [hc, Cell.isDone])
      simpa [hc, captOf] using this
    · rename_i s hc; have := Trans.cGetPend (v := v) (sh := sh) (r := r) (by simp [hc, Cell.isDone])
      simpa [hc, captOf] using this
    · rename_i r' hc; exact Trans.cGetDone hc
  | cCas r ap c =>
    simp only [stepT] at h
    split at h
    · rename_i hap
      have key := Trans.cCasOk (v := v) (sh := sh) (r := r) (c := c) hap
      cases c with
      | nil => simp at h; obtain ⟨rfl, rfl⟩ := h; simpa [afterWin, bump] using key
      | cbs s => simp at h; obtain ⟨rfl, rfl⟩ := h; simpa [afterWin, bump] using key
    · rename_i hap; simp at h; obtain ⟨rfl, rfl⟩ := h; exact Trans.cCasFail hap
  | cRun r s i cb =>
    simp only [stepT] at h; simp at h; obtain ⟨rfl, rfl⟩ := h
    simpa [pushLog] using Trans.cRun (v := v) (sh := sh) (r := r) (s := s) (i := i) (cb := cb)
  | cRet r b => simp [stepT] at h
  | rGet cb =>
    simp only [stepT] at h
    split at h <;> simp at h <;> obtain ⟨rfl, rfl⟩ := h
    · rename_i hc; simpa [setHeap] using Trans.rGetNil (v := v) (cb := cb) hc
    · rename_i s hc; exact Trans.rGetCbs hc
    · rename_i r hc; exact Trans.rGetDone hc
  | rAppend cb ap s =>
    simp only [stepT] at h; simp at h; obtain ⟨rfl, rfl⟩ := h
    simpa [setHeap] using Trans.rAppend (v := v) (sh := sh) (cb := cb) (ap := ap) (s := s)
  | rCas cb ap new =>
    simp only [stepT] at h
    split at h
    · rename_i hap; simp at h; obtain ⟨rfl, rfl⟩ := h
      simpa [bump] using Trans.rCasOk (v := v) (cb := cb) (new := new) hap
    · rename_i hap; simp at h; obtain ⟨rfl, rfl⟩ := h; exact Trans.rCasFail hap
  | rCall cb r =>
    simp only [stepT] at h; simp at h; obtain ⟨rfl, rfl⟩ := h
    simpa [pushLog] using Trans.rCall (v := v) (sh := sh) (cb := cb) (r := r)
  | rRet cb => simp [stepT] at h
  | oLoad1 =>
    simp only [stepT] at h
    split at h <;> simp at h <;> obtain ⟨rfl, rfl⟩ := h
    · rename_i r hc; exact Trans.oLoad1Done (by simp [hc, Cell.isDone])
    · rename_i hc
      refine Trans.oLoad1Pend ?_
      cases hcell : sh.cell <;> simp_all [Cell.isDone]
  | oLoad2 =>
    simp only [stepT] at h
    split at h <;> simp at h <;> obtain ⟨rfl, rfl⟩ := h
    · rename_i r hc; exact Trans.oLoad2Done hc
    · rename_i hc
      refine Trans.oLoad2Pend ?_
      cases hcell : sh.cell <;> simp_all [Cell.isDone]
  | oRet v => simp [stepT] at h
  | panicked p => simp [stepT] at h

/-- inversion at the level of the whole system -/
theorem step_trans {v : Variant} {s s' : PSys R} {t : Tid} (h : step (stepT v) s t = some s') :
    ∃ l sh' l', s.threads[t]? = some l ∧ Trans v s.shared l sh' l' ∧
      s' = ⟨sh', s.threads.set t l'⟩ := by
  obtain ⟨l, sh', l', hl, hs, rfl⟩ := step_eq_some h
  exact ⟨l, sh', l', hl, stepT_trans hs, rfl⟩

/-- an unfinished thread can always move (nothing ever blocks) -/
theorem stepT_isSome_of_not_finished (v : Variant) (sh : Shared R) (l : Local R)
    (h : l.finished = false) : (stepT v sh l).isSome = true := by
  cases l <;> simp [Local.finished] at h <;> simp only [stepT]
  all_goals (repeat' split) <;> simp

theorem stepT_none_of_finished (v : Variant) (sh : Shared R) (l : Local R)
    (h : l.finished = true) : stepT v sh l = none := by
  cases l <;> simp [Local.finished] at h <;> simp [stepT]

end FpVerif.Promise
