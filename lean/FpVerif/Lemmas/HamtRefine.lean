import FpVerif.Lemmas.HamtIter
/-!
Histories of operations, the reference association-list map, and the simulation between the two
(`Represents`).  The definitions are part of the statement of `Spec/C03.lean`.
-/
set_option linter.unusedSimpArgs false
set_option linter.unusedVariables false
namespace FpVerif.Hamt
variable {K V : Type} {h : Hasher K}

/-- operations of a history (`mutable = true`: through a builder, in place) -/
inductive Op (K V : Type) where
  | set (k : K) (v : V) (mutable : Bool)
  | delete (k : K) (mutable : Bool)

/-- the implementation model -/
def Op.apply (h : Hasher K) (m : Hamt K V) : Op K V → GoE (Hamt K V)
  | .set k v mu => m.set h k v mu
  | .delete k mu => m.delete h k mu

def run (h : Hasher K) (ops : List (Op K V)) (m : Hamt K V) : GoE (Hamt K V) :=
  ops.foldlM (Op.apply h) m

/-- the reference: an association list keyed by `Eqv` class -/
def Ref.apply (h : Hasher K) (r : List (K × V)) : Op K V → List (K × V)
  | .set k v _ => r.filter (fun e => !h.eqv e.1 k) ++ [(k, v)]
  | .delete k _ => r.filter (fun e => !h.eqv e.1 k)

def Ref.run (h : Hasher K) (ops : List (Op K V)) (r : List (K × V)) : List (K × V) :=
  ops.foldl (Ref.apply h) r

/-- the trie `m` represents the finite map `r` -/
structure Represents (h : Hasher K) (m : Hamt K V) (r : List (K × V)) : Prop where
  wf : Hamt.Inv h m
  distinct : DistinctKeys h r
  look : ∀ k, lookup h k m.toList = lookup h k r
  size : m.size = r.length

theorem lookup_filter_ne (hl : LawfulHash h) (r : List (K × V)) (k k' : K) :
    lookup h k' (r.filter (fun e => !h.eqv e.1 k)) = if h.eqv k k' then none else lookup h k' r := by
  induction r with
  | nil => simp [lookup_nil]
  | cons a r ih =>
    rw [List.filter_cons]
    cases hak : h.eqv a.1 k with
    | true =>
      simp only [Bool.not_true, Bool.false_eq_true, if_false]
      rw [ih, lookup_cons, hl.eqv_congr_left hak]
      cases h.eqv k k' <;> simp
    | false =>
      simp only [Bool.not_false, if_true]
      rw [lookup_cons, lookup_cons, ih]
      cases hkk : h.eqv k k' with
      | false => simp
      | true =>
        have : h.eqv a.1 k' = false := by rw [← hl.eqv_congr_right hkk]; exact hak
        simp [this]

theorem length_filter_ne (hl : LawfulHash h) {r : List (K × V)} (hd : DistinctKeys h r) (k : K) :
    (r.filter (fun e => !h.eqv e.1 k)).length + (if (lookup h k r).isSome then 1 else 0) = r.length := by
  induction r with
  | nil => simp [lookup_nil]
  | cons a r ih =>
    unfold DistinctKeys at hd
    rw [List.pairwise_cons] at hd
    rw [List.filter_cons, lookup_cons]
    cases hak : h.eqv a.1 k with
    | true =>
      have hall : ∀ b ∈ r, (!h.eqv b.1 k) = true := by
        intro b hb
        have := hd.1 b hb
        rw [hl.eqv_congr_left hak, hl.eqv_comm] at this
        simp [this]
      have : r.filter (fun e => !h.eqv e.1 k) = r := List.filter_eq_self.mpr hall
      simp [this]
    | false =>
      have := ih hd.2
      simp only [Bool.not_false, if_true, List.length_cons, Bool.false_eq_true, if_false]
      omega

theorem distinct_filter {r : List (K × V)} (hd : DistinctKeys h r) (p : K × V → Bool) :
    DistinctKeys h (r.filter p) :=
  List.Pairwise.sublist List.filter_sublist hd

theorem repr_step (hl : LawfulHash h) {m : Hamt K V} {r : List (K × V)} (hr : Represents h m r) (op : Op K V) :
    ∃ m', op.apply h m = .ok m' ∧ Represents h m' (Ref.apply h r op) := by
  cases op with
  | set k v mu =>
    obtain ⟨m', h1, h2, h3, h4, _⟩ := Hamt.set_spec hl hr.wf k v mu
    have hno : ∀ e ∈ r.filter (fun e => !h.eqv e.1 k), h.eqv e.1 k = false := by
      intro e he; simpa using (List.mem_filter.mp he).2
    refine ⟨m', h1, h2, (distinct_insert_new hl (distinct_filter hr.distinct _) hno).1, ?_, ?_⟩
    · intro k'
      rw [h3]
      simp only [Ref.apply]
      rw [lookup_insert_new hl hno (Or.inl rfl), lookup_filter_ne hl, hr.look]
      cases h.eqv k k' <;> simp
    · rw [h4, hr.look, hr.size]
      simp only [Ref.apply, List.length_append, List.length_cons, List.length_nil]
      have hf := length_filter_ne hl hr.distinct k
      cases hlk : (lookup h k r).isSome with
      | false => rw [hlk] at hf; simp only [Bool.false_eq_true, if_false] at hf ⊢; omega
      | true => rw [hlk] at hf; simp only [if_true] at hf ⊢; omega
  | delete k mu =>
    obtain ⟨m', h1, h2, h3, h4, _⟩ := Hamt.delete_spec hl hr.wf k mu
    refine ⟨m', h1, h2, distinct_filter hr.distinct _, ?_, ?_⟩
    · intro k'
      rw [h3]
      simp only [Ref.apply]
      rw [lookup_filter_ne hl, hr.look]
    · have := length_filter_ne hl hr.distinct k
      rw [hr.look, hr.size] at h4
      simp only [Ref.apply]
      omega

theorem repr_run (hl : LawfulHash h) (ops : List (Op K V)) : ∀ {m : Hamt K V} {r : List (K × V)},
    Represents h m r → ∃ m', run h ops m = .ok m' ∧ Represents h m' (Ref.run h ops r) := by
  induction ops with
  | nil => intro m r hr; exact ⟨m, rfl, hr⟩
  | cons op ops ih =>
    intro m r hr
    obtain ⟨m1, h1, hr1⟩ := repr_step hl hr op
    obtain ⟨m2, h2, hr2⟩ := ih hr1
    refine ⟨m2, ?_, hr2⟩
    unfold run at h2 ⊢
    rw [List.foldlM_cons, h1]; exact h2

theorem repr_empty : Represents h (Hamt.empty : Hamt K V) [] :=
  ⟨Hamt.Inv_empty, by unfold DistinctKeys; simp, fun _ => rfl, rfl⟩


end FpVerif.Hamt
