import FpVerif.Lemmas.ListMemo
/-!
# Lazy list: a memo cell whose closure panics

`fp.Memoize` is `once.Do(func() { ret = f() }); return ret`.  `sync.Once` marks itself done also when
`f` panics, and `ret` has not been assigned: the cell is done and holds the zero value of its type —
`None` for `getHead`, the nil interface (`LV.nilIface`) for `getTail` and for the `lazy.Call` cells of
`FlatMap`.  The lemmas here say exactly that about `forceH/forceT/forceL` of `Model/LazyList.lean`:
the panic propagates (with the heap and log the closure left), the cell is `done <zero>` with its start
counter incremented once, and every later force returns the zero value without running anything.
-/
namespace FpVerif.LL
open FpVerif.It IM

/-! ## the nil interface -/

theorem isEmpty_nilIface (fuel : Nat) (hp : Heap) (lg : Log) :
    isEmpty (fuel + 1) .nilIface hp lg = (.error nilDeref, hp, lg) := by
  rw [isEmpty] <;> first | rfl | (intro h; exact absurd h (Nat.succ_ne_zero _))

theorem head_nilIface (fuel : Nat) (hp : Heap) (lg : Log) :
    head (fuel + 1) .nilIface hp lg = (.error nilDeref, hp, lg) := by
  rw [head] <;> first | rfl | (intro h; exact absurd h (Nat.succ_ne_zero _))

theorem tail_nilIface (fuel : Nat) (hp : Heap) (lg : Log) :
    tail (fuel + 1) .nilIface hp lg = (.error nilDeref, hp, lg) := by
  rw [tail] <;> first | rfl | (intro h; exact absurd h (Nat.succ_ne_zero _))

/-! ## head cells -/

/-- the closure of a pending head cell panics: `forceH` propagates the panic and leaves the cell
    `done none`, started once more than before -/
theorem forceH_panic (fuel c : Nat) (hp hp1 : Heap) (lg lg1 : Log) (t : HThunk) (n : Nat) (p : PanicVal)
    (hcell : hp.hs[c]? = some (.pending t, n))
    (hrun : runH fuel t { hp with hs := hp.hs.set! c (.running, n + 1) } lg = (.error p, hp1, lg1)) :
    forceH (fuel + 1) c hp lg = (.error p, { hp1 with hs := hp1.hs.set! c (.done none, n + 1) }, lg1) := by
  simp only [Array.set!_eq_setIfInBounds] at hrun
  simp [forceH, bind_apply, hcell, onPanic, hrun]

/-- … and the closure of a pending head cell that returns: the cell is `done v` (for comparison) -/
theorem forceH_ok (fuel c : Nat) (hp hp1 : Heap) (lg lg1 : Log) (t : HThunk) (n : Nat) (v : Option Val)
    (hcell : hp.hs[c]? = some (.pending t, n))
    (hrun : runH fuel t { hp with hs := hp.hs.set! c (.running, n + 1) } lg = (.ok v, hp1, lg1)) :
    forceH (fuel + 1) c hp lg = (.ok v, { hp1 with hs := hp1.hs.set! c (.done v, n + 1) }, lg1) := by
  simp only [Array.set!_eq_setIfInBounds] at hrun
  simp [forceH, bind_apply, hcell, onPanic, hrun]

/-- after the panic: every later force (any fuel, any log) returns `None`, runs nothing, changes
    nothing — the cell is never started again -/
theorem forceH_after_panic (c : Nat) (hp1 : Heap) (n : Nat) (hc : c < hp1.hs.size) (fuel2 : Nat) (lg2 : Log) :
    let hp2 : Heap := { hp1 with hs := hp1.hs.set! c (.done none, n + 1) }
    forceH (fuel2 + 1) c hp2 lg2 = (.ok none, hp2, lg2) := by
  intro hp2
  apply forceH_done (n := n + 1)
  simp only [hp2, Array.set!_eq_setIfInBounds]
  simp [Array.getElem?_setIfInBounds, hc]

/-- what the client of the list sees after a panicking head closure: `IsEmpty()` says true, `Head()`
    panics `List.empty` (not the closure's panic: the closure is not run again) -/
theorem adaptor_after_head_panic (c tc : Nat) (hp1 : Heap) (n : Nat) (hc : c < hp1.hs.size) (fuel2 : Nat) (lg2 : Log) :
    let hp2 : Heap := { hp1 with hs := hp1.hs.set! c (.done none, n + 1) }
    isEmpty (fuel2 + 2) (.adaptor c tc) hp2 lg2 = (.ok true, hp2, lg2) ∧
    head (fuel2 + 2) (.adaptor c tc) hp2 lg2 = (.error listEmpty, hp2, lg2) := by
  intro hp2
  have h := forceH_after_panic c hp1 n hc fuel2 lg2
  constructor
  · rw [isEmpty]; simp only [bind_apply]; rw [h]; rfl
  · rw [head]; simp only [bind_apply]; rw [h]; rfl

/-! ## tail cells -/

theorem forceT_panic (fuel c : Nat) (hp hp1 : Heap) (lg lg1 : Log) (t : TThunk) (n : Nat) (p : PanicVal)
    (hcell : hp.ts[c]? = some (.pending t, n))
    (hrun : runT fuel t { hp with ts := hp.ts.set! c (.running, n + 1) } lg = (.error p, hp1, lg1)) :
    forceT (fuel + 1) c hp lg = (.error p, { hp1 with ts := hp1.ts.set! c (.done .nilIface, n + 1) }, lg1) := by
  simp only [Array.set!_eq_setIfInBounds] at hrun
  simp [forceT, bind_apply, hcell, onPanic, hrun]

theorem forceT_after_panic (c : Nat) (hp1 : Heap) (n : Nat) (hc : c < hp1.ts.size) (fuel2 : Nat) (lg2 : Log) :
    let hp2 : Heap := { hp1 with ts := hp1.ts.set! c (.done .nilIface, n + 1) }
    forceT (fuel2 + 1) c hp2 lg2 = (.ok .nilIface, hp2, lg2) := by
  intro hp2
  apply forceT_done (n := n + 1)
  simp only [hp2, Array.set!_eq_setIfInBounds]
  simp [Array.getElem?_setIfInBounds, hc]

/-- what the client sees after a panicking tail closure: `Tail()` RETURNS (the nil interface, nothing
    is run), and every method call on the result is a nil dereference -/
theorem adaptor_after_tail_panic (hc' c : Nat) (hp1 : Heap) (n : Nat) (hc : c < hp1.ts.size) (fuel2 fuel3 : Nat) (lg2 : Log) :
    let hp2 : Heap := { hp1 with ts := hp1.ts.set! c (.done .nilIface, n + 1) }
    tail (fuel2 + 2) (.adaptor hc' c) hp2 lg2 = (.ok .nilIface, hp2, lg2) ∧
    isEmpty (fuel3 + 1) .nilIface hp2 lg2 = (.error nilDeref, hp2, lg2) ∧
    head (fuel3 + 1) .nilIface hp2 lg2 = (.error nilDeref, hp2, lg2) ∧
    tail (fuel3 + 1) .nilIface hp2 lg2 = (.error nilDeref, hp2, lg2) := by
  intro hp2
  refine ⟨?_, isEmpty_nilIface _ _ _, head_nilIface _ _ _, tail_nilIface _ _ _⟩
  rw [tail]; exact forceT_after_panic c hp1 n hc fuel2 lg2

/-! ## `lazy.Call` cells of `FlatMap` -/

theorem forceL_panic (fuel c : Nat) (hp hp1 : Heap) (lg lg1 : Log) (opt : LV) (k : FnK) (n : Nat) (p : PanicVal)
    (hcell : hp.ls[c]? = some (.pending (opt, k), n))
    (hrun : (do let x ← head fuel opt; applyK fuel k x : HM LV)
      { hp with ls := hp.ls.set! c (.running, n + 1) } lg = (.error p, hp1, lg1)) :
    forceL (fuel + 1) c hp lg = (.error p, { hp1 with ls := hp1.ls.set! c (.done .nilIface, n + 1) }, lg1) := by
  simp only [Array.set!_eq_setIfInBounds, bind_apply] at hrun
  simp [forceL, bind_apply, hcell, onPanic, hrun]

theorem forceL_after_panic (c : Nat) (hp1 : Heap) (n : Nat) (hc : c < hp1.ls.size) (fuel2 : Nat) (lg2 : Log) :
    let hp2 : Heap := { hp1 with ls := hp1.ls.set! c (.done .nilIface, n + 1) }
    forceL (fuel2 + 1) c hp2 lg2 = (.ok .nilIface, hp2, lg2) := by
  intro hp2
  apply forceL_done (n := n + 1)
  simp only [hp2, Array.set!_eq_setIfInBounds]
  simp [Array.getElem?_setIfInBounds, hc]

end FpVerif.LL
