import FpVerif.Lemmas.ListXLoops
/-!
# LISTX: `fp.Seq` accessors, `seq.FilterNil`, `seq.FoldRight`, association lists
-/
namespace FpVerif.LX
open FpVerif FpVerif.It FpVerif.LL

namespace Sq

theorem head_eq (r : List Val) : head r = r.head? := by
  cases r with
  | nil => simp [head, size]
  | cons a t => simp [head, size]

theorem last_eq (r : List Val) : last r = r.getLast? := by
  cases r with
  | nil => simp [last, size]
  | cons a t =>
    have h : (((a :: t).length : Nat) : Int) > 0 := by simp <;> omega
    simp only [last, size, h, if_true]
    exact (List.getLast?_eq_getElem? (l := a :: t)).symm

theorem init_eq (r : List Val) : init r = r.dropLast := by
  match r with
  | [] => simp [init, size]
  | [a] => simp [init, size]
  | a :: b :: t =>
    have h : (((a :: b :: t).length : Nat) : Int) > 1 := by simp <;> omega
    simp only [init, size, h, if_true]
    exact (List.dropLast_eq_take (l := a :: b :: t)).symm

theorem tail_eq (r : List Val) : tail r = r.tail := by
  cases r with
  | nil => simp [tail, size]
  | cons a t =>
    have h : (((a :: t).length : Nat) : Int) > 0 := by simp <;> omega
    simp [tail, size, h]

theorem get_nonneg (r : List Val) (i : Int) (hi : 0 ≤ i) : get r i = .ok r[i.toNat]? := by
  unfold get size
  by_cases h : (r.length : Int) > i
  · have hlt : i.toNat < r.length := by omega
    have hn : ¬ i < 0 := by omega
    simp only [h, if_true, hn, if_false]
    rw [List.getElem?_eq_getElem hlt]
    rfl
  · have hge : r.length ≤ i.toNat := by omega
    simp only [h, if_false]
    rw [List.getElem?_eq_none hge]
    rfl

theorem get_neg (r : List Val) (i : Int) (hi : i < 0) : ∃ p, get r i = .error p := by
  unfold get size
  have h : (r.length : Int) > i := by omega
  exact ⟨_, by simp only [h, if_true, hi]; rfl⟩

theorem nonEmpty_eq (r : List Val) : nonEmpty r = !isEmpty r := by
  cases r with
  | nil => simp [nonEmpty, isEmpty, size]
  | cons a t => simp [nonEmpty, isEmpty, size] <;> omega

theorem flatMapPure_eq {α : Type} (fn : α → List Val) : ∀ (r : List α) (acc : List Val),
    flatMapPure fn r acc = acc ++ r.flatMap fn := by
  intro r
  induction r with
  | nil => intro acc; simp [flatMapPure]
  | cons a t ih => intro acc; simp [flatMapPure, ih, List.append_assoc]

theorem filterNil_eq (r : List (Option Val)) : filterNil r = r.filterMap id := by
  unfold filterNil
  rw [flatMapPure_eq]
  induction r with
  | nil => rfl
  | cons o t ih =>
    cases o with
    | none => simpa [ptrToSeq] using ih
    | some v => simpa [ptrToSeq] using ih

/-- `Foreach` with a callback that appends `ev a` to the log -/
theorem foreach_log (f : Val → GoM Unit) (ev : Val → List Event)
    (hf : ∀ a lg, (f a).run.run lg = (.ok (), lg ++ ev a)) :
    ∀ (xs : List Val) (lg : Log), (foreach f xs).run.run lg = (.ok (), lg ++ xs.flatMap ev) := by
  intro xs
  induction xs with
  | nil => intro lg; simp [foreach]; rfl
  | cons x xs ih =>
    intro lg
    simp only [foreach]
    rw [gom_bind_ok (hf x lg), ih]
    simp [List.append_assoc]

/-- a callback that panics on `x` stops the loop there: what follows `x` is not visited -/
theorem foreach_panic (f : Val → GoM Unit) (ev : Val → List Event) (pre post : List Val) (x : Val) (p : PanicVal)
    (hf : ∀ a ∈ pre, ∀ lg, (f a).run.run lg = (.ok (), lg ++ ev a))
    (hx : ∀ lg, (f x).run.run lg = (.error p, lg ++ ev x)) (lg : Log) :
    (foreach f (pre ++ x :: post)).run.run lg = (.error p, lg ++ pre.flatMap ev ++ ev x) := by
  induction pre generalizing lg with
  | nil => simp only [List.nil_append, foreach]; rw [gom_bind_err (hx lg)]; simp
  | cons a pre ih =>
    simp only [List.cons_append, foreach]
    rw [gom_bind_ok (hf a (by simp) lg), ih (fun b hb => hf b (by simp [hb]))]
    simp [List.append_assoc]

/-! ### `seq.FoldRight` -/

/-- a step that forces its lazy argument: the right fold -/
theorem foldRight_force {g : Val → Val → GoM Val} {gp : Val → Val → Val} (hg : Total2 g gp) (zero : Val) :
    ∀ (xs : List Val) (lg : Log), ∃ lg',
      (foldRight zero (fun a th => do let b ← th; g a b) xs).run.run lg = (.ok (xs.foldr gp zero), lg') := by
  intro xs
  induction xs with
  | nil => intro lg; exact ⟨lg, rfl⟩
  | cons x xs ih =>
    intro lg
    obtain ⟨lg1, h1⟩ := ih lg
    obtain ⟨lg2, h2⟩ := hg x (xs.foldr gp zero) lg1
    refine ⟨lg2, ?_⟩
    simp only [foldRight, List.foldr]
    rw [gom_bind_ok h1]
    exact h2

/-- laziness: if the step does not look at its lazy argument for the head element, the fold over the
    tail is never evaluated — result, panic and log are those of the step on the head alone, whatever
    the tail is (also an arbitrarily long one, or one whose elements make the step panic). -/
theorem foldRight_unforced (zero : Val) (f : Val → GoM Val → GoM Val) (h : Val)
    (hlazy : ∀ th th', f h th = f h th') (t t' : List Val) :
    foldRight zero f (h :: t) = foldRight zero f (h :: t') := by
  simp only [foldRight]
  exact hlazy _ _

/-- the stopping step `if p(x) { Done(x) } else { b }`: the first element that satisfies `p`, else `zero` -/
theorem foldRight_stop {p : Val → GoM Bool} {pp : Val → Bool} (hp : Total p pp) (zero : Val) :
    ∀ (xs : List Val) (lg : Log), ∃ lg',
      (foldRight zero (fun a th => do if ← p a then pure a else th) xs).run.run lg = (.ok ((xs.find? pp).getD zero), lg') := by
  intro xs
  induction xs with
  | nil => intro lg; exact ⟨lg, rfl⟩
  | cons x xs ih =>
    intro lg
    obtain ⟨lg1, h1⟩ := hp x lg
    simp only [foldRight]
    rw [gom_bind_ok h1]
    cases hx : pp x with
    | true => exact ⟨lg1, by simp [List.find?, hx]; rfl⟩
    | false =>
      obtain ⟨lg2, h2⟩ := ih lg1
      exact ⟨lg2, by simpa [List.find?, hx] using h2⟩

/-- … and what follows the first hit is never looked at -/
theorem foldRight_stop_suffix {p : Val → GoM Bool} {pp : Val → Bool} (hp : Total p pp) (zero : Val) (a : Val)
    (ha : pp a = true) (post post' : List Val) :
    ∀ (pre : List Val) (lg : Log),
      (foldRight zero (fun a th => do if ← p a then pure a else th) (pre ++ a :: post)).run.run lg =
      (foldRight zero (fun a th => do if ← p a then pure a else th) (pre ++ a :: post')).run.run lg := by
  intro pre
  induction pre with
  | nil =>
    intro lg
    obtain ⟨lg1, h1⟩ := hp a lg
    simp only [List.nil_append, foldRight]
    rw [gom_bind_ok h1, gom_bind_ok h1]
    simp [ha]
  | cons x pre ih =>
    intro lg
    obtain ⟨lg1, h1⟩ := hp x lg
    simp only [List.cons_append, foldRight]
    rw [gom_bind_ok h1, gom_bind_ok h1]
    cases pp x with
    | true => rfl
    | false => exact ih lg1

end Sq

/-! ## association lists: last write wins -/

section KV
variable {κ ν : Type} [BEq κ] [LawfulBEq κ]

theorem kvLookup_insert (k k' : κ) (v : ν) : ∀ (m : List (κ × ν)),
    kvLookupBy (· == ·) k (kvInsertBy (· == ·) k' v m) = if k' == k then some v else kvLookupBy (· == ·) k m := by
  intro m
  induction m with
  | nil => simp [kvInsertBy, kvLookupBy]
  | cons e m ih =>
    obtain ⟨k0, v0⟩ := e
    simp only [kvInsertBy]
    by_cases h0 : (k0 == k') = true
    · rw [if_pos h0]
      have : k0 = k' := eq_of_beq h0
      subst this
      simp only [kvLookupBy]
      by_cases h1 : (k0 == k) = true
      · rw [if_pos h1, if_pos h1]
      · rw [if_neg h1, if_neg h1, if_neg h1]
    · rw [if_neg h0]
      simp only [kvLookupBy]
      by_cases h1 : (k0 == k) = true
      · have hk : k0 = k := eq_of_beq h1
        subst hk
        have h2 : ¬ (k' == k0) = true := by
          intro h
          have hk : k' = k0 := eq_of_beq h
          subst hk
          exact h0 h1
        rw [if_pos h1, if_neg h2, if_pos h1]
      · rw [if_neg h1, if_neg h1, ih]

theorem kvLookup_foldl_aux (k : κ) : ∀ (ps m : List (κ × ν)),
    kvLookupBy (· == ·) k (ps.foldl (fun m kv => kvInsertBy (· == ·) kv.1 kv.2 m) m) =
      ((ps.reverse.find? (fun kv => kv.1 == k)).map (·.2)).or (kvLookupBy (· == ·) k m) := by
  intro ps
  induction ps with
  | nil => intro m; simp
  | cons kv ps ih =>
    intro m
    simp only [List.foldl_cons, List.reverse_cons, List.find?_append]
    rw [ih, kvLookup_insert]
    cases hf : List.find? (fun kv => kv.1 == k) ps.reverse with
    | some e => simp
    | none =>
      by_cases h : (kv.1 == k) = true
      · simp [List.find?, h]
      · simp [List.find?, h]

/-- the map built by successive `m[k] = v` maps `k` to the value of the LAST pair with key `k` -/
theorem kvLookup_foldl (k : κ) (ps : List (κ × ν)) :
    kvLookupBy (· == ·) k (ps.foldl (fun m kv => kvInsertBy (· == ·) kv.1 kv.2 m) []) =
      (ps.reverse.find? (fun kv => kv.1 == k)).map (·.2) := by
  rw [kvLookup_foldl_aux]
  simp [kvLookupBy]

end KV

end FpVerif.LX
