/-!
# Linear-time table checks used by Spec/C04Frame (reflection lemmas)

The kernel evaluates `decide` slowly (thousands of steps per second), so membership of one list in another is
decided by a single merge walk over ascending lists; the lemmas below turn a successful walk into the
declarative statement.
-/
namespace FpVerif.FrameTable

/-- merge walk: every element of the first list occurs in the second (complete when both are ascending) -/
def subsetAsc : Nat → List Nat → List Nat → Bool
  | _, [], _ => true
  | 0, _ :: _, _ => false
  | _ + 1, _ :: _, [] => false
  | f + 1, x :: xs, y :: ys =>
    if x = y then subsetAsc f xs (y :: ys)
    else if y < x then subsetAsc f (x :: xs) ys
    else false

theorem subsetAsc_sound : ∀ (f : Nat) (a b : List Nat), subsetAsc f a b = true → ∀ x ∈ a, x ∈ b := by
  intro f
  induction f with
  | zero =>
    intro a b h x hx
    cases a with
    | nil => cases hx
    | cons _ _ => simp [subsetAsc] at h
  | succ f ih =>
    intro a b h x hx
    cases a with
    | nil => cases hx
    | cons a0 as =>
      cases b with
      | nil => simp [subsetAsc] at h
      | cons b0 bs =>
        simp only [subsetAsc] at h
        split at h
        · rename_i heq
          rcases List.mem_cons.mp hx with rfl | hx'
          · simp [heq]
          · exact ih as (b0 :: bs) h x hx'
        · split at h
          · exact List.mem_cons_of_mem _ (ih (a0 :: as) bs h x hx)
          · cases h

/-- strictly ascending -/
def ascending : List Nat → Bool
  | [] => true
  | [_] => true
  | x :: y :: rest => decide (x < y) && ascending (y :: rest)

end FpVerif.FrameTable
