import FpVerif.Model.Json
import FpVerif.Lemmas.RecordMask
/-!
# `encoding/json` on the generated Mutable twin, composed from FIELD codecs (C15, audit finding 22).

`Model/Json.lean` treats `json.Marshal` / `json.Unmarshal` on the Mutable twin as ONE abstract
`Codec E Rec`.  This file (new definitions only, nothing in `Model/` changes) builds that codec from
one codec per field, the way `encoding/json` handles a struct:

* `encPairs`: one `"key": value` pair per *present* field in declaration order; a field with
  `omitempty` whose value `isEmpty` (Go `isEmptyValue`: false, 0, nil pointer / interface, empty
  slice / map / string — NEVER a struct value, so never an `fp.Option`, whose Go type is a struct)
  is left out;
* `decPairs`: the pairs of the input object are processed in input order; a pair whose key matches
  a present field is decoded INTO THE CURRENT VALUE of that field (`json.Unmarshal` decodes into the
  existing struct: absent keys keep the old field value); unknown keys are skipped; the first
  failing field decoder aborts with its error;
* the object SYNTAX (`{`, `"key":`, `,`, `}`, splitting an input back into its pairs) stays
  abstract: `ObjSyntax`.

Not modelled: the case-insensitive fallback of key matching (an exact match has priority in Go and
every key `encPairs` emits matches exactly, so the fallback is not reached on emitted bytes);
ambiguous duplicate keys (excluded by the `DistinctKeys` hypothesis of the theorems; Go drops such
fields silently); the pair `"Name":{}` of an embedded field-less struct (a non-applicable field:
`AsMutable` does not set it, it carries no data, decoding `{}` into it is a no-op).

Main result: `objCodec_faithful` / `mutableCodec_faithful`: whole-struct `Faithful` from
field-level `Faithful`.
-/
namespace FpVerif.Json
open FpVerif.Rec

/-- what `encoding/json` knows about one field of a struct type -/
structure FieldCodec (E : Type) where
  /-- the object key (json tag name, or the Go field name) -/
  key : String
  /-- the `omitempty` option of the json tag -/
  omitempty : Bool
  /-- the field takes part in the object at all -/
  present : Bool
  /-- Go `isEmptyValue` for the field's type -/
  isEmpty : RV → Bool
  /-- `encoding/json` for the field's type -/
  codec : Codec E RV

/-- the field is written by `json.Marshal` when the struct holds `v` there -/
def FieldCodec.emits {E : Type} (fc : FieldCodec E) (v : RV) : Bool :=
  fc.present && !(fc.omitempty && fc.isEmpty v)

/-- object syntax of `encoding/json` (abstract): writing the pairs, splitting an input into its pairs -/
structure ObjSyntax (E : Type) where
  render : List (String × Bytes) → Bytes
  parse : Bytes → Except E (List (String × Bytes))

/-- the syntax layer gives back the pairs it was handed -/
def ObjSyntax.Splits {E : Type} (syn : ObjSyntax E) (kvs : List (String × Bytes)) : Prop :=
  syn.parse (syn.render kvs) = .ok kvs

/-- `json.Marshal` of a struct: the pairs, in declaration order -/
def encPairs {E : Type} : List (FieldCodec E) → Rec → List (String × Bytes)
  | fc :: fcs, v :: vs =>
    if fc.emits v then (fc.key, fc.codec.enc v) :: encPairs fcs vs else encPairs fcs vs
  | _, _ => []

/-- one `"k": b` pair of the input decoded into the struct value `m`: the first present field whose
    key is `k` is decoded into its current value; no such field ⇒ the pair is skipped -/
def decPair {E : Type} (k : String) (b : Bytes) : List (FieldCodec E) → Rec → Except E Rec
  | fc :: fcs, v :: vs =>
    if fc.present && fc.key == k then
      match fc.codec.dec b v with
      | .ok v' => .ok (v' :: vs)
      | .error e => .error e
    else
      match decPair k b fcs vs with
      | .ok vs' => .ok (v :: vs')
      | .error e => .error e
  | _, m => .ok m

/-- all pairs of the input, in input order (a later duplicate key overwrites) -/
def decPairs {E : Type} (fcs : List (FieldCodec E)) : List (String × Bytes) → Rec → Except E Rec
  | [], m => .ok m
  | (k, b) :: rest, m =>
    match decPair k b fcs m with
    | .ok m' => decPairs fcs rest m'
    | .error e => .error e

/-- `encoding/json` for a struct type, from its fields' codecs -/
def objCodec {E : Type} (syn : ObjSyntax E) (fcs : List (FieldCodec E)) : Codec E Rec where
  enc m := syn.render (encPairs fcs m)
  dec b m :=
    match syn.parse b with
    | .ok kvs => decPairs fcs kvs m
    | .error e => .error e

/-- no two present fields share a key -/
def DistinctKeys {E : Type} (fcs : List (FieldCodec E)) : Prop :=
  fcs.Pairwise fun g h => g.present = true → h.present = true → g.key ≠ h.key

/-- Field-level hypothesis of the composition theorem, field by field (`fcs`, target `mt`, value `mx`
    in parallel): an emitted field's codec is `Faithful` from what the target holds there; a field
    that is NOT emitted (not present, or omitted by `omitempty`) must already be equal in the target
    (nothing in the input will touch it). -/
def FieldsOK {E : Type} : List (FieldCodec E) → Rec → Rec → Prop
  | fc :: fcs, w :: ws, v :: vs =>
    (if fc.emits v then Faithful fc.codec w v else w = v) ∧ FieldsOK fcs ws vs
  | [], [], [] => True
  | _, _, _ => False

/-! ## decoding one pair -/

/-- fields in front of the addressed one that are absent or have another key are passed over -/
theorem decPair_skip {E : Type} (k : String) (b : Bytes) (pre : List (FieldCodec E)) (px : Rec)
    (hlen : px.length = pre.length)
    (hk : ∀ g ∈ pre, g.present = true → g.key ≠ k) (fcs : List (FieldCodec E)) (m : Rec) :
    decPair k b (pre ++ fcs) (px ++ m) =
      match decPair k b fcs m with
      | .ok m' => .ok (px ++ m')
      | .error e => .error e := by
  induction pre generalizing px with
  | nil =>
    cases px with
    | nil => simp; cases decPair k b fcs m <;> rfl
    | cons _ _ => simp at hlen
  | cons g pre ih =>
    cases px with
    | nil => simp at hlen
    | cons p px =>
      have hg : (g.present && g.key == k) = false := by
        cases hp : g.present with
        | false => simp
        | true => simpa using hk g (by simp) hp
      have := ih px (by simpa using hlen) (fun g' hg' => hk g' (by simp [hg']))
      simp only [List.cons_append, decPair, hg, this]
      cases decPair k b fcs m <;> simp

/-- the addressed field is decoded into its current value, everything else stays -/
theorem decPair_hit {E : Type} (pre : List (FieldCodec E)) (px : Rec) (hlen : px.length = pre.length)
    (fc : FieldCodec E) (hp : fc.present = true)
    (hk : ∀ g ∈ pre, g.present = true → g.key ≠ fc.key)
    (fcs : List (FieldCodec E)) (b : Bytes) (w : RV) (ws : Rec) :
    decPair fc.key b (pre ++ fc :: fcs) (px ++ w :: ws) =
      match fc.codec.dec b w with
      | .ok v => .ok (px ++ v :: ws)
      | .error e => .error e := by
  rw [decPair_skip fc.key b pre px hlen hk]
  simp only [decPair, hp, beq_self_eq_true, Bool.and_self, if_true]
  cases fc.codec.dec b w <;> rfl

/-! ## the composition theorem -/

/-- Invariant form: after the pairs of the first `pre.length` fields have been consumed the struct
    holds the NEW values `px` there and still the target's values `mt` in the rest. -/
theorem decPairs_encPairs_aux {E : Type} (fcs pre : List (FieldCodec E)) (px mt mx : Rec)
    (hlen : px.length = pre.length)
    (hd : DistinctKeys (pre ++ fcs))
    (hok : FieldsOK fcs mt mx) :
    decPairs (pre ++ fcs) (encPairs fcs mx) (px ++ mt) = .ok (px ++ mx) := by
  induction fcs generalizing pre px mt mx with
  | nil =>
    cases mt <;> cases mx <;> simp [FieldsOK] at hok
    simp [encPairs, decPairs]
  | cons fc fcs ih =>
    cases mt with
    | nil => cases mx <;> simp [FieldsOK] at hok
    | cons w ws =>
      cases mx with
      | nil => simp [FieldsOK] at hok
      | cons v vs =>
        simp only [FieldsOK] at hok
        obtain ⟨hfc, hrest⟩ := hok
        have hd' : DistinctKeys ((pre ++ [fc]) ++ fcs) := by simpa using hd
        have hlen' : (px ++ [v]).length = (pre ++ [fc]).length := by simp [hlen]
        have step := ih (pre ++ [fc]) (px ++ [v]) ws vs hlen' hd' hrest
        simp only [List.append_assoc, List.cons_append, List.nil_append] at step
        cases hem : fc.emits v with
        | false =>
          simp only [hem] at hfc
          subst hfc
          simpa [encPairs, hem] using step
        | true =>
          simp only [hem, if_true] at hfc
          have hp : fc.present = true := by
            simp only [FieldCodec.emits, Bool.and_eq_true] at hem
            exact hem.1
          have hk : ∀ g ∈ pre, g.present = true → g.key ≠ fc.key := by
            intro g hg hgp
            have := (List.pairwise_append.1 hd).2.2 g hg fc (by simp)
            exact this hgp hp
          have hit := decPair_hit pre px hlen fc hp hk fcs (fc.codec.enc v) w ws
          simp only [Faithful] at hfc
          rw [hfc] at hit
          simp only [encPairs, hem, if_true, decPairs, hit]
          exact step

/-- decoding the pairs `json.Marshal` wrote for `mx` into `mt` gives `mx` -/
theorem decPairs_encPairs {E : Type} (fcs : List (FieldCodec E)) (mt mx : Rec)
    (hd : DistinctKeys fcs) (hok : FieldsOK fcs mt mx) :
    decPairs fcs (encPairs fcs mx) mt = .ok mx := by
  simpa using decPairs_encPairs_aux fcs [] [] mt mx rfl (by simpa using hd) hok

/-- **Composition**: the struct's codec is `Faithful` (decoding into `mt`, value `mx`) when every
    emitted field's codec is `Faithful` from the target's field value, the fields not emitted are
    already equal, the keys are distinct and the object syntax splits what it rendered. -/
theorem objCodec_faithful {E : Type} (syn : ObjSyntax E) (fcs : List (FieldCodec E)) (mt mx : Rec)
    (hsyn : syn.Splits (encPairs fcs mx))
    (hd : DistinctKeys fcs) (hok : FieldsOK fcs mt mx) :
    Faithful (objCodec syn fcs) mt mx := by
  simp only [ObjSyntax.Splits] at hsyn
  simp [Faithful, objCodec, hsyn, decPairs_encPairs fcs mt mx hd hok]

/-- `FieldsOK` from a pointwise (index based) statement -/
theorem fieldsOK_of_forall {E : Type} (fcs : List (FieldCodec E)) (mt mx : Rec)
    (ht : mt.length = fcs.length) (hx : mx.length = fcs.length)
    (h : ∀ i fc, fcs[i]? = some fc →
      (fc.emits (getF i mx) = true → Faithful fc.codec (getF i mt) (getF i mx)) ∧
      (fc.emits (getF i mx) = false → getF i mt = getF i mx)) :
    FieldsOK fcs mt mx := by
  induction fcs generalizing mt mx with
  | nil =>
    cases mt <;> cases mx <;> simp_all [FieldsOK]
  | cons fc fcs ih =>
    cases mt with
    | nil => simp at ht
    | cons w ws =>
      cases mx with
      | nil => simp at hx
      | cons v vs =>
        simp only [FieldsOK]
        refine ⟨?_, ih ws vs (by simpa using ht) (by simpa using hx) ?_⟩
        · have h0 := h 0 fc (by simp)
          simp only [getF, List.getD_cons_zero] at h0
          cases hem : fc.emits v
          · simpa using h0.2 hem
          · simpa using h0.1 hem
        · intro i fc' hi
          have := h (i + 1) fc' (by simpa using hi)
          simpa [getF] using this

/-! ## the Mutable twin of an `@fp.Json` struct -/

/-- what `encoding/json` reads off the struct tag of one Mutable field -/
structure JsonOpts where
  key : String
  omitempty : Bool
  deriving DecidableEq, Repr

/-- `encoding/json`'s view of the field TYPES of a struct: codec and `isEmptyValue` per field -/
structure TypeCodecs (E : Type) where
  codec : Field → Codec E RV
  isEmpty : Field → RV → Bool

/-- the fields of the Mutable twin as `encoding/json` sees them: key / omitempty from the tag
    (`js`), one pair per applicable field -/
def mutableFieldCodecs {E : Type} (s : StructSpec) (js : Field → JsonOpts) (tc : TypeCodecs E) :
    List (FieldCodec E) :=
  s.fields.map fun f =>
    { key := (js f).key, omitempty := (js f).omitempty, present := f.applicable,
      isEmpty := tc.isEmpty f, codec := tc.codec f }

/-- `encoding/json` for the Mutable twin, from the field codecs -/
def mutableCodec {E : Type} (syn : ObjSyntax E) (s : StructSpec) (js : Field → JsonOpts)
    (tc : TypeCodecs E) : Codec E Rec :=
  objCodec syn (mutableFieldCodecs s js tc)

/-- the applicable field `f` is written when the struct holds `v` there -/
def fieldEmitted {E : Type} (js : Field → JsonOpts) (tc : TypeCodecs E) (f : Field) (v : RV) : Bool :=
  !((js f).omitempty && tc.isEmpty f v)

/-- the json keys of the applicable fields are pairwise distinct -/
def DistinctJsonKeys (s : StructSpec) (js : Field → JsonOpts) : Prop :=
  s.fields.Pairwise fun g h => g.applicable = true → h.applicable = true → (js g).key ≠ (js h).key

theorem distinctKeys_mutable {E : Type} (s : StructSpec) (js : Field → JsonOpts) (tc : TypeCodecs E)
    (h : DistinctJsonKeys s js) : DistinctKeys (mutableFieldCodecs s js tc) := by
  simp only [DistinctKeys, mutableFieldCodecs, List.pairwise_map]
  exact h

/-- `FieldsOK` for two masked records (`AsMutable` of target and value) from hypotheses on the
    applicable fields only: the non-applicable ones are the zero value on both sides. -/
theorem fieldsOK_mask {E : Type} (js : Field → JsonOpts) (tc : TypeCodecs E)
    (fs : List Field) (t x : Rec) (ht : t.length = fs.length) (hx : x.length = fs.length)
    (h : ∀ i f, fs[i]? = some f → f.applicable = true →
      (fieldEmitted js tc f (getF i x) = true → Faithful (tc.codec f) (getF i t) (getF i x)) ∧
      (fieldEmitted js tc f (getF i x) = false → getF i t = getF i x)) :
    FieldsOK (fs.map fun f =>
      ({ key := (js f).key, omitempty := (js f).omitempty, present := f.applicable,
         isEmpty := tc.isEmpty f, codec := tc.codec f } : FieldCodec E)) (mask fs t) (mask fs x) := by
  induction fs generalizing t x with
  | nil => cases t <;> cases x <;> simp_all [mask, FieldsOK]
  | cons f fs ih =>
    cases t with
    | nil => simp at ht
    | cons w ws =>
      cases x with
      | nil => simp at hx
      | cons v vs =>
        simp only [List.map_cons, mask, FieldsOK]
        refine ⟨?_, ih ws vs (by simpa using ht) (by simpa using hx) ?_⟩
        · cases ha : f.applicable with
          | false => simp [FieldCodec.emits]
          | true =>
            have h0 := h 0 f (by simp) ha
            simp only [getF, List.getD_cons_zero, fieldEmitted] at h0
            simp only [FieldCodec.emits, Bool.true_and, if_true]
            cases hem : !((js f).omitempty && tc.isEmpty f v)
            · simpa using h0.2 hem
            · simpa using h0.1 hem
        · intro i f' hi ha
          have := h (i + 1) f' (by simpa using hi) ha
          simpa [getF] using this

/-- **Composition for the Mutable twin**: `encoding/json` on the Mutable twin is `Faithful`
    (decoding into `AsMutable(t)`, value `AsMutable(x)`) as soon as, for every APPLICABLE field,
    the field's codec is `Faithful` from the target's field value when the field is written, and the
    target already agrees with `x` on a field that `omitempty` leaves out. -/
theorem mutableCodec_faithful {E : Type} (syn : ObjSyntax E) (s : StructSpec) (js : Field → JsonOpts)
    (tc : TypeCodecs E) (x t : Rec) (hx : Rec.WF s x) (ht : Rec.WF s t)
    (hsyn : syn.Splits (encPairs (mutableFieldCodecs s js tc) (asMutable s x)))
    (hd : DistinctJsonKeys s js)
    (h : ∀ i f, s.fields[i]? = some f → f.applicable = true →
      (fieldEmitted js tc f (getF i x) = true → Faithful (tc.codec f) (getF i t) (getF i x)) ∧
      (fieldEmitted js tc f (getF i x) = false → getF i t = getF i x)) :
    Faithful (mutableCodec syn s js tc) (asMutable s t) (asMutable s x) :=
  objCodec_faithful syn _ _ _ hsyn (distinctKeys_mutable s js tc hd)
    (fieldsOK_mask js tc s.fields t x ht hx h)

/-! ## `fp.Option[T]`-typed fields: where `NotNull` enters -/

/-- the field value as an `fp.Option` -/
def RV.toOpt : RV → Option RV
  | .some v => some v
  | _ => none

def RV.ofOpt : Option RV → RV
  | some v => .some v
  | none => .none

/-- `encoding/json` on a field of type `fp.Option[T]`: the `optionCodec` of `Model/Json.lean`
    (i.e. `Option[T].MarshalJSON` / `UnmarshalJSON`) on the field value -/
def optFieldCodec {E : Type} (c : Codec E RV) (zero : RV) : Codec (UErr E) RV where
  enc v := (optionCodec c zero).enc (RV.toOpt v)
  dec b cur :=
    match (optionCodec c zero).dec b (RV.toOpt cur) with
    | .ok o => .ok (RV.ofOpt o)
    | .error e => .error e

/-- an Option field holding `None` is faithful from every start value, for every element codec -/
theorem optFieldCodec_faithful_none {E : Type} (c : Codec E RV) (zero start : RV) :
    Faithful (optFieldCodec c zero) start .none := by
  simp [Faithful, optFieldCodec, RV.toOpt, RV.ofOpt, optionCodec, Opt.marshalJSON, Opt.unmarshalJSON,
    Res.asDec]

/-- an Option field holding `Some(v)` is faithful from EVERY start value when the element codec is
    `Faithful` (from the fresh zero value) and `NotNull` on `v` -/
theorem optFieldCodec_faithful_some {E : Type} (c : Codec E RV) (zero start v : RV)
    (hf : Faithful c zero v) (hn : NotNull c v) :
    Faithful (optFieldCodec c zero) start (.some v) := by
  simp only [Faithful] at hf
  simp only [NotNull] at hn
  simp [Faithful, optFieldCodec, RV.toOpt, RV.ofOpt, optionCodec, Opt.marshalJSON, Opt.unmarshalJSON,
    Res.asDec, hf, hn]

/-- … and it breaks when the element is null: `Some(v)` comes back as `None` -/
theorem optFieldCodec_null_collapses {E : Type} (c : Codec E RV) (zero start v : RV)
    (hn : ¬ NotNull c v) :
    (optFieldCodec c zero).dec ((optFieldCodec c zero).enc (.some v)) start = .ok .none := by
  have : firstNotN (c.enc v) = false := by simpa [NotNull] using hn
  simp [optFieldCodec, RV.toOpt, RV.ofOpt, optionCodec, Opt.marshalJSON, Opt.unmarshalJSON,
    Res.asDec, this]

/-! ## the json tag `genMutable` writes on a Mutable field -/

/-- `genMutable` appends a json tag of its own: the field is not `_`-prefixed, the struct is
    `@fp.Json`, and the user's tag does not contain the substring `json` -/
def generatesJsonTag (s : StructSpec) (f : Field) : Bool :=
  !f.name.startsWith "_" && s.ann.json && (f.tag.splitOn "json").length == 1

/-- the text `json:"<key>"` / `json:"<key>,omitempty"` -/
def jsonTagText (o : JsonOpts) : String :=
  "json:\"" ++ o.key ++ (if o.omitempty then ",omitempty" else "") ++ "\""

/-- key and `omitempty` of the tag `genMutable` generates: the (unexported, original) field name;
    `omitempty` iff the field type is nilable or an `fp.Option` -/
def generatedJsonOpts (f : Field) : JsonOpts := ⟨f.name, f.nilable || f.ty.isOpt⟩

/-- the user's tag followed by a blank, when there is one -/
def tagPrefix (f : Field) : String := if f.tag != "" then f.tag ++ " " else ""

/-- the empty tag does not contain `json` (the test `genMutable` makes, as the model spells it) -/
theorem splitOn_empty_json : ("".splitOn "json").length = 1 := by
  simp [String.splitOn]
  rw [String.splitOnAux]
  have : String.Pos.Raw.atEnd "" 0 = true := by decide
  simp [this]

/-- the two generated shapes are different strings, whatever precedes them -/
theorem jsonTagText_omitempty_ne (pre key : String) :
    pre ++ jsonTagText ⟨key, true⟩ ≠ pre ++ jsonTagText ⟨key, false⟩ := by
  intro h
  have h' := congrArg String.length h
  have h1 : ",omitempty".length = 10 := by decide
  simp [jsonTagText, String.length_append, h1] at h'

/-! ## field codecs of a struct with `fp.Option[T]` fields -/

/-- `encoding/json`'s view of the field types when the `fp.Option[T]`-typed fields go through
    `Option[T].MarshalJSON` / `UnmarshalJSON` with element codec `ec f` (fresh `var t T` = `ez f`) and
    every other field has the codec `plain f`.  An `fp.Option` value is a Go struct, so it is never
    "empty" for `omitempty`. -/
def optionTypeCodecs {E : Type} (ec : Field → Codec E RV) (ez : Field → RV)
    (plain : Field → Codec (UErr E) RV) (plainEmpty : Field → RV → Bool) : TypeCodecs (UErr E) where
  codec f := if f.ty.isOpt then optFieldCodec (ec f) (ez f) else plain f
  isEmpty f v := if f.ty.isOpt then false else plainEmpty f v

end FpVerif.Json
