import FpVerif.Lemmas.DeriveInst
/-!
# Fuel adequacy of the derived instances of (recursive) declarations (C08, audit finding 10)

`Decl.eqInst / ordInst / hashInst` tie the knot of a recursive type (`Inst.self`) by unfolding
`fuel` times; the fuel-0 instance is the all-equal one.  This file defines the nesting depth of a
VALUE relative to a declaration (`Decl.depthLE d k x`: every chain of recursive references inside
`x` is at most `k` long — the counterpart of `selfShape` for clone) and proves that two unfoldings
agree on all values of depth `≤ k` as soon as both have more than `k` levels.

New definitions only; nothing an oracle runs is changed.
-/
namespace FpVerif.Derive
open FpVerif.Rec

/-! ## Where an instance expression applies `self` / a parameter dictionary inside a value -/

mutual
  /-- `i.within penv self v`: every sub-value of `v` to which the denotation of `i` applies the
      recursive reference satisfies `self`, every one handed to the dictionary of type parameter `n`
      satisfies `penv n` (type-directed, following exactly the projections `Inst.eq/ord/hash` use) -/
  def Inst.within (penv : String → DV → Prop) (self : DV → Prop) : Inst → DV → Prop
    | .prim _ => fun _ => True
    | .option i => fun v => ∀ w, v.asOpt = some w → i.within penv self w
    | .seq i => fun v => ∀ w, w ∈ v.asList → i.within penv self w
    | .slice i => fun v => ∀ w, w ∈ v.asList → i.within penv self w
    | .ptr i => fun v => ∀ w, v.asPtr = some w → i.within penv self w
    | .gomap i => fun v => ∀ p, p ∈ v.goMap.entries → i.within penv self p.2
    | .tuple2 a b => fun v => InCarriers [a.within penv self, b.within penv self] (v.asN 2)
    | .struct s is => fun v =>
        InCarriers (Inst.withins penv self is) (unapplyG s (v.asN s.fields.length))
    | .self => self
    | .tparam n => penv n
  def Inst.withins (penv : String → DV → Prop) (self : DV → Prop) : List Inst → List (DV → Prop)
    | [] => []
    | i :: is => i.within penv self :: Inst.withins penv self is
end

/-- the per-field predicates of a declaration: field `f` is looked at by the component
    `resolve …` of `f`, so its value has to be `within` that component's expression -/
def Decl.withinFields (d : Decl) (S : DV → Prop) : List (DV → Prop) :=
  let penv : String → DV → Prop := fun n => (d.paramInst n).within (fun _ _ => True) S
  components d.spec d.params (fun t => (d.givenInst t).within penv S) penv

/-- `d.depthLE k x`: the recursive references inside the struct value `x` nest at most `k - 1` deep
    (`depthLE 0` is empty; `depthLE 1 x`: no recursive reference of `x` is followed at all — nil
    pointers, empty sequences, `None`; `depthLE (k+1) x`: what they lead to is `depthLE k`) -/
def Decl.depthLE (d : Decl) : Nat → List DV → Prop
  | 0 => fun _ => False
  | k + 1 => fun x =>
      InCarriers (d.withinFields fun v => d.depthLE k (v.asN d.spec.fields.length)) (unapplyG d.spec x)

/-! ## Pointwise relations on three lists -/

inductive Forall3 {A B C : Type} (R : A → B → C → Prop) : List A → List B → List C → Prop where
  | nil : Forall3 R [] [] []
  | cons {a b c as bs cs} : R a b c → Forall3 R as bs cs → Forall3 R (a :: as) (b :: bs) (c :: cs)

theorem components_forall3 {D E F : Type} (R : D → E → F → Prop) (s : StructSpec)
    (params : List String) (g1 : Ty → D) (p1 : String → D) (g2 : Ty → E) (p2 : String → E)
    (g3 : Ty → F) (p3 : String → F) (hg : ∀ t, R (g1 t) (g2 t) (g3 t))
    (hp : ∀ n, R (p1 n) (p2 n) (p3 n)) :
    Forall3 R (components s params g1 p1) (components s params g2 p2)
      (components s params g3 p3) := by
  unfold components
  induction s.applicableFields with
  | nil => exact .nil
  | cons f fs ih =>
    refine .cons ?_ ih
    unfold resolve
    split
    · split
      · exact hp _
      · exact hg _
    · exact hg _

/-! ## Eq -/

/-- two `Eq` dictionaries agree on the values satisfying `P` -/
def AgreeEq {α : Type} (d1 d2 : EqD α) (P : α → Prop) : Prop :=
  ∀ a b, P a → P b → d1.eqv a b = d2.eqv a b

theorem tupleEq_agree {α : Type} {ds1 ds2 : List (EqD α)} {Ps : List (α → Prop)}
    (h : Forall3 AgreeEq ds1 ds2 Ps) :
    ∀ {as bs : List α}, InCarriers Ps as → InCarriers Ps bs →
      tupleEq ds1 as bs = tupleEq ds2 as bs := by
  induction h with
  | nil => intro as bs _ _; simp [tupleEq]
  | @cons d1 d2 P ds1 ds2 Ps hd hrest ih =>
    intro as bs ha hb
    cases ha with
    | @cons _ a _ as' pa ha' =>
      cases hb with
      | @cons _ b _ bs' pb hb' =>
        have e1 := hd a b pa pb
        have e2 := ih ha' hb'
        cases hrest with
        | nil => simp [tupleEq, e1]
        | cons _ _ => simp only [tupleEq, e1, e2]

theorem optEqv_agree {e1 e2 : EqD DV} {oa ob : Option DV}
    (h : ∀ x y, oa = some x → ob = some y → e1.eqv x y = e2.eqv x y) :
    optEqv e1 oa ob = optEqv e2 oa ob := by
  cases oa <;> cases ob <;> simp [optEqv]
  exact h _ _ rfl rfl

theorem seqLoop_agree {e1 e2 : EqD DV} :
    ∀ {a b : List DV}, (∀ x y, x ∈ a → y ∈ b → e1.eqv x y = e2.eqv x y) →
      TC.EqD.seqLoop ⟨e1.eqv⟩ a b = TC.EqD.seqLoop ⟨e2.eqv⟩ a b
  | [], _, _ => by simp [TC.EqD.seqLoop]
  | _ :: _, [], _ => by simp [TC.EqD.seqLoop]
  | x :: a, y :: b, h => by
    simp only [TC.EqD.seqLoop, h x y (by simp) (by simp),
      seqLoop_agree (a := a) (b := b) fun x y hx hy => h x y (by simp [hx]) (by simp [hy])]

theorem seqEqv_agree {e1 e2 : EqD DV} {a b : List DV}
    (h : ∀ x y, x ∈ a → y ∈ b → e1.eqv x y = e2.eqv x y) : seqEqv e1 a b = seqEqv e2 a b := by
  simp only [seqEqv, TC.EqD.seq, TC.EqD.new]
  rw [seqLoop_agree h]

theorem lookup_mem {κ ν : Type} [DecidableEq κ] {k : κ} {v : ν} :
    ∀ {l : List (κ × ν)}, TC.lookup k l = some v → (k, v) ∈ l
  | [], h => by simp [TC.lookup] at h
  | (k', v') :: rest, h => by
    simp only [TC.lookup] at h
    split at h
    · rename_i hk; cases h; subst hk; simp
    · exact List.mem_cons_of_mem _ (lookup_mem h)

theorem all_congr_mem {α : Type} {p q : α → Bool} :
    ∀ {l : List α}, (∀ x, x ∈ l → p x = q x) → l.all p = l.all q
  | [], _ => rfl
  | x :: l, h => by
    simp only [List.all_cons, h x (by simp),
      all_congr_mem (l := l) fun y hy => h y (List.mem_cons_of_mem _ hy)]

theorem goMapEqv_agree {e1 e2 : EqD DV} {a b : TC.GoMap (List UInt8) DV}
    (h : ∀ p q, p ∈ a.entries → q ∈ b.entries → e1.eqv p.2 q.2 = e2.eqv p.2 q.2) :
    (TC.EqD.goMap (κ := List UInt8) ⟨e1.eqv⟩).eqv a b =
      (TC.EqD.goMap (κ := List UInt8) ⟨e2.eqv⟩).eqv a b := by
  simp only [TC.EqD.goMap, TC.EqD.new]
  split
  · rfl
  · apply all_congr_mem
    intro kv hkv
    cases hg : b.get kv.1 with
    | none => rfl
    | some bv => exact h kv (kv.1, bv) hkv (lookup_mem hg)

mutual
  /-- Two environments that agree on `self` / `penv` give denotations that agree on the values
      `within` the expression. -/
  theorem eq_agree (env1 env2 : Env (EqD DV)) (penv : String → DV → Prop) (self : DV → Prop)
      (hs : AgreeEq env1.self env2.self self)
      (hp : ∀ n, AgreeEq (env1.param n) (env2.param n) (penv n)) :
      (i : Inst) → AgreeEq (i.eq env1) (i.eq env2) (i.within penv self)
    | .prim n => fun _ _ _ _ => by simp [Inst.eq]
    | .option i => fun a b ha hb => by
      simp only [Inst.eq, eqOption]
      exact optEqv_agree fun x y hx hy =>
        eq_agree env1 env2 penv self hs hp i x y (ha x hx) (hb y hy)
    | .seq i => fun a b ha hb => by
      simp only [Inst.eq, eqSeq]
      exact seqEqv_agree fun x y hx hy =>
        eq_agree env1 env2 penv self hs hp i x y (ha x hx) (hb y hy)
    | .slice i => fun a b ha hb => by
      simp only [Inst.eq, eqSlice, EqD.contraMap, eqSeq, id]
      exact seqEqv_agree fun x y hx hy =>
        eq_agree env1 env2 penv self hs hp i x y (ha x hx) (hb y hy)
    | .ptr i => fun a b ha hb => by
      simp only [Inst.eq, eqPtr]
      exact optEqv_agree fun x y hx hy =>
        eq_agree env1 env2 penv self hs hp i x y (ha x hx) (hb y hy)
    | .gomap i => fun a b ha hb => by
      simp only [Inst.eq, eqGoMap]
      exact goMapEqv_agree fun p q hp' hq =>
        eq_agree env1 env2 penv self hs hp i p.2 q.2 (ha p hp') (hb q hq)
    | .tuple2 x y => fun a b ha hb => by
      simp only [Inst.eq, eqTuple2, EqD.comap]
      exact tupleEq_agree
        (.cons (eq_agree env1 env2 penv self hs hp x)
          (.cons (eq_agree env1 env2 penv self hs hp y) .nil)) ha hb
    | .struct s is => fun a b ha hb => by
      simp only [Inst.eq, eqRec, EqD.comap, derivedEq, EqD.contraMap]
      exact tupleEq_agree (eqs_agree env1 env2 penv self hs hp is) ha hb
    | .self => fun a b ha hb => by simpa [Inst.eq] using hs a b ha hb
    | .tparam n => fun a b ha hb => by simpa [Inst.eq] using hp n a b ha hb
  theorem eqs_agree (env1 env2 : Env (EqD DV)) (penv : String → DV → Prop) (self : DV → Prop)
      (hs : AgreeEq env1.self env2.self self)
      (hp : ∀ n, AgreeEq (env1.param n) (env2.param n) (penv n)) :
      (is : List Inst) →
        Forall3 AgreeEq (Inst.eqs env1 is) (Inst.eqs env2 is) (Inst.withins penv self is)
    | [] => by simpa [Inst.eqs, Inst.withins] using Forall3.nil (R := AgreeEq (α := DV))
    | i :: is => by
      simpa [Inst.eqs, Inst.withins] using
        Forall3.cons (R := AgreeEq (α := DV)) (eq_agree env1 env2 penv self hs hp i)
          (eqs_agree env1 env2 penv self hs hp is)
end

/-- Fuel adequacy, `Eq`: on values whose recursive references nest less than `k` deep every
    unfolding with at least `k` levels computes the same `Eqv` as the one with exactly `k`. -/
theorem eqInst_agree (d : Decl) :
    ∀ k j, AgreeEq (d.eqInst (k + j)) (d.eqInst k) (d.depthLE k)
  | 0, _ => fun _ _ h => h.elim
  | k + 1, j => by
    intro x y hx hy
    have e : k + 1 + j = (k + j) + 1 := by omega
    rw [e]
    have hs : AgreeEq ((d.eqInst (k + j)).comap (DV.asN d.spec.fields.length))
        ((d.eqInst k).comap (DV.asN d.spec.fields.length))
        (fun v => d.depthLE k (v.asN d.spec.fields.length)) :=
      fun a b ha hb => eqInst_agree d k j _ _ ha hb
    have hpd := fun n => eq_agree ⟨_, fun _ => EqD.trivial⟩ ⟨_, fun _ => EqD.trivial⟩
      (fun _ _ => True) _ hs (fun _ _ _ _ _ => rfl) (d.paramInst n)
    simp only [Decl.eqInst, derivedEqG, derivedEq, EqD.contraMap]
    exact tupleEq_agree
      (components_forall3 AgreeEq _ _ _ _ _ _ _ _
        (fun t => eq_agree ⟨_, _⟩ ⟨_, _⟩ _ _ hs hpd (d.givenInst t)) hpd) hx hy

/-! ## Hashable -/

/-- two `Hashable` dictionaries agree on the values satisfying `P` -/
def AgreeHash {α : Type} (d1 d2 : HashD α) (P : α → Prop) : Prop :=
  (∀ a b, P a → P b → d1.eqv a b = d2.eqv a b) ∧ ∀ a, P a → d1.hash a = d2.hash a

theorem AgreeHash.toEq {α : Type} {ds1 ds2 : List (HashD α)} {Ps : List (α → Prop)}
    (h : Forall3 AgreeHash ds1 ds2 Ps) :
    Forall3 AgreeEq (ds1.map HashD.toEq) (ds2.map HashD.toEq) Ps := by
  induction h with
  | nil => exact .nil
  | cons hd _ ih => exact .cons hd.1 ih

theorem tupleHash_agree {α : Type} {ds1 ds2 : List (HashD α)} {Ps : List (α → Prop)}
    (h : Forall3 AgreeHash ds1 ds2 Ps) :
    ∀ {as : List α}, InCarriers Ps as → tupleHash ds1 as = tupleHash ds2 as := by
  induction h with
  | nil => intro as _; simp [tupleHash]
  | @cons d1 d2 P ds1 ds2 Ps hd hrest ih =>
    intro as ha
    cases ha with
    | @cons _ a _ as' pa ha' =>
      have e1 := hd.2 a pa
      have e2 := ih ha'
      cases hrest with
      | nil => simp [tupleHash, e1]
      | cons _ _ => simp only [tupleHash, e1, e2]

theorem foldl_congr_mem {α β : Type} {f g : β → α → β} :
    ∀ {l : List α} {z : β}, (∀ acc x, x ∈ l → f acc x = g acc x) → l.foldl f z = l.foldl g z
  | [], _, _ => rfl
  | x :: l, z, h => by
    simp only [List.foldl_cons, h z x (by simp)]
    exact foldl_congr_mem fun acc y hy => h acc y (List.mem_cons_of_mem _ hy)

mutual
  theorem hash_agree (env1 env2 : Env (HashD DV)) (penv : String → DV → Prop) (self : DV → Prop)
      (hs : AgreeHash env1.self env2.self self)
      (hp : ∀ n, AgreeHash (env1.param n) (env2.param n) (penv n)) :
      (i : Inst) → AgreeHash (i.hash env1) (i.hash env2) (i.within penv self)
    | .prim n => ⟨fun _ _ _ _ => by simp [Inst.hash], fun _ _ => by simp [Inst.hash]⟩
    | .option i => by
      have ih := hash_agree env1 env2 penv self hs hp i
      refine ⟨fun a b ha hb => ?_, fun a ha => ?_⟩
      · simp only [Inst.hash, hashOption, eqOption, HashD.toEq]
        exact optEqv_agree fun x y hx hy => ih.1 x y (ha x hx) (hb y hy)
      · simp only [Inst.hash, hashOption]
        cases h : a.asOpt with
        | none => rfl
        | some w => exact ih.2 w (ha w h)
    | .seq i => by
      have ih := hash_agree env1 env2 penv self hs hp i
      refine ⟨fun a b ha hb => ?_, fun a ha => ?_⟩
      · simp only [Inst.hash, hashSeq, eqSeq, HashD.toEq]
        exact seqEqv_agree fun x y hx hy => ih.1 x y (ha x hx) (hb y hy)
      · simp only [Inst.hash, hashSeq]
        exact foldl_congr_mem fun acc x hx => by rw [ih.2 x (ha x hx)]
    | .slice i => by
      have ih := hash_agree env1 env2 penv self hs hp i
      refine ⟨fun a b ha hb => ?_, fun a ha => ?_⟩
      · simp only [Inst.hash, hashSlice, HashD.contraMap, hashSeq, eqSeq, HashD.toEq, id]
        exact seqEqv_agree fun x y hx hy => ih.1 x y (ha x hx) (hb y hy)
      · simp only [Inst.hash, hashSlice, HashD.contraMap, hashSeq, id]
        exact foldl_congr_mem fun acc x hx => by rw [ih.2 x (ha x hx)]
    | .ptr i => by
      have ih := hash_agree env1 env2 penv self hs hp i
      refine ⟨fun a b ha hb => ?_, fun a ha => ?_⟩
      · simp only [Inst.hash, hashPtr, eqPtr, HashD.toEq]
        exact optEqv_agree fun x y hx hy => ih.1 x y (ha x hx) (hb y hy)
      · simp only [Inst.hash, hashPtr]
        cases h : a.asPtr with
        | none => rfl
        | some w => exact ih.2 w (ha w h)
    | .gomap _ => ⟨fun _ _ _ _ => by simp [Inst.hash], fun _ _ => by simp [Inst.hash]⟩
    | .tuple2 x y => by
      have H : Forall3 AgreeHash [x.hash env1, y.hash env1] [x.hash env2, y.hash env2]
          [x.within penv self, y.within penv self] :=
        .cons (hash_agree env1 env2 penv self hs hp x)
          (.cons (hash_agree env1 env2 penv self hs hp y) .nil)
      refine ⟨fun a b ha hb => ?_, fun a ha => ?_⟩
      · simp only [Inst.hash, hashTuple2, HashD.comap]
        exact tupleEq_agree (AgreeHash.toEq H) ha hb
      · simp only [Inst.hash, hashTuple2, HashD.comap]
        exact tupleHash_agree H ha
    | .struct s is => by
      have H := hashes_agree env1 env2 penv self hs hp is
      refine ⟨fun a b ha hb => ?_, fun a ha => ?_⟩
      · simp only [Inst.hash, hashRec, HashD.comap, derivedHash, HashD.contraMap]
        exact tupleEq_agree (AgreeHash.toEq H) ha hb
      · simp only [Inst.hash, hashRec, HashD.comap, derivedHash, HashD.contraMap]
        exact tupleHash_agree H ha
    | .self => by simpa [Inst.hash, Inst.within] using hs
    | .tparam n => by simpa [Inst.hash, Inst.within] using hp n
  theorem hashes_agree (env1 env2 : Env (HashD DV)) (penv : String → DV → Prop) (self : DV → Prop)
      (hs : AgreeHash env1.self env2.self self)
      (hp : ∀ n, AgreeHash (env1.param n) (env2.param n) (penv n)) :
      (is : List Inst) →
        Forall3 AgreeHash (Inst.hashes env1 is) (Inst.hashes env2 is) (Inst.withins penv self is)
    | [] => by simpa [Inst.hashes, Inst.withins] using Forall3.nil (R := AgreeHash (α := DV))
    | i :: is => by
      simpa [Inst.hashes, Inst.withins] using
        Forall3.cons (R := AgreeHash (α := DV)) (hash_agree env1 env2 penv self hs hp i)
          (hashes_agree env1 env2 penv self hs hp is)
end

/-- Fuel adequacy, `Hashable` (both `Eqv` and `Hash`). -/
theorem hashInst_agree (d : Decl) :
    ∀ k j, AgreeHash (d.hashInst (k + j)) (d.hashInst k) (d.depthLE k)
  | 0, _ => ⟨fun _ _ h => h.elim, fun _ h => h.elim⟩
  | k + 1, j => by
    have e : k + 1 + j = (k + j) + 1 := by omega
    rw [e]
    have ih := hashInst_agree d k j
    have hs : AgreeHash ((d.hashInst (k + j)).comap (DV.asN d.spec.fields.length))
        ((d.hashInst k).comap (DV.asN d.spec.fields.length))
        (fun v => d.depthLE k (v.asN d.spec.fields.length)) :=
      ⟨fun a b ha hb => ih.1 _ _ ha hb, fun a ha => ih.2 _ ha⟩
    have hpd := fun n => hash_agree ⟨_, fun _ => HashD.trivial⟩ ⟨_, fun _ => HashD.trivial⟩
      (fun _ _ => True) _ hs (fun _ => ⟨fun _ _ _ _ => rfl, fun _ _ => rfl⟩) (d.paramInst n)
    have H := components_forall3 AgreeHash d.spec d.params _ _ _ _ _ _
        (fun t => hash_agree ⟨_, _⟩ ⟨_, _⟩ _ _ hs hpd (d.givenInst t)) hpd
    refine ⟨fun x y hx hy => ?_, fun x hx => ?_⟩
    · simp only [Decl.hashInst, derivedHashG, derivedHash, HashD.contraMap]
      exact tupleEq_agree (AgreeHash.toEq H) hx hy
    · simp only [Decl.hashInst, derivedHashG, derivedHash, HashD.contraMap]
      exact tupleHash_agree H hx

/-! ## Ord -/

/-- two `Ord` dictionaries agree on the values satisfying `P` -/
def AgreeOrd {α : Type} (d1 d2 : OrdD α) (P : α → Prop) : Prop :=
  ∀ a b, P a → P b → d1.eqv a b = d2.eqv a b ∧ d1.less a b = d2.less a b

theorem new_agree {α : Type} {e1 l1 e2 l2 : α → α → Bool} {a b : α} (he : e1 a b = e2 a b)
    (hl : l1 a b = l2 a b) (hl' : l1 b a = l2 b a) :
    (OrdD.new e1 l1).eqv a b = (OrdD.new e2 l2).eqv a b ∧
      (OrdD.new e1 l1).less a b = (OrdD.new e2 l2).less a b := by
  simp only [OrdD.new, he, hl, hl', and_self]

theorem tupleOrd_agree {α : Type} {ds1 ds2 : List (OrdD α)} {Ps : List (α → Prop)}
    (h : Forall3 AgreeOrd ds1 ds2 Ps) :
    ∀ {as bs : List α}, InCarriers Ps as → InCarriers Ps bs →
      (tupleOrd ds1).eqv as bs = (tupleOrd ds2).eqv as bs ∧
        (tupleOrd ds1).less as bs = (tupleOrd ds2).less as bs := by
  induction h with
  | nil => intro as bs _ _; simp [tupleOrd]
  | @cons d1 d2 P ds1 ds2 Ps hd hrest ih =>
    intro as bs ha hb
    cases ha with
    | @cons _ a _ as' pa ha' =>
      cases hb with
      | @cons _ b _ bs' pb hb' =>
        have e1 := hd a b pa pb
        have e1' := hd b a pb pa
        have e2 := ih ha' hb'
        have e2' := ih hb' ha'
        simp only [tupleOrd]
        apply new_agree
        · simp only [e1.1, e2.1]
        · simp only [e1.2, e1'.2, e2.2]
        · simp only [e1.2, e1'.2, e2'.2]

theorem optLess_agree {m1 m2 : OrdD DV} {oa ob : Option DV}
    (h : ∀ x y, oa = some x → ob = some y → m1.less x y = m2.less x y) :
    optLess m1 oa ob = optLess m2 oa ob := by
  cases oa <;> cases ob <;> simp [optLess]
  exact h _ _ rfl rfl

theorem ptrLess_agree {m1 m2 : OrdD DV} {oa ob : Option DV}
    (h : ∀ x y, oa = some x → ob = some y → m1.less x y = m2.less x y) :
    ptrLess m1 oa ob = ptrLess m2 oa ob := by
  cases oa <;> cases ob <;> simp [ptrLess]
  exact h _ _ rfl rfl

theorem tcSeqLess_agree {l1 l2 : DV → DV → Bool} :
    ∀ {a b : List DV}, (∀ x y, x ∈ a → y ∈ b → l1 x y = l2 x y ∧ l1 y x = l2 y x) →
      TC.OrdD.seqLess (TC.OrdD.lessFunc l1) a b = TC.OrdD.seqLess (TC.OrdD.lessFunc l2) a b
  | [], _, _ => by simp [TC.OrdD.seqLess]
  | _ :: _, [], _ => by simp [TC.OrdD.seqLess]
  | x :: a, y :: b, h => by
    have e := h x y (by simp) (by simp)
    have ih := tcSeqLess_agree (a := a) (b := b) fun x y hx hy =>
      h x y (by simp [hx]) (by simp [hy])
    have k1 : (TC.OrdD.lessFunc l1).less x y = (TC.OrdD.lessFunc l2).less x y := e.1
    have k2 : (TC.OrdD.lessFunc l1).less y x = (TC.OrdD.lessFunc l2).less y x := e.2
    simp only [TC.OrdD.seqLess, k1, k2, ih]

mutual
  theorem ord_agree (env1 env2 : Env (OrdD DV)) (penv : String → DV → Prop) (self : DV → Prop)
      (hs : AgreeOrd env1.self env2.self self)
      (hp : ∀ n, AgreeOrd (env1.param n) (env2.param n) (penv n)) :
      (i : Inst) → AgreeOrd (i.ord env1) (i.ord env2) (i.within penv self)
    | .prim n => fun _ _ _ _ => by simp [Inst.ord]
    | .option i => fun a b ha hb => by
      have ih := ord_agree env1 env2 penv self hs hp i
      have e1 : optLess (i.ord env1) a.asOpt b.asOpt = optLess (i.ord env2) a.asOpt b.asOpt :=
        optLess_agree fun x y hx hy => (ih x y (ha x hx) (hb y hy)).2
      have e2 : optLess (i.ord env1) b.asOpt a.asOpt = optLess (i.ord env2) b.asOpt a.asOpt :=
        optLess_agree fun x y hx hy => (ih x y (hb x hx) (ha y hy)).2
      simp only [Inst.ord, ordOption, OrdD.ofLess, e1, e2, and_self]
    | .seq i => fun a b ha hb => by
      have ih := ord_agree env1 env2 penv self hs hp i
      simp only [Inst.ord, ordSeq]
      apply new_agree
      · simp only [eqSeq, OrdD.toEq]
        exact seqEqv_agree fun x y hx hy => (ih x y (ha x hx) (hb y hy)).1
      · exact tcSeqLess_agree fun x y hx hy =>
          ⟨(ih x y (ha x hx) (hb y hy)).2, (ih y x (hb y hy) (ha x hx)).2⟩
      · exact tcSeqLess_agree fun x y hx hy =>
          ⟨(ih x y (hb x hx) (ha y hy)).2, (ih y x (ha y hy) (hb x hx)).2⟩
    | .slice i => fun a b ha hb => by
      have ih := ord_agree env1 env2 penv self hs hp i
      have K : ∀ a b : DV, (∀ w, w ∈ a.asList → i.within penv self w) →
          (∀ w, w ∈ b.asList → i.within penv self w) →
          (ordSeq (i.ord env1)).eqv a b = (ordSeq (i.ord env2)).eqv a b ∧
            (ordSeq (i.ord env1)).less a b = (ordSeq (i.ord env2)).less a b := by
        intro a b ha hb
        simp only [ordSeq]
        apply new_agree
        · simp only [eqSeq, OrdD.toEq]
          exact seqEqv_agree fun x y hx hy => (ih x y (ha x hx) (hb y hy)).1
        · exact tcSeqLess_agree fun x y hx hy =>
            ⟨(ih x y (ha x hx) (hb y hy)).2, (ih y x (hb y hy) (ha x hx)).2⟩
        · exact tcSeqLess_agree fun x y hx hy =>
            ⟨(ih x y (hb x hx) (ha y hy)).2, (ih y x (ha y hy) (hb x hx)).2⟩
      simp only [Inst.ord, ordSlice, OrdD.contraMap, id]
      exact new_agree (K a b ha hb).1 (K a b ha hb).2 (K b a hb ha).2
    | .ptr i => fun a b ha hb => by
      have ih := ord_agree env1 env2 penv self hs hp i
      simp only [Inst.ord, ordPtr]
      apply new_agree
      · simp only [eqPtr, OrdD.toEq]
        exact optEqv_agree fun x y hx hy => (ih x y (ha x hx) (hb y hy)).1
      · exact ptrLess_agree fun x y hx hy => (ih x y (ha x hx) (hb y hy)).2
      · exact ptrLess_agree fun x y hx hy => (ih x y (hb x hx) (ha y hy)).2
    | .gomap _ => fun _ _ _ _ => by simp [Inst.ord]
    | .tuple2 x y => fun a b ha hb => by
      simp only [Inst.ord, ordTuple2, OrdD.comap]
      exact tupleOrd_agree
        (.cons (ord_agree env1 env2 penv self hs hp x)
          (.cons (ord_agree env1 env2 penv self hs hp y) .nil)) ha hb
    | .struct s is => fun a b ha hb => by
      have H := ords_agree env1 env2 penv self hs hp is
      simp only [Inst.ord, ordRec, OrdD.comap, derivedOrd, OrdD.contraMap]
      exact new_agree (tupleOrd_agree H ha hb).1 (tupleOrd_agree H ha hb).2
        (tupleOrd_agree H hb ha).2
    | .self => by simpa [Inst.ord, Inst.within] using hs
    | .tparam n => by simpa [Inst.ord, Inst.within] using hp n
  theorem ords_agree (env1 env2 : Env (OrdD DV)) (penv : String → DV → Prop) (self : DV → Prop)
      (hs : AgreeOrd env1.self env2.self self)
      (hp : ∀ n, AgreeOrd (env1.param n) (env2.param n) (penv n)) :
      (is : List Inst) →
        Forall3 AgreeOrd (Inst.ords env1 is) (Inst.ords env2 is) (Inst.withins penv self is)
    | [] => by simpa [Inst.ords, Inst.withins] using Forall3.nil (R := AgreeOrd (α := DV))
    | i :: is => by
      simpa [Inst.ords, Inst.withins] using
        Forall3.cons (R := AgreeOrd (α := DV)) (ord_agree env1 env2 penv self hs hp i)
          (ords_agree env1 env2 penv self hs hp is)
end

/-- Fuel adequacy, `Ord` (both `Eqv` and `Less`). -/
theorem ordInst_agree (d : Decl) :
    ∀ k j, AgreeOrd (d.ordInst (k + j)) (d.ordInst k) (d.depthLE k)
  | 0, _ => fun _ _ h => h.elim
  | k + 1, j => by
    intro x y hx hy
    have e : k + 1 + j = (k + j) + 1 := by omega
    rw [e]
    have hs : AgreeOrd ((d.ordInst (k + j)).comap (DV.asN d.spec.fields.length))
        ((d.ordInst k).comap (DV.asN d.spec.fields.length))
        (fun v => d.depthLE k (v.asN d.spec.fields.length)) :=
      fun a b ha hb => ordInst_agree d k j _ _ ha hb
    have hpd := fun n => ord_agree ⟨_, fun _ => OrdD.trivial⟩ ⟨_, fun _ => OrdD.trivial⟩
      (fun _ _ => True) _ hs (fun _ _ _ _ _ => ⟨rfl, rfl⟩) (d.paramInst n)
    have H := components_forall3 AgreeOrd d.spec d.params _ _ _ _ _ _
        (fun t => ord_agree ⟨_, _⟩ ⟨_, _⟩ _ _ hs hpd (d.givenInst t)) hpd
    simp only [Decl.ordInst, derivedOrdG, derivedOrd, OrdD.contraMap]
    exact new_agree (tupleOrd_agree H hx hy).1 (tupleOrd_agree H hx hy).2
      (tupleOrd_agree H hy hx).2

/-! ## Monotonicity of the depth bound -/

theorem inCarriers2_mono {P P' Q Q' : DV → Prop} (hP : ∀ v, P v → P' v) (hQ : ∀ v, Q v → Q' v)
    {vs : List DV} (h : InCarriers [P, Q] vs) : InCarriers [P', Q'] vs := by
  cases h with
  | cons p h2 =>
    cases h2 with
    | cons q h3 => cases h3; exact .cons (hP _ p) (.cons (hQ _ q) .nil)

mutual
  theorem within_mono {penv penv' : String → DV → Prop} {self self' : DV → Prop}
      (hp : ∀ n v, penv n v → penv' n v) (hs : ∀ v, self v → self' v) :
      (i : Inst) → ∀ v, i.within penv self v → i.within penv' self' v
    | .prim _, _, _ => by simp [Inst.within]
    | .option i, v, h => by
      simp only [Inst.within] at h ⊢
      exact fun w hw => within_mono hp hs i w (h w hw)
    | .seq i, v, h => by
      simp only [Inst.within] at h ⊢
      exact fun w hw => within_mono hp hs i w (h w hw)
    | .slice i, v, h => by
      simp only [Inst.within] at h ⊢
      exact fun w hw => within_mono hp hs i w (h w hw)
    | .ptr i, v, h => by
      simp only [Inst.within] at h ⊢
      exact fun w hw => within_mono hp hs i w (h w hw)
    | .gomap i, v, h => by
      simp only [Inst.within] at h ⊢
      exact fun p hp' => within_mono hp hs i p.2 (h p hp')
    | .tuple2 a b, v, h => by
      simp only [Inst.within] at h ⊢
      exact inCarriers2_mono (within_mono hp hs a) (within_mono hp hs b) h
    | .struct s is, v, h => by
      simp only [Inst.within] at h ⊢
      exact withins_mono hp hs is _ h
    | .self, v, h => by
      simp only [Inst.within] at h ⊢
      exact hs v h
    | .tparam n, v, h => by
      simp only [Inst.within] at h ⊢
      exact hp n v h
  theorem withins_mono {penv penv' : String → DV → Prop} {self self' : DV → Prop}
      (hp : ∀ n v, penv n v → penv' n v) (hs : ∀ v, self v → self' v) :
      (is : List Inst) → ∀ vs, InCarriers (Inst.withins penv self is) vs →
        InCarriers (Inst.withins penv' self' is) vs
    | [], vs, h => by
      simp only [Inst.withins] at h ⊢
      exact h
    | i :: is, vs, h => by
      simp only [Inst.withins] at h ⊢
      cases h with
      | cons p hrest => exact .cons (within_mono hp hs i _ p) (withins_mono hp hs is _ hrest)
end

theorem components_inCarriers_mono (s : StructSpec) (params : List String)
    (g1 g2 : Ty → DV → Prop) (p1 p2 : String → DV → Prop) (hg : ∀ t v, g1 t v → g2 t v)
    (hp : ∀ n v, p1 n v → p2 n v) :
    ∀ vs, InCarriers (components s params g1 p1) vs → InCarriers (components s params g2 p2) vs := by
  unfold components
  induction s.applicableFields with
  | nil => intro vs h; simpa using h
  | cons f fs ih =>
    intro vs h
    simp only [List.map_cons] at h ⊢
    cases h with
    | cons pv hrest =>
      refine .cons ?_ (ih _ hrest)
      cases hty : f.ty with
      | conc n =>
        by_cases hn : params.contains n = true
        · simp only [resolve, hty, hn, if_true] at pv ⊢
          exact hp _ _ pv
        · simp only [resolve, hty, hn] at pv ⊢
          exact hg _ _ pv
      | iface nm all impls =>
        simp only [resolve, hty] at pv ⊢
        exact hg _ _ pv
      | opt e =>
        simp only [resolve, hty] at pv ⊢
        exact hg _ _ pv

theorem Decl.withinFields_mono (d : Decl) {S S' : DV → Prop} (h : ∀ v, S v → S' v) :
    ∀ vs, InCarriers (d.withinFields S) vs → InCarriers (d.withinFields S') vs := by
  have hp : ∀ n v, (d.paramInst n).within (fun _ _ => True) S v →
      (d.paramInst n).within (fun _ _ => True) S' v :=
    fun n v => within_mono (fun _ _ t => t) h _ v
  exact components_inCarriers_mono _ _ _ _ _ _ (fun t v => within_mono hp h _ v) hp

/-- a value of depth `≤ k` is of depth `≤ k + 1` -/
theorem Decl.depthLE_succ (d : Decl) : ∀ k x, d.depthLE k x → d.depthLE (k + 1) x
  | 0, _, h => h.elim
  | k + 1, x, h => by
    simp only [Decl.depthLE] at h ⊢
    exact d.withinFields_mono (fun v hv => Decl.depthLE_succ d k _ hv) _ h

theorem Decl.depthLE_mono (d : Decl) {k k' : Nat} (hk : k ≤ k') {x : List DV}
    (h : d.depthLE k x) : d.depthLE k' x := by
  induction hk with
  | refl => exact h
  | step _ ih => exact d.depthLE_succ _ _ ih

end FpVerif.Derive
