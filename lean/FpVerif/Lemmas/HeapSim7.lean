import FpVerif.Lemmas.HeapSim6
/-!
Simulation, part 7: the array-node expansion, `mapNode.set` (= `hsetN`), `(*hamt).set`.
-/
set_option linter.unusedSimpArgs false
set_option linter.unusedVariables false
namespace FpVerif.HamtHeap
open FpVerif.Hamt
variable {K V : Type} {α β : Type}

theorem expandSim_fail :
    ExpandSim (K := K) (V := V) (fun _ _ _ _ => throw "model: array node below the root")
      (fun _ _ _ _ => fail "model: array node below the root") := by
  intro es k v r H n' r' F hv; cases hv

/-- `set` on the nodes built during an expansion -/
theorem hsetTrieN_sim (h : Hasher K) (F : Nat) :
    SetSim (V := V) h (fun _ _ _ _ => throw "model: array node below the root")
      (fun _ _ _ _ => fail "model: array node below the root") F :=
  setSim h expandSim_fail F

/-- the expansion loop, from any state of the loop -/
theorem expandLoop_sim (h : Hasher K) (H0 : Heap K V) : ∀ (es : List (K × V)) (Hc : Heap K V) (pa : Addr) (ra : Bool)
    (na : Node K V) (fpa : List Addr) (n' : Node K V) (r' : Bool),
    Heap.le H0 Hc → absF trieFuel 0 Hc pa = some (na, fpa) → fpa.Nodup → (∀ a ∈ fpa, H0.size ≤ a) →
    es.foldlM (fun (acc : Node K V × Bool) entry =>
        acc.1.setTrie h entry.1 entry.2 0 (h.hash entry.1) false acc.2) (na, ra) = .ok (n', r') →
    ∃ p' H', es.foldlM (fun (acc : Addr × Bool) entry =>
        hsetTrieN h trieFuel acc.1 entry.1 entry.2 0 (h.hash entry.1) false acc.2) (pa, ra) Hc = .ok ((p', r'), H') ∧
      Heap.le H0 H' ∧ ∃ fp', absF trieFuel 0 H' p' = some (n', fp') ∧ fp'.Nodup ∧ ∀ a ∈ fp', H0.size ≤ a := by
  intro es
  induction es with
  | nil =>
    intro Hc pa ra na fpa n' r' hle habs hnd hfresh hv
    simp only [List.foldlM_nil, pure, Except.pure] at hv
    injection hv with hv; injection hv with h1 h2; subst h1; subst h2
    exact ⟨pa, Hc, rfl, hle, fpa, habs, hnd, hfresh⟩
  | cons e es ih =>
    intro Hc pa ra na fpa n' r' hle habs hnd hfresh hv
    rw [List.foldlM_cons] at hv
    cases hstep : na.setTrie h e.1 e.2 0 (h.hash e.1) false ra with
    | error er => rw [hstep] at hv; cases hv
    | ok res =>
      obtain ⟨n1, r1⟩ := res
      rw [hstep] at hv
      simp only [bind, Except.bind] at hv
      obtain ⟨p1, H1, h1, fp1, habs1, hnd1, heff1, hsub1⟩ :=
        hsetTrieN_sim h trieFuel pa 0 Hc na fpa e.1 e.2 (h.hash e.1) false ra n1 r1 habs hnd
          (by simp [trieFuel]) (by intro hm; cases hm) hstep
      have hle1 : Heap.le Hc H1 := heff1.to_le
      obtain ⟨p', H', h2, hle', hres⟩ := ih H1 p1 r1 n1 fp1 n' r' (Heap.le_trans hle hle1) habs1 hnd1
        (by
          intro a ha
          rcases hsub1 a ha with h' | h'
          · exact hfresh a h'
          · have := hle.1; omega) hv
      refine ⟨p', H', ?_, hle', hres⟩
      have h1' : hsetTrieN h trieFuel pa e.1 e.2 0 (h.hash e.1) false ra Hc = .ok ((p1, r1), H1) := h1
      rw [List.foldlM_cons]
      dsimp only
      rw [bind_ok h1']
      exact h2

theorem expandSim_array (h : Hasher K) : ExpandSim (V := V) (expandArray h) (hexpandArray h) := by
  intro es k v r H n' r' F hv hF
  unfold expandArray at hv
  unfold hexpandArray
  rw [bind_ok (alloc_apply _ _)]
  obtain ⟨p', H', h1, hle, fp', habs, hnd, hfresh⟩ :=
    expandLoop_sim h H es (H.push (.value (h.hash k) k v)) H.size r (Node.value (h.hash k) k v) [H.size] n' r'
      (Heap.le_push _ _) (mkValue_abs H _ k v _ 0) (by simp) (by simp) hv
  refine ⟨p', H', h1, fp', absF_mono habs hF, hnd, Eff.of_le hle _, ?_⟩
  intro a ha; right; exact hfresh a ha

/-- **Simulation of `mapNode.set`** -/
theorem hsetN_sim (h : Hasher K) (F : Nat) : SetSim (V := V) h (expandArray h) (hexpandArray h) F :=
  setSim h (expandSim_array h) F

-- (*hamt).set -------------------------------------------------------------------------------------------

/-- the analogue of `SimRes` for `*hamt` headers -/
def HSimRes (mu : Bool) (H : Heap K V) (fp : List Addr) (H' : Heap K V) (m' : Addr) (a' : Hamt K V) : Prop :=
  ∃ fp', absHamt H' m' = some (a', fp') ∧ fp'.Nodup ∧ Eff H H' (if mu then fp else []) ∧
    ∀ x ∈ fp', x ∈ fp ∨ H.size ≤ x

theorem absHamt_nil {H : Heap K V} {m : Addr} {sz : Nat} (hc : H[m]? = some (.hamt sz none)) :
    absHamt H m = some (⟨sz, none⟩, [m]) := by
  simp [absHamt, hc]

theorem absHamt_root {H : Heap K V} {m : Addr} {sz : Nat} {r : Addr} (hc : H[m]? = some (.hamt sz (some r))) :
    absHamt H m = (absF trieFuel 0 H r).map fun x => (⟨sz, some x.1⟩, m :: x.2) := by
  simp [absHamt, hc]

theorem absHamt_cell {H : Heap K V} {m : Addr} {a : Hamt K V} {fp : List Addr} (h : absHamt H m = some (a, fp)) :
    (∃ sz, H[m]? = some (.hamt sz none) ∧ a = ⟨sz, none⟩ ∧ fp = [m]) ∨
    (∃ sz r n fpr, H[m]? = some (.hamt sz (some r)) ∧ absF trieFuel 0 H r = some (n, fpr) ∧
      a = ⟨sz, some n⟩ ∧ fp = m :: fpr) := by
  unfold absHamt at h
  split at h
  · rename_i sz hc; cases h; exact Or.inl ⟨sz, hc, rfl, rfl⟩
  · rename_i sz r hc
    simp only [Option.map_eq_some_iff] at h
    obtain ⟨⟨n, fpr⟩, habs, he⟩ := h; cases he
    exact Or.inr ⟨sz, r, n, fpr, hc, habs, rfl, rfl⟩
  · cases h

theorem absHamt_lt {H : Heap K V} {m : Addr} {a : Hamt K V} {fp : List Addr} (h : absHamt H m = some (a, fp))
    {x : Addr} (hx : x ∈ fp) : x < H.size := by
  rcases absHamt_cell h with ⟨sz, hc, _, rfl⟩ | ⟨sz, r, n, fpr, hc, habs, _, rfl⟩
  · simp at hx; subst hx; exact lt_size_of_get hc
  · simp only [List.mem_cons] at hx
    rcases hx with rfl | hx
    · exact lt_size_of_get hc
    · exact absF_lt habs hx

/-- frame rule for `*hamt` -/
theorem absHamt_agree {H H' : Heap K V} {m : Addr} {a : Hamt K V} {fp : List Addr}
    (h : absHamt H m = some (a, fp)) (hag : ∀ x ∈ fp, H'[x]? = H[x]?) : absHamt H' m = some (a, fp) := by
  rcases absHamt_cell h with ⟨sz, hc, rfl, rfl⟩ | ⟨sz, r, n, fpr, hc, habs, rfl, rfl⟩
  · exact absHamt_nil (by rw [hag m (by simp), hc])
  · rw [absHamt_root (by rw [hag m (by simp), hc]), absF_agree habs (fun x hx => hag x (by simp [hx]))]; rfl

theorem absHamt_le {H H' : Heap K V} {m : Addr} {a : Hamt K V} {fp : List Addr}
    (h : absHamt H m = some (a, fp)) (hle : Heap.le H H') : absHamt H' m = some (a, fp) :=
  absHamt_agree h (fun x hx => hle.2 x (absHamt_lt h hx))

theorem Eff.absHamt {H H' : Heap K V} {W : List Addr} (he : Eff H H' W) {m : Addr} {a : Hamt K V} {fp : List Addr}
    (h : HamtHeap.absHamt H m = some (a, fp)) (hd : ∀ x ∈ fp, x ∉ W) : HamtHeap.absHamt H' m = some (a, fp) :=
  absHamt_agree h (fun x hx => he.2 x (absHamt_lt h hx) (hd x hx))

/-- **Simulation of `(*hamt).set`**: the header is cloned on the copying path and written in place
    on the mutable path. -/
theorem hamtSet_sim (h : Hasher K) {H : Heap K V} {m : Addr} {a : Hamt K V} {fp : List Addr}
    (habs : absHamt H m = some (a, fp)) (hnd : fp.Nodup) (k : K) (v : V) (mu : Bool)
    (hwf : mu = true → ∀ n, a.root = some n → WF h 0 n) {a' : Hamt K V}
    (hv : a.set h k v mu = .ok a') :
    ∃ m' H', hamtSet h m k v mu H = .ok (m', H') ∧ HSimRes mu H fp H' m' a' := by
  unfold hamtSet
  rcases absHamt_cell habs with ⟨sz, hc, rfl, rfl⟩ | ⟨sz, r, n, fpr, hc, habsr, rfl, rfl⟩
  · -- empty map: a new array node
    have hm := lt_size_of_get hc
    rw [bind_ok (load_apply hc)]
    dsimp only
    unfold Hamt.set at hv
    simp only [pure, Except.pure] at hv
    injection hv with hv; subst hv
    have hlit : ([Slot.ent k v] : List (Slot K V)) = entSlots [(k, v)] := rfl
    rw [hlit, bind_ok (allocSlots_apply _ _ _), bind_ok (alloc_apply _ _), bind_ok (pure_apply _ _)]
    dsimp only
    have habsA := mkArray_abs H [(k, v)] (List.replicate (1 - (entSlots [(k, v)] : List (Slot K V)).length) none)
      (trieFuel - 1)
    let H2 := (H.push (.arr ((entSlots [(k, v)] : List (Slot K V)).map some ++
      List.replicate (1 - (entSlots [(k, v)] : List (Slot K V)).length) none))).push
        (.array ⟨H.size, (entSlots [(k, v)] : List (Slot K V)).length⟩)
    have hle2 : Heap.le H H2 := Heap.le_trans (Heap.le_push _ _) (Heap.le_push _ _)
    have hsz2 : H2.size = H.size + 2 := by simp [H2]
    have habsA' : absF trieFuel 0 H2 (H.size + 1) = some (Node.array [(k, v)], [H.size + 1, H.size]) := habsA
    cases mu with
    | true =>
      simp only [if_true]
      have hm2 : m < H2.size := by omega
      rw [bind_ok (store_apply _ (by simpa [H2] using hm2))]
      refine ⟨_, _, rfl, [m, H.size + 1, H.size], ?_, ?_, ?_, ?_⟩
      · have hc3 : (H2.setIfInBounds m (.hamt 1 (some (H.size + 1))))[m]? = some (.hamt 1 (some (H.size + 1))) :=
          get_set_eq _ hm2
        have : absF trieFuel 0 (H2.setIfInBounds m (.hamt 1 (some (H.size + 1)))) (H.size + 1) =
            some (Node.array [(k, v)], [H.size + 1, H.size]) :=
          (Eff.set H2 m _ (W := [m]) (by simp)).absF habsA' (by intro x hx; simp at hx ⊢; omega)
        have hgoal := absHamt_root hc3
        rw [this] at hgoal
        simpa [H2] using hgoal
      · simp <;> omega
      · simp only [if_true]
        exact Eff.trans (Eff.of_le hle2 _) (by simpa [H2] using Eff.set H2 m (.hamt 1 (some (H.size + 1))) (W := [m]) (by simp))
      · intro x hx; simp at hx
        rcases hx with rfl | rfl | rfl
        · left; simp
        · right; omega
        · right; omega
    | false =>
      simp only [Bool.false_eq_true, if_false]
      rw [alloc_apply]
      refine ⟨_, _, rfl, [H.size + 2, H.size + 1, H.size], ?_, ?_, ?_, ?_⟩
      · have hc3 : (H2.push (.hamt 1 (some (H.size + 1))))[H2.size]? = some (.hamt 1 (some (H.size + 1))) :=
          get_push_size _ _
        have : absF trieFuel 0 (H2.push (.hamt 1 (some (H.size + 1)))) (H.size + 1) =
            some (Node.array [(k, v)], [H.size + 1, H.size]) := absF_le habsA' (Heap.le_push _ _)
        have hgoal := absHamt_root hc3
        rw [this] at hgoal
        simpa [H2] using hgoal
      · simp <;> omega
      · simp only [Bool.false_eq_true, if_false]
        exact Eff.of_le (Heap.le_trans hle2 (Heap.le_push _ _)) _
      · intro x hx; simp at hx
        rcases hx with rfl | rfl | rfl <;> (right; omega)
  · -- non-empty map: delegate to the root
    have hm := lt_size_of_get hc
    rw [bind_ok (load_apply hc)]
    dsimp only
    unfold Hamt.set at hv
    dsimp only at hv
    cases hset : n.set h k v 0 (h.hash k) mu false with
    | error e => rw [hset] at hv; cases hv
    | ok res =>
      obtain ⟨n1, r1⟩ := res
      rw [hset] at hv
      simp only [bind, Except.bind, pure, Except.pure] at hv
      injection hv with hv; subst hv
      obtain ⟨hmr, hndr⟩ := List.nodup_cons.mp hnd
      obtain ⟨p1, H1, h1, fp1, habs1, hnd1, heff1, hsub1⟩ :=
        hsetN_sim h trieFuel r 0 H n fpr k v (h.hash k) mu false n1 r1 habsr hndr (by simp [trieFuel])
          (fun hmu => hwf hmu n rfl) hset
      rw [bind_ok (show hsetN h trieFuel r k v 0 (h.hash k) mu false H = .ok ((p1, r1), H1) from h1)]
      dsimp only
      rw [bind_ok (pure_apply _ _)]
      dsimp only
      have hm1 : m < H1.size := Nat.lt_of_lt_of_le hm heff1.1
      have hmfp1 : m ∉ fp1 := by
        intro h'
        rcases hsub1 m h' with h'' | h''
        · exact hmr h''
        · omega
      cases mu with
      | true =>
        simp only [if_true] at heff1 ⊢
        rw [bind_ok (store_apply _ hm1)]
        refine ⟨_, _, rfl, m :: fp1, ?_, ?_, ?_, ?_⟩
        · have hc3 := get_set_eq (H := H1) (.hamt (if r1 = true then sz + 1 else sz) (some p1)) hm1
          have : absF trieFuel 0 (H1.setIfInBounds m (.hamt (if r1 = true then sz + 1 else sz) (some p1))) p1 =
              some (n1, fp1) :=
            (Eff.set H1 m _ (W := [m]) (by simp)).absF habs1 (by
              intro x hx; simp only [List.mem_singleton]; intro h'; exact hmfp1 (h' ▸ hx))
          rw [absHamt_root hc3, this]; rfl
        · exact List.nodup_cons.mpr ⟨hmfp1, hnd1⟩
        · simp only [if_true]
          exact Eff.trans (heff1.mono (fun x hx _ => by simp [hx])) (Eff.set _ _ _ (by simp))
        · intro x hx
          simp only [List.mem_cons] at hx
          rcases hx with rfl | hx
          · left; simp
          · rcases hsub1 x hx with h' | h'
            · left; simp [h']
            · right; exact h'
      | false =>
        simp only [Bool.false_eq_true, if_false] at heff1 ⊢
        rw [alloc_apply]
        refine ⟨_, _, rfl, H1.size :: fp1, ?_, ?_, ?_, ?_⟩
        · have hc3 : (H1.push (.hamt (if r1 = true then sz + 1 else sz) (some p1)))[H1.size]? = _ := get_push_size _ _
          rw [absHamt_root hc3, absF_le habs1 (Heap.le_push _ _)]; rfl
        · exact nodup_fresh1 hnd1 (fun x hx => absF_lt habs1 hx)
        · exact Eff.of_le (Heap.le_trans heff1.to_le (Heap.le_push _ _)) _
        · intro x hx
          simp only [List.mem_cons] at hx
          rcases hx with rfl | hx
          · right; exact heff1.1
          · rcases hsub1 x hx with h' | h'
            · left; simp [h']
            · right; exact h'

end FpVerif.HamtHeap
