import FpVerif.Lemmas.HeapWorld3
/-!
Every step of a history preserves the world invariant and leaves every collection handed out so far
intact.
-/
set_option linter.unusedSimpArgs false
set_option linter.unusedVariables false
namespace FpVerif.HamtHeap
open FpVerif.Hamt
variable {K V : Type} {α β : Type}

-- value level: the composite operations never panic on well-formed tries ----------------------------

theorem concat_ok {h : Hasher K} (hl : LawfulHash h) : ∀ (kvs : List (K × V)) {a : Hamt K V}, Hamt.Inv h a →
    ∃ a', kvs.foldlM (fun (ret : Hamt K V) kv => ret.set h kv.1 kv.2 false) a = .ok a' ∧ Hamt.Inv h a' := by
  intro kvs
  induction kvs with
  | nil => intro a ha; exact ⟨a, rfl, ha⟩
  | cons kv kvs ih =>
    intro a ha
    obtain ⟨a1, h1, hi1, _⟩ := Hamt.set_spec hl ha kv.1 kv.2 false
    obtain ⟨a', h2, hi2⟩ := ih hi1
    exact ⟨a', by rw [List.foldlM_cons, h1]; exact h2, hi2⟩

theorem updatedWith_ok {h : Hasher K} (hl : LawfulHash h) {a : Hamt K V} (ha : Hamt.Inv h a) (k : K)
    (remap : Option V → Option V) : ∃ a', Hamt.updatedWith h a k remap = .ok a' ∧ Hamt.Inv h a' := by
  unfold Hamt.updatedWith
  rw [Hamt.get_spec hl ha]
  simp only [bind, Except.bind]
  cases remap (lookup h k a.toList) with
  | some x =>
    obtain ⟨a', h1, hi1, _⟩ := Hamt.set_spec hl ha k x false
    exact ⟨a', h1, hi1⟩
  | none =>
    dsimp only
    by_cases hs : (lookup h k a.toList).isSome = true
    · simp only [hs, if_true]
      obtain ⟨a', h1, hi1, _⟩ := Hamt.removed_spec hl [k] ha
      exact ⟨a', h1, hi1⟩
    · simp only [hs, Bool.false_eq_true, if_false]
      exact ⟨a, rfl, ha⟩

theorem filterLoop_ok {h : Hasher K} (hl : LawfulHash h) {aj : Hamt K V} (hj : Hamt.Inv h aj) (neg : Bool) (tt : V) :
    ∀ (es : List (K × V)) {a : Hamt K V}, Hamt.Inv h a →
    ∃ a', es.foldlM (fun (ret : Hamt K V) e => do
        let c ← aj.get h e.1
        if c.isSome != neg then ret.set h e.1 tt false else pure ret) a = .ok a' ∧ Hamt.Inv h a' := by
  intro es
  induction es with
  | nil => intro a ha; exact ⟨a, rfl, ha⟩
  | cons e es ih =>
    intro a ha
    rw [List.foldlM_cons, Hamt.get_spec hl hj]
    simp only [bind, Except.bind]
    by_cases hc : ((lookup h e.1 aj.toList).isSome != neg) = true
    · simp only [hc, if_true]
      obtain ⟨a1, h1, hi1, _⟩ := Hamt.set_spec hl ha e.1 tt false
      rw [h1]
      exact ih hi1
    · simp only [hc, Bool.false_eq_true, if_false, pure, Except.pure]
      exact ih ha

theorem filterInto_ok {h : Hasher K} (hl : LawfulHash h) {ai aj : Hamt K V} (hi : Hamt.Inv h ai)
    (hj : Hamt.Inv h aj) (neg : Bool) (tt : V) :
    ∃ a', Hamt.filterInto h ai aj neg tt = .ok a' ∧ Hamt.Inv h a' := by
  unfold Hamt.filterInto
  rw [Hamt.iterList_spec hi]
  simp only [bind, Except.bind]
  exact filterLoop_ok hl hj neg tt ai.toList Hamt.Inv_empty

-- the steps --------------------------------------------------------------------------------------------

theorem ver_mem {W : World K V} {i : Nat} {m : Addr} (h : W.ver i = .ok m) : m ∈ W.vers := by
  unfold World.ver at h
  split at h
  · rename_i m' hm; injection h with h; subst h; exact List.mem_of_getElem? hm
  · cases h

theorem bind_ver {W : World K V} {i : Nat} {f : Addr → Except String (World K V)} {W' : World K V}
    (h : (W.ver i >>= f) = .ok W') : ∃ m, W.ver i = .ok m ∧ f m = .ok W' := by
  cases hv : W.ver i with
  | error e => rw [hv] at h; cases h
  | ok m => rw [hv] at h; exact ⟨m, rfl, h⟩

/-- steps that call the library on collections handed out -/
theorem WInv.step_call {h : Hasher K} {W W' : World K V} (hW : WInv h W) {comp : HM K V Addr} {fps : List Addr}
    {a' : Hamt K V} (hp : PRes W.heap fps comp a') (hinv : Hamt.Inv h a')
    (hfps : ∀ y ∈ fps, ∃ m ∈ W.vers, y ∈ fpOf W.heap m) (hs : W.call comp = .ok W') :
    WInv h W' ∧ Intact W W' := by
  obtain ⟨W'', h1, h2, h3, _⟩ := hW.call hp hinv hfps
  rw [h1] at hs; injection hs with hs; subst hs
  exact ⟨h2, h3⟩

/-- in-place `Add` of a builder that owns its trie: only cells of its own footprint are written -/
theorem builder_add_inplace {h : Hasher K} (hl : LawfulHash h) {H : Heap K V} {m : Addr} (hg : Good h H m)
    (k : K) (v : V) :
    ∃ m1 H1, hamtSet h m k v true H = .ok (m1, H1) ∧ Good h H1 m1 ∧ Eff H H1 (fpOf H m) ∧
      (∀ x ∈ fpOf H1 m1, x ∈ fpOf H m ∨ x ∈ freshOf H H1) := by
  obtain ⟨a, fp, habs, hnd, hinv⟩ := hg
  obtain ⟨a1, m1, H1, _, hinv1, hh1, fp1, habs1, hnd1, heff1, hsub1⟩ := hamtSet_step hl habs hnd hinv k v true
  refine ⟨m1, H1, hh1, ⟨a1, fp1, habs1, hnd1, hinv1⟩, by rw [fpOf_eq habs]; simpa using heff1, ?_⟩
  intro x hx
  rw [fpOf_eq habs1] at hx
  rw [fpOf_eq habs]
  rcases hsub1 x hx with h' | h'
  · exact Or.inl h'
  · exact Or.inr (mem_freshOf h' (absHamt_lt habs1 hx))

theorem mem_freshOf_ge {H H' : Heap K V} {x : Addr} (h : x ∈ freshOf H H') : H.size ≤ x := by
  unfold freshOf at h
  rw [List.mem_range'] at h
  obtain ⟨i, _, rfl⟩ := h
  omega

/-- **every step** preserves the invariant and leaves all collections handed out intact -/
theorem WInv.step {h : Hasher K} (hl : LawfulHash h) {W W' : World K V} (hW : WInv h W) (op : Op K V)
    (hs : W.step h op = .ok W') : WInv h W' ∧ Intact W W' := by
  cases op with
  | empty => exact hW.step_call (pres_new _) Hamt.Inv_empty (by intro y hy; cases hy) hs
  | ofList t =>
    obtain ⟨a', _, hinv, hp⟩ := pres_ofList hl t W.heap
    exact hW.step_call hp hinv (by intro y hy; cases hy) hs
  | updated i k v =>
    obtain ⟨m, hm, hs⟩ := bind_ver hs
    obtain ⟨a, fp, habs, hnd, hinv⟩ := hW.vers m (ver_mem hm)
    obtain ⟨a', h1, hi1, _⟩ := Hamt.set_spec hl hinv k v false
    exact hW.step_call (pres_updated h habs hnd k v h1) hi1
      (fun y hy => ⟨m, ver_mem hm, by rw [fpOf_eq habs]; exact hy⟩) hs
  | removed i ks =>
    obtain ⟨m, hm, hs⟩ := bind_ver hs
    obtain ⟨a, fp, habs, hnd, hinv⟩ := hW.vers m (ver_mem hm)
    obtain ⟨a', h1, hi1, _⟩ := Hamt.removed_spec hl ks hinv
    exact hW.step_call (pres_removed h habs hnd ks h1) hi1
      (fun y hy => ⟨m, ver_mem hm, by rw [fpOf_eq habs]; exact hy⟩) hs
  | updatedWith i k remap =>
    obtain ⟨m, hm, hs⟩ := bind_ver hs
    obtain ⟨a, fp, habs, hnd, hinv⟩ := hW.vers m (ver_mem hm)
    obtain ⟨a', h1, hi1⟩ := updatedWith_ok hl hinv k remap
    exact hW.step_call (pres_updatedWith h habs hnd k remap h1) hi1
      (fun y hy => ⟨m, ver_mem hm, by rw [fpOf_eq habs]; exact hy⟩) hs
  | concat i kvs =>
    obtain ⟨m, hm, hs⟩ := bind_ver hs
    obtain ⟨a, fp, habs, hnd, hinv⟩ := hW.vers m (ver_mem hm)
    obtain ⟨a', h1, hi1⟩ := concat_ok hl kvs hinv
    exact hW.step_call (pres_concat h kvs habs hnd h1) hi1
      (fun y hy => ⟨m, ver_mem hm, by rw [fpOf_eq habs]; exact hy⟩) hs
  | diff i j tt =>
    obtain ⟨mi, hmi, hs⟩ := bind_ver hs
    obtain ⟨mj, hmj, hs⟩ := bind_ver hs
    obtain ⟨ai, fpi, habsi, _, hinvi⟩ := hW.vers mi (ver_mem hmi)
    obtain ⟨aj, fpj, habsj, _, hinvj⟩ := hW.vers mj (ver_mem hmj)
    obtain ⟨a', h1, hi1⟩ := filterInto_ok hl hinvi hinvj true tt
    exact hW.step_call (pres_filterInto h habsi habsj true tt h1) hi1 (by intro y hy; cases hy) hs
  | intersect i j tt =>
    obtain ⟨mi, hmi, hs⟩ := bind_ver hs
    obtain ⟨mj, hmj, hs⟩ := bind_ver hs
    obtain ⟨ai, fpi, habsi, _, hinvi⟩ := hW.vers mi (ver_mem hmi)
    obtain ⟨aj, fpj, habsj, _, hinvj⟩ := hW.vers mj (ver_mem hmj)
    obtain ⟨a', h1, hi1⟩ := filterInto_ok hl hinvi hinvj false tt
    exact hW.step_call (pres_filterInto h habsi habsj false tt h1) hi1 (by intro y hy; cases hy) hs
  | mbNew =>
    -- a new header cell: owned by the builder, reachable from nothing else
    have hnew : (HMapBuilder.new : HM K V HMapBuilder) W.heap = .ok (⟨some W.heap.size⟩, W.heap.push (.hamt 0 none)) := rfl
    simp only [World.step, hnew] at hs
    injection hs with hs; subst hs
    have hle : Heap.le W.heap (W.heap.push (.hamt 0 none)) := Heap.le_push _ _
    have habs : absHamt (W.heap.push (.hamt 0 none)) W.heap.size = some ((Hamt.empty : Hamt K V), [W.heap.size]) :=
      absHamt_nil (get_push_size _ _)
    refine ⟨⟨?_, ?_, ?_⟩, ⟨[], by simp⟩, fun m hm => ((hW.vers m hm).le hle).2⟩
    · intro m hm; exact ((hW.vers m hm).le hle).1
    · intro m hm
      simp only [Option.some.injEq, HMapBuilder.mk.injEq] at hm
      subst hm
      refine ⟨⟨_, _, habs, by simp, Hamt.Inv_empty⟩, ?_, ?_, ?_⟩
      · intro x hx; rw [fpOf_eq habs] at hx; simp at hx; subst hx
        exact mem_freshOf (Nat.le_refl _) (by simp)
      · intro m' hm' x hx hx'
        rw [fpOf_eq habs] at hx; simp at hx; subst hx
        rw [fpOf_congr ((hW.vers m' hm').le hle).2] at hx'
        have := fpOf_lt hx'; omega
      · intro b hb x hx hx'
        rw [fpOf_eq habs] at hx; simp at hx; subst hx
        rw [fpOf_congr (((hW.sb b hb).1).le hle).2] at hx'
        have := fpOf_lt hx'; omega
    · intro b hb
      obtain ⟨hg, hunsh⟩ := hW.sb b hb
      obtain ⟨hg', heq⟩ := hg.le hle
      refine ⟨hg', fun hsh => ?_⟩
      obtain ⟨hown, hsepv⟩ := hunsh hsh
      refine ⟨fun x hx => hown x (by rw [fpOf_congr heq] at hx; exact hx), ?_⟩
      intro m' hm' x hx
      rw [fpOf_congr heq] at hx
      rw [fpOf_congr ((hW.vers m' hm').le hle).2]
      exact hsepv m' hm' x hx
  | mbAdd k v =>
    unfold World.step at hs
    cases hmb : W.mb with
    | none => rw [hmb] at hs; cases hs
    | some b =>
      rw [hmb] at hs
      obtain ⟨bm⟩ := b
      cases bm with
      | none => simp [HMapBuilder.add, fail] at hs
      | some m =>
        obtain ⟨hg, hown, hsepv, hsepb⟩ := hW.mb m hmb
        obtain ⟨m1, H1, hh1, hg1, heff, hsub⟩ := builder_add_inplace hl hg k v
        have hadd : (HMapBuilder.add h ⟨some m⟩ k v : HM K V HMapBuilder) W.heap = .ok (⟨some m1⟩, H1) := by
          unfold HMapBuilder.add; dsimp only; rw [bind_ok hh1]; rfl
        simp only [hadd] at hs
        injection hs with hs; subst hs
        have hv : ∀ m' ∈ W.vers, Good h H1 m' ∧ absHamt H1 m' = absHamt W.heap m' :=
          fun m' hm' => (hW.vers m' hm').transport heff (fun x hx hx' => hsepv m' hm' x hx' hx)
        refine ⟨⟨fun m' hm' => (hv m' hm').1, ?_, ?_⟩, ⟨[], by simp⟩, fun m' hm' => (hv m' hm').2⟩
        · intro m2 hm2
          simp only [Option.some.injEq, HMapBuilder.mk.injEq] at hm2
          subst hm2
          refine ⟨hg1, ?_, ?_, ?_⟩
          · intro x hx
            rcases hsub x hx with h' | h'
            · exact List.mem_append_left _ (hown x h')
            · exact List.mem_append_right _ h'
          · intro m' hm' x hx hx'
            rw [fpOf_congr (hv m' hm').2] at hx'
            rcases hsub x hx with h' | h'
            · exact hsepv m' hm' x h' hx'
            · have := mem_freshOf_ge h'; have := fpOf_lt hx'; omega
          · intro b hb x hx hx'
            have hgb := (hW.sb b hb).1
            have := hgb.transport heff (fun y hy hy' => hsepb b hb y hy' hy)
            rw [fpOf_congr this.2] at hx'
            rcases hsub x hx with h' | h'
            · exact hsepb b hb x h' hx'
            · have := mem_freshOf_ge h'; have := fpOf_lt hx'; omega
        · intro b hb
          obtain ⟨hgb, hunsh⟩ := hW.sb b hb
          have htr := hgb.transport heff (fun y hy hy' => hsepb b hb y hy' hy)
          refine ⟨htr.1, fun hsh => ?_⟩
          obtain ⟨hownb, hsepvb⟩ := hunsh hsh
          refine ⟨fun x hx => hownb x (by rw [fpOf_congr htr.2] at hx; exact hx), ?_⟩
          intro m' hm' x hx
          rw [fpOf_congr htr.2] at hx
          rw [fpOf_congr (hv m' hm').2]
          exact hsepvb m' hm' x hx
  | mbBuild =>
    unfold World.step at hs
    cases hmb : W.mb with
    | none => rw [hmb] at hs; cases hs
    | some b =>
      rw [hmb] at hs
      obtain ⟨bm⟩ := b
      cases bm with
      | none => simp [HMapBuilder.build, fail] at hs
      | some m =>
        obtain ⟨hg, hown, hsepv, hsepb⟩ := hW.mb m hmb
        have hb : (HMapBuilder.build ⟨some m⟩ : HM K V (Addr × HMapBuilder)) W.heap = .ok ((m, ⟨none⟩), W.heap) := rfl
        simp only [hb] at hs
        injection hs with hs; subst hs
        refine ⟨⟨?_, ?_, ?_⟩, ⟨[m], rfl⟩, fun _ _ => rfl⟩
        · intro m' hm'
          simp only [List.mem_append, List.mem_singleton] at hm'
          rcases hm' with hm' | hm'
          · exact hW.vers m' hm'
          · subst hm'; exact hg
        · intro m2 hm2; simp at hm2
        · intro b hb
          obtain ⟨hgb, hunsh⟩ := hW.sb b hb
          refine ⟨hgb, fun hsh => ?_⟩
          obtain ⟨hownb, hsepvb⟩ := hunsh hsh
          refine ⟨hownb, ?_⟩
          intro m' hm' x hx
          simp only [List.mem_append, List.mem_singleton] at hm'
          rcases hm' with hm' | hm'
          · exact hsepvb m' hm' x hx
          · subst hm'; exact fun hx' => hsepb b hb x hx' hx
  | sbNew =>
    have hnew : (HSetBuilder.new : HM K V HSetBuilder) W.heap = .ok (⟨W.heap.size, false⟩, W.heap.push (.hamt 0 none)) := rfl
    simp only [World.step, hnew] at hs
    injection hs with hs; subst hs
    have hle : Heap.le W.heap (W.heap.push (.hamt 0 none)) := Heap.le_push _ _
    have habs : absHamt (W.heap.push (.hamt 0 none)) W.heap.size = some ((Hamt.empty : Hamt K V), [W.heap.size]) :=
      absHamt_nil (get_push_size _ _)
    refine ⟨⟨?_, ?_, ?_⟩, ⟨[], by simp⟩, fun m hm => ((hW.vers m hm).le hle).2⟩
    · intro m hm; exact ((hW.vers m hm).le hle).1
    · intro m hm
      obtain ⟨hg, hown, hsepv, _⟩ := hW.mb m hm
      obtain ⟨hg', heq⟩ := hg.le hle
      refine ⟨hg', fun x hx => hown x (by rw [fpOf_congr heq] at hx; exact hx), ?_, ?_⟩
      · intro m' hm' x hx
        rw [fpOf_congr heq] at hx
        rw [fpOf_congr ((hW.vers m' hm').le hle).2]
        exact hsepv m' hm' x hx
      · intro b hb x hx hx'
        simp only [Option.some.injEq] at hb
        subst hb
        rw [fpOf_congr heq] at hx
        rw [fpOf_eq habs] at hx'; simp at hx'; subst hx'
        have := fpOf_lt hx; omega
    · intro b hb
      simp only [Option.some.injEq] at hb
      subst hb
      refine ⟨⟨_, _, habs, by simp, Hamt.Inv_empty⟩, fun _ => ⟨?_, ?_⟩⟩
      · intro x hx; rw [fpOf_eq habs] at hx; simp at hx; subst hx
        exact mem_freshOf (Nat.le_refl _) (by simp)
      · intro m' hm' x hx hx'
        rw [fpOf_eq habs] at hx; simp at hx; subst hx
        rw [fpOf_congr ((hW.vers m' hm').le hle).2] at hx'
        have := fpOf_lt hx'; omega
  | sbAdd k tt =>
    unfold World.step at hs
    cases hsb : W.sb with
    | none => rw [hsb] at hs; cases hs
    | some b =>
      rw [hsb] at hs
      obtain ⟨hg, hunsh⟩ := hW.sb b hsb
      cases hsh : b.shared with
      | false =>
        -- in place: the builder still owns its trie
        obtain ⟨hown, hsepv⟩ := hunsh hsh
        obtain ⟨m1, H1, hh1, hg1, heff, hsub⟩ := builder_add_inplace hl hg k tt
        have hadd : (HSetBuilder.add h b k tt : HM K V HSetBuilder) W.heap = .ok ({ b with m := m1 }, H1) := by
          unfold HSetBuilder.add; simp only [hsh, Bool.not_false]; rw [bind_ok hh1]; rfl
        simp only [hadd] at hs
        injection hs with hs; subst hs
        have hv : ∀ m' ∈ W.vers, Good h H1 m' ∧ absHamt H1 m' = absHamt W.heap m' :=
          fun m' hm' => (hW.vers m' hm').transport heff (fun x hx hx' => hsepv m' hm' x hx' hx)
        refine ⟨⟨fun m' hm' => (hv m' hm').1, ?_, ?_⟩, ⟨[], by simp⟩, fun m' hm' => (hv m' hm').2⟩
        · intro m hm
          obtain ⟨hgm, hownm, hsepvm, hsepbm⟩ := hW.mb m hm
          have htr := hgm.transport heff (fun y hy hy' => hsepbm b hsb y hy hy')
          refine ⟨htr.1, fun x hx => hownm x (by rw [fpOf_congr htr.2] at hx; exact hx), ?_, ?_⟩
          · intro m' hm' x hx
            rw [fpOf_congr htr.2] at hx
            rw [fpOf_congr (hv m' hm').2]
            exact hsepvm m' hm' x hx
          · intro b' hb' x hx hx'
            simp only [Option.some.injEq] at hb'
            subst hb'
            rw [fpOf_congr htr.2] at hx
            rcases hsub x hx' with h' | h'
            · exact hsepbm b hsb x hx h'
            · have := mem_freshOf_ge h'; have := fpOf_lt hx; omega
        · intro b' hb'
          simp only [Option.some.injEq] at hb'
          subst hb'
          refine ⟨hg1, fun _ => ⟨?_, ?_⟩⟩
          · intro x hx
            rcases hsub x hx with h' | h'
            · exact List.mem_append_left _ (hown x h')
            · exact List.mem_append_right _ h'
          · intro m' hm' x hx hx'
            rw [fpOf_congr (hv m' hm').2] at hx'
            rcases hsub x hx with h' | h'
            · exact hsepv m' hm' x h' hx'
            · have := mem_freshOf_ge h'; have := fpOf_lt hx'; omega
      | true =>
        -- after Build: the copying path
        obtain ⟨a, fp, habs, hnd, hinv⟩ := hg
        obtain ⟨a1, m1, H1, _, hinv1, hh1, fp1, habs1, hnd1, heff1, hsub1⟩ :=
          hamtSet_step hl habs hnd hinv k tt false
        have hadd : (HSetBuilder.add h b k tt : HM K V HSetBuilder) W.heap = .ok ({ b with m := m1 }, H1) := by
          unfold HSetBuilder.add; simp only [hsh, Bool.not_true]; rw [bind_ok hh1]; rfl
        simp only [hadd] at hs
        injection hs with hs; subst hs
        have hle : Heap.le W.heap H1 := heff1.to_le
        refine ⟨⟨fun m' hm' => ((hW.vers m' hm').le hle).1, ?_, ?_⟩, ⟨[], by simp⟩,
          fun m' hm' => ((hW.vers m' hm').le hle).2⟩
        · intro m hm
          obtain ⟨hgm, hownm, hsepvm, hsepbm⟩ := hW.mb m hm
          obtain ⟨hgm', heq⟩ := hgm.le hle
          refine ⟨hgm', fun x hx => hownm x (by rw [fpOf_congr heq] at hx; exact hx), ?_, ?_⟩
          · intro m' hm' x hx
            rw [fpOf_congr heq] at hx
            rw [fpOf_congr ((hW.vers m' hm').le hle).2]
            exact hsepvm m' hm' x hx
          · intro b' hb' x hx hx'
            simp only [Option.some.injEq] at hb'
            subst hb'
            rw [fpOf_congr heq] at hx
            rw [fpOf_eq habs1] at hx'
            rcases hsub1 x hx' with h' | h'
            · exact hsepbm b hsb x hx (by rw [fpOf_eq habs]; exact h')
            · have := fpOf_lt hx; omega
        · intro b' hb'
          simp only [Option.some.injEq] at hb'
          subst hb'
          exact ⟨⟨a1, fp1, habs1, hnd1, hinv1⟩, fun hcontra => by simp [hsh] at hcontra⟩
  | sbBuild =>
    unfold World.step at hs
    cases hsb : W.sb with
    | none => rw [hsb] at hs; cases hs
    | some b =>
      rw [hsb] at hs
      injection hs with hs; subst hs
      obtain ⟨hg, hunsh⟩ := hW.sb b hsb
      refine ⟨⟨?_, ?_, ?_⟩, ⟨[b.m], rfl⟩, fun _ _ => rfl⟩
      · intro m' hm'
        simp only [List.mem_append, List.mem_singleton] at hm'
        rcases hm' with hm' | hm'
        · exact hW.vers m' hm'
        · subst hm'; exact hg
      · intro m hm
        obtain ⟨hgm, hownm, hsepvm, hsepbm⟩ := hW.mb m hm
        refine ⟨hgm, hownm, ?_, ?_⟩
        · intro m' hm' x hx
          simp only [List.mem_append, List.mem_singleton] at hm'
          rcases hm' with hm' | hm'
          · exact hsepvm m' hm' x hx
          · subst hm'; exact hsepbm b hsb x hx
        · intro b' hb' x hx
          simp only [Option.some.injEq] at hb'
          subst hb'
          exact hsepbm b hsb x hx
      · intro b' hb'
        simp only [Option.some.injEq] at hb'
        subst hb'
        exact ⟨hg, fun hcontra => by simp [HSetBuilder.build] at hcontra⟩

end FpVerif.HamtHeap
