import FpVerif.Lemmas.HamtGet
/-! `delete`: every node kind's case, then the induction over a well-formed trie, then `Hamt.delete`. -/
set_option linter.unusedSimpArgs false
set_option linter.unusedVariables false
namespace FpVerif.Hamt
variable {K V : Type} {h : Hasher K}

/-- what `delete` (called with `*resized == false`) must achieve on a node -/
structure DelPost (h : Hasher K) (s : Nat) (n : Node K V) (k : K)
    (res : Option (Node K V) × Bool) : Prop where
  resized : res.2 = (lookup h k n.toList).isSome
  wf : ∀ n', res.1 = some n' → WF h s n'
  look : ∀ k', lookup h k' (optList res.1) = if h.eqv k k' then none else lookup h k' n.toList
  len : (optList res.1).length + (if (lookup h k n.toList).isSome then 1 else 0) = n.toList.length
  keys : ∀ e ∈ optList res.1, e ∈ n.toList

theorem lookup_absent (hl : LawfulHash h) {l : List (K × V)} {k : K} (hn : lookup h k l = none) (k' : K) :
    lookup h k' l = if h.eqv k k' then none else lookup h k' l := by
  cases hkk : h.eqv k k' with
  | false => simp
  | true =>
    simp only [if_true]
    apply lookup_eq_none
    intro e he
    rw [← hl.eqv_congr_right hkk]
    exact lookup_eq_none_iff.mp hn e he

theorem DelPost.of_absent (hl : LawfulHash h) {s : Nat} {n : Node K V} {k : K} (hwf : WF h s n)
    (hn : lookup h k n.toList = none) : DelPost h s n k (some n, false) := by
  refine ⟨by simp [hn], ?_, ?_, by simp [hn], by simp⟩
  · intro n' hn'; simp at hn'; subst hn'; exact hwf
  · intro k'; simpa using lookup_absent hl hn k'

/-- removing the entry at the position found by `indexOf` -/
theorem erase_spec (hl : LawfulHash h) {es : List (K × V)} {k : K} {i : Nat}
    (hd : DistinctKeys h es) (hi : indexOf h es k = some i) :
    (∀ k', lookup h k' (es.take i ++ es.drop (i + 1)) = if h.eqv k k' then none else lookup h k' es) ∧
    (es.take i ++ es.drop (i + 1)).length + 1 = es.length ∧
    DistinctKeys h (es.take i ++ es.drop (i + 1)) ∧ (lookup h k es).isSome = true ∧
    (∀ e ∈ es.take i ++ es.drop (i + 1), e ∈ es) := by
  obtain ⟨e, hei, hek, hsplit, hbefore⟩ := indexOf_some hi
  have hilt : i < es.length := by
    rcases Nat.lt_or_ge i es.length with h1 | h1
    · exact h1
    · rw [List.getElem?_eq_none h1] at hei; cases hei
  have hd' := hd
  unfold DistinctKeys at hd'
  rw [hsplit, List.pairwise_append, List.pairwise_cons] at hd'
  obtain ⟨hdT, ⟨heD, hdD⟩, hTD⟩ := hd'
  refine ⟨?_, ?_, ?_, ?_, ?_⟩
  · intro k'
    conv => rhs; rw [hsplit]
    rw [lookup_append, lookup_append, lookup_cons]
    cases hkk : h.eqv k k' with
    | true =>
      have h1 : lookup h k' (es.take i) = none := by
        apply lookup_eq_none; intro x hx
        rw [← hl.eqv_congr_right hkk]; exact hbefore x hx
      have h2 : lookup h k' (es.drop (i + 1)) = none := by
        apply lookup_eq_none; intro x hx
        have := heD x hx
        rw [hl.eqv_comm, ← hl.eqv_congr_left (hl.trans _ _ _ hek hkk)]; exact this
      simp [h1, h2]
    | false =>
      have : h.eqv e.1 k' = false := by rw [hl.eqv_congr_left hek]; exact hkk
      simp [this]
  · simp; omega
  · unfold DistinctKeys
    rw [List.pairwise_append]
    exact ⟨hdT, hdD, fun a ha b hb => hTD a ha b (by simp [hb])⟩
  · rw [lookup_isSome_iff]; exact ⟨e, List.mem_of_getElem? hei, hek⟩
  · intro x hx
    simp only [List.mem_append] at hx
    rcases hx with hx | hx
    · exact List.mem_of_mem_take hx
    · exact List.mem_of_mem_drop hx

/-- a branch node whose segment `C` of slot `j` became `C'` -/
theorem DelPost.of_branch (hl : LawfulHash h) {s j : Nat} {n : Node K V} {res1 : Option (Node K V)} {k : K}
    {rz : Bool} (hk : frag (h.hash k) s = j) {A B C C' : List (K × V)}
    (hn : n.toList = A ++ C ++ B) (hn' : optList res1 = A ++ C' ++ B)
    (hwf' : ∀ n', res1 = some n' → WF h s n')
    (hA : ∀ e ∈ A, frag (h.hash e.1) s ≠ j) (hB : ∀ e ∈ B, frag (h.hash e.1) s ≠ j)
    (hC : ∀ e ∈ C, frag (h.hash e.1) s = j)
    (hres : rz = (lookup h k C).isSome)
    (hlook : ∀ k', lookup h k' C' = if h.eqv k k' then none else lookup h k' C)
    (hlen : C'.length + (if (lookup h k C).isSome then 1 else 0) = C.length)
    (hkeys : ∀ e ∈ C', e ∈ C) :
    DelPost h s n k (res1, rz) := by
  have hC' : ∀ e ∈ C', frag (h.hash e.1) s = j := fun e he => hC e (hkeys e he)
  have hmid : lookup h k (A ++ C ++ B) = lookup h k C :=
    lookup_mid (noMatch_of_frag_ne hl hk hA) (noMatch_of_frag_ne hl hk hB)
  refine ⟨?_, hwf', ?_, ?_, ?_⟩
  · rw [hn, hmid]; exact hres
  · intro k'
    simp only [hn, hn']
    exact branch_lookup hl hk hA hB hC hC' hlook k'
  · simp only [hn, hn', hmid, List.length_append]; omega
  · intro e he
    simp only [hn'] at he
    simp only [hn]
    simp only [List.mem_append] at he ⊢
    rcases he with (he | he) | he
    · exact Or.inl (Or.inl he)
    · exact Or.inl (Or.inr (hkeys e he))
    · exact Or.inr he

theorem Node.delete_spec (hl : LawfulHash h) {s : Nat} {n : Node K V} (hwf : WF h s n) (k : K) (mu : Bool) :
    ∃ res, n.delete h k s (h.hash k) mu false = .ok res ∧ DelPost h s n k res := by
  induction hwf with
  | @array s es h0 hne hlen hd =>
    rw [Node.delete]
    cases hi : indexOf h es k with
    | none =>
      exact ⟨_, rfl, DelPost.of_absent hl (WF.array h0 hne hlen hd) (by simpa using lookup_eq_none (indexOf_none.mp hi))⟩
    | some i =>
      obtain ⟨hlook, hlen', hdist, hsome, hmem⟩ := erase_spec hl hd hi
      by_cases h1 : es.length = 1
      · refine ⟨(none, true), by simp [h1, pure, Except.pure], ?_, ?_, ?_, ?_, ?_⟩
        · simp [hsome]
        · intro n' hn'; cases hn'
        · have hnil : es.take i ++ es.drop (i + 1) = [] := by
            apply List.eq_nil_of_length_eq_zero; omega
          intro k'; have := hlook k'; rw [hnil] at this; simpa using this
        · simp [hsome, h1]
        · intro e he; simp at he
      · refine ⟨(some (Node.array (es.take i ++ es.drop (i + 1))), true), by simp [h1, pure, Except.pure], ?_, ?_, ?_, ?_, ?_⟩
        · simp [hsome]
        · intro n' hn'; simp at hn'; subst hn'
          refine WF.array h0 ?_ (by omega) hdist
          intro hnil; rw [hnil] at hlen'; simp at hlen'
          have : es.length ≠ 0 := fun h' => hne (List.eq_nil_of_length_eq_zero h')
          omega
        · simpa using hlook
        · simp [hsome]; simpa using hlen'
        · simpa using hmem
  | @value s kh nk nv hkh =>
    rw [Node.delete]
    cases hek : h.eqv nk k with
    | false =>
      exact ⟨_, by simp [pure, Except.pure], DelPost.of_absent hl (WF.value hkh) (by simp [lookup_cons, lookup_nil, hek])⟩
    | true =>
      refine ⟨(none, true), by simp [pure, Except.pure], ?_, ?_, ?_, ?_, ?_⟩
      · simp [lookup_cons, hek]
      · intro n' hn'; cases hn'
      · intro k'
        simp only [optList_none, lookup_nil, toList_value, lookup_cons]
        rw [hl.eqv_congr_left hek]; cases h.eqv k k' <;> simp
      · simp [lookup_cons, hek]
      · intro e he; simp at he
  | @collision s kh es h2 hh hd =>
    rw [Node.delete]
    cases hi : indexOf h es k with
    | none =>
      exact ⟨_, rfl, DelPost.of_absent hl (WF.collision h2 hh hd) (by simpa using lookup_eq_none (indexOf_none.mp hi))⟩
    | some i =>
      obtain ⟨hlook, hlen', hdist, hsome, hmem⟩ := erase_spec hl hd hi
      by_cases h1 : es.length = 2
      · -- two entries: the other one becomes a value node
        obtain ⟨a, b, rfl⟩ : ∃ a b, es = [a, b] := by
          match es, h1 with
          | [a, b], _ => exact ⟨a, b, rfl⟩
        obtain ⟨e, hei, _⟩ := indexOf_some hi
        have hi2 : i = 0 ∨ i = 1 := by
          rcases Nat.lt_or_ge i 2 with h' | h'
          · omega
          · rw [List.getElem?_eq_none (by simpa using h')] at hei; cases hei
        have hother : ∃ e', [a, b][i ^^^ 1]? = some e' ∧ List.take i [a, b] ++ List.drop (i + 1) [a, b] = [e'] := by
          rcases hi2 with rfl | rfl
          · exact ⟨b, rfl, rfl⟩
          · exact ⟨a, rfl, rfl⟩
        obtain ⟨e', he', hrest⟩ := hother
        rw [hrest] at hlook hlen' hdist hmem
        refine ⟨(some (Node.value kh e'.1 e'.2), true), by simp [he', pure, Except.pure], ?_, ?_, ?_, ?_, ?_⟩
        · simp [hsome]
        · intro n' hn'; simp at hn'; subst hn'
          exact WF.value (hh e' (hmem e' (by simp))).symm
        · simpa using hlook
        · simp [hsome]
        · simpa using hmem
      · refine ⟨(some (Node.collision kh (es.take i ++ es.drop (i + 1))), true), by simp [h1, pure, Except.pure], ?_, ?_, ?_, ?_, ?_⟩
        · simp [hsome]
        · intro n' hn'; simp at hn'; subst hn'
          exact WF.collision (by omega) (fun e he => hh e (hmem e he)) hdist
        · simpa using hlook
        · simp [hsome]; simpa using hlen'
        · simpa using hmem
  | @bitmap s bm ns hs hb hlen h1 h17 hkw hks ihw =>
    have hj := frag_lt (h.hash k) s
    have hwfn : WF h s (Node.bitmap bm ns) := WF.bitmap hs hb hlen h1 h17 hkw hks
    rw [Node.delete]
    simp only [and_bit_eq_zero]
    cases ht : bm.testBit (frag (h.hash k) s) with
    | false =>
      refine ⟨_, by simp [pure, Except.pure], DelPost.of_absent hl hwfn ?_⟩
      apply lookup_eq_none
      rw [toList_bitmap_flat hlen]
      intro e he
      obtain ⟨p, hp, hep⟩ := mem_flat.mp he
      apply hl.ne_of_frag_ne
      rw [hks p hp e hep]
      intro heq
      have := (mem_bitsOf.mp (mem_zip_fst hp)).2
      rw [heq, ht] at this; cases this
    | true =>
      obtain ⟨NL, c, NR, hns, hNL, hNR, hget, hrank⟩ := bitmap_split hj ht hlen
      have hget' : ns[popCount (bm &&& (1 <<< frag (h.hash k) s - 1))]? = some c := hget
      have hkids := kidsB_cons_of_testBit hj ht (NR := NR) c hNL
      rw [← hns] at hkids
      have hcmem : (frag (h.hash k) s, c) ∈ kidsB bm ns := by rw [hkids]; simp
      have hcslot := hks _ hcmem
      have hKL : ∀ p ∈ List.zip (lo bm (frag (h.hash k) s)) NL, p ∈ kidsB bm ns := by
        intro p hp; rw [hkids]; simp [hp]
      have hKR : ∀ p ∈ List.zip (hi bm (frag (h.hash k) s)) NR, p ∈ kidsB bm ns := by
        intro p hp; rw [hkids]; simp [hp]
      have htl : (Node.bitmap bm ns).toList = flat (List.zip (lo bm (frag (h.hash k) s)) NL) ++ c.toList ++
          flat (List.zip (hi bm (frag (h.hash k) s)) NR) := by
        rw [toList_bitmap_flat hlen, hkids]; simp
      have hA := flat_slot_ne_lo (fun p hp => hks p (hKL p hp))
      have hB := flat_slot_ne_hi (fun p hp => hks p (hKR p hp))
      have hmid : lookup h k (Node.bitmap bm ns).toList = lookup h k c.toList := by
        rw [htl]; exact lookup_mid (noMatch_of_frag_ne hl rfl hA) (noMatch_of_frag_ne hl rfl hB)
      obtain ⟨⟨nc, rz⟩, hdel, hpost⟩ := ihw _ hcmem
      simp only at hdel
      simp only [Bool.not_true, Bool.false_eq_true, if_false]
      split
      · rename_i hc; rw [hget'] at hc; cases hc
      · rename_i child hc
        rw [hget'] at hc; cases hc
        simp only [mapNodeBits, hdel, bind, Except.bind]
        cases hrz : rz with
        | false =>
          refine ⟨(some (Node.bitmap bm ns), false), by simp [pure, Except.pure], ?_⟩
          have : lookup h k c.toList = none := by
            have := hpost.resized; simp only [hrz] at this
            cases hlk : lookup h k c.toList with
            | none => rfl
            | some x => rw [hlk] at this; cases this
          exact DelPost.of_absent hl hwfn (by rw [hmid]; exact this)
        | true =>
          have hres : true = (lookup h k c.toList).isSome := by rw [← hrz]; exact hpost.resized
          cases nc with
          | none =>
            by_cases hone : ns.length = 1
            · -- the only child disappears: nil
              have hNLnil : NL = [] := by
                apply List.eq_nil_of_length_eq_zero; rw [hns] at hone; simp at hone; omega
              have hNRnil : NR = [] := by
                apply List.eq_nil_of_length_eq_zero; rw [hns] at hone; simp at hone; omega
              refine ⟨(none, true), by simp [hone, pure, Except.pure], ?_⟩
              apply DelPost.of_branch hl rfl htl (C' := []) (by simp [hNLnil, hNRnil]) (by intro n' hn'; cases hn')
                hA hB hcslot hres
              · simpa using hpost.look
              · simpa using hpost.len
              · intro e he; cases he
            · have hlen' : (NL ++ NR).length = popCount (bm ^^^ 1 <<< frag (h.hash k) s) := by
                have := popCount_xor_bit hj ht
                rw [hns] at hlen; simp at hlen ⊢; omega
              have hkids' := kidsB_xor_bit hj ht (NR := NR) hNL
              have htd : List.take (popCount (bm &&& (1 <<< frag (h.hash k) s - 1))) ns ++
                  List.drop (popCount (bm &&& (1 <<< frag (h.hash k) s - 1)) + 1) ns = NL ++ NR := by
                have hr : popCount (bm &&& (1 <<< frag (h.hash k) s - 1)) = NL.length := hrank.symm
                rw [hr, hns]; simp
              refine ⟨(some (Node.bitmap (bm ^^^ 1 <<< frag (h.hash k) s) (NL ++ NR)), true), by simp [hone, htd, pure, Except.pure], ?_⟩
              apply DelPost.of_branch hl rfl htl (C' := []) (by rw [optList_some, toList_bitmap_flat hlen', hkids']; simp) _
                hA hB hcslot hres
              · simpa using hpost.look
              · simpa using hpost.len
              · intro e he; cases he
              · intro n' hn'; simp at hn'; subst hn'
                apply WF.bitmap hs (xor_bit_lt hb hj) hlen'
                · rw [hns] at hone h1; simp at hone h1 ⊢; omega
                · rw [hns] at h17; simp at h17 ⊢; omega
                · rw [hkids']; intro p hp
                  simp only [List.mem_append] at hp
                  rcases hp with hp | hp
                  · exact hkw p (hKL p hp)
                  · exact hkw p (hKR p hp)
                · rw [hkids']; intro p hp
                  simp only [List.mem_append] at hp
                  rcases hp with hp | hp
                  · exact hks p (hKL p hp)
                  · exact hks p (hKR p hp)
          | some c' =>
            have hsetns : ns.set (popCount (bm &&& (1 <<< frag (h.hash k) s - 1))) c' = NL ++ c' :: NR := by
              rw [hns]; exact set_split hrank
            have hlen' : (NL ++ c' :: NR).length = popCount bm := by rw [← hlen, hns]; simp
            have hkids' := kidsB_cons_of_testBit hj ht (NR := NR) c' hNL
            refine ⟨(some (Node.bitmap bm (NL ++ c' :: NR)), true), by simp [hsetns, pure, Except.pure], ?_⟩
            apply DelPost.of_branch hl rfl htl (C' := c'.toList) (by rw [optList_some, toList_bitmap_flat hlen', hkids']; simp) _
              hA hB hcslot hres
            · simpa using hpost.look
            · simpa using hpost.len
            · simpa using hpost.keys
            · intro n' hn'; simp at hn'; subst hn'
              apply WF.bitmap hs hb hlen' (by simp; omega) (by rw [hlen', ← hlen]; exact h17)
              · rw [hkids']; intro p hp
                simp only [List.mem_append, List.mem_cons] at hp
                rcases hp with hp | rfl | hp
                · exact hkw p (hKL p hp)
                · exact hpost.wf c' rfl
                · exact hkw p (hKR p hp)
              · rw [hkids']; intro p hp
                simp only [List.mem_append, List.mem_cons] at hp
                rcases hp with hp | rfl | hp
                · exact hks p (hKL p hp)
                · intro e he; exact hcslot e (hpost.keys e (by simpa using he))
                · exact hks p (hKR p hp)
  | @hashArray s cnt ns hs hlen hcnt h16 hkw hks ihw =>
    have hj := frag_lt (h.hash k) s
    have hwfn : WF h s (Node.hashArray cnt ns) := WF.hashArray hs hlen hcnt h16 hkw hks
    rw [Node.delete]
    obtain ⟨SL, o, SR, hsl, hSL, hsget⟩ := hashArray_split hj hlen
    have hk1 := kidsH_cons hj (SR := SR) o hSL
    rw [← hsl] at hk1
    have hHL : ∀ p ∈ fmH (List.zip (List.range (frag (h.hash k) s)) SL), p ∈ kidsH ns := by
      intro p hp; rw [hk1]; simp [hp]
    have hHR : ∀ p ∈ fmH (List.zip (List.range' (frag (h.hash k) s + 1) (31 - frag (h.hash k) s)) SR), p ∈ kidsH ns := by
      intro p hp; rw [hk1]; simp [hp]
    have hcs := countSome_split SL SR o
    rw [← hsl] at hcs
    have htl : (Node.hashArray cnt ns).toList = flat (fmH (List.zip (List.range (frag (h.hash k) s)) SL)) ++ optList o ++
        flat (fmH (List.zip (List.range' (frag (h.hash k) s + 1) (31 - frag (h.hash k) s)) SR)) := by
      rw [toList_hashArray_flat hlen, hk1]; cases o <;> simp
    have hA := flat_slot_ne_fmH_lo (fun p hp => hks p (hHL p hp))
    have hB := flat_slot_ne_fmH_hi (fun p hp => hks p (hHR p hp))
    have hmid : lookup h k (Node.hashArray cnt ns).toList = lookup h k (optList o) := by
      rw [htl]; exact lookup_mid (noMatch_of_frag_ne hl rfl hA) (noMatch_of_frag_ne hl rfl hB)
    split
    · rename_i hc; rw [hsget] at hc; cases hc
    · rename_i hc; rw [hsget] at hc; cases hc
      exact ⟨_, rfl, DelPost.of_absent hl hwfn (by rw [hmid]; rfl)⟩
    · rename_i node hc
      rw [hsget] at hc; cases hc
      have hcmem : (frag (h.hash k) s, node) ∈ kidsH ns := by rw [hk1]; simp
      have hcslot := hks _ hcmem
      obtain ⟨⟨nn, rz⟩, hdel, hpost⟩ := ihw _ hcmem
      simp only at hdel
      simp only [mapNodeBits, hdel, bind, Except.bind]
      have hsetsplit : ∀ o', ns.set (frag (h.hash k) s) o' = SL ++ o' :: SR := by
        intro o'; rw [hsl]; exact set_split hSL
      cases hrz : rz with
      | false =>
        refine ⟨(some (Node.hashArray cnt ns), false), by simp [pure, Except.pure], ?_⟩
        have : lookup h k node.toList = none := by
          have := hpost.resized; simp only [hrz] at this
          cases hlk : lookup h k node.toList with
          | none => rfl
          | some x => rw [hlk] at this; cases this
        exact DelPost.of_absent hl hwfn (by rw [hmid]; exact this)
      | true =>
        have hres : true = (lookup h k node.toList).isSome := by rw [← hrz]; exact hpost.resized
        cases nn with
        | none =>
          have hk2 := kidsH_cons hj (SR := SR) (none : Option (Node K V)) hSL
          simp only [Option.map_none, Option.toList_none, List.append_nil] at hk2
          have hlen2 : (SL ++ (none : Option (Node K V)) :: SR).length = 32 := by rw [← hlen, hsl]; simp
          have hcs2 := countSome_split SL SR (none : Option (Node K V))
          simp at hcs hcs2
          by_cases hsmall : cnt ≤ maxBitmapIndexedSize
          · -- convert back to a bitmap-indexed node
            obtain ⟨bm', ns', hconv, hb', hl', hk'⟩ := hashArrayToBitmap_spec hlen (frag (h.hash k) s)
            rw [hsetsplit, hk2] at hk'
            have hnl : ns'.length = cnt - 1 := by
              rw [← length_kidsB hl', hk', ← hk2, length_kidsH hlen2, hcs2, hcnt, hcs]; omega
            refine ⟨(some (Node.bitmap bm' ns'), true), by simp [hsmall, hconv, pure, Except.pure], ?_⟩
            apply DelPost.of_branch hl rfl htl (C' := []) (by rw [optList_some, toList_bitmap_flat hl', hk']; simp) _
              hA hB hcslot hres
            · simpa using hpost.look
            · exact hpost.len
            · intro e he; cases he
            · intro n' hn'; simp at hn'; subst hn'
              unfold maxBitmapIndexedSize at h16 hsmall
              apply WF.bitmap hs hb' hl' (by omega) (by unfold maxBitmapIndexedSize; omega)
              · rw [hk']; intro p hp
                simp only [List.mem_append] at hp
                rcases hp with hp | hp
                · exact hkw p (hHL p hp)
                · exact hkw p (hHR p hp)
              · rw [hk']; intro p hp
                simp only [List.mem_append] at hp
                rcases hp with hp | hp
                · exact hks p (hHL p hp)
                · exact hks p (hHR p hp)
          · refine ⟨(some (Node.hashArray (cnt - 1) (SL ++ none :: SR)), true), by simp [hsmall, hsetsplit, pure, Except.pure], ?_⟩
            apply DelPost.of_branch hl rfl htl (C' := []) (by rw [optList_some, toList_hashArray_flat hlen2, hk2]; simp) _
              hA hB hcslot hres
            · simpa using hpost.look
            · exact hpost.len
            · intro e he; cases he
            · intro n' hn'; simp at hn'; subst hn'
              apply WF.hashArray hs hlen2 (by rw [hcs2, hcnt, hcs]; omega) (by omega)
              · rw [hk2]; intro p hp
                simp only [List.mem_append] at hp
                rcases hp with hp | hp
                · exact hkw p (hHL p hp)
                · exact hkw p (hHR p hp)
              · rw [hk2]; intro p hp
                simp only [List.mem_append] at hp
                rcases hp with hp | hp
                · exact hks p (hHL p hp)
                · exact hks p (hHR p hp)
        | some c' =>
          have hk2 := kidsH_cons hj (SR := SR) (some c') hSL
          have hlen2 : (SL ++ some c' :: SR).length = 32 := by rw [← hlen, hsl]; simp
          refine ⟨(some (Node.hashArray cnt (SL ++ some c' :: SR)), true), by simp [hsetsplit, pure, Except.pure], ?_⟩
          apply DelPost.of_branch hl rfl htl (C' := c'.toList) (by rw [optList_some, toList_hashArray_flat hlen2, hk2]; simp) _
            hA hB hcslot hres
          · simpa using hpost.look
          · exact hpost.len
          · simpa using hpost.keys
          · intro n' hn'; simp at hn'; subst hn'
            apply WF.hashArray hs hlen2 (by rw [countSome_split, hcnt, hcs]; simp) h16
            · rw [hk2]; intro p hp
              simp only [Option.map_some, Option.toList_some, List.mem_append, List.mem_cons, List.mem_singleton,
                List.not_mem_nil, or_false] at hp
              rcases hp with (hp | rfl) | hp
              · exact hkw p (hHL p hp)
              · exact hpost.wf c' rfl
              · exact hkw p (hHR p hp)
            · rw [hk2]; intro p hp
              simp only [Option.map_some, Option.toList_some, List.mem_append, List.mem_cons, List.mem_singleton,
                List.not_mem_nil, or_false] at hp
              rcases hp with (hp | rfl) | hp
              · exact hks p (hHL p hp)
              · intro e he; exact hcslot e (hpost.keys e (by simpa using he))
              · exact hks p (hHR p hp)

end FpVerif.Hamt
