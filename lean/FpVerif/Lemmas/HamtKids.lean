import FpVerif.Lemmas.HamtWF
/-!
The "(slot, child)" view of the two branch node kinds and its decomposition at one slot.
-/
set_option linter.unusedSimpArgs false
set_option linter.unusedVariables false
namespace FpVerif.Hamt
variable {K V : Type}

@[simp] theorem flat_nil : flat ([] : List (Nat × Node K V)) = [] := rfl
@[simp] theorem flat_cons (p : Nat × Node K V) (ks : List (Nat × Node K V)) :
    flat (p :: ks) = p.2.toList ++ flat ks := by simp [flat]
@[simp] theorem flat_append (a b : List (Nat × Node K V)) : flat (a ++ b) = flat a ++ flat b := by
  simp [flat]

theorem mem_flat {ks : List (Nat × Node K V)} {e : K × V} :
    e ∈ flat ks ↔ ∃ p ∈ ks, e ∈ p.2.toList := by
  simp [flat]

theorem toList_bitmap_flat {bm : Nat} {ns : List (Node K V)} (hlen : ns.length = popCount bm) :
    (Node.bitmap bm ns).toList = flat (kidsB bm ns) := by
  rw [toList_bitmap]
  unfold flat kidsB
  have : ns = (List.zip (bitsOf bm) ns).map Prod.snd := by
    rw [List.map_snd_zip]; unfold popCount at hlen; omega
  conv => lhs; rw [this]
  rw [List.flatMap_map]

theorem flat_filterMap (zs : List (Nat × Option (Node K V))) :
    flat (zs.filterMap (fun p => p.2.map (fun c => (p.1, c)))) = zs.flatMap (fun p => optList p.2) := by
  induction zs with
  | nil => rfl
  | cons z zs ih =>
    obtain ⟨i, o⟩ := z
    cases o with
    | none => simp [List.filterMap_cons, ih]
    | some c => simp [List.filterMap_cons, ih]

theorem toList_hashArray_flat {cnt : Nat} {ns : List (Option (Node K V))} (hlen : ns.length = 32) :
    (Node.hashArray cnt ns).toList = flat (kidsH ns) := by
  rw [toList_hashArray]
  unfold kidsH
  rw [flat_filterMap]
  have : ns = (List.zip (List.range 32) ns).map Prod.snd := by
    rw [List.map_snd_zip]; simp [hlen]
  conv => lhs; rw [this]
  rw [List.flatMap_map]

-- bitmap node --------------------------------------------------------------------------------------

theorem popCount_of_testBit {bm j : Nat} (hj : j < 32) (ht : bm.testBit j = true) :
    popCount bm = (lo bm j).length + 1 + (hi bm j).length := by
  unfold popCount; rw [bitsOf_of_testBit hj ht]; simp; omega

theorem popCount_of_not_testBit {bm j : Nat} (hj : j < 32) (ht : bm.testBit j = false) :
    popCount bm = (lo bm j).length + (hi bm j).length := by
  unfold popCount; rw [bitsOf_of_not_testBit hj ht]; simp

theorem popCount_or_bit {bm j : Nat} (hj : j < 32) (ht : bm.testBit j = false) :
    popCount (bm ||| (1 <<< j)) = popCount bm + 1 := by
  rw [popCount_of_not_testBit hj ht]
  unfold popCount; rw [bitsOf_or_bit hj]; simp; omega

theorem popCount_xor_bit {bm j : Nat} (hj : j < 32) (ht : bm.testBit j = true) :
    popCount (bm ^^^ (1 <<< j)) + 1 = popCount bm := by
  rw [popCount_of_testBit hj ht]
  unfold popCount; rw [bitsOf_xor_bit hj ht]; simp; omega

theorem kidsB_cons_of_testBit {bm j : Nat} (hj : j < 32) (ht : bm.testBit j = true)
    {NL NR : List (Node K V)} (c : Node K V) (hNL : NL.length = (lo bm j).length) :
    kidsB bm (NL ++ c :: NR) = List.zip (lo bm j) NL ++ (j, c) :: List.zip (hi bm j) NR := by
  unfold kidsB
  rw [bitsOf_of_testBit hj ht, List.zip_append hNL.symm, List.zip_cons_cons]

theorem kidsB_of_not_testBit {bm j : Nat} (hj : j < 32) (ht : bm.testBit j = false)
    {NL NR : List (Node K V)} (hNL : NL.length = (lo bm j).length) :
    kidsB bm (NL ++ NR) = List.zip (lo bm j) NL ++ List.zip (hi bm j) NR := by
  unfold kidsB
  rw [bitsOf_of_not_testBit hj ht, List.zip_append hNL.symm]

theorem kidsB_or_bit {bm j : Nat} (hj : j < 32)
    {NL NR : List (Node K V)} (c : Node K V) (hNL : NL.length = (lo bm j).length) :
    kidsB (bm ||| (1 <<< j)) (NL ++ c :: NR) = List.zip (lo bm j) NL ++ (j, c) :: List.zip (hi bm j) NR := by
  unfold kidsB
  rw [bitsOf_or_bit hj, List.zip_append hNL.symm, List.zip_cons_cons]

theorem kidsB_xor_bit {bm j : Nat} (hj : j < 32) (ht : bm.testBit j = true)
    {NL NR : List (Node K V)} (hNL : NL.length = (lo bm j).length) :
    kidsB (bm ^^^ (1 <<< j)) (NL ++ NR) = List.zip (lo bm j) NL ++ List.zip (hi bm j) NR := by
  unfold kidsB
  rw [bitsOf_xor_bit hj ht, List.zip_append hNL.symm]

theorem zip_lo_slot {bm j : Nat} {NL : List (Node K V)} {p : Nat × Node K V}
    (hp : p ∈ List.zip (lo bm j) NL) : p.1 < j := (mem_lo (mem_zip_fst hp)).1

theorem zip_hi_slot {bm j : Nat} {NR : List (Node K V)} {p : Nat × Node K V}
    (hp : p ∈ List.zip (hi bm j) NR) : j < p.1 ∧ p.1 < 32 :=
  let h := mem_hi (mem_zip_fst hp); ⟨h.1, h.2.1⟩

/-- Split the children of a bitmap node at a set bit. -/
theorem bitmap_split {bm j : Nat} (hj : j < 32) (ht : bm.testBit j = true) {ns : List (Node K V)}
    (hlen : ns.length = popCount bm) :
    ∃ NL c NR, ns = NL ++ c :: NR ∧ NL.length = (lo bm j).length ∧ NR.length = (hi bm j).length ∧
      ns[rank bm j]? = some c ∧ NL.length = rank bm j := by
  rw [popCount_of_testBit hj ht] at hlen
  obtain ⟨NL, c, NR, h1, h2, h3, h4⟩ := split_aligned hlen
  exact ⟨NL, c, NR, h1, h2, h3, by rw [rank_eq_lo hj]; exact h4, by rw [rank_eq_lo hj]; exact h2⟩

/-- Split the children of a bitmap node at an unset bit. -/
theorem bitmap_split0 {bm j : Nat} (hj : j < 32) (ht : bm.testBit j = false) {ns : List (Node K V)}
    (hlen : ns.length = popCount bm) :
    ∃ NL NR, ns = NL ++ NR ∧ NL.length = (lo bm j).length ∧ NR.length = (hi bm j).length ∧
      ns.take (rank bm j) = NL ∧ ns.drop (rank bm j) = NR := by
  rw [popCount_of_not_testBit hj ht] at hlen
  obtain ⟨NL, NR, h1, h2, h3, h4, h5⟩ := split_aligned0 hlen
  exact ⟨NL, NR, h1, h2, h3, by rw [rank_eq_lo hj]; exact h4, by rw [rank_eq_lo hj]; exact h5⟩

-- hash-array node ----------------------------------------------------------------------------------

/-- the (slot, child) pairs of a zipped segment -/
def fmH (zs : List (Nat × Option (Node K V))) : List (Nat × Node K V) :=
  zs.filterMap (fun p => p.2.map (fun c => (p.1, c)))

theorem mem_fmH {zs : List (Nat × Option (Node K V))} {p : Nat × Node K V} :
    p ∈ fmH zs ↔ (p.1, some p.2) ∈ zs := by
  unfold fmH
  simp only [List.mem_filterMap, Option.map_eq_some_iff]
  constructor
  · rintro ⟨⟨i, o⟩, hz, c, hc, rfl⟩
    simp only at hc; subst hc; exact hz
  · intro h
    exact ⟨(p.1, some p.2), h, p.2, rfl, rfl⟩

theorem kidsH_cons {j : Nat} (hj : j < 32) {SL SR : List (Option (Node K V))} (o : Option (Node K V))
    (hSL : SL.length = j) :
    kidsH (SL ++ o :: SR) = fmH (List.zip (List.range j) SL) ++ (o.map (fun c => (j, c))).toList ++
      fmH (List.zip (List.range' (j + 1) (31 - j)) SR) := by
  unfold kidsH fmH
  rw [range32_split hj, List.zip_append (by simp [hSL]), List.zip_cons_cons, List.filterMap_append,
    List.filterMap_cons]
  cases o <;> simp

theorem fmH_lo_slot {j : Nat} {SL : List (Option (Node K V))} {p : Nat × Node K V}
    (hp : p ∈ fmH (List.zip (List.range j) SL)) : p.1 < j := by
  rw [mem_fmH] at hp
  have := mem_zip_fst hp
  simpa using this

theorem fmH_hi_slot {j : Nat} {SR : List (Option (Node K V))} {p : Nat × Node K V}
    (hp : p ∈ fmH (List.zip (List.range' (j + 1) (31 - j)) SR)) : j < p.1 ∧ p.1 < 32 := by
  rw [mem_fmH] at hp
  have := mem_zip_fst hp
  simp [List.mem_range'_1] at this
  omega

theorem hashArray_split {j : Nat} (hj : j < 32) {ns : List (Option (Node K V))} (hlen : ns.length = 32) :
    ∃ SL o SR, ns = SL ++ o :: SR ∧ SL.length = j ∧ ns[j]? = some o := by
  have hlen' : ns.length = j + 1 + (31 - j) := by omega
  obtain ⟨SL, o, SR, h1, h2, _, h4⟩ := split_aligned hlen'
  exact ⟨SL, o, SR, h1, h2, h4⟩

theorem set_split {α : Type} {SL SR : List α} {o o' : α} {j : Nat} (hSL : SL.length = j) :
    (SL ++ o :: SR).set j o' = SL ++ o' :: SR := by
  subst hSL; simp

theorem countSome_split (SL SR : List (Option (Node K V))) (o : Option (Node K V)) :
    countSome (SL ++ o :: SR) = countSome SL + (if o.isSome then 1 else 0) + countSome SR := by
  unfold countSome
  rw [List.filter_append, List.filter_cons]
  cases o <;> simp <;> omega

end FpVerif.Hamt
