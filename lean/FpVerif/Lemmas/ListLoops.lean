import FpVerif.Lemmas.ListMemo
/-!
# Lazy list: the `fp.List` interface as a simulation and the cursor loops of package `list`
-/
namespace FpVerif.LL
open FpVerif.It IM

/-! ## the list interface as a simulation, and the cursor loops of package `list` -/

/-- `R hp l xs`: in heap `hp` the list value `l` denotes `xs`; closed under the three operations
    of `fp.List` (which may fill memo cells), for every fuel `≥ k`. -/
structure LSim (k : Nat) (R : Heap → LV → List Val → Prop) : Prop where
  isEmpty : ∀ fuel hp l xs lg, k ≤ fuel → R hp l xs →
    ∃ hp' lg', LL.isEmpty fuel l hp lg = (.ok xs.isEmpty, hp', lg') ∧ R hp' l xs
  head : ∀ fuel hp l x xs lg, k ≤ fuel → R hp l (x :: xs) →
    ∃ hp' lg', LL.head fuel l hp lg = (.ok x, hp', lg') ∧ R hp' l (x :: xs)
  tail : ∀ fuel hp l x xs lg, k ≤ fuel → R hp l (x :: xs) →
    ∃ t hp' lg', LL.tail fuel l hp lg = (.ok t, hp', lg') ∧ R hp' t xs

/-- lists that live outside the heap: `Nil`, `Cons`, `Seq` -/
def plainDen : LV → Option (List Val)
  | .nil => some []
  | .cons h t => (plainDen t).map (h :: ·)
  | .seq xs => some xs
  | .adaptor _ _ => none
  | .nilIface => none

theorem plain_lsim : LSim 1 (fun _ l xs => plainDen l = some xs) where
  isEmpty := by
    intro fuel hp l xs lg hk h
    obtain ⟨f, rfl⟩ := Nat.exists_eq_succ_of_ne_zero (by omega : fuel ≠ 0)
    cases l with
    | nil => simp [plainDen] at h; subst h; exact ⟨hp, lg, by rw [LL.isEmpty.eq_def]; rfl, rfl⟩
    | cons a t =>
      simp only [plainDen, Option.map_eq_some_iff] at h
      obtain ⟨ys, hy, rfl⟩ := h
      exact ⟨hp, lg, by rw [LL.isEmpty.eq_def]; rfl, by simp [plainDen, hy]⟩
    | seq ys => simp [plainDen] at h; subst h; exact ⟨hp, lg, by rw [LL.isEmpty.eq_def]; rfl, rfl⟩
    | adaptor a b => simp [plainDen] at h
    | nilIface => simp [plainDen] at h
  head := by
    intro fuel hp l x xs lg hk h
    obtain ⟨f, rfl⟩ := Nat.exists_eq_succ_of_ne_zero (by omega : fuel ≠ 0)
    cases l with
    | nil => simp [plainDen] at h
    | cons a t =>
      simp only [plainDen, Option.map_eq_some_iff, List.cons.injEq] at h
      obtain ⟨ys, hy, rfl, rfl⟩ := h
      exact ⟨hp, lg, by rw [LL.head.eq_def]; rfl, by simp [plainDen, hy]⟩
    | seq ys => simp [plainDen] at h; subst h; exact ⟨hp, lg, by rw [LL.head.eq_def]; rfl, rfl⟩
    | adaptor a b => simp [plainDen] at h
    | nilIface => simp [plainDen] at h
  tail := by
    intro fuel hp l x xs lg hk h
    obtain ⟨f, rfl⟩ := Nat.exists_eq_succ_of_ne_zero (by omega : fuel ≠ 0)
    cases l with
    | nil => simp [plainDen] at h
    | cons a t =>
      simp only [plainDen, Option.map_eq_some_iff, List.cons.injEq] at h
      obtain ⟨ys, hy, rfl, rfl⟩ := h
      exact ⟨t, hp, lg, by rw [LL.tail.eq_def]; rfl, hy⟩
    | seq ys => simp [plainDen] at h; subst h; exact ⟨.seq xs, hp, lg, by rw [LL.tail.eq_def]; rfl, rfl⟩
    | adaptor a b => simp [plainDen] at h
    | nilIface => simp [plainDen] at h

variable {k : Nat} {R : Heap → LV → List Val → Prop}

theorem toSeq_lspec (hS : LSim k R) :
    ∀ (xs : List Val) (fuel : Nat) (hp : Heap) (l : LV) (acc : List Val) (lg : Log),
      k + xs.length < fuel → R hp l xs →
      ∃ hp' lg', LL.toSeq fuel l acc hp lg = (.ok (acc ++ xs), hp', lg') := by
  intro xs
  induction xs with
  | nil =>
    intro fuel hp l acc lg hf hR
    obtain ⟨f, rfl⟩ := Nat.exists_eq_succ_of_ne_zero (by omega : fuel ≠ 0)
    obtain ⟨hp1, lg1, h1, _⟩ := hS.isEmpty f hp l [] lg (by simp at hf; omega) hR
    exact ⟨hp1, lg1, by simp [LL.toSeq, bind_ok h1]⟩
  | cons x xs ih =>
    intro fuel hp l acc lg hf hR
    obtain ⟨f, rfl⟩ := Nat.exists_eq_succ_of_ne_zero (by omega : fuel ≠ 0)
    have hk : k ≤ f := by simp at hf; omega
    obtain ⟨hp1, lg1, h1, hR1⟩ := hS.isEmpty f hp l (x :: xs) lg hk hR
    obtain ⟨hp2, lg2, h2, hR2⟩ := hS.head f hp1 l x xs lg1 hk hR1
    obtain ⟨t, hp3, lg3, h3, hR3⟩ := hS.tail f hp2 l x xs lg2 hk hR2
    obtain ⟨hp', lg', h4⟩ := ih f hp3 t (acc ++ [x]) lg3 (by simp at hf ⊢; omega) hR3
    exact ⟨hp', lg', by simp [LL.toSeq, bind_ok h1, bind_ok h2, bind_ok h3, h4]⟩

theorem fold_lspec {f : Val → Val → GoM Val} {g : Val → Val → Val} (hf : Total2 f g) (hS : LSim k R) :
    ∀ (xs : List Val) (fuel : Nat) (hp : Heap) (l : LV) (z : Val) (lg : Log),
      k + xs.length < fuel → R hp l xs →
      ∃ hp' lg', LL.fold f fuel l z hp lg = (.ok (xs.foldl g z), hp', lg') := by
  intro xs
  induction xs with
  | nil =>
    intro fuel hp l z lg hfu hR
    obtain ⟨n, rfl⟩ := Nat.exists_eq_succ_of_ne_zero (by omega : fuel ≠ 0)
    obtain ⟨hp1, lg1, h1, _⟩ := hS.isEmpty n hp l [] lg (by simp at hfu; omega) hR
    exact ⟨hp1, lg1, by simp [LL.fold, bind_ok h1]⟩
  | cons x xs ih =>
    intro fuel hp l z lg hfu hR
    obtain ⟨n, rfl⟩ := Nat.exists_eq_succ_of_ne_zero (by omega : fuel ≠ 0)
    have hk : k ≤ n := by simp at hfu; omega
    obtain ⟨hp1, lg1, h1, hR1⟩ := hS.isEmpty n hp l (x :: xs) lg hk hR
    obtain ⟨hp2, lg2, h2, hR2⟩ := hS.head n hp1 l x xs lg1 hk hR1
    obtain ⟨lg3, h3⟩ := liftG_total2 hf z x hp2 lg2
    obtain ⟨t, hp4, lg4, h4, hR4⟩ := hS.tail n hp2 l x xs lg3 hk hR2
    obtain ⟨hp', lg', h5⟩ := ih n hp4 t (g z x) lg4 (by simp at hfu ⊢; omega) hR4
    exact ⟨hp', lg', by simp [LL.fold, bind_ok h1, bind_ok h2, bind_ok h3, bind_ok h4, h5]⟩

/-- `FoldTry`: result of the reference fold; at a failure the loop stops with the cursor still on
    the failing element — its tail is not forced. -/
theorem foldTry_lspec {f : Val → Val → GoM (Try Val)} {g : Val → Val → Try Val} (hf : Total2 f g)
    (hS : LSim k R) :
    ∀ (xs : List Val) (fuel : Nat) (hp : Heap) (l : LV) (z : Val) (lg : Log),
      k + xs.length < fuel → R hp l xs →
      ∃ hp' lg', LL.foldTry f fuel l z hp lg = (.ok (foldTryL g z xs).1, hp', lg') ∧
        ((foldTryL g z xs).1.isSuccess = false →
          ∃ l' a, R hp' l' (a :: (foldTryL g z xs).2)) := by
  intro xs
  induction xs with
  | nil =>
    intro fuel hp l z lg hfu hR
    obtain ⟨n, rfl⟩ := Nat.exists_eq_succ_of_ne_zero (by omega : fuel ≠ 0)
    obtain ⟨hp1, lg1, h1, _⟩ := hS.isEmpty n hp l [] lg (by simp at hfu; omega) hR
    exact ⟨hp1, lg1, by simp [LL.foldTry, bind_ok h1, foldTryL], by simp [foldTryL, Try.isSuccess]⟩
  | cons x xs ih =>
    intro fuel hp l z lg hfu hR
    obtain ⟨n, rfl⟩ := Nat.exists_eq_succ_of_ne_zero (by omega : fuel ≠ 0)
    have hk : k ≤ n := by simp at hfu; omega
    obtain ⟨hp1, lg1, h1, hR1⟩ := hS.isEmpty n hp l (x :: xs) lg hk hR
    obtain ⟨hp2, lg2, h2, hR2⟩ := hS.head n hp1 l x xs lg1 hk hR1
    obtain ⟨lg3, h3⟩ := liftG_total2 hf z x hp2 lg2
    cases hg : g z x with
    | success z' =>
      obtain ⟨t, hp4, lg4, h4, hR4⟩ := hS.tail n hp2 l x xs lg3 hk hR2
      obtain ⟨hp', lg', h5, hrest⟩ := ih n hp4 t z' lg4 (by simp at hfu ⊢; omega) hR4
      refine ⟨hp', lg', ?_, by simpa [foldTryL, hg] using hrest⟩
      simp [LL.foldTry, bind_ok h1, bind_ok h2, bind_ok h3, hg, bind_ok h4, h5, foldTryL]
    | failure e =>
      refine ⟨hp2, lg3, ?_, fun _ => ⟨l, x, by simpa [foldTryL, hg] using hR2⟩⟩
      simp [LL.foldTry, bind_ok h1, bind_ok h2, bind_ok h3, hg, foldTryL]

theorem foldOption_lspec {f : Val → Val → GoM (Option Val)} {g : Val → Val → Option Val} (hf : Total2 f g)
    (hS : LSim k R) :
    ∀ (xs : List Val) (fuel : Nat) (hp : Heap) (l : LV) (z : Val) (lg : Log),
      k + xs.length < fuel → R hp l xs →
      ∃ hp' lg', LL.foldOption f fuel l z hp lg = (.ok (foldOptionL g z xs).1, hp', lg') ∧
        ((foldOptionL g z xs).1 = none → ∃ l' a, R hp' l' (a :: (foldOptionL g z xs).2)) := by
  intro xs
  induction xs with
  | nil =>
    intro fuel hp l z lg hfu hR
    obtain ⟨n, rfl⟩ := Nat.exists_eq_succ_of_ne_zero (by omega : fuel ≠ 0)
    obtain ⟨hp1, lg1, h1, _⟩ := hS.isEmpty n hp l [] lg (by simp at hfu; omega) hR
    exact ⟨hp1, lg1, by simp [LL.foldOption, bind_ok h1, foldOptionL], by simp [foldOptionL]⟩
  | cons x xs ih =>
    intro fuel hp l z lg hfu hR
    obtain ⟨n, rfl⟩ := Nat.exists_eq_succ_of_ne_zero (by omega : fuel ≠ 0)
    have hk : k ≤ n := by simp at hfu; omega
    obtain ⟨hp1, lg1, h1, hR1⟩ := hS.isEmpty n hp l (x :: xs) lg hk hR
    obtain ⟨hp2, lg2, h2, hR2⟩ := hS.head n hp1 l x xs lg1 hk hR1
    obtain ⟨lg3, h3⟩ := liftG_total2 hf z x hp2 lg2
    cases hg : g z x with
    | some z' =>
      obtain ⟨t, hp4, lg4, h4, hR4⟩ := hS.tail n hp2 l x xs lg3 hk hR2
      obtain ⟨hp', lg', h5, hrest⟩ := ih n hp4 t z' lg4 (by simp at hfu ⊢; omega) hR4
      refine ⟨hp', lg', ?_, by simpa [foldOptionL, hg] using hrest⟩
      simp [LL.foldOption, bind_ok h1, bind_ok h2, bind_ok h3, hg, bind_ok h4, h5, foldOptionL]
    | none =>
      refine ⟨hp2, lg3, ?_, fun _ => ⟨l, x, by simpa [foldOptionL, hg] using hR2⟩⟩
      simp [LL.foldOption, bind_ok h1, bind_ok h2, bind_ok h3, hg, foldOptionL]

theorem foldError_lspec {f : Val → GoM (Option Err)} {g : Val → Option Err} (hf : Total f g)
    (hS : LSim k R) :
    ∀ (xs : List Val) (fuel : Nat) (hp : Heap) (l : LV) (lg : Log),
      k + xs.length < fuel → R hp l xs →
      ∃ hp' lg', LL.foldError f fuel l hp lg = (.ok (foldErrorL g xs).1, hp', lg') ∧
        ((foldErrorL g xs).1.isSome = true → ∃ l' a, R hp' l' (a :: (foldErrorL g xs).2)) := by
  intro xs
  induction xs with
  | nil =>
    intro fuel hp l lg hfu hR
    obtain ⟨n, rfl⟩ := Nat.exists_eq_succ_of_ne_zero (by omega : fuel ≠ 0)
    obtain ⟨hp1, lg1, h1, _⟩ := hS.isEmpty n hp l [] lg (by simp at hfu; omega) hR
    exact ⟨hp1, lg1, by simp [LL.foldError, bind_ok h1, foldErrorL], by simp [foldErrorL]⟩
  | cons x xs ih =>
    intro fuel hp l lg hfu hR
    obtain ⟨n, rfl⟩ := Nat.exists_eq_succ_of_ne_zero (by omega : fuel ≠ 0)
    have hk : k ≤ n := by simp at hfu; omega
    obtain ⟨hp1, lg1, h1, hR1⟩ := hS.isEmpty n hp l (x :: xs) lg hk hR
    obtain ⟨hp2, lg2, h2, hR2⟩ := hS.head n hp1 l x xs lg1 hk hR1
    obtain ⟨lg3, h3⟩ := liftG_total hf x hp2 lg2
    cases hg : g x with
    | none =>
      obtain ⟨t, hp4, lg4, h4, hR4⟩ := hS.tail n hp2 l x xs lg3 hk hR2
      obtain ⟨hp', lg', h5, hrest⟩ := ih n hp4 t lg4 (by simp at hfu ⊢; omega) hR4
      refine ⟨hp', lg', ?_, by simpa [foldErrorL, hg] using hrest⟩
      simp [LL.foldError, bind_ok h1, bind_ok h2, bind_ok h3, hg, bind_ok h4, h5, foldErrorL]
    | some e =>
      refine ⟨hp2, lg3, ?_, fun _ => ⟨l, x, by simpa [foldErrorL, hg] using hR2⟩⟩
      simp [LL.foldError, bind_ok h1, bind_ok h2, bind_ok h3, hg, foldErrorL]

/-- `FoldRight` with a forcing step = `foldr` (hence `Reduce` = `foldr combine empty`). -/
theorem foldRight_lspec {f : Val → Val → GoM Val} {g : Val → Val → Val} (hf : Total2 f g) (hS : LSim k R)
    (zero : Val) :
    ∀ (xs : List Val) (fuel : Nat) (hp : Heap) (l : LV) (lg : Log),
      k + xs.length < fuel → R hp l xs →
      ∃ hp' lg', LL.foldRight zero (fun a th => do let b ← th; IM.liftG (f a b)) fuel l hp lg =
        (.ok (xs.foldr g zero), hp', lg') := by
  intro xs
  induction xs with
  | nil =>
    intro fuel hp l lg hfu hR
    obtain ⟨n, rfl⟩ := Nat.exists_eq_succ_of_ne_zero (by omega : fuel ≠ 0)
    obtain ⟨hp1, lg1, h1, _⟩ := hS.isEmpty n hp l [] lg (by simp at hfu; omega) hR
    exact ⟨hp1, lg1, by simp [LL.foldRight, bind_ok h1]⟩
  | cons x xs ih =>
    intro fuel hp l lg hfu hR
    obtain ⟨n, rfl⟩ := Nat.exists_eq_succ_of_ne_zero (by omega : fuel ≠ 0)
    have hk : k ≤ n := by simp at hfu; omega
    obtain ⟨hp1, lg1, h1, hR1⟩ := hS.isEmpty n hp l (x :: xs) lg hk hR
    obtain ⟨hp2, lg2, h2, hR2⟩ := hS.head n hp1 l x xs lg1 hk hR1
    obtain ⟨t, hp3, lg3, h3, hR3⟩ := hS.tail n hp2 l x xs lg2 hk hR2
    obtain ⟨hp4, lg4, h4⟩ := ih n hp3 t lg3 (by simp at hfu ⊢; omega) hR3
    obtain ⟨lg5, h5⟩ := liftG_total2 hf x (xs.foldr g zero) hp4 lg4
    refine ⟨hp4, lg5, ?_⟩
    have h34 : (do let t ← LL.tail n l; LL.foldRight zero (fun a th => do let b ← th; IM.liftG (f a b)) n t) hp2 lg2
        = (.ok (xs.foldr g zero), hp4, lg4) := by rw [bind_ok h3, h4]
    simp [LL.foldRight, bind_ok h1, bind_ok h2, bind_ok h34, h5]

/-- the loops keep the heap well-formed, too -/
theorem pres_toSeq : ∀ fuel l acc, Pres (LL.toSeq fuel l acc) := by
  intro fuel
  induction fuel with
  | zero => intro l acc; exact Pres.panic _
  | succ n ih =>
    intro l acc
    have hA := presAll n
    simp only [LL.toSeq]
    refine Pres.bind (hA.isEmpty l) (fun b => ?_)
    cases b
    · exact Pres.bind (hA.head l) (fun v => Pres.bind (hA.tail l) (fun t => ih t _))
    · exact Pres.pure _

theorem pres_fold (f : Val → Val → GoM Val) : ∀ fuel l z, Pres (LL.fold f fuel l z) := by
  intro fuel
  induction fuel with
  | zero => intro l z; exact Pres.panic _
  | succ n ih =>
    intro l z
    have hA := presAll n
    simp only [LL.fold]
    refine Pres.bind (hA.isEmpty l) (fun b => ?_)
    cases b
    · exact Pres.bind (hA.head l) (fun v => Pres.bind (Pres.liftG _) (fun s => Pres.bind (hA.tail l) (fun t => ih t _)))
    · exact Pres.pure _

end FpVerif.LL
