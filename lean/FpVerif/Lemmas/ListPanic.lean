import FpVerif.Model.ListPanic
import FpVerif.Lemmas.CellHeap
/-!
# Helper lemmas for `Model/ListPanic.lean` (same structure as `Lemmas/EvalPanic.lean`)
-/
namespace FpVerif.ListP
open FpVerif FpVerif.It FpVerif.MemoPanic

variable {T X : Type}

/-- every head / tail cell: thunk started at most once, exactly once iff done -/
def Heap.OK (hp : Heap T) : Prop :=
  (∀ hc ∈ hp.heads, CellOK hc.cell) ∧ (∀ tc ∈ hp.tails, CellOK tc.cell)

structure Ext (hp hp' : Heap T) : Prop where
  heads : ExtL (fun (hc : HCell T) => hc.f) (fun hc => hc.cell.done) hp.heads hp'.heads
  tails : ExtL (fun (tc : TCell T) => tc.f) (fun tc => tc.cell.done) hp.tails hp'.tails
  roots : ∀ (j : Nat) (e : LV T), hp.roots[j]? = some e → hp'.roots[j]? = some e
  ok : hp.OK → hp'.OK

theorem Ext.refl (hp : Heap T) : Ext hp hp :=
  ⟨ExtL.refl _ _ _, ExtL.refl _ _ _, fun _ _ h => h, id⟩

theorem Ext.trans {a b c : Heap T} (h1 : Ext a b) (h2 : Ext b c) : Ext a c :=
  ⟨h1.heads.trans h2.heads, h1.tails.trans h2.tails, fun j e h => h2.roots j e (h1.roots j e h),
   fun h => h2.ok (h1.ok h)⟩

abbrev GoodE (m : HM T X) : Prop := Good Ext m

theorem goodE_pure (x : X) : GoodE (pure x : HM T X) := good_pure Ext.refl x
theorem goodE_panic (p : PanicVal) : GoodE (IM.panic p : HM T X) := good_panic Ext.refl p
theorem goodE_liftG (g : GoM X) : GoodE (IM.liftG g : HM T X) := good_liftG Ext.refl g
theorem goodE_bind {Y : Type} {m : HM T X} {k : X → HM T Y} (hm : GoodE m) (hk : ∀ x, GoodE (k x)) :
    GoodE (m >>= k) := good_bind (R := Ext) (fun _ _ _ h1 h2 => Ext.trans h1 h2) hm hk

/-- the heap grew by fresh cells, nothing else changed -/
def Grow (hp hp' : Heap T) : Prop :=
  (∃ hs, hp'.heads = hp.heads ++ hs ∧ ∀ hc ∈ hs, CellOK hc.cell)
  ∧ (∃ ts, hp'.tails = hp.tails ++ ts ∧ ∀ tc ∈ ts, CellOK tc.cell)
  ∧ hp'.roots = hp.roots

theorem Grow.refl (hp : Heap T) : Grow hp hp :=
  ⟨⟨[], by simp, by simp⟩, ⟨[], by simp, by simp⟩, rfl⟩

theorem Grow.trans {a b c : Heap T} (h1 : Grow a b) (h2 : Grow b c) : Grow a c := by
  obtain ⟨⟨cs1, e1, o1⟩, ⟨ts1, f1, p1⟩, r1⟩ := h1
  obtain ⟨⟨cs2, e2, o2⟩, ⟨ts2, f2, p2⟩, r2⟩ := h2
  refine ⟨⟨cs1 ++ cs2, by rw [e2, e1, List.append_assoc], ?_⟩, ⟨ts1 ++ ts2, by rw [f2, f1, List.append_assoc], ?_⟩,
    r2.trans r1⟩
  · intro cc h; rcases List.mem_append.mp h with h | h; exact o1 cc h; exact o2 cc h
  · intro tc h; rcases List.mem_append.mp h with h | h; exact p1 tc h; exact p2 tc h

theorem extL_append_list {α β : Type} (key : α → β) (done : α → Bool) (l xs : List α) :
    ExtL key done l (l ++ xs) := by
  intro c a h
  refine ⟨a, ?_, rfl, fun _ => rfl⟩
  have hlt : c < l.length := (List.getElem?_eq_some_iff.mp h).1
  rw [List.getElem?_append_left hlt]; exact h

theorem Grow.ext {hp hp' : Heap T} (h : Grow hp hp') : Ext hp hp' := by
  obtain ⟨⟨cs, e, o⟩, ⟨ts, f, p⟩, r⟩ := h
  refine ⟨by rw [e]; exact extL_append_list _ _ _ _, by rw [f]; exact extL_append_list _ _ _ _,
    fun j ev hj => by rw [r]; exact hj, ?_⟩
  rintro ⟨h1, h2⟩
  refine ⟨?_, ?_⟩
  · intro cc hcc; rw [e] at hcc; rcases List.mem_append.mp hcc with h | h; exact h1 cc h; exact o cc h
  · intro tc htc; rw [f] at htc; rcases List.mem_append.mp htc with h | h; exact h2 tc h; exact p tc h

theorem goodG_bind {Y : Type} {m : HM T X} {k : X → HM T Y} (hm : Good Grow m) (hk : ∀ x, Good Grow (k x)) :
    Good Grow (m >>= k) := good_bind (R := Grow) (fun _ _ _ h1 h2 => Grow.trans h1 h2) hm hk

theorem goodG_allocHead (f : Nat → GoM (Option T)) : Good Grow (allocHead f) := fun hp _ =>
  ⟨⟨[_], rfl, by simp [cellOK_fresh]⟩, ⟨[], by simp [allocHead], by simp⟩, rfl⟩

theorem goodG_allocTail (f : Nat → LProg T) : Good Grow (allocTail f) := fun hp _ =>
  ⟨⟨[], by simp [allocTail], by simp⟩, ⟨[_], rfl, by simp [cellOK_fresh]⟩, rfl⟩

theorem goodG_build (p : LProg T) : Good Grow (build p) := by
  induction p with
  | empty => exact good_pure Grow.refl _
  | cons h t ih => exact goodG_bind ih (fun _ => good_pure Grow.refl _)
  | make head tail _ =>
    exact goodG_bind (goodG_allocHead head) (fun _ => goodG_bind (goodG_allocTail tail) (fun _ => good_pure Grow.refl _))
  | generateFrom i g =>
    exact goodG_bind (goodG_allocHead _) (fun _ => goodG_bind (goodG_allocTail _) (fun _ => good_pure Grow.refl _))
  | recurrence1 a rel =>
    exact goodG_bind (goodG_allocHead _) (fun _ => goodG_bind (goodG_allocTail _) (fun _ => good_pure Grow.refl _))
  | bindG m k ih => exact goodG_bind (good_liftG Grow.refl m) (fun v => ih v)
  | logged evs p ih => exact goodG_bind (fun hp _ => Grow.refl hp) (fun _ => ih)
  | panic pv => exact good_panic Grow.refl pv
  | ref j =>
    intro hp lg
    simp only [build]
    split <;> exact Grow.refl hp

theorem goodE_build (p : LProg T) : GoodE (build p) := fun hp lg => (goodG_build p hp lg).ext

theorem forall_mem_set' {α : Type} {P : α → Prop} {l : List α} {i : Nat} {new : α}
    (h : ∀ a ∈ l, P a) (hn : P new) : ∀ a ∈ l.set i new, P a := by
  intro a ha
  rcases List.mem_or_eq_of_mem_set ha with hm | he
  · exact h a hm
  · exact he ▸ hn

theorem goodE_forceH (c : Nat) : GoodE (forceH c : HM T (Option T)) := by
  intro hp lg
  simp only [forceH]
  cases hc : hp.heads[c]? with
  | none => exact Ext.refl hp
  | some cc =>
    simp only
    refine ⟨ExtL.set _ _ _ c cc _ hc rfl ?_, ExtL.refl _ _ _, fun _ _ h => h, ?_⟩
    · intro hd
      rw [get_stable cc.f cc.cell lg hd]
    · rintro ⟨h1, h2⟩
      refine ⟨forall_mem_set' h1 ?_, h2⟩
      exact get_cellOK cc.f cc.cell lg (h1 cc (List.mem_of_getElem? hc))

theorem ext_setTail {hp hp' : Heap T} (h : Grow hp hp') (c : Nat) (tc : TCell T) (hc : hp.tails[c]? = some tc)
    (hnd : tc.cell.done = false) (cell' : Cell (LV T)) (hok : hp.OK → CellOK cell') :
    Ext hp { hp' with tails := hp'.tails.set c { tc with cell := cell' } } := by
  have hc' : hp'.tails[c]? = some tc := by
    obtain ⟨_, ⟨ts, f, _⟩, _⟩ := h
    have hlt : c < hp.tails.length := (List.getElem?_eq_some_iff.mp hc).1
    rw [f, List.getElem?_append_left hlt]; exact hc
  have he := h.ext
  refine ⟨he.heads, ?_, he.roots, ?_⟩
  · refine he.tails.trans (ExtL.set _ _ _ c tc _ hc' rfl ?_)
    intro hd; rw [hnd] at hd; cases hd
  · intro hOK
    obtain ⟨h1, h2⟩ := he.ok hOK
    exact ⟨h1, forall_mem_set' h2 (hok hOK)⟩

theorem goodE_forceT (c : Nat) : GoodE (forceT c : HM T (LV T)) := by
  intro hp lg
  simp only [forceT]
  cases hc : hp.tails[c]? with
  | none => exact Ext.refl hp
  | some tc =>
    simp only
    cases hd : tc.cell.done with
    | true => exact Ext.refl hp
    | false =>
      simp only [Bool.false_eq_true, if_false]
      have hg := goodG_build (tc.f tc.cell.runs) hp lg
      rcases hb : build (tc.f tc.cell.runs) hp lg with ⟨r, hp', lg'⟩
      rw [hb] at hg
      simp only at hg
      have hruns : hp.OK → tc.cell.runs = 0 := by
        intro hOK
        have := hOK.2 tc (List.mem_of_getElem? hc)
        simpa [CellOK, hd] using this
      cases r with
      | ok e => exact ext_setTail hg c tc hc hd _ (fun hOK => by simp [CellOK, hruns hOK])
      | error p => exact ext_setTail hg c tc hc hd _ (fun hOK => by simp [CellOK, hruns hOK])

theorem goodE_isEmpty (l : LV T) : GoodE (isEmpty l) := by
  cases l with
  | nilIface => exact goodE_panic _
  | nil => exact goodE_pure _
  | cons h t => exact goodE_pure _
  | adaptor hc tc => exact goodE_bind (goodE_forceH hc) (fun _ => goodE_pure _)

theorem goodE_head (l : LV T) : GoodE (head l) := by
  cases l with
  | nilIface => exact goodE_panic _
  | nil => exact goodE_panic _
  | cons h t => exact goodE_pure _
  | adaptor hc tc =>
    refine goodE_bind (goodE_forceH hc) (fun o => ?_)
    cases o with
    | none => exact goodE_panic _
    | some v => exact goodE_pure _

theorem goodE_tail (l : LV T) : GoodE (tail l) := by
  cases l with
  | nilIface => exact goodE_panic _
  | nil => exact goodE_pure _
  | cons h t => exact goodE_pure _
  | adaptor hc tc => exact goodE_forceT tc

theorem goodE_toSeq (fuel : Nat) (l : LV T) (acc : List T) : GoodE (toSeq fuel l acc) := by
  induction fuel generalizing l acc with
  | zero => exact goodE_panic _
  | succ n ih =>
    refine goodE_bind (goodE_isEmpty l) (fun b => ?_)
    cases b with
    | true => exact goodE_pure _
    | false => exact goodE_bind (goodE_head l) (fun _ => goodE_bind (goodE_tail l) (fun t => ih t _))

theorem goodE_root (j : Nat) : GoodE (root j : HM T (LV T)) := by
  intro hp lg
  simp only [root]
  split <;> exact Ext.refl hp

theorem goodE_pushRoot (e : LV T) : GoodE (pushRoot e) := by
  intro hp lg
  refine ⟨ExtL.refl _ _ _, ExtL.refl _ _ _, ?_, id⟩
  intro j ev hj
  have hlt : j < hp.roots.length := (List.getElem?_eq_some_iff.mp hj).1
  simp only [pushRoot]
  rw [List.getElem?_append_left hlt]; exact hj

theorem goodE_exec (fuel : Nat) (c : Cmd T) : GoodE (exec fuel c) := by
  cases c with
  | define p =>
    refine goodE_bind (good_attempt (goodE_build p)) (fun r => ?_)
    cases r with
    | ok e => exact goodE_bind (goodE_pushRoot e) (fun _ => goodE_pure _)
    | error pv => exact goodE_bind (goodE_pushRoot _) (fun _ => goodE_pure _)
  | isEmpty j =>
    refine goodE_bind (good_attempt (goodE_bind (goodE_root j) (fun l => goodE_isEmpty l))) (fun r => ?_)
    cases r <;> exact goodE_pure _
  | head j =>
    refine goodE_bind (good_attempt (goodE_bind (goodE_root j) (fun l => goodE_head l))) (fun r => ?_)
    cases r <;> exact goodE_pure _
  | tailOf j =>
    refine goodE_bind (good_attempt (goodE_bind (goodE_root j) (fun l => goodE_tail l))) (fun r => ?_)
    cases r with
    | ok t => exact goodE_bind (goodE_pushRoot t) (fun _ => goodE_pure _)
    | error pv => exact goodE_bind (goodE_pushRoot _) (fun _ => goodE_pure _)
  | toSeq j =>
    refine goodE_bind (good_attempt (goodE_bind (goodE_root j) (fun l => goodE_toSeq fuel l []))) (fun r => ?_)
    cases r <;> exact goodE_pure _

theorem goodE_execAll (fuel : Nat) (cs : List (Cmd T)) : GoodE (execAll fuel cs) := by
  induction cs with
  | nil => exact goodE_pure _
  | cons c cs ih => exact goodE_bind (goodE_exec fuel c) (fun _ => goodE_bind ih (fun _ => goodE_pure _))

theorem ok_empty : (({} : Heap T)).OK := ⟨by simp, by simp⟩

-- ---------------------------------------------------------------------------------- one cell

theorem build_make (head : Nat → GoM (Option T)) (tl : Nat → LProg T) (hp : Heap T) (lg : Log) :
    build (.make head tl) hp lg
      = (.ok (.adaptor hp.heads.length hp.tails.length),
         { hp with heads := hp.heads ++ [{ f := head, cell := Cell.fresh none }],
                   tails := hp.tails ++ [{ f := tl, cell := Cell.fresh .nilIface }] }, lg) := rfl

/-- forcing a head cell that has not fired: the first execution of the head thunk -/
theorem forceH_fresh (c : Nat) (f : Nat → GoM (Option T)) (hp : Heap T) (lg : Log)
    (hc : hp.heads[c]? = some { f := f, cell := Cell.fresh none }) :
    forceH c hp lg
      = (((f 0).run.run lg).1,
         { hp with heads := hp.heads.set c { f := f, cell := { done := true, ret := memoOf none ((f 0).run.run lg).1, runs := 1 } } },
         ((f 0).run.run lg).2) := by
  simp only [forceH, hc, get_fresh]

/-- forcing a head cell that has fired: the memo, nothing runs, nothing changes -/
theorem forceH_done (c : Nat) (hcell : HCell T) (hp : Heap T) (lg : Log)
    (hc : hp.heads[c]? = some hcell) (hd : hcell.cell.done = true) :
    forceH c hp lg = (.ok hcell.cell.ret, hp, lg) := by
  simp only [forceH, hc, get_of_done hcell.f hcell.cell lg hd]
  have : hp.heads.set c { f := hcell.f, cell := hcell.cell } = hp.heads := set_same hc
  simp only [this]

theorem forceT_fresh_panic (c : Nat) (tc : TCell T) (hp hp' : Heap T) (lg lg' : Log) (p : PanicVal)
    (hc : hp.tails[c]? = some tc) (hd : tc.cell.done = false)
    (hb : build (tc.f tc.cell.runs) hp lg = (.error p, hp', lg')) :
    forceT c hp lg
      = (.error p,
         { hp' with tails := hp'.tails.set c { tc with cell := { tc.cell with done := true, runs := tc.cell.runs + 1 } } },
         lg') := by
  simp only [forceT, hc, hd, hb, Bool.false_eq_true, if_false]

theorem forceT_fresh_ok (c : Nat) (tc : TCell T) (hp hp' : Heap T) (lg lg' : Log) (e : LV T)
    (hc : hp.tails[c]? = some tc) (hd : tc.cell.done = false)
    (hb : build (tc.f tc.cell.runs) hp lg = (.ok e, hp', lg')) :
    forceT c hp lg
      = (.ok e,
         { hp' with tails := hp'.tails.set c { tc with cell := { done := true, ret := e, runs := tc.cell.runs + 1 } } },
         lg') := by
  simp only [forceT, hc, hd, hb, Bool.false_eq_true, if_false]

theorem forceT_done (c : Nat) (tc : TCell T) (hp : Heap T) (lg : Log)
    (hc : hp.tails[c]? = some tc) (hd : tc.cell.done = true) :
    forceT c hp lg = (.ok tc.cell.ret, hp, lg) := by
  simp only [forceT, hc, hd, if_true]

-- ---------------------------------------------------------------------------------- packaged: first force, later forces

theorem head_first (c : Nat) (f : Nat → GoM (Option T)) (hp : Heap T) (lg : Log)
    (hc : hp.heads[c]? = some { f := f, cell := Cell.fresh none }) :
    ∃ hp2, forceH c hp lg = (((f 0).run.run lg).1, hp2, ((f 0).run.run lg).2)
      ∧ ∃ hcell, hp2.heads[c]? = some hcell ∧ hcell.cell.done = true
          ∧ hcell.cell.ret = memoOf none ((f 0).run.run lg).1 := by
  refine ⟨_, forceH_fresh c f hp lg hc,
    { f := f, cell := { done := true, ret := memoOf none ((f 0).run.run lg).1, runs := 1 } }, ?_, rfl, rfl⟩
  have hlt : c < hp.heads.length := (List.getElem?_eq_some_iff.mp hc).1
  simp [hlt]

theorem head_later (c : Nat) (hcell : HCell T) (hp2 : Heap T) (hc : hp2.heads[c]? = some hcell)
    (hd : hcell.cell.done = true) (between : List (Cmd T)) (fuel' : Nat) (lg2 lg3 : Log) :
    forceH c (execAll fuel' between hp2 lg2).2.1 lg3 = (.ok hcell.cell.ret, (execAll fuel' between hp2 lg2).2.1, lg3) := by
  obtain ⟨hc', h1, _, h3⟩ := (goodE_execAll fuel' between hp2 lg2).heads c hcell hc
  rw [h3 hd] at h1
  exact forceH_done c hcell _ lg3 h1 hd

theorem tails_after_build (p : LProg T) (hp : Heap T) (lg : Log) (c : Nat) (tc : TCell T)
    (hc : hp.tails[c]? = some tc) : (build p hp lg).2.1.tails[c]? = some tc := by
  obtain ⟨_, ⟨ts, hts, _⟩, _⟩ := goodG_build p hp lg
  have hlt : c < hp.tails.length := (List.getElem?_eq_some_iff.mp hc).1
  rw [hts, List.getElem?_append_left hlt]; exact hc

theorem tail_first_panic (c : Nat) (tc : TCell T) (hp hp' : Heap T) (lg lg' : Log) (p : PanicVal)
    (hc : hp.tails[c]? = some tc) (hd : tc.cell.done = false)
    (hb : build (tc.f tc.cell.runs) hp lg = (.error p, hp', lg')) :
    ∃ hp2, forceT c hp lg = (.error p, hp2, lg')
      ∧ ∃ tc', hp2.tails[c]? = some tc' ∧ tc'.cell.done = true ∧ tc'.cell.ret = tc.cell.ret := by
  refine ⟨_, forceT_fresh_panic c tc hp hp' lg lg' p hc hd hb,
    { tc with cell := { tc.cell with done := true, runs := tc.cell.runs + 1 } }, ?_, rfl, rfl⟩
  have h1 := tails_after_build (tc.f tc.cell.runs) hp lg c tc hc
  rw [hb] at h1
  have hlt : c < hp'.tails.length := (List.getElem?_eq_some_iff.mp h1).1
  simp [hlt]

theorem tail_first_ok (c : Nat) (tc : TCell T) (hp hp' : Heap T) (lg lg' : Log) (e : LV T)
    (hc : hp.tails[c]? = some tc) (hd : tc.cell.done = false)
    (hb : build (tc.f tc.cell.runs) hp lg = (.ok e, hp', lg')) :
    ∃ hp2, forceT c hp lg = (.ok e, hp2, lg')
      ∧ ∃ tc', hp2.tails[c]? = some tc' ∧ tc'.cell.done = true ∧ tc'.cell.ret = e := by
  refine ⟨_, forceT_fresh_ok c tc hp hp' lg lg' e hc hd hb,
    { tc with cell := { done := true, ret := e, runs := tc.cell.runs + 1 } }, ?_, rfl, rfl⟩
  have h1 := tails_after_build (tc.f tc.cell.runs) hp lg c tc hc
  rw [hb] at h1
  have hlt : c < hp'.tails.length := (List.getElem?_eq_some_iff.mp h1).1
  simp [hlt]

theorem tail_later (c : Nat) (tc : TCell T) (hp2 : Heap T) (hc : hp2.tails[c]? = some tc)
    (hd : tc.cell.done = true) (between : List (Cmd T)) (fuel' : Nat) (lg2 lg3 : Log) :
    forceT c (execAll fuel' between hp2 lg2).2.1 lg3 = (.ok tc.cell.ret, (execAll fuel' between hp2 lg2).2.1, lg3) := by
  obtain ⟨tc', h1, _, h3⟩ := (goodE_execAll fuel' between hp2 lg2).tails c tc hc
  rw [h3 hd] at h1
  exact forceT_done c tc _ lg3 h1 hd

end FpVerif.ListP
