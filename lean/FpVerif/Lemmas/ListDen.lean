import FpVerif.Lemmas.ListTot
import FpVerif.Lemmas.Pure1
/-!
# Lazy list: from the typing to the interface contract, and the remaining loops keep `Heap.WF`
-/
namespace FpVerif.LL
open FpVerif.It IM

/-- the heap is consistent with the typing `S` and no `sync.Once` is currently executing (we are
    between two library calls) -/
structure WellTyped (S : Sty) (hp : Heap) : Prop where
  cons : Cons S hp
  idle : RunSub hp {}

theorem WellTyped.empty : WellTyped Sty.empty {} := ⟨Cons.empty, RunSub.refl _⟩

theorem WellTyped.quiet {S : Sty} {hp : Heap} (h : WellTyped S hp) (K : Nat) : Quiet K S hp := by
  refine ⟨fun c n hc => ?_, fun c n hc => ?_, fun c n hc => ?_⟩
  · obtain ⟨_, h'⟩ := h.idle.hs c n hc; simp at h'
  · obtain ⟨_, h'⟩ := h.idle.ts c n hc; simp at h'
  · obtain ⟨_, h'⟩ := h.idle.ls c n hc; simp at h'

theorem WellTyped.post {S S' : Sty} {hp hp' : Heap} (h : WellTyped S hp) (hP : Post S hp S' hp') :
    WellTyped S' hp' := ⟨hP.cons, hP.run.trans h.idle⟩

/-- "in heap `hp` the value `l` represents the list `xs`, and every interface operation on it and
    on its tails succeeds with fuel `k`" -/
def HeapRep (k : Nat) (hp : Heap) (l : LV) (xs : List Val) : Prop :=
  ∃ S, WellTyped S hp ∧ VDen S l (.fin xs) k

/-- the representation relation of the typing satisfies the `fp.List` interface contract -/
theorem heapRep_lsim (k : Nat) : LSim k (HeapRep k) where
  isEmpty := by
    rintro fuel hp l xs lg hk ⟨S, hW, hV⟩
    obtain ⟨b, S', hp', lg', e, hP, hb⟩ := (totAll fuel).isEmpty S hp l _ k hW.cons hV hk (hW.quiet k) lg
    subst hb
    exact ⟨hp', lg', e, S', hW.post hP, hV.ext hP.ext⟩
  head := by
    rintro fuel hp l x xs lg hk ⟨S, hW, hV⟩
    obtain ⟨v, S', hp', lg', e, hP, hv⟩ := (totAll fuel).head S hp l _ k x hW.cons hV rfl hk (hW.quiet k) lg
    subst hv
    exact ⟨hp', lg', e, S', hW.post hP, hV.ext hP.ext⟩
  tail := by
    rintro fuel hp l x xs lg hk ⟨S, hW, hV⟩
    obtain ⟨t, S', hp', lg', e, hP, ht⟩ := (totAll fuel).tail S hp l _ k hW.cons hV rfl hk (hW.quiet k) lg
    exact ⟨t, hp', lg', e, S', hW.post hP, ht⟩

/-- evaluating an expression in a well-typed heap: a well-typed heap and a value typed with the
    expression's denotation -/
theorem eval_typed (e : LExpr) (x : Val) (hpure : e.Pure) (S : Sty) (hp : Heap) (hW : WellTyped S hp)
    (fuel : Nat) (hfuel : e.bnd x ≤ fuel) (lg : Log) :
    ∃ l S' hp' lg', LL.eval fuel e x hp lg = (.ok l, hp', lg') ∧ WellTyped S' hp' ∧ Ext S S' ∧
      VDen S' l (.fin (e.denote x)) (e.bnd x) := by
  obtain ⟨l, S', hp', lg', he, hP, hV⟩ := (totAll fuel).eval S hp e x hW.cons hpure hfuel (hW.quiet _) lg
  exact ⟨l, S', hp', lg', he, hW.post hP, hP.ext, hV⟩

/-- from the empty heap: the value represents the denotation, every cell started at most once -/
theorem eval_rep (e : LExpr) (x : Val) (hpure : e.Pure) (fuel : Nat) (hfuel : e.bnd x ≤ fuel) (lg : Log) :
    ∃ l hp lg', LL.eval fuel e x {} lg = (.ok l, hp, lg') ∧ HeapRep (e.bnd x) hp l (e.denote x) ∧ hp.WF := by
  obtain ⟨l, S', hp', lg', he, hW, _, hV⟩ := eval_typed e x hpure _ _ WellTyped.empty fuel hfuel lg
  refine ⟨l, hp', lg', he, ⟨S', hW, hV⟩, ?_⟩
  have := (presAll fuel).eval e x {} lg Heap.WF.empty
  rw [he] at this; exact this

/-! ## the remaining loops keep the heap well-formed -/

theorem pres_foldTry (f : Val → Val → GoM (Try Val)) : ∀ fuel l z, Pres (LL.foldTry f fuel l z) := by
  intro fuel
  induction fuel with
  | zero => intro l z; exact Pres.panic _
  | succ n ih =>
    intro l z
    have hA := presAll n
    simp only [LL.foldTry]
    refine Pres.bind (hA.isEmpty l) (fun b => ?_)
    cases b
    · refine Pres.bind (hA.head l) (fun v => Pres.bind (Pres.liftG _) (fun s => ?_))
      cases s with
      | success s => exact Pres.bind (hA.tail l) (fun t => ih t _)
      | failure e => exact Pres.pure _
    · exact Pres.pure _

theorem pres_foldOption (f : Val → Val → GoM (Option Val)) : ∀ fuel l z, Pres (LL.foldOption f fuel l z) := by
  intro fuel
  induction fuel with
  | zero => intro l z; exact Pres.panic _
  | succ n ih =>
    intro l z
    have hA := presAll n
    simp only [LL.foldOption]
    refine Pres.bind (hA.isEmpty l) (fun b => ?_)
    cases b
    · refine Pres.bind (hA.head l) (fun v => Pres.bind (Pres.liftG _) (fun s => ?_))
      cases s with
      | some s => exact Pres.bind (hA.tail l) (fun t => ih t _)
      | none => exact Pres.pure _
    · exact Pres.pure _

theorem pres_foldError (f : Val → GoM (Option Err)) : ∀ fuel l, Pres (LL.foldError f fuel l) := by
  intro fuel
  induction fuel with
  | zero => intro l; exact Pres.panic _
  | succ n ih =>
    intro l
    have hA := presAll n
    simp only [LL.foldError]
    refine Pres.bind (hA.isEmpty l) (fun b => ?_)
    cases b
    · refine Pres.bind (hA.head l) (fun v => Pres.bind (Pres.liftG _) (fun s => ?_))
      cases s with
      | some e => exact Pres.pure _
      | none => exact Pres.bind (hA.tail l) (fun t => ih t)
    · exact Pres.pure _

theorem pres_foldRight (f : Val → Val → GoM Val) (zero : Val) :
    ∀ fuel l, Pres (LL.foldRight zero (fun a th => do let b ← th; IM.liftG (f a b)) fuel l) := by
  intro fuel
  induction fuel with
  | zero => intro l; exact Pres.panic _
  | succ n ih =>
    intro l
    have hA := presAll n
    simp only [LL.foldRight]
    refine Pres.bind (hA.isEmpty l) (fun b => ?_)
    cases b
    · exact Pres.bind (hA.head l) (fun v => Pres.bind (Pres.bind (hA.tail l) (fun t => ih t)) (fun _ => Pres.liftG _))
    · exact Pres.pure _

end FpVerif.LL
