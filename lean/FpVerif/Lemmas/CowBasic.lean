import FpVerif.Model.Cow
/-!
Basic facts about the CopyOnWriteMap model: projections of the helper functions, the event
bookkeeping, and the inversion of `stepT .recheck`.
-/
namespace FpVerif.Cow
open FpVerif.Sched

/-! ### histories -/

def HEv.tid : HEv → Nat
  | .call t .. => t
  | .lin t .. => t
  | .ret t .. => t

/-- the events of thread `t` -/
def proj (t : Nat) (h : List HEv) : List HEv := h.filter (fun e => e.tid == t)

/-- the linearization order: operations with the results the atomic map gave them -/
def linsOf : List HEv → List (Op × Ret)
  | [] => []
  | .lin _ _ op r :: es => (op, r) :: linsOf es
  | .call .. :: es => linsOf es
  | .ret .. :: es => linsOf es

/-- run operations one after the other on an atomic map -/
def seqRun (m : AMap) : List Op → AMap × List Ret
  | [] => (m, [])
  | o :: os => ((seqRun (o.apply m).1 os).1, (o.apply m).2 :: (seqRun (o.apply m).1 os).2)

theorem seqRun_snoc (m : AMap) (os : List Op) (o : Op) :
    seqRun m (os ++ [o]) =
      ((o.apply (seqRun m os).1).1, (seqRun m os).2 ++ [(o.apply (seqRun m os).1).2]) := by
  induction os generalizing m with
  | nil => simp [seqRun]
  | cons a as ih => simp [seqRun, ih]

theorem linsOf_append (a b : List HEv) : linsOf (a ++ b) = linsOf a ++ linsOf b := by
  induction a with
  | nil => rfl
  | cons e es ih => cases e <;> simp [linsOf, ih]

theorem proj_append (t : Nat) (a b : List HEv) : proj t (a ++ b) = proj t a ++ proj t b := by
  simp [proj]

theorem proj_all {t : Nat} {evs : List HEv} (h : ∀ e ∈ evs, e.tid = t) : proj t evs = evs := by
  simp only [proj, List.filter_eq_self]
  intro e he; simp [h e he]

theorem proj_none {t : Nat} {evs : List HEv} {u : Nat} (h : ∀ e ∈ evs, e.tid = u) (hne : u ≠ t) :
    proj t evs = [] := by
  simp only [proj, List.filter_eq_nil_iff]
  intro e he; simp [h e he, hne]

/-- events of the completed operations of a thread -/
def doneEvents (t : Nat) : Nat → List (Op × Ret) → List HEv
  | _, [] => []
  | i, (op, r) :: rest => .call t i op :: .lin t i op r :: .ret t i r :: doneEvents t (i + 1) rest

theorem doneEvents_snoc (t i : Nat) (ds : List (Op × Ret)) (op : Op) (r : Ret) :
    doneEvents t i (ds ++ [(op, r)]) =
      doneEvents t i ds ++ [.call t (i + ds.length) op, .lin t (i + ds.length) op r, .ret t (i + ds.length) r] := by
  induction ds generalizing i with
  | nil => simp [doneEvents]
  | cons d rest ih =>
    obtain ⟨o', r'⟩ := d
    simp [doneEvents, ih, Nat.add_assoc, Nat.add_comm 1]

/-- events of the operation in progress -/
def curEvents (l : Local) : List HEv :=
  match l.phase with
  | .finished => []
  | .running op pc =>
    .call l.tid l.done.length op ::
      (match pc with
       | .hold m => [.lin l.tid l.done.length op (.kvs m)]
       | _ => [])

/-- what thread `l` contributed to the history -/
def expected (l : Local) : List HEv := doneEvents l.tid 0 l.done ++ curEvents l

/-! ### projections of the helper functions -/

def entryPc : Op → Pc
  | .updated .. | .removed _ | .updatedWith .. => .enter
  | _ => .load

theorem startNext_eq (sh : Shared) (l : Local) :
    startNext sh l =
      match l.todo with
      | [] => (sh, { l with phase := .finished })
      | op :: rest =>
        ({ sh with hist := sh.hist ++ [.call l.tid l.done.length op] },
         { l with phase := .running op (entryPc op), todo := rest }) := by
  unfold startNext
  cases l.todo with
  | nil => rfl
  | cons op rest => cases op <;> rfl

/-- `startNext` only appends the call event of the next operation -/
theorem startNext_spec (sh : Shared) (l : Local) :
    (startNext sh l).1.snap = sh.snap ∧ (startNext sh l).1.lock = sh.lock ∧
    (startNext sh l).1.calls = sh.calls ∧
    (startNext sh l).2.tid = l.tid ∧ (startNext sh l).2.done = l.done ∧
    (startNext sh l).1.hist = sh.hist ++ curEvents (startNext sh l).2 ∧
    (∀ nm out op, (startNext sh l).2.phase ≠ .running op (.store nm out)) ∧
    (∀ op, (startNext sh l).2.phase ≠ .running op .load2) ∧
    (∀ op, (startNext sh l).2.phase ≠ .running op .load2Lock) ∧
    ((startNext sh l).2.phase = .finished → (startNext sh l).2.todo = []) := by
  rw [startNext_eq]
  cases ht : l.todo with
  | nil => simp [curEvents, ht]
  | cons op rest => cases op <;> simp [curEvents, entryPc]

end FpVerif.Cow
