/-!
# S-expressions: the wire format shared by the Go harnesses and the Lean oracles.

`(head arg ...)`, atoms are maximal runs of characters other than whitespace and parentheses.
-/
namespace FpVerif

inductive Sexp where
  | atom (s : String)
  | list (xs : List Sexp)
  deriving Repr, Inhabited

namespace Sexp

partial def toStr : Sexp → String
  | atom s => s
  | list xs => "(" ++ " ".intercalate (xs.map toStr) ++ ")"

instance : ToString Sexp := ⟨toStr⟩

/-- Tokenise: parentheses are their own tokens. -/
def tokens (s : String) : List String := Id.run do
  let mut out : Array String := #[]
  let mut cur : String := ""
  for c in s.toList do
    if c == '(' || c == ')' then
      if cur != "" then out := out.push cur
      cur := ""
      out := out.push (String.singleton c)
    else if c == ' ' || c == '\t' || c == '\n' || c == '\r' then
      if cur != "" then out := out.push cur
      cur := ""
    else
      cur := cur.push c
  if cur != "" then out := out.push cur
  return out.toList

/-- Parse one expression from a token list (fuel = number of tokens). -/
def parseAux : Nat → List String → Option (Sexp × List String)
  | 0, _ => none
  | _, [] => none
  | fuel+1, "(" :: rest =>
    let rec go (f : Nat) (ts : List String) (acc : Array Sexp) : Option (Sexp × List String) :=
      match f, ts with
      | 0, _ => none
      | _, [] => none
      | _, ")" :: r => some (list acc.toList, r)
      | f+1, ts => match parseAux f ts with
        | some (e, r) => go f r (acc.push e)
        | none => none
    go fuel rest #[]
  | _, ")" :: _ => none
  | _, t :: rest => some (atom t, rest)

def parse (s : String) : Option Sexp :=
  let ts := tokens s
  match parseAux (ts.length + 1) ts with
  | some (e, []) => some e
  | _ => none

def asInt? : Sexp → Option Int
  | atom s => s.toInt?
  | _ => none

def asNat? : Sexp → Option Nat
  | atom s => s.toNat?
  | _ => none

def asInts? : Sexp → Option (List Int)
  | list xs => xs.mapM asInt?
  | _ => none

end Sexp
end FpVerif
